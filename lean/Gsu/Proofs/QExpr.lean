/-
Raw (stored-encoding) evaluation of query expressions agrees with the language evaluation
(core-only). The two facts about the encoding that the argument needs are hypotheses here; they
are C13's theorems (`pack` injective, `pack` order-preserving outside the two exceptions).
-/
import Gsu.Model.QExpr
namespace Gsu.QExpr
open Gsu.Proto Gsu.QVal

/-- C13: distinct values have distinct encodings -/
def PackInj : Prop := ∀ a b : Val, pack a = pack b → a = b

/-- the order comparisons evaluated in `e` on row `r` have operands on which the byte order of the
encodings is the language order -/
def OrdOk (r : Row) : Expr → Prop
  | .const _ => True
  | .col _ => True
  | .cmp op a b =>
    (op ≠ .is → op ≠ .isnt → rawCmp (eval r a) (eval r b) = compare (eval r a) (eval r b)) ∧
      OrdOk r a ∧ OrdOk r b
  | .not a => OrdOk r a
  | .and a b => OrdOk r a ∧ OrdOk r b
  | .or a b => OrdOk r a ∧ OrdOk r b
  | .cond c a b => OrdOk r c ∧ OrdOk r a ∧ OrdOk r b
  | .inl a _ => OrdOk r a
  | .ar _ a b => OrdOk r a ∧ OrdOk r b
  | .neg a => OrdOk r a

theorem pack_eq_true_iff (v : Val) : pack v = [tagTrue] ↔ v = .bool true := by
  cases v with
  | bool b => cases b <;> simp [pack, tagTrue, tagFalse]
  | int n =>
    simp only [pack, packNat]
    constructor
    · intro h
      split at h <;> split at h <;> simp [tagMinus, tagPlus, tagTrue] at h
    · intro h; cases h
  | str s =>
    cases s with
    | nil => simp [pack]
    | cons c s => simp [pack, tagString, tagTrue]

theorem isTrue_unpackBool_pack (v : Val) :
    QVal.isTrue (unpackBool (pack v)) = QVal.isTrue v := by
  by_cases h : v = .bool true
  · subst h; rfl
  · have h1 : (v == Val.bool true) = false := by simpa using h
    have h2 : pack v ≠ [tagTrue] := fun hp => h ((pack_eq_true_iff v).1 hp)
    have h3 : (pack v == [tagTrue]) = false := by simpa using h2
    simp only [unpackBool, QVal.isTrue, h1, h3]
    rfl

theorem pack_bool (b : Bool) : pack (.bool b) = packBool b := by
  cases b <;> rfl

theorem unpackBool_packBool (b : Bool) : unpackBool (packBool b) = .bool b := by
  cases b <;> rfl

theorem cmpRaw_eq_cmpVal (hinj : PackInj) (op : CmpOp) (x y : Val)
    (hord : op ≠ .is → op ≠ .isnt → rawCmp x y = compare x y) :
    cmpRaw op (pack x) (pack y) = cmpVal op x y := by
  have heq : (pack x == pack y) = (x == y) := by
    by_cases h : x = y
    · subst h; rw [beq_self_eq_true, beq_self_eq_true]
    · have hp : pack x ≠ pack y := fun hp => h (hinj x y hp)
      rw [beq_false_of_ne h, beq_false_of_ne hp]
  cases op with
  | is => simp only [cmpRaw, cmpVal, heq]
  | isnt => simp only [cmpRaw, cmpVal, bne, heq]
  | lt => simp only [cmpRaw, cmpVal]; rw [← hord (by decide) (by decide)]; rfl
  | lte => simp only [cmpRaw, cmpVal]; rw [← hord (by decide) (by decide)]; rfl
  | gt => simp only [cmpRaw, cmpVal]; rw [← hord (by decide) (by decide)]; rfl
  | gte => simp only [cmpRaw, cmpVal]; rw [← hord (by decide) (by decide)]; rfl

theorem contains_map_pack (hinj : PackInj) (v : Val) :
    ∀ vs : List Val, (vs.map pack).contains (pack v) = vs.contains v
  | [] => rfl
  | w :: vs => by
    have ih := contains_map_pack hinj v vs
    have heq : (pack v == pack w) = (v == w) := by
      by_cases h : v = w
      · subst h; rw [beq_self_eq_true, beq_self_eq_true]
      · have hp : pack v ≠ pack w := fun hp => h (hinj v w hp)
        rw [beq_false_of_ne h, beq_false_of_ne hp]
    simp only [List.map_cons, List.contains_cons, ih, heq]

/-- `EvalRaw` computes the encoding of what `Eval` computes -/
theorem evalRaw_eq_eval (hinj : PackInj) (flds : List Col) (r : Row) :
    ∀ e : Expr, canRaw flds e = true → OrdOk r e → evalRaw r e = pack (eval r e)
  | .const _, _, _ => rfl
  | .col _, _, _ => rfl
  | .cmp op a b, hc, ho => by
    simp only [canRaw, Bool.and_eq_true] at hc
    have ha := evalRaw_eq_eval hinj flds r a hc.1 ho.2.1
    have hb := evalRaw_eq_eval hinj flds r b hc.2 ho.2.2
    simp only [evalRaw, eval, ha, hb, pack_bool, cmpRaw_eq_cmpVal hinj op _ _ ho.1]
  | .not a, hc, ho => by
    simp only [canRaw] at hc
    have ha := evalRaw_eq_eval hinj flds r a hc ho
    simp only [evalRaw, eval, ha, pack_bool, isTrue_unpackBool_pack]
  | .and a b, hc, ho => by
    simp only [canRaw, Bool.and_eq_true] at hc
    have ha := evalRaw_eq_eval hinj flds r a hc.1 ho.1
    have hb := evalRaw_eq_eval hinj flds r b hc.2 ho.2
    simp only [evalRaw, eval, ha, hb, pack_bool, isTrue_unpackBool_pack]
  | .or a b, hc, ho => by
    simp only [canRaw, Bool.and_eq_true] at hc
    have ha := evalRaw_eq_eval hinj flds r a hc.1 ho.1
    have hb := evalRaw_eq_eval hinj flds r b hc.2 ho.2
    simp only [evalRaw, eval, ha, hb, pack_bool, isTrue_unpackBool_pack]
  | .cond c a b, hc, ho => by
    simp only [canRaw, Bool.and_eq_true] at hc
    have hcc := evalRaw_eq_eval hinj flds r c hc.1.1 ho.1
    have ha := evalRaw_eq_eval hinj flds r a hc.1.2 ho.2.1
    have hb := evalRaw_eq_eval hinj flds r b hc.2 ho.2.2
    simp only [evalRaw, eval, hcc, ha, hb, isTrue_unpackBool_pack]
    split <;> rfl
  | .inl a vs, hc, ho => by
    simp only [canRaw] at hc
    have ha := evalRaw_eq_eval hinj flds r a hc ho
    simp only [evalRaw, eval, ha, pack_bool, contains_map_pack hinj]
  | .ar _ _ _, hc, _ => by simp [canRaw] at hc
  | .neg _, hc, _ => by simp [canRaw] at hc

theorem unpackBool_evalRaw_bool (hinj : PackInj) (flds : List Col) (r : Row) (e : Expr) (b : Bool)
    (hc : canRaw flds e = true) (ho : OrdOk r e) (hb : eval r e = .bool b) :
    unpackBool (evalRaw r e) = eval r e := by
  rw [evalRaw_eq_eval hinj flds r e hc ho, hb, pack_bool, unpackBool_packBool]

/-- what the engine computes (`evalX`: raw where flagged) is the language value -/
theorem evalX_eq_eval (hinj : PackInj) (flds : List Col) (r : Row) :
    ∀ e : Expr, OrdOk r e → evalX flds r e = eval r e
  | .const _, _ => rfl
  | .col _, _ => rfl
  | .cmp op a b, ho => by
    simp only [evalX]
    split
    · rename_i hc
      exact unpackBool_evalRaw_bool hinj flds r _ _ hc ho rfl
    · split
      · rw [evalX_eq_eval hinj flds r a ho.2.1, evalX_eq_eval hinj flds r b ho.2.2]; rfl
      · rw [evalX_eq_eval hinj flds r a ho.2.1]; rfl
  | .not a, ho => by
    simp only [evalX]
    split
    · rename_i hc
      exact unpackBool_evalRaw_bool hinj flds r (.not a) _ (by simpa [canRaw] using hc) ho rfl
    · rw [evalX_eq_eval hinj flds r a ho]; rfl
  | .and a b, ho => by
    simp only [evalX]
    split
    · rename_i hc
      exact unpackBool_evalRaw_bool hinj flds r _ _ hc ho rfl
    · rw [evalX_eq_eval hinj flds r a ho.1, evalX_eq_eval hinj flds r b ho.2]; rfl
  | .or a b, ho => by
    simp only [evalX]
    split
    · rename_i hc
      exact unpackBool_evalRaw_bool hinj flds r _ _ hc ho rfl
    · rw [evalX_eq_eval hinj flds r a ho.1, evalX_eq_eval hinj flds r b ho.2]; rfl
  | .cond c a b, ho => by
    have ha := evalX_eq_eval hinj flds r a ho.2.1
    have hb := evalX_eq_eval hinj flds r b ho.2.2
    simp only [evalX, ha, hb]
    split
    · rename_i hc
      simp only [canRaw, Bool.and_eq_true] at hc
      rw [evalRaw_eq_eval hinj flds r c hc.1.1 ho.1, isTrue_unpackBool_pack]; rfl
    · rw [evalX_eq_eval hinj flds r c ho.1]; rfl
  | .inl a vs, ho => by
    simp only [evalX]
    split
    · rename_i hc
      exact unpackBool_evalRaw_bool hinj flds r (.inl a vs) _ (by simpa [canRaw] using hc) ho rfl
    · rw [evalX_eq_eval hinj flds r a ho]; rfl
  | .ar op a b, _ => by
    simp only [evalX, eval]
  | .neg a, ho => by
    simp only [evalX, eval, evalX_eq_eval hinj flds r a ho]

/-! ### where the byte order of the encodings is the language order -/

/-- the documented exception: `""` is stored as the empty encoding and sorts before everything,
while the language orders it with the strings (after booleans and numbers) -/
def EmptyExc (a b : Val) : Prop :=
  (a = .str [] ∧ ord b < 2) ∨ (b = .str [] ∧ ord a < 2)

theorem packNat_head (tag x : UInt8) (u : Nat) : ∃ rest, packNat tag x u = tag :: rest := by
  simp only [packNat]
  split
  · exact ⟨[], rfl⟩
  · exact ⟨_, rfl⟩

theorem pack_int_head (n : Int) : ∃ t rest, pack (.int n) = t :: rest ∧ (t = tagMinus ∨ t = tagPlus) := by
  simp only [pack]
  split
  · obtain ⟨rest, h⟩ := packNat_head tagMinus 0xff n.natAbs
    exact ⟨_, rest, h, Or.inl rfl⟩
  · obtain ⟨rest, h⟩ := packNat_head tagPlus 0 n.natAbs
    exact ⟨_, rest, h, Or.inr rfl⟩

theorem cmpB_head_lt (a b : UInt8) (as bs : Bytes) (h : a < b) : cmpB (a :: as) (b :: bs) = .lt := by
  simp only [cmpB, if_pos h]

theorem cmpB_head_gt (a b : UInt8) (as bs : Bytes) (h : b < a) : cmpB (a :: as) (b :: bs) = .gt := by
  have hn : ¬ a < b := fun h' => absurd (UInt8.lt_trans h h') (UInt8.lt_irrefl _)
  simp only [cmpB, if_neg hn, if_pos h]

theorem cmpB_head_eq (a : UInt8) (as bs : Bytes) : cmpB (a :: as) (a :: bs) = cmpB as bs := by
  simp only [cmpB, if_neg (UInt8.lt_irrefl a)]

/-- Outside the `""` exception and apart from number-against-number (C13's order theorem, with
its negative-prefix exception), comparing the encodings is comparing the values. -/
theorem rawCmp_eq_compare (a b : Val) (hne : ¬ EmptyExc a b)
    (hint : ∀ m n, a = Val.int m → b = Val.int n →
      rawCmp (Val.int m) (Val.int n) = QVal.compare (Val.int m) (Val.int n)) :
    rawCmp a b = QVal.compare a b := by
  cases a with
  | bool x =>
    cases b with
    | bool y => cases x <;> cases y <;> rfl
    | int n =>
      obtain ⟨t, rest, hp, ht⟩ := pack_int_head n
      have hlt : ∀ u : UInt8, (u = tagFalse ∨ u = tagTrue) → u < t := by
        intro u hu
        rcases hu with rfl | rfl <;> rcases ht with rfl | rfl <;> decide
      unfold rawCmp
      rw [hp]
      cases x
      · exact cmpB_head_lt _ _ _ _ (hlt _ (Or.inl rfl))
      · exact cmpB_head_lt _ _ _ _ (hlt _ (Or.inr rfl))
    | str s =>
      cases s with
      | nil => exact absurd (Or.inr ⟨rfl, by show (0 : Nat) < 2; decide⟩) hne
      | cons c s =>
        simp only [rawCmp, pack]
        cases x
        · exact cmpB_head_lt _ _ _ _ (by decide)
        · exact cmpB_head_lt _ _ _ _ (by decide)
  | int m =>
    cases b with
    | bool y =>
      obtain ⟨t, rest, hp, ht⟩ := pack_int_head m
      have hlt : ∀ u : UInt8, (u = tagFalse ∨ u = tagTrue) → u < t := by
        intro u hu
        rcases hu with rfl | rfl <;> rcases ht with rfl | rfl <;> decide
      unfold rawCmp
      rw [hp]
      cases y
      · exact cmpB_head_gt _ _ _ _ (hlt _ (Or.inl rfl))
      · exact cmpB_head_gt _ _ _ _ (hlt _ (Or.inr rfl))
    | int n => exact hint m n rfl rfl
    | str s =>
      cases s with
      | nil => exact absurd (Or.inr ⟨rfl, by show (1 : Nat) < 2; decide⟩) hne
      | cons c s =>
        obtain ⟨t, rest, hp, ht⟩ := pack_int_head m
        have : t < tagString := by rcases ht with rfl | rfl <;> decide
        unfold rawCmp
        rw [hp]
        exact cmpB_head_lt _ _ _ _ this
  | str s =>
    cases b with
    | bool y =>
      cases s with
      | nil => exact absurd (Or.inl ⟨rfl, by show (0 : Nat) < 2; decide⟩) hne
      | cons c s =>
        simp only [rawCmp, pack]
        cases y
        · exact cmpB_head_gt _ _ _ _ (by decide)
        · exact cmpB_head_gt _ _ _ _ (by decide)
    | int n =>
      cases s with
      | nil => exact absurd (Or.inl ⟨rfl, by show (1 : Nat) < 2; decide⟩) hne
      | cons c s =>
        obtain ⟨t, rest, hp, ht⟩ := pack_int_head n
        have : t < tagString := by rcases ht with rfl | rfl <;> decide
        unfold rawCmp
        rw [hp]
        exact cmpB_head_gt _ _ _ _ this
    | str s' =>
      cases s with
      | nil =>
        cases s' with
        | nil => rfl
        | cons c' s' => rfl
      | cons c s =>
        cases s' with
        | nil => rfl
        | cons c' s' =>
          simp only [rawCmp, pack, QVal.compare]
          exact cmpB_head_eq _ _ _

end Gsu.QExpr
