/-
C39 (ranges), tree form, part 5: locating the leaf — `split` of a full leaf (also the
leaf form → tree form transition), `treeNode.insert`, the repeated search.
Core-only.
-/
import Gsu.Proofs.RangesTree4
namespace Gsu.Ranges
open Gsu.Ordset (Key bs bs_unique Sorted)

/-- the split points lie strictly inside the node (checked for the regenerated constants in Props) -/
structure Params.Valid (P : Params) : Prop where
  lo : 0 < P.leftLo ∧ P.leftLo < P.nodeSize
  mid : 0 < P.leftMid ∧ P.leftMid < P.nodeSize
  hi : 0 < P.leftHi ∧ P.leftHi < P.nodeSize

theorem splitPoint_bounds {P : Params} (hP : P.Valid) (l : Leaf) (k : Key) :
    0 < splitPoint P l k ∧ splitPoint P l k < P.nodeSize := by
  unfold splitPoint
  split
  · exact hP.hi
  · split
    · exact hP.lo
    · exact hP.mid

theorem tsearch_mid (pre : Tree) (s : TSlot) (post : Tree) (k : Key)
    (hs : Sorted (vals (pre ++ s :: post))) (h1 : ∀ a ∈ pre, a.val ≤ k) (h1' : s.val ≤ k)
    (h2 : ∀ b ∈ post, k < b.val) : Tree.search (pre ++ s :: post) k = pre.length + 1 := by
  rw [tsearch_eq_bs]
  have := bs_unique (vals (pre ++ s :: post)) (fun y => decide (y ≤ k)) hs (le_closed k)
    (vals pre ++ [s.val]) (vals post) (by simp [vals])
    (by
      intro y hy
      simp only [vals, List.mem_append, List.mem_map, List.mem_singleton] at hy
      rcases hy with ⟨a, ha, rfl⟩ | rfl
      · simpa using h1 a ha
      · simpa using h1')
    (by
      intro y hy
      simp only [vals, List.mem_map] at hy
      obtain ⟨b, hb, rfl⟩ := hy
      have := h2 b hb
      simp only [decide_eq_false_iff_not]
      grind)
  rw [this]; simp [vals]

theorem tinsert_mid (pre : Tree) (s1 : TSlot) (post : Tree) (sep : Key) (l2 : Leaf)
    (hs : Sorted (vals (pre ++ s1 :: post))) (h1 : ∀ a ∈ pre, a.val ≤ sep) (h1' : s1.val ≤ sep)
    (h2 : ∀ b ∈ post, sep < b.val) :
    Tree.insert (pre ++ s1 :: post) sep l2 = pre ++ s1 :: ⟨sep, l2⟩ :: post := by
  have e : pre ++ s1 :: post = (pre ++ [s1]) ++ post := by simp
  have hl : (pre ++ [s1]).length = pre.length + 1 := by simp
  show List.take (Tree.search (pre ++ s1 :: post) sep) (pre ++ s1 :: post) ++
      ⟨sep, l2⟩ :: List.drop (Tree.search (pre ++ s1 :: post) sep) (pre ++ s1 :: post) = _
  rw [tsearch_mid pre s1 post sep hs h1 h1' h2, e, ← hl, List.take_left' rfl, List.drop_left' rfl]
  simp

theorem vals_setLeaf (pre : Tree) (s : TSlot) (post : Tree) (l : Leaf) :
    vals (pre ++ ⟨s.val, l⟩ :: post) = vals (pre ++ s :: post) := by simp [vals]

/-- splitting the full routed leaf `s`: the tree gets the right half as a new slot right after `s`,
with separator the start of its first range; invariant kept, flat list unchanged -/
theorem split_spec (P : Params) (hP : P.Valid) (pre post : Tree) (s : TSlot) (f : Key)
    (h : TreeOK P (pre ++ s :: post)) (hlen : (pre ++ s :: post).length < P.nodeSize)
    (hfull : s.leaf.size ≥ P.nodeSize) :
    ∃ l1 l2 sep,
      ((pre ++ s :: post).setLeaf pre.length (splitLeaf P s.leaf f).1).insert
          ((splitLeaf P s.leaf f).2.get 0).frm (splitLeaf P s.leaf f).2 =
        pre ++ ⟨s.val, l1⟩ :: ⟨sep, l2⟩ :: post ∧
      TreeOK P (pre ++ ⟨s.val, l1⟩ :: ⟨sep, l2⟩ :: post) ∧
      l1.live ++ l2.live = s.leaf.live ∧ l1.size < P.nodeSize ∧ l2.size < P.nodeSize := by
  have h' := treeOK'_of_treeOK h
  obtain ⟨d1, d2, d3, d4, d5, d6, d7⟩ := disassemble_ok h'
  obtain ⟨hb1, hb2⟩ := mid_before h
  have hS := h.slots s (by simp)
  obtain ⟨hl0, hl1⟩ := splitPoint_bounds hP s.leaf f
  have hsz : s.leaf.size = P.nodeSize := by have := hS.leaf.sz; omega
  have hlive : s.leaf.live = s.leaf.slots := by
    simp only [Leaf.live]; exact List.take_of_length_le (by rw [hS.leaf.len, hsz]; exact Nat.le_refl _)
  generalize hleft : splitPoint P s.leaf f = left at hl0 hl1
  have hdl : left < s.leaf.slots.length := by rw [hS.leaf.len]; exact hl1
  obtain ⟨x0, tl, hdrop⟩ : ∃ x0 tl, s.leaf.slots.drop left = x0 :: tl :=
    ⟨_, _, List.drop_eq_getElem_cons hdl⟩
  have hl2live : (Leaf.mk (s.leaf.slots.drop left ++ List.replicate left Slot.zero) (P.nodeSize - left)).live
      = x0 :: tl := by
    simp only [Leaf.live]
    rw [List.take_left' (by rw [List.length_drop, hS.leaf.len]), hdrop]
  have hl1live : (Leaf.mk s.leaf.slots left).live = s.leaf.slots.take left := rfl
  have hget : (Leaf.mk (s.leaf.slots.drop left ++ List.replicate left Slot.zero) (P.nodeSize - left)).get 0 = x0 := by
    simp [Leaf.get, hdrop]
  have hjoin : s.leaf.slots.take left ++ (x0 :: tl) = s.leaf.live := by
    rw [← hdrop, List.take_append_drop, hlive]
  have hx0mem : x0 ∈ s.leaf.live := by rw [← hjoin]; simp
  refine ⟨⟨s.leaf.slots, left⟩, ⟨s.leaf.slots.drop left ++ List.replicate left Slot.zero, P.nodeSize - left⟩,
    x0.frm, ?_, ?_, by rw [hl1live, hl2live, hjoin], hl1, by show P.nodeSize - left < P.nodeSize; omega⟩
  · simp only [splitLeaf, hleft, setLeaf_mid, hget]
    apply tinsert_mid
    · rw [vals_setLeaf]; exact vals_sorted h.ordered
    · intro a ha
      have := (hb1 a ha).1
      have := hS.lower x0 hx0mem
      grind
    · exact hS.lower x0 hx0mem
    · intro b hb
      have := (hb2 b hb).2 x0 hx0mem
      have := hS.leaf.ds.wf x0 hx0mem
      grind
  · apply treeOK_of_treeOK'
    apply assemble_ok pre (⟨x0.frm, _⟩ :: post) ⟨s.val, ⟨s.leaf.slots, left⟩⟩
    · simp only [List.length_append, List.length_cons] at hlen ⊢; omega
    · intro a ha
      cases pre with
      | nil => simp at ha; subst ha; exact d1 s rfl
      | cons b pre' => exact d1 a (by simpa using ha)
    · exact d2
    · exact d3
    · exact ⟨hS.leaf.len, Nat.le_of_lt hl1, hl0⟩
    · intro hne
      obtain ⟨x, rest, hx, hv⟩ := d5 hne
      rw [hlive] at hx
      refine ⟨x, rest.take (left - 1), ?_, hv⟩
      show s.leaf.slots.take left = _
      rw [hx]
      obtain ⟨m, rfl⟩ : ∃ m, left = m + 1 := ⟨left - 1, by omega⟩
      simp
    · intro b hb
      rcases List.mem_cons.mp hb with rfl | hb
      · refine ⟨⟨?_, Nat.sub_le _ _, by show 0 < P.nodeSize - left; omega⟩, x0, tl, hl2live, rfl⟩
        simp only [List.length_append, List.length_drop, List.length_replicate, hS.leaf.len]; omega
      · exact d6 b hb
    · rw [tflat_cons, hl2live, hl1live, ← List.append_assoc (s.leaf.slots.take left), hjoin]
      exact d7

/-- where `f` routes after the split: to one of the two halves -/
theorem route_two (P : Params) (pre post : Tree) (v sep : Key) (l1 l2 : Leaf) (f : Key)
    (h : TreeOK P (pre ++ ⟨v, l1⟩ :: ⟨sep, l2⟩ :: post)) (hk1 : v ≤ f) (hk2 : ∀ b ∈ post, f < b.val)
    (hs1 : l1.size < P.nodeSize) (hs2 : l2.size < P.nodeSize) :
    ∃ pre2 s2 post2, pre ++ ⟨v, l1⟩ :: ⟨sep, l2⟩ :: post = pre2 ++ s2 :: post2 ∧
      Tree.search (pre ++ ⟨v, l1⟩ :: ⟨sep, l2⟩ :: post) f - 1 = pre2.length ∧
      s2.val ≤ f ∧ (∀ b ∈ post2, f < b.val) ∧ s2.leaf.size < P.nodeSize := by
  have hks := vals_sorted h.ordered
  obtain ⟨hb1, _⟩ := mid_before h
  have hpre : ∀ a ∈ pre, a.val ≤ f := by
    intro a ha
    have := (hb1 a ha).1
    have : a.val < v := this
    grind
  by_cases hc : f < sep
  · refine ⟨pre, ⟨v, l1⟩, ⟨sep, l2⟩ :: post, rfl, ?_, hk1, ?_, hs1⟩
    · rw [tsearch_mid pre _ _ f hks hpre hk1 (by
        intro b hb
        rcases List.mem_cons.mp hb with rfl | hb
        · exact hc
        · exact hk2 b hb)]
      simp
    · intro b hb
      rcases List.mem_cons.mp hb with rfl | hb
      · exact hc
      · exact hk2 b hb
  · have e : pre ++ ⟨v, l1⟩ :: ⟨sep, l2⟩ :: post = (pre ++ [⟨v, l1⟩]) ++ ⟨sep, l2⟩ :: post := by simp
    refine ⟨pre ++ [⟨v, l1⟩], ⟨sep, l2⟩, post, e, ?_, by show sep ≤ f; grind, hk2, hs2⟩
    rw [e] at hks ⊢
    rw [tsearch_mid _ _ _ f hks (by
        intro a ha
        rcases List.mem_append.mp ha with ha | ha
        · exact hpre a ha
        · simp at ha; subst ha; exact hk1)
      (by show sep ≤ f; grind) hk2]
    simp

theorem singleton_tree_ok {P : Params} {l : Leaf} (h : LeafOK P l) (hpos : 0 < l.size) (hn : 1 ≤ P.nodeSize) :
    TreeOK P [⟨[], l⟩] := by
  refine ⟨by simp, by simpa using hn, by simp, ?_, by simp, by simp⟩
  intro s hs
  simp only [List.mem_singleton] at hs
  subst hs
  exact ⟨h, hpos, fun x _ => nil_le_key _⟩

/-- the first half of `Insert`: Full only when the node already has `nodeSize` leaves; otherwise a
state with the same ranges satisfying the invariant, and a routed leaf with room -/
theorem locate_spec (P : Params) (hP : P.Valid) (rs : Ranges) (f : Key) (h : RangesOK P rs) :
    (locate P rs f = none ∧ ∃ tr, rs = .big tr ∧ P.nodeSize ≤ tr.length ∧
        P.nodeSize ≤ (tr.leafAt P (tr.search f - 1)).size) ∨
    (∃ l, rs = .small l ∧ l.size < P.nodeSize ∧ locate P rs f = some (rs, 0)) ∨
    (∃ pre s post, locate P rs f = some (.big (pre ++ s :: post), pre.length) ∧
        TreeOK P (pre ++ s :: post) ∧ s.val ≤ f ∧ (∀ b ∈ post, f < b.val) ∧ s.leaf.size < P.nodeSize ∧
        tflat (pre ++ s :: post) = rs.flat) := by
  have hn2 : 2 ≤ P.nodeSize := by have := hP.lo; omega
  cases rs with
  | small l =>
    by_cases hfull : l.size ≥ P.nodeSize
    · right; right
      have hT : TreeOK P ([] ++ (⟨[], l⟩ : TSlot) :: []) :=
        singleton_tree_ok h (by omega) (by omega)
      obtain ⟨l1, l2, sep, e1, e2, e3, e4, e5⟩ := split_spec P hP [] [] ⟨[], l⟩ f hT (by simp only [List.nil_append, List.length_cons, List.length_nil]; omega) hfull
      obtain ⟨pre2, s2, post2, r1, r2, r3, r4, r5⟩ := route_two P [] [] [] sep l1 l2 f e2 (nil_le_key _) (by simp) e4 e5
      refine ⟨pre2, s2, post2, ?_, r1 ▸ e2, r3, r4, r5, ?_⟩
      · simp only [List.nil_append, List.length_nil] at e1 r1 r2
        rw [r1] at r2
        simp only [locate, Ranges.leafAt, ↓reduceIte, hfull, e1, r1, r2]
      · rw [← r1]
        simp only [List.nil_append, tflat_cons, tflat_nil, List.append_nil]
        exact e3
    · right; left
      exact ⟨l, rfl, by omega, by simp only [locate, Ranges.leafAt, ↓reduceIte, hfull]⟩
  | big t =>
    have hT : TreeOK P t := h
    obtain ⟨pre, s, post, rfl, hr, hk1, hk2⟩ := route t (vals_sorted hT.ordered) hT.ne hT.first f
    have hti : Tree.search (pre ++ s :: post) f - 1 = pre.length := by omega
    by_cases hfull : s.leaf.size ≥ P.nodeSize
    · by_cases hlen : (pre ++ s :: post).length ≥ P.nodeSize
      · left
        refine ⟨?_, _, rfl, hlen, by rw [hti, leafAt_mid]; exact hfull⟩
        simp only [locate, hti, Ranges.leafAt, leafAt_mid, hfull, ↓reduceIte, hlen]
      · right; right
        obtain ⟨l1, l2, sep, e1, e2, e3, e4, e5⟩ := split_spec P hP pre post s f hT (by omega) hfull
        obtain ⟨pre2, s2, post2, r1, r2, r3, r4, r5⟩ := route_two P pre post s.val sep l1 l2 f e2 hk1 hk2 e4 e5
        refine ⟨pre2, s2, post2, ?_, r1 ▸ e2, r3, r4, r5, ?_⟩
        · rw [r1] at r2
          simp only [locate, hti, Ranges.leafAt, leafAt_mid, hfull, ↓reduceIte, hlen, e1, r1, r2]
        · rw [← r1, flat_big]
          simp only [tflat_append, tflat_cons, ← e3, List.append_assoc]
    · right; right
      refine ⟨pre, s, post, ?_, hT, hk1, hk2, by omega, rfl⟩
      simp only [locate, hti, Ranges.leafAt, leafAt_mid, hfull, ↓reduceIte]

end Gsu.Ranges
