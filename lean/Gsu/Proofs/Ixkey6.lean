import Gsu.Proofs.Ixkey5
namespace Gsu.Ixkey
open Gsu.Proto

theorem hasPrefix_iff_raw (s p : Bytes) :
    hasPrefix s p = true ↔ s = p ∨ ∃ r, s = p ++ 0 :: 0 :: r := by
  constructor
  · intro h
    simp only [hasPrefix, Bool.and_eq_true, List.isPrefixOf_iff_prefix] at h
    obtain ⟨⟨t, rfl⟩, h2⟩ := h
    cases t with
    | nil => left; simp
    | cons x t =>
      cases t with
      | nil => simp [sep] at h2
      | cons y t =>
        right
        simp [sep] at h2
        exact ⟨t, by rw [h2.1, h2.2]⟩
  · rintro (rfl | ⟨r, rfl⟩)
    · simp [hasPrefix]
    · simp [hasPrefix, sep]

theorem hasPrefix_nil (s : Bytes) : hasPrefix s [] = true ↔ s = [] ∨ ∃ r, s = 0 :: 0 :: r := by
  simpa using hasPrefix_iff_raw s []

theorem splitSep_joinEnc_sep {ps : List Bytes} (h : ps ≠ []) (r : Bytes) :
    splitSep (joinEnc ps ++ 0 :: 0 :: r) = ps.map enc ++ splitSep r := by
  induction ps with
  | nil => exact absurd rfl h
  | cons f fs ih =>
    cases fs with
    | nil => simp [joinEnc, splitSep_enc_sep]
    | cons g fs =>
      rw [joinEnc_cons2, List.append_assoc, List.cons_append, List.cons_append, splitSep_enc_sep,
        ih (by simp)]
      simp

theorem prefix_of_map_enc (ps vs : List Bytes) (t : List Bytes) (h : vs.map enc = ps.map enc ++ t) :
    ps <+: vs := by
  induction ps generalizing vs with
  | nil => exact List.nil_prefix
  | cons p ps ih =>
    cases vs with
    | nil => simp at h
    | cons v vs =>
      simp only [List.map_cons, List.cons_append, List.cons.injEq] at h
      rw [enc_inj h.1]
      exact List.cons_prefix_cons.mpr ⟨rfl, ih vs h.2⟩

theorem joinEnc_append {ps rest : List Bytes} (hp : ps ≠ []) (hr : rest ≠ []) :
    joinEnc (ps ++ rest) = joinEnc ps ++ 0 :: 0 :: joinEnc rest := by
  induction ps with
  | nil => exact absurd rfl hp
  | cons f fs ih =>
    cases fs with
    | nil =>
      cases rest with
      | nil => exact absurd rfl hr
      | cons g gs => simp [joinEnc]
    | cons g fs =>
      have := ih (by simp)
      simp only [List.cons_append] at this ⊢
      rw [joinEnc_cons2, joinEnc_cons2, this]
      simp

theorem hasPrefix_iff (vs ps : List Bytes) (hv : vs ≠ []) (hp : ps ≠ []) :
    hasPrefix (joinEnc vs) (joinEnc ps) = true ↔ ps <+: vs := by
  rw [hasPrefix_iff_raw]
  constructor
  · rintro (h | ⟨r, h⟩)
    · have := congrArg splitSep h
      rw [splitSep_joinEnc hv, splitSep_joinEnc hp] at this
      exact prefix_of_map_enc ps vs [] (by simpa using this)
    · have := congrArg splitSep h
      rw [splitSep_joinEnc hv, splitSep_joinEnc_sep hp] at this
      exact prefix_of_map_enc ps vs _ this
  · rintro ⟨rest, rfl⟩
    by_cases hr : rest = []
    · left; simp [hr]
    · right; exact ⟨joinEnc rest, joinEnc_append hp hr⟩

end Gsu.Ixkey
