/-
Lemmas for C29 about the reference scoping semantics `Gsu.Model.LangBlocks`. Core Lean only.
-/
import Gsu.Model.LangBlocks
namespace Gsu.LangBlocks

theorem binding_param (chain : List Scope) (s : Scope) (v : Nat) (h : isParam s v = true) :
    bindingGo chain s v = s := by
  cases chain with
  | nil => rfl
  | cons p rest => simp [bindingGo, h]

theorem binding_nearest_user (p : Scope) (rest : List Scope) (s : Scope) (v : Nat)
    (hs : isParam s v = false) (hp : usesD p v = true) :
    bindingGo (p :: rest) s v = bindingGo rest p v := by
  simp [bindingGo, hs, hp]

theorem binding_skip_nonuser (p : Scope) (rest : List Scope) (s : Scope) (v : Nat)
    (hs : isParam s v = false) (hp : usesD p v = false) :
    bindingGo (p :: rest) s v = bindingGo rest s v := by
  simp [bindingGo, hs, hp]

theorem binding_lexical (chain : List Scope) (s : Scope) (v : Nat) :
    bindingGo chain s v = s ∨
      (bindingGo chain s v ∈ chain ∧ usesD (bindingGo chain s v) v = true) := by
  induction chain generalizing s with
  | nil => exact Or.inl rfl
  | cons p rest ih =>
    simp only [bindingGo]
    by_cases hs : isParam s v = true
    · simp [hs]
    · by_cases hp : usesD p v = true
      · simp only [hs, hp, if_true, Bool.false_eq_true, if_false]
        rcases ih p with h | ⟨h1, h2⟩
        · right; rw [h]; exact ⟨List.mem_cons_self .., hp⟩
        · right; exact ⟨List.mem_cons_of_mem _ h1, h2⟩
      · simp only [hs, hp, Bool.false_eq_true, if_false]
        rcases ih s with h | ⟨h1, h2⟩
        · left; exact h
        · right; exact ⟨List.mem_cons_of_mem _ h1, h2⟩

theorem reach_of_kid (v : Nat) (n : Nat) (p k : Scope) (hk : k ∈ kids p)
    (hpar : isParam k v = false) (hu : usesD k v = true) : reach v (n + 1) p = true := by
  simp only [reach, List.any_eq_true]
  exact ⟨k, hk, by simp [hpar, hu]⟩

theorem cell_same_as_parent (p k : Scope) (rest : List Scope) (v : Nat)
    (hk : k ∈ kids p) (hpar : isParam k v = false) (hu : usesD k v = true)
    (hp : usesD p v = true)
    (hidk : (bindingGo rest p v).id ≠ k.id)
    (hidp : bindingGo rest p v = p ∨ (bindingGo rest p v).id ≠ p.id) :
    cellOf k (p :: rest) v = cellOf p rest v := by
  simp only [cellOf, binding_nearest_user p rest k v hpar hp]
  have h1 : ((bindingGo rest p v).id != k.id) = true := by simpa using hidk
  simp only [h1, Bool.true_or, if_true]
  rcases hidp with h | h
  · rw [h]
    have : reach v reachFuel p = true := reach_of_kid v 15 p k hk hpar hu
    simp [this]
  · have h2 : ((bindingGo rest p v).id != p.id) = true := by simpa using h
    simp [h2]

theorem lget_nil (n : Nat) : lget [] n = none := rfl

theorem private_fresh (s : Scope) (chain : List Scope) (act : Nat) (v : Nat) (st : State) (n : Nat)
    (h : cellOf s chain v = .priv n) : readVar ⟨s, chain, act, []⟩ st v = none := by
  simp [readVar, h, lget]

theorem sget_sput (st : Store) (k : Nat × Nat × Nat) (x : Val) : sget (sput st k x) k = some x := by
  induction st with
  | nil => simp [sput, sget]
  | cons hd tl ih =>
    obtain ⟨k', v'⟩ := hd
    simp only [sput]
    by_cases h : k' = k
    · simp [h, sget]
    · simp [h, sget, ih]

theorem sget_sput_ne (st : Store) (k k2 : Nat × Nat × Nat) (x : Val) (hne : k ≠ k2) :
    sget (sput st k x) k2 = sget st k2 := by
  induction st with
  | nil =>
    simp only [sput, sget]
    simp [hne]
  | cons hd tl ih =>
    obtain ⟨k', v'⟩ := hd
    simp only [sput]
    by_cases h : k' = k
    · subst h
      simp [sget, hne]
    · simp only [h, if_false, sget]
      by_cases h2 : k' = k2
      · simp [h2]
      · simp [h2, ih]

theorem shared_write_read (s1 s2 : Scope) (c1 c2 : List Scope) (act : Nat) (l1 l2 : Locals)
    (st : State) (v w : Nat) (x : Val) (p n : Nat)
    (h1 : cellOf s1 c1 v = .shared p n) (h2 : cellOf s2 c2 w = .shared p n) :
    readVar ⟨s2, c2, act, l2⟩ (writeVar ⟨s1, c1, act, l1⟩ st v x).2 w = some x := by
  simp [readVar, writeVar, h1, h2, sget_sput]

theorem other_call_unaffected (s1 s2 : Scope) (c1 c2 : List Scope) (a1 a2 : Nat) (l1 l2 : Locals)
    (st : State) (v w : Nat) (x : Val) (hne : a1 ≠ a2) :
    readVar ⟨s2, c2, a2, l2⟩ (writeVar ⟨s1, c1, a1, l1⟩ st v x).2 w =
      readVar ⟨s2, c2, a2, l2⟩ st w := by
  simp only [readVar, writeVar]
  cases h1 : cellOf s1 c1 v with
  | priv n => rfl
  | shared p n =>
    cases h2 : cellOf s2 c2 w with
    | priv m => rfl
    | shared q m =>
      simp only
      apply sget_sput_ne
      intro h
      exact hne (by cases h; rfl)

theorem private_write_keeps_store (s : Scope) (c : List Scope) (act : Nat) (l : Locals)
    (st : State) (v : Nat) (x : Val) (n : Nat) (h : cellOf s c v = .priv n) :
    (writeVar ⟨s, c, act, l⟩ st v x).2 = st := by
  simp [writeVar, h]

theorem function_block_binds_itself (n : Nat) (chain : List Scope) (k : Scope)
    (h : isClosure (n + 1) chain k = false) :
    ∀ v ∈ namesD k, (bindingGo chain k v).id = k.id := by
  intro v hv
  simp only [isClosure, Bool.or_eq_false_iff, List.any_eq_false] at h
  have := h.1.2 v hv
  simpa using this

theorem function_block_kids (n : Nat) (chain : List Scope) (k : Scope)
    (h : isClosure (n + 1) chain k = false) :
    hasRet k = false ∧ ∀ c ∈ kids k, isClosure n (k :: chain) c = false := by
  simp only [isClosure, Bool.or_eq_false_iff, List.any_eq_false] at h
  refine ⟨h.1.1, ?_⟩
  intro c hc
  have := h.2 c hc
  simpa using this

/-- the catch variable of a try counts as a use of the name in that scope -/
theorem catch_var_is_use (s : Scope) (x w : Nat) (e : Expr) (h : Stmt.tryc x e w ∈ s.body) :
    usesD s w = true := by
  simp only [usesD, Bool.or_eq_true, List.any_eq_true]
  left; right
  exact ⟨_, h, by simp [stmtUses]⟩

end Gsu.LangBlocks
