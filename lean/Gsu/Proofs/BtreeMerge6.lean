/-
C10 — short keys: `MergeAndSave` keeps every node within `maxNodeSize` (instantiation of the
generic step of `BtreeMerge5.lean`). Core-only.
-/
import Gsu.Proofs.BtreeMerge5
namespace Gsu.Btree

def KeysLe (L : Nat) (es : List KV) : Prop := ∀ e ∈ es, e.1.length ≤ L

/-- a stored leaf below the root, with keys of at most `L` bytes -/
def LeafQ (split L : Nat) (l : Leaf) : Prop := LeafB none none l ∧ LeafC split l ∧ KeysLe L l.es
/-- the root leaf (may be empty) -/
def LeafQ0 (split L : Nat) (l : Leaf) : Prop :=
  LeafB none none l ∧ l.es.length ≤ split ∧ KeysLe L l.es

def SepLe (L : Nat) (s : Key) : Prop := s.length ≤ L

theorem applyOne_keys {m m' : List KV} {k : Key} {op : Op} {o : Nat} (hs : Sorted m)
    (h : applyOne m k op o = some m') : ∀ e ∈ m', e.1 = k ∨ ∃ e' ∈ m, e.1 = e'.1 := by
  intro e he
  cases op with
  | add =>
    obtain ⟨_, _, _, d⟩ := ins_spec hs h
    rcases d e he with rfl | h'
    · exact Or.inl rfl
    · exact Or.inr ⟨e, h', rfl⟩
  | upd => obtain ⟨_, _, _, d⟩ := upd_spec hs h; exact Or.inr (d e he)
  | del => obtain ⟨_, _, _, d⟩ := del_spec hs h; exact Or.inr ⟨e, d e he, rfl⟩

/-- the separator of a leaf split is not longer than the first key of the right half -/
theorem split_sep_length {l a b : Leaf} {s : Key} (hp : l.PreOK) (h : l.split = some (.two a s b)) :
    ∃ e ∈ l.es, s.length ≤ e.1.length := by
  unfold Leaf.split at h
  simp only at h
  cases hL : (l.es.take (l.es.length / 2)).getLast? with
  | none => simp [hL] at h
  | some ep =>
    cases hR : (l.es.drop (l.es.length / 2)).head? with
    | none => simp [hL, hR] at h
    | some en =>
      obtain ⟨kp, op⟩ := ep
      obtain ⟨kn, on⟩ := en
      simp only [hL, hR, Option.some.injEq, Res.two.injEq] at h
      obtain ⟨_, hs, _⟩ := h
      obtain ⟨R0, hR0⟩ := List.head?_eq_some_iff.mp hR
      have hmem : (kn, on) ∈ l.es := List.mem_of_mem_drop (by rw [hR0]; simp)
      refine ⟨(kn, on), hmem, ?_⟩
      obtain ⟨_, _, p, hpl, hpall⟩ := hp
      have hlen : l.pre ≤ kn.length := by
        have := (hpall _ hmem).length_le; simp only at this; omega
      rw [← hs]
      have h1 : l.prefix.length ≤ l.pre := by simp [Leaf.prefix, List.length_take]; omega
      have h2 := sepKey_length_le (kp.drop l.pre) (kn.drop l.pre)
      simp only [List.length_append, List.length_drop] at h2 ⊢
      omega

theorem leaf_merge_q {split L : Nat} (h1 : 1 ≤ split) {k : Key} (hk : k.length ≤ L) (op : Op) (o : Nat)
    (l : Leaf) (res : Res Leaf) (hq : LeafQ0 split L l) (hm : Leaf.merge split l k op o = some res) :
    ResCS (LeafQ split L) (SepLe L) res := by
  obtain ⟨hb, hn, hkeys⟩ := hq
  obtain ⟨hcontent, hresb⟩ := (leaf_merge_spec split k op o none none l hb ⟨trivial, trivial⟩).1 res hm
  have hcounts := leaf_merge_counts h1 hn hm
  have hkeys' : KeysLe L (res.toList Leaf.es) := by
    intro e he
    rcases applyOne_keys hb.1 hcontent e he with h | ⟨e', he', h⟩
    · rw [h]; exact hk
    · rw [h]; exact hkeys e' he'
  cases res with
  | one t => exact ⟨hresb, hcounts, hkeys'⟩
  | gone => trivial
  | two a s b =>
    obtain ⟨b1, _, _, b4⟩ := hresb
    have ha : LeafB none none a := LeafB_widen.2 _ _ _ _ b1 trivial
    have hb' : LeafB none none b := LeafB_widen.1 _ _ _ _ b4 trivial
    refine ⟨⟨ha, hcounts.1, fun e he => hkeys' e (by simp [Res.toList]; exact Or.inl he)⟩, ?_,
      ⟨hb', hcounts.2, fun e he => hkeys' e (by simp [Res.toList]; exact Or.inr he)⟩⟩
    -- the separator: unfold the merge down to the split
    simp only [Leaf.merge] at hm
    cases hmod : l.modify k op o with
    | none => simp [hmod] at hm
    | some l' =>
      simp only [hmod] at hm
      have hl' := modify_LeafB hb ⟨trivial, trivial⟩ hmod
      have hes' : l'.es = a.es ++ b.es := by
        have := modify_es l k op o
        rw [hmod, hcontent] at this
        simpa [Res.toList] using this
      split at hm
      · cases hm
      · split at hm
        · obtain ⟨e, he, hle⟩ := split_sep_length hl'.2.2 hm
          have : e.1.length ≤ L := hkeys' e (by simp only [Res.toList]; rw [← hes']; exact he)
          exact Nat.le_trans hle this
        · cases hm

theorem LeafQ_LeafQ0 {split L : Nat} (l : Leaf) (h : LeafQ split L l) : LeafQ0 split L l :=
  ⟨h.1, h.2.1.2, h.2.2⟩

theorem emptyLeaf_Q0 (split L : Nat) : LeafQ0 split L ({ pre := 0, es := [] } : Leaf) :=
  ⟨emptyTree_bounded, Nat.zero_le _, fun e he => by simp at he⟩

/-- the invariant with short keys -/
def BTree.ShortKeys (split L : Nat) (t : BTree) : Prop :=
  BT.RootCS split (LeafQ split L) (LeafQ0 split L) (SepLe L) t.h t.root

theorem emptyTree_short (split L : Nat) : emptyTree.ShortKeys split L := emptyLeaf_Q0 split L

theorem mergeBatch_short {split L : Nat} (h2 : 2 ≤ split) : ∀ (b : List (Key × Op × Nat))
    (t t' : BTree), (∀ e ∈ b, e.1.length ≤ L) → t.ShortKeys split L →
    t.mergeBatch split b = some t' → t'.ShortKeys split L := by
  intro b
  induction b with
  | nil => intro t t' _ hc h; simp only [BTree.mergeBatch, Option.some.injEq] at h; subst h; exact hc
  | cons e b ih =>
    obtain ⟨k, op, o⟩ := e
    intro t t' hk hc h
    simp only [BTree.mergeBatch] at h
    cases hm : t.mergeOne split k op o with
    | none => simp [hm] at h
    | some t1 =>
      simp only [hm] at h
      have hk1 : k.length ≤ L := hk (k, op, o) List.mem_cons_self
      have := mergeOne_cs h2 LeafQ_LeafQ0 (emptyLeaf_Q0 split L) k op o
        (fun l res hq hmm => leaf_merge_q (by omega) hk1 op o l res hq hmm) t t1 hc hm
      exact ih t1 t' (fun e he => hk e (List.mem_cons_of_mem _ he)) this h

/-! ### sizes -/

def BT.Sizes : (h : Nat) → BT h → Prop
  | 0, l => l.size ≤ maxNodeSizeM
  | h + 1, t => nodeSize t.1 ≤ maxNodeSizeM ∧ (∀ p ∈ t.1, BT.Sizes h p.1) ∧ BT.Sizes h t.2

theorem sum_le_mul (L : Nat) : ∀ (es : List KV), KeysLe L es →
    (es.map fun e => e.1.length).sum ≤ es.length * L := by
  intro es
  induction es with
  | nil => intro _; simp
  | cons x r ih =>
    intro h
    have h1 := h x List.mem_cons_self
    have := ih (fun e he => h e (List.mem_cons_of_mem _ he))
    simp only [List.map_cons, List.sum_cons, List.length_cons, Nat.add_mul, Nat.one_mul]
    omega

theorem leaf_size_le {split L : Nat} (l : Leaf) (hp : l.PreOK) (hn : l.es.length ≤ split)
    (hk : KeysLe L l.es) : l.size ≤ 4 + split * (L + 7) := by
  obtain ⟨_, h0, p, hpl, hpall⟩ := hp
  have hlen : ∀ e ∈ l.es, l.pre ≤ e.1.length := by
    intro e he; have := (hpall e he).length_le; omega
  have h1 := sum_sub_pre l.pre l.es hlen
  have h2 := sum_le_mul L l.es hk
  have h3 : l.es.length * (L + 7) ≤ split * (L + 7) := Nat.mul_le_mul_right _ hn
  simp only [Leaf.size]
  by_cases hne : l.es = []
  · have := h0 hne; simp [hne, this]
  · have hpos : 1 ≤ l.es.length := by
      cases hes : l.es with
      | nil => exact absurd hes hne
      | cons _ _ => simp
    have h4 : l.pre ≤ l.es.length * l.pre := Nat.le_mul_of_pos_left _ hpos
    rw [Nat.mul_add] at h3
    rw [Nat.mul_comm l.es.length 7] at h3
    omega

theorem nodeSize_le {α} (L : Nat) : ∀ (kids : List (α × Key)), (∀ p ∈ kids, p.2.length ≤ L) →
    nodeSize kids ≤ 8 + kids.length * (L + 7) := by
  intro kids
  induction kids with
  | nil => intro _; simp [nodeSize]
  | cons x r ih =>
    intro h
    have h1 := h x List.mem_cons_self
    have := ih (fun p hp => h p (List.mem_cons_of_mem _ hp))
    rw [nodeSize_cons]
    simp only [List.length_cons, Nat.add_mul, Nat.one_mul]
    omega

theorem CS_sizes {split L : Nat} (hL : 8 + split * (L + 7) ≤ maxNodeSizeM) : ∀ (h : Nat) (t : BT h),
    BT.CS split (LeafQ split L) (SepLe L) h t → BT.Sizes h t := by
  intro h
  induction h with
  | zero =>
    intro t hc
    have := leaf_size_le (split := split) t hc.1.2.2 hc.2.1.2 hc.2.2
    simp only [BT.Sizes]; omega
  | succ h ih =>
    intro t hc
    obtain ⟨c1, c2, c3⟩ := hc
    refine ⟨?_, fun p hp => ih p.1 (c2 p hp).1, ih t.2 c3⟩
    have h1 := nodeSize_le L t.1 (fun p hp => (c2 p hp).2)
    have h2 : t.1.length * (L + 7) ≤ split * (L + 7) := Nat.mul_le_mul_right _ (by omega)
    omega

/-- with short keys every node of the tree fits `maxNodeSize` -/
theorem ShortKeys_sizes {split L : Nat} (hL : 8 + split * (L + 7) ≤ maxNodeSizeM) (t : BTree)
    (hc : t.ShortKeys split L) : BT.Sizes t.h t.root := by
  obtain ⟨h, root⟩ := t
  cases h with
  | zero =>
    have := leaf_size_le (split := split) root hc.1.2.2 hc.2.1 hc.2.2
    simp only [BT.Sizes]; omega
  | succ h => exact CS_sizes hL (h + 1) root hc.2

end Gsu.Btree
