import Gsu.Model.Ck
/-!
Invariant of the conflict checker mirror `Gsu.Model.Ck` (DESIGN.md Appendix A.1) and its
preservation by every operation.  Core-only.
-/
namespace Gsu.Ck

def Tran.hasRead (A : Tran) (tbl idx : Nat) (f t : Key) : Prop :=
  ∃ a ∈ A.acts, a.table = tbl ∧ (idx, f, t) ∈ a.reads

def Tran.hasWrite (B : Tran) (tbl idx : Nat) (k : Key) : Prop :=
  ∃ a ∈ B.acts, a.table = tbl ∧ ((idx, k) ∈ a.outs ∨ (idx, k) ∈ a.dels)

/-- `oldest` is MaxInt or a lower bound of every active start -/
def OldestOK (s : State) : Prop :=
  ∀ o, s.oldest = some o → o ≤ s.seq ∧ ∀ A ∈ s.trans, A.active = true → o ≤ A.start

structure CkInv (s : State) : Prop where
  rcNoUpd : ∀ T ∈ s.trans, T.rc = true → T.hasUpdates = false
  wrUpd : ∀ T ∈ s.trans, ∀ tbl idx k, T.hasWrite tbl idx k → T.hasUpdates = true
  conf : ∀ A ∈ s.trans, ∀ B ∈ s.trans, A.start ≠ B.start → A.active = true →
    overlap A.start A.end_ B.start B.end_ = true →
    ∀ tbl idx f t k, A.hasRead tbl idx f t → B.hasWrite tbl idx k → inRange f t k = true →
      A.rc = true
  sorted : s.trans.Pairwise (fun a b => a.start < b.start)
  bound : ∀ T ∈ s.trans, T.start ≤ s.seq ∧ ∀ e, T.end_ = some e → e ≤ s.seq
  oldestOK : OldestOK s

/-- a step that only removes transactions, sets `rc` on transactions without updates,
and drops ended transactions that no active transaction overlaps -/
structure Frame (s s' : State) : Prop where
  seq : s'.seq = s.seq
  sub : ∀ T' ∈ s'.trans, ∃ T ∈ s.trans, T'.start = T.start ∧ T'.end_ = T.end_ ∧ T'.acts = T.acts ∧
    T'.hasUpdates = T.hasUpdates ∧ (T.rc = true → T'.rc = true) ∧
    (T'.rc = true → T.rc = true ∨ T.hasUpdates = false)
  sorted : s.trans.Pairwise (fun a b => a.start < b.start) →
    s'.trans.Pairwise (fun a b => a.start < b.start)
  keep : ∀ T ∈ s.trans, T.active = false →
    (∃ T' ∈ s'.trans, T'.start = T.start ∧ T'.end_ = T.end_ ∧ T'.acts = T.acts) ∨
    (∀ A ∈ s'.trans, A.active = true → ∀ e, T.end_ = some e → e < A.start)
  oldest : OldestOK s'

theorem Frame.inv {s s' : State} (h : Frame s s') (i : CkInv s) : CkInv s' where
  rcNoUpd := by
    intro T' hT' hrc
    obtain ⟨T, hT, -, -, -, hu, -, h2⟩ := h.sub T' hT'
    rw [hu]
    rcases h2 hrc with h3 | h3
    · exact i.rcNoUpd T hT h3
    · exact h3
  wrUpd := by
    intro T' hT' tbl idx k hw
    obtain ⟨T, hT, -, -, ha, hu, -, -⟩ := h.sub T' hT'
    rw [hu]; apply i.wrUpd T hT tbl idx k
    simpa [Tran.hasWrite, ha] using hw
  conf := by
    intro A' hA' B' hB' hne hact hov tbl idx f t k hr hw hin
    obtain ⟨A, hA, as, ae, aa, -, arc, -⟩ := h.sub A' hA'
    obtain ⟨B, hB, bs, be, ba, -, -, -⟩ := h.sub B' hB'
    apply arc
    apply i.conf A hA B hB (by omega) (by simpa [Tran.active, ae] using hact)
      (by simpa [as, ae, bs, be] using hov) tbl idx f t k
      (by simpa [Tran.hasRead, aa] using hr) (by simpa [Tran.hasWrite, ba] using hw) hin
  sorted := h.sorted i.sorted
  bound := by
    intro T' hT'
    obtain ⟨T, hT, hs, he, -⟩ := h.sub T' hT'
    rw [hs, he, h.seq]; exact i.bound T hT
  oldestOK := h.oldest

theorem Frame.refl {s : State} (i : CkInv s) : Frame s s where
  seq := rfl
  sub := fun T hT => ⟨T, hT, rfl, rfl, rfl, rfl, id, Or.inl⟩
  sorted := id
  keep := fun T hT _ => Or.inl ⟨T, hT, rfl, rfl, rfl⟩
  oldest := i.oldestOK

theorem Frame.trans {s s' s'' : State} (h : Frame s s') (h' : Frame s' s'') : Frame s s'' where
  seq := by rw [h'.seq, h.seq]
  sub := by
    intro T'' hT''
    obtain ⟨T', hT', a1, a2, a3, a4, a5, a6⟩ := h'.sub T'' hT''
    obtain ⟨T, hT, b1, b2, b3, b4, b5, b6⟩ := h.sub T' hT'
    refine ⟨T, hT, by omega, by rw [a2, b2], by rw [a3, b3], by rw [a4, b4], fun x => a5 (b5 x), ?_⟩
    intro x
    rcases a6 x with y | y
    · exact b6 y
    · right; rw [← b4]; exact y
  sorted := fun x => h'.sorted (h.sorted x)
  keep := by
    intro T hT hna
    rcases h.keep T hT hna with ⟨T', hT', a1, a2, a3⟩ | hk
    · rcases h'.keep T' hT' (by simpa [Tran.active, a2] using hna) with ⟨T'', hT'', c1, c2, c3⟩ | hk'
      · left; exact ⟨T'', hT'', by omega, by rw [c2, a2], by rw [c3, a3]⟩
      · right; intro A hA ha e he; exact hk' A hA ha e (by rw [a2]; exact he)
    · right
      intro A'' hA'' ha e he
      obtain ⟨A', hA', d1, d2, -⟩ := h'.sub A'' hA''
      have := hk A' hA' (by simpa [Tran.active, d2] using ha) e he
      omega
  oldest := h'.oldest

/-! ### primitive frame steps -/

theorem frame_map {s s' : State} (i : CkInv s) (g : Tran → Tran)
    (hseq : s'.seq = s.seq) (htr : s'.trans = s.trans.map g) (hold : s'.oldest = s.oldest)
    (hg : ∀ T ∈ s.trans, (g T).start = T.start ∧ (g T).end_ = T.end_ ∧ (g T).acts = T.acts ∧
      (g T).hasUpdates = T.hasUpdates ∧ (T.rc = true → (g T).rc = true) ∧
      ((g T).rc = true → T.rc = true ∨ T.hasUpdates = false)) : Frame s s' where
  seq := hseq
  sub := by
    intro T' hT'
    rw [htr, List.mem_map] at hT'
    obtain ⟨T, hT, rfl⟩ := hT'
    exact ⟨T, hT, hg T hT⟩
  sorted := by
    intro hs
    rw [htr, List.pairwise_map]
    refine hs.imp_of_mem ?_
    intro a b ha hb hab
    rw [(hg a ha).1, (hg b hb).1]; exact hab
  keep := by
    intro T hT _
    left
    exact ⟨g T, by rw [htr]; exact List.mem_map_of_mem hT, (hg T hT).1, (hg T hT).2.1, (hg T hT).2.2.1⟩
  oldest := by
    intro o ho
    rw [hold] at ho
    obtain ⟨h1, h2⟩ := i.oldestOK o ho
    refine ⟨by omega, ?_⟩
    intro A' hA' ha
    rw [htr, List.mem_map] at hA'
    obtain ⟨A, hA, rfl⟩ := hA'
    rw [(hg A hA).1]
    exact h2 A hA (by simpa [Tran.active, (hg A hA).2.1] using ha)

theorem frame_flag {s : State} (i : CkInv s) (tn : Nat)
    (h : ∀ T ∈ s.trans, T.start = tn → T.hasUpdates = false) : Frame s (s.modify tn setRc) := by
  apply frame_map (s' := s.modify tn setRc) i (fun t => if t.start == tn then setRc t else t) rfl rfl rfl
  intro T hT
  by_cases c : T.start = tn
  · simp [c, setRc, h T hT c]
  · simp [c]; exact Or.inl

theorem frame_filter {s s' : State} (p : Tran → Bool)
    (hseq : s'.seq = s.seq) (htr : s'.trans = s.trans.filter p) (hold : OldestOK s')
    (hrem : ∀ T ∈ s.trans, p T = false → T.active = false →
      ∀ A ∈ s.trans, p A = true → A.active = true → ∀ e, T.end_ = some e → e < A.start) :
    Frame s s' where
  seq := hseq
  sub := by
    intro T' hT'
    rw [htr, List.mem_filter] at hT'
    exact ⟨T', hT'.1, rfl, rfl, rfl, rfl, id, Or.inl⟩
  sorted := by
    intro hs; rw [htr]; exact hs.filter p
  keep := by
    intro T hT hna
    by_cases c : p T = true
    · left; exact ⟨T, by rw [htr, List.mem_filter]; exact ⟨hT, c⟩, rfl, rfl, rfl⟩
    · right
      intro A hA ha e he
      rw [htr, List.mem_filter] at hA
      exact hrem T hT (by simpa using c) hna A hA.1 hA.2 ha e he
  oldest := hold

theorem minStart_spec : ∀ (l : List Tran),
    (minStart l = none → l = []) ∧
    (∀ m, minStart l = some m → (∀ T ∈ l, m ≤ T.start) ∧ ∃ T ∈ l, T.start = m)
  | [] => by simp [minStart]
  | t :: r => by
    have ih := minStart_spec r
    constructor
    · intro h; simp only [minStart] at h; split at h <;> simp at h
    · intro m h
      simp only [minStart] at h
      split at h
      · rename_i hn
        have : r = [] := ih.1 hn
        subst this
        simp at h; subst h; simp
      · rename_i m' hm'
        obtain ⟨h1, T, hT, h2⟩ := ih.2 m' hm'
        simp at h
        by_cases c : t.start < m'
        · simp [c] at h; subst h
          refine ⟨?_, t, by simp, rfl⟩
          intro T hT
          rcases List.mem_cons.1 hT with rfl | hT
          · omega
          · have := h1 T hT; omega
        · simp [c] at h; subst h
          refine ⟨?_, T, by simp [hT], h2⟩
          intro T hT
          rcases List.mem_cons.1 hT with rfl | hT
          · omega
          · exact h1 T hT

theorem frame_cleanEnded {s : State} (hb : ∀ T ∈ s.trans, T.start ≤ s.seq) (ho : OldestOK s) :
    Frame s (cleanEnded s) := by
  -- the value `oldest` used by cleanEnded is a lower bound of the active starts
  have key : ∀ o, (match s.oldest with
      | some o => some o
      | none => minStart (s.trans.filter (·.active))) = some o →
      o ≤ s.seq ∧ ∀ A ∈ s.trans, A.active = true → o ≤ A.start := by
    intro o h
    cases hs : s.oldest with
    | some o' => rw [hs] at h; simp at h; subst h; exact ho o' hs
    | none =>
      rw [hs] at h; simp only at h
      obtain ⟨h1, T, hT, h2⟩ := (minStart_spec _).2 o h
      rw [List.mem_filter] at hT
      refine ⟨by have := hb T hT.1; omega, ?_⟩
      intro A hA ha
      exact h1 A (by rw [List.mem_filter]; exact ⟨hA, ha⟩)
  apply frame_filter (s := s) (s' := cleanEnded s) (fun t => !endedBefore t.end_ (match s.oldest with
      | some o => some o
      | none => minStart (s.trans.filter (·.active)))) rfl rfl
  · intro o h
    obtain ⟨h1, h2⟩ := key o h
    refine ⟨h1, ?_⟩
    intro A hA ha
    simp only [cleanEnded, List.mem_filter] at hA
    exact h2 A hA.1 ha
  · intro T hT hp _ A hA _ ha e he
    generalize hq : (match s.oldest with
      | some o => some o
      | none => minStart (s.trans.filter (·.active))) = q at hp key
    cases q with
    | none =>
      -- no active transaction at all
      exfalso
      cases hs : s.oldest with
      | some o' => rw [hs] at hq; simp at hq
      | none =>
        rw [hs] at hq; simp only at hq
        have := (minStart_spec _).1 hq
        have hm : A ∈ s.trans.filter (·.active) := by rw [List.mem_filter]; exact ⟨hA, ha⟩
        rw [this] at hm; simp at hm
    | some o =>
      have := (key o rfl).2 A hA ha
      simp [endedBefore, he] at hp
      omega

theorem frame_abort {s : State} (i : CkInv s) (tn : Nat) : Frame s (abort s tn).1 := by
  unfold abort
  cases hf : s.trans.find? (fun t => t.start == tn && t.active) with
  | none => exact Frame.refl i
  | some t =>
    have hrem : ∀ T ∈ s.trans, (!(T.start == tn && T.active)) = false → T.active = false →
        ∀ A ∈ s.trans, (!(A.start == tn && A.active)) = true → A.active = true →
        ∀ e, T.end_ = some e → e < A.start := by
      intro T _ hp hna; simp [hna] at hp
    dsimp only
    by_cases c : (s.oldest == some tn || s.oldest == none) = true
    · rw [if_pos c]
      generalize hd : (if t.rc = true then tn :: s.deadRc else s.deadRc) = d
      let s1 : State := { s with trans := s.trans.filter (fun t => !(t.start == tn && t.active)),
                                 deadRc := d, oldest := none }
      have f1 : Frame s s1 := by
        apply frame_filter (s := s) (s' := s1) (fun t => !(t.start == tn && t.active)) rfl rfl
        · intro o ho; simp [s1] at ho
        · exact hrem
      have f2 : Frame s1 (cleanEnded s1) := by
        apply frame_cleanEnded
        · intro T hT
          simp only [s1, List.mem_filter] at hT
          exact (i.bound T hT.1).1
        · intro o ho; simp [s1] at ho
      exact f1.trans f2
    · rw [if_neg c]
      refine frame_filter (s := s) (s' := _) (fun t => !(t.start == tn && t.active)) (by rfl) (by rfl) ?_ ?_
      · intro o ho
        obtain ⟨h1, h2⟩ := i.oldestOK o ho
        refine ⟨h1, ?_⟩
        intro A hA ha
        simp only [List.mem_filter] at hA
        exact h2 A hA.1 ha
      · exact hrem

theorem frame_abort1of {s : State} (i : CkInv s) (T B : Tran) (c : Bool)
    (hT : ∀ X ∈ s.trans, X.start = T.start → X.hasUpdates = T.hasUpdates)
    (hB : ∀ X ∈ s.trans, X.start = B.start → X.hasUpdates = B.hasUpdates) :
    Frame s (abort1of s T B c).1 := by
  unfold abort1of
  split
  · rename_i h; simp at h
    apply frame_flag i
    intro X hX hs; rw [hT X hX hs]; exact h
  · split
    · rename_i h; simp at h
      apply frame_flag i
      intro X hX hs; rw [hB X hX hs]; exact h
    · split
      · exact frame_abort i _
      · exact frame_abort i _

/-! ### the conflict loop -/

theorem abort1of_cases (s : State) (T B : Tran) (c : Bool) :
    (T.hasUpdates = false ∧ abort1of s T B c = (s.modify T.start setRc, false)) ∨
    (T.hasUpdates = true ∧ B.hasUpdates = false ∧ abort1of s T B c = (s.modify B.start setRc, false)) ∨
    (T.hasUpdates = true ∧ B.hasUpdates = true ∧ (abort1of s T B c).2 = true) ∨
    (T.hasUpdates = true ∧ B.hasUpdates = true ∧ B.end_ = none ∧
      abort1of s T B c = ((abort s B.start).1, false)) := by
  unfold abort1of
  cases h1 : T.hasUpdates <;> cases h2 : B.hasUpdates <;> simp
  cases h3 : B.end_ <;> cases c <;> simp

theorem uniq_start {l : List Tran} (h : l.Pairwise (fun a b => a.start < b.start)) {X Y : Tran}
    (hX : X ∈ l) (hY : Y ∈ l) (e : X.start = Y.start) : X = Y := by
  induction l with
  | nil => simp at hX
  | cons a r ih =>
    rw [List.pairwise_cons] at h
    rcases List.mem_cons.1 hX with rfl | hX' <;> rcases List.mem_cons.1 hY with rfl | hY'
    · rfl
    · have := h.1 Y hY'; omega
    · have := h.1 X hX'; omega
    · exact ih h.2 hX' hY'

theorem find_of_mem {s : State} (hs : s.trans.Pairwise (fun a b => a.start < b.start)) {X : Tran}
    (hX : X ∈ s.trans) : s.find X.start = some X := by
  unfold State.find
  cases h : s.trans.find? (·.start == X.start) with
  | none => have := List.find?_eq_none.1 h X hX; simp at this
  | some Y =>
    have hY := List.mem_of_find?_eq_some h
    have := List.find?_some h
    simp at this
    rw [uniq_start hs hY hX this]

theorem find_mem {s : State} {tn : Nat} {T : Tran} (h : s.find tn = some T) :
    T ∈ s.trans ∧ T.start = tn := by
  unfold State.find at h
  refine ⟨List.mem_of_find?_eq_some h, ?_⟩
  have := List.find?_some h
  simpa using this

theorem abort_removes (s : State) (tn : Nat) :
    ∀ X ∈ (abort s tn).1.trans, X.start = tn → X.active = false := by
  intro X hX hs
  unfold abort at hX
  cases hf : s.trans.find? (fun t => t.start == tn && t.active) with
  | none =>
    rw [hf] at hX
    have := List.find?_eq_none.1 hf X hX
    simpa [hs] using this
  | some t =>
    rw [hf] at hX
    dsimp only at hX
    split at hX
    · simp only [cleanEnded, List.mem_filter] at hX
      have := hX.1.2
      simpa [hs] using this
    · simp only [List.mem_filter] at hX
      have := hX.2
      simpa [hs] using this

def HitStable (hit : Tran → Tran → Bool) : Prop :=
  ∀ T T' B B' : Tran, T'.start = T.start → T'.end_ = T.end_ → T'.acts = T.acts →
    B'.start = B.start → B'.end_ = B.end_ → B'.acts = B.acts → hit T' B' = hit T B

/-- what the loop guarantees for every visited partner that is still there with `tn` -/
def Post (hit : Tran → Tran → Bool) (tn : Nat) (s' : State) (ids : List Nat) : Prop :=
  ∀ T ∈ s'.trans, T.start = tn → ∀ B ∈ s'.trans, B.start ∈ ids → B.start ≠ tn → hit T B = true →
    (T.hasUpdates = false ∧ T.rc = true) ∨ (T.hasUpdates = true ∧ B.hasUpdates = false ∧ B.rc = true)

theorem visit_spec (hit : Tran → Tran → Bool) (hs : HitStable hit) (pick : List Nat) (tn : Nat) :
    ∀ (ids : List Nat) (s : State), CkInv s →
      Frame s (visit hit pick tn s ids).1 ∧
      ((visit hit pick tn s ids).2 = false → Post hit tn (visit hit pick tn s ids).1 ids)
  | [], s, i => by
    simp only [visit]
    exact ⟨Frame.refl i, fun _ T _ _ B _ hB => by simp at hB⟩
  | b :: rest, s, i => by
    -- facts about partners with start `b` that persist along the rest of the loop
    have skip : ∀ s1, CkInv s1 → Frame s s1 →
        (∀ T ∈ s1.trans, T.start = tn → ∀ B ∈ s1.trans, B.start = b → B.start ≠ tn → hit T B = true →
          ∀ s', Frame s1 s' → ∀ T' ∈ s'.trans, T'.start = tn → ∀ B' ∈ s'.trans, B'.start = b →
          (T'.hasUpdates = false ∧ T'.rc = true) ∨
            (T'.hasUpdates = true ∧ B'.hasUpdates = false ∧ B'.rc = true)) →
        Frame s (visit hit pick tn s1 rest).1 ∧
        ((visit hit pick tn s1 rest).2 = false → Post hit tn (visit hit pick tn s1 rest).1 (b :: rest)) := by
      intro s1 i1 f1 hb
      obtain ⟨fr, po⟩ := visit_spec hit hs pick tn rest s1 i1
      refine ⟨f1.trans fr, ?_⟩
      intro hres T hT hTs B hB hBi hBn hh
      rcases List.mem_cons.1 hBi with hbb | hbr
      · -- pull T, B back to s1
        obtain ⟨T1, hT1, a1, a2, a3, -⟩ := fr.sub T hT
        obtain ⟨B1, hB1, b1, b2, b3, -⟩ := fr.sub B hB
        have hh1 : hit T1 B1 = true := by rw [← hs T1 T B1 B a1 a2 a3 b1 b2 b3]; exact hh
        exact hb T1 hT1 (by omega) B1 hB1 (by omega) (by omega) hh1 _ fr T hT hTs B hB hbb
      · exact po hres T hT hTs B hB hbr hBn hh
    simp only [visit]
    cases hfT : s.find tn with
    | none =>
      simp only []
      apply skip s i (Frame.refl i)
      intro T hT hTs
      have := find_of_mem i.sorted hT
      rw [hTs, hfT] at this; simp at this
    | some T0 =>
      cases hfB : s.find b with
      | none =>
        simp only []
        apply skip s i (Frame.refl i)
        intro T _ _ B hB hBs
        have := find_of_mem i.sorted hB
        rw [hBs, hfB] at this; simp at this
      | some B0 =>
        simp only []
        obtain ⟨hT0, hT0s⟩ := find_mem hfT
        obtain ⟨hB0, hB0s⟩ := find_mem hfB
        by_cases c : (b != tn && hit T0 B0) = true
        · rw [if_pos c]
          simp only [Bool.and_eq_true, bne_iff_ne, ne_eq] at c
          have fa : Frame s (abort1of s T0 B0 (pick.contains b)).1 := by
            apply frame_abort1of i
            · intro X hX e; rw [uniq_start i.sorted hX hT0 e]
            · intro X hX e; rw [uniq_start i.sorted hX hB0 e]
          by_cases c2 : (abort1of s T0 B0 (pick.contains b)).2 = true
          · rw [if_pos c2]
            exact ⟨fa, fun h => absurd h (by simp)⟩
          · rw [if_neg c2]
            apply skip _ (fa.inv i) fa
            intro T1 hT1 hT1s B1 hB1 hB1s _ _ s' fs' T' hT' hT's B' hB' hB's
            obtain ⟨T2, hT2, t1, -, -, t4, t5, -⟩ := fs'.sub T' hT'
            obtain ⟨B2, hB2, b1, -, -, b4, b5, -⟩ := fs'.sub B' hB'
            -- what abort1of did
            rcases abort1of_cases s T0 B0 (pick.contains b) with ⟨hu, e⟩ | ⟨hu, hu2, e⟩ | ⟨-, -, e⟩ | ⟨hu, hu2, hc, e⟩
            · -- T0 has no updates: flagged
              left
              rw [e] at hT2
              simp only [State.modify, List.mem_map] at hT2
              obtain ⟨X, hX, rfl⟩ := hT2
              have hXs : X.start = tn := by
                have : (if (X.start == T0.start) = true then setRc X else X).start = X.start := by
                  split <;> simp [setRc]
                omega
              have hXe : X = T0 := uniq_start i.sorted hX hT0 (by omega)
              subst hXe
              simp only [beq_self_eq_true, if_true, setRc] at t4 t5
              exact ⟨by rw [t4]; exact hu, t5 trivial⟩
            · -- B0 has no updates: flagged
              right
              rw [e] at hT2 hB2
              simp only [State.modify, List.mem_map] at hT2 hB2
              obtain ⟨X, hX, rfl⟩ := hT2
              obtain ⟨Y, hY, rfl⟩ := hB2
              have hXs : X.start = tn := by
                have : (if (X.start == B0.start) = true then setRc X else X).start = X.start := by
                  split <;> simp [setRc]
                omega
              have hYs : Y.start = b := by
                have : (if (Y.start == B0.start) = true then setRc Y else Y).start = Y.start := by
                  split <;> simp [setRc]
                omega
              have hXe : X = T0 := uniq_start i.sorted hX hT0 (by omega)
              have hYe : Y = B0 := uniq_start i.sorted hY hB0 (by omega)
              subst hXe; subst hYe
              have hne : (X.start == Y.start) = false := by simp; omega
              simp only [hne, beq_self_eq_true, if_true, setRc] at t4 b4 b5
              exact ⟨by rw [t4]; simpa using hu, by rw [b4]; exact hu2, b5 trivial⟩
            · exact absurd e c2
            · -- B0 aborted: it is gone
              exfalso
              rw [e] at hB2
              have hact := abort_removes s B0.start B2 hB2 (by omega)
              obtain ⟨B3, hB3, d1, d2, -⟩ := (frame_abort i B0.start).sub B2 hB2
              have : B3 = B0 := uniq_start i.sorted hB3 hB0 (by omega)
              subst this
              simp [Tran.active, d2, hc] at hact
        · rw [if_neg c]
          apply skip s i (Frame.refl i)
          intro T hT hTs B hB hBs hBn hh
          have e1 : T = T0 := uniq_start i.sorted hT hT0 (by omega)
          have e2 : B = B0 := uniq_start i.sorted hB hB0 (by omega)
          subst e1; subst e2
          exfalso; apply c
          simp only [Bool.and_eq_true, bne_iff_ne, ne_eq]
          exact ⟨by omega, hh⟩

/-! ### local changes of one transaction -/

theorem inv_modify {s : State} (i : CkInv s) (tn : Nat) (g : Tran → Tran)
    (hg : ∀ T : Tran, (g T).start = T.start ∧ (g T).end_ = T.end_ ∧ (g T).rc = T.rc)
    (hrc : ∀ T ∈ s.trans, T.start = tn → (g T).rc = true → (g T).hasUpdates = false)
    (hwr : ∀ T ∈ s.trans, T.start = tn → ∀ tbl idx k, (g T).hasWrite tbl idx k → (g T).hasUpdates = true)
    (hconf : ∀ A ∈ s.trans, ∀ B ∈ s.trans, A.start ≠ B.start → A.active = true →
      overlap A.start A.end_ B.start B.end_ = true → ∀ tbl idx f t k,
      (if A.start = tn then g A else A).hasRead tbl idx f t →
      (if B.start = tn then g B else B).hasWrite tbl idx k → inRange f t k = true → A.rc = true) :
    CkInv (s.modify tn g) := by
  have mem : ∀ T' ∈ (s.modify tn g).trans, ∃ T ∈ s.trans, T' = if T.start = tn then g T else T := by
    intro T' hT'
    simp only [State.modify, List.mem_map] at hT'
    obtain ⟨T, hT, rfl⟩ := hT'
    refine ⟨T, hT, ?_⟩
    by_cases c : T.start = tn <;> simp [c]
  have same : ∀ T : Tran, (if T.start = tn then g T else T).start = T.start ∧
      (if T.start = tn then g T else T).end_ = T.end_ ∧ (if T.start = tn then g T else T).rc = T.rc := by
    intro T; split
    · exact hg T
    · exact ⟨rfl, rfl, rfl⟩
  constructor
  · intro T' hT' h
    obtain ⟨T, hT, rfl⟩ := mem T' hT'
    by_cases c : T.start = tn
    · simp only [c, if_true] at h ⊢; exact hrc T hT c h
    · simp only [c, if_false] at h ⊢; exact i.rcNoUpd T hT h
  · intro T' hT' tbl idx k h
    obtain ⟨T, hT, rfl⟩ := mem T' hT'
    by_cases c : T.start = tn
    · simp only [c, if_true] at h ⊢; exact hwr T hT c tbl idx k h
    · simp only [c, if_false] at h ⊢; exact i.wrUpd T hT tbl idx k h
  · intro A' hA' B' hB' hne hact hov tbl idx f t k hr hw hin
    obtain ⟨A, hA, rfl⟩ := mem A' hA'
    obtain ⟨B, hB, rfl⟩ := mem B' hB'
    rw [(same A).2.2]
    rw [(same A).1, (same B).1] at hne
    rw [(same A).1, (same B).1, (same A).2.1, (same B).2.1] at hov
    exact hconf A hA B hB hne (by simpa [Tran.active, (same A).2.1] using hact) hov tbl idx f t k hr hw hin
  · have := i.sorted
    simp only [State.modify, List.pairwise_map]
    refine this.imp ?_
    intro a b hab
    have ha : (if (a.start == tn) = true then g a else a).start = a.start := by split <;> simp [(hg a).1]
    have hb : (if (b.start == tn) = true then g b else b).start = b.start := by split <;> simp [(hg b).1]
    rw [ha, hb]; exact hab
  · intro T' hT'
    obtain ⟨T, hT, rfl⟩ := mem T' hT'
    rw [(same T).1, (same T).2.1]; exact i.bound T hT
  · intro o ho
    obtain ⟨h1, h2⟩ := i.oldestOK o ho
    refine ⟨h1, ?_⟩
    intro A' hA' ha
    obtain ⟨A, hA, rfl⟩ := mem A' hA'
    rw [(same A).1]
    exact h2 A hA (by simpa [Tran.active, (same A).2.1] using ha)

theorem mem_updActs {acts : List Acts} {tbl : Nat} {h : Acts → Acts} {a' : Acts}
    (ht : ∀ a, (h a).table = a.table) (hm : a' ∈ updActs acts tbl h) :
    a' ∈ acts ∨ (a'.table = tbl ∧ ((∃ a ∈ acts, a.table = tbl ∧ a' = h a) ∨ a' = h { table := tbl })) := by
  unfold updActs at hm
  split at hm
  · rw [List.mem_map] at hm
    obtain ⟨a, ha, rfl⟩ := hm
    by_cases c : a.table = tbl
    · right; simp only [c, beq_self_eq_true, if_true]
      exact ⟨by rw [ht]; exact c, Or.inl ⟨a, ha, c, rfl⟩⟩
    · left; simpa [c] using ha
  · rw [List.mem_append] at hm
    rcases hm with hm | hm
    · exact Or.inl hm
    · simp at hm; subst hm; right
      exact ⟨by rw [ht], Or.inr rfl⟩

theorem ids_cover {s s1 : State} (f : Frame s s1) {B : Tran} (hB : B ∈ s1.trans) (order : List Nat) :
    B.start ∈ order ++ allIds s := by
  obtain ⟨B0, hB0, e, -⟩ := f.sub B hB
  rw [e]; simp only [allIds, List.mem_append, List.mem_map, List.mem_filter]
  right
  by_cases c : B0.hasUpdates = true
  · left; exact ⟨B0, ⟨hB0, c⟩, rfl⟩
  · right; exact ⟨B0, ⟨hB0, by simpa using c⟩, rfl⟩

theorem writeInRange_of_hasWrite {B : Tran} {tbl idx : Nat} {f t k : Key}
    (h : B.hasWrite tbl idx k) (hin : inRange f t k = true) : B.writeInRange tbl idx f t = true := by
  obtain ⟨a, ha, ht, hw⟩ := h
  simp only [Tran.writeInRange, List.any_eq_true, Bool.and_eq_true, Bool.or_eq_true, beq_iff_eq]
  refine ⟨a, ha, ht, ?_⟩
  rcases hw with hw | hw
  · left; exact ⟨(idx, k), hw, rfl, hin⟩
  · right; exact ⟨(idx, k), hw, rfl, hin⟩

theorem readsContain_of_hasRead {A : Tran} {tbl idx : Nat} {f t k : Key}
    (h : A.hasRead tbl idx f t) (hin : inRange f t k = true) : A.readsContain tbl idx k = true := by
  obtain ⟨a, ha, ht, hr⟩ := h
  simp only [Tran.readsContain, List.any_eq_true, Bool.and_eq_true, beq_iff_eq]
  exact ⟨a, ha, ht, (idx, f, t), hr, rfl, hin⟩

theorem readHit_stable (tbl idx : Nat) (f t : Key) : HitStable (readHit tbl idx f t) := by
  intro T T' B B' a1 a2 _ b1 b2 b3
  simp [readHit, Tran.writeInRange, a1, a2, b1, b2, b3]

theorem inv_saveRead {s1 : State} (i1 : CkInv s1) (tn tbl idx : Nat) (f t : Key)
    (H : ∀ T ∈ s1.trans, T.start = tn → ∀ B ∈ s1.trans, B.start ≠ tn →
      readHit tbl idx f t T B = true → T.rc = true) :
    CkInv (saveRead s1 tn tbl idx f t) := by
  unfold saveRead
  cases hf : s1.find tn with
  | none => exact i1
  | some T1 =>
    dsimp only
    split
    · exact (frame_abort i1 tn).inv i1
    · generalize (insertRange (getActs T1.acts tbl).creads idx f t) = r
      have hacts : ∀ (T : Tran) (a' : Acts), a' ∈ updActs T.acts tbl
          (fun a => { a with reads := (idx, f, t) :: a.reads, creads := r.1 }) →
          ∃ a0 : Acts, (a0 ∈ T.acts ∨ a0 = { table := tbl }) ∧ a'.table = a0.table ∧
            a'.outs = a0.outs ∧ a'.dels = a0.dels ∧
            (a'.reads = a0.reads ∨ (a'.table = tbl ∧ a'.reads = (idx, f, t) :: a0.reads)) := by
        intro T a' hm
        rcases mem_updActs (h := fun a => { a with reads := (idx, f, t) :: a.reads, creads := r.1 })
          (fun _ => rfl) hm with h | ⟨h1, ⟨a, ha, _, rfl⟩ | rfl⟩
        · exact ⟨a', Or.inl h, rfl, rfl, rfl, Or.inl rfl⟩
        · exact ⟨a, Or.inl ha, rfl, rfl, rfl, Or.inr ⟨h1, rfl⟩⟩
        · exact ⟨{ table := tbl }, Or.inr rfl, rfl, rfl, rfl, Or.inr ⟨rfl, rfl⟩⟩
      let g : Tran → Tran := fun T =>
        { T with
          readCount := T1.readCount + r.2
          acts := updActs T.acts tbl (fun a => { a with reads := (idx, f, t) :: a.reads, creads := r.1 }) }
      show CkInv (s1.modify tn g)
      have hwsame : ∀ (T : Tran) tbl' idx' k, (g T).hasWrite tbl' idx' k → T.hasWrite tbl' idx' k := by
        intro T tbl' idx' k ⟨a', ha', ht', hw'⟩
        obtain ⟨a0, h0, e1, e2, e3, -⟩ := hacts T a' ha'
        rcases h0 with h0 | h0
        · exact ⟨a0, h0, by omega, by rw [← e2, ← e3]; exact hw'⟩
        · subst h0; rw [e2, e3] at hw'; simp at hw'
      apply inv_modify i1 tn
      · intro T; exact ⟨rfl, rfl, rfl⟩
      · intro T hT _ h; exact i1.rcNoUpd T hT h
      · intro T hT _ tbl' idx' k h
        exact i1.wrUpd T hT tbl' idx' k (hwsame T tbl' idx' k h)
      · intro A hA B hB hne hact hov tbl' idx' f' t' k hr hw hin
        have hw0 : B.hasWrite tbl' idx' k := by
          by_cases c : B.start = tn
          · rw [if_pos c] at hw; exact hwsame B tbl' idx' k hw
          · rw [if_neg c] at hw; exact hw
        by_cases c : A.start = tn
        · rw [if_pos c] at hr
          obtain ⟨a', ha', ht', hr'⟩ := hr
          obtain ⟨a0, h0, e1, -, -, e4⟩ := hacts A a' ha'
          have old : (idx', f', t') ∈ a0.reads → A.rc = true := by
            intro hm
            rcases h0 with h0 | h0
            · exact i1.conf A hA B hB hne hact hov tbl' idx' f' t' k ⟨a0, h0, by omega, hm⟩ hw0 hin
            · subst h0; simp at hm
          rcases e4 with e4 | ⟨e5, e4⟩
          · exact old (by rw [← e4]; exact hr')
          · rw [e4, List.mem_cons] at hr'
            rcases hr' with hr' | hr'
            · -- the new read
              simp only [Prod.mk.injEq] at hr'
              obtain ⟨rfl, rfl, rfl⟩ := hr'
              have : tbl' = tbl := by omega
              subst this
              apply H A hA c B hB (by omega)
              simp only [readHit, Bool.and_eq_true]
              exact ⟨hov, writeInRange_of_hasWrite hw0 hin⟩
            · exact old hr'
        · rw [if_neg c] at hr
          exact i1.conf A hA B hB hne hact hov tbl' idx' f' t' k hr hw0 hin

theorem inv_read {s : State} (i : CkInv s) (tn tbl idx : Nat) (f t : Key) (order pick : List Nat) :
    CkInv (read s tn tbl idx f t order pick).1 := by
  unfold read
  cases hf : s.find tn with
  | none => exact i
  | some T =>
    dsimp only
    split
    · exact i
    · split
      · exact i
      · obtain ⟨fr, po⟩ := visit_spec (readHit tbl idx f t) (readHit_stable tbl idx f t) pick tn
          (order ++ allIds s) s i
        split
        · exact fr.inv i
        · rename_i hres
          have i1 := fr.inv i
          apply inv_saveRead i1
          intro T1 hT1 hT1s B hB hBn hh
          rcases po (by simpa using hres) T1 hT1 hT1s B hB (ids_cover fr hB order) hBn hh with h | h
          · exact h.2
          · -- B has a write in range, so it has updates
            exfalso
            simp only [readHit, Bool.and_eq_true, Tran.writeInRange, List.any_eq_true,
              Bool.or_eq_true, beq_iff_eq] at hh
            obtain ⟨-, a, ha, ht, hw⟩ := hh
            have : B.hasUpdates = true := by
              rcases hw with ⟨p, hp, h1, -⟩ | ⟨p, hp, h1, -⟩
              · exact i1.wrUpd B hB tbl idx p.2 ⟨a, ha, ht, Or.inl (by rw [← h1]; exact hp)⟩
              · exact i1.wrUpd B hB tbl idx p.2 ⟨a, ha, ht, Or.inr (by rw [← h1]; exact hp)⟩
            rw [h.2.1] at this; simp at this

/-! ### Output / Delete / Update -/

theorem writePre_spec {s : State} (i : CkInv s) (tn tbl : Nat) :
    CkInv (writePre s tn tbl).1 ∧
    ((writePre s tn tbl).2 = true →
      ∀ T ∈ (writePre s tn tbl).1.trans, T.start = tn → T.hasUpdates = true) := by
  unfold writePre
  cases hf : s.find tn with
  | none => exact ⟨i, fun h => by simp at h⟩
  | some T =>
    obtain ⟨hT, hTs⟩ := find_mem hf
    dsimp only
    split
    · exact ⟨(frame_abort i tn).inv i, fun h => by simp at h⟩
    · rename_i hc
      generalize hs1 : (if T.hasUpdates = true then s
        else s.modify tn fun T => { T with hasUpdates := true }) = s1
      have h1 : CkInv s1 ∧ ∀ X ∈ s1.trans, X.start = tn → X.hasUpdates = true := by
        subst hs1
        by_cases hu : T.hasUpdates = true
        · rw [if_pos hu]
          exact ⟨i, fun X hX e => by rw [uniq_start i.sorted hX hT (by omega)]; exact hu⟩
        · rw [if_neg hu]
          constructor
          · apply inv_modify i tn
            · intro T; exact ⟨rfl, rfl, rfl⟩
            · intro X hX e h
              exfalso
              have : X = T := uniq_start i.sorted hX hT (by omega)
              subst this
              simp at hu h
              simp [hu, h] at hc
            · intro X _ _ _ _ _ _; rfl
            · intro A hA B hB hne hact hov tbl' idx' f' t' k hr hw hin
              refine i.conf A hA B hB hne hact hov tbl' idx' f' t' k ?_ ?_ hin
              · by_cases c : A.start = tn
                · rw [if_pos c] at hr; exact hr
                · rw [if_neg c] at hr; exact hr
              · by_cases c : B.start = tn
                · rw [if_pos c] at hw; exact hw
                · rw [if_neg c] at hw; exact hw
          · intro X hX e
            simp only [State.modify, List.mem_map] at hX
            obtain ⟨Y, _, rfl⟩ := hX
            by_cases c : Y.start = tn
            · simp [c]
            · simp [c] at e
      split
      · exact ⟨h1.1, fun h => by simp at h⟩
      · split
        · exact ⟨(frame_abort h1.1 tn).inv h1.1, fun h => by simp at h⟩
        · exact ⟨h1.1, fun _ => h1.2⟩

theorem mem_addKeys {p : Nat × Key} : ∀ (ks l : List (Nat × Key)), p ∈ addKeys l ks → p ∈ l ∨ p ∈ ks
  | [], l, h => Or.inl (by simpa [addKeys] using h)
  | q :: ks, l, h => by
    simp only [addKeys, List.foldl_cons] at h
    have := mem_addKeys ks _ h
    rcases this with h1 | h1
    · split at h1
      · exact Or.inl h1
      · rw [List.mem_append] at h1
        rcases h1 with h1 | h1
        · exact Or.inl h1
        · simp at h1; subst h1; exact Or.inr (by simp)
    · exact Or.inr (List.mem_cons_of_mem _ h1)

theorem keysHit_stable (tbl : Nat) (chk : List (Nat × Key)) : HitStable (keysHit tbl chk) := by
  intro T T' B B' _ _ _ _ b2 b3
  simp [keysHit, Tran.readsContain, Tran.active, b2, b3]

theorem inv_writeOp {s : State} (i : CkInv s) (tn tbl : Nat) (chk dels outs : List (Nat × Key))
    (order pick : List Nat) (hd : ∀ p ∈ dels, p ∈ chk) (ho : ∀ p ∈ outs, p ∈ chk) :
    CkInv (writeOp s tn tbl chk dels outs order pick).1 := by
  unfold writeOp
  obtain ⟨ip, hup⟩ := writePre_spec i tn tbl
  dsimp only
  split
  · exact ip
  · rename_i hp2
    obtain ⟨fr, po⟩ := visit_spec (keysHit tbl chk) (keysHit_stable tbl chk) pick tn
      (order ++ allIds (writePre s tn tbl).1) _ ip
    split
    · exact fr.inv ip
    · rename_i hres
      have i1 := fr.inv ip
      have hupd : ∀ X ∈ (visit (keysHit tbl chk) pick tn (writePre s tn tbl).1
          (order ++ allIds (writePre s tn tbl).1)).1.trans, X.start = tn → X.hasUpdates = true := by
        intro X hX e
        obtain ⟨X0, hX0, e1, -, -, e4, -⟩ := fr.sub X hX
        rw [e4]; exact hup (by simpa using hp2) X0 hX0 (by omega)
      let g : Tran → Tran := fun T =>
        { T with acts := updActs T.acts tbl fun a =>
            { a with dels := addKeys a.dels dels, outs := addKeys a.outs outs } }
      show CkInv (State.modify _ tn g)
      have hacts : ∀ (T : Tran) (a' : Acts), a' ∈ (g T).acts →
          ∃ a0 : Acts, (a0 ∈ T.acts ∨ a0 = { table := tbl }) ∧ a'.table = a0.table ∧
            a'.reads = a0.reads ∧ ((a'.outs = a0.outs ∧ a'.dels = a0.dels) ∨
              (a'.table = tbl ∧ a'.outs = addKeys a0.outs outs ∧ a'.dels = addKeys a0.dels dels)) := by
        intro T a' hm
        rcases mem_updActs (h := fun a => { a with dels := addKeys a.dels dels, outs := addKeys a.outs outs })
          (fun _ => rfl) hm with h | ⟨h1, ⟨a, ha, _, rfl⟩ | rfl⟩
        · exact ⟨a', Or.inl h, rfl, rfl, Or.inl ⟨rfl, rfl⟩⟩
        · exact ⟨a, Or.inl ha, rfl, rfl, Or.inr ⟨h1, rfl, rfl⟩⟩
        · exact ⟨{ table := tbl }, Or.inr rfl, rfl, rfl, Or.inr ⟨rfl, rfl, rfl⟩⟩
      have hrsame : ∀ (T : Tran) tbl' idx' f' t', (g T).hasRead tbl' idx' f' t' → T.hasRead tbl' idx' f' t' := by
        intro T tbl' idx' f' t' ⟨a', ha', ht', hr'⟩
        obtain ⟨a0, h0, e1, e2, -⟩ := hacts T a' ha'
        rcases h0 with h0 | h0
        · exact ⟨a0, h0, by omega, by rw [← e2]; exact hr'⟩
        · subst h0; rw [e2] at hr'; simp at hr'
      have hwnew : ∀ (T : Tran) tbl' idx' k, (g T).hasWrite tbl' idx' k →
          T.hasWrite tbl' idx' k ∨ (tbl' = tbl ∧ (idx', k) ∈ chk) := by
        intro T tbl' idx' k ⟨a', ha', ht', hw'⟩
        obtain ⟨a0, h0, e1, -, e3⟩ := hacts T a' ha'
        have old : ((idx', k) ∈ a0.outs ∨ (idx', k) ∈ a0.dels) →
            T.hasWrite tbl' idx' k ∨ (tbl' = tbl ∧ (idx', k) ∈ chk) := by
          intro hm
          rcases h0 with h0 | h0
          · exact Or.inl ⟨a0, h0, by omega, hm⟩
          · subst h0; simp at hm
        rcases e3 with ⟨e3, e4⟩ | ⟨e5, e3, e4⟩
        · rw [e3, e4] at hw'; exact old hw'
        · rw [e3, e4] at hw'
          rcases hw' with hw' | hw'
          · rcases mem_addKeys _ _ hw' with h | h
            · exact old (Or.inl h)
            · exact Or.inr ⟨by omega, ho _ h⟩
          · rcases mem_addKeys _ _ hw' with h | h
            · exact old (Or.inr h)
            · exact Or.inr ⟨by omega, hd _ h⟩
      apply inv_modify i1 tn g
      · intro T; exact ⟨rfl, rfl, rfl⟩
      · intro T hT _ h; exact i1.rcNoUpd T hT h
      · intro T hT e _ _ _ _; exact hupd T hT e
      · intro A hA B hB hne hact hov tbl' idx' f' t' k hr hw hin
        have hr0 : A.hasRead tbl' idx' f' t' := by
          by_cases c : A.start = tn
          · rw [if_pos c] at hr; exact hrsame A _ _ _ _ hr
          · rw [if_neg c] at hr; exact hr
        by_cases c : B.start = tn
        · rw [if_pos c] at hw
          rcases hwnew B _ _ _ hw with h | ⟨h1, h2⟩
          · exact i1.conf A hA B hB hne hact hov tbl' idx' f' t' k hr0 h hin
          · subst h1
            have hh : keysHit tbl' chk B A = true := by
              simp only [keysHit, Bool.and_eq_true, List.any_eq_true]
              exact ⟨hact, (idx', k), h2, readsContain_of_hasRead hr0 hin⟩
            rcases po (by simpa using hres) B hB c A hA (ids_cover fr hA order) (by omega) hh with h | h
            · have := hupd B hB c; rw [h.1] at this; simp at this
            · exact h.2.2
        · rw [if_neg c] at hw
          exact i1.conf A hA B hB hne hact hov tbl' idx' f' t' k hr0 hw hin

/-! ### the remaining operations -/

theorem inv_congr {s s' : State} (i : CkInv s) (ht : s'.trans = s.trans) (hq : s.seq ≤ s'.seq)
    (ho : s'.oldest = s.oldest ∨ s'.oldest = none) : CkInv s' where
  rcNoUpd := by rw [ht]; exact i.rcNoUpd
  wrUpd := by rw [ht]; exact i.wrUpd
  conf := by rw [ht]; exact i.conf
  sorted := by rw [ht]; exact i.sorted
  bound := by
    rw [ht]; intro T hT
    obtain ⟨h1, h2⟩ := i.bound T hT
    exact ⟨by omega, fun e he => by have := h2 e he; omega⟩
  oldestOK := by
    intro o h
    rcases ho with ho | ho
    · rw [ho] at h
      obtain ⟨h1, h2⟩ := i.oldestOK o h
      rw [ht]; exact ⟨by omega, h2⟩
    · rw [ho] at h; simp at h

theorem inv_abortAll : ∀ (l : List Nat) {s : State}, CkInv s → CkInv (abortAll s l)
  | [], _, i => i
  | t :: r, _, i => inv_abortAll r ((frame_abort i t).inv i)

theorem inv_tick {s : State} (i : CkInv s) (m : Nat) : CkInv (tick s m) := by
  unfold tick
  apply inv_abortAll
  exact inv_congr i rfl (Nat.le_refl _) (Or.inl rfl)

theorem inv_addExcl {s : State} (i : CkInv s) (tbl : Nat) : CkInv (addExcl s tbl).1 := by
  unfold addExcl
  split
  · exact i
  · exact inv_congr (inv_abortAll _ i) rfl (Nat.le_refl _) (Or.inl rfl)

theorem inv_endExcl {s : State} (i : CkInv s) (tbl : Nat) : CkInv (endExcl s tbl) := by
  unfold endExcl
  split
  · dsimp only
    generalize hx : (s.excl.map fun x => if x.1 == tbl then (tbl, some (s.seq + 2)) else x) = ex
    have i1 : CkInv { s with seq := s.seq + 2, excl := ex } := inv_congr i rfl (by simp) (Or.inl rfl)
    exact (frame_cleanEnded (fun T hT => (i1.bound T hT).1) i1.oldestOK).inv i1
  · exact i

theorem inv_start {s : State} (i : CkInv s) : CkInv (start s).1 := by
  have hnr : ∀ tbl idx f t, ¬ Tran.hasRead { start := s.seq + 2, birth := s.clock } tbl idx f t := by
    intro tbl idx f t ⟨a, ha, _⟩; simp at ha
  have hnw : ∀ tbl idx k, ¬ Tran.hasWrite { start := s.seq + 2, birth := s.clock } tbl idx k := by
    intro tbl idx k ⟨a, ha, _⟩; simp at ha
  simp only [start]
  constructor
  · intro T hT h
    simp only [List.mem_append, List.mem_singleton] at hT
    rcases hT with hT | rfl
    · exact i.rcNoUpd T hT h
    · rfl
  · intro T hT tbl idx k h
    simp only [List.mem_append, List.mem_singleton] at hT
    rcases hT with hT | rfl
    · exact i.wrUpd T hT tbl idx k h
    · exact absurd h (hnw tbl idx k)
  · intro A hA B hB hne hact hov tbl idx f t k hr hw hin
    simp only [List.mem_append, List.mem_singleton] at hA hB
    rcases hA with hA | rfl
    · rcases hB with hB | rfl
      · exact i.conf A hA B hB hne hact hov tbl idx f t k hr hw hin
      · exact absurd hw (hnw tbl idx k)
    · exact absurd hr (hnr tbl idx f t)
  · simp only [List.pairwise_append, List.pairwise_cons, List.Pairwise.nil, List.mem_singleton]
    refine ⟨i.sorted, ⟨by simp, trivial⟩, ?_⟩
    intro a ha b hb; subst hb
    have := (i.bound a ha).1; simp; omega
  · intro T hT
    simp only [List.mem_append, List.mem_singleton] at hT
    rcases hT with hT | rfl
    · obtain ⟨h1, h2⟩ := i.bound T hT
      exact ⟨by simp; omega, fun e he => by have := h2 e he; simp; omega⟩
    · simp
  · intro o ho
    obtain ⟨h1, h2⟩ := i.oldestOK o ho
    refine ⟨by simp; omega, ?_⟩
    intro A hA ha
    simp only [List.mem_append, List.mem_singleton] at hA
    rcases hA with hA | rfl
    · exact h2 A hA ha
    · simp; omega

/-- the transformation `commit` applies to the committing transaction -/
def commitT (tn e : Nat) (t : Tran) : Tran :=
  if t.start == tn && t.active then
    { t with end_ := some e, acts := t.acts.map fun a => { a with reads := [], creads := [] } } else t

theorem commitT_facts (tn e : Nat) (X : Tran) :
    (commitT tn e X).start = X.start ∧ (commitT tn e X).rc = X.rc ∧
    (commitT tn e X).hasUpdates = X.hasUpdates ∧
    (∀ tbl idx k, (commitT tn e X).hasWrite tbl idx k → X.hasWrite tbl idx k) ∧
    (∀ tbl idx f t, (commitT tn e X).hasRead tbl idx f t → X.hasRead tbl idx f t) ∧
    ((commitT tn e X).active = true → commitT tn e X = X) ∧
    ((commitT tn e X).end_ = X.end_ ∨ (X.end_ = none ∧ (commitT tn e X).end_ = some e)) := by
  unfold commitT
  split
  · rename_i h
    simp only [Bool.and_eq_true, beq_iff_eq] at h
    refine ⟨rfl, rfl, rfl, ?_, ?_, ?_, ?_⟩
    · intro tbl idx k ⟨a', ha', ht, hw⟩
      simp only [List.mem_map] at ha'
      obtain ⟨a, ha, rfl⟩ := ha'
      exact ⟨a, ha, ht, hw⟩
    · intro tbl idx f t ⟨a', ha', ht, hr⟩
      simp only [List.mem_map] at ha'
      obtain ⟨a, ha, rfl⟩ := ha'
      simp at hr
    · intro h2; simp [Tran.active] at h2
    · right; exact ⟨by simpa [Tran.active] using h.2, rfl⟩
  · exact ⟨rfl, rfl, rfl, fun _ _ _ h => h, fun _ _ _ _ h => h, fun _ => rfl, Or.inl rfl⟩

theorem inv_commit_mid {s : State} (i : CkInv s) (tn : Nat) (T : Tran) (oldest' : Option Nat)
    (hold : oldest' = s.oldest ∨ oldest' = none) (dead : List Nat) :
    CkInv (if T.hasUpdates = true then
        { s with seq := s.seq + 2, oldest := oldest', trans := s.trans.map (commitT tn (s.seq + 2)) }
      else { s with seq := s.seq + 2, oldest := oldest',
                    trans := s.trans.filter (fun t => !(t.start == tn && t.active)), deadRc := dead }) := by
  split
  · have mem : ∀ T' ∈ s.trans.map (commitT tn (s.seq + 2)), ∃ X ∈ s.trans, T' = commitT tn (s.seq + 2) X := by
      intro T' h; rw [List.mem_map] at h; obtain ⟨X, hX, rfl⟩ := h; exact ⟨X, hX, rfl⟩
    constructor
    · intro T' hT' h
      obtain ⟨X, hX, rfl⟩ := mem T' hT'
      obtain ⟨-, f2, f3, -⟩ := commitT_facts tn (s.seq + 2) X
      rw [f3]; rw [f2] at h; exact i.rcNoUpd X hX h
    · intro T' hT' tbl idx k h
      obtain ⟨X, hX, rfl⟩ := mem T' hT'
      obtain ⟨-, -, f3, f4, -⟩ := commitT_facts tn (s.seq + 2) X
      rw [f3]; exact i.wrUpd X hX tbl idx k (f4 _ _ _ h)
    · intro A' hA' B' hB' hne hact hov tbl idx f t k hr hw hin
      obtain ⟨A, hA, rfl⟩ := mem A' hA'
      obtain ⟨B, hB, rfl⟩ := mem B' hB'
      obtain ⟨a1, -, -, -, -, a6, -⟩ := commitT_facts tn (s.seq + 2) A
      obtain ⟨b1, -, -, b4, -, -, b7⟩ := commitT_facts tn (s.seq + 2) B
      have eA := a6 hact
      rw [eA] at hact hov hr hne ⊢
      rw [b1] at hne hov
      have hAe : A.end_ = none := by simpa [Tran.active] using hact
      refine i.conf A hA B hB hne hact ?_ tbl idx f t k hr (b4 _ _ _ hw) hin
      rcases b7 with b7 | ⟨b7, -⟩
      · rw [b7] at hov; exact hov
      · simp [overlap, hAe, b7]
    · have := i.sorted
      simp only [List.pairwise_map]
      refine this.imp ?_
      intro a b hab
      rw [(commitT_facts tn (s.seq + 2) a).1, (commitT_facts tn (s.seq + 2) b).1]; exact hab
    · intro T' hT'
      obtain ⟨X, hX, rfl⟩ := mem T' hT'
      obtain ⟨f1, -, -, -, -, -, f7⟩ := commitT_facts tn (s.seq + 2) X
      obtain ⟨h1, h2⟩ := i.bound X hX
      refine ⟨by rw [f1]; simp; omega, ?_⟩
      intro e he
      rcases f7 with f7 | ⟨-, f7⟩
      · rw [f7] at he; have := h2 e he; simp; omega
      · rw [f7] at he; simp at he; simp; omega
    · intro o h
      simp only at h
      rcases hold with hold | hold
      · rw [hold] at h
        obtain ⟨h1, h2⟩ := i.oldestOK o h
        refine ⟨by simp; omega, ?_⟩
        intro A' hA' ha
        obtain ⟨A, hA, rfl⟩ := mem A' hA'
        have eA := (commitT_facts tn (s.seq + 2) A).2.2.2.2.2.1 ha
        rw [eA] at ha ⊢; exact h2 A hA ha
      · rw [hold] at h; simp at h
  · have i1 : CkInv { s with seq := s.seq + 2, oldest := oldest' } :=
      inv_congr i rfl (by simp) hold
    refine (frame_filter (s := _) (s' := _) (fun t => !(t.start == tn && t.active)) (by rfl) (by rfl) ?_ ?_).inv i1
    · intro o h
      obtain ⟨h1, h2⟩ := i1.oldestOK o h
      refine ⟨h1, ?_⟩
      intro A hA ha
      simp only [List.mem_filter] at hA
      exact h2 A hA.1 ha
    · intro X _ hp hna; simp [hna] at hp

theorem inv_commit {s : State} (i : CkInv s) (tn : Nat) : CkInv (commit s tn).1 := by
  unfold commit
  cases hf : s.trans.find? (fun t => t.start == tn && t.active) with
  | none => exact i
  | some T =>
    dsimp only
    generalize ho : (if s.oldest == some tn then none else s.oldest) = oldest'
    have hold : oldest' = s.oldest ∨ oldest' = none := by subst ho; split <;> simp
    generalize hd : (if T.rc = true then tn :: s.deadRc else s.deadRc) = dead
    have i2 := inv_commit_mid i tn T oldest' hold dead
    by_cases hu : T.hasUpdates = true
    · rw [if_pos hu] at i2
      simp only [hu, if_true]
      split
      · exact (frame_cleanEnded (fun X hX => (i2.bound X hX).1) i2.oldestOK).inv i2
      · exact i2
    · rw [if_neg hu] at i2
      have hu' : T.hasUpdates = false := by simpa using hu
      simp only [hu', Bool.false_eq_true, if_false]
      split
      · exact (frame_cleanEnded (fun X hX => (i2.bound X hX).1) i2.oldestOK).inv i2
      · exact i2

theorem step_inv {s : State} (i : CkInv s) (op : Op) : CkInv (step s op).1 := by
  cases op with
  | start => exact inv_start i
  | read tn tbl idx f t o p => exact inv_read i tn tbl idx f t o p
  | output tn tbl ks o p =>
    exact inv_writeOp i tn tbl _ _ _ o p (fun _ h => by simp at h) (fun _ h => h)
  | delete tn tbl ks o p =>
    exact inv_writeOp i tn tbl _ _ _ o p (fun _ h => h) (fun _ h => by simp at h)
  | update tn tbl ok nk o p =>
    exact inv_writeOp i tn tbl _ _ _ o p (fun _ h => List.mem_append_left _ h)
      (fun _ h => List.mem_append_right _ h)
  | commit tn => exact inv_commit i tn
  | abort tn => exact (frame_abort i tn).inv i
  | tick m => exact inv_tick i m
  | addExcl tbl => exact inv_addExcl i tbl
  | endExcl tbl => exact inv_endExcl i tbl
  | readCount tn => exact i

theorem inv_init : CkInv {} where
  rcNoUpd := by intro T h; simp at h
  wrUpd := by intro T h; simp at h
  conf := by intro A h; simp at h
  sorted := List.Pairwise.nil
  bound := by intro T h; simp at h
  oldestOK := by intro o h; simp at h

theorem run_inv : ∀ (ops : List Op) {s : State}, CkInv s → CkInv (run s ops)
  | [], _, i => i
  | op :: ops, _, i => run_inv ops (step_inv i op)

end Gsu.Ck
