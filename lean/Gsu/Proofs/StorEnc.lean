/-
Helper lemmas for C14 (stor writers/readers, small offsets). Core-only.
-/
import Gsu.Model.StorEnc
open Gsu.Proto
namespace Gsu.StorEnc

theorem putN_length (k n : Nat) : (putN k n).length = k := by
  induction k generalizing n with
  | zero => rfl
  | succ k ih => simp [putN, ih]

theorem fromLE_putN (k n : Nat) : fromLE (putN k n) = n % 256 ^ k := by
  induction k generalizing n with
  | zero => simp [putN, fromLE, Nat.mod_one]
  | succ k ih =>
    simp only [putN, fromLE, ih, Nat.shiftRight_eq_div_pow, Nat.shiftLeft_eq, UInt8.toNat_ofNat', Nat.reducePow]
    have : (256 : Nat) ^ (k + 1) = 256 * 256 ^ k := by rw [Nat.pow_succ, Nat.mul_comm]
    rw [this, Nat.mod_mul]
    omega

theorem put_eq_some (k : Nat) (n : Int) (b : Bytes) :
    put k n = some b ↔ 0 ≤ n ∧ n < (256 : Int) ^ k ∧ b = putN k n.toNat := by
  unfold put
  by_cases h : n < 0 ∨ (256 : Int) ^ k ≤ n
  · simp only [h, if_true]
    constructor
    · intro h'; cases h'
    · intro ⟨h1, h2, _⟩; omega
  · simp only [h, if_false, Option.some.injEq]
    constructor
    · intro h'; exact ⟨by omega, by omega, h'.symm⟩
    · intro ⟨_, _, h3⟩; exact h3.symm

theorem get_append (k : Nat) (b rest : Bytes) (h : b.length = k) :
    get k (b ++ rest) = some (fromLE b, rest) := by
  unfold get
  have : k ≤ (b ++ rest).length := by simp; omega
  simp only [this, if_true]
  subst h
  simp

theorem get_put (k : Nat) (n : Int) (b rest : Bytes) (h : put k n = some b) :
    get k (b ++ rest) = some (n.toNat, rest) ∧ (n.toNat : Int) = n := by
  obtain ⟨h0, h1, rfl⟩ := (put_eq_some k n b).1 h
  rw [get_append k _ rest (putN_length k _), fromLE_putN]
  have h2 : n.toNat < 256 ^ k := by
    have : ((n.toNat : Nat) : Int) < ((256 ^ k : Nat) : Int) := by
      rw [Int.toNat_of_nonneg h0]; simpa using h1
    exact Int.ofNat_lt.mp this
  rw [Nat.mod_eq_of_lt h2]
  exact ⟨rfl, Int.toNat_of_nonneg h0⟩


theorem putStr_eq_some (s b : Bytes) : putStr s = some b ↔ s.length < 65536 ∧ b = putN 2 s.length ++ s := by
  unfold putStr
  cases h : put 2 (s.length : Int) with
  | none =>
    simp only [Option.map_none]
    constructor
    · intro h'; cases h'
    · intro ⟨h1, _⟩
      unfold put at h
      simp at h
      omega
  | some p =>
    obtain ⟨_, h1, rfl⟩ := (put_eq_some 2 _ p).1 h
    simp only [Option.map_some, Option.some.injEq, Int.toNat_natCast]
    constructor
    · intro h'; exact ⟨by omega, h'.symm⟩
    · intro ⟨_, h'⟩; exact h'.symm

theorem getStr_putStr (s b rest : Bytes) (h : putStr s = some b) : getStr (b ++ rest) = some (s, rest) := by
  obtain ⟨hl, rfl⟩ := (putStr_eq_some s b).1 h
  unfold getStr
  rw [List.append_assoc, get_append 2 _ _ (putN_length 2 _), fromLE_putN,
    Nat.mod_eq_of_lt (by simpa using hl)]
  simp

theorem getStrsN_putStrsBody (ss : List Bytes) (b rest : Bytes) (h : putStrsBody ss = some b) :
    getStrsN ss.length (b ++ rest) = some (ss, rest) := by
  induction ss generalizing b with
  | nil => simp [putStrsBody] at h; subst h; simp [getStrsN]
  | cons s ss ih =>
    simp only [putStrsBody] at h
    cases h1 : putStr s with
    | none => simp [h1] at h
    | some a =>
      cases h2 : putStrsBody ss with
      | none => simp [h1, h2] at h
      | some c =>
        simp only [h1, h2, Option.some.injEq] at h
        subst h
        simp only [List.length_cons, getStrsN, List.append_assoc, getStr_putStr s a _ h1, ih c h2]

theorem getStrs_putStrs (ss : List Bytes) (b rest : Bytes) (h : putStrs ss = some b) :
    getStrs (b ++ rest) = some (ss, rest) := by
  unfold putStrs at h
  cases h1 : put 2 (ss.length : Int) with
  | none => simp [h1] at h
  | some a =>
    cases h2 : putStrsBody ss with
    | none => simp [h1, h2] at h
    | some c =>
      simp only [h1, h2, Option.some.injEq] at h
      subst h
      unfold getStrs
      rw [List.append_assoc, (get_put 2 _ a _ h1).1]
      simp only [Int.toNat_natCast]
      exact getStrsN_putStrsBody ss c rest h2

theorem putStrs_ok (ss : List Bytes) (h1 : ss.length < 65536) (h2 : ∀ s ∈ ss, s.length < 65536) :
    ∃ b, putStrs ss = some b := by
  have hb : ∃ c, putStrsBody ss = some c := by
    clear h1
    induction ss with
    | nil => exact ⟨[], rfl⟩
    | cons s ss ih =>
      obtain ⟨c, hc⟩ := ih (fun x hx => h2 x (List.mem_cons_of_mem _ hx))
      have hs := (putStr_eq_some s _).2 ⟨h2 s (List.mem_cons_self), rfl⟩
      exact ⟨putN 2 s.length ++ s ++ c, by simp only [putStrsBody, hs, hc]⟩
  obtain ⟨c, hc⟩ := hb
  have hp := (put_eq_some 2 (ss.length : Int) _).2 ⟨by omega, by omega, rfl⟩
  exact ⟨putN 2 (ss.length : Int).toNat ++ c, by simp only [putStrs, hp, hc]⟩

theorem readSmall_writeSmall (off : Nat) (rest : Bytes) :
    readSmallOffset (writeSmallOffset off ++ rest) = some (off % 2 ^ 40) := by
  unfold readSmallOffset writeSmallOffset
  rw [get_append 5 _ _ (putN_length 5 _), fromLE_putN]
  rfl

end Gsu.StorEnc
