/-
M-DB global invariant, part 7: table sizes. `size = Σ row sizes` needs what the append-only store
guarantees (C18): the offset of a new record was never used before — an offset identifies a
record, so "the row with offset o" has one size in every snapshot. The ghost `Ghost` records
the offsets handed out so far and the size of the record at each. Core only.
-/
import Gsu.Proofs.DbInv6
import Gsu.Model.DbOK
namespace Gsu.Db

structure Ghost where
  used : List Off
  sz : Off → Nat

def Ghost.init : Ghost := ⟨[], fun _ => 0⟩

def gstep (g : Ghost) (s : State) (op : Op) : Ghost :=
  match okRow s op with
  | some row => ⟨row.off :: g.used, fun o => if o = row.off then row.size else g.sz o⟩
  | none => g

/-- the offset of the record a successful write adds is new -/
def OpFresh (g : Ghost) (s : State) (op : Op) : Prop := ∀ row, okRow s op = some row → row.off ∉ g.used

def RowsIn (g : Ghost) (rows : List Row) : Prop := ∀ r ∈ rows, r.off ∈ g.used ∧ r.size = g.sz r.off

theorem RowsIn.nil (g : Ghost) : RowsIn g [] := fun _ h => by cases h

theorem RowsIn.append {g : Ghost} {a b : List Row} (ha : RowsIn g a) (hb : RowsIn g b) : RowsIn g (a ++ b) :=
  fun r hr => (List.mem_append.mp hr).elim (ha r) (hb r)

theorem RowsIn.sub {g : Ghost} {a b : List Row} (hb : RowsIn g b) (h : ∀ r ∈ a, r ∈ b) : RowsIn g a :=
  fun r hr => hb r (h r hr)

theorem RowsIn.step {g : Ghost} {rows : List Row} (h : RowsIn g rows) (s : State) (op : Op)
    (hf : OpFresh g s op) : RowsIn (gstep g s op) rows := by
  unfold gstep
  cases hn : okRow s op with
  | none => exact h
  | some row =>
    intro r hr
    obtain ⟨h1, h2⟩ := h r hr
    have hne : r.off ≠ row.off := fun e => hf row hn (e ▸ h1)
    exact ⟨List.mem_cons_of_mem _ h1, by simp [hne, h2]⟩

theorem RowsIn.new (g : Ghost) (s : State) (op : Op) (row : Row) (h : okRow s op = some row) :
    RowsIn (gstep g s op) [row] := by
  intro r hr
  rw [List.mem_singleton.mp hr]
  simp [gstep, h]

structure SzInv (g : Ghost) (s : State) : Prop where
  tbl : ∀ (j : Nat) (ti : Info), s.mt[j]? = some ti → ti.size = rowsSize ti.rows ∧ RowsIn g ti.rows
  tran : ∀ t ∈ s.trans, ∀ (j : Nat) (sti : Info) (d : TDif), t.snap[j]? = some sti → t.dif[j]? = some d →
    sti.size = rowsSize sti.rows ∧ RowsIn g sti.rows ∧ RowsIn g d.adds

theorem szinv_init : SzInv Ghost.init State.init :=
  ⟨fun j ti h => by simp [State.init] at h, fun t h => by simp [State.init] at h⟩

/-! ## sums -/

theorem perm_sum_int {l₁ l₂ : List Int} (h : l₁.Perm l₂) : l₁.sum = l₂.sum := by
  induction h with
  | nil => rfl
  | cons x _ ih => simp [ih]
  | swap x y l => simp only [List.sum_cons]; omega
  | trans _ _ ih1 ih2 => exact ih1.trans ih2

theorem rowsSize_of_rowsIn {g : Ghost} {rows : List Row} (h : RowsIn g rows) :
    rowsSize rows = ((rows.map (·.off)).map (fun o => (g.sz o : Int))).sum := by
  simp only [rowsSize, List.map_map]
  congr 1
  apply List.map_congr_left
  intro r hr
  simp [(h r hr).2]

theorem perm_filter_dels (X : List Row) (D : List Off) (hx : OffsUniq X) (hd : D.Nodup)
    (hsub : ∀ o ∈ D, ∃ r ∈ X, r.off = o) :
    ((X.filter (fun r => D.contains r.off)).map (·.off)).Perm D := by
  have h1 : ((X.filter (fun r => D.contains r.off)).map (·.off)).Nodup := by
    unfold List.Nodup
    rw [List.pairwise_map]
    exact PW.filter _ hx
  rw [List.perm_ext_iff_of_nodup h1 hd]
  intro o
  simp only [List.mem_map, List.mem_filter, List.contains_eq_mem, decide_eq_true_eq]
  constructor
  · rintro ⟨r, ⟨_, hrD⟩, rfl⟩; exact hrD
  · intro ho
    obtain ⟨r, hr, hro⟩ := hsub o ho
    exact ⟨r, ⟨hr, hro ▸ ho⟩, hro⟩

/-- the deleted rows weigh the same in the snapshot and in the latest state -/
theorem rowsSize_filter_dels {g : Ghost} (X : List Row) (D : List Off) (hx : OffsUniq X) (hd : D.Nodup)
    (hsub : ∀ o ∈ D, ∃ r ∈ X, r.off = o) (hg : RowsIn g X) :
    rowsSize (X.filter (fun r => D.contains r.off)) = (D.map (fun o => (g.sz o : Int))).sum := by
  rw [rowsSize_of_rowsIn (hg.sub (fun r hr => (List.mem_filter.mp hr).1))]
  exact perm_sum_int ((perm_filter_dels X D hx hd hsub).map _)

theorem rowsSize_split (X : List Row) (p : Row → Bool) :
    rowsSize X = rowsSize (X.filter p) + rowsSize (X.filter (fun r => !p r)) := by
  induction X with
  | nil => rfl
  | cons x xs ih =>
    simp only [List.filter_cons]
    cases hp : p x <;>
      simp only [Bool.not_false, Bool.not_true, Bool.false_eq_true, if_true, if_false, rowsSize,
        List.map_cons, List.sum_cons] at ih ⊢ <;> omega

/-- the table size after the commit -/
theorem commit_size {sti lti : Info} {d : TDif} (hL : TblInv lti) (hS : TblInv sti) (hT : TVInv sti d)
    (hind : indep d sti lti = true) (g : Ghost) (hgL : RowsIn g lti.rows) (hgS : RowsIn g sti.rows)
    (hsz : lti.size = rowsSize lti.rows) :
    lti.size + d.ds = rowsSize (viewRows lti.rows d.adds d.dels) := by
  have c1 := rowsSize_filter_dels lti.rows d.dels hL.offs hT.dnod (commit_dels_sub hL hS hT hind) hgL
  have c2 := rowsSize_filter_dels sti.rows d.dels hS.offs hT.dnod hT.dsub hgS
  have n1 := rowsSize_split lti.rows (fun r => d.dels.contains r.off)
  have n2 := rowsSize_split sti.rows (fun r => d.dels.contains r.off)
  have hc := hT.sz
  simp only [TDif.view, viewRows, rowsSize_append] at hc ⊢
  omega

end Gsu.Db
