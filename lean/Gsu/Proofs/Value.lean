/-
Helper lemmas for C28 (value order, Equal/Hash consistency). Core-only.
-/
import Gsu.Model.Value
import Gsu.Proofs.DnumInt
namespace Gsu.Dnum

theorem compare_antisymm (x y : Dnum) : compare x y = - compare y x := by
  obtain ⟨c1, s1, e1⟩ := x
  obtain ⟨c2, s2, e2⟩ := y
  simp only [compare, Dnum.mk.injEq, signNegInf, signPosInf]
  repeat' split
  all_goals omega

theorem compare_self (x : Dnum) : compare x x = 0 := by
  simp [compare]

/-- `compare` is a total preorder: `≤` is transitive -/
theorem compare_trans (x y z : Dnum) (h1 : compare x y ≤ 0) (h2 : compare y z ≤ 0) : compare x z ≤ 0 := by
  obtain ⟨c1, s1, e1⟩ := x
  obtain ⟨c2, s2, e2⟩ := y
  obtain ⟨c3, s3, e3⟩ := z
  simp only [compare, Dnum.mk.injEq, signNegInf, signPosInf] at *
  repeat' split
  all_goals (try omega)
  all_goals (revert h1 h2; repeat' split)
  all_goals omega

theorem equal_iff (x y : Dnum) : equal x y = true ↔ x = y := by
  obtain ⟨c1, s1, e1⟩ := x
  obtain ⟨c2, s2, e2⟩ := y
  simp only [equal, Bool.and_eq_true, beq_iff_eq, Dnum.mk.injEq]
  constructor
  · rintro ⟨⟨a, b⟩, c⟩; exact ⟨c, a, b⟩
  · rintro ⟨a, b, c⟩; exact ⟨⟨b, c⟩, a⟩

end Gsu.Dnum

namespace Gsu.Num
open Gsu.Dnum

theorem cmpInt_antisymm (x y : Int) : cmpInt x y = - cmpInt y x := by
  simp only [cmpInt]; repeat' split
  all_goals omega

theorem compare_antisymm (a b : Num) : compare a b = - compare b a := by
  cases a <;> cases b <;> simp only [compare, asInt] <;>
    first | exact cmpInt_antisymm _ _ | exact Dnum.compare_antisymm _ _

/-- Equal numbers hash equally, whatever their representations (repaired Hash) -/
theorem hash_of_equal (a b : Num) (h : equal a b = true) : hash a = hash b := by
  cases a <;> cases b <;> simp only [equal, asInt, beq_iff_eq, Option.some.injEq] at h
  all_goals first
    | (have := (Dnum.equal_iff _ _).1 h; subst this; rfl)
    | (subst h; rfl)
    | (simp only [hash, h]; done)
    | (simp only [hash, ← h]; done)

end Gsu.Num

namespace Gsu.Val
open Gsu.Num Gsu.Dnum

theorem cmpNat_antisymm (a b : Nat) : cmpNat a b = - cmpNat b a := by
  simp only [cmpNat]; repeat' split
  all_goals omega

theorem cmpTriple_antisymm (a b : Nat × Nat × Nat) : cmpTriple a b = - cmpTriple b a := by
  simp only [cmpTriple, cmpNat]; repeat' split
  all_goals omega

theorem cmpBytes_antisymm : ∀ a b : List UInt8, cmpBytes a b = - cmpBytes b a
  | [], [] => rfl
  | [], _ :: _ => rfl
  | _ :: _, [] => rfl
  | a :: x, b :: y => by
    have ih := cmpBytes_antisymm x y
    simp only [cmpBytes, UInt8.lt_iff_toNat_lt, gt_iff_lt]
    repeat' split
    all_goals (first | omega | exact ih)

mutual
theorem compare_antisymm : ∀ a b : Value, compare a b = - compare b a
  | .bool a, .bool b => by cases a <;> cases b <;> decide
  | .num a, .num b => by simp only [compare]; exact Num.compare_antisymm a b
  | .str _ a, .str _ b => by simp only [compare]; exact cmpBytes_antisymm a b
  | .date _ _, .date _ _ => by simp only [compare]; exact cmpTriple_antisymm _ _
  | .date _ _, .ts _ _ _ => by simp only [compare]; exact cmpTriple_antisymm _ _
  | .ts _ _ _, .date _ _ => by simp only [compare]; exact cmpTriple_antisymm _ _
  | .ts _ _ _, .ts _ _ _ => by simp only [compare]; exact cmpTriple_antisymm _ _
  | .obj _ l1 _, .obj _ l2 _ => by simp only [compare]; exact compareList_antisymm l1 l2
  | .bool _, .num _ => by simp [compare, order, cmpNat]
  | .bool _, .str _ _ => by simp [compare, order, cmpNat]
  | .bool _, .date _ _ => by simp [compare, order, cmpNat]
  | .bool _, .ts _ _ _ => by simp [compare, order, cmpNat]
  | .bool _, .obj _ _ _ => by simp [compare, order, cmpNat]
  | .num _, .bool _ => by simp [compare, order, cmpNat]
  | .num _, .str _ _ => by simp [compare, order, cmpNat]
  | .num _, .date _ _ => by simp [compare, order, cmpNat]
  | .num _, .ts _ _ _ => by simp [compare, order, cmpNat]
  | .num _, .obj _ _ _ => by simp [compare, order, cmpNat]
  | .str _ _, .bool _ => by simp [compare, order, cmpNat]
  | .str _ _, .num _ => by simp [compare, order, cmpNat]
  | .str _ _, .date _ _ => by simp [compare, order, cmpNat]
  | .str _ _, .ts _ _ _ => by simp [compare, order, cmpNat]
  | .str _ _, .obj _ _ _ => by simp [compare, order, cmpNat]
  | .date _ _, .bool _ => by simp [compare, order, cmpNat]
  | .date _ _, .num _ => by simp [compare, order, cmpNat]
  | .date _ _, .str _ _ => by simp [compare, order, cmpNat]
  | .date _ _, .obj _ _ _ => by simp [compare, order, cmpNat]
  | .ts _ _ _, .bool _ => by simp [compare, order, cmpNat]
  | .ts _ _ _, .num _ => by simp [compare, order, cmpNat]
  | .ts _ _ _, .str _ _ => by simp [compare, order, cmpNat]
  | .ts _ _ _, .obj _ _ _ => by simp [compare, order, cmpNat]
  | .obj _ _ _, .bool _ => by simp [compare, order, cmpNat]
  | .obj _ _ _, .num _ => by simp [compare, order, cmpNat]
  | .obj _ _ _, .str _ _ => by simp [compare, order, cmpNat]
  | .obj _ _ _, .date _ _ => by simp [compare, order, cmpNat]
  | .obj _ _ _, .ts _ _ _ => by simp [compare, order, cmpNat]
theorem compareList_antisymm : ∀ x y : VList, compareList x y = - compareList y x
  | .nil, .nil => by simp [compareList]
  | .nil, .cons _ _ => by simp [compareList]
  | .cons _ _, .nil => by simp [compareList]
  | .cons a x, .cons b y => by
    have h1 := compare_antisymm a b
    have h2 := compareList_antisymm x y
    simp only [compareList]
    generalize compare a b = c at *
    generalize compare b a = d at *
    repeat' split
    all_goals omega
end

/-- across types the order is the type order -/
theorem compare_of_order (a b : Value) (h : order a ≠ order b) :
    compare a b = cmpNat (order a) (order b) := by
  cases a <;> cases b <;> simp [compare, order] at h ⊢

theorem hash2_of_equal (a b : Value) (h : equal a b = true) : hash2 a = hash2 b := by
  cases a <;> cases b <;> simp only [equal, Bool.and_eq_true, beq_iff_eq, Bool.false_eq_true] at h
  · subst h; rfl
  · exact Num.hash_of_equal _ _ h
  · simp only [hash2, h]
  · simp only [hash2, h.1, h.2]
  · simp only [hash2, h.1.1, h.1.2]
  · simp only [hash2, h.1.1.1, h.1.1.2]

/-- scalars (everything but containers): Equal values hash equally -/
theorem hash_of_equal_scalar (a b : Value) (ha : order a ≠ 4) (h : equal a b = true) : hash a = hash b := by
  cases a <;> cases b <;> simp only [equal, Bool.and_eq_true, beq_iff_eq, Bool.false_eq_true] at h
  · subst h; rfl
  · exact Num.hash_of_equal _ _ h
  · simp only [hash, hash2, h]
  · simp only [hash, hash2, h.1, h.2]
  · simp only [hash, h.1.1, h.1.2, h.2]
  · simp [order] at ha

/-- the named members of y are those of x up to reordering and memberwise `Equal` -/
inductive NPermEq : NList → NList → Prop
  | nil : NPermEq .nil .nil
  | cons {k v k' v' r r'} : equal k k' = true → equal v v' = true → NPermEq r r' →
      NPermEq (.cons k v r) (.cons k' v' r')
  | swap {k1 v1 k2 v2 r} : NPermEq (.cons k1 v1 (.cons k2 v2 r)) (.cons k2 v2 (.cons k1 v1 r))
  | trans {a b c} : NPermEq a b → NPermEq b c → NPermEq a c

theorem namedSum_permEq {a b : NList} (h : NPermEq a b) : namedSum a = namedSum b := by
  induction h with
  | nil => rfl
  | cons hk hv _ ih => simp only [namedSum, hash2_of_equal _ _ hk, hash2_of_equal _ _ hv, ih]
  | swap => simp only [namedSum]; ac_rfl
  | trans _ _ ih1 ih2 => exact ih1.trans ih2

theorem hash_of_equal_obj (r1 r2 : Bool) (l1 l2 : VList) (n1 n2 : NList)
    (h : equal (.obj r1 l1 n1) (.obj r2 l2 n2) = true) (hp : NPermEq n1 n2) :
    hash (.obj r1 l1 n1) = hash (.obj r2 l2 n2) := by
  simp only [equal, Bool.and_eq_true, beq_iff_eq] at h
  obtain ⟨⟨⟨hl, hn⟩, hel⟩, _⟩ := h
  have hs := namedSum_permEq hp
  have h2 : hash2 (.obj r1 l1 n1) = hash2 (.obj r2 l2 n2) := by simp only [hash2, hl, hn]
  simp only [hash, h2, hn, hs]
  cases l1 with
  | nil => cases l2 with
    | nil => rfl
    | cons _ _ => simp [VList.length] at hl
  | cons a x => cases l2 with
    | nil => simp [VList.length] at hl
    | cons b y =>
      simp only [equalList, Bool.and_eq_true] at hel
      have hab := hash2_of_equal _ _ hel.1
      cases x with
      | nil => cases y with
        | nil => simp only [hab]
        | cons _ _ => simp [VList.length] at hl
      | cons a2 x2 => cases y with
        | nil => simp [VList.length] at hl
        | cons b2 y2 =>
          simp only [equalList, Bool.and_eq_true] at hel
          simp only [hab, hash2_of_equal _ _ hel.2.1]

end Gsu.Val

namespace Gsu.Num
open Gsu.Dnum

theorem compare_eq_dnum_small (a b : Num)
    (ha : ∀ n, asInt a = some n → n.natAbs < 10 ^ 16) (hb : ∀ n, asInt b = some n → n.natAbs < 10 ^ 16) :
    compare a b = Dnum.compare (toDnum a) (toDnum b) := by
  cases hai : asInt a with
  | none => exact compare_dnum a b (Or.inl hai)
  | some x =>
    cases hbi : asInt b with
    | none => exact compare_dnum a b (Or.inr hbi)
    | some y =>
      rw [compare_ints a b x y hai hbi, toDnum_of_asInt a x hai, toDnum_of_asInt b y hbi]
      exact (compare_fromInt x y (ha x hai) (hb y hbi)).symm

theorem compare_trans_small (a b c : Num)
    (ha : ∀ n, asInt a = some n → n.natAbs < 10 ^ 16) (hb : ∀ n, asInt b = some n → n.natAbs < 10 ^ 16)
    (hc : ∀ n, asInt c = some n → n.natAbs < 10 ^ 16)
    (h1 : compare a b ≤ 0) (h2 : compare b c ≤ 0) : compare a c ≤ 0 := by
  rw [compare_eq_dnum_small a b ha hb] at h1
  rw [compare_eq_dnum_small b c hb hc] at h2
  rw [compare_eq_dnum_small a c ha hc]
  exact Dnum.compare_trans _ _ _ h1 h2

theorem compare_of_equal_same_kind (a b : Num) (hk : (asInt a).isSome = (asInt b).isSome)
    (h : equal a b = true) : compare a b = 0 := by
  cases a <;> cases b <;> simp only [asInt, Option.isSome, Bool.true_eq_false, Bool.false_eq_true] at hk <;>
    simp only [equal, asInt, beq_iff_eq, Option.some.injEq] at h
  all_goals first
    | (subst h; simp [compare, asInt, cmpInt])
    | (have := (Dnum.equal_iff _ _).1 h; subst this; simp [compare, asInt, toDnum, Dnum.compare_self])

end Gsu.Num
