/-
C27: counter-witnesses over ℚ (premature underflow of Mul and Div).
-/
import Gsu.Proofs.DnumQ3
namespace Gsu.Dnum

theorem mul_premature_underflow :
    FinN ⟨5000000000000000, 1, -63⟩ ∧ FinN ⟨5000000000000000, 1, -64⟩ ∧
    FinN ⟨2500000000000000, 1, -127⟩ ∧
    mul ⟨5000000000000000, 1, -63⟩ ⟨5000000000000000, 1, -64⟩ = zero ∧
    val ⟨5000000000000000, 1, -63⟩ * val ⟨5000000000000000, 1, -64⟩
      = val ⟨2500000000000000, 1, -127⟩ := by
  refine ⟨by simp only [FinN, WF]; decide, by simp only [FinN, WF]; decide,
    by simp only [FinN, WF]; decide, by decide, ?_⟩
  norm_num [val]

theorem div_premature_underflow :
    FinN ⟨5000000000000000, 1, -64⟩ ∧ FinN ⟨2000000000000000, 1, 65⟩ ∧
    FinN ⟨2500000000000000, 1, -128⟩ ∧
    div ⟨5000000000000000, 1, -64⟩ ⟨2000000000000000, 1, 65⟩ = zero ∧
    val ⟨5000000000000000, 1, -64⟩ / val ⟨2000000000000000, 1, 65⟩
      = val ⟨2500000000000000, 1, -128⟩ := by
  refine ⟨by simp only [FinN, WF]; decide, by simp only [FinN, WF]; decide,
    by simp only [FinN, WF]; decide, by decide, ?_⟩
  norm_num [val]

end Gsu.Dnum
