/-
M-DB global invariant, part 1: row lists — uniqueness of offsets / keys, `keymap` of a view after
adding, removing and replacing a row, counting the rows a transaction deleted. Core only.
-/
import Gsu.Proofs.DbStep
namespace Gsu.Db

/-! ## lists whose elements are pairwise different under `f` -/

/-- the elements of `l` are pairwise different under `f` -/
def PW {α β : Type} (f : α → β) (l : List α) : Prop := l.Pairwise (fun a b => f a ≠ f b)

theorem PW.nil {α β : Type} (f : α → β) : PW f ([] : List α) := List.Pairwise.nil

theorem PW.eq_of_mem {α β : Type} {f : α → β} {l : List α} (h : PW f l) {a b : α}
    (ha : a ∈ l) (hb : b ∈ l) (e : f a = f b) : a = b := by
  induction l with
  | nil => cases ha
  | cons x xs ih =>
    have hp := List.pairwise_cons.mp h
    rcases List.mem_cons.mp ha with rfl | ha' <;> rcases List.mem_cons.mp hb with rfl | hb'
    · rfl
    · exact absurd e (hp.1 b hb')
    · exact absurd e.symm (hp.1 a ha')
    · exact ih hp.2 ha' hb'

theorem PW.filter {α β : Type} {f : α → β} {l : List α} (p : α → Bool) (h : PW f l) :
    PW f (l.filter p) := List.Pairwise.filter p h

theorem PW.append {α β : Type} {f : α → β} {l₁ l₂ : List α} :
    PW f (l₁ ++ l₂) ↔ PW f l₁ ∧ PW f l₂ ∧ ∀ a ∈ l₁, ∀ b ∈ l₂, f a ≠ f b := List.pairwise_append

theorem PW.single {α β : Type} (f : α → β) (a : α) : PW f [a] := List.pairwise_singleton _ _

theorem PW.snoc {α β : Type} {f : α → β} {l : List α} {x : α} (h : PW f l)
    (hx : ∀ a ∈ l, f a ≠ f x) : PW f (l ++ [x]) :=
  PW.append.mpr ⟨h, PW.single f x, fun a ha b hb => by
    rw [List.mem_singleton.mp hb]; exact hx a ha⟩

/-- with unique `f`-values the first match of `f · == v` is the only one -/
theorem PW.find {α β : Type} [BEq β] [LawfulBEq β] {f : α → β} {l : List α} (h : PW f l) {a : α}
    (ha : a ∈ l) : l.find? (fun x => f x == f a) = some a := by
  induction l with
  | nil => cases ha
  | cons x xs ih =>
    have hp := List.pairwise_cons.mp h
    rcases List.mem_cons.mp ha with rfl | ha'
    · simp
    · have : (f x == f a) = false := by simpa using hp.1 a ha'
      simp only [List.find?_cons, this]
      exact ih hp.2 ha'

/-- with unique `f`-values, searching a filtered list = filtering the search result -/
theorem PW.find_filter {α β : Type} [BEq β] [LawfulBEq β] {f : α → β} {l : List α} (h : PW f l)
    (p : α → Bool) (v : β) :
    (l.filter p).find? (fun x => f x == v) = (l.find? (fun x => f x == v)).filter p := by
  cases hf : l.find? (fun x => f x == v) with
  | none =>
    simp only [Option.filter_none, List.find?_eq_none]
    intro x hx
    exact List.find?_eq_none.mp hf x (List.mem_filter.mp hx).1
  | some r =>
    have hr : r ∈ l := List.mem_of_find?_eq_some hf
    have hv : f r = v := by simpa using List.find?_some hf
    subst hv
    by_cases hp : p r = true
    · simp only [Option.filter_some, hp, if_true]
      exact (h.filter p).find (List.mem_filter.mpr ⟨hr, hp⟩)
    · simp only [Option.filter_some, hp]
      simp only [Bool.false_eq_true, if_false, List.find?_eq_none]
      intro x hx hfx
      have hx' := List.mem_filter.mp hx
      have : x = r := h.eq_of_mem hx'.1 hr (by simpa using hfx)
      exact hp (this ▸ hx'.2)

/-! ## rows -/

def OffsUniq (rows : List Row) : Prop := PW (·.off) rows
def KeysUniq (n : Nat) (rows : List Row) : Prop := ∀ i, i < n → PW (fun r => r.key i) rows

/-- the row `keymap` finds -/
def kfind (i : Nat) (rows : List Row) (k : Key) : Option Row := rows.find? (fun r => r.key i == k)

theorem keymap_eq (i : Nat) (rows : List Row) (k : Key) :
    keymap i rows k = (kfind i rows k).map (·.off) := rfl

theorem keymap_none_iff (i : Nat) (rows : List Row) (k : Key) :
    keymap i rows k = none ↔ ∀ r ∈ rows, r.key i ≠ k := by
  simp [keymap, List.find?_eq_none]

theorem keymap_some_mem {i : Nat} {rows : List Row} {k : Key} {o : Off}
    (h : keymap i rows k = some o) : ∃ r ∈ rows, r.key i = k ∧ r.off = o := by
  simp only [keymap, Option.map_eq_some_iff] at h
  obtain ⟨r, hf, ho⟩ := h
  exact ⟨r, List.mem_of_find?_eq_some hf, by simpa using List.find?_some hf, ho⟩

theorem keymap_of_mem {i : Nat} {rows : List Row} (h : PW (fun r => r.key i) rows) {r : Row}
    (hr : r ∈ rows) : keymap i rows (r.key i) = some r.off := by
  simp only [keymap, PW.find (f := fun r => r.key i) h hr, Option.map_some]

/-- adding a row whose key is new -/
theorem keymap_snoc (i : Nat) (V : List Row) (x : Row) (k : Key)
    (hx : ∀ y ∈ V, y.key i ≠ x.key i) :
    keymap i (V ++ [x]) k = if k = x.key i then some x.off else keymap i V k := by
  simp only [keymap, List.find?_append]
  by_cases hk : k = x.key i
  · subst hk
    have : V.find? (fun r => r.key i == x.key i) = none := by
      simp only [List.find?_eq_none]; intro y hy; simpa using hx y hy
    simp [this]
  · have : (x.key i == k) = false := by simpa using fun e => hk e.symm
    simp [hk, this]

/-- removing the row with offset `r.off` -/
theorem keymap_remove (i : Nat) (V : List Row) (r : Row) (k : Key)
    (hk : PW (fun r => r.key i) V) (ho : OffsUniq V) (hr : r ∈ V) :
    keymap i (V.filter (fun y => y.off != r.off)) k = if k = r.key i then none else keymap i V k := by
  simp only [keymap]
  have e := PW.find_filter (f := fun (r : Row) => r.key i) hk (fun (y : Row) => y.off != r.off) k
  rw [e]
  by_cases hkk : k = r.key i
  · subst hkk
    rw [PW.find (f := fun r => r.key i) hk hr]
    simp
  · simp only [hkk, if_false]
    cases hf : V.find? (fun r => r.key i == k) with
    | none => rfl
    | some y =>
      have hy : y ∈ V := List.mem_of_find?_eq_some hf
      have hyk : y.key i = k := by simpa using List.find?_some hf
      have : (y.off != r.off) = true := by
        simpa using fun e => hkk (by rw [← hyk, ho.eq_of_mem hy hr e])
      simp only [Option.filter_some, this, if_true]

/-- `keymap` sees only offsets -/
theorem keymap_filter_off (i : Nat) (X : List Row) (hk : PW (fun r => r.key i) X) (q : Off → Bool) (k : Key) :
    keymap i (X.filter (fun r => q r.off)) k = (keymap i X k).filter q := by
  simp only [keymap]
  have e := PW.find_filter (f := fun (r : Row) => r.key i) hk (fun (r : Row) => q r.off) k
  rw [e]
  cases X.find? (fun r => r.key i == k) with
  | none => rfl
  | some y => by_cases h : q y.off = true <;> simp only [Option.filter_some, Option.map_some, h] <;> rfl

/-! ## the view of a transaction -/

/-- `TDif.view` as a function of the adds and deletes -/
def viewRows (S : List Row) (A : List Row) (D : List Off) : List Row :=
  S.filter (fun r => !D.contains r.off) ++ A

theorem view_eq (d : TDif) (S : List Row) : d.view S = viewRows S d.adds d.dels := rfl

theorem viewRows_nil (S : List Row) : viewRows S [] [] = S := by
  simp [viewRows]

/-- `dropRow` removes exactly the row with that offset from the view -/
theorem view_dropRow (S : List Row) (d : TDif) (o : Off) (ho : OffsUniq (d.view S)) :
    viewRows S (dropRow d o).1 (dropRow d o).2 = (d.view S).filter (fun y => y.off != o) := by
  have hpw := PW.append.mp ho
  simp only [TDif.view, List.filter_append]
  unfold dropRow
  by_cases ha : d.adds.any (·.off == o) = true
  · simp only [ha, if_true, viewRows]
    congr 1
    symm
    rw [List.filter_eq_self]
    intro y hy
    obtain ⟨a, haA, hao⟩ := List.any_eq_true.mp ha
    have := hpw.2.2 y hy a haA
    have hao' : a.off = o := by simpa using hao
    simpa [← hao'] using this
  · simp only [ha, viewRows]
    have hA : d.adds.filter (fun y => y.off != o) = d.adds := by
      rw [List.filter_eq_self]
      intro y hy
      have : ¬ (y.off == o) = true := fun e => ha (List.any_eq_true.mpr ⟨y, hy, e⟩)
      simpa using this
    simp only [Bool.false_eq_true, if_false, hA]
    congr 1
    rw [List.filter_filter]
    apply List.filter_congr
    intro y _
    simp only [List.contains_cons, Bool.not_or, bne]

/-- removing the row with offset `o` from a list with unique offsets shortens it by one -/
theorem length_filter_off (V : List Row) (r : Row) (ho : OffsUniq V) (hr : r ∈ V) :
    (V.filter (fun y => y.off != r.off)).length + 1 = V.length := by
  induction V with
  | nil => cases hr
  | cons x xs ih =>
    have hp := List.pairwise_cons.mp ho
    rcases List.mem_cons.mp hr with rfl | hr'
    · have : xs.filter (fun y => y.off != r.off) = xs := by
        rw [List.filter_eq_self]; intro y hy
        simpa using fun e => hp.1 y hy e.symm
      simp [this]
    · have hx : x.off ≠ r.off := hp.1 r hr'
      have := ih hp.2 hr'
      simp only [List.filter_cons, bne_iff_ne, ne_eq, hx, not_false_eq_true, if_true, List.length_cons]
      omega

theorem rowsSize_append (a b : List Row) : rowsSize (a ++ b) = rowsSize a + rowsSize b := by
  simp [rowsSize, List.sum_append]

theorem rowsSize_filter_off (V : List Row) (r : Row) (ho : OffsUniq V) (hr : r ∈ V) :
    rowsSize (V.filter (fun y => y.off != r.off)) + r.size = rowsSize V := by
  induction V with
  | nil => cases hr
  | cons x xs ih =>
    have hp := List.pairwise_cons.mp ho
    rcases List.mem_cons.mp hr with rfl | hr'
    · have : xs.filter (fun y => y.off != r.off) = xs := by
        rw [List.filter_eq_self]; intro y hy
        simpa using fun e => hp.1 y hy e.symm
      simp only [List.filter_cons, bne_self_eq_false, Bool.false_eq_true, if_false, this]
      simp only [rowsSize, List.map_cons, List.sum_cons]
      omega
    · have hx : x.off ≠ r.off := hp.1 r hr'
      have := ih hp.2 hr'
      simp only [List.filter_cons, bne_iff_ne, ne_eq, hx, not_false_eq_true, if_true]
      simp only [rowsSize, List.map_cons, List.sum_cons] at this ⊢
      omega

/-- the rows of `X` whose offset is in `D` are as many as `D` -/
theorem length_filter_dels (X : List Row) (D : List Off) (hx : OffsUniq X) (hd : D.Nodup)
    (hsub : ∀ o ∈ D, ∃ r ∈ X, r.off = o) :
    (X.filter (fun r => D.contains r.off)).length = D.length := by
  have h1 : ((X.filter (fun r => D.contains r.off)).map (·.off)).Nodup := by
    unfold List.Nodup
    rw [List.pairwise_map]
    exact PW.filter _ hx
  have hperm : ((X.filter (fun r => D.contains r.off)).map (·.off)).Perm D := by
    rw [List.perm_ext_iff_of_nodup h1 hd]
    intro o
    simp only [List.mem_map, List.mem_filter, List.contains_eq_mem, decide_eq_true_eq]
    constructor
    · rintro ⟨r, ⟨_, hrD⟩, rfl⟩; exact hrD
    · intro ho
      obtain ⟨r, hr, hro⟩ := hsub o ho
      exact ⟨r, ⟨hr, hro ▸ ho⟩, hro⟩
  simpa using hperm.length_eq

theorem length_filter_not (X : List Row) (p : Row → Bool) :
    ((X.filter (fun r => !p r)).length : Int) = X.length - (X.filter p).length := by
  have := List.length_eq_countP_add_countP p (l := X)
  rw [List.countP_eq_length_filter, List.countP_eq_length_filter] at this
  have e : X.filter (fun a => decide ¬p a = true) = X.filter (fun r => !p r) := by
    apply List.filter_congr; intro x _; cases p x <;> rfl
  rw [e] at this
  omega

end Gsu.Db
