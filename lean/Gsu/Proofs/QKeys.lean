import Gsu.Model.QKeys
import Gsu.Proofs.QCursor
namespace Gsu.QKeys
open Gsu.Proto Gsu.QVal Gsu.QExpr Gsu.Qry Gsu.QCursor Gsu.QFixed

/-! ### the key-list combinators only select / combine -/

theorem mem_foldl_addUniq (k : List Col) : ∀ (l acc : List (List Col)),
    k ∈ l.foldl addUniq acc → k ∈ acc ∨ k ∈ l
  | [], acc, h => Or.inl h
  | x :: l, acc, h => by
    simp only [List.foldl_cons] at h
    rcases mem_foldl_addUniq k l _ h with h | h
    · unfold addUniq at h
      split at h
      · exact Or.inl h
      · rcases List.mem_append.1 h with h | h
        · exact Or.inl h
        · simp only [List.mem_singleton] at h
          exact Or.inr (by simp [h])
    · exact Or.inr (List.mem_cons_of_mem _ h)

theorem mem_minimizeKeys {k : List Col} {ks : List (List Col)} (h : k ∈ minimizeKeys ks) :
    k ∈ ks := by
  unfold minimizeKeys at h
  rcases mem_foldl_addUniq k _ _ h with h | h
  · cases h
  · exact (List.mem_filter.1 h).1

theorem hasSubset_sub {sup sub : List Col} (h : hasSubset sup sub = true) : Sub sub sup := by
  intro c hc
  simp only [hasSubset, Bool.and_eq_true, List.all_eq_true, List.contains_iff_mem] at h
  exact h.2 c hc

theorem mem_projectKeys {k cols : List Col} {ks : List (List Col)} (h : k ∈ projectKeys ks cols) :
    (k ∈ ks ∧ Sub k cols) ∨ k = cols := by
  unfold projectKeys at h
  split at h
  · simp only [List.mem_singleton] at h; exact Or.inr h
  · rename_i hne
    have := List.mem_filter.1 h
    exact Or.inl ⟨this.1, hasSubset_sub this.2⟩

theorem mem_keypairs {k : List Col} {ks1 ks2 : List (List Col)} (h : k ∈ keypairs ks1 ks2) :
    ∃ k1, k1 ∈ ks1 ∧ ∃ k2, k2 ∈ ks2 ∧ k = unionCols k1 k2 := by
  unfold keypairs at h
  rcases mem_foldl_addUniq k _ _ h with h | h
  · cases h
  · obtain ⟨k1, h1, h⟩ := List.mem_flatMap.1 h
    obtain ⟨k2, h2, e⟩ := List.mem_map.1 h
    exact ⟨k1, h1, k2, h2, e.symm⟩

theorem mem_unionKeys {k : List Col} {ks1 ks2 : List (List Col)} (h : k ∈ unionKeys ks1 ks2) :
    k ∈ ks1 ∨ k ∈ ks2 := by
  unfold unionKeys at h
  rcases List.mem_append.1 h with h | h
  · exact Or.inl h
  · exact Or.inr (List.mem_filter.1 h).1

/-! ### reading rows -/

theorem eqOn_iff (cs : List Col) (x y : Row) :
    eqOn cs x y = true ↔ ∀ c, c ∈ cs → QExpr.get x c = QExpr.get y c := by
  simp only [eqOn, List.all_eq_true, beq_iff_eq]

theorem lookup_none_of_not_mem (c : Col) : ∀ r : Row, c ∉ r.map (·.1) → r.lookup c = none
  | [], _ => rfl
  | (c', v) :: r, h => by
    have hc : c ≠ c' := fun e => h (by simp [e])
    have hne : (c == c') = false := by simpa using hc
    simp only [List.lookup_cons, hne]
    exact lookup_none_of_not_mem c r (fun hm => h (by simp only [List.map_cons]; exact List.mem_cons_of_mem _ hm))

theorem lookup_some_of_mem (c : Col) : ∀ r : Row, c ∈ r.map (·.1) → ∃ v, r.lookup c = some v
  | [], h => by cases h
  | (c', v) :: r, h => by
    by_cases hc : c = c'
    · subst hc; exact ⟨v, by simp⟩
    · have hne : (c == c') = false := by simpa using hc
      simp only [List.lookup_cons, hne]
      apply lookup_some_of_mem c r
      simp only [List.map_cons, List.mem_cons] at h
      rcases h with h | h
      · exact absurd h hc
      · exact h

theorem get_append_left (r1 r2 : Row) (c : Col) (h : c ∈ r1.map (·.1)) :
    QExpr.get (r1 ++ r2) c = QExpr.get r1 c := by
  obtain ⟨v, hv⟩ := lookup_some_of_mem c r1 h
  simp only [QExpr.get, List.lookup_append, hv, Option.some_or]

theorem get_append_right (r1 r2 : Row) (c : Col) (h : c ∉ r1.map (·.1)) :
    QExpr.get (r1 ++ r2) c = QExpr.get r2 c := by
  simp only [QExpr.get, List.lookup_append, lookup_none_of_not_mem c r1 h, Option.none_or]

theorem cols_restrict (cs : List Col) (r : Row) : (restrict cs r).map (·.1) = cs := by
  simp only [restrict, List.map_map]
  induction cs with
  | nil => rfl
  | cons c cs ih => simp only [List.map_cons, Function.comp]; congr 1

/-! ### every row of a query has exactly the query's columns, in order -/

/-- every row is laid out in the columns `cs` -/
def Shaped (cs : List Col) (rows : List Row) : Prop := ∀ r, r ∈ rows → r.map (·.1) = cs

/-- the stored tables are laid out in their declared columns -/
def WfDb (db : Db) : Prop :=
  ∀ id, Shaped (db.getD id default).cols (db.getD id default).rows

theorem shaped_evalQ (db : Db) (hdb : WfDb db) : ∀ q : Query, Shaped (colsQ db q) (evalQ db q)
  | .table id => hdb id
  | .where_ q e => fun r hr => shaped_evalQ db hdb q r ((mem_where db q e r).1 hr).1
  | .project q cs => by
    intro r hr
    simp only [evalQ, mem_dedup, List.mem_map] at hr
    obtain ⟨r0, _, rfl⟩ := hr
    exact cols_restrict cs r0
  | .rename q f t => by
    intro r hr
    simp only [evalQ, List.mem_map] at hr
    obtain ⟨r0, h0, rfl⟩ := hr
    simp only [colsQ, ← shaped_evalQ db hdb q r0 h0, List.map_map]
    rfl
  | .extend q c e => by
    intro r hr
    simp only [evalQ, List.mem_map] at hr
    obtain ⟨r0, h0, rfl⟩ := hr
    simp only [colsQ, List.map_append, shaped_evalQ db hdb q r0 h0, List.map_cons, List.map_nil]
  | .summarize q whole by_ aggs => by
    intro r hr
    cases whole with
    | false =>
      simp only [evalQ, Bool.false_eq_true, if_false] at hr
      obtain ⟨r1, _, hg⟩ := (mem_groupRows by_ aggs _ r).1 hr
      unfold grp at hg
      split at hg
      · cases hg
      · rw [zip_keyOf] at hg
        rw [← Option.some.inj hg]
        simp only [colsQ, Bool.false_eq_true, if_false, List.map_append, cols_restrict,
          List.map_map]
        rfl
    | true =>
      simp only [evalQ, if_true, wholeRows] at hr
      split at hr
      · simp only [List.mem_singleton] at hr
        subst hr
        simp only [colsQ, if_true, List.map_append, cols_restrict, unionCols, List.map_cons,
          List.map_nil, List.filter_cons, List.filter_nil]
        split <;> simp_all
      · cases hr
  | .sort q rev cs => fun r hr => shaped_evalQ db hdb q r (by
      simp only [evalQ] at hr; exact (mem_sortRows _ r _).1 hr)
  | .join a b => by
    intro r hr
    obtain ⟨r1, h1, r2, _, _, rfl⟩ := (mem_join db a b r).1 hr
    simp only [colsQ, List.map_append, cols_restrict, shaped_evalQ db hdb a r1 h1]
    rfl
  | .leftjoin a b => by
    intro r hr
    simp only [evalQ, List.mem_flatMap] at hr
    obtain ⟨r1, h1, hr⟩ := hr
    have e : ∀ r2 : Row, (r1 ++ restrict (diffCols (colsQ db b) (colsQ db a)) r2).map (·.1) =
        colsQ db (.leftjoin a b) := by
      intro r2
      simp only [colsQ, List.map_append, cols_restrict, shaped_evalQ db hdb a r1 h1]
      rfl
    split at hr
    · simp only [List.mem_singleton] at hr; subst hr; exact e []
    · obtain ⟨r2, _, rfl⟩ := List.mem_map.1 hr; exact e r2
  | .times a b => by
    intro r hr
    simp only [evalQ, List.mem_flatMap, List.mem_map] at hr
    obtain ⟨r1, h1, r2, h2, rfl⟩ := hr
    simp only [colsQ, List.map_append, shaped_evalQ db hdb a r1 h1, shaped_evalQ db hdb b r2 h2]
  | .union a b => by
    intro r hr
    simp only [evalQ, List.mem_append, List.mem_filter, List.mem_map] at hr
    rcases hr with ⟨r0, _, rfl⟩ | ⟨⟨r0, _, rfl⟩, _⟩ <;> exact cols_restrict _ r0
  | .intersect a b => by
    intro r hr
    simp only [evalQ, List.mem_map] at hr
    obtain ⟨r0, _, rfl⟩ := hr
    exact cols_restrict _ r0
  | .minus a b => by
    intro r hr
    simp only [evalQ, List.mem_filter] at hr
    exact shaped_evalQ db hdb a r hr.1

/-! ### keys through the operators -/

theorem mem_interCols (a b : List Col) (c : Col) : c ∈ interCols a b ↔ c ∈ a ∧ c ∈ b := by
  simp only [interCols, List.mem_filter, List.contains_iff_mem]

theorem isKey_mono {k k' : List Col} {rows : List Row} (hs : Sub k k') (h : IsKey k rows) :
    IsKey k' rows := by
  intro r1 h1 r2 h2 he
  apply h r1 h1 r2 h2
  rw [eqOn_iff] at he ⊢
  exact fun c hc => he c (hs c hc)

theorem isKey_subrows {k : List Col} {rows rows' : List Row} (hs : ∀ r, r ∈ rows' → r ∈ rows)
    (h : IsKey k rows) : IsKey k rows' :=
  fun r1 h1 r2 h2 he => h r1 (hs r1 h1) r2 (hs r2 h2) he

theorem isKey_map {k k' : List Col} {rows : List Row} (f : Row → Row)
    (h : ∀ r1, r1 ∈ rows → ∀ r2, r2 ∈ rows → eqOn k' (f r1) (f r2) = true → eqOn k r1 r2 = true)
    (hk : IsKey k rows) : IsKey k' (rows.map f) := by
  intro x1 h1 x2 h2 he
  obtain ⟨r1, m1, rfl⟩ := List.mem_map.1 h1
  obtain ⟨r2, m2, rfl⟩ := List.mem_map.1 h2
  rw [hk r1 m1 r2 m2 (h r1 m1 r2 m2 he)]

theorem isKey_restrict_all (cs : List Col) (rows : List Row) :
    IsKey cs (rows.map (restrict cs)) := by
  intro x1 h1 x2 h2 he
  obtain ⟨r1, _, rfl⟩ := List.mem_map.1 h1
  obtain ⟨r2, _, rfl⟩ := List.mem_map.1 h2
  rw [eqOn_iff] at he
  apply restrict_congr
  intro c hc
  have := he c hc
  rwa [get_restrict r1 c cs hc, get_restrict r2 c cs hc] at this

theorem isKey_restrict {k cs : List Col} {rows : List Row} (hs : Sub k cs) (hk : IsKey k rows) :
    IsKey k (rows.map (restrict cs)) := by
  apply isKey_map (restrict cs) _ hk
  intro r1 _ r2 _ he
  rw [eqOn_iff] at he ⊢
  intro c hc
  have := he c hc
  rwa [get_restrict r1 c cs (hs c hc), get_restrict r2 c cs (hs c hc)] at this

/-- the keys a query reports are columns of the query and unique in its rows -/
def KeysOk (db : Db) (q : Query) (ks : List (List Col)) : Prop :=
  ∀ k, k ∈ ks → Sub k (colsQ db q) ∧ IsKey k (evalQ db q)

theorem keysOk_project (db : Db) (q : Query) (cs : List Col) (ks : List (List Col))
    (h : KeysOk db q ks) : KeysOk db (.project q cs) (projectKeys ks cs) := by
  intro k hk
  have hsub : ∀ r, r ∈ evalQ db (.project q cs) → r ∈ (evalQ db q).map (restrict cs) := by
    intro r hr; simp only [evalQ, mem_dedup] at hr; exact hr
  rcases mem_projectKeys hk with ⟨hm, hs⟩ | rfl
  · exact ⟨hs, isKey_subrows hsub (isKey_restrict hs (h k hm).2)⟩
  · exact ⟨fun c hc => hc, isKey_subrows hsub (isKey_restrict_all _ _)⟩

theorem keysOk_extend (db : Db) (hdb : WfDb db) (q : Query) (c : Col) (e : Expr)
    (ks : List (List Col)) (h : KeysOk db q ks) : KeysOk db (.extend q c e) ks := by
  intro k hk
  obtain ⟨hs, hkey⟩ := h k hk
  refine ⟨fun c' hc' => by simp only [colsQ, List.mem_append]; exact Or.inl (hs c' hc'), ?_⟩
  simp only [evalQ]
  apply isKey_map _ _ hkey
  intro r1 m1 r2 m2 he
  rw [eqOn_iff] at he ⊢
  intro c' hc'
  have := he c' hc'
  rwa [get_append_left r1 _ c' (by rw [shaped_evalQ db hdb q r1 m1]; exact hs c' hc'),
    get_append_left r2 _ c' (by rw [shaped_evalQ db hdb q r2 m2]; exact hs c' hc')] at this

theorem keysOk_summarize (db : Db) (q : Query) (by_ : List Col) (aggs : List (Col × Agg × Col))
    (ks : List (List Col)) (h : KeysOk db q ks) :
    KeysOk db (.summarize q false by_ aggs) (projectKeys ks by_) := by
  intro k hk
  have hcols : Sub by_ (colsQ db (.summarize q false by_ aggs)) := by
    intro c hc; simp only [colsQ, Bool.false_eq_true, if_false, List.mem_append]; exact Or.inl hc
  rcases mem_projectKeys hk with ⟨hm, hs⟩ | rfl
  · refine ⟨fun c hc => hcols c (hs c hc), ?_⟩
    have hkey := (h k hm).2
    intro g1 h1 g2 h2 heq
    simp only [evalQ, Bool.false_eq_true, if_false] at h1 h2
    obtain ⟨r1, hr1, hg1⟩ := (mem_groupRows by_ aggs _ g1).1 h1
    obtain ⟨r2, hr2, hg2⟩ := (mem_groupRows by_ aggs _ g2).1 h2
    obtain ⟨rest1, e1⟩ := grp_shape hg1
    obtain ⟨rest2, e2⟩ := grp_shape hg2
    have hr : r1 = r2 := by
      apply hkey r1 hr1 r2 hr2
      rw [eqOn_iff] at heq ⊢
      intro c hc
      have := heq c hc
      rwa [e1, e2, get_restrict_append r1 rest1 c by_ (hs c hc),
        get_restrict_append r2 rest2 c by_ (hs c hc)] at this
    subst hr
    rw [hg1] at hg2
    exact Option.some.inj hg2
  · exact ⟨hcols, key_summarize db q _ aggs⟩

theorem wholeRows_unique (cs : List Col) (aggs : List (Col × Agg × Col)) (src : List Row)
    (r1 r2 : Row) (h1 : r1 ∈ wholeRows cs aggs src) (h2 : r2 ∈ wholeRows cs aggs src) :
    r1 = r2 := by
  unfold wholeRows at h1 h2
  split at h1
  · simp only [List.mem_singleton] at h1 h2; rw [h1, h2]
  · cases h1

theorem keysOk_whole (db : Db) (q : Query) (aggs : List (Col × Agg × Col))
    (ks : List (List Col)) :
    KeysOk db (.summarize q true [] aggs) (projectKeys ks []) := by
  intro k hk
  have hk0 : k = [] := by
    rcases mem_projectKeys hk with ⟨_, hs⟩ | rfl
    · cases k with
      | nil => rfl
      | cons c k => exact absurd (hs c (List.mem_cons_self ..)) (by simp)
    · rfl
  subst hk0
  refine ⟨fun c hc => (by cases hc), ?_⟩
  intro r1 h1 r2 h2 _
  simp only [evalQ, if_true] at h1 h2
  exact wholeRows_unique _ _ _ r1 r2 h1 h2

theorem keysOk_union (db : Db) (a b : Query) :
    KeysOk db (.union a b) [unionCols (colsQ db a) (colsQ db b)] := by
  intro k hk
  simp only [List.mem_singleton] at hk
  subst hk
  refine ⟨fun c hc => hc, ?_⟩
  have hall := isKey_restrict_all (unionCols (colsQ db a) (colsQ db b)) (evalQ db a ++ evalQ db b)
  apply isKey_subrows _ hall
  intro r hr
  simp only [evalQ, List.mem_append, List.mem_filter, List.mem_map] at hr
  simp only [List.map_append, List.mem_append, List.mem_map]
  rcases hr with h | ⟨h, _⟩
  · exact Or.inl h
  · exact Or.inr h

theorem keysOk_intersect (db : Db) (a b : Query) (ka kb : List (List Col))
    (ha : KeysOk db a ka) (hb : KeysOk db b kb) :
    KeysOk db (.intersect a b)
      (projectKeys (minimizeKeys (ka ++ kb)) (interCols (colsQ db a) (colsQ db b))) := by
  intro k hk
  have hrows : ∀ r, r ∈ evalQ db (.intersect a b) →
      r ∈ (evalQ db a).map (restrict (interCols (colsQ db a) (colsQ db b))) := by
    intro r hr
    simp only [evalQ, List.mem_map, List.mem_filter] at hr
    obtain ⟨r0, ⟨h0, _⟩, rfl⟩ := hr
    exact List.mem_map.2 ⟨r0, h0, rfl⟩
  rcases mem_projectKeys hk with ⟨hm, hs⟩ | rfl
  · refine ⟨hs, ?_⟩
    rcases List.mem_append.1 (mem_minimizeKeys hm) with hm | hm
    · exact isKey_subrows hrows (isKey_restrict hs (ha k hm).2)
    · have hkey := (hb k hm).2
      intro x1 h1 x2 h2 he
      simp only [evalQ, List.mem_map, List.mem_filter, List.contains_iff_mem] at h1 h2
      obtain ⟨r1, ⟨_, ⟨s1, m1, e1⟩⟩, rfl⟩ := h1
      obtain ⟨r2, ⟨_, ⟨s2, m2, e2⟩⟩, rfl⟩ := h2
      have hall : Sub (interCols (colsQ db a) (colsQ db b))
          (unionCols (colsQ db a) (colsQ db b)) := fun c hc =>
        (mem_unionCols _ _ c).2 (Or.inl ((mem_interCols _ _ c).1 hc).1)
      have rd : ∀ (r s : Row), restrict (unionCols (colsQ db a) (colsQ db b)) s =
          restrict (unionCols (colsQ db a) (colsQ db b)) r → ∀ c, c ∈ k →
          QExpr.get (restrict (interCols (colsQ db a) (colsQ db b)) r) c = QExpr.get s c := by
        intro r s e c hc
        rw [get_restrict r c _ (hs c hc), ← get_restrict r c _ (hall c (hs c hc)), ← e,
          get_restrict s c _ (hall c (hs c hc))]
      have hss : s1 = s2 := by
        apply hkey s1 m1 s2 m2
        rw [eqOn_iff] at he ⊢
        intro c hc
        rw [← rd r1 s1 e1 c hc, ← rd r2 s2 e2 c hc]
        exact he c hc
      subst hss
      rw [← restrict_restrict _ _ r1 hall, ← restrict_restrict _ _ r2 hall, ← e1, ← e2]
  · exact ⟨fun c hc => hc, isKey_subrows hrows (isKey_restrict_all _ _)⟩

theorem keysOk_times (db : Db) (hdb : WfDb db) (a b : Query) (ka kb : List (List Col))
    (ha : KeysOk db a ka) (hb : KeysOk db b kb)
    (hd : (interCols (colsQ db a) (colsQ db b)).isEmpty = true) :
    KeysOk db (.times a b) (keypairs ka kb) := by
  intro k hk
  obtain ⟨k1, m1, k2, m2, rfl⟩ := mem_keypairs hk
  obtain ⟨s1, key1⟩ := ha k1 m1
  obtain ⟨s2, key2⟩ := hb k2 m2
  have hdis : ∀ c, c ∈ colsQ db b → c ∉ colsQ db a := by
    intro c hcb hca
    have : c ∈ interCols (colsQ db a) (colsQ db b) := (mem_interCols _ _ c).2 ⟨hca, hcb⟩
    rw [List.isEmpty_iff.1 hd] at this
    cases this
  refine ⟨fun c hc => ?_, ?_⟩
  · simp only [colsQ, List.mem_append]
    rcases (mem_unionCols _ _ c).1 hc with h | h
    · exact Or.inl (s1 c h)
    · exact Or.inr (s2 c h)
  · intro x1 h1 x2 h2 he
    simp only [evalQ, List.mem_flatMap, List.mem_map] at h1 h2
    obtain ⟨r1, a1, r2, b1, rfl⟩ := h1
    obtain ⟨r1', a2, r2', b2, rfl⟩ := h2
    rw [eqOn_iff] at he
    have sa := shaped_evalQ db hdb a
    have e1 : r1 = r1' := by
      apply key1 r1 a1 r1' a2
      rw [eqOn_iff]
      intro c hc
      have := he c ((mem_unionCols _ _ c).2 (Or.inl hc))
      rwa [get_append_left r1 _ c (by rw [sa r1 a1]; exact s1 c hc),
        get_append_left r1' _ c (by rw [sa r1' a2]; exact s1 c hc)] at this
    have e2 : r2 = r2' := by
      apply key2 r2 b1 r2' b2
      rw [eqOn_iff]
      intro c hc
      have := he c ((mem_unionCols _ _ c).2 (Or.inr hc))
      rwa [get_append_right r1 _ c (by rw [sa r1 a1]; exact hdis c (s2 c hc)),
        get_append_right r1' _ c (by rw [sa r1' a2]; exact hdis c (s2 c hc))] at this
    rw [e1, e2]

/-! ### join / leftjoin -/

theorem get_join_right (ca cb : List Col) (r1 r2 : Row) (hs : r1.map (·.1) = ca)
    (hm : eqOn (interCols ca cb) r1 r2 = true) (c : Col) (hc : c ∈ cb) :
    QExpr.get (r1 ++ restrict (diffCols cb ca) r2) c = QExpr.get r2 c := by
  by_cases hca : c ∈ ca
  · rw [get_join_left r1 r2 ca cb c hca]
    exact (eqOn_iff _ _ _).1 hm c ((mem_interCols _ _ c).2 ⟨hca, hc⟩)
  · rw [get_append_right r1 _ c (by rw [hs]; exact hca),
      get_restrict r2 c _ ((mem_diffCols cb ca c).2 ⟨hc, hca⟩)]

/-- joined rows that agree on a key of the left side come from the same left row -/
theorem join_left_eq {ca cb K K1 : List Col} {A : List Row} (s1 : Sub K1 ca) (key1 : IsKey K1 A)
    (hK : Sub K1 K) {r1 r1' x x' : Row} (a1 : r1 ∈ A) (a2 : r1' ∈ A)
    (he : eqOn K (r1 ++ restrict (diffCols cb ca) x) (r1' ++ restrict (diffCols cb ca) x') = true) :
    r1 = r1' := by
  apply key1 r1 a1 r1' a2
  rw [eqOn_iff] at he ⊢
  intro c hc
  have := he c (hK c hc)
  rwa [get_join_left r1 x ca cb c (s1 c hc), get_join_left r1' x' ca cb c (s1 c hc)] at this

/-- joined rows that agree on a key of the right side come from the same right row -/
theorem join_right_eq {ca cb K K2 : List Col} {B : List Row} (s2 : Sub K2 cb) (key2 : IsKey K2 B)
    (hK : Sub K2 K) {r1 r1' r2 r2' : Row} (hs : r1.map (·.1) = ca) (hs' : r1'.map (·.1) = ca)
    (b1 : r2 ∈ B) (b2 : r2' ∈ B) (m : eqOn (interCols ca cb) r1 r2 = true)
    (m' : eqOn (interCols ca cb) r1' r2' = true)
    (he : eqOn K (r1 ++ restrict (diffCols cb ca) r2) (r1' ++ restrict (diffCols cb ca) r2') = true) :
    r2 = r2' := by
  apply key2 r2 b1 r2' b2
  rw [eqOn_iff] at he ⊢
  intro c hc
  have := he c (hK c hc)
  rwa [get_join_right ca cb r1 r2 hs m c (s2 c hc),
    get_join_right ca cb r1' r2' hs' m' c (s2 c hc)] at this

/-- a key of the right side inside the join columns: at most one match per left row -/
theorem match_unique_right {common K2 : List Col} {B : List Row} (s : Sub K2 common)
    (key2 : IsKey K2 B) {r1 r2 r2' : Row} (b1 : r2 ∈ B) (b2 : r2' ∈ B)
    (m : eqOn common r1 r2 = true) (m' : eqOn common r1 r2' = true) : r2 = r2' := by
  apply key2 r2 b1 r2' b2
  rw [eqOn_iff] at m m' ⊢
  intro c hc
  rw [← m c (s c hc), ← m' c (s c hc)]

theorem match_unique_left {common K1 : List Col} {A : List Row} (s : Sub K1 common)
    (key1 : IsKey K1 A) {r1 r1' r2 : Row} (a1 : r1 ∈ A) (a2 : r1' ∈ A)
    (m : eqOn common r1 r2 = true) (m' : eqOn common r1' r2 = true) : r1 = r1' := by
  apply key1 r1 a1 r1' a2
  rw [eqOn_iff] at m m' ⊢
  intro c hc
  rw [m c (s c hc), m' c (s c hc)]

theorem mem_leftjoin (db : Db) (a b : Query) (x : Row) (h : x ∈ evalQ db (.leftjoin a b)) :
    ∃ r1, r1 ∈ evalQ db a ∧
      ((((evalQ db b).filter fun r2 => eqOn (interCols (colsQ db a) (colsQ db b)) r1 r2) = [] ∧
        x = r1 ++ restrict (diffCols (colsQ db b) (colsQ db a)) []) ∨
      (∃ r2, r2 ∈ evalQ db b ∧ eqOn (interCols (colsQ db a) (colsQ db b)) r1 r2 = true ∧
        x = r1 ++ restrict (diffCols (colsQ db b) (colsQ db a)) r2)) := by
  simp only [evalQ, List.mem_flatMap] at h
  obtain ⟨r1, a1, h⟩ := h
  refine ⟨r1, a1, ?_⟩
  split at h
  · rename_i hnil
    simp only [List.mem_singleton] at h
    exact Or.inl ⟨hnil, h⟩
  · obtain ⟨r2, hm, rfl⟩ := List.mem_map.1 h
    have := List.mem_filter.1 hm
    exact Or.inr ⟨r2, this.1, this.2, rfl⟩

/-! ### rename -/

theorem lookup_map_inj (g : Col → Col) (c : Col) : ∀ r : Row,
    (∀ c', c' ∈ r.map (·.1) → g c' = g c → c' = c) →
    (r.map fun cv => (g cv.1, cv.2)).lookup (g c) = r.lookup c
  | [], _ => rfl
  | (c', v) :: r, h => by
    simp only [List.map_cons, List.lookup_cons]
    by_cases hc : c = c'
    · subst hc; simp
    · have h1 : (c == c') = false := by simpa using hc
      have h2 : (g c == g c') = false := by
        simp only [beq_eq_false_iff_ne, ne_eq]
        intro e; exact hc (h c' (by simp) e.symm).symm
      simp only [h1, h2]
      exact lookup_map_inj g c r (fun c'' hm => h c'' (by
        simp only [List.map_cons]; exact List.mem_cons_of_mem _ hm))

theorem renCol_inj : ∀ (f t cols : List Col), renOk cols f t = true →
    ∀ a, a ∈ cols → ∀ b, b ∈ cols → renCol f t a = renCol f t b → a = b
  | [], [], _, _, a, _, b, _, h => by simpa only [renCol] using h
  | [], _ :: _, _, hok, _, _, _, _, _ => by simp [renOk] at hok
  | _ :: _, [], _, hok, _, _, _, _, _ => by simp [renOk] at hok
  | f :: fs, t :: ts, cols, hok, a, ha, b, hb, h => by
    simp only [renOk, Bool.and_eq_true, Bool.not_eq_true', List.contains_eq_mem,
      decide_eq_false_iff_not, decide_eq_true_eq] at hok
    obtain ⟨⟨_, ht⟩, hrest⟩ := hok
    simp only [renCol] at h
    have := renCol_inj fs ts _ hrest (ren1 f t a) (List.mem_map_of_mem ha) (ren1 f t b)
      (List.mem_map_of_mem hb) h
    unfold ren1 at this
    split at this <;> split at this
    · rename_i h1 h2; rw [h1, h2]
    · rename_i h1 h2; rw [← this] at hb; exact absurd hb ht
    · rename_i h1 h2; rw [this] at ha; exact absurd ha ht
    · exact this

theorem keysOk_rename (db : Db) (hdb : WfDb db) (q : Query) (f t : List Col)
    (ks : List (List Col)) (h : KeysOk db q ks) (hok : renOk (colsQ db q) f t = true) :
    KeysOk db (.rename q f t) (ks.map (·.map (renCol f t))) := by
  intro k' hk'
  obtain ⟨k, hk, rfl⟩ := List.mem_map.1 hk'
  obtain ⟨hs, hkey⟩ := h k hk
  refine ⟨?_, ?_⟩
  · intro c hc
    obtain ⟨c0, h0, rfl⟩ := List.mem_map.1 hc
    simp only [colsQ]
    exact List.mem_map_of_mem (hs c0 h0)
  · simp only [evalQ]
    apply isKey_map _ _ hkey
    intro r1 m1 r2 m2 he
    rw [eqOn_iff] at he ⊢
    intro c hc
    have := he (renCol f t c) (List.mem_map_of_mem hc)
    have g : ∀ r, r ∈ evalQ db q →
        QExpr.get (r.map fun cv => (renCol f t cv.1, cv.2)) (renCol f t c) = QExpr.get r c := by
      intro r hr
      simp only [QExpr.get]
      rw [lookup_map_inj (renCol f t) c r (fun c' hc' e =>
        renCol_inj f t _ hok c' (by rw [← shaped_evalQ db hdb q r hr]; exact hc') c (hs c hc) e)]
    rwa [g r1 m1, g r2 m2] at this

end Gsu.QKeys
