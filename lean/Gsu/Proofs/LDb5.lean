/-
C08 — what a cascading delete removes: exactly the rows that (transitively) reference the
deleted row through foreign keys that cascade deletes (`opDelete_spec`).  Core only.
-/
import Gsu.Proofs.LDb4
set_option linter.unusedVariables false
namespace Gsu.LDb
open Gsu.Proto

/-! ### what a cascading delete removes -/

/-- the rows the delete of `(t, row)` reaches in `db`: the row itself and, transitively, every row
that references a reached row through a foreign key that cascades deletes -/
inductive DelReach (sch : Schema) (db : Db) (t : Nat) (row : Row) : Nat → Row → Prop
  | base : DelReach sch db t row t row
  | step {s' : Nat} {r' : Row} {ix : Index} {i : Nat} {f : FkTo} {r : Row} :
      DelReach sch db t row s' r' → (ix, i) ∈ enumIdxs sch s' → f ∈ fkToHere sch s' i →
      cascadesDeletes f.mode = true → emptyKey (proj ix.cols r') = false → r ∈ db f.table →
      proj (colsOf sch f.table f.index) r = proj ix.cols r' → DelReach sch db t row f.table r

/-- no row references a key of `x` -/
def NoRefs (sch : Schema) (db : Db) (s : Nat) (x : Row) : Prop :=
  ∀ ix i f, (ix, i) ∈ enumIdxs sch s → f ∈ fkToHere sch s i → emptyKey (proj ix.cols x) = false →
    refs sch db f (proj ix.cols x) = false

theorem cascDel_mem {sch : Schema} {t : Nat} {row : Row} {c : DTask} (hc : c ∈ cascDel sch t row) :
    ∃ ix i f, (ix, i) ∈ enumIdxs sch t ∧ f ∈ fkToHere sch t i ∧ cascadesDeletes f.mode = true ∧
      emptyKey (proj ix.cols row) = false ∧ c = DTask.casc f (proj ix.cols row) := by
  unfold cascDel at hc
  rw [List.mem_flatMap] at hc
  obtain ⟨⟨ix, i⟩, hix, hc⟩ := hc
  simp only at hc
  split at hc
  · cases hc
  · rename_i hne
    rw [List.mem_filterMap] at hc
    obtain ⟨f, hf, hc⟩ := hc
    split at hc
    · rename_i hm
      cases hc
      exact ⟨ix, i, f, hix, hf, hm, by simpa using hne, rfl⟩
    · cases hc

/-- the tasks on the stack only concern reached rows -/
def DReached (sch : Schema) (db0 : Db) (t : Nat) (row : Row) : DTask → Prop
  | .del s x => DelReach sch db0 t row s x
  | .fin s x => DelReach sch db0 t row s x
  | .casc f key => ∃ s' r' ix i, DelReach sch db0 t row s' r' ∧ (ix, i) ∈ enumIdxs sch s' ∧
      f ∈ fkToHere sch s' i ∧ cascadesDeletes f.mode = true ∧ emptyKey (proj ix.cols r') = false ∧
      key = proj ix.cols r'

structure DInv2 (sch : Schema) (db0 : Db) (t : Nat) (row : Row) (db : Db) (st : List DTask)
    (done : List (Nat × Row)) : Prop where
  sub : ∀ s, (db s).Sublist (db0 s)
  reached : ∀ c ∈ st, DReached sch db0 t row c
  done_ok : ∀ p ∈ done, DelReach sch db0 t row p.1 p.2 ∧ NoRefs sch db p.1 p.2 ∧
    ((db0 p.1).count p.2 ≤ 1 → p.2 ∉ db p.1)
  cover : ∀ s x, x ∈ db0 s → x ∈ db s ∨ (s, x) ∈ done
  safe : DSafe sch db [] st

theorem erase_sublist_db (db : Db) (t : Nat) (row : Row) (s : Nat) :
    (applyChange db t (some row) none s).Sublist (db s) := by
  unfold applyChange
  split
  · subst_vars; exact List.erase_sublist
  · exact List.Sublist.refl _

theorem runDel_spec (env : Env) (db0 : Db) (t : Nat) (row : Row) :
    ∀ (n : Nat) (w : W) (st : List DTask) (w' : W) (done : List (Nat × Row)),
    runDel env n w st = .ok w' → DInv2 env.sch db0 t row w.db st done →
    ∃ done', DInv2 env.sch db0 t row w'.db [] done' ∧ (∀ p ∈ done, p ∈ done') ∧
      (∀ s x, (DTask.del s x ∈ st ∨ DTask.fin s x ∈ st) → (s, x) ∈ done') := by
  intro n
  induction n with
  | zero =>
    intro w st w' done h hinv
    cases st with
    | nil =>
      simp [runDel] at h; cases h
      exact ⟨done, hinv, fun _ h => h, fun s x h => by rcases h with h | h <;> cases h⟩
    | cons x rest => simp [runDel] at h
  | succ n ih =>
    intro w st w' done h hinv
    cases st with
    | nil =>
      simp [runDel] at h; cases h
      exact ⟨done, hinv, fun _ h => h, fun s x h => by rcases h with h | h <;> cases h⟩
    | cons x rest =>
      have hrest : ∀ c ∈ rest, DReached env.sch db0 t row c :=
        fun c hc => hinv.reached c (List.mem_cons_of_mem _ hc)
      cases x with
      | del s x =>
        simp only [runDel] at h
        split at h
        · cases h
        · split at h
          · cases h
          · split at h
            · cases h
            · rename_i _ _ hnb
              have hx : DelReach env.sch db0 t row s x := hinv.reached _ List.mem_cons_self
              have hreach : ∀ c ∈ cascDel env.sch s x ++ DTask.fin s x :: rest,
                  DReached env.sch db0 t row c := by
                intro c hc
                rcases List.mem_append.mp hc with h4 | h4
                · obtain ⟨ix, i, f, hix, hf, hm, hne, rfl⟩ := cascDel_mem h4
                  exact ⟨s, x, ix, i, hx, hix, hf, hm, hne, rfl⟩
                · rcases List.mem_cons.mp h4 with h5 | h5
                  · subst h5; exact hx
                  · exact hrest c h5
              have hsafe : DSafe env.sch w.db [] (cascDel env.sch s x ++ DTask.fin s x :: rest) := by
                apply DSafe_cascs _ (cascDel_cascs _ _ _)
                refine ⟨?_, ?_⟩
                · intro ix i f hix hf hne hr
                  rcases deleteBlocks_or f.mode with hm | hm
                  · have := not_delBlocked (by simpa using hnb) hix hf hne hm
                    rw [hr] at this; cases this
                  · simp only [List.append_nil, List.mem_reverse]
                    exact mem_cascDel hix hf hne hm
                · exact DSafe_mono (fun _ _ h => h) rest _ _
                    (by intro f key hm; cases hm with | tail _ h1 => cases h1) hinv.safe
              obtain ⟨done', h1, h2, h3⟩ := ih _ _ _ done h
                ⟨hinv.sub, hreach, hinv.done_ok, hinv.cover, hsafe⟩
              refine ⟨done', h1, h2, ?_⟩
              intro s2 x2 hm
              rcases hm with hm | hm
              · rcases List.mem_cons.mp hm with h4 | h4
                · injection h4 with e1 e2
                  rw [e1, e2]
                  exact h3 s x (Or.inr (List.mem_append_right _ List.mem_cons_self))
                · exact h3 s2 x2 (Or.inl (List.mem_append_right _ (List.mem_cons_of_mem _ h4)))
              · rcases List.mem_cons.mp hm with h4 | h4
                · cases h4
                · exact h3 s2 x2 (Or.inr (List.mem_append_right _ (List.mem_cons_of_mem _ h4)))
      | casc f key =>
        simp only [runDel] at h
        split at h
        · rename_i hnone
          obtain ⟨done', h1, h2, h3⟩ := ih _ _ _ done h
            ⟨hinv.sub, hrest, hinv.done_ok, hinv.cover, DSafe_drop (find_none_refs hnone) rest [] hinv.safe⟩
          refine ⟨done', h1, h2, ?_⟩
          intro s2 x2 hm
          rcases hm with hm | hm
          · rcases List.mem_cons.mp hm with h4 | h4
            · cases h4
            · exact h3 s2 x2 (Or.inl h4)
          · rcases List.mem_cons.mp hm with h4 | h4
            · cases h4
            · exact h3 s2 x2 (Or.inr h4)
        · rename_i r0 hsome
          obtain ⟨s', r', ix, i, hr', hix, hf, hm, hne, hkey⟩ := hinv.reached _ List.mem_cons_self
          have hr0 : r0 ∈ w.db f.table := List.mem_of_find?_eq_some hsome
          have hp : proj (colsOf env.sch f.table f.index) r0 = key := by
            simpa using List.find?_some hsome
          have hreach : ∀ c ∈ DTask.del f.table r0 :: DTask.casc f key :: rest,
              DReached env.sch db0 t row c := by
            intro c hc
            rcases List.mem_cons.mp hc with h4 | h4
            · subst h4
              exact DelReach.step hr' hix hf hm hne ((hinv.sub f.table).subset hr0) (by rw [hp, hkey])
            · exact hinv.reached c h4
          have hsafe : DSafe env.sch w.db [] (DTask.del f.table r0 :: DTask.casc f key :: rest) :=
            DSafe_mono (fun _ _ h => h) rest _ _ (by
              intro f' k' hm
              simp only [List.mem_cons] at hm ⊢
              rcases hm with h1 | h1
              · exact Or.inl h1
              · cases h1) hinv.safe
          obtain ⟨done', h1, h2, h3⟩ := ih _ _ _ done h
            ⟨hinv.sub, hreach, hinv.done_ok, hinv.cover, hsafe⟩
          refine ⟨done', h1, h2, ?_⟩
          intro s2 x2 hm
          rcases hm with hm | hm
          · rcases List.mem_cons.mp hm with h4 | h4
            · cases h4
            · exact h3 s2 x2 (Or.inl (List.mem_cons_of_mem _ (List.mem_cons_of_mem _ h4)))
          · rcases List.mem_cons.mp hm with h4 | h4
            · cases h4
            · exact h3 s2 x2 (Or.inr (List.mem_cons_of_mem _ (List.mem_cons_of_mem _ h4)))
      | fin s x =>
        simp only [runDel] at h
        split at h
        · cases h
        · rename_i w1 hch
          have hdb := change_db hch
          have hx : DelReach env.sch db0 t row s x := hinv.reached _ List.mem_cons_self
          have hinv' : DInv2 env.sch db0 t row w1.db rest ((s, x) :: done) := by
            rw [hdb]
            refine ⟨?_, hrest, ?_, ?_, ?_⟩
            · intro s2
              exact (erase_sublist_db _ _ _ _).trans (hinv.sub s2)
            · intro p hp
              rcases List.mem_cons.mp hp with h4 | h4
              · subst h4
                refine ⟨hx, ?_, ?_⟩
                · intro ix i f hix hf hne
                  cases hr : refs env.sch (applyChange w.db s (some x) none) f (proj ix.cols x) with
                  | false => rfl
                  | true =>
                    have := hinv.safe.1 ix i f hix hf hne (refs_mono (erase_sub _ _ _) hr)
                    cases this
                · intro hc
                  have h5 : (w.db s).count x ≤ 1 := Nat.le_trans ((hinv.sub s).count_le x) hc
                  simp only [applyChange, if_true]
                  intro hmem
                  have := List.count_pos_iff.mpr hmem
                  rw [List.count_erase_self] at this
                  omega
              · obtain ⟨h5, h6, h7⟩ := hinv.done_ok p h4
                refine ⟨h5, ?_, ?_⟩
                · intro ix i f hix hf hne
                  cases hr : refs env.sch (applyChange w.db s (some x) none) f (proj ix.cols p.2) with
                  | false => rfl
                  | true =>
                    have := refs_mono (erase_sub _ _ _) hr
                    rw [h6 ix i f hix hf hne] at this; cases this
                · intro hc hmem
                  exact h7 hc (erase_sub _ _ _ _ _ hmem)
            · intro s2 x2 hm
              rcases hinv.cover s2 x2 hm with h4 | h4
              · by_cases h5 : s2 = s ∧ x2 = x
                · obtain ⟨rfl, rfl⟩ := h5
                  exact Or.inr List.mem_cons_self
                · left
                  unfold applyChange
                  split
                  · rename_i heq
                    rw [heq] at h4
                    exact (List.mem_erase_of_ne (fun h6 => h5 ⟨heq, h6⟩)).mpr h4
                  · exact h4
              · exact Or.inr (List.mem_cons_of_mem _ h4)
            · exact DSafe_mono (erase_sub _ _ _) rest _ _ (fun _ _ h => h) hinv.safe.2
          obtain ⟨done', h1, h2, h3⟩ := ih _ _ _ ((s, x) :: done) h hinv'
          refine ⟨done', h1, fun p hp => h2 p (List.mem_cons_of_mem _ hp), ?_⟩
          intro s2 x2 hm
          rcases hm with hm | hm
          · rcases List.mem_cons.mp hm with h4 | h4
            · cases h4
            · exact h3 s2 x2 (Or.inl h4)
          · rcases List.mem_cons.mp hm with h4 | h4
            · injection h4 with e1 e2
              rw [e1, e2]
              exact h2 _ List.mem_cons_self
            · exact h3 s2 x2 (Or.inr h4)

/-- What an accepted delete does: it only removes rows (1); the rows it does not reach stay (2);
afterwards no row references a key of a reached row (3), so every reached row other than the
deleted one is gone (4) — and the deleted one too, if it was there once (5). -/
theorem opDelete_spec {env : Env} {w w' : W} {t : Nat} {row : Row}
    (h : opDelete env w t row = .ok w') :
    (∀ s, (w'.db s).Sublist (w.db s)) ∧
    (∀ s x, x ∈ w.db s → ¬ DelReach env.sch w.db t row s x → x ∈ w'.db s) ∧
    (∀ s x, DelReach env.sch w.db t row s x → NoRefs env.sch w'.db s x) ∧
    (∀ s x, DelReach env.sch w.db t row s x → (s ≠ t ∨ x ≠ row) → x ∉ w'.db s) ∧
    ((w.db t).count row ≤ 1 → row ∉ w'.db t) := by
  unfold opDelete at h
  split at h
  · cases h
  · split at h
    · cases h
    · split at h
      · rename_i w1 hrun
        cases h
        have hinit : DInv2 env.sch w.db t row w.db [DTask.del t row] [] := by
          refine ⟨fun s => List.Sublist.refl _, ?_, ?_, fun s x hx => Or.inl hx, by simp [DSafe]⟩
          · intro c hc
            rcases List.mem_cons.mp hc with h1 | h1
            · subst h1; exact DelReach.base
            · cases h1
          · intro p hp; cases hp
        obtain ⟨done', hinv, _, h3⟩ := runDel_spec env w.db t row _ _ _ _ [] hrun hinit
        have htop : (t, row) ∈ done' := h3 t row (Or.inl List.mem_cons_self)
        have hstep : ∀ {s' : Nat} {r' : Row} {ix : Index} {i : Nat} {f : FkTo} {r : Row},
            (s', r') ∈ done' → (ix, i) ∈ enumIdxs env.sch s' → f ∈ fkToHere env.sch s' i →
            emptyKey (proj ix.cols r') = false →
            proj (colsOf env.sch f.table f.index) r = proj ix.cols r' → r ∉ w'.db f.table := by
          intro s' r' ix i f r hd hix hf hne hp hmem
          have := (hinv.done_ok _ hd).2.1 ix i f hix hf hne
          unfold refs at this
          rw [hasKey_false_iff] at this
          exact this r hmem hp
        have hdone : ∀ s x, DelReach env.sch w.db t row s x → (s, x) ∈ done' := by
          intro s x hr
          induction hr with
          | base => exact htop
          | step hr' hix hf hm hne hmem hp ih =>
            rcases hinv.cover _ _ hmem with h4 | h4
            · exact absurd h4 (hstep ih hix hf hne hp)
            · exact h4
        refine ⟨hinv.sub, ?_, ?_, ?_, ?_⟩
        · intro s x hx hnr
          rcases hinv.cover s x hx with h4 | h4
          · exact h4
          · exact absurd (hinv.done_ok _ h4).1 hnr
        · intro s x hr
          exact (hinv.done_ok _ (hdone s x hr)).2.1
        · intro s x hr hne
          cases hr with
          | base => rcases hne with h4 | h4 <;> exact absurd rfl h4
          | step hr' hix hf hm hne2 hmem hp => exact hstep (hdone _ _ hr') hix hf hne2 hp
        · exact (hinv.done_ok _ htop).2.2
      · cases h

end Gsu.LDb
