/-
C10 — the leaf level of the merge (`Leaf.merge`): refinement of `applyOne` on the entries,
bounds and stored-prefix invariant kept, split separator between the halves. Core-only.
-/
import Gsu.Proofs.BtreeMerge
namespace Gsu.Btree

/-! ### keys with a common prefix -/

theorem append_klt_append (p a b : Key) : p ++ a < p ++ b ↔ a < b := by
  induction p with
  | nil => simp
  | cons x p ih =>
    simp only [List.cons_append, List.cons_lt_cons_iff, ih]
    constructor
    · rintro (h | ⟨_, h⟩)
      · exact absurd h (UInt8.lt_irrefl _)
      · exact h
    · intro h; exact Or.inr ⟨trivial, h⟩

theorem append_kle_append (p a b : Key) : p ++ a ≤ p ++ b ↔ a ≤ b := by
  rw [← knot_lt, ← knot_lt, append_klt_append]

/-- a key between two keys that share a prefix shares it -/
theorem prefix_between : ∀ (p a k b : Key), p <+: a → p <+: b → a < k → k < b → p <+: k := by
  intro p
  induction p with
  | nil => intro a k b _ _ _ _; exact List.nil_prefix
  | cons x p ih =>
    intro a k b ha hb hak hkb
    obtain ⟨ta, rfl⟩ := ha
    obtain ⟨tb, rfl⟩ := hb
    cases k with
    | nil => simp at hak
    | cons y k' =>
      simp only [List.cons_append, List.cons_lt_cons_iff] at hak hkb
      have hxy : x = y := by
        rcases hak with h1 | ⟨h1, _⟩
        · rcases hkb with h2 | ⟨h2, _⟩
          · exact absurd (UInt8.lt_trans h1 h2) (UInt8.lt_irrefl x)
          · subst h2; exact absurd h1 (UInt8.lt_irrefl _)
        · exact h1
      subst hxy
      have h1 : p ++ ta < k' := by
        rcases hak with h | ⟨_, h⟩
        · exact absurd h (UInt8.lt_irrefl _)
        · exact h
      have h2 : k' < p ++ tb := by
        rcases hkb with h | ⟨_, h⟩
        · exact absurd h (UInt8.lt_irrefl _)
        · exact h
      have := ih (p ++ ta) k' (p ++ tb) (List.prefix_append _ _) (List.prefix_append _ _) h1 h2
      exact (List.prefix_cons_inj x).mpr this

theorem prefix_eq_append {p k : Key} (h : p <+: k) : p ++ k.drop p.length = k := by
  obtain ⟨t, rfl⟩ := h; simp

/-! ### positions -/

theorem posOf_pos : ∀ (es : List KV) (k : Key), 0 < posOf es k → ∃ e ∈ es, e.1 < k := by
  intro es k h
  cases es with
  | nil => simp [posOf] at h
  | cons x r =>
    obtain ⟨k', o'⟩ := x
    simp only [posOf] at h
    by_cases hk : k' < k
    · exact ⟨(k', o'), List.mem_cons_self, hk⟩
    · simp [hk] at h

theorem posOf_lt : ∀ (es : List KV) (k : Key), posOf es k < es.length → ∃ e ∈ es, ¬ e.1 < k := by
  intro es
  induction es with
  | nil => intro k h; simp at h
  | cons x r ih =>
    obtain ⟨k', o'⟩ := x
    intro k h
    simp only [posOf] at h
    by_cases hk : k' < k
    · simp only [hk, if_true, List.length_cons] at h
      obtain ⟨e, he, h2⟩ := ih k (by omega)
      exact ⟨e, List.mem_cons_of_mem _ he, h2⟩
    · exact ⟨(k', o'), List.mem_cons_self, hk⟩

theorem lookup_none_ne : ∀ (m : List KV) (k : Key), lookup m k = none → ∀ e ∈ m, e.1 ≠ k := by
  intro m
  induction m with
  | nil => intro k _ e he; simp at he
  | cons x r ih =>
    obtain ⟨k', o'⟩ := x
    intro k h e he
    simp only [lookup] at h
    by_cases hk : k' = k
    · simp [hk] at h
    · simp only [hk, if_false] at h
      rcases List.mem_cons.mp he with rfl | he'
      · exact hk
      · exact ih k h e he'

/-! ### the rebuilt leaf -/

theorem foldl_LBInv : ∀ (es : List KV) (b : LB) (cur : List KV), LBInv b cur →
    LBInv (es.foldl (fun b e => b.add e.1) b) (es.reverse ++ cur) := by
  intro es
  induction es with
  | nil => intro b cur h; simpa using h
  | cons x r ih =>
    obtain ⟨k, o⟩ := x
    intro b cur h
    have := ih (b.add k) ((k, o) :: cur) (LBInv_add h k o)
    simpa using this

theorem rebuildLeaf_preOK (es : List KV) : (rebuildLeaf es).PreOK := by
  have h := foldl_LBInv es {} [] LBInv_empty
  have := finish_preOK h
  simpa [rebuildLeaf] using this

theorem rebuildLeaf_es (es : List KV) : (rebuildLeaf es).es = es := rfl

/-! ### modify -/

theorem modify_es (l : Leaf) (k : Key) (op : Op) (o : Nat) :
    (l.modify k op o).map (·.es) = applyOne l.es k op o := by
  cases op with
  | add =>
    simp only [Leaf.modify, applyOne, Option.map_map]
    cases ins l.es k o with
    | none => rfl
    | some es' =>
      simp only [Option.map_some, Function.comp]
      split <;> rfl
  | upd =>
    simp only [Leaf.modify, applyOne, Option.map_map]
    cases upd l.es k o <;> rfl
  | del =>
    simp only [Leaf.modify, applyOne, Option.map_map]
    cases del l.es k with
    | none => rfl
    | some es' =>
      simp only [Option.map_some, Function.comp]
      split <;> rfl

theorem upd_length : ∀ (m : List KV) (k : Key) (o : Nat) (m' : List KV),
    upd m k o = some m' → m'.length = m.length := by
  intro m
  induction m with
  | nil => intro k o m' h; simp [upd] at h
  | cons x r ih =>
    obtain ⟨k', o'⟩ := x
    intro k o m' h
    simp only [upd] at h
    by_cases hk : k = k'
    · simp only [hk, if_true, Option.some.injEq] at h; subst h; rfl
    · simp only [hk, if_false] at h
      cases hr : upd r k o with
      | none => simp [hr] at h
      | some r' =>
        simp only [hr, Option.map_some, Option.some.injEq] at h; subst h
        simp [ih k o r' hr]

theorem del_length : ∀ (m : List KV) (k : Key) (m' : List KV),
    del m k = some m' → m'.length + 1 = m.length := by
  intro m
  induction m with
  | nil => intro k m' h; simp [del] at h
  | cons x r ih =>
    obtain ⟨k', o'⟩ := x
    intro k m' h
    simp only [del] at h
    by_cases hk : k = k'
    · simp only [hk, if_true, Option.some.injEq] at h; subst h; rfl
    · simp only [hk, if_false] at h
      cases hr : del r k with
      | none => simp [hr] at h
      | some r' =>
        simp only [hr, Option.map_some, Option.some.injEq] at h; subst h
        simp [ih k r' hr]

/-- `state.modify` keeps a leaf ordered, within bounds and its stored prefix genuine -/
theorem modify_LeafB {l l' : Leaf} {k : Key} {op : Op} {o : Nat} {lo hi : Option Key}
    (hl : LeafB lo hi l) (hk : InR lo hi k) (h : l.modify k op o = some l') : LeafB lo hi l' := by
  obtain ⟨hs, hr, hpre⟩ := hl
  obtain ⟨hp255, hp0, p, hpl, hpall⟩ := hpre
  cases op with
  | upd =>
    simp only [Leaf.modify] at h
    cases hu : upd l.es k o with
    | none => simp [hu] at h
    | some es' =>
      simp only [hu, Option.map_some, Option.some.injEq] at h; subst h
      obtain ⟨a, _, _, d⟩ := upd_spec hs hu
      have hlen := upd_length _ _ _ _ hu
      refine ⟨a, ?_, hp255, ?_, p, hpl, ?_⟩
      · intro e he; obtain ⟨e', he', hk'⟩ := d e he; rw [hk']; exact hr e' he'
      · intro he
        simp only at he
        apply hp0
        cases hes : l.es with
        | nil => rfl
        | cons _ _ => rw [he, hes] at hlen; simp at hlen
      · intro e he; obtain ⟨e', he', hk'⟩ := d e he; rw [hk']; exact hpall e' he'
  | del =>
    simp only [Leaf.modify] at h
    cases hd : del l.es k with
    | none => simp [hd] at h
    | some es' =>
      simp only [hd, Option.map_some, Option.some.injEq] at h
      obtain ⟨a, _, _, d⟩ := del_spec hs hd
      have hlen := del_length _ _ _ hd
      by_cases h1 : l.es.length = 1
      · simp only [h1, if_true] at h; subst h
        have he' : es' = [] := by
          cases es' with
          | nil => rfl
          | cons _ _ => simp at hlen; omega
        subst he'
        exact ⟨by simp [Sorted], by intro e he; simp at he, by simp [Leaf.PreOK]⟩
      · simp only [h1, if_false] at h; subst h
        refine ⟨a, fun e he => hr e (d e he), by simp only; split <;> omega, ?_, ?_⟩
        · intro he; simp only at he; rw [he] at hlen; simp at hlen; omega
        · by_cases h2 : l.es.length - 1 = 1
          · simp only [h2, if_true]; exact ⟨[], rfl, fun _ _ => List.nil_prefix⟩
          · simp only [h2, if_false]; exact ⟨p, hpl, fun e he => hpall e (d e he)⟩
  | add =>
    simp only [Leaf.modify] at h
    cases hi' : ins l.es k o with
    | none => simp [hi'] at h
    | some es' =>
      simp only [hi', Option.map_some, Option.some.injEq] at h
      obtain ⟨a, b, _, d⟩ := ins_spec hs hi'
      have hrange : Range lo hi es' := by
        intro e he
        rcases d e he with rfl | he'
        · exact hk
        · exact hr e he'
      split at h
      · subst h
        exact ⟨a, hrange, rebuildLeaf_preOK es'⟩
      · next hcond =>
        subst h
        refine ⟨a, hrange, hp255, ?_, p, hpl, ?_⟩
        · intro he; simp only at he
          cases hes : l.es with
          | nil => exact hp0 hes
          | cons x r =>
            rw [he, hes] at hi'
            simp only [ins] at hi'
            split at hi'
            · simp at hi'
            · split at hi'
              · simp at hi'
              · cases hq : ins r k o <;> simp [hq] at hi'
        · -- the new key has the stored prefix
          have hpk : p <+: k := by
            by_cases hne : l.es = []
            · have : l.pre = 0 := hp0 hne
              have : p = [] := by
                cases p with
                | nil => rfl
                | cons _ _ => simp at hpl; omega
              rw [this]; exact List.nil_prefix
            · have hstored : l.prefix = p := by
                have h1 := storedPrefix l ⟨hp255, hp0, p, hpl, hpall⟩ hne
                cases hes : l.es with
                | nil => exact absurd hes hne
                | cons x r =>
                  obtain ⟨t, ht⟩ := hpall x (by rw [hes]; exact List.mem_cons_self)
                  simp only [Leaf.prefix, hes, headKey]
                  rw [← ht, ← hpl]; simp
              rw [hstored] at hcond
              by_cases hpk : p <+: k
              · exact hpk
              · have hpos : ¬ (posOf l.es k = 0 ∨ posOf l.es k = l.es.length) :=
                  fun h => hcond ⟨h, hpk⟩
                have hle : posOf l.es k ≤ l.es.length := by
                  clear hpos hcond hi' d b a
                  induction l.es with
                  | nil => simp [posOf]
                  | cons x r ih => simp only [posOf]; split <;> simp <;> omega
                obtain ⟨e1, he1, hlt1⟩ := posOf_pos l.es k (by omega)
                obtain ⟨e2, he2, hnlt⟩ := posOf_lt l.es k (by omega)
                have hne2 : e2.1 ≠ k := lookup_none_ne _ _ b e2 he2
                have hlt2 : k < e2.1 := by
                  rcases List.le_iff_lt_or_eq.mp (knot_lt.mp hnlt) with h | h
                  · exact h
                  · exact absurd h.symm hne2
                exact prefix_between p e1.1 k e2.1 (hpall e1 he1) (hpall e2 he2) hlt1 hlt2
          intro e he
          rcases d e he with rfl | he'
          · exact hpk
          · exact hpall e he'

/-! ### split -/

theorem LoLt_of_le_lt {lo : Option Key} {a s : Key} (h1 : LoLe lo a) (h2 : a < s) : LoLt lo s := by
  cases lo with
  | none => trivial
  | some l => exact klt_of_le_of_lt h1 h2

theorem LtHi_of_le {s a : Key} {hi : Option Key} (h1 : s ≤ a) (h2 : LtHi a hi) : LtHi s hi := by
  cases hi with
  | none => trivial
  | some u => exact klt_of_le_of_lt h1 h2

theorem PreOK_sub {l : Leaf} (hp : l.PreOK) (es' : List KV) (hsub : ∀ e ∈ es', e ∈ l.es)
    (hne : es' ≠ []) : ({ l with es := es' } : Leaf).PreOK := by
  obtain ⟨a, _, p, hpl, hall⟩ := hp
  exact ⟨a, fun h => absurd h hne, p, hpl, fun e he => hall e (hsub e he)⟩

/-- `leafNode.splitTo`: the halves partition the entries, the separator is above the left half
and not above the right half -/
theorem split_spec {l : Leaf} {lo hi : Option Key} (hl : LeafB lo hi l) {res : Res Leaf}
    (h : l.split = some res) : res.toList Leaf.es = l.es ∧ ResB LeafB lo hi res := by
  obtain ⟨hs, hr, hpre⟩ := hl
  unfold Leaf.split at h
  simp only at h
  cases hL : (l.es.take (l.es.length / 2)).getLast? with
  | none => simp [hL] at h
  | some ep =>
    cases hR : (l.es.drop (l.es.length / 2)).head? with
    | none => simp [hL, hR] at h
    | some en =>
      obtain ⟨kp, op⟩ := ep
      obtain ⟨kn, on⟩ := en
      simp only [hL, hR, Option.some.injEq] at h
      subst h
      obtain ⟨L0, hL0⟩ := List.getLast?_eq_some_iff.mp hL
      obtain ⟨R0, hR0⟩ := List.head?_eq_some_iff.mp hR
      have hes : l.es.take (l.es.length / 2) ++ l.es.drop (l.es.length / 2) = l.es :=
        List.take_append_drop _ _
      refine ⟨by simp [Res.toList], ?_⟩
      have hs' : Sorted (l.es.take (l.es.length / 2) ++ l.es.drop (l.es.length / 2)) := by
        rw [hes]; exact hs
      obtain ⟨sL, sR, sX⟩ := Sorted_append.mp hs'
      have hmemL : ∀ e ∈ l.es.take (l.es.length / 2), e ∈ l.es := fun e he => List.mem_of_mem_take he
      have hmemR : ∀ e ∈ l.es.drop (l.es.length / 2), e ∈ l.es := fun e he => List.mem_of_mem_drop he
      have hpL : (kp, op) ∈ l.es.take (l.es.length / 2) := by rw [hL0]; simp
      have hnR : (kn, on) ∈ l.es.drop (l.es.length / 2) := by rw [hR0]; simp
      have hne : l.es ≠ [] := by
        intro e; rw [e] at hpL; simp at hpL
      obtain ⟨hpl, hpall⟩ := storedPrefix l hpre hne
      -- the two keys around the split point, without the prefix
      have ekp : l.prefix ++ kp.drop l.pre = kp := by
        have := prefix_eq_append (hpall _ (hmemL _ hpL))
        simpa [Leaf.prefix, hpl] using this
      have ekn : l.prefix ++ kn.drop l.pre = kn := by
        have := prefix_eq_append (hpall _ (hmemR _ hnR))
        simpa [Leaf.prefix, hpl] using this
      have hlt : kp < kn := sX _ hpL _ hnR
      have hlt' : kp.drop l.pre < kn.drop l.pre := by
        rw [← ekp, ← ekn] at hlt; exact (append_klt_append _ _ _).mp hlt
      obtain ⟨q1, q2⟩ := sepKey_spec hlt'
      have hsep1 : kp < l.prefix ++ sepKey (kp.drop l.pre) (kn.drop l.pre) := by
        conv => lhs; rw [← ekp]
        exact (append_klt_append _ _ _).mpr q1
      have hsep2 : l.prefix ++ sepKey (kp.drop l.pre) (kn.drop l.pre) ≤ kn := by
        conv => rhs; rw [← ekn]
        exact (append_kle_append _ _ _).mpr q2
      -- everything left is ≤ kp, everything right is ≥ kn
      have hleft : ∀ e ∈ l.es.take (l.es.length / 2), e.1 ≤ kp := by
        intro e he
        rw [hL0] at he sL
        rcases List.mem_append.mp he with he | he
        · exact kle_of_lt ((Sorted_append.mp sL).2.2 e he (kp, op) (by simp))
        · simp only [List.mem_singleton] at he; subst he; exact kle_refl _
      have hright : ∀ e ∈ l.es.drop (l.es.length / 2), kn ≤ e.1 := by
        intro e he
        rw [hR0] at he sR
        rcases List.mem_cons.mp he with rfl | he
        · exact kle_refl _
        · exact kle_of_lt ((List.pairwise_cons.mp sR).1 e he)
      refine ⟨⟨sL, ?_, PreOK_sub hpre _ hmemL (by rw [hL0]; simp)⟩, ?_, ?_,
        ⟨sR, ?_, PreOK_sub hpre _ hmemR (by rw [hR0]; simp)⟩⟩
      · intro e he
        exact ⟨(hr e (hmemL e he)).1, klt_of_le_of_lt (hleft e he) hsep1⟩
      · exact LoLt_of_le_lt (hr _ (hmemL _ hpL)).1 hsep1
      · exact LtHi_of_le hsep2 (hr _ (hmemR _ hnR)).2
      · intro e he
        exact ⟨kle_trans hsep2 (hright e he), (hr e (hmemR e he)).2⟩

/-- the leaf level refines `applyOne` on the entries and keeps the invariant -/
theorem leaf_merge_spec (split : Nat) (k : Key) (op : Op) (o : Nat) :
    Spec LeafB Leaf.es k op o (fun l => Leaf.merge split l k op o) := by
  intro lo hi l hl hk
  have hme := modify_es l k op o
  constructor
  · intro res hres
    simp only [Leaf.merge] at hres
    cases hm : l.modify k op o with
    | none => simp [hm] at hres
    | some l' =>
      simp only [hm] at hres hme
      have hl' := modify_LeafB hl hk hm
      rw [← hme]
      simp only [Option.map_some, Option.some.injEq]
      split at hres
      · next hemp =>
        simp only [Option.some.injEq] at hres; subst hres
        simp only [List.isEmpty_iff] at hemp
        exact ⟨by simp [Res.toList, hemp], trivial⟩
      · split at hres
        · obtain ⟨a, b⟩ := split_spec hl' hres
          exact ⟨a.symm, b⟩
        · simp only [Option.some.injEq] at hres; subst hres
          exact ⟨rfl, hl'⟩
  · intro hnone
    simp only [Leaf.merge]
    cases hm : l.modify k op o with
    | none => rfl
    | some l' => rw [hm, hnone] at hme; simp at hme

end Gsu.Btree
