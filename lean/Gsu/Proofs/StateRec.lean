import Gsu.Model.StateRec
namespace Gsu.StateRec

theorem putLE_length (n v : Nat) : (putLE n v).length = n := by
  induction n generalizing v with
  | zero => rfl
  | succ n ih => simp [putLE, ih]

theorem getLE_putLE (n v : Nat) : getLE (putLE n v) = v % 256 ^ n := by
  induction n generalizing v with
  | zero => simp [putLE, getLE, Nat.mod_one]
  | succ n ih =>
    simp only [putLE, getLE, ih]
    have h : (UInt8.ofNat (v % 256)).toNat = v % 256 := by
      simp [UInt8.toNat_ofNat']
    rw [h, Nat.pow_succ, Nat.mul_comm (256 ^ n) 256, Nat.mod_mul]

theorem getBE_putBE (n v : Nat) : getBE (putBE n v) = v % 256 ^ n := by
  simp [getBE, putBE, getLE_putLE]

theorem state_roundtrip (ck : Bytes → Bytes) (hck : ∀ b, (ck b).length = 2)
    (t offS offI off : Nat) (ht : t < 2 ^ 64) (hs : offS < 2 ^ 40) (hi : offI < 2 ^ 40)
    (hso : offS < off) (hio : offI < off) :
    decode ck off (encode ck t offS offI) = some (offS, offI, t) := by
  have l1 : magic1.length = 8 := rfl
  have l2 : (putBE 8 t).length = 8 := by simp [putBE, putLE_length]
  have l3 : (putLE 5 offS).length = 5 := putLE_length _ _
  have l4 : (putLE 5 offI).length = 5 := putLE_length _ _
  have l5 := hck (magic1 ++ putBE 8 t ++ putLE 5 offS ++ putLE 5 offI)
  have l6 : magic2.length = 8 := rfl
  simp only [decode, encode, List.take_left' l1, List.drop_left' l1, List.take_left' l2,
    List.drop_left' l2, List.take_left' l3, List.drop_left' l3, List.take_left' l4,
    List.drop_left' l4, List.take_left' l5, List.drop_left' l5]
  have l7 : List.take 8 magic2 = magic2 := rfl
  simp only [l7, bne_self_eq_false, Bool.false_eq_true, if_false, getLE_putLE, getBE_putBE]
  have e1 : offS % 256 ^ 5 = offS := Nat.mod_eq_of_lt (by omega)
  have e2 : offI % 256 ^ 5 = offI := Nat.mod_eq_of_lt (by omega)
  have e3 : t % 256 ^ 8 = t := Nat.mod_eq_of_lt (by omega)
  rw [e1, e2, e3]
  have : (decide (offS ≥ off) || decide (offI ≥ off)) = false := by
    simp; omega
  simp [this]

end Gsu.StateRec
