/-
C33: the day number is injective on calendar days, hence a valid date/time is determined by the
instant it denotes (`absMs`) — the result of `Plus` is THE valid date at the normalised instant.
-/
import Gsu.Proofs.Date
namespace Gsu.Date
open Gsu.Gen.Date
set_option linter.unusedSimpArgs false
set_option linter.unusedTactic false

/-- days before March-based year `Y` (up to a constant) -/
def yearDays (Y : Int) : Int := 365 * Y + Y / 4 - Y / 100 + Y / 400
/-- days before March-based month `M` within its year -/
def monthDays (M : Int) : Int := (153 * M + 2) / 5

theorem yearDays_mono (Y Y' : Int) (h : Y < Y') : yearDays (Y + 1) ≤ yearDays Y' := by
  by_cases h1 : Y' = Y + 1
  · subst h1; exact Int.le_refl _
  · simp only [yearDays]; omega

theorem yearDays_step (Y : Int) : 365 ≤ yearDays (Y + 1) - yearDays Y ∧
    (IsLeap (Y + 1 - 4800) → yearDays (Y + 1) - yearDays Y = 366) := by
  simp only [yearDays, IsLeap]
  constructor
  · omega
  · intro h; omega

/-- a calendar day in March-based form: year `Y`, month `M` (0 = March … 11 = February) -/
structure March (y m d Y M : Int) : Prop where
  hj : jdnE y m d = d + monthDays M + yearDays Y - 32045
  M0 : 0 ≤ M
  M1 : M ≤ 11
  d0 : 1 ≤ d
  dm : M ≤ 10 → d + monthDays M ≤ monthDays (M + 1)
  dy : d + monthDays M ≤ yearDays (Y + 1) - yearDays Y
  hy : y = Y - 4800 + (if 10 ≤ M then 1 else 0)
  hm : m = if M < 10 then M + 3 else M - 9

theorem march_form (y m d : Int) (m0 : 1 ≤ m) (m1 : m ≤ 12) (d0 : 1 ≤ d) (d1 : d ≤ daysInMonth y m) :
    ∃ Y M, March y m d Y M := by
  have hm : m = 1 ∨ m = 2 ∨ m = 3 ∨ m = 4 ∨ m = 5 ∨ m = 6 ∨ m = 7 ∨ m = 8 ∨ m = 9 ∨ m = 10 ∨
      m = 11 ∨ m = 12 := by omega
  have hs := yearDays_step (y + 4800 - (14 - m) / 12)
  refine ⟨y + 4800 - (14 - m) / 12, m + 12 * ((14 - m) / 12) - 3, ?_⟩
  rcases hm with rfl | rfl | rfl | rfl | rfl | rfl | rfl | rfl | rfl | rfl | rfl | rfl <;>
    simp only [daysInMonth, Int.reduceEq, Int.reduceSub, Int.reduceDiv, Int.reduceMul, Int.reduceAdd,
      false_or, or_false, or_true, true_or, if_true, if_false] at d1 hs ⊢ <;>
    refine ⟨?_, ?_, ?_, ?_, ?_, ?_, ?_, ?_⟩ <;>
    simp only [jdnE, monthDays, yearDays, Int.reduceSub, Int.reduceDiv, Int.reduceMul, Int.reduceAdd,
      Int.reduceLE, Int.reduceLT, if_true, if_false] at hs ⊢
  all_goals first
    | omega
    | (intro _; omega)
    | (simp only [IsLeap] at d1 hs; split_ifs at d1 with hl <;> omega)

theorem monthDays_mono (M M' : Int) (h : M ≤ M') : monthDays M ≤ monthDays M' := by
  simp only [monthDays]; omega

theorem march_unique (y m d Y M y' m' d' Y' M' : Int) (a : March y m d Y M) (b : March y' m' d' Y' M')
    (h : jdnE y m d = jdnE y' m' d') : y = y' ∧ m = m' ∧ d = d' := by
  rw [a.hj, b.hj] at h
  have f0 : 0 ≤ monthDays M := by have := monthDays_mono 0 M a.M0; simp only [monthDays] at this ⊢; omega
  have f0' : 0 ≤ monthDays M' := by have := monthDays_mono 0 M' b.M0; simp only [monthDays] at this ⊢; omega
  have hYY : Y = Y' := by
    rcases Int.lt_trichotomy Y Y' with hlt | heq | hgt
    · have := yearDays_mono Y Y' hlt; have := a.dy; have := b.d0; omega
    · exact heq
    · have := yearDays_mono Y' Y hgt; have := b.dy; have := a.d0; omega
  subst hYY
  have hMM : M = M' := by
    rcases Int.lt_trichotomy M M' with hlt | heq | hgt
    · have := monthDays_mono (M + 1) M' (by omega); have := a.dm (by have := b.M1; omega)
      have := b.d0; omega
    · exact heq
    · have := monthDays_mono (M' + 1) M (by omega); have := b.dm (by have := a.M1; omega)
      have := a.d0; omega
  subst hMM
  refine ⟨by rw [a.hy, b.hy], by rw [a.hm, b.hm], by omega⟩

/-- the day number is injective on calendar days -/
theorem jdn_inj (y m d y' m' d' : Int) (hy : -4000 ≤ y) (hy' : -4000 ≤ y')
    (m0 : 1 ≤ m) (m1 : m ≤ 12) (d0 : 1 ≤ d) (d1 : d ≤ daysInMonth y m)
    (m0' : 1 ≤ m') (m1' : m' ≤ 12) (d0' : 1 ≤ d') (d1' : d' ≤ daysInMonth y' m')
    (h : jdn y m d = jdn y' m' d') : y = y' ∧ m = m' ∧ d = d' := by
  rw [jdn_eq _ _ _ hy m0 m1, jdn_eq _ _ _ hy' m0' m1'] at h
  obtain ⟨Y, M, a⟩ := march_form y m d m0 m1 d0 d1
  obtain ⟨Y', M', b⟩ := march_form y' m' d' m0' m1' d0' d1'
  exact march_unique _ _ _ _ _ _ _ _ _ _ a b h

/-- a valid date/time is determined by the instant it denotes -/
theorem absMs_inj (a b : Fields) (ha : valid a = true) (hb : valid b = true) (h : absMs a = absMs b) :
    a = b := by
  have ra := valid_inRange _ ha
  have rb := valid_inRange _ hb
  rw [absMs_inRange _ ra, absMs_inRange _ rb] at h
  obtain ⟨a1, a2, a3, a4, a5, a6, a7, a8, a9, a10, a11, a12, a13, a14⟩ := ra
  obtain ⟨b1, b2, b3, b4, b5, b6, b7, b8, b9, b10, b11, b12, b13, b14⟩ := rb
  have hj : jdn a.yr a.mon a.day = jdn b.yr b.mon b.day := by omega
  obtain ⟨e1, e2, e3⟩ := jdn_inj _ _ _ _ _ _ (by omega) (by omega) a3 a4 a5 a6 b3 b4 b5 b6 hj
  obtain ⟨ay, am, ad, ah, ami, as, ams⟩ := a
  obtain ⟨by', bm, bd, bh, bmi, bs, bms⟩ := b
  simp only at *
  subst e1 e2 e3
  have : ah = bh := by omega
  have : ami = bmi := by omega
  have : as = bs := by omega
  have : ams = bms := by omega
  subst_vars
  rfl

end Gsu.Date
