/-
Lemmas for C30 (constant folding): each folder rule of `Gsu.Model.LangFold` preserves the
run-time evaluator `eval`. Core Lean only.
-/
import Gsu.Model.LangFold
namespace Gsu.LangFold

/-! ## comparison is antisymmetric (needed for the operand swap of `foldBinary`) -/

theorem cmpBytes_swap (a b : Bytes) : cmpBytes b a = (cmpBytes a b).swap := by
  induction a generalizing b with
  | nil => cases b <;> simp [cmpBytes, Ordering.swap]
  | cons x xs ih =>
    cases b with
    | nil => simp [cmpBytes, Ordering.swap]
    | cons y ys =>
      simp only [cmpBytes]
      by_cases h1 : x < y
      · have h2 : ¬ y < x := by
          intro h; exact absurd (UInt8.lt_trans h1 h) (UInt8.lt_irrefl _)
        simp [h1, h2, Ordering.swap]
      · by_cases h2 : y < x
        · simp [h1, h2, Ordering.swap]
        · simp [h1, h2, ih]

theorem compare_int_swap (a b : Int) : compare b a = (compare a b).swap := by
  simp only [compare, compareOfLessAndEq]
  by_cases h1 : a < b
  · have : ¬ b < a := by omega
    have : ¬ b = a := by omega
    simp [*, Ordering.swap]
  · by_cases h2 : a = b
    · subst h2; simp [Ordering.swap]
    · have : b < a := by omega
      simp [*, Ordering.swap]

theorem compare_nat_swap (a b : Nat) : compare b a = (compare a b).swap := by
  simp only [compare, compareOfLessAndEq]
  by_cases h1 : a < b
  · have : ¬ b < a := by omega
    have : ¬ b = a := by omega
    simp [*, Ordering.swap]
  · by_cases h2 : a = b
    · subst h2; simp [Ordering.swap]
    · have : b < a := by omega
      simp [*, Ordering.swap]

theorem cmpVal_swap (a b : Val) : cmpVal b a = (cmpVal a b).swap := by
  cases a <;> cases b <;> simp only [cmpVal, ordOf] <;>
    first | exact compare_nat_swap _ _ | exact compare_int_swap _ _ | exact cmpBytes_swap _ _

theorem evalB_reverse (op : BOp) (h : rawOp op = true) (a b : Val) :
    evalB (reverseB op) b a = evalB op a b := by
  have hs := cmpVal_swap a b
  cases op
  case is => simp [reverseB, evalB, eq_comm]
  case isnt => simp [reverseB, evalB, eq_comm]
  case lt => simp only [reverseB, evalB]; rw [hs]; cases cmpVal a b <;> simp [Ordering.swap]
  case lte => simp only [reverseB, evalB]; rw [hs]; cases cmpVal a b <;> simp [Ordering.swap]
  case gt => simp only [reverseB, evalB]; rw [hs]; cases cmpVal a b <;> simp [Ordering.swap]
  case gte => simp only [reverseB, evalB]; rw [hs]; cases cmpVal a b <;> simp [Ordering.swap]
  case mod => simp [rawOp] at h

/-! ## unary / binary / trinary / in -/

theorem eval_swap (A : Arith) (env : List Val) (op : BOp) (hr : rawOp op = true) (a : Val)
    (r : Expr) :
    eval A env (.binary (reverseB op) r (.const a)) = eval A env (.binary op (.const a) r) := by
  simp only [eval]
  cases eval A env r with
  | none => rfl
  | some b => simp [evalB_reverse op hr a b]

theorem fBinary_sound (A : Arith) (env : List Val) (op : BOp) (l r e' : Expr)
    (h : fBinary op l r = .ok e') : eval A env e' = eval A env (.binary op l r) := by
  unfold fBinary at h
  by_cases hm : (mathB op && (constNonNum l || constNonNum r)) = true
  · simp [hm] at h
  · simp only [hm] at h
    cases l with
    | const a =>
      cases r with
      | const b =>
        simp only [Bool.false_eq_true, if_false] at h
        cases hv : evalB op a b with
        | none => simp [hv] at h
        | some v => simp [hv] at h; subst h; simp [eval, hv]
      | _ =>
        simp only [Bool.false_eq_true, if_false] at h
        by_cases hr : rawOp op = true
        · simp [hr] at h; subst h; exact eval_swap A env op hr a _
        · simp [hr] at h; subst h; rfl
    | _ => simp at h; subst h; rfl

theorem fBinary_error (A : Arith) (env : List Val) (op : BOp) (l r : Expr)
    (h : fBinary op l r = .error .eval) : eval A env (.binary op l r) = none := by
  unfold fBinary at h
  by_cases hm : (mathB op && (constNonNum l || constNonNum r)) = true
  · simp [hm] at h
  · simp only [hm] at h
    cases l with
    | const a =>
      cases r with
      | const b =>
        simp only [Bool.false_eq_true, if_false] at h
        cases hv : evalB op a b with
        | none => simp [eval, hv]
        | some v => simp [hv] at h
      | _ =>
        simp only [Bool.false_eq_true, if_false] at h
        by_cases hr : rawOp op = true <;> simp [hr] at h
    | _ => simp at h

theorem evalB_inverse (A : Arith) (b b' : BOp) (h : inverseB b = some b') (x y : Val) :
    evalB b' x y = (evalB b x y).bind (evalU A .not) := by
  cases b <;> simp [inverseB] at h <;> subst h <;> simp [evalB, evalU]

theorem eval_not_binary (A : Arith) (env : List Val) (b b' : BOp) (l r : Expr)
    (h : inverseB b = some b') :
    eval A env (.binary b' l r) = eval A env (.unary .not (.binary b l r)) := by
  simp only [eval]
  cases eval A env l with
  | none => rfl
  | some x =>
    cases eval A env r with
    | none => rfl
    | some y =>
      simp only [evalB_inverse A b b' h x y]
      cases evalB b x y <;> rfl

theorem eval_paren (A : Arith) (env : List Val) (e : Expr) :
    eval A env (.unary .paren e) = eval A env e := by
  simp only [eval]
  cases eval A env e <;> rfl

theorem eval_not_unwrap (A : Arith) (env : List Val) (e : Expr) :
    eval A env (.unary .not e) = eval A env (.unary .not (unwrap e)) := by
  unfold unwrap
  split
  · rename_i e1
    simp only [eval]
    cases eval A env e1 <;> rfl
  · rfl

/-- compile-time evaluation of the folded unary operators does not depend on the arithmetic -/
theorem evalU_exact (A : Arith) (op : UOp) (hd : op ≠ .div) (c : Val) :
    evalU A op c = evalU exactA op c := by
  cases op <;> first | rfl | exact absurd rfl hd

theorem fUnary_sound (A : Arith) (env : List Val) (op : UOp) (e e' : Expr)
    (h : fUnary op e = .ok e') : eval A env e' = eval A env (.unary op e) := by
  unfold fUnary at h
  split at h
  · rename_i c
    split at h
    · cases h
    · split at h
      · rename_i hd
        cases h; subst hd; rfl
      · rename_i hd
        cases hv : evalU exactA op c with
        | none => simp [hv] at h
        | some v =>
          simp only [hv] at h
          cases h
          simp [eval, evalU_exact A op hd c, hv]
  · rename_i e0 hnc
    split at h
    · rename_i hop
      subst hop
      rw [eval_not_unwrap]
      split at h
      · rename_i b l r hu
        split at h
        · rename_i b' hb
          rw [hu, ← eval_not_binary A env b b' l r hb]
          exact fBinary_sound A env b' l r e' h
        · cases h
          rw [← eval_not_unwrap]
      · cases h
        rw [← eval_not_unwrap]
    · cases h; rfl

theorem fTrinary_sound (A : Arith) (env : List Val) (c t f e' : Expr)
    (h : fTrinary c t f = .ok e') : eval A env e' = eval A env (.trinary c t f) := by
  unfold fTrinary at h
  split at h <;> first | (cases h; simp [eval]) | cases h

theorem fTrinary_error (A : Arith) (env : List Val) (c t f : Expr) (x : FoldErr)
    (h : fTrinary c t f = .error x) : eval A env (.trinary c t f) = none := by
  unfold fTrinary at h
  split at h <;> try cases h
  rename_i v h1 h2
  cases v with
  | bool b => cases b <;> simp_all
  | int i => simp [eval]
  | str s => simp [eval]

theorem inScan_sound (A : Arith) (env : List Val) (c : Val) (es : List Expr) (b : Bool)
    (h : inScan c es = some b) : evalIn A env c es = some (.bool b) := by
  induction es with
  | nil => simp [inScan] at h; subst h; simp [evalIn]
  | cons e rest ih =>
    cases e with
    | const c2 =>
      simp only [inScan] at h
      simp only [evalIn, eval]
      by_cases hc : c = c2
      · simp [hc] at h ⊢; exact h
      · simp [hc] at h ⊢; exact ih h
    | _ => simp [inScan] at h

theorem fIn_sound (A : Arith) (env : List Val) (e : Expr) (es : List Expr) (e' : Expr)
    (h : fIn e es = .ok e') : eval A env e' = eval A env (.inn e es) := by
  cases es with
  | nil => simp [fIn] at h; subst h; simp [eval]
  | cons x rest =>
    cases rest with
    | nil =>
      simp only [fIn] at h
      rw [fBinary_sound A env .is e x e' h]
      simp only [eval, List.isEmpty_cons, Bool.false_eq_true, if_false]
      cases eval A env e with
      | none => rfl
      | some v =>
        simp only [evalIn]
        cases eval A env x with
        | none => rfl
        | some w => by_cases hv : v = w <;> simp [evalB, hv]
    | cons y rest2 =>
      simp only [fIn] at h
      cases e with
      | const c =>
        simp only at h
        cases hb : inScan c (x :: y :: rest2) with
        | none => simp [hb] at h; subst h; rfl
        | some b =>
          simp [hb] at h; subst h
          simp [eval, inScan_sound A env c _ b hb]
      | _ => simp at h; subst h; rfl

/-! ## n-ary `+`: merging the constants preserves the sum -/

/-- the laws the constant merging of `commutative` relies on -/
structure LawfulAdd (A : Arith) : Prop where
  assoc : ∀ a b c, A.add (A.add a b) c = A.add a (A.add b c)
  comm : ∀ a b, A.add a b = A.add b a
  zero : ∀ a, A.add a 0 = a

theorem exactA_lawful : LawfulAdd exactA :=
  ⟨fun a b c => by simp [exactA]; omega, fun a b => by simp [exactA]; omega,
   fun a => by simp [exactA]⟩

def numOf (A : Arith) (env : List Val) (e : Expr) : Option Int := (eval A env e).bind toNum

def numsOf (A : Arith) (env : List Val) : List Expr → Option (List Int)
  | [] => some []
  | e :: es => match numOf A env e, numsOf A env es with
    | some n, some ns => some (n :: ns)
    | _, _ => none

/-- value of an operand list, order-free form: all operands numeric, summed from 0 -/
def dsum (A : Arith) (env : List Val) (es : List Expr) : Option Int :=
  (numsOf A env es).map (List.foldl A.add 0)

theorem numsOf_append (A : Arith) (env : List Val) (xs ys : List Expr) :
    numsOf A env (xs ++ ys) =
      match numsOf A env xs, numsOf A env ys with
      | some a, some b => some (a ++ b)
      | _, _ => none := by
  induction xs with
  | nil => simp [numsOf]; cases numsOf A env ys <;> rfl
  | cons x xs ih =>
    simp only [List.cons_append, numsOf, ih]
    cases numOf A env x <;> cases numsOf A env xs <;> cases numsOf A env ys <;> rfl

@[simp] theorem toNum_int (a : Int) : toNum (.int a) = some a := rfl

theorem evalFold_int (A : Arith) (env : List Val) (op : NOp) (a : Int) (es : List Expr) :
    evalFold A env op (.int a) es =
      (numsOf A env es).map (fun ns => Val.int (ns.foldl (nop A op) a)) := by
  induction es generalizing a with
  | nil => simp [evalFold, numsOf]
  | cons e rest ih =>
    simp only [evalFold, numsOf, numOf]
    cases he : eval A env e with
    | none => first | rfl | simp
    | some v =>
      simp only [Option.bind_some, nbin, toNum_int]
      cases hv : toNum v with
      | none => first | rfl | simp
      | some y =>
        simp only [ih]
        cases numsOf A env rest <;> simp

variable {A : Arith}

theorem foldl_pull (h : LawfulAdd A) (l : List Int) (a c : Int) :
    List.foldl A.add (A.add a c) l = A.add (List.foldl A.add a l) c := by
  induction l generalizing a with
  | nil => rfl
  | cons x xs ih =>
    simp only [List.foldl]
    rw [← ih]
    congr 1
    rw [h.assoc, h.assoc, h.comm c x]

theorem foldl_zero (h : LawfulAdd A) (n : Int) (ns : List Int) :
    List.foldl A.add n ns = List.foldl A.add 0 (n :: ns) := by
  simp only [List.foldl]
  rw [h.comm 0 n, h.zero]

/-- the run-time value of an `+` list with at least two operands, in the order-free form -/
theorem eval_add_dsum (h : LawfulAdd A) (env : List Val) (e0 e1 : Expr) (rest : List Expr) :
    eval A env (.nary .add (e0 :: e1 :: rest)) = (dsum A env (e0 :: e1 :: rest)).map Val.int := by
  simp only [eval, dsum, numsOf, numOf]
  cases h0 : eval A env e0 with
  | none => simp
  | some v0 =>
    simp only [evalFold, Option.bind_some]
    cases h1 : eval A env e1 with
    | none => cases toNum v0 <;> simp
    | some v1 =>
      simp only [nbin, Option.bind_some]
      cases toNum v0 with
      | none => simp
      | some x =>
        cases toNum v1 with
        | none => simp
        | some y =>
          simp only [evalFold_int, nop]
          cases numsOf A env rest with
          | none => simp
          | some ns =>
            simp only [Option.map_some]
            have hn : nop A NOp.add = A.add := by funext a b; rfl
            rw [hn]
            show some (Val.int (List.foldl A.add x (y :: ns))) = _
            rw [foldl_zero h x (y :: ns)]

/-- pulling a numeric constant out of the middle of an operand list -/
theorem dsum_pull (h : LawfulAdd A) (env : List Val) (P R : List Expr) (c : Int) :
    dsum A env (P ++ .const (.int c) :: R) = (dsum A env (P ++ R)).map (fun s => A.add s c) := by
  simp only [dsum, numsOf_append, numsOf, numOf, eval, Option.bind_some, toNum]
  cases numsOf A env P with
  | none => simp
  | some p =>
    cases numsOf A env R with
    | none => simp
    | some r =>
      simp only [Option.map_some, List.foldl_append, List.foldl]
      rw [foldl_pull h]


/-! ### the scan of `commutative` for `+` -/

def kList : Option Val → List Expr
  | some v => [.const v]
  | none => []

def curList (pre : List Expr) (k : Option Val) (post rest : List Expr) : List Expr :=
  pre ++ kList k ++ post ++ rest

theorem commGo_const (A : Arith) (op : NOp) (pre : List Expr) (k : Option Val)
    (post rest : List Expr) (c : Val) :
    commGo A op pre k post (.const c :: rest) =
      if zeroOf op = some c then .ok (.zero c)
      else if c = identOf op then commGo A op pre k post rest
      else match k with
        | none => commGo A op pre (some c) post rest
        | some a => match bopOf A op a c with
          | some r => commGo A op pre (some r) post rest
          | none => .error .eval := by
  cases k with
  | none => simp [commGo, nestedNary]
  | some a =>
    simp only [commGo, nestedNary]
    cases bopOf A op a c <;> rfl

theorem commGo_nonconst (A : Arith) (op : NOp) (pre : List Expr) (k : Option Val)
    (post rest : List Expr) (e : Expr) (hc : isConst e = false) (hn : nestedNary op e = none) :
    commGo A op pre k post (e :: rest) =
      match k with
      | none => commGo A op (pre ++ [e]) k post rest
      | some _ => commGo A op pre k (post ++ [e]) rest := by
  cases e <;> simp [isConst] at hc <;> cases k <;> simp [commGo, hn]

theorem constNonNum_const {c : Val} (h : constNonNum (.const c) = false) : ∃ n, c = .int n := by
  cases c <;> simp [constNonNum, isNum] at h
  exact ⟨_, rfl⟩

theorem commGo_add (h : LawfulAdd A) (env : List Val) (rest : List Expr) :
    ∀ (pre : List Expr) (k : Option Val) (post : List Expr) (res : CommRes),
      (∀ e ∈ rest, nestedNary .add e = none) → (∀ e ∈ rest, constNonNum e = false) →
      (∀ v, k = some v → ∃ a, v = .int a) → (k = none → post = []) →
      commGo A .add pre k post rest = .ok res →
      ∃ pre' k' post', res = .list pre' k' post' ∧ (∀ v, k' = some v → ∃ a, v = .int a) ∧
        (k' = none → post' = []) ∧
        dsum A env (curList pre' k' post' []) = dsum A env (curList pre k post rest) := by
  induction rest with
  | nil =>
    intro pre k post res _ _ hk hp hgo
    simp only [commGo] at hgo
    cases hgo
    exact ⟨pre, k, post, rfl, hk, hp, rfl⟩
  | cons e rest ih =>
    intro pre k post res hnn hck hk hp hgo
    have hnn' : ∀ e ∈ rest, nestedNary .add e = none := fun x hx => hnn x (List.mem_cons_of_mem _ hx)
    have hck' : ∀ e ∈ rest, constNonNum e = false := fun x hx => hck x (List.mem_cons_of_mem _ hx)
    by_cases hc : isConst e = true
    · -- a constant: numeric by ckMath
      cases e with
      | const c =>
        obtain ⟨n, rfl⟩ := constNonNum_const (hck _ (List.mem_cons_self ..))
        rw [commGo_const] at hgo
        simp only [zeroOf, identOf] at hgo
        simp only [reduceCtorEq, if_false] at hgo
        by_cases hz : n = 0
        · subst hz
          simp only [if_true] at hgo
          obtain ⟨p', k', q', hr, hk', hp', hd⟩ := ih pre k post res hnn' hck' hk hp hgo
          refine ⟨p', k', q', hr, hk', hp', ?_⟩
          rw [hd]
          have e1 : curList pre k post (Expr.const (Val.int 0) :: rest) =
              (pre ++ kList k ++ post) ++ Expr.const (Val.int 0) :: rest := by
            simp [curList]
          rw [e1, dsum_pull h]
          simp only [curList, h.zero]
          cases dsum A env (pre ++ kList k ++ post ++ rest) <;> simp
        · have hne : ¬ (Val.int n = Val.int 0) := by intro hh; cases hh; exact hz rfl
          simp only [hne, if_false] at hgo
          cases k with
          | none =>
            simp only at hgo
            have hpost := hp rfl
            subst hpost
            obtain ⟨p', k', q', hr, hk', hp', hd⟩ :=
              ih pre (some (.int n)) [] res hnn' hck' (fun v hv => by cases hv; exact ⟨n, rfl⟩)
                (fun hh => by cases hh) hgo
            refine ⟨p', k', q', hr, hk', hp', ?_⟩
            rw [hd]
            simp [curList, kList]
          | some v =>
            obtain ⟨a, rfl⟩ := hk v rfl
            simp only [bopOf, nbin, toNum_int] at hgo
            obtain ⟨p', k', q', hr, hk', hp', hd⟩ :=
              ih pre (some (.int (nop A .add a n))) post res hnn' hck'
                (fun v hv => by cases hv; exact ⟨_, rfl⟩) (fun hh => by cases hh) hgo
            refine ⟨p', k', q', hr, hk', hp', ?_⟩
            rw [hd]
            have e1 : curList pre (some (Val.int (nop A .add a n))) post rest =
                pre ++ Expr.const (Val.int (nop A .add a n)) :: (post ++ rest) := by
              simp [curList, kList]
            have e2 : curList pre (some (Val.int a)) post (Expr.const (Val.int n) :: rest) =
                (pre ++ Expr.const (Val.int a) :: post) ++ Expr.const (Val.int n) :: rest := by
              simp [curList, kList]
            have e3 : pre ++ Expr.const (Val.int a) :: post ++ rest =
                pre ++ Expr.const (Val.int a) :: (post ++ rest) := by simp
            rw [e1, e2, dsum_pull h, dsum_pull h, e3, dsum_pull h]
            cases dsum A env (pre ++ (post ++ rest)) <;> simp [nop, h.assoc]
      | _ => simp [isConst] at hc
    · -- not a constant: kept in place
      have hc' : isConst e = false := by simpa using hc
      rw [commGo_nonconst A .add pre k post rest e hc' (hnn _ (List.mem_cons_self ..))] at hgo
      cases k with
      | none =>
        simp only at hgo
        have hpost := hp rfl
        subst hpost
        obtain ⟨p', k', q', hr, hk', hp', hd⟩ :=
          ih (pre ++ [e]) none [] res hnn' hck' hk (fun _ => rfl) hgo
        refine ⟨p', k', q', hr, hk', hp', ?_⟩
        rw [hd]
        simp [curList, kList]
      | some v =>
        simp only at hgo
        obtain ⟨p', k', q', hr, hk', hp', hd⟩ :=
          ih pre (some v) (post ++ [e]) res hnn' hck' hk (fun hh => by cases hh) hgo
        refine ⟨p', k', q', hr, hk', hp', ?_⟩
        rw [hd]
        simp [curList, kList]


theorem eval_add_dsum' (h : LawfulAdd A) (env : List Val) (l : List Expr) (h2 : 2 ≤ l.length) :
    eval A env (.nary .add l) = (dsum A env l).map Val.int := by
  match l, h2 with
  | e0 :: e1 :: rest, _ => exact eval_add_dsum h env e0 e1 rest

theorem fNary_two (A : Arith) (op : NOp) (l : List Expr) (h2 : 2 ≤ l.length)
    (r : Except FoldErr (List Expr)) (hr : r = .ok l) :
    (match r with
      | .error x => (.error x : FR)
      | .ok [e] => .ok e
      | .ok es' => .ok (.nary op es')) = .ok (.nary op l) := by
  subst hr
  match l, h2 with
  | e0 :: e1 :: rest, _ => rfl

theorem fNary_add_sound (h : LawfulAdd A) (env : List Val) (es : List Expr) (e' : Expr)
    (h2 : 2 ≤ es.length) (hnn : ∀ e ∈ es, nestedNary .add e = none)
    (hf : fNary A .add es = .ok e') : eval A env e' = eval A env (.nary .add es) := by
  rw [eval_add_dsum' h env es h2]
  match es, h2 with
  | e0 :: e1 :: rest, _ =>
    simp only [fNary] at hf
    by_cases hck : ckMath (e0 :: e1 :: rest) = true
    · simp only [hck, if_true] at hf
      have hck' : ∀ e ∈ e0 :: e1 :: rest, constNonNum e = false := by
        intro e he
        have := List.all_eq_true.mp hck e he
        simpa using this
      simp only [commutative] at hf
      cases hgo : commGo A .add [] none [] (e0 :: e1 :: rest) with
      | error x => simp [hgo] at hf
      | ok res =>
        obtain ⟨p', k', q', hr, hk', hp', hd⟩ :=
          commGo_add h env (e0 :: e1 :: rest) [] none [] res hnn hck'
            (fun v hv => by cases hv) (fun _ => rfl) hgo
        subst hr
        have hd' : dsum A env (curList p' k' q' []) = dsum A env (e0 :: e1 :: rest) := by
          rw [hd]; simp [curList, kList]
        rw [← hd']
        simp only [hgo] at hf
        cases k' with
        | none =>
          have hq := hp' rfl
          subst hq
          match p', hf with
          | [], hf =>
            simp only [identOf] at hf
            cases hf
            simp [eval, curList, kList, dsum, numsOf]
          | [e], hf =>
            simp only [identOf] at hf
            cases hf
            rw [eval_add_dsum' h env _ (by simp)]
            have := dsum_pull h env [e] [] 0
            simp only [List.append_nil, List.cons_append, List.nil_append] at this
            rw [this]
            simp only [curList, kList, List.append_nil, h.zero]
            cases dsum A env [e] <;> simp
          | a :: b :: t, hf =>
            cases hf
            rw [eval_add_dsum' h env _ (by simp)]
            simp [curList, kList]
        | some v =>
          obtain ⟨a, rfl⟩ := hk' v rfl
          match p', q', hf with
          | [], [], hf =>
            simp only [bopOf, identOf, nbin, toNum_int] at hf
            cases hf
            simp [eval, curList, kList, dsum, numsOf, numOf, nop, List.foldl]
          | [], y :: q, hf =>
            cases hf
            rw [eval_add_dsum' h env _ (by simp)]
            simp [curList, kList]
          | [x], q, hf =>
            cases hf
            rw [eval_add_dsum' h env _ (by simp)]
            simp [curList, kList]
          | x :: y :: p, q, hf =>
            cases hf
            rw [eval_add_dsum' h env _ (by simp)]
            simp [curList, kList]
    · simp [hck] at hf


/-- the compile error of a fold result, if any (decidable form for the counter-witnesses) -/
def foldErr (r : FR) : Option FoldErr :=
  match r with
  | .error x => some x
  | .ok _ => none

/-- token names of tokens.go for the model's binary operators (used by the `gen_` theorems) -/
def bopName : BOp → String
  | .is => "Is" | .isnt => "Isnt" | .lt => "Lt" | .lte => "Lte" | .gt => "Gt" | .gte => "Gte"
  | .mod => "Mod"

end Gsu.LangFold
