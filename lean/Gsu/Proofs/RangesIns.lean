/-
C39 (ranges): the coalescing loop of `Insert` as a function on the live slot list, and the
refinement of the model's loop (positions, `remove`, writes through the `prev` pointer, stale
slots) to it for the leaf form (`tree == nil`). Core-only.
-/
import Gsu.Proofs.Ranges
namespace Gsu.Ranges
open Gsu.Ordset (Key insertAt)

/-- `for !it.eof() { if !merge(prev, next) break; it.remove() }` on the list after `prev` -/
def coalesceL (p : Slot) : List Slot → Slot × List Slot
  | [] => (p, [])
  | n :: B => if overlap p n then coalesceL ⟨kmin p.frm n.frm, kmax p.to n.to⟩ B else (p, n :: B)

def covL (l : List Slot) (v : Key) : Prop := ∃ s ∈ l, s.covers v

theorem covL_cons (a : Slot) (l : List Slot) (v : Key) : covL (a :: l) v ↔ a.covers v ∨ covL l v := by
  simp [covL]

theorem coalesceL_spec (p : Slot) (B : List Slot) (hp : p.frm ≤ p.to) (hB : DisjSorted B)
    (hle : ∀ b ∈ B, p.frm ≤ b.frm) :
    (coalesceL p B).1.frm = p.frm ∧ p.to ≤ (coalesceL p B).1.to ∧
      (coalesceL p B).1.frm ≤ (coalesceL p B).1.to ∧ DisjSorted (coalesceL p B).2 ∧
      (∀ b ∈ (coalesceL p B).2, (coalesceL p B).1.to < b.frm) ∧
      (∀ v, ((coalesceL p B).1.covers v ∨ covL (coalesceL p B).2 v) ↔ (p.covers v ∨ covL B v)) ∧
      (coalesceL p B).2.length ≤ B.length := by
  induction B generalizing p with
  | nil =>
    rw [show coalesceL p [] = (p, []) from rfl]
    exact ⟨rfl, Std.le_refl _, hp, hB, by simp, fun v => Iff.rfl, Nat.le_refl _⟩
  | cons n B ih =>
    have hn := hB.wf n List.mem_cons_self
    have hpn := hle n List.mem_cons_self
    have hBs := hB.sep
    rw [List.pairwise_cons] at hBs
    have hB' : DisjSorted B := ⟨fun s hs => hB.wf s (List.mem_cons_of_mem _ hs), hBs.2⟩
    have e : coalesceL p (n :: B) =
        if overlap p n then coalesceL ⟨kmin p.frm n.frm, kmax p.to n.to⟩ B else (p, n :: B) := rfl
    rw [e]
    by_cases ho : overlap p n = true
    · rw [if_pos ho]
      have hm : kmin p.frm n.frm = p.frm := by simp only [kmin]; split <;> grind
      have hmx : p.to ≤ kmax p.to n.to := by simp only [kmax]; split <;> grind
      have hmx2 : n.to ≤ kmax p.to n.to := by simp only [kmax]; split <;> grind
      obtain ⟨a1, a2, a3, a4, a5, a6, a7⟩ := ih ⟨kmin p.frm n.frm, kmax p.to n.to⟩
        (by show kmin p.frm n.frm ≤ kmax p.to n.to; rw [hm]; grind) hB'
        (by
          intro b hb
          show kmin p.frm n.frm ≤ b.frm
          rw [hm]
          have := hBs.1 b hb
          grind)
      refine ⟨by rw [a1]; exact hm, by have : p.to ≤ _ := hmx; grind, a3, a4, a5, ?_, by simp only [List.length_cons]; omega⟩
      intro v
      rw [a6 v, covL_cons, merge_covers p n ho v]
      constructor
      · rintro ((h | h) | h)
        · exact Or.inl h
        · exact Or.inr (Or.inl h)
        · exact Or.inr (Or.inr h)
      · rintro (h | h | h)
        · exact Or.inl (Or.inl h)
        · exact Or.inl (Or.inr h)
        · exact Or.inr h
    · rw [if_neg ho]
      have ho' : overlap p n = false := by simpa using ho
      have hsep := no_overlap_separated p n hpn hn ho'
      refine ⟨rfl, Std.le_refl _, hp, hB, ?_, fun v => Iff.rfl, Nat.le_refl _⟩
      intro b hb
      rcases List.mem_cons.mp hb with rfl | hb
      · exact hsep
      · have := hBs.1 b hb; grind

/-! ### one iteration on the array (with stale part `S`) -/

theorem set_mid {α} (A : List α) (p m : α) (R : List α) :
    (A ++ p :: R).set A.length m = A ++ m :: R := by
  induction A with
  | nil => rfl
  | cons a A ih => simp only [List.cons_append, List.length_cons, List.set_cons_succ, ih]

theorem removeAt_mid {α} (A : List α) (n : α) (R : List α) :
    removeAt (A ++ n :: R) A.length = A ++ R ++ (A ++ n :: R).drop ((A ++ n :: R).length - 1) := by
  simp only [removeAt]
  congr 1
  rw [List.take_left' rfl]
  congr 1
  have : A.length + 1 = (A ++ [n]).length := by simp
  have e : A ++ n :: R = (A ++ [n]) ++ R := by simp
  rw [e, this, List.drop_left' rfl]

theorem length_removeAt {α} (a : List α) (i : Nat) (hi : i < a.length) :
    (removeAt a i).length = a.length := by
  simp only [removeAt, List.length_append, List.length_take, List.length_drop]
  omega

theorem get_mid0 {α} (A : List α) (p : α) (R : List α) : (A ++ p :: R)[A.length]? = some p := by
  induction A with
  | nil => rfl
  | cons a A ih => simp

theorem get_mid1 {α} (A : List α) (p n : α) (R : List α) : (A ++ p :: n :: R)[A.length + 1]? = some n := by
  induction A with
  | nil => rfl
  | cons a A ih => simp

theorem coalesceL_length (p : Slot) (B : List Slot) : (coalesceL p B).2.length ≤ B.length := by
  induction B generalizing p with
  | nil => exact Nat.le_refl _
  | cons n B ih =>
    have e : coalesceL p (n :: B) =
        if overlap p n then coalesceL ⟨kmin p.frm n.frm, kmax p.to n.to⟩ B else (p, n :: B) := rfl
    rw [e]
    split
    · have := ih ⟨kmin p.frm n.frm, kmax p.to n.to⟩
      simp only [List.length_cons]; omega
    · exact Nat.le_refl _

/-- the model's loop on the leaf form refines `coalesceL`: array = `A ++ p :: B ++ S` (`S` the stale
part), `prev` at `|A|`, cursor at `|A|+1` -/
theorem coalesce_small (P : Params) (A : List Slot) :
    ∀ (B : List Slot) (fuel : Nat) (p : Slot) (S : List Slot) (inc : Int), B.length < fuel →
      ∃ S', Ranges.coalesce P fuel (.small ⟨A ++ p :: (B ++ S), A.length + 1 + B.length⟩)
          ⟨0, A.length⟩ ⟨0, A.length + 1⟩ inc =
        (.small ⟨A ++ (coalesceL p B).1 :: ((coalesceL p B).2 ++ S'),
            A.length + 1 + (coalesceL p B).2.length⟩,
          inc - ((B.length : Int) - ((coalesceL p B).2.length : Int))) ∧
        S'.length = S.length + (B.length - (coalesceL p B).2.length) := by
  intro B
  induction B with
  | nil =>
    intro fuel p S inc hf
    obtain ⟨f, rfl⟩ : ∃ f, fuel = f + 1 := ⟨fuel - 1, by omega⟩
    refine ⟨S, ?_, by simp [coalesceL]⟩
    simp [Ranges.coalesce, Ranges.eof, Ranges.nLeaves, Ranges.leafAt, coalesceL]
  | cons n B ih =>
    intro fuel p S inc hf
    obtain ⟨f, rfl⟩ : ∃ f, fuel = f + 1 := ⟨fuel - 1, by omega⟩
    have hf' : B.length < f := by simp only [List.length_cons] at hf; omega
    have e : coalesceL p (n :: B) =
        if overlap p n then coalesceL ⟨kmin p.frm n.frm, kmax p.to n.to⟩ B else (p, n :: B) := rfl
    have hneof : Ranges.eof P (.small ⟨A ++ p :: (n :: B ++ S), A.length + 1 + (n :: B).length⟩)
        ⟨0, A.length + 1⟩ = false := by
      simp [Ranges.eof, Ranges.nLeaves, Ranges.leafAt]
    have hprev : Ranges.cur P (.small ⟨A ++ p :: (n :: B ++ S), A.length + 1 + (n :: B).length⟩)
        ⟨0, A.length⟩ = p := by
      simp [Ranges.cur, Ranges.leafAt, Leaf.get]
    have hnext : Ranges.cur P (.small ⟨A ++ p :: (n :: B ++ S), A.length + 1 + (n :: B).length⟩)
        ⟨0, A.length + 1⟩ = n := by
      simp only [Ranges.cur, Ranges.leafAt, Leaf.get, ↓reduceIte, List.cons_append]
      rw [get_mid1]; rfl
    rw [e]
    unfold Ranges.coalesce
    simp only [hneof, Bool.false_eq_true, ↓reduceIte, hprev, hnext]
    by_cases ho : overlap p n = true
    · simp only [ho, ↓reduceIte]
      -- the write through `prev` and the removal
      have hset : Ranges.setSlot P (.small ⟨A ++ p :: (n :: B ++ S), A.length + 1 + (n :: B).length⟩)
          ⟨0, A.length⟩ ⟨kmin p.frm n.frm, kmax p.to n.to⟩ =
          .small ⟨A ++ ⟨kmin p.frm n.frm, kmax p.to n.to⟩ :: (n :: B ++ S), A.length + 1 + (n :: B).length⟩ := by
        simp only [Ranges.setSlot, Ranges.leafAt, Ranges.setLeaf, ↓reduceIte, set_mid]
      rw [hset]
      have hrem : Ranges.remove P
          (.small ⟨A ++ ⟨kmin p.frm n.frm, kmax p.to n.to⟩ :: (n :: B ++ S), A.length + 1 + (n :: B).length⟩)
          ⟨0, A.length + 1⟩ =
          (.small ⟨A ++ ⟨kmin p.frm n.frm, kmax p.to n.to⟩ ::
              (B ++ (S ++ (A ++ ⟨kmin p.frm n.frm, kmax p.to n.to⟩ :: (n :: B ++ S)).drop
                ((A ++ ⟨kmin p.frm n.frm, kmax p.to n.to⟩ :: (n :: B ++ S)).length - 1))),
            A.length + 1 + B.length⟩, ⟨0, A.length + 1⟩) := by
        simp only [Ranges.remove, Ranges.leafAt, ↓reduceIte]
        have e1 : A ++ ⟨kmin p.frm n.frm, kmax p.to n.to⟩ :: (n :: B ++ S) =
            (A ++ [⟨kmin p.frm n.frm, kmax p.to n.to⟩]) ++ n :: (B ++ S) := by simp
        have e2 : A.length + 1 = (A ++ [(⟨kmin p.frm n.frm, kmax p.to n.to⟩ : Slot)]).length := by simp
        congr 2
        rw [e1, e2, removeAt_mid]; simp
      rw [hrem]
      simp only
      obtain ⟨S', h1, h2⟩ := ih f ⟨kmin p.frm n.frm, kmax p.to n.to⟩
        (S ++ (A ++ ⟨kmin p.frm n.frm, kmax p.to n.to⟩ :: (n :: B ++ S)).drop
          ((A ++ ⟨kmin p.frm n.frm, kmax p.to n.to⟩ :: (n :: B ++ S)).length - 1)) (inc - 1) hf'
      refine ⟨S', ?_, ?_⟩
      · rw [h1]
        have := coalesceL_length ⟨kmin p.frm n.frm, kmax p.to n.to⟩ B
        congr 1
        simp only [List.length_cons]; omega
      · rw [h2]
        have := coalesceL_length ⟨kmin p.frm n.frm, kmax p.to n.to⟩ B
        simp only [List.length_append, List.length_drop, List.length_cons]
        omega
    · simp only [ho, Bool.false_eq_true, ↓reduceIte]
      exact ⟨S, by simp, by simp⟩

/-! ### `Insert` on the leaf form -/

theorem insertAt_shape {α} (n : Nat) (L1 L2 S0 : List α) (x : α)
    (hlen : (L1 ++ (L2 ++ S0)).length = n) (hS : S0 ≠ []) :
    insertAt n (L1 ++ (L2 ++ S0)) L1.length x = L1 ++ x :: (L2 ++ S0.dropLast) := by
  simp only [insertAt]
  rw [List.take_left' rfl, List.drop_left' rfl]
  have e : L1 ++ x :: (L2 ++ S0) = (L1 ++ x :: (L2 ++ S0.dropLast)) ++ [S0.getLast hS] := by
    conv => lhs; rw [← List.dropLast_concat_getLast hS]
    simp
  rw [e]
  apply List.take_left'
  have : S0.length ≠ 0 := fun h => hS (List.eq_nil_of_length_eq_zero h)
  simp only [List.length_append, List.length_cons, List.length_dropLast] at hlen ⊢
  omega

theorem live_prefix (X S : List Slot) : (Leaf.mk (X ++ S) X.length).live = X := by
  simp [Leaf.live]

theorem covL_append (a b : List Slot) (v : Key) : covL (a ++ b) v ↔ covL a v ∨ covL b v := by
  simp only [covL, List.mem_append]
  constructor
  · rintro ⟨s, hs | hs, hc⟩
    · exact Or.inl ⟨s, hs, hc⟩
    · exact Or.inr ⟨s, hs, hc⟩
  · rintro (⟨s, hs, hc⟩ | ⟨s, hs, hc⟩)
    · exact ⟨s, Or.inl hs, hc⟩
    · exact ⟨s, Or.inr hs, hc⟩

/-- the result of the loop put back between `A` and nothing else is again disjoint and sorted -/
theorem ds_assemble (A : List Slot) (p' : Slot) (B' : List Slot) (hA : DisjSorted A)
    (hp : p'.frm ≤ p'.to) (hB : DisjSorted B') (hAp : ∀ a ∈ A, a.to < p'.frm)
    (hpB : ∀ b ∈ B', p'.to < b.frm) : DisjSorted (A ++ p' :: B') := by
  refine ⟨?_, ?_⟩
  · intro s hs
    rcases List.mem_append.mp hs with h | h
    · exact hA.wf s h
    · rcases List.mem_cons.mp h with rfl | h
      · exact hp
      · exact hB.wf s h
  · rw [List.pairwise_append, List.pairwise_cons]
    refine ⟨hA.sep, ⟨hpB, hB.sep⟩, ?_⟩
    intro a ha b hb
    have h1 := hAp a ha
    rcases List.mem_cons.mp hb with rfl | hb
    · exact h1
    · have := hpB b hb; grind

/-- list level, `prev` = the new slot: everything before it ends below `f` -/
theorem list_insert_here (L1 L2 : List Slot) (f t : Key) (hft : f ≤ t) (hds : DisjSorted (L1 ++ L2))
    (h2 : ∀ b ∈ L2, f ≤ b.frm) (hlast : ∀ a ∈ L1, a.to < f) :
    DisjSorted (L1 ++ (coalesceL ⟨f, t⟩ L2).1 :: (coalesceL ⟨f, t⟩ L2).2) ∧
      ∀ v, covL (L1 ++ (coalesceL ⟨f, t⟩ L2).1 :: (coalesceL ⟨f, t⟩ L2).2) v ↔
        (covL (L1 ++ L2) v ∨ (f ≤ v ∧ v ≤ t)) := by
  have hsep := hds.sep
  rw [List.pairwise_append] at hsep
  have hA : DisjSorted L1 := ⟨fun s hs => hds.wf s (List.mem_append_left _ hs), hsep.1⟩
  have hB : DisjSorted L2 := ⟨fun s hs => hds.wf s (List.mem_append_right _ hs), hsep.2.1⟩
  obtain ⟨a1, a2, a3, a4, a5, a6, _⟩ := coalesceL_spec ⟨f, t⟩ L2 hft hB h2
  refine ⟨ds_assemble L1 _ _ hA a3 a4 (fun a ha => by rw [a1]; exact hlast a ha) a5, ?_⟩
  intro v
  rw [covL_append, covL_cons, a6 v, covL_append]
  simp only [Slot.covers]
  constructor
  · rintro (h | h | h)
    · exact Or.inl (Or.inl h)
    · exact Or.inr h
    · exact Or.inl (Or.inr h)
  · rintro ((h | h) | h)
    · exact Or.inl h
    · exact Or.inr (Or.inr h)
    · exact Or.inr (Or.inl h)

/-- list level, `prev` = the slot `z` before the new one (it reaches `f`) -/
theorem list_insert_prev (L1' : List Slot) (z : Slot) (L2 : List Slot) (f t : Key) (hft : f ≤ t)
    (hds : DisjSorted (L1' ++ z :: L2)) (hz : z.frm < f) (h2 : ∀ b ∈ L2, f ≤ b.frm) (hzt : ¬ z.to < f) :
    DisjSorted (L1' ++ (coalesceL z (⟨f, t⟩ :: L2)).1 :: (coalesceL z (⟨f, t⟩ :: L2)).2) ∧
      ∀ v, covL (L1' ++ (coalesceL z (⟨f, t⟩ :: L2)).1 :: (coalesceL z (⟨f, t⟩ :: L2)).2) v ↔
        (covL (L1' ++ z :: L2) v ∨ (f ≤ v ∧ v ≤ t)) := by
  have hsep := hds.sep
  rw [List.pairwise_append, List.pairwise_cons] at hsep
  obtain ⟨s1, ⟨s2, s3⟩, s4⟩ := hsep
  have hA : DisjSorted L1' := ⟨fun s hs => hds.wf s (List.mem_append_left _ hs), s1⟩
  have hB : DisjSorted L2 :=
    ⟨fun s hs => hds.wf s (List.mem_append_right _ (List.mem_cons_of_mem _ hs)), s3⟩
  have hzw := hds.wf z (by simp)
  have ho : overlap z ⟨f, t⟩ = true := by
    simp only [overlap, Bool.and_eq_true, decide_eq_true_eq]; grind
  have e : coalesceL z (⟨f, t⟩ :: L2) = coalesceL ⟨kmin z.frm f, kmax z.to t⟩ L2 := by
    show (if overlap z ⟨f, t⟩ then _ else _) = _
    rw [if_pos ho]
  rw [e]
  have hm : kmin z.frm f = z.frm := by simp only [kmin]; split <;> grind
  have hmx : z.to ≤ kmax z.to t := by simp only [kmax]; split <;> grind
  obtain ⟨a1, a2, a3, a4, a5, a6, _⟩ := coalesceL_spec ⟨kmin z.frm f, kmax z.to t⟩ L2
    (by show kmin z.frm f ≤ kmax z.to t; rw [hm]; grind) hB
    (by intro b hb; show kmin z.frm f ≤ b.frm; rw [hm]; have := h2 b hb; grind)
  refine ⟨ds_assemble L1' _ _ hA a3 a4 (fun a ha => by
      rw [a1]; show a.to < kmin z.frm f; rw [hm]; exact s4 a ha z List.mem_cons_self) a5, ?_⟩
  intro v
  rw [covL_append, covL_cons, a6 v, covL_append, covL_cons, merge_covers z ⟨f, t⟩ ho v]
  simp only [Slot.covers]
  constructor
  · rintro (h | (h | h) | h)
    · exact Or.inl (Or.inl h)
    · exact Or.inl (Or.inr (Or.inl h))
    · exact Or.inr h
    · exact Or.inl (Or.inr (Or.inr h))
  · rintro ((h | h | h) | h)
    · exact Or.inl h
    · exact Or.inr (Or.inl (Or.inl h))
    · exact Or.inr (Or.inr h)
    · exact Or.inr (Or.inl (Or.inr h))

theorem finish_small (P : Params) (A B S : List Slot) (p : Slot) (fuel : Nat) (hf : B.length < fuel)
    (hlen : (A ++ p :: (B ++ S)).length = P.nodeSize) :
    ∃ l' inc, Ranges.coalesce P fuel (.small ⟨A ++ p :: (B ++ S), A.length + 1 + B.length⟩)
        ⟨0, A.length⟩ ⟨0, A.length + 1⟩ 1 = (.small l', inc) ∧
      l'.live = A ++ (coalesceL p B).1 :: (coalesceL p B).2 ∧
      l'.slots.length = P.nodeSize ∧ l'.size ≤ P.nodeSize ∧ l'.size ≤ A.length + 1 + B.length := by
  obtain ⟨S', h1, h2⟩ := coalesce_small P A B fuel p S 1 hf
  have hl := coalesceL_length p B
  refine ⟨_, _, h1, ?_, ?_, ?_, by show A.length + 1 + (coalesceL p B).2.length ≤ _; omega⟩
  · have e : A ++ (coalesceL p B).1 :: ((coalesceL p B).2 ++ S') =
        (A ++ (coalesceL p B).1 :: (coalesceL p B).2) ++ S' := by simp
    have e2 : A.length + 1 + (coalesceL p B).2.length =
        (A ++ (coalesceL p B).1 :: (coalesceL p B).2).length := by simp; omega
    show (Leaf.mk _ _).live = _
    rw [e, e2, live_prefix]
  · simp only [List.length_append, List.length_cons] at hlen ⊢
    omega
  · simp only [List.length_append, List.length_cons] at hlen ⊢
    omega

theorem leaf_insert_at_eq (P : Params) (l : Leaf) (f t : Key) (hsz : l.size < P.nodeSize)
    (hc : ((decide (l.search f < l.size) && (l.get (l.search f)).contains f t) ||
      (decide (l.search f > 0) && (l.get (l.search f - 1)).contains f t)) = false) :
    l.insert P f t = (⟨insertAt P.nodeSize l.slots (l.search f) ⟨f, t⟩, l.size + 1⟩, .at (l.search f)) := by
  have hnf : ¬ l.size ≥ P.nodeSize := by omega
  simp only [Leaf.insert, hc, Bool.false_eq_true, ↓reduceIte, hnf]

theorem leaf_insert_existing_eq (P : Params) (l : Leaf) (f t : Key)
    (hc : ((decide (l.search f < l.size) && (l.get (l.search f)).contains f t) ||
      (decide (l.search f > 0) && (l.get (l.search f - 1)).contains f t)) = true) :
    l.insert P f t = (l, .existing) := by
  simp only [Leaf.insert, hc, ↓reduceIte]

/-- `Ranges.Insert` on the leaf form with room: the invariant is kept and exactly `[f, t]` is added
to the covered set -/
theorem insert_small (P : Params) (l : Leaf) (f t : Key) (hft : f ≤ t) (h : LeafOK P l)
    (hsz : l.size < P.nodeSize) :
    ∃ l' r, Ranges.insert P (.small l) f t = (.small l', .inc r) ∧ LeafOK P l' ∧ l'.size ≤ l.size + 1 ∧
      ∀ v, covL l'.live v ↔ (covL l.live v ∨ (f ≤ v ∧ v ≤ t)) := by
  obtain ⟨h1, h2, h3⟩ := leaf_search_spec h f
  have hlen := live_length h
  have hnf : ¬ l.size ≥ P.nodeSize := by omega
  by_cases hc : ((decide (l.search f < l.size) && (l.get (l.search f)).contains f t) ||
      (decide (l.search f > 0) && (l.get (l.search f - 1)).contains f t)) = true
  · -- Existed
    refine ⟨l, 0, ?_, h, Nat.le_succ _, ?_⟩
    · simp only [Ranges.insert, Ranges.leafAt, ↓reduceIte, hnf, leaf_insert_existing_eq P l f t hc]
    · obtain ⟨_, s, hs, hs1, hs2⟩ := leaf_insert_existing h f t (by rw [leaf_insert_existing_eq P l f t hc])
      intro v
      constructor
      · exact Or.inl
      · rintro (hv | hv)
        · exact hv
        · exact ⟨s, hs, by simp only [Slot.covers]; grind⟩
  · have hc' := Bool.eq_false_iff.mpr hc
    have hins := leaf_insert_at_eq P l f t hsz hc'
    -- the array after the leaf insert
    have hS0 : l.slots.drop l.size ≠ [] := by
      intro h0
      have := congrArg List.length h0
      simp only [List.length_drop, h.len, List.length_nil] at this
      omega
    have hL1 : (l.live.take (l.search f)).length = l.search f := by
      rw [List.length_take]; omega
    have hslots : l.slots = l.live.take (l.search f) ++ (l.live.drop (l.search f) ++ l.slots.drop l.size) := by
      rw [← List.append_assoc, List.take_append_drop]
      exact (List.take_append_drop l.size l.slots).symm
    have hshape : insertAt P.nodeSize l.slots (l.search f) ⟨f, t⟩ =
        l.live.take (l.search f) ++ ⟨f, t⟩ :: (l.live.drop (l.search f) ++ (l.slots.drop l.size).dropLast) := by
      have hsh := insertAt_shape P.nodeSize (l.live.take (l.search f)) (l.live.drop (l.search f))
        (l.slots.drop l.size) (⟨f, t⟩ : Slot) (by rw [← hslots]; exact h.len) hS0
      rw [hL1, ← hslots] at hsh
      exact hsh
    have hL2 : (l.live.drop (l.search f)).length = l.size - l.search f := by
      rw [List.length_drop]; omega
    have hds : DisjSorted (l.live.take (l.search f) ++ l.live.drop (l.search f)) := by
      rw [List.take_append_drop]; exact h.ds
    have hcov0 : ∀ v, covL l.live v ↔ covL (l.live.take (l.search f) ++ l.live.drop (l.search f)) v := by
      intro v; rw [List.take_append_drop]
    have hSlen : ((l.slots.drop l.size).dropLast).length = P.nodeSize - l.size - 1 := by
      simp only [List.length_dropLast, List.length_drop, h.len]
    simp only [Ranges.insert, Ranges.leafAt, ↓reduceIte, hnf, hins, hshape, Ranges.setLeaf, Ranges.count,
      Ranges.next, Ranges.next2, Ranges.isTree, Bool.not_false, Bool.or_true, Ranges.prev]
    clear hins hshape hslots hc hc' hS0
    generalize (l.slots.drop l.size).dropLast = S at *
    generalize hi : l.search f = i at *
    generalize l.live.take i = L1 at *
    generalize l.live.drop i = L2 at *
    -- assemble the result from a decomposition `A ++ p :: (B ++ S)` of the array
    have fin : ∀ (A B : List Slot) (p : Slot),
        (A ++ p :: (B ++ S)).length = P.nodeSize → l.size + 1 = A.length + 1 + B.length →
        (DisjSorted (A ++ (coalesceL p B).1 :: (coalesceL p B).2) ∧
          ∀ v, covL (A ++ (coalesceL p B).1 :: (coalesceL p B).2) v ↔ (covL (L1 ++ L2) v ∨ (f ≤ v ∧ v ≤ t))) →
        ∃ l' r, ((Ranges.coalesce P (l.size + 1 + 1) (.small ⟨A ++ p :: (B ++ S), l.size + 1⟩)
            ⟨0, A.length⟩ ⟨0, A.length + 1⟩ 1).1,
          Res.inc (Ranges.coalesce P (l.size + 1 + 1) (.small ⟨A ++ p :: (B ++ S), l.size + 1⟩)
            ⟨0, A.length⟩ ⟨0, A.length + 1⟩ 1).2) = (Ranges.small l', Res.inc r) ∧ LeafOK P l' ∧
          l'.size ≤ l.size + 1 ∧
          ∀ v, covL l'.live v ↔ (covL l.live v ∨ (f ≤ v ∧ v ≤ t)) := by
      intro A B p hl hs hres
      rw [hs]
      obtain ⟨l', inc, e1, e2, e3, e4, e5⟩ := finish_small P A B S p (A.length + 1 + B.length + 1) (by omega) hl
      refine ⟨l', inc, by rw [e1], ⟨e3, e4, by rw [e2]; exact hres.1⟩, e5, ?_⟩
      intro v
      rw [e2, hres.2 v, hcov0 v]
    have hlenArr : (L1 ++ ⟨f, t⟩ :: (L2 ++ S)).length = P.nodeSize := by
      simp only [List.length_append, List.length_cons, hL1, hL2, hSlen]; omega
    have hsz1 : l.size + 1 = L1.length + 1 + L2.length := by rw [hL1, hL2]; omega
    rcases List.eq_nil_or_concat L1 with rfl | ⟨L1', z, hz⟩
    · -- the new slot is the first: `prev()` is eof
      have hi0 : ¬ i > 0 := by simp at hL1; omega
      simp only [hi0, ↓reduceIte]
      have hi00 : i = 0 := by omega
      subst hi00
      exact fin [] L2 ⟨f, t⟩ hlenArr hsz1
        (list_insert_here [] L2 f t hft hds h3 (by simp))
    · rw [List.concat_eq_append] at hz; subst hz
      have hipos : i > 0 := by simp at hL1; omega
      have hiL : i - 1 = L1'.length := by simp at hL1; omega
      have hiL' : i = (L1' ++ [z]).length := by rw [hL1]
      have harr : L1' ++ [z] ++ ⟨f, t⟩ :: (L2 ++ S) = L1' ++ z :: ((⟨f, t⟩ :: L2) ++ S) := by simp
      have heof : Ranges.eof P (.small ⟨L1' ++ [z] ++ ⟨f, t⟩ :: (L2 ++ S), l.size + 1⟩) ⟨0, i - 1⟩ = false := by
        simp [Ranges.eof, Ranges.nLeaves, Ranges.leafAt]; omega
      have hcur : Ranges.cur P (.small ⟨L1' ++ [z] ++ ⟨f, t⟩ :: (L2 ++ S), l.size + 1⟩) ⟨0, i - 1⟩ = z := by
        simp only [Ranges.cur, Ranges.leafAt, ↓reduceIte, Leaf.get, hiL, harr, get_mid0, Option.getD_some]
      simp only [hipos, ↓reduceIte, heof, hcur, Bool.false_or, decide_eq_true_eq]
      by_cases hzt : z.to < f
      · simp only [hzt, ↓reduceIte]
        rw [hiL']
        refine fin (L1' ++ [z]) L2 ⟨f, t⟩ hlenArr hsz1
          (list_insert_here (L1' ++ [z]) L2 f t hft hds h3 ?_)
        -- every slot before ends below f
        intro a ha
        rcases List.mem_append.mp ha with ha | ha
        · have hsep := hds.sep
          rw [List.pairwise_append, List.pairwise_append] at hsep
          have := hsep.1.2.2 a ha z (by simp)
          have := hds.wf z (by simp)
          grind
        · simp at ha; subst ha; exact hzt
      · simp only [hzt, ↓reduceIte]
        rw [hiL, harr]
        refine fin L1' (⟨f, t⟩ :: L2) z (by rw [← harr]; exact hlenArr)
          (by simp only [List.length_append, List.length_cons, List.length_nil] at hsz1 ⊢; omega) ?_
        have hds' : DisjSorted (L1' ++ z :: L2) := by
          have : L1' ++ [z] ++ L2 = L1' ++ z :: L2 := by simp
          rw [← this]; exact hds
        have hcv : ∀ v, covL (L1' ++ [z] ++ L2) v ↔ covL (L1' ++ z :: L2) v := by
          intro v
          have : L1' ++ [z] ++ L2 = L1' ++ z :: L2 := by simp
          rw [this]
        obtain ⟨r1, r2⟩ := list_insert_prev L1' z L2 f t hft hds' (h2 z (by simp)) h3 hzt
        exact ⟨r1, fun v => by rw [r2 v, hcv v]⟩

/-! ### histories that stay in the leaf form -/

/-- one `Insert(from, to)`, result ignored -/
def stepR (P : Params) (rs : Ranges) (o : Key × Key) : Ranges := (rs.insert P o.1 o.2).1

/-- any sequence of `Insert(from, to)` from the zero value -/
def runR (P : Params) (ops : List (Key × Key)) : Ranges := ops.foldl (stepR P) (Ranges.empty P)

theorem run_small_aux (P : Params) (ops : List (Key × Key)) :
    ∀ (l : Leaf) (done : List (Key × Key)), LeafOK P l → l.size + ops.length ≤ P.nodeSize →
      (∀ v, covL l.live v ↔ ∃ o ∈ done, o.1 ≤ v ∧ v ≤ o.2) → (∀ o ∈ ops, o.1 ≤ o.2) →
      ∃ l', ops.foldl (stepR P) (Ranges.small l) = Ranges.small l' ∧ LeafOK P l' ∧
        ∀ v, covL l'.live v ↔ ∃ o ∈ done ++ ops, o.1 ≤ v ∧ v ≤ o.2 := by
  induction ops with
  | nil => intro l done h _ hc _; exact ⟨l, rfl, h, by simpa using hc⟩
  | cons o ops ih =>
    intro l done h hn hc hw
    simp only [List.length_cons] at hn
    obtain ⟨l', r, e, hok, hsz, hcov⟩ := insert_small P l o.1 o.2 (hw o List.mem_cons_self) h (by omega)
    simp only [List.foldl_cons, stepR, e]
    obtain ⟨l'', e2, hok2, hcov2⟩ := ih l' (done ++ [o]) hok (by omega)
      (by
        intro v
        rw [hcov v, hc v]
        simp only [List.mem_append, List.mem_singleton]
        constructor
        · rintro (⟨x, hx, hxv⟩ | hv)
          · exact ⟨x, Or.inl hx, hxv⟩
          · exact ⟨o, Or.inr rfl, hv⟩
        · rintro ⟨x, hx | rfl, hxv⟩
          · exact Or.inl ⟨x, hx, hxv⟩
          · exact Or.inr hxv)
      (fun x hx => hw x (List.mem_cons_of_mem _ hx))
    refine ⟨l'', e2, hok2, ?_⟩
    intro v
    rw [hcov2 v]
    simp only [List.append_assoc, List.singleton_append]

theorem run_small (P : Params) (ops : List (Key × Key)) (hw : ∀ o ∈ ops, o.1 ≤ o.2)
    (hn : ops.length ≤ P.nodeSize) :
    ∃ l, runR P ops = .small l ∧ LeafOK P l ∧ ∀ v, covL l.live v ↔ ∃ o ∈ ops, o.1 ≤ v ∧ v ≤ o.2 := by
  have := run_small_aux P ops (Leaf.empty P) [] (empty_ok P) (by simp [Leaf.empty]; exact hn)
    (by intro v; simp [covL, Leaf.live, Leaf.empty]) hw
  simpa [runR, Ranges.empty] using this

end Gsu.Ranges
