import Gsu.Proofs.Ixkey2
namespace Gsu.Ixkey
open Gsu.Proto

theorem joinEnc_cons2 (f g : Bytes) (fs : List Bytes) :
    joinEnc (f :: g :: fs) = enc f ++ 0 :: 0 :: joinEnc (g :: fs) := by simp [joinEnc]
theorem joinEnc_single (f : Bytes) : joinEnc [f] = enc f := by simp [joinEnc]
theorem joinEnc_cons (f : Bytes) (fs : List Bytes) :
    joinEnc (f :: fs) = enc f ++ (if fs = [] then [] else 0 :: 0 :: joinEnc fs) := by
  cases fs with
  | nil => simp [joinEnc]
  | cons g fs => simp [joinEnc]

theorem enc_eq_nil {a : Bytes} : enc a = [] ↔ a = [] := by
  cases a with
  | nil => simp [enc]
  | cons b bs => by_cases hb : b = 0 <;> simp [enc, hb]

theorem trimEmpty_cons (x : Bytes) (a : List Bytes) :
    trimEmpty (x :: a) = if trimEmpty a = [] then (if x = [] then [] else [x]) else x :: trimEmpty a := by
  simp only [trimEmpty, List.reverse_cons, List.dropWhile_append]
  by_cases h : (List.dropWhile (fun x => decide (x = [])) a.reverse) = []
  · by_cases hx : x = [] <;> simp [h, hx, List.dropWhile]
  · simp [h]

theorem trimEmpty_nil : trimEmpty [] = [] := rfl

theorem trimEmpty_eq_nil (vs : List Bytes) : trimEmpty vs = [] ↔ vs.all (· = []) = true := by
  induction vs with
  | nil => simp [trimEmpty]
  | cons x a ih =>
    rw [trimEmpty_cons]
    by_cases h : trimEmpty a = []
    · have := ih.mp h
      by_cases hx : x = [] <;> simp [h, hx, this]
    · have : ¬ (a.all (· = []) = true) := fun h' => h (ih.mpr h')
      simp only [h, if_false, List.all_cons]
      simp at this ⊢
      intro _; exact this

theorem joinEnc_eq_nil (vs : List Bytes) : joinEnc vs = [] ↔ vs = [] ∨ vs = [[]] := by
  cases vs with
  | nil => simp [joinEnc]
  | cons f fs =>
    rw [joinEnc_cons]
    by_cases h : fs = []
    · simp [h, enc_eq_nil]
    · simp [h]

theorem trimEmpty_ne_single_nil (a : List Bytes) : trimEmpty a ≠ [[]] := by
  induction a with
  | nil => simp [trimEmpty]
  | cons x a ih =>
    rw [trimEmpty_cons]
    by_cases h : trimEmpty a = []
    · by_cases hx : x = [] <;> simp [h, hx]
    · simp [h]

theorem joinEnc_trim_ne_nil {a : List Bytes} (h : trimEmpty a ≠ []) : joinEnc (trimEmpty a) ≠ [] := by
  intro h'
  rcases (joinEnc_eq_nil _).mp h' with h' | h'
  · exact h h'
  · exact trimEmpty_ne_single_nil a h'

theorem splitSep_joinEnc {vs : List Bytes} (h : vs ≠ []) : splitSep (joinEnc vs) = vs.map enc := by
  induction vs with
  | nil => exact absurd rfl h
  | cons f fs ih =>
    cases fs with
    | nil => simp [joinEnc, splitSep_enc]
    | cons g fs =>
      rw [joinEnc_cons2, splitSep_enc_sep, ih (by simp)]
      simp

theorem map_unenc_enc (vs : List Bytes) : (vs.map enc).map unenc = vs := by
  induction vs with
  | nil => rfl
  | cons f fs ih => simp [unenc_enc] at ih ⊢; exact ih

theorem decode_joinEnc {vs : List Bytes} (h : vs ≠ [[]]) : decode (joinEnc vs) = vs := by
  unfold decode
  by_cases hn : joinEnc vs = []
  · rcases (joinEnc_eq_nil vs).mp hn with h' | h'
    · subst h'; simp [joinEnc]
    · exact absurd h' h
  · have : vs ≠ [] := by intro h'; subst h'; exact hn rfl
    simp only [hn, if_false]
    rw [splitSep_joinEnc this, map_unenc_enc]

theorem trimEmpty_idem (a : List Bytes) : trimEmpty (trimEmpty a) = trimEmpty a := by
  induction a with
  | nil => rfl
  | cons x a ih =>
    rw [trimEmpty_cons]
    by_cases h : trimEmpty a = []
    · by_cases hx : x = [] <;> simp [h, hx, trimEmpty_cons, trimEmpty_nil]
    · simp [h, trimEmpty_cons, ih]

theorem encodes_of_length {fields fields2 : List Nat} (h : fields.length > 1) : encodes fields fields2 = true := by
  simp [encodes, h]

theorem decode_key_spec (fields : List Nat) (rec : List Bytes) (h : fields.length > 1) :
    decode (key fields [] rec) = trimEmpty (fields.map (getRaw rec)) := by
  cases fields with
  | nil => simp at h
  | cons f0 fs =>
    simp only [key, encodes_of_length h]
    by_cases hall : (List.map (getRaw rec) (f0 :: fs)).all (· = []) = true
    · have := (trimEmpty_eq_nil _).mpr hall
      simp only [Bool.not_true, Bool.false_eq_true, if_false]
      rw [if_pos hall, this]; simp [decode]
    · simp only [Bool.not_true, Bool.false_eq_true, if_false]
      rw [if_neg hall]
      exact decode_joinEnc (trimEmpty_ne_single_nil _)
end Gsu.Ixkey
