import Gsu.Proofs.SchemaAlg7
/-!
C21, part 8: `alterDrop` preserves `LWF` (main argument).
-/
namespace Gsu.SchemaAlg

/-- the correspondence between the metadata before and after an accepted `alterDrop` -/
structure DropCorr (db db' : Db) (name : String) (idxs : List (List String))
    (E : String → List String → Fkey → Fkey) : Prop where
  /-- every index after comes from an index before (same table; same position unless `name`) -/
  bwd : ∀ s p six3, look db' s p = some six3 → ∃ p0 six0, look db s p0 = some six0 ∧ sk six0 = sk six3 ∧
    (s ≠ name → p0 = p) ∧ (s = name → six0.columns ∉ idxs) ∧
    six3.fkToHere = (six0.fkToHere.filter (fun f =>
      !(idxs.any (fun cc => dropQ db name false cc s six0.columns f)))).map (E s six0.columns)
  /-- every index before that is not dropped is still there -/
  fwd : ∀ s p0 six0, look db s p0 = some six0 → (s = name → six0.columns ∉ idxs) →
    ∃ p six3, look db' s p = some six3 ∧ sk six0 = sk six3 ∧ (s ≠ name → p = p0)
  /-- entries that come from other tables are not rewritten -/
  eOther : ∀ n cs f, f.table ≠ name → E n cs f = f
  eFields : ∀ n cs f, (E n cs f).table = f.table ∧ (E n cs f).columns = f.columns ∧ (E n cs f).mode = f.mode
  /-- entries that come from `name` get the new position of their index -/
  eHit : ∀ p six3, look db' name p = some six3 → six3.fk.table ≠ "" → ∀ f, f.table = name →
    f.columns = six3.columns → E six3.fk.table six3.fk.columns f = { f with iindex := p }

/-- `LInv` from the correspondence -/
theorem linv_of_dropCorr {db db' : Db} {name : String} {idxs : List (List String)}
    {E : String → List String → Fkey → Fkey} {ts : Table} (w : LWF db) (hts : getT db name = some ts)
    (c : DropCorr db db' name idxs E) : LInv db' := by
  have hu : LUniq db := luniq_of_idxUniq (idxUniq_of_validate w.valid)
  intro n j ix3 hl3
  obtain ⟨j0, ix0, hl0, hsk, _, _, hback⟩ := c.bwd n j ix3 hl3
  obtain ⟨hnd, hm⟩ := w.linv n j0 ix0 hl0
  have hcols : ix3.columns = ix0.columns := (sk_columns hsk).symm
  rw [hback, hcols]
  constructor
  · apply nodup_map_on _ (nodup_filter _ hnd)
    intro a ha b hb hab
    have la := (hm a).mp (List.mem_filter.mp ha).1
    have lb := (hm b).mp (List.mem_filter.mp hb).1
    obtain ⟨a1, a2, a3⟩ := c.eFields n ix0.columns a
    obtain ⟨b1, b2, b3⟩ := c.eFields n ix0.columns b
    have ht : a.table = b.table := by rw [← a1, ← b1, hab]
    have hc : a.columns = b.columns := by rw [← a2, ← b2, hab]
    have hmo : a.mode = b.mode := by rw [← a3, ← b3, hab]
    obtain ⟨_, sa, hsa, ca, _⟩ := la
    obtain ⟨_, sb, hsb, cb, _⟩ := lb
    rw [ht] at hsa
    have hi : a.iindex = b.iindex := hu _ _ _ sa sb hsa hsb (by rw [ca, cb, hc])
    exact Fkey.ext' ht hc hi hmo
  · intro f'
    rw [List.mem_map]
    constructor
    · rintro ⟨f, hf, rfl⟩
      obtain ⟨hfm, hp⟩ := List.mem_filter.mp hf
      have lf := (hm f).mp hfm
      have hkeep := (alterDrop_keep w hts lf).mp hp
      obtain ⟨hne, six0, hls, g1, g2, g3, g4⟩ := lf
      obtain ⟨p, six3, hl', hsk', hpos⟩ := c.fwd f.table f.iindex six0 hls
        (fun e => by rw [g1]; exact hkeep e)
      obtain ⟨e1, e2, e3⟩ := sk_fk hsk'
      by_cases hft : f.table = name
      · have hE : E n ix0.columns f = { f with iindex := p } := by
          have := c.eHit p six3 (by rw [← hft]; exact hl') (by rw [← e1, g3]; exact hne) f hft
            (by rw [← sk_columns hsk', g1])
          rw [← e1, ← e2, g3, g4] at this
          exact this
        rw [hE]
        exact ⟨hne, six3, hl', by rw [← sk_columns hsk', g1], by rw [← e3, g2], by rw [← e1, g3],
          by rw [← e2, g4]⟩
      · rw [c.eOther n ix0.columns f hft]
        rw [hpos hft] at hl'
        exact ⟨hne, six3, hl', by rw [← sk_columns hsk', g1], by rw [← e3, g2], by rw [← e1, g3],
          by rw [← e2, g4]⟩
    · rintro ⟨hne, six3, hl', g1, g2, g3, g4⟩
      obtain ⟨p0, six0, hls0, hsk', hpos, hkept, _⟩ := c.bwd f'.table f'.iindex six3 hl'
      obtain ⟨e1, e2, e3⟩ := sk_fk hsk'
      by_cases hft : f'.table = name
      · have lf : Link db n ix0.columns { f' with iindex := p0 } :=
          ⟨hne, six0, hls0, by rw [sk_columns hsk', g1], by rw [e3, g2], by rw [e1, g3], by rw [e2, g4]⟩
        refine ⟨{ f' with iindex := p0 }, List.mem_filter.mpr ⟨(hm _).mpr lf, ?_⟩, ?_⟩
        · apply (alterDrop_keep w hts lf).mpr
          intro _
          show f'.columns ∉ idxs
          rw [← g1, ← sk_columns hsk']
          exact hkept hft
        · have := c.eHit f'.iindex six3 (by rw [← hft]; exact hl') (by rw [g3]; exact hne)
            { f' with iindex := p0 } hft g1.symm
          rw [g3, g4] at this
          rw [this]
      · rw [hpos hft] at hls0
        have lf : Link db n ix0.columns f' :=
          ⟨hne, six0, hls0, by rw [sk_columns hsk', g1], by rw [e3, g2], by rw [e1, g3], by rw [e2, g4]⟩
        refine ⟨f', List.mem_filter.mpr ⟨(hm _).mpr lf, ?_⟩, c.eOther _ _ _ hft⟩
        exact (alterDrop_keep w hts lf).mpr (fun e => absurd e hft)

end Gsu.SchemaAlg

namespace Gsu.SchemaAlg

theorem alterDrop_corr {db : Db} {name : String} {cols : List String} {idxs : List (List String)} {db' : Db}
    (h : alterDrop db name cols idxs = some db') :
    ∃ ts E, getT db name = some ts ∧ DropCorr db db' name idxs E ∧ names db' = names db := by
  have hv := alterDrop_valid h
  obtain ⟨ts, ts1, hts, h1, hdb'⟩ := alterDrop_inv h
  obtain ⟨n1, i1⟩ := dropColumns_inv _ _ _ h1
  have hname : ts1.name = name := n1.trans (getT_name (t := ts) hts)
  simp only at i1
  -- the metadata after dropFkeys
  have hlk2 : ∀ n j, look (dropFkeys db (putT db ts1) name false idxs) n j =
      (if n = name then ts1.indexes[j]? else look db n j).map (fun ix => filtBack (fun f =>
        !(idxs.any (fun cc => dropQ db name false cc n ix.columns f))) ix) := by
    intro n j
    rw [look_dropFkeys, look_putT, hname]
  have hnames2 : names (dropFkeys db (putT db ts1) name false idxs) = names db := by
    rw [names_dropFkeys, names_putT_old]
    rw [hname, hts]; rfl
  have hsome : ∃ sch, getT (dropFkeys db (putT db ts1) name false idxs) name = some sch := by
    have : (getT (dropFkeys db (putT db ts1) name false idxs) name).isSome = true := by
      rw [getT_isSome_iff, hnames2, ← getT_isSome_iff, hts]; rfl
    cases hx : getT (dropFkeys db (putT db ts1) name false idxs) name with
    | none => rw [hx] at this; cases this
    | some sch => exact ⟨sch, rfl⟩
  obtain ⟨sch, hsch⟩ := hsome
  rw [hsch, Option.getD_some, updateFkeysIIndex_eq, getT_name hsch] at hdb'
  obtain ⟨hrel, hnames3⟩ := lookRel_updFold name sch.indexes.zipIdx
    (dropFkeys db (putT db ts1) name false idxs)
  rw [← hdb'] at hrel hnames3
  have hu2 : LUniq (dropFkeys db (putT db ts1) name false idxs) :=
    (luniq_of_idxUniq (idxUniq_of_validate hv)).skel hrel.skel.symm
  have hndL : (sch.indexes.zipIdx.map (fun p => p.1.columns)).Nodup := by
    rw [zipIdx_map_cols]
    apply nodup_cols_of_uniq
    intro i j a b ha hb hab
    exact hu2 name i j a b (by rw [look_of_getT hsch]; exact ha) (by rw [look_of_getT hsch]; exact hb) hab
  refine ⟨ts, eAll name sch.indexes.zipIdx, hts, ⟨?_, ?_, ?_, ?_, ?_⟩, hnames3.trans hnames2⟩
  · intro s p six3 hl3
    obtain ⟨six2, hl2, hsk2, hb2⟩ := hrel.bwd hl3
    rw [hlk2] at hl2
    obtain ⟨six1, hl1, rfl⟩ := Option.map_eq_some_iff.mp hl2
    by_cases hs : s = name
    · rw [if_pos hs, i1] at hl1
      have hmem := List.mem_of_getElem? hl1
      obtain ⟨hm1, hm2⟩ := List.mem_filter.mp hmem
      obtain ⟨p0, hp0⟩ := List.mem_iff_getElem?.mp hm1
      refine ⟨p0, six1, by rw [hs, look_of_getT hts]; exact hp0, hsk2, fun e => absurd hs e,
        fun _ => by simpa using hm2, hb2⟩
    · rw [if_neg hs] at hl1
      exact ⟨p, six1, hl1, hsk2, fun _ => rfl, fun e => absurd e hs, hb2⟩
  · intro s p0 six0 hl0 hkeep
    by_cases hs : s = name
    · rw [hs, look_of_getT hts] at hl0
      have hmem : six0 ∈ ts1.indexes := by
        rw [i1]
        exact List.mem_filter.mpr ⟨List.mem_of_getElem? hl0, by simpa using hkeep hs⟩
      obtain ⟨p, hp⟩ := List.mem_iff_getElem?.mp hmem
      have hl2 : look (dropFkeys db (putT db ts1) name false idxs) s p = some (filtBack (fun f =>
          !(idxs.any (fun cc => dropQ db name false cc s six0.columns f))) six0) := by
        rw [hlk2, if_pos hs, hp]; rfl
      obtain ⟨six3, hl3, hsk3, _⟩ := hrel.fwd hl2
      exact ⟨p, six3, hl3, hsk3, fun e => absurd hs e⟩
    · have hl2 : look (dropFkeys db (putT db ts1) name false idxs) s p0 = some (filtBack (fun f =>
          !(idxs.any (fun cc => dropQ db name false cc s six0.columns f))) six0) := by
        rw [hlk2, if_neg hs, hl0]; rfl
      obtain ⟨six3, hl3, hsk3, _⟩ := hrel.fwd hl2
      exact ⟨p0, six3, hl3, hsk3, fun _ => rfl⟩
  · intro n cs f hft
    exact eAll_id name n cs _ f (fun _ _ hc => hft hc.1)
  · intro n cs f
    exact eAll_fields name n cs _ f
  · intro p six3 hl3 hfk f hft hfc
    obtain ⟨six2, hl2, hsk2, _⟩ := hrel.bwd hl3
    rw [look_of_getT hsch] at hl2
    obtain ⟨e1, e2, _⟩ := sk_fk hsk2
    exact eAll_hit name _ _ _ f six2 p hndL (List.mem_zipIdx_iff_getElem?.mpr hl2)
      (by rw [e1]; exact hfk) e1.symm e2.symm hft (by rw [hfc, sk_columns hsk2])

theorem alterDrop_lwf {db : Db} {name : String} {cols : List String} {idxs : List (List String)} {db' : Db}
    (w : LWF db) (h : alterDrop db name cols idxs = some db') : LWF db' := by
  have hv := alterDrop_valid h
  obtain ⟨ts, E, hts, c, hnames⟩ := alterDrop_corr h
  refine ⟨hv, ?_, ?_, linv_of_dropCorr w hts c⟩
  · unfold NamesNodup; rw [hnames]; exact w.names
  · intro n j ix hl hfk
    obtain ⟨p0, ix0, hl0, hsk, _⟩ := c.bwd n j ix hl
    obtain ⟨e1, e2, _⟩ := sk_fk hsk
    rw [← e2]
    exact w.fkc n p0 ix0 hl0 (by rw [e1]; exact hfk)

/-- the step function keeps `WF2` when every accepted result has `LWF` -/
theorem keep_wf2 {db : Db} {r : Option Db} (h : WF2 db)
    (hr : ∀ db', r = some db' → LWF db') : WF2 (keep db r) := by
  cases r with
  | none => exact h
  | some db' => exact wf2_of_lwf (hr db' rfl)

end Gsu.SchemaAlg
