/-
C30, constant propagation (compile/ast/propfold.go `fold.ident`): replacing the reads of locals by
the constants they are known to hold preserves the run-time meaning of an expression.
Core Lean only.
-/
import Gsu.Model.LangFold
namespace Gsu.LangFold

/- replace every read of a variable that `σ` knows by its constant (what `fold.ident` does for a
final local whose `x = constant` has been seen) -/
mutual
def subst (σ : Nat → Option Val) : Expr → Expr
  | .const v => .const v
  | .var i => match σ i with
    | some c => .const c
    | none => .var i
  | .unary op e => .unary op (subst σ e)
  | .binary op l r => .binary op (subst σ l) (subst σ r)
  | .trinary c t f => .trinary (subst σ c) (subst σ t) (subst σ f)
  | .inn e es => .inn (subst σ e) (substL σ es)
  | .nary op es => .nary op (substL σ es)
def substL (σ : Nat → Option Val) : List Expr → List Expr
  | [] => []
  | e :: rest => subst σ e :: substL σ rest
end

/-- the environment really holds the propagated constants (the single-assignment invariant) -/
def Agrees (σ : Nat → Option Val) (env : List Val) : Prop :=
  ∀ i c, σ i = some c → env[i]? = some c

theorem substL_isEmpty (σ : Nat → Option Val) (es : List Expr) :
    (substL σ es).isEmpty = es.isEmpty := by
  cases es <;> simp [substL]

theorem substL_cons_shape (σ : Nat → Option Val) (es : List Expr) :
    (∃ a b, substL σ es = a :: b) ↔ (∃ a b, es = a :: b) := by
  cases es <;> simp [substL]

def isDivElt : Expr → Bool
  | .unary .div _ => true
  | _ => false

theorem isDivElt_subst (σ : Nat → Option Val) (e : Expr) : isDivElt (subst σ e) = isDivElt e := by
  cases e with
  | var i => simp only [subst]; cases σ i <;> rfl
  | unary op e' => cases op <;> rfl
  | _ => rfl

theorem evalMulDiv_nondiv (A : Arith) (env : List Val) (acc : Val) (dv : Option Val) (e : Expr)
    (rest : List Expr) (h : isDivElt e = false) :
    evalMulDiv A env acc dv (e :: rest) =
      match eval A env e with
      | some v => match nbin A .mul acc v with
        | some r => evalMulDiv A env r dv rest
        | none => none
      | none => none := by
  cases e with
  | unary op e' => cases op <;> first | rfl | simp [isDivElt] at h
  | _ => rfl

theorem evalMulDiv_div (A : Arith) (env : List Val) (acc : Val) (dv : Option Val) (e : Expr)
    (rest : List Expr) :
    evalMulDiv A env acc dv (.unary .div e :: rest) =
      match eval A env e with
      | some v => match dv with
        | none => evalMulDiv A env acc (some v) rest
        | some d => match nbin A .mul d v with
          | some r => evalMulDiv A env acc (some r) rest
          | none => none
      | none => none := rfl

variable {A : Arith} {σ : Nat → Option Val} {env : List Val}

mutual
theorem subst_sound (h : Agrees σ env) : (e : Expr) → eval A env (subst σ e) = eval A env e
  | .const v => by simp [subst]
  | .var i => by
    simp only [subst]
    cases hs : σ i with
    | none => rfl
    | some c => simp [eval, h i c hs]
  | .unary op e => by simp only [subst, eval, subst_sound h e]
  | .binary op l r => by simp only [subst, eval, subst_sound h l, subst_sound h r]
  | .trinary c t f => by
    simp only [subst, eval, subst_sound h c, subst_sound h t, subst_sound h f]
  | .inn e es => by
    simp only [subst, eval, substL_isEmpty, subst_sound h e]
    cases eval A env e with
    | none => rfl
    | some v => simp only [substIn_sound h es v]
  | .nary op es => by
    cases op
    case and => simp only [subst, eval, substAnd_sound h es]
    case or => simp only [subst, eval, substOr_sound h es]
    case cat => simp only [subst, eval, substCat_sound h es]
    case mul =>
      cases es with
      | nil => simp [subst, substL, eval]
      | cons e rest =>
        simp only [subst, substL, eval, subst_sound h e]
        cases eval A env e with
        | none => rfl
        | some v => simp only [substMulDiv_sound h rest v none]
    all_goals
      cases es with
      | nil => simp [subst, substL, eval]
      | cons e rest =>
        simp only [subst, substL, eval, subst_sound h e]
        cases eval A env e with
        | none => rfl
        | some v => simp only [substFold_sound h _ rest v]

theorem substIn_sound (h : Agrees σ env) : (es : List Expr) → (v : Val) →
    evalIn A env v (substL σ es) = evalIn A env v es
  | [], v => by simp [substL]
  | e :: rest, v => by
    simp only [substL, evalIn, subst_sound h e]
    cases eval A env e with
    | none => rfl
    | some w => simp only [substIn_sound h rest v]

theorem substAnd_sound (h : Agrees σ env) : (es : List Expr) →
    evalAnd A env (substL σ es) = evalAnd A env es
  | [] => by simp [substL]
  | e :: rest => by
    simp only [substL, evalAnd, subst_sound h e, substAnd_sound h rest]
    cases rest <;> simp [substL]

theorem substOr_sound (h : Agrees σ env) : (es : List Expr) →
    evalOr A env (substL σ es) = evalOr A env es
  | [] => by simp [substL]
  | e :: rest => by
    simp only [substL, evalOr, subst_sound h e, substOr_sound h rest]
    cases rest <;> simp [substL]

theorem substCat_sound (h : Agrees σ env) : (es : List Expr) →
    evalCat A env (substL σ es) = evalCat A env es
  | [] => by simp [substL]
  | e :: rest => by
    simp only [substL, evalCat, subst_sound h e, substCat_sound h rest]

theorem substMulDiv_sound (h : Agrees σ env) : (es : List Expr) → (acc : Val) → (dv : Option Val) →
    evalMulDiv A env acc dv (substL σ es) = evalMulDiv A env acc dv es
  | [], acc, dv => by simp [substL]
  | e :: rest, acc, dv => by
    simp only [substL]
    by_cases hd : isDivElt e = true
    · cases e with
      | unary op e' =>
        cases op <;> simp [isDivElt] at hd
        simp only [subst, evalMulDiv_div, subst_sound h e']
        cases eval A env e' with
        | none => rfl
        | some v =>
          cases dv with
          | none => exact substMulDiv_sound h rest acc (some v)
          | some d =>
            dsimp only
            cases nbin A .mul d v with
            | none => rfl
            | some r => exact substMulDiv_sound h rest acc (some r)
      | _ => simp [isDivElt] at hd
    · have hd' : isDivElt e = false := by simpa using hd
      rw [evalMulDiv_nondiv A env acc dv _ _ (by rw [isDivElt_subst]; exact hd'),
        evalMulDiv_nondiv A env acc dv _ _ hd', subst_sound h e]
      cases eval A env e with
      | none => rfl
      | some v =>
        dsimp only
        cases nbin A .mul acc v with
        | none => rfl
        | some r => exact substMulDiv_sound h rest r dv

theorem substFold_sound (h : Agrees σ env) (op : NOp) : (es : List Expr) → (acc : Val) →
    evalFold A env op acc (substL σ es) = evalFold A env op acc es
  | [], acc => by simp [substL]
  | e :: rest, acc => by
    simp only [substL, evalFold, subst_sound h e]
    cases eval A env e with
    | none => rfl
    | some v =>
      dsimp only
      cases hn : nbin A op acc v with
      | none => rfl
      | some r => exact substFold_sound h op rest r
end

end Gsu.LangFold
