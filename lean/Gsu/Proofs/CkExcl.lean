import Gsu.Model.Ck
/-!
Exclusive table access in the checker mirror: a running exclusive (end = MaxInt = `none`)
survives every operation except its own `EndExclusive`, and blocks every write to the table.
Core-only; independent of the invariant.
-/
namespace Gsu.Ck

/-- the table is exclusive: `ck.exclusive[table] == math.MaxInt` -/
def ExclOn (s : State) (tbl : Nat) : Prop := s.excl.find? (·.1 == tbl) = some (tbl, none)

theorem find_filter_keep {l : List (Nat × Option Nat)} {tbl : Nat} (q : Nat × Option Nat → Bool)
    (hq : q (tbl, none) = true) (h : l.find? (·.1 == tbl) = some (tbl, none)) :
    (l.filter q).find? (·.1 == tbl) = some (tbl, none) := by
  induction l with
  | nil => simp at h
  | cons a r ih =>
    by_cases c : (a.1 == tbl) = true
    · simp only [List.find?_cons, c] at h
      simp only [Option.some.injEq] at h
      subst h
      simp [List.filter_cons, hq]
    · simp only [List.find?_cons, c] at h
      simp only [List.filter_cons]
      split
      · simp only [List.find?_cons, c]; exact ih h
      · exact ih h

theorem find_map_keep {l : List (Nat × Option Nat)} {tbl t2 : Nat} (v : Option Nat) (c : t2 ≠ tbl)
    (h : l.find? (·.1 == tbl) = some (tbl, none)) :
    (l.map fun x => if x.1 == t2 then (t2, v) else x).find? (·.1 == tbl) = some (tbl, none) := by
  induction l with
  | nil => simp at h
  | cons a r ih =>
    rw [List.map_cons, List.find?_cons]
    rw [List.find?_cons] at h
    by_cases ca : (a.1 == tbl) = true
    · rw [ca] at h; simp only [Option.some.injEq] at h; subst h
      have : ((tbl == t2) = false) := by simp; omega
      simp [this]
    · have ca' : (a.1 == tbl) = false := by simpa using ca
      rw [ca'] at h
      have : ((if a.1 == t2 then (t2, v) else a).1 == tbl) = false := by
        split
        · simp; omega
        · exact ca'
      rw [this]; exact ih h

theorem find_filter_append (l : List (Nat × Option Nat)) (tbl : Nat) :
    (l.filter (fun (x : Nat × Option Nat) => x.1 != tbl) ++ [(tbl, none)]).find? (·.1 == tbl) = some (tbl, none) := by
  have : (l.filter (fun (x : Nat × Option Nat) => x.1 != tbl)).find? (·.1 == tbl) = none := by
    rw [List.find?_eq_none]
    intro x hx
    simp only [List.mem_filter] at hx
    simpa using hx.2
  rw [List.find?_append, this]; simp

theorem exclOn_cleanEnded {s : State} {tbl : Nat} (h : ExclOn s tbl) : ExclOn (cleanEnded s) tbl := by
  unfold ExclOn cleanEnded
  exact find_filter_keep _ (by simp [endedBefore]) h

theorem exclOn_abort {s : State} {tbl : Nat} (h : ExclOn s tbl) (tn : Nat) : ExclOn (abort s tn).1 tbl := by
  unfold abort
  split
  · exact h
  · dsimp only
    split
    · exact exclOn_cleanEnded (s := { s with trans := _, deadRc := _, oldest := none }) h
    · exact h

theorem exclOn_modify {s : State} {tbl : Nat} (h : ExclOn s tbl) (tn : Nat) (g : Tran → Tran) :
    ExclOn (s.modify tn g) tbl := h

theorem exclOn_abort1of {s : State} {tbl : Nat} (h : ExclOn s tbl) (T B : Tran) (c : Bool) :
    ExclOn (abort1of s T B c).1 tbl := by
  unfold abort1of
  split
  · exact h
  · split
    · exact h
    · split
      · exact exclOn_abort h _
      · exact exclOn_abort h _

theorem exclOn_visit (hit : Tran → Tran → Bool) (pick : List Nat) (tn tbl : Nat) :
    ∀ (ids : List Nat) (s : State), ExclOn s tbl → ExclOn (visit hit pick tn s ids).1 tbl
  | [], _, h => h
  | b :: rest, s, h => by
    simp only [visit]
    split
    · split
      · split
        · exact exclOn_abort1of h _ _ _
        · exact exclOn_visit hit pick tn tbl rest _ (exclOn_abort1of h _ _ _)
      · exact exclOn_visit hit pick tn tbl rest _ h
    · exact exclOn_visit hit pick tn tbl rest _ h

theorem exclOn_abortAll (tbl : Nat) : ∀ (l : List Nat) (s : State), ExclOn s tbl → ExclOn (abortAll s l) tbl
  | [], _, h => h
  | t :: r, s, h => exclOn_abortAll tbl r _ (exclOn_abort h t)

theorem exclOn_read {s : State} {tbl : Nat} (h : ExclOn s tbl) (tn t2 idx : Nat) (f t : Key)
    (o p : List Nat) : ExclOn (read s tn t2 idx f t o p).1 tbl := by
  unfold read
  split
  · exact h
  · dsimp only
    split
    · exact h
    · split
      · exact h
      · have hv := exclOn_visit (readHit t2 idx f t) p tn tbl (o ++ allIds s) s h
        split
        · exact hv
        · unfold saveRead
          split
          · exact hv
          · dsimp only
            split
            · exact exclOn_abort hv tn
            · exact hv

theorem exclOn_writePre {s : State} {tbl : Nat} (h : ExclOn s tbl) (tn t2 : Nat) :
    ExclOn (writePre s tn t2).1 tbl := by
  unfold writePre
  cases hf : s.find tn with
  | none => exact h
  | some T =>
    dsimp only
    by_cases c1 : (!T.hasUpdates && T.rc) = true
    · rw [if_pos c1]; exact exclOn_abort h tn
    · rw [if_neg c1]
      generalize hs1 : (if T.hasUpdates = true then s
        else s.modify tn fun T => { T with hasUpdates := true }) = s1
      have h1 : ExclOn s1 tbl := by subst hs1; split <;> exact h
      by_cases c2 : (!T.active) = true
      · rw [if_pos c2]; exact h1
      · rw [if_neg c2]
        by_cases c3 : exclBlocked s1 t2 T.start = true
        · rw [if_pos c3]; exact exclOn_abort h1 tn
        · rw [if_neg c3]; exact h1

theorem exclOn_writeOp {s : State} {tbl : Nat} (h : ExclOn s tbl) (tn t2 : Nat)
    (chk dels outs : List (Nat × Key)) (o p : List Nat) :
    ExclOn (writeOp s tn t2 chk dels outs o p).1 tbl := by
  unfold writeOp
  have hp := exclOn_writePre h tn t2
  dsimp only
  split
  · exact hp
  · have hv := exclOn_visit (keysHit t2 chk) p tn tbl (o ++ allIds (writePre s tn t2).1) _ hp
    split
    · exact hv
    · exact hv

theorem exclOn_commit {s : State} {tbl : Nat} (h : ExclOn s tbl) (tn : Nat) : ExclOn (commit s tn).1 tbl := by
  unfold commit
  cases hf : s.trans.find? (fun t => t.start == tn && t.active) with
  | none => exact h
  | some T =>
    dsimp only
    repeat' split
    all_goals first
      | exact h
      | (refine exclOn_cleanEnded ?_; exact h)

/-- every operation except `EndExclusive(tbl)` keeps a running exclusive of `tbl` -/
theorem exclOn_step {s : State} {tbl : Nat} (h : ExclOn s tbl) (op : Op) (hne : op ≠ .endExcl tbl) :
    ExclOn (step s op).1 tbl := by
  cases op with
  | start => exact h
  | read tn t2 idx f t o p => exact exclOn_read h tn t2 idx f t o p
  | output tn t2 ks o p => exact exclOn_writeOp h tn t2 _ _ _ o p
  | delete tn t2 ks o p => exact exclOn_writeOp h tn t2 _ _ _ o p
  | update tn t2 ok nk o p => exact exclOn_writeOp h tn t2 _ _ _ o p
  | commit tn => exact exclOn_commit h tn
  | abort tn => exact exclOn_abort h tn
  | tick m => exact exclOn_abortAll tbl _ _ h
  | addExcl t2 =>
    simp only [step, addExcl]
    split
    · exact h
    · rename_i hx
      have ha := exclOn_abortAll tbl
        ((s.trans.filter fun t => t.acts.any fun a => a.table == t2 && a.hasWrites).map (·.start)) s h
      by_cases c : t2 = tbl
      · subst c
        exact absurd h (fun h => hx _ h)
      · unfold ExclOn at ha ⊢
        simp only [List.find?_append]
        rw [find_filter_keep (fun x => x.1 != t2) (by simp; omega) ha]
        rfl
  | endExcl t2 =>
    have c : t2 ≠ tbl := fun e => hne (by rw [e])
    simp only [step, endExcl]
    split
    · apply exclOn_cleanEnded
      exact find_map_keep _ c h
    · exact h
  | readCount tn => exact h

theorem exclOn_run {tbl : Nat} : ∀ (ops : List Op) (s : State), ExclOn s tbl →
    (∀ op ∈ ops, op ≠ .endExcl tbl) → ExclOn (run s ops) tbl
  | [], _, h, _ => h
  | op :: ops, s, h, hn =>
    exclOn_run ops _ (exclOn_step h op (hn op (by simp))) (fun o ho => hn o (by simp [ho]))

theorem addExcl_on {s : State} {tbl : Nat} (h : (addExcl s tbl).2 = true) : ExclOn (addExcl s tbl).1 tbl := by
  unfold addExcl at h ⊢
  split
  · rename_i hx; rw [hx] at h; simp at h
  · exact find_filter_append _ tbl

/-- a write to an exclusive table is refused -/
theorem write_blocked {s : State} {tbl : Nat} (h : ExclOn s tbl) (tn : Nat)
    (chk dels outs : List (Nat × Key)) (o p : List Nat) :
    (writeOp s tn tbl chk dels outs o p).2 = false := by
  unfold writeOp
  have hb : (writePre s tn tbl).2 = false := by
    unfold writePre
    cases hf : s.find tn with
    | none => rfl
    | some T =>
      dsimp only
      by_cases c1 : (!T.hasUpdates && T.rc) = true
      · rw [if_pos c1]
      · rw [if_neg c1]
        generalize hs1 : (if T.hasUpdates = true then s
          else s.modify tn fun T => { T with hasUpdates := true }) = s1
        have h1 : ExclOn s1 tbl := by subst hs1; split <;> exact h
        by_cases c2 : (!T.active) = true
        · rw [if_pos c2]
        · rw [if_neg c2]
          have c3 : exclBlocked s1 tbl T.start = true := by
            unfold exclBlocked
            unfold ExclOn at h1
            rw [h1]
          rw [if_pos c3]
  simp [hb]

end Gsu.Ck
