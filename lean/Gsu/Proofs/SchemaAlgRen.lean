import Gsu.Proofs.SchemaAlg5
/-!
C21, part 6: `alterRenameCol` preserves `LWF` — the renaming functions and the closed form of
`renameIdxs`.
-/
namespace Gsu.SchemaAlg

/-! ### `replaceAll` -/

theorem replaceAll_length : ∀ (f t l : List String), (replaceAll l f t).length = l.length
  | [], _, l => by simp [replaceAll]
  | _ :: _, [], l => by simp [replaceAll]
  | a :: fr, b :: tr, l => by
    simp only [replaceAll]
    rw [replaceAll_length fr tr]
    simp

theorem replaceAll_nil (f t : List String) : replaceAll [] f t = [] := by
  have := replaceAll_length f t []
  exact List.eq_nil_of_length_eq_zero (by simpa using this)

theorem replaceAll_ne_nil {f t l : List String} (h : l ≠ []) : replaceAll l f t ≠ [] := by
  intro hc
  have := replaceAll_length f t l
  rw [hc] at this
  exact h (List.eq_nil_of_length_eq_zero this.symm)

/-! ### extensionality -/

theorem Index.ext' {a b : Index} (h1 : a.mode = b.mode) (h2 : a.columns = b.columns)
    (h3 : a.bestKey = b.bestKey) (h4 : a.fk = b.fk) (h5 : a.fkToHere = b.fkToHere) : a = b := by
  cases a; cases b; simp_all

/-! ### `renameIdxs` in closed form -/

/-- what `renameIdxs` does to one index of the renamed table -/
def ren (tn : String) (from_ to : List String) (ix : Index) : Index :=
  { ix with columns := replaceAll ix.columns from_ to, bestKey := replaceAll ix.bestKey from_ to,
            fk := if !ix.fk.columns.isEmpty && ix.fk.table == tn
              then { ix.fk with columns := replaceAll ix.fk.columns from_ to } else ix.fk }

theorem ren_fk (tn : String) (from_ to : List String) (ix : Index) :
    (ren tn from_ to ix).fk =
      { ix.fk with columns := if ix.fk.table = tn then replaceAll ix.fk.columns from_ to else ix.fk.columns } := by
  simp only [ren]
  cases ix.fk with
  | mk T C I M =>
    by_cases h : T = tn
    · cases C with
      | nil => simp [h, replaceAll_nil]
      | cons a r => simp [h]
    · simp [h]

theorem renameIdxs_inv (tn : String) (from_ to : List String) :
    ∀ (ixs done ixs' : List Index) (aff : List Nat),
    renameIdxs tn from_ to done ixs = some (ixs', aff) →
    ixs' = ixs.map (ren tn from_ to) ∧
    (∀ i, i ∈ aff ↔ ∃ k ix, ixs[k]? = some ix ∧ i = done.length + k ∧
        replaceAll ix.columns from_ to ≠ ix.columns) ∧ aff.Nodup
  | [], done, ixs', aff, h => by
    simp only [renameIdxs, Option.some.injEq, Prod.mk.injEq] at h
    obtain ⟨rfl, rfl⟩ := h
    simp
  | ix :: r, done, ixs', aff, h => by
    simp only [renameIdxs] at h
    split at h
    · cases h
    · split at h
      · cases h
      · rename_i rest aff' hr
        obtain ⟨h1, h2, h3⟩ := renameIdxs_inv tn from_ to r _ rest aff' hr
        simp only [Option.some.injEq, Prod.mk.injEq] at h
        obtain ⟨rfl, rfl⟩ := h
        have hlen : (done ++ [ren tn from_ to ix]).length = done.length + 1 := by simp
        have h2' : ∀ i, i ∈ aff' ↔ ∃ k ix', r[k]? = some ix' ∧ i = done.length + (k + 1) ∧
            replaceAll ix'.columns from_ to ≠ ix'.columns := by
          intro i
          have := h2 i
          simp only [List.length_append, List.length_cons, List.length_nil] at this
          rw [this]
          constructor
          · rintro ⟨k, ix', a, b, c⟩; exact ⟨k, ix', a, by omega, c⟩
          · rintro ⟨k, ix', a, b, c⟩; exact ⟨k, ix', a, by omega, c⟩
        refine ⟨?_, ?_, ?_⟩
        · rw [h1]; rfl
        · intro i
          constructor
          · intro hi
            split at hi
            · rename_i hch
              rcases List.mem_cons.mp hi with e | e
              · exact ⟨0, ix, rfl, by simpa using e, by simpa using hch⟩
              · obtain ⟨k, ix', a, b, c⟩ := (h2' i).mp e
                exact ⟨k + 1, ix', by simpa using a, b, c⟩
            · obtain ⟨k, ix', a, b, c⟩ := (h2' i).mp hi
              exact ⟨k + 1, ix', by simpa using a, b, c⟩
          · rintro ⟨k, ix', a, b, c⟩
            cases k with
            | zero =>
              simp only [List.getElem?_cons_zero, Option.some.injEq] at a
              subst a
              have : (replaceAll ix.columns from_ to != ix.columns) = true := by simpa using c
              rw [if_pos this, b]
              simp
            | succ k =>
              simp only [List.getElem?_cons_succ] at a
              have := (h2' i).mpr ⟨k, ix', a, b, c⟩
              split
              · exact List.mem_cons_of_mem _ this
              · exact this
        · split
          · rw [List.nodup_cons]
            refine ⟨?_, h3⟩
            intro hm
            obtain ⟨k, _, _, b, _⟩ := (h2' _).mp hm
            omega
          · exact h3

/-! ### closed form of a `foldl` of `modT`s -/

theorem look_foldModT (g : Index → Index) (hg : ∀ x, g (g x) = g x) (n : String) (j : Nat) :
    ∀ (l : List Fkey) (d : Db),
    look (l.foldl (fun d f => modT d f.table f.iindex g) d) n j =
      if l.any (fun f => f.table == n && f.iindex == j) then (look d n j).map g else look d n j
  | [], d => by simp
  | f :: r, d => by
    rw [List.foldl_cons, look_foldModT g hg n j r, look_modT, List.any_cons]
    by_cases h1 : n = f.table ∧ j = f.iindex
    · have : (f.table == n && f.iindex == j) = true := by simp [h1.1, h1.2]
      rw [if_pos h1, this, Bool.true_or, if_pos rfl]
      split
      · rw [Option.map_map]; congr 1; funext x; exact hg x
      · rfl
    · have : (f.table == n && f.iindex == j) = false := by
        rw [Bool.eq_false_iff]
        intro hc
        simp only [Bool.and_eq_true, beq_iff_eq] at hc
        exact h1 ⟨hc.1.symm, hc.2.symm⟩
      rw [if_neg h1, this, Bool.false_or]

theorem names_foldModT (g : Index → Index) : ∀ (l : List Fkey) (d : Db),
    names (l.foldl (fun d f => modT d f.table f.iindex g) d) = names d
  | [], d => rfl
  | f :: r, d => by rw [List.foldl_cons, names_foldModT g r, names_modT]

/-! ### `renameFkey` peeled -/

theorem renameFkey_inv {db : Db} {tn : String} {i : Nat} {db' : Db} (h : renameFkey db tn i = some db') :
    ∃ ts db1, getT db tn = some ts ∧
      ((getIdx ts i).fk.table = "" ∧ db1 = db ∨
       (getIdx ts i).fk.table ≠ "" ∧
        db1 = modT db (getIdx ts i).fk.table (getIdx ts i).fk.iindex (fun tix =>
            { tix with fkToHere := tix.fkToHere.map (fun f =>
                if f.table == tn && f.iindex == i then { f with columns := (getIdx ts i).columns } else f) })) ∧
      db' = (getIdx ts i).fkToHere.foldl (fun db f =>
        modT db f.table f.iindex (fun rix => { rix with fk := { rix.fk with columns := (getIdx ts i).columns } })) db1 := by
  unfold renameFkey at h
  split at h
  · cases h
  · rename_i ts hts
    dsimp only at h
    split at h
    · cases h
    · rename_i db1 h1
      simp only [Option.some.injEq] at h
      refine ⟨ts, db1, hts, ?_, h.symm⟩
      split at h1
      · rename_i h0
        simp only [Option.some.injEq] at h1
        exact Or.inl ⟨by simpa using h0, h1.symm⟩
      · rename_i h0
        split at h1
        · cases h1
        · split at h1
          · simp only [Option.some.injEq] at h1
            exact Or.inr ⟨by simpa using h0, h1.symm⟩
          · cases h1

end Gsu.SchemaAlg
