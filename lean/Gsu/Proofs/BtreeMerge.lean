/-
C10 — `MergeAndSave` on the abstract B+-tree (`Model/BtreeMerge.lean`) refines the batch on the
content (`applyBatch`, `Model/Btree.lean`) and keeps the ordering invariant. Core-only.
-/
import Gsu.Model.BtreeMerge
import Gsu.Proofs.BtreeBulk
namespace Gsu.Btree

/-! ### the map-level operations on appended contents -/

theorem upd_none_of_ne : ∀ (b : List KV) (k : Key) (o : Nat), (∀ e ∈ b, e.1 ≠ k) → upd b k o = none := by
  intro b
  induction b with
  | nil => intro k o _; rfl
  | cons x r ih =>
    obtain ⟨k', o'⟩ := x
    intro k o h
    have h1 : ¬ k = k' := fun e => h (k', o') List.mem_cons_self e.symm
    simp only [upd, h1, if_false, ih k o (fun e he => h e (List.mem_cons_of_mem _ he)), Option.map_none]

theorem del_none_of_ne : ∀ (b : List KV) (k : Key), (∀ e ∈ b, e.1 ≠ k) → del b k = none := by
  intro b
  induction b with
  | nil => intro k _; rfl
  | cons x r ih =>
    obtain ⟨k', o'⟩ := x
    intro k h
    have h1 : ¬ k = k' := fun e => h (k', o') List.mem_cons_self e.symm
    simp only [del, h1, if_false, ih k (fun e he => h e (List.mem_cons_of_mem _ he)), Option.map_none]

theorem applyOne_append_left (a b : List KV) (k : Key) (op : Op) (o : Nat)
    (hb : ∀ e ∈ b, k < e.1) :
    applyOne (a ++ b) k op o = (applyOne a k op o).map (· ++ b) := by
  have hne : ∀ e ∈ b, e.1 ≠ k := fun e he h => klt_irrefl k (h ▸ hb e he)
  induction a with
  | nil =>
    cases op with
    | add =>
      cases b with
      | nil => simp [applyOne, ins]
      | cons y r =>
        have := hb y List.mem_cons_self
        simp [applyOne, ins, this]
    | upd => simp [applyOne, upd, upd_none_of_ne b k o hne]
    | del => simp [applyOne, del, del_none_of_ne b k hne]
  | cons x xs ih =>
    obtain ⟨k', o'⟩ := x
    cases op with
    | add =>
      simp only [applyOne, List.cons_append, ins] at ih ⊢
      by_cases h1 : k < k'
      · simp [h1]
      · by_cases h2 : k = k'
        · simp [h2]
        · simp only [h1, h2, if_false, ih, Option.map_map]
          cases ins xs k o <;> simp
    | upd =>
      simp only [applyOne, List.cons_append, upd] at ih ⊢
      by_cases h2 : k = k'
      · simp [h2]
      · simp only [h2, if_false, ih, Option.map_map]
        cases upd xs k o <;> simp
    | del =>
      simp only [applyOne, List.cons_append, del] at ih ⊢
      by_cases h2 : k = k'
      · simp [h2]
      · simp only [h2, if_false, ih, Option.map_map]
        cases del xs k <;> simp

theorem applyOne_append_right (a b : List KV) (k : Key) (op : Op) (o : Nat)
    (ha : ∀ e ∈ a, e.1 < k) :
    applyOne (a ++ b) k op o = (applyOne b k op o).map (a ++ ·) := by
  induction a with
  | nil => simp only [List.nil_append]; cases applyOne b k op o <;> rfl
  | cons x xs ih =>
    obtain ⟨k', o'⟩ := x
    have hx : k' < k := ha (k', o') List.mem_cons_self
    have h1 : ¬ k < k' := fun h => klt_irrefl k (klt_trans h hx)
    have h2 : ¬ k = k' := fun h => klt_irrefl k (h ▸ hx)
    have ih := ih (fun e he => ha e (List.mem_cons_of_mem _ he))
    cases op with
    | add =>
      simp only [applyOne, List.cons_append, ins] at ih ⊢
      simp only [h1, h2, if_false, ih, Option.map_map]
      cases ins b k o <;> simp
    | upd =>
      simp only [applyOne, List.cons_append, upd] at ih ⊢
      simp only [h2, if_false, ih, Option.map_map]
      cases upd b k o <;> simp
    | del =>
      simp only [applyOne, List.cons_append, del] at ih ⊢
      simp only [h2, if_false, ih, Option.map_map]
      cases del b k <;> simp

/-! ### outcomes: content and bounds -/

def Res.toList {α} (tl : α → List KV) : Res α → List KV
  | .one t => tl t
  | .two l _ r => tl l ++ tl r
  | .gone => []

def ResB {α} (P : Option Key → Option Key → α → Prop) (lo hi : Option Key) : Res α → Prop
  | .one t => P lo hi t
  | .two l s r => P lo (some s) l ∧ LoLt lo s ∧ LtHi s hi ∧ P (some s) hi r
  | .gone => True

def RowRes.toList {α} (tl : α → List KV) : RowRes α → List KV
  | .same ks l => rowList tl ks l
  | .grew ks l => rowList tl ks l
  | .shrunk ks l => rowList tl ks l
  | .empty => []

def RowResB {α} (P : Option Key → Option Key → α → Prop) (lo hi : Option Key) : RowRes α → Prop
  | .same ks l => RowB P lo hi ks l
  | .grew ks l => RowB P lo hi ks l
  | .shrunk ks l => RowB P lo hi ks l
  | .empty => True

/-- the key of the entry lies in the range of the subtree -/
def InR (lo hi : Option Key) (k : Key) : Prop := LoLe lo k ∧ LtHi k hi

/-- what one entry does to a subtree: a refinement of `applyOne` on its content that keeps the
bounds; an entry the content refuses is refused -/
def Spec {α} (P : Option Key → Option Key → α → Prop) (tl : α → List KV) (k : Key) (op : Op) (o : Nat)
    (f : α → Option (Res α)) : Prop :=
  ∀ lo hi c, P lo hi c → InR lo hi k →
    (∀ res, f c = some res → applyOne (tl c) k op o = some (res.toList tl) ∧ ResB P lo hi res) ∧
    (applyOne (tl c) k op o = none → f c = none)

def RowSpec {α} (P : Option Key → Option Key → α → Prop) (tl : α → List KV) (k : Key) (op : Op) (o : Nat)
    (f : α → Option (Res α)) : Prop :=
  ∀ (kids : List (α × Key)) (last : α) (lo hi : Option Key), RowB P lo hi kids last → InR lo hi k →
    (∀ res, rowMerge f kids last k = some res →
      applyOne (rowList tl kids last) k op o = some (res.toList tl) ∧ RowResB P lo hi res) ∧
    (applyOne (rowList tl kids last) k op o = none → rowMerge f kids last k = none)

/-- `P` may be widened -/
def Widen {α} (P : Option Key → Option Key → α → Prop) : Prop :=
  (∀ lo s hi c, P (some s) hi c → LoLt lo s → P lo hi c) ∧
  (∀ lo s hi c, P lo (some s) c → LtHi s hi → P lo hi c)

theorem LtHi_of_lt {s s' : Key} {hi : Option Key} (h : s' < s) (h2 : LtHi s hi) : LtHi s' hi :=
  LtHi_trans h h2

theorem RowB_widen_lo {α} {P : Option Key → Option Key → α → Prop} (hW : Widen P)
    {lo : Option Key} {s : Key} {hi : Option Key} {kids : List (α × Key)} {last : α}
    (h : RowB P (some s) hi kids last) (hs : LoLt lo s) : RowB P lo hi kids last := by
  cases kids with
  | nil => exact hW.1 _ _ _ _ h hs
  | cons x r =>
    obtain ⟨c, s'⟩ := x
    obtain ⟨h1, h2, h3, h4⟩ := h
    exact ⟨hW.1 _ _ _ _ h1 hs, LoLt_trans hs h2, h3, h4⟩

theorem RowB_widen_hi {α} {P : Option Key → Option Key → α → Prop} (hW : Widen P) :
    ∀ (kids : List (α × Key)) (last : α) (lo : Option Key) (s : Key) (hi : Option Key),
    RowB P lo (some s) kids last → LtHi s hi → RowB P lo hi kids last := by
  intro kids
  induction kids with
  | nil => intro last lo s hi h hs; exact hW.2 _ _ _ _ h hs
  | cons x r ih =>
    obtain ⟨c, s'⟩ := x
    intro last lo s hi h hs
    obtain ⟨h1, h2, h3, h4⟩ := h
    exact ⟨h1, h2, LtHi_trans h3 hs, ih last _ s hi h4 hs⟩

theorem rowMerge_spec {α} {P : Option Key → Option Key → α → Prop} {tl : α → List KV}
    {k : Key} {op : Op} {o : Nat} {f : α → Option (Res α)}
    (hP : ∀ lo hi c, P lo hi c → Range lo hi (tl c)) (hW : Widen P) (hf : Spec P tl k op o f) :
    RowSpec P tl k op o f := by
  intro kids
  induction kids with
  | nil =>
    intro last lo hi hb hk
    obtain ⟨f1, f2⟩ := hf lo hi last hb hk
    simp only [rowMerge, rowList_nil]
    constructor
    · intro res hres
      cases hfl : f last with
      | none => simp [hfl] at hres
      | some r =>
        obtain ⟨a, b⟩ := f1 r hfl
        simp only [hfl, Option.map_some, Option.some.injEq] at hres
        subst hres
        cases r with
        | one c => exact ⟨by simpa [RowRes.toList, Res.toList, rowList_nil] using a, b⟩
        | two l s r =>
          refine ⟨by simpa [RowRes.toList, Res.toList, rowList_cons, rowList_nil] using a, ?_⟩
          exact b
        | gone => exact ⟨by simpa [RowRes.toList, Res.toList] using a, trivial⟩
    · intro h; simp [f2 h]
  | cons x r ih =>
    obtain ⟨c, s⟩ := x
    intro last lo hi hb hk
    obtain ⟨h1, h2, h3, h4⟩ := hb
    have hrest := RowB_range hP r last _ _ h4
    have hc := hP _ _ _ h1
    rw [rowList_cons]
    simp only [rowMerge]
    by_cases hks : k < s
    · simp only [hks, if_true]
      have hbk : ∀ e ∈ rowList tl r last, k < e.1 :=
        fun e he => klt_of_lt_of_le hks (hrest e he).1
      rw [applyOne_append_left _ _ _ _ _ hbk]
      obtain ⟨f1, f2⟩ := hf lo (some s) c h1 ⟨hk.1, hks⟩
      constructor
      · intro res hres
        cases hfc : f c with
        | none => simp [hfc] at hres
        | some rc =>
          obtain ⟨a, b⟩ := f1 rc hfc
          simp only [hfc, Option.map_some, Option.some.injEq] at hres
          subst hres
          rw [a]
          cases rc with
          | one c' =>
            exact ⟨by simp [RowRes.toList, Res.toList, rowList_cons], b, h2, h3, h4⟩
          | two l s' r' =>
            obtain ⟨b1, b2, b3, b4⟩ := b
            refine ⟨by simp [RowRes.toList, Res.toList, rowList_cons], ?_⟩
            exact ⟨b1, b2, LtHi_trans b3 h3, b4, b3, h3, h4⟩
          | gone =>
            exact ⟨by simp [RowRes.toList, Res.toList], RowB_widen_lo hW h4 h2⟩
      · intro h
        cases hap : applyOne (tl c) k op o with
        | none => simp [f2 hap]
        | some v => simp [hap] at h
    · simp only [hks, if_false]
      have hsk : s ≤ k := knot_lt.mp hks
      have hak : ∀ e ∈ tl c, e.1 < k := fun e he => klt_of_lt_of_le (hc e he).2 hsk
      rw [applyOne_append_right _ _ _ _ _ hak]
      obtain ⟨r1, r2⟩ := ih last (some s) hi h4 ⟨hsk, hk.2⟩
      constructor
      · intro res hres
        cases hrm : rowMerge f r last k with
        | none => simp [hrm] at hres
        | some rr =>
          obtain ⟨a, b⟩ := r1 rr hrm
          simp only [hrm, Option.map_some, Option.some.injEq] at hres
          subst hres
          rw [a]
          cases rr with
          | same ks l => exact ⟨by simp [RowRes.toList, rowList_cons], h1, h2, h3, b⟩
          | grew ks l => exact ⟨by simp [RowRes.toList, rowList_cons], h1, h2, h3, b⟩
          | shrunk ks l => exact ⟨by simp [RowRes.toList, rowList_cons], h1, h2, h3, b⟩
          | empty =>
            exact ⟨by simp [RowRes.toList, rowList_nil], hW.2 _ _ _ _ h1 h3⟩
      · intro h
        cases hap : applyOne (rowList tl r last) k op o with
        | none => simp [r2 hap]
        | some v => simp [hap] at h

end Gsu.Btree
