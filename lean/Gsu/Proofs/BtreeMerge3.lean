/-
C10 — `MergeAndSave` on the abstract tree: tree levels, root, batch. Core-only.
-/
import Gsu.Proofs.BtreeMerge2
namespace Gsu.Btree

theorem LeafB_widen : Widen LeafB :=
  ⟨fun _ _ _ _ h hs => ⟨h.1, Range_widen_lo h.2.1 hs, h.2.2⟩,
   fun _ _ _ _ h hs => ⟨h.1, Range_widen_hi h.2.1 hs, h.2.2⟩⟩

theorem Bounded_widen : ∀ h : Nat, Widen (BT.Bounded h) := by
  intro h
  induction h with
  | zero => exact LeafB_widen
  | succ h ih =>
    exact ⟨fun _ _ _ _ hb hs => RowB_widen_lo ih hb hs,
           fun lo s hi c hb hs => RowB_widen_hi ih c.1 c.2 lo s hi hb hs⟩

/-- the invariant of a node given the invariant of a child -/
def NodeP {α} (P : Option Key → Option Key → α → Prop) (lo hi : Option Key)
    (n : List (α × Key) × α) : Prop := RowB P lo hi n.1 n.2

theorem nodeSplit_spec (split : Nat) {α} {P : Option Key → Option Key → α → Prop}
    (tl : α → List KV) (ks : List (α × Key)) (l : α) (lo hi : Option Key)
    (hb : RowB P lo hi ks l) :
    (nodeSplit split ks l).toList (nodeTl tl) = rowList tl ks l ∧
      ResB (NodeP P) lo hi (nodeSplit split ks l) := by
  unfold nodeSplit
  split
  · cases hd : ks.drop (ks.length / 2) with
    | nil => exact ⟨rfl, hb⟩
    | cons x rest =>
      obtain ⟨c, s⟩ := x
      have hks : ks = ks.take (ks.length / 2) ++ (c, s) :: rest := by
        rw [← hd]; exact (List.take_append_drop _ _).symm
      simp only
      constructor
      · simp only [Res.toList, nodeTl]
        conv => rhs; rw [hks]
        rw [rowList_append_cons]
      · rw [hks] at hb
        exact RowB_split _ _ _ _ _ _ _ hb
  · exact ⟨rfl, hb⟩

theorem nodeFinish_spec (split : Nat) {α} {P : Option Key → Option Key → α → Prop}
    (tl : α → List KV) (r : RowRes α) (lo hi : Option Key) (hb : RowResB P lo hi r) :
    (nodeFinish split r).toList (nodeTl tl) = r.toList tl ∧
      ResB (NodeP P) lo hi (nodeFinish split r) := by
  cases r with
  | same ks l => exact ⟨rfl, hb⟩
  | shrunk ks l => exact ⟨rfl, hb⟩
  | empty => exact ⟨rfl, trivial⟩
  | grew ks l => exact nodeSplit_spec split tl ks l lo hi hb

/-- one batch entry on a subtree refines `applyOne` on its content and keeps the ordering -/
theorem BT_merge_spec (split : Nat) (k : Key) (op : Op) (o : Nat) : ∀ h : Nat,
    Spec (BT.Bounded h) (BT.toList h) k op o (BT.merge split k op o h) := by
  intro h
  induction h with
  | zero => exact leaf_merge_spec split k op o
  | succ h ih =>
    intro lo hi t hb hk
    have hrow := rowMerge_spec (tl := BT.toList h) (fun lo hi c => BT_Bounded_range h lo hi c)
      (Bounded_widen h) ih t.1 t.2 lo hi hb hk
    obtain ⟨r1, r2⟩ := hrow
    rw [BT_toList_succ]
    constructor
    · intro res hres
      simp only [BT.merge] at hres
      cases hrm : rowMerge (BT.merge split k op o h) t.1 t.2 k with
      | none => simp [hrm] at hres
      | some rr =>
        simp only [hrm, Option.map_some, Option.some.injEq] at hres
        subst hres
        obtain ⟨a, b⟩ := r1 rr hrm
        obtain ⟨c, d⟩ := nodeFinish_spec split (BT.toList h) rr lo hi b
        rw [a, BT_toList_succ_fn, c]
        exact ⟨rfl, d⟩
    · intro hn
      simp only [BT.merge, r2 hn, Option.map_none]

/-! ### the root -/

def BTree.Bounded (t : BTree) : Prop := BT.Bounded t.h none none t.root

theorem emptyTree_bounded : emptyTree.Bounded := by
  show LeafB none none ({ pre := 0, es := [] } : Leaf)
  refine ⟨by simp [Sorted], ?_, by simp [Leaf.PreOK]⟩
  intro e he; simp at he

theorem popRoots_spec : ∀ (h : Nat) (t : BT h), BT.Bounded h none none t →
    (popRoots h t).Bounded ∧ (popRoots h t).toList = BT.toList h t := by
  intro h
  induction h with
  | zero => intro t hb; exact ⟨hb, rfl⟩
  | succ h ih =>
    intro t hb
    obtain ⟨ks, l⟩ := t
    cases ks with
    | nil =>
      have := ih l hb
      simpa [popRoots, BT_toList_succ, rowList_nil] using this
    | cons x r => exact ⟨hb, rfl⟩

theorem wrapRoot_spec {h : Nat} (res : Res (BT h)) (hb : ResB (BT.Bounded h) none none res) :
    (wrapRoot res).Bounded ∧ (wrapRoot res).toList = res.toList (BT.toList h) := by
  cases res with
  | one t => exact ⟨hb, rfl⟩
  | two l s r =>
    refine ⟨hb, ?_⟩
    simp [wrapRoot, BTree.toList, BT_toList_succ, rowList_cons, rowList_nil, Res.toList]
  | gone => exact ⟨emptyTree_bounded, rfl⟩

/-- one batch entry on the tree -/
theorem mergeOne_spec (split : Nat) (t : BTree) (hb : t.Bounded) (k : Key) (op : Op) (o : Nat) :
    (∀ t', t.mergeOne split k op o = some t' →
      applyOne t.toList k op o = some t'.toList ∧ t'.Bounded) ∧
    (applyOne t.toList k op o = none → t.mergeOne split k op o = none) := by
  obtain ⟨h, root⟩ := t
  have hk : InR none none k := ⟨trivial, trivial⟩
  cases h with
  | zero =>
    obtain ⟨s1, s2⟩ := BT_merge_spec split k op o 0 none none root hb hk
    constructor
    · intro t' ht'
      simp only [BTree.mergeOne] at ht'
      cases hm : BT.merge split k op o 0 root with
      | none => simp [hm] at ht'
      | some res =>
        simp only [hm, Option.map_some, Option.some.injEq] at ht'
        subst ht'
        obtain ⟨a, b⟩ := s1 res hm
        obtain ⟨c, d⟩ := wrapRoot_spec res b
        exact ⟨by rw [d]; exact a, c⟩
    · intro hn
      simp only [BTree.mergeOne, s2 hn, Option.map_none]
  | succ h =>
    have hrow := rowMerge_spec (tl := BT.toList h) (fun lo hi c => BT_Bounded_range h lo hi c)
      (Bounded_widen h) (BT_merge_spec split k op o h) root.1 root.2 none none hb hk
    obtain ⟨r1, r2⟩ := hrow
    constructor
    · intro t' ht'
      simp only [BTree.mergeOne] at ht'
      cases hrm : rowMerge (BT.merge split k op o h) root.1 root.2 k with
      | none => simp [hrm] at ht'
      | some rr =>
        simp only [hrm, Option.map_some, Option.some.injEq] at ht'
        obtain ⟨a, b⟩ := r1 rr hrm
        simp only [BTree.toList, BT_toList_succ]
        rw [a]
        cases rr with
        | empty =>
          simp only at ht'; subst ht'
          exact ⟨rfl, emptyTree_bounded⟩
        | shrunk ks l =>
          simp only at ht'; subst ht'
          obtain ⟨c, d⟩ := popRoots_spec (h + 1) (ks, l) b
          exact ⟨by rw [← BTree.toList, d]; rfl, c⟩
        | same ks l =>
          simp only at ht'; subst ht'
          exact ⟨rfl, b⟩
        | grew ks l =>
          simp only at ht'; subst ht'
          obtain ⟨c, d⟩ := nodeSplit_spec split (BT.toList h) ks l none none b
          obtain ⟨e, f⟩ := wrapRoot_spec (h := h + 1) (nodeSplit split ks l) d
          refine ⟨?_, e⟩
          show some (rowList (BT.toList h) ks l) = some (wrapRoot (h := h + 1) (nodeSplit split ks l)).toList
          rw [f, BT_toList_succ_fn, c]
    · intro hn
      simp only [BTree.toList, BT_toList_succ] at hn
      simp only [BTree.mergeOne, r2 hn, Option.map_none]

/-- tree_sem: `MergeAndSave` on the tree refines the batch on the content; the ordering
invariant is kept; a batch the content refuses (a Go assert fails) is refused -/
theorem mergeBatch_spec (split : Nat) : ∀ (b : List (Key × Op × Nat)) (t : BTree), t.Bounded →
    (∀ t', t.mergeBatch split b = some t' →
      applyBatch t.toList b = some t'.toList ∧ t'.Bounded) ∧
    (applyBatch t.toList b = none → t.mergeBatch split b = none) := by
  intro b
  induction b with
  | nil =>
    intro t hb
    constructor
    · intro t' h
      simp only [BTree.mergeBatch, Option.some.injEq] at h; subst h
      exact ⟨rfl, hb⟩
    · intro h; simp [applyBatch] at h
  | cons e b ih =>
    obtain ⟨k, op, o⟩ := e
    intro t hb
    obtain ⟨m1, m2⟩ := mergeOne_spec split t hb k op o
    constructor
    · intro t' h
      simp only [BTree.mergeBatch] at h
      cases hm : t.mergeOne split k op o with
      | none => simp [hm] at h
      | some t1 =>
        simp only [hm] at h
        obtain ⟨a, c⟩ := m1 t1 hm
        obtain ⟨i1, _⟩ := ih t1 c
        obtain ⟨d, e⟩ := i1 t' h
        simp only [applyBatch, a]
        exact ⟨d, e⟩
    · intro h
      simp only [BTree.mergeBatch]
      cases hm : t.mergeOne split k op o with
      | none => rfl
      | some t1 =>
        simp only
        obtain ⟨a, c⟩ := m1 t1 hm
        simp only [applyBatch, a] at h
        exact (ih t1 c).2 h

end Gsu.Btree
