/-
C38, Split completeness for separators of any non-zero length: no piece produced by the
`splitGo` loop contains the separator as a contiguous substring (`List.IsInfix`).

Invariant of the loop: at every position inside the current (unfinished) piece the rest of the
input does not start with the separator (that is exactly what the `else` branch of the loop has
checked before it moved a byte into `cur`).
-/
import Gsu.Proofs.Str
namespace Gsu.Str
open Gsu.Proto Gsu.Ascii

/-- `hasPrefix` is the prefix relation -/
theorem hasPrefix_iff (s p : Bytes) : hasPrefix s p = true ↔ p <+: s := by
  induction p generalizing s with
  | nil => simp [hasPrefix]
  | cons b p ih =>
    cases s with
    | nil => simp [hasPrefix]
    | cons a s =>
      simp only [hasPrefix, Bool.and_eq_true, beq_iff_eq, ih, List.cons_prefix_cons]
      constructor
      · rintro ⟨h1, h2⟩; exact ⟨h1.symm, h2⟩
      · rintro ⟨h1, h2⟩; exact ⟨h1.symm, h2⟩

theorem hasPrefix_self_append (p x : Bytes) : hasPrefix (p ++ x) p = true :=
  (hasPrefix_iff _ _).mpr (List.prefix_append p x)

/-- the loop invariant: no position inside the current piece starts an occurrence of `sep`
in the not yet split text `cur.reverse ++ s` -/
def CurFree (sep cur s : Bytes) : Prop :=
  ∀ n, n < cur.length → hasPrefix ((cur.reverse ++ s).drop n) sep = false

theorem curFree_nil (sep s : Bytes) : CurFree sep [] s := by
  intro n hn; simp at hn

/-- the invariant makes the finished piece separator free (whatever follows it) -/
theorem curFree_not_infix (sep cur s : Bytes) (hsep : sep ≠ []) (h : CurFree sep cur s) :
    ¬ sep <:+: cur.reverse := by
  rintro ⟨a, d, e⟩
  have hlen : a.length + sep.length + d.length = cur.length := by
    have := congrArg List.length e
    simp only [List.length_append, List.length_reverse] at this
    omega
  have hpos : 0 < sep.length := List.length_pos_iff.mpr hsep
  have h1 := h a.length (by omega)
  rw [← e] at h1
  have e2 : (a ++ sep ++ d ++ s).drop a.length = sep ++ (d ++ s) := by
    rw [List.append_assoc, List.append_assoc, List.drop_left]
  rw [e2, hasPrefix_self_append] at h1
  exact absurd h1 (by simp)

/-- the `else` branch of the loop keeps the invariant -/
theorem curFree_step (sep cur : Bytes) (c : UInt8) (r : Bytes) (h : CurFree sep cur (c :: r))
    (hc : hasPrefix (c :: r) sep = false) : CurFree sep (c :: cur) r := by
  intro n hn
  simp only [List.length_cons] at hn
  have e : (c :: cur).reverse ++ r = cur.reverse ++ c :: r := by simp
  rw [e]
  by_cases hlt : n < cur.length
  · exact h n hlt
  · have hn' : n = cur.reverse.length := by simp; omega
    rw [hn', List.drop_left]
    exact hc

/-- no piece of the split loop contains the separator, for every non-empty separator -/
theorem splitGo_free (sep : Bytes) (hsep : sep ≠ []) (f : Nat) (cur s : Bytes)
    (hf : f ≥ s.length + 1) (hc : CurFree sep cur s) :
    ∀ p ∈ splitGo sep f cur s, ¬ sep <:+: p := by
  induction f generalizing cur s with
  | zero => omega
  | succ f ih =>
    cases s with
    | nil =>
      intro p hp
      simp only [splitGo, List.mem_singleton] at hp
      subst hp
      exact curFree_not_infix sep cur [] hsep hc
    | cons c r =>
      simp only [List.length_cons] at hf
      simp only [splitGo]
      split
      · intro p hp
        rcases List.mem_cons.mp hp with hp | hp
        · subst hp
          exact curFree_not_infix sep cur (c :: r) hsep hc
        · have hpos : 0 < sep.length := List.length_pos_iff.mpr hsep
          refine ih [] _ ?_ (curFree_nil _ _) p hp
          simp only [List.length_drop, List.length_cons]
          omega
      · rename_i hne
        exact ih (c :: cur) r (by omega) (curFree_step sep cur c r hc (by simpa using hne))

/-- one byte separator: "contains the separator" is membership of the byte -/
theorem singleton_infix_iff (b : UInt8) (p : Bytes) : [b] <:+: p ↔ b ∈ p := by
  constructor
  · rintro ⟨a, d, e⟩
    rw [← e]; simp
  · intro h
    obtain ⟨a, d, e⟩ := List.append_of_mem h
    exact ⟨a, d, by rw [e]; simp⟩

/-! ### Split is the greedy leftmost split, and the only one -/

theorem hasPrefix_false_iff (s p : Bytes) : hasPrefix s p = false ↔ ¬ p <+: s := by
  rw [← hasPrefix_iff]; simp

/-- reference definition of "`ps` are the pieces of the greedy, leftmost, non-overlapping split
of `Join(sep, ps)`": in the joined text no occurrence of `sep` starts inside a piece (an
occurrence may neither lie in the piece nor straddle into the separator that follows it);
`joinLoop sep false rest` is the text that follows the piece. -/
def Greedy (sep : Bytes) : List Bytes → Prop
  | [] => True
  | p :: rest =>
    (∀ n, n < p.length → ¬ sep <+: (p ++ joinLoop sep false rest).drop n) ∧ Greedy sep rest

theorem curFree_iff (sep cur s : Bytes) :
    CurFree sep cur s ↔ ∀ n, n < cur.reverse.length → ¬ sep <+: (cur.reverse ++ s).drop n := by
  simp only [CurFree, hasPrefix_false_iff, List.length_reverse]

/-- the pieces produced by the loop are greedy -/
theorem splitGo_greedy (sep : Bytes) (hsep : sep ≠ []) (f : Nat) (cur s : Bytes)
    (hf : f ≥ s.length + 1) (hc : CurFree sep cur s) : Greedy sep (splitGo sep f cur s) := by
  induction f generalizing cur s with
  | zero => omega
  | succ f ih =>
    cases s with
    | nil =>
      simp only [splitGo, Greedy, joinLoop, and_true]
      exact (curFree_iff sep cur []).mp hc
    | cons c r =>
      simp only [List.length_cons] at hf
      simp only [splitGo]
      split
      · rename_i hp
        have hpos : 0 < sep.length := List.length_pos_iff.mpr hsep
        refine ⟨?_, ih [] _ ?_ (curFree_nil _ _)⟩
        · rw [joinLoop_splitGo]
          have := hasPrefix_append (c :: r) sep hp
          simp only [Bool.false_eq_true, if_false, List.reverse_nil, List.append_nil]
          rw [this]
          exact (curFree_iff sep cur (c :: r)).mp hc
        · simp only [List.length_drop, List.length_cons]
          omega
      · rename_i hne
        exact ih (c :: cur) r (by omega) (curFree_step sep cur c r hc (by simpa using hne))

theorem joinLoop_false_cons (sep q : Bytes) (rest : List Bytes) :
    joinLoop sep false (q :: rest) = sep ++ (q ++ joinLoop sep false rest) := by
  simp [joinLoop]

/-- a greedy list of pieces is what the loop produces from its joined text -/
theorem splitGo_of_greedy (sep : Bytes) (hsep : sep ≠ []) (f : Nat) (cur p : Bytes)
    (rest : List Bytes) (hf : f ≥ (p ++ joinLoop sep false rest).length + 1)
    (hg : Greedy sep ((cur.reverse ++ p) :: rest)) :
    splitGo sep f cur (p ++ joinLoop sep false rest) = (cur.reverse ++ p) :: rest := by
  induction f generalizing cur p rest with
  | zero => omega
  | succ f ih =>
    cases p with
    | nil =>
      cases rest with
      | nil => simp [joinLoop, splitGo]
      | cons q rest' =>
        have hpos : 0 < sep.length := List.length_pos_iff.mpr hsep
        rw [joinLoop_false_cons] at hf ⊢
        simp only [List.nil_append, List.append_nil]
        obtain ⟨c, r, hcr⟩ : ∃ c r, sep ++ (q ++ joinLoop sep false rest') = c :: r := by
          cases sep with
          | nil => exact absurd rfl hsep
          | cons c r => exact ⟨c, _, rfl⟩
        have hp : hasPrefix (c :: r) sep = true := by
          rw [← hcr]; exact hasPrefix_self_append _ _
        have hd : (c :: r).drop sep.length = q ++ joinLoop sep false rest' := by
          rw [← hcr, List.drop_left]
        rw [hcr]
        simp only [splitGo, hp, if_true]
        rw [hd]
        congr 1
        have := ih [] q rest' (by
          simp only [List.nil_append, List.length_append] at hf ⊢
          omega) (by simpa using hg.2)
        simpa using this
    | cons c p' =>
      have hlen : cur.length < (cur.reverse ++ c :: p').length := by simp
      have h1 := hg.1 cur.length hlen
      have e1 : (cur.reverse ++ c :: p' ++ joinLoop sep false rest).drop cur.length =
          c :: (p' ++ joinLoop sep false rest) := by
        have : cur.length = cur.reverse.length := by simp
        rw [List.append_assoc, this, List.drop_left]; rfl
      rw [e1, ← hasPrefix_false_iff] at h1
      simp only [List.cons_append, splitGo, h1, Bool.false_eq_true, if_false]
      have := ih (c :: cur) p' rest (by
        simp only [List.cons_append, List.length_cons] at hf
        omega) (by simpa using hg)
      simpa using this

theorem splitGo_ne_nil (sep : Bytes) (f : Nat) (cur s : Bytes) : splitGo sep f cur s ≠ [] := by
  induction f generalizing cur s with
  | zero => simp [splitGo]
  | succ f ih =>
    cases s with
    | nil => simp [splitGo]
    | cons c r =>
      simp only [splitGo]
      split
      · simp
      · exact ih _ _

/-- characterization of the loop: its result is the unique non-empty greedy list of pieces that
joins back to the text -/
theorem splitGo_eq_iff (sep : Bytes) (hsep : sep ≠ []) (s : Bytes) (ps : List Bytes) :
    splitGo sep (s.length + 1) [] s = ps ↔
      ps ≠ [] ∧ joinLoop sep true ps = s ∧ Greedy sep ps := by
  constructor
  · intro h
    subst h
    refine ⟨?_, ?_, splitGo_greedy sep hsep _ [] s (by omega) (curFree_nil _ _)⟩
    · exact splitGo_ne_nil sep _ [] s
    · rw [joinLoop_splitGo]; simp
  · rintro ⟨hne, hj, hg⟩
    cases ps with
    | nil => exact absurd rfl hne
    | cons p rest =>
      have e : s = p ++ joinLoop sep false rest := by
        rw [← hj]; simp [joinLoop]
      subst e
      have := splitGo_of_greedy sep hsep ((p ++ joinLoop sep false rest).length + 1) [] p rest
        (by omega) (by simpa using hg)
      simpa only [List.reverse_nil, List.nil_append] using this

/-- one byte separator: greedy = no piece contains the byte -/
theorem greedy_byte (b : UInt8) (ps : List Bytes) : Greedy [b] ps ↔ ∀ p ∈ ps, b ∉ p := by
  induction ps with
  | nil => simp [Greedy]
  | cons p rest ih =>
    simp only [Greedy, ih, List.mem_cons, forall_eq_or_imp]
    refine and_congr_left (fun _ => ?_)
    constructor
    · intro h hb
      obtain ⟨a, d, e⟩ := List.append_of_mem hb
      have := h a.length (by rw [e]; simp)
      apply this
      rw [e, List.append_assoc, List.drop_left]
      exact ⟨_, rfl⟩
    · intro hb n hn hpre
      have hx : (p ++ joinLoop [b] false rest).drop n = p.drop n ++ joinLoop [b] false rest := by
        rw [List.drop_append_of_le_length (by omega)]
      rw [hx] at hpre
      obtain ⟨t, ht⟩ := hpre
      have hd : p.drop n = p[n] :: p.drop (n + 1) := List.drop_eq_getElem_cons hn
      rw [hd] at ht
      simp only [List.cons_append, List.nil_append, List.cons.injEq] at ht
      exact hb (ht.1 ▸ List.getElem_mem hn)

end Gsu.Str
