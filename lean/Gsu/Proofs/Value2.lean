/-
C28, part 2: transitivity of `Compare` on the full `Value` type (booleans, numbers, strings,
dates/timestamps, cross-type, nested objects). Core-only.

The mutual `Value`/`VList` types rule out the `induction` tactic; the theorems are proved by
well-founded recursion on `sizeOf` (mutual theorems with `termination_by`).

Shape of the argument: a lexicographic order is transitive only if its component order is
"strongly" transitive (`a ≤ b ≤ c` gives `a ≤ c`, and `a ~ c` forces `a ~ b ~ c`), so the
induction carries `STrans`. For numbers the strong form follows from plain transitivity and
antisymmetry on any class `P` of numbers on which `Num.compare` is transitive.
-/
import Gsu.Proofs.Value
namespace Gsu.Val
open Gsu.Num Gsu.Dnum

/-- strong transitivity of a three-way comparison, on the results `x = cmp a b`, `y = cmp b c`,
`z = cmp a c` -/
def STrans (x y z : Int) : Prop := x ≤ 0 → y ≤ 0 → z ≤ 0 ∧ (z = 0 → x = 0 ∧ y = 0)

theorem cmpNat_strans (a b c : Nat) : STrans (cmpNat a b) (cmpNat b c) (cmpNat a c) := by
  simp only [STrans, cmpNat]
  repeat' split
  all_goals omega

/-- lexicographic combination of strongly transitive comparisons -/
theorem lex_strans {p1 q1 r1 p q r : Int} (h1 : STrans p1 q1 r1) (h2 : STrans p q r) :
    STrans (if p1 ≠ 0 then p1 else p) (if q1 ≠ 0 then q1 else q) (if r1 ≠ 0 then r1 else r) := by
  simp only [STrans] at *
  intro a b
  revert a b
  repeat' split
  all_goals omega

theorem cmpTriple_lex (a b : Nat × Nat × Nat) :
    cmpTriple a b = if cmpNat a.1 b.1 ≠ 0 then cmpNat a.1 b.1
      else if cmpNat a.2.1 b.2.1 ≠ 0 then cmpNat a.2.1 b.2.1 else cmpNat a.2.2 b.2.2 := by
  simp only [cmpTriple, cmpNat]
  repeat' split
  all_goals omega

theorem cmpTriple_strans (a b c : Nat × Nat × Nat) :
    STrans (cmpTriple a b) (cmpTriple b c) (cmpTriple a c) := by
  rw [cmpTriple_lex a b, cmpTriple_lex b c, cmpTriple_lex a c]
  exact lex_strans (cmpNat_strans _ _ _) (lex_strans (cmpNat_strans _ _ _) (cmpNat_strans _ _ _))

theorem cmpBytes_strans : ∀ a b c : List UInt8,
    STrans (cmpBytes a b) (cmpBytes b c) (cmpBytes a c)
  | [], [], [] => by simp [STrans, cmpBytes]
  | [], [], _ :: _ => by simp [STrans, cmpBytes]
  | [], _ :: _, [] => by simp [STrans, cmpBytes]
  | [], _ :: _, _ :: _ => by simp [STrans, cmpBytes]
  | _ :: _, [], _ => by simp [STrans, cmpBytes]
  | _ :: _, _ :: _, [] => by
    simp only [STrans, cmpBytes]
    intro _ h; revert h
    repeat' split
    all_goals omega
  | a :: x, b :: y, c :: z => by
    have ih := cmpBytes_strans x y z
    simp only [STrans, cmpBytes, UInt8.lt_iff_toNat_lt, gt_iff_lt] at ih ⊢
    generalize cmpBytes x y = p at *
    generalize cmpBytes y z = q at *
    generalize cmpBytes x z = r at *
    intro h1 h2
    revert h1 h2
    repeat' split
    all_goals omega

theorem cmpBool_strans (a b c : Bool) :
    STrans (if a = b then 0 else if a then 1 else -1) (if b = c then 0 else if b then 1 else -1)
      (if a = c then 0 else if a then 1 else -1) := by
  cases a <;> cases b <;> cases c <;> simp [STrans]

/-- a class of numbers on which `Num.compare` is transitive -/
def NumTrans (P : Num → Prop) : Prop :=
  ∀ a b c, P a → P b → P c → Num.compare a b ≤ 0 → Num.compare b c ≤ 0 → Num.compare a c ≤ 0

theorem num_strans {P : Num → Prop} (hP : NumTrans P) (a b c : Num) (ha : P a) (hb : P b) (hc : P c) :
    STrans (Num.compare a b) (Num.compare b c) (Num.compare a c) := by
  intro h1 h2
  refine ⟨hP a b c ha hb hc h1 h2, fun hz => ?_⟩
  have hca : Num.compare c a ≤ 0 := by rw [Num.compare_antisymm]; omega
  have hcb := hP c a b hc ha hb hca h1
  have hba := hP b c a hb hc ha h2 hca
  rw [Num.compare_antisymm] at hcb hba
  omega

/-! ### the classes of numbers -/

/-- ints (smi / SuInt64) only -/
def isInt (a : Num) : Prop := (asInt a).isSome = true
/-- a decimal, or an int of at most 16 digits (one that `FromInt` converts exactly) -/
def small16 (a : Num) : Prop := ∀ n, asInt a = some n → n.natAbs < 10 ^ 16

theorem cmpInt_trans (x y z : Int) (h1 : cmpInt x y ≤ 0) (h2 : cmpInt y z ≤ 0) : cmpInt x z ≤ 0 := by
  revert h1 h2
  simp only [cmpInt]
  repeat' split
  all_goals omega

theorem numTrans_isInt : NumTrans isInt := by
  intro a b c ha hb hc h1 h2
  cases a <;> cases b <;> cases c <;> simp only [isInt, asInt, Option.isSome] at ha hb hc <;>
    first
    | (simp only [Num.compare, asInt] at h1 h2 ⊢; exact cmpInt_trans _ _ _ h1 h2)
    | (exact absurd ha (by decide))
    | (exact absurd hb (by decide))
    | (exact absurd hc (by decide))

theorem numTrans_small16 : NumTrans small16 :=
  fun a b c ha hb hc h1 h2 => Num.compare_trans_small a b c ha hb hc h1 h2

/-! ### all numbers reachable by `Compare` (list members, recursively) are in a class -/

mutual
def ValAll (P : Num → Prop) : Value → Prop
  | .num n => P n
  | .obj _ l _ => ListAll P l
  | _ => True
def ListAll (P : Num → Prop) : VList → Prop
  | .nil => True
  | .cons v r => ValAll P v ∧ ListAll P r
end

theorem order_lt_compare (a b : Value) (h : order a < order b) : compare a b = -1 := by
  rw [compare_of_order a b (by omega)]; simp only [cmpNat, h, if_true]

theorem order_gt_compare (a b : Value) (h : order b < order a) : compare a b = 1 := by
  rw [compare_of_order a b (by omega)]; simp only [cmpNat, gt_iff_lt, h, if_true]
  rw [if_neg (by omega)]

theorem compare_le_order (a b : Value) (h : compare a b ≤ 0) : order a ≤ order b := by
  apply Nat.le_of_not_lt
  intro hlt
  rw [order_gt_compare a b hlt] at h
  omega

/-- one level of the induction: values whose list parts (if all three are objects) compare
strongly transitively -/
theorem compare_strans_step {P : Num → Prop} (hP : NumTrans P) (a b c : Value)
    (pa : ValAll P a) (pb : ValAll P b) (pc : ValAll P c)
    (ih : ∀ r1 l1 n1 r2 l2 n2 r3 l3 n3, a = .obj r1 l1 n1 → b = .obj r2 l2 n2 → c = .obj r3 l3 n3 →
      STrans (compareList l1 l2) (compareList l2 l3) (compareList l1 l3)) :
    STrans (compare a b) (compare b c) (compare a c) := by
  intro h1 h2
  have o1 := compare_le_order a b h1
  have o2 := compare_le_order b c h2
  by_cases hlt : order a < order c
  · rw [order_lt_compare a c hlt]; omega
  · have hab : order a = order b := by omega
    have hbc : order b = order c := by omega
    clear o1 o2 hlt
    revert h1 h2
    show STrans (compare a b) (compare b c) (compare a c)
    cases a with
    | bool x =>
      cases b <;> simp only [order] at hab <;> try omega
      cases c <;> simp only [order] at hbc <;> try omega
      simp only [compare]; exact cmpBool_strans _ _ _
    | num x =>
      cases b <;> simp only [order] at hab <;> try omega
      cases c <;> simp only [order] at hbc <;> try omega
      simp only [compare]; simp only [ValAll] at pa pb pc
      exact num_strans hP _ _ _ pa pb pc
    | str k x =>
      cases b <;> simp only [order] at hab <;> try omega
      cases c <;> simp only [order] at hbc <;> try omega
      simp only [compare]; exact cmpBytes_strans _ _ _
    | date d t =>
      cases b <;> simp only [order] at hab <;> try omega
      all_goals (cases c <;> simp only [order] at hbc <;> try omega)
      all_goals (simp only [compare]; exact cmpTriple_strans _ _ _)
    | ts d t e =>
      cases b <;> simp only [order] at hab <;> try omega
      all_goals (cases c <;> simp only [order] at hbc <;> try omega)
      all_goals (simp only [compare]; exact cmpTriple_strans _ _ _)
    | obj r l n =>
      cases b <;> simp only [order] at hab <;> try omega
      cases c <;> simp only [order] at hbc <;> try omega
      simp only [compare]
      exact ih _ _ _ _ _ _ _ _ _ rfl rfl rfl

mutual
theorem compare_strans {P : Num → Prop} (hP : NumTrans P) : ∀ a b c : Value,
    ValAll P a → ValAll P b → ValAll P c → STrans (compare a b) (compare b c) (compare a c)
  | a, b, c, pa, pb, pc =>
    compare_strans_step hP a b c pa pb pc (fun r1 l1 n1 r2 l2 n2 r3 l3 n3 ha hb hc =>
      compareList_strans hP l1 l2 l3 (by subst ha; simpa only [ValAll] using pa)
        (by subst hb; simpa only [ValAll] using pb) (by subst hc; simpa only [ValAll] using pc))
  termination_by a => sizeOf a
  decreasing_by subst ha; simp_wf; omega
theorem compareList_strans {P : Num → Prop} (hP : NumTrans P) : ∀ x y z : VList,
    ListAll P x → ListAll P y → ListAll P z →
    STrans (compareList x y) (compareList y z) (compareList x z)
  | .nil, .nil, .nil, _, _, _ => by simp [STrans, compareList]
  | .nil, .nil, .cons _ _, _, _, _ => by simp [STrans, compareList]
  | .nil, .cons _ _, .nil, _, _, _ => by simp [STrans, compareList]
  | .nil, .cons _ _, .cons _ _, _, _, _ => by simp [STrans, compareList]
  | .cons _ _, .nil, _, _, _, _ => by simp [STrans, compareList]
  | .cons _ _, .cons _ _, .nil, _, _, _ => by
    simp only [STrans, compareList]
    intro _ h; revert h
    repeat' split
    all_goals omega
  | .cons a x, .cons b y, .cons c z, px, py, pz => by
    simp only [ListAll] at px py pz
    have ih1 := compare_strans hP a b c px.1 py.1 pz.1
    have ih2 := compareList_strans hP x y z px.2 py.2 pz.2
    simp only [STrans, compareList] at ih1 ih2 ⊢
    generalize compare a b = p1 at *
    generalize compare b c = q1 at *
    generalize compare a c = r1 at *
    generalize compareList x y = p at *
    generalize compareList y z = q at *
    generalize compareList x z = r at *
    intro h1 h2
    revert h1 h2
    repeat' split
    all_goals omega
  termination_by x => sizeOf x
  decreasing_by all_goals (simp_wf; omega)
end

/-- `Compare` is transitive on every class of values whose numbers compare transitively -/
theorem compare_trans_on {P : Num → Prop} (hP : NumTrans P) (a b c : Value)
    (pa : ValAll P a) (pb : ValAll P b) (pc : ValAll P c)
    (h1 : compare a b ≤ 0) (h2 : compare b c ≤ 0) : compare a c ≤ 0 :=
  (compare_strans hP a b c pa pb pc h1 h2).1

/-- strict version: `a < b ≤ c → a < c` and `a ≤ b < c → a < c` -/
theorem compare_trans_strict_on {P : Num → Prop} (hP : NumTrans P) (a b c : Value)
    (pa : ValAll P a) (pb : ValAll P b) (pc : ValAll P c)
    (h1 : compare a b ≤ 0) (h2 : compare b c ≤ 0) (h : compare a b < 0 ∨ compare b c < 0) :
    compare a c < 0 := by
  have := compare_strans hP a b c pa pb pc h1 h2
  omega

/-- the documented exception KF-C28-1 as a hypothesis: no int of more than 16 digits meets a
decimal, i.e. the numbers in the three values are all ints, or are all decimals / ints of at most
16 digits -/
def NoBigIntMeetsDec (a b c : Value) : Prop :=
  (ValAll isInt a ∧ ValAll isInt b ∧ ValAll isInt c) ∨
  (ValAll small16 a ∧ ValAll small16 b ∧ ValAll small16 c)

theorem compare_trans (a b c : Value) (h : NoBigIntMeetsDec a b c)
    (h1 : compare a b ≤ 0) (h2 : compare b c ≤ 0) : compare a c ≤ 0 := by
  rcases h with ⟨pa, pb, pc⟩ | ⟨pa, pb, pc⟩
  · exact compare_trans_on numTrans_isInt a b c pa pb pc h1 h2
  · exact compare_trans_on numTrans_small16 a b c pa pb pc h1 h2

theorem compare_trans_strict (a b c : Value) (h : NoBigIntMeetsDec a b c)
    (h1 : compare a b ≤ 0) (h2 : compare b c ≤ 0) (hs : compare a b < 0 ∨ compare b c < 0) :
    compare a c < 0 := by
  rcases h with ⟨pa, pb, pc⟩ | ⟨pa, pb, pc⟩
  · exact compare_trans_strict_on numTrans_isInt a b c pa pb pc h1 h2 hs
  · exact compare_trans_strict_on numTrans_small16 a b c pa pb pc h1 h2 hs

end Gsu.Val
