/-
C10 — `MergeAndSave` on the abstract tree keeps the COUNT invariants: no empty node below the
root, at most `splitCount` keys per leaf and offsets per tree node, a root tree node has at
least two children. (The byte-size limit is NOT kept by the code: KF-C10-2, KF-C10-4.) Core-only.
-/
import Gsu.Proofs.BtreeMerge3
import Gsu.Proofs.BtreeBulk2
namespace Gsu.Btree

def LeafC (split : Nat) (l : Leaf) : Prop := 1 ≤ l.es.length ∧ l.es.length ≤ split

def BT.Counts (split : Nat) : (h : Nat) → BT h → Prop
  | 0, l => LeafC split l
  | h + 1, t => t.1.length + 1 ≤ split ∧ (∀ p ∈ t.1, BT.Counts split h p.1) ∧ BT.Counts split h t.2

def BT.RootCounts (split : Nat) : (h : Nat) → BT h → Prop
  | 0, l => l.es.length ≤ split
  | h + 1, t => 1 ≤ t.1.length ∧ BT.Counts split (h + 1) t

def BTree.Counts (split : Nat) (t : BTree) : Prop := BT.RootCounts split t.h t.root

def ResC {α} (Q : α → Prop) : Res α → Prop
  | .one t => Q t
  | .two l _ r => Q l ∧ Q r
  | .gone => True

/-- all children satisfy `Q`, and how the number of separators changed (`n` before) -/
def RowResC {α} (Q : α → Prop) (n : Nat) : RowRes α → Prop
  | .same ks l => ks.length = n ∧ RowAll Q ks l
  | .grew ks l => ks.length = n + 1 ∧ RowAll Q ks l
  | .shrunk ks l => ks.length + 1 = n ∧ RowAll Q ks l
  | .empty => n = 0

theorem ins_length : ∀ (m : List KV) (k : Key) (o : Nat) (m' : List KV),
    ins m k o = some m' → m'.length = m.length + 1 := by
  intro m
  induction m with
  | nil => intro k o m' h; simp only [ins, Option.some.injEq] at h; subst h; rfl
  | cons x r ih =>
    obtain ⟨k', o'⟩ := x
    intro k o m' h
    simp only [ins] at h
    split at h
    · simp only [Option.some.injEq] at h; subst h; rfl
    · split at h
      · cases h
      · cases hr : ins r k o with
        | none => simp [hr] at h
        | some r' =>
          simp only [hr, Option.map_some, Option.some.injEq] at h; subst h
          simp [ih k o r' hr]

theorem modify_length {l l' : Leaf} {k : Key} {op : Op} {o : Nat} (h : l.modify k op o = some l') :
    l'.es.length ≤ l.es.length + 1 := by
  have hme := modify_es l k op o
  rw [h] at hme
  simp only [Option.map_some] at hme
  cases op with
  | add =>
    simp only [applyOne] at hme
    have := ins_length _ _ _ _ hme.symm; omega
  | upd =>
    simp only [applyOne] at hme
    have := upd_length _ _ _ _ hme.symm; omega
  | del =>
    simp only [applyOne] at hme
    have := del_length _ _ _ hme.symm; omega

theorem leaf_merge_counts {split : Nat} (h1 : 1 ≤ split) {l : Leaf} {k : Key} {op : Op} {o : Nat}
    (hn : l.es.length ≤ split) {res : Res Leaf} (h : Leaf.merge split l k op o = some res) :
    ResC (LeafC split) res := by
  simp only [Leaf.merge] at h
  cases hm : l.modify k op o with
  | none => simp [hm] at h
  | some l' =>
    simp only [hm] at h
    have hlen := modify_length hm
    split at h
    · simp only [Option.some.injEq] at h; subst h; trivial
    · next hemp =>
      have hpos : 1 ≤ l'.es.length := by
        cases hes : l'.es with
        | nil => simp [hes] at hemp
        | cons _ _ => simp
      split at h
      · -- split
        unfold Leaf.split at h
        simp only at h
        cases hL : (l'.es.take (l'.es.length / 2)).getLast? with
        | none => simp [hL] at h
        | some ep =>
          cases hR : (l'.es.drop (l'.es.length / 2)).head? with
          | none => simp [hL, hR] at h
          | some en =>
            simp only [hL, hR, Option.some.injEq] at h
            subst h
            have h2 : 1 ≤ (l'.es.take (l'.es.length / 2)).length := by
              cases ht : l'.es.take (l'.es.length / 2) with
              | nil => simp [ht] at hL
              | cons _ _ => simp
            have h3 : 1 ≤ (l'.es.drop (l'.es.length / 2)).length := by
              cases hd : l'.es.drop (l'.es.length / 2) with
              | nil => simp [hd] at hR
              | cons _ _ => simp
            simp only [List.length_take, List.length_drop] at h2 h3
            refine ⟨⟨?_, ?_⟩, ⟨?_, ?_⟩⟩ <;> simp only [List.length_take, List.length_drop] <;> omega
      · next hss =>
        simp only [Option.some.injEq] at h; subst h
        simp only [Leaf.shouldSplit, Bool.or_eq_true, decide_eq_true_eq, not_or, Nat.not_lt] at hss
        exact ⟨hpos, hss.1⟩

theorem rowMerge_counts {α} {Q : α → Prop} {f : α → Option (Res α)}
    (hf : ∀ c res, Q c → f c = some res → ResC Q res) (k : Key) :
    ∀ (kids : List (α × Key)) (last : α) (rr : RowRes α), RowAll Q kids last →
      rowMerge f kids last k = some rr → RowResC Q kids.length rr := by
  intro kids
  induction kids with
  | nil =>
    intro last rr hall h
    simp only [rowMerge] at h
    cases hfl : f last with
    | none => simp [hfl] at h
    | some r =>
      simp only [hfl, Option.map_some, Option.some.injEq] at h; subst h
      have := hf last r hall.2 hfl
      cases r with
      | one c => exact ⟨rfl, by simp, this⟩
      | two l s r => exact ⟨rfl, by simpa using this.1, this.2⟩
      | gone => rfl
  | cons x r ih =>
    obtain ⟨c, s⟩ := x
    intro last rr hall h
    have hc : Q c := hall.1 (c, s) List.mem_cons_self
    have hr : RowAll Q r last := ⟨fun p hp => hall.1 p (List.mem_cons_of_mem _ hp), hall.2⟩
    simp only [rowMerge] at h
    split at h
    · cases hfc : f c with
      | none => simp [hfc] at h
      | some rc =>
        simp only [hfc, Option.map_some, Option.some.injEq] at h; subst h
        have := hf c rc hc hfc
        cases rc with
        | one c' =>
          refine ⟨rfl, ?_, hr.2⟩
          intro p hp
          rcases List.mem_cons.mp hp with rfl | hp'
          · exact this
          · exact hr.1 p hp'
        | two l s' r' =>
          refine ⟨rfl, ?_, hr.2⟩
          intro p hp
          rcases List.mem_cons.mp hp with rfl | hp'
          · exact this.1
          · rcases List.mem_cons.mp hp' with rfl | hp''
            · exact this.2
            · exact hr.1 p hp''
        | gone => exact ⟨rfl, hr⟩
    · cases hrm : rowMerge f r last k with
      | none => simp [hrm] at h
      | some r2 =>
        simp only [hrm, Option.map_some, Option.some.injEq] at h; subst h
        have := ih last r2 hr hrm
        have hcons : ∀ ks : List (α × Key), (∀ p ∈ ks, Q p.1) → ∀ p ∈ (c, s) :: ks, Q p.1 := by
          intro ks hks p hp
          rcases List.mem_cons.mp hp with rfl | hp'
          · exact hc
          · exact hks p hp'
        cases r2 with
        | same ks l => exact ⟨by simp [this.1], hcons ks this.2.1, this.2.2⟩
        | grew ks l => exact ⟨by simp [this.1], hcons ks this.2.1, this.2.2⟩
        | shrunk ks l =>
          have h5 : ks.length + 1 = r.length := this.1
          exact ⟨by simp only [List.length_cons]; omega, hcons ks this.2.1, this.2.2⟩
        | empty =>
          have h0 : r.length = 0 := this
          exact ⟨by simp [h0], by simp, hc⟩

/-- the node invariant given the child invariant -/
def NodeC (split : Nat) {α} (Q : α → Prop) (n : List (α × Key) × α) : Prop :=
  n.1.length + 1 ≤ split ∧ (∀ p ∈ n.1, Q p.1) ∧ Q n.2

theorem nodeSplit_counts {split : Nat} (h1 : 1 ≤ split) {α} {Q : α → Prop} (ks : List (α × Key)) (l : α)
    (hlen : ks.length ≤ split) (hall : RowAll Q ks l) :
    ResC (NodeC split Q) (nodeSplit split ks l) := by
  unfold nodeSplit
  split
  · cases hd : ks.drop (ks.length / 2) with
    | nil =>
      have : ks.length = 0 := by
        have := congrArg List.length hd
        simp only [List.length_drop, List.length_nil] at this; omega
      exact ⟨by show ks.length + 1 ≤ split; omega, hall.1, hall.2⟩
    | cons x rest =>
      obtain ⟨c, s⟩ := x
      have hks : ks = ks.take (ks.length / 2) ++ (c, s) :: rest := by
        rw [← hd]; exact (List.take_append_drop _ _).symm
      have hl : rest.length + 1 = ks.length - ks.length / 2 := by
        have := congrArg List.length hd
        simp only [List.length_drop, List.length_cons] at this; omega
      have hmem : ∀ p, p ∈ ks.take (ks.length / 2) ∨ p = (c, s) ∨ p ∈ rest → p ∈ ks := by
        intro p hp
        rw [hks]
        simp only [List.mem_append, List.mem_cons]
        exact hp
      refine ⟨⟨?_, fun p hp => hall.1 p (hmem p (Or.inl hp)), hall.1 (c, s) (hmem _ (Or.inr (Or.inl rfl)))⟩,
        ⟨?_, fun p hp => hall.1 p (hmem p (Or.inr (Or.inr hp))), hall.2⟩⟩
      · simp only [List.length_take]; omega
      · simp only; omega
  · next hc =>
    exact ⟨by show ks.length + 1 ≤ split; omega, hall.1, hall.2⟩

theorem nodeFinish_counts {split : Nat} (h1 : 1 ≤ split) {α} {Q : α → Prop} (n : Nat)
    (hn : n + 1 ≤ split) (rr : RowRes α) (h : RowResC Q n rr) :
    ResC (NodeC split Q) (nodeFinish split rr) := by
  cases rr with
  | same ks l => exact ⟨by rw [h.1]; exact hn, h.2.1, h.2.2⟩
  | shrunk ks l =>
    have h5 : ks.length + 1 = n := h.1
    exact ⟨by show ks.length + 1 ≤ split; omega, h.2.1, h.2.2⟩
  | empty => trivial
  | grew ks l => exact nodeSplit_counts h1 ks l (by have := h.1; omega) h.2

theorem BT_merge_counts {split : Nat} (h1 : 1 ≤ split) (k : Key) (op : Op) (o : Nat) : ∀ (h : Nat)
    (t : BT h) (res : Res (BT h)), BT.Counts split h t → BT.merge split k op o h t = some res →
    ResC (BT.Counts split h) res := by
  intro h
  induction h with
  | zero => intro t res hc hm; exact leaf_merge_counts h1 hc.2 hm
  | succ h ih =>
    intro t res hc hm
    simp only [BT.merge] at hm
    cases hrm : rowMerge (BT.merge split k op o h) t.1 t.2 k with
    | none => simp [hrm] at hm
    | some rr =>
      simp only [hrm, Option.map_some, Option.some.injEq] at hm; subst hm
      have := rowMerge_counts (Q := BT.Counts split h) (fun c res hq hf => ih c res hq hf) k
        t.1 t.2 rr ⟨hc.2.1, hc.2.2⟩ hrm
      exact nodeFinish_counts h1 t.1.length hc.1 rr this

theorem popRoots_counts {split : Nat} : ∀ (h : Nat) (t : BT h), BT.Counts split h t →
    BT.RootCounts split (popRoots h t).h (popRoots h t).root := by
  intro h
  induction h with
  | zero => intro t hc; exact hc.2
  | succ h ih =>
    intro t hc
    obtain ⟨ks, l⟩ := t
    cases ks with
    | nil => exact ih l hc.2.2
    | cons x r => exact ⟨by show 1 ≤ (x :: r).length; simp, hc⟩

theorem wrapRoot_counts {split : Nat} (h2 : 2 ≤ split) {h : Nat} (res : Res (BT h))
    (hc : ResC (BT.Counts split h) res) (hroot : ∀ t, res = .one t → BT.RootCounts split h t) :
    BT.RootCounts split (wrapRoot res).h (wrapRoot res).root := by
  cases res with
  | one t => exact hroot t rfl
  | two l s r =>
    refine ⟨by show 1 ≤ [(l, s)].length; simp, by show [(l, s)].length + 1 ≤ split; simpa using h2,
      ?_, hc.2⟩
    intro p hp
    have hp' : p ∈ [(l, s)] := hp
    simp only [List.mem_singleton] at hp'; subst hp'; exact hc.1
  | gone => exact Nat.zero_le _

theorem mergeOne_counts {split : Nat} (h2 : 2 ≤ split) (t t' : BTree) (hc : t.Counts split)
    (k : Key) (op : Op) (o : Nat) (hm : t.mergeOne split k op o = some t') : t'.Counts split := by
  obtain ⟨h, root⟩ := t
  cases h with
  | zero =>
    simp only [BTree.mergeOne] at hm
    cases hmm : BT.merge split k op o 0 root with
    | none => simp [hmm] at hm
    | some res =>
      simp only [hmm, Option.map_some, Option.some.injEq] at hm; subst hm
      have := leaf_merge_counts (by omega) hc hmm
      exact wrapRoot_counts h2 res this (fun t ht => by subst ht; exact this.2)
  | succ h =>
    obtain ⟨hr1, hr2⟩ := hc
    simp only [BTree.mergeOne] at hm
    cases hrm : rowMerge (BT.merge split k op o h) root.1 root.2 k with
    | none => simp [hrm] at hm
    | some rr =>
      simp only [hrm, Option.map_some, Option.some.injEq] at hm
      have hrc := rowMerge_counts (Q := BT.Counts split h)
        (fun c res hq hf => BT_merge_counts (by omega) k op o h c res hq hf) k
        root.1 root.2 rr ⟨hr2.2.1, hr2.2.2⟩ hrm
      cases rr with
      | empty => simp only at hm; subst hm; exact Nat.zero_le _
      | shrunk ks l =>
        simp only at hm; subst hm
        have h5 : ks.length + 1 = root.1.length := hrc.1
        have h6 : root.1.length + 1 ≤ split := hr2.1
        exact popRoots_counts (h + 1) (ks, l) ⟨by show ks.length + 1 ≤ split; omega, hrc.2.1, hrc.2.2⟩
      | same ks l =>
        simp only at hm; subst hm
        exact ⟨by show 1 ≤ ks.length; rw [hrc.1]; exact hr1,
          by show ks.length + 1 ≤ split; rw [hrc.1]; exact hr2.1, hrc.2.1, hrc.2.2⟩
      | grew ks l =>
        simp only at hm; subst hm
        have h5 : ks.length = root.1.length + 1 := hrc.1
        have h6 : root.1.length + 1 ≤ split := hr2.1
        have hns := nodeSplit_counts (Q := BT.Counts split h) (by omega : 1 ≤ split) ks l
          (by omega) hrc.2
        apply wrapRoot_counts (h := h + 1) h2 (nodeSplit split ks l) hns
        intro t ht
        rw [ht] at hns
        refine ⟨?_, hns⟩
        -- an unsplit node that grew has at least one separator
        unfold nodeSplit at ht
        split at ht
        · cases hd : ks.drop (ks.length / 2) with
          | nil =>
            have := congrArg List.length hd
            simp only [List.length_drop, List.length_nil] at this
            omega
          | cons x rest => simp [hd] at ht
        · simp only [Res.one.injEq] at ht; subst ht
          show 1 ≤ ks.length
          omega

theorem mergeBatch_counts {split : Nat} (h2 : 2 ≤ split) : ∀ (b : List (Key × Op × Nat))
    (t t' : BTree), t.Counts split → t.mergeBatch split b = some t' → t'.Counts split := by
  intro b
  induction b with
  | nil => intro t t' hc h; simp only [BTree.mergeBatch, Option.some.injEq] at h; subst h; exact hc
  | cons e b ih =>
    obtain ⟨k, op, o⟩ := e
    intro t t' hc h
    simp only [BTree.mergeBatch] at h
    cases hm : t.mergeOne split k op o with
    | none => simp [hm] at h
    | some t1 =>
      simp only [hm] at h
      exact ih t1 t' (mergeOne_counts h2 t t1 hc k op o hm) h

/-- the limits the bulk build establishes include the count invariants -/
theorem Limits_counts {split : Nat} : ∀ (h : Nat) (t : BT h), BT.Limits split h t → BT.Counts split h t := by
  intro h
  induction h with
  | zero => intro t hl; exact ⟨hl.1, hl.2.1⟩
  | succ h ih =>
    intro t hl
    exact ⟨hl.1.1, fun p hp => ih p.1 (hl.2.1 p hp), ih t.2 hl.2.2⟩

theorem RootLimits_counts {split : Nat} (t : BTree) (hl : BT.RootLimits split t.h t.root) :
    t.Counts split := by
  obtain ⟨h, root⟩ := t
  cases h with
  | zero => exact hl.1
  | succ h => exact ⟨hl.1, Limits_counts (h + 1) root hl.2⟩

end Gsu.Btree

namespace Gsu.Btree

/-! ### the content of an ordered tree is strictly sorted -/

theorem RowB_sorted {α} {P : Option Key → Option Key → α → Prop} {tl : α → List KV}
    (hP : ∀ lo hi c, P lo hi c → Range lo hi (tl c)) (hS : ∀ lo hi c, P lo hi c → Sorted (tl c)) :
    ∀ (kids : List (α × Key)) (last : α) (lo hi : Option Key),
      RowB P lo hi kids last → Sorted (rowList tl kids last) := by
  intro kids
  induction kids with
  | nil => intro last lo hi h; simpa [rowList_nil] using hS lo hi last h
  | cons x r ih =>
    obtain ⟨c, s⟩ := x
    intro last lo hi h
    obtain ⟨h1, _, _, h4⟩ := h
    rw [rowList_cons]
    refine Sorted_append.mpr ⟨hS _ _ _ h1, ih last _ _ h4, ?_⟩
    intro a ha b hb
    have ha' := (hP _ _ _ h1 a ha).2
    have hb' := (RowB_range hP r last _ _ h4 b hb).1
    exact klt_of_lt_of_le ha' hb'

theorem BT_Bounded_sorted : ∀ (h : Nat) (lo hi : Option Key) (t : BT h),
    BT.Bounded h lo hi t → Sorted (BT.toList h t) := by
  intro h
  induction h with
  | zero => intro lo hi t ht; exact ht.1
  | succ h ih =>
    intro lo hi t ht
    rw [BT_toList_succ]
    exact RowB_sorted (tl := BT.toList h) (fun lo hi c => BT_Bounded_range h lo hi c)
      (fun lo hi c => ih lo hi c) t.1 t.2 lo hi ht

end Gsu.Btree

namespace Gsu.Btree

/-- any number of accepted batches -/
theorem foldl_merge_spec {split : Nat} (h2 : 2 ≤ split) : ∀ (bs : List (List (Key × Op × Nat)))
    (t t' : BTree), t.Bounded → t.Counts split →
    bs.foldlM (fun t b => BTree.mergeBatch split t b) t = some t' →
    t'.Bounded ∧ t'.Counts split ∧ bs.foldlM applyBatch t.toList = some t'.toList := by
  intro bs
  induction bs with
  | nil =>
    intro t t' hb hc h
    simp only [List.foldlM_nil, Option.pure_def, Option.some.injEq] at h ⊢
    subst h; exact ⟨hb, hc, rfl⟩
  | cons b bs ih =>
    intro t t' hb hc h
    simp only [List.foldlM_cons, Option.bind_eq_bind] at h ⊢
    cases hm : BTree.mergeBatch split t b with
    | none => simp [hm] at h
    | some t1 =>
      simp only [hm, Option.bind_some] at h
      obtain ⟨a, c⟩ := (mergeBatch_spec split b t hb).1 t1 hm
      have d := mergeBatch_counts h2 b t t1 hc hm
      rw [a, Option.bind_some]
      exact ih t1 t' c d h

end Gsu.Btree
