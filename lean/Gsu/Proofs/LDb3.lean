/-
C08, updates that change a referenced key — dynamic part: the invariant of the `runUpd` stack
machine (`UInv`) and its preservation by every step.  Core only.
-/
import Gsu.Proofs.LDb2
set_option linter.unusedVariables false
namespace Gsu.LDb
open Gsu.Proto

/-- the foreign key value `k` has a target: a live row, or the new version of a row whose
change is pending -/
def TgtOk (sch : Schema) (db : Db) (st : List UTask) (fk : Fk) (k : Key) : Prop :=
  hasKey (db fk.table) (colsOf sch fk.table fk.index) k = true ∨
  ∃ o n, UTask.fin fk.table o n ∈ st ∧ proj (colsOf sch fk.table fk.index) n = k

/-- the foreign key invariant while a cascade is running: live rows and the new versions of
the rows being changed have live or pending targets -/
def RelOk (sch : Schema) (db : Db) (st : List UTask) : Prop :=
  (∀ s j fk r, fkOf sch s j = some fk → r ∈ db s →
    emptyKey (proj (colsOf sch s j) r) = false → TgtOk sch db st fk (proj (colsOf sch s j) r)) ∧
  (∀ s o n, UTask.fin s o n ∈ st → ∀ j fk, fkOf sch s j = some fk →
    emptyKey (proj (colsOf sch s j) n) = false → TgtOk sch db st fk (proj (colsOf sch s j) n))

/-- the old version of a row whose change is pending is still there -/
def FinLive (db : Db) (st : List UTask) : Prop := ∀ t o n, UTask.fin t o n ∈ st → o ∈ db t

/-- no row has two pending changes -/
def Distinct : List UTask → Prop
  | [] => True
  | .fin t o _ :: rest => pendingUpd rest t o = false ∧ Distinct rest
  | .casc _ _ _ _ :: rest => Distinct rest
  | .upd _ _ _ _ :: rest => Distinct rest

/-- what a pending change of a referenced key needs: the old key value is referenced only
through foreign keys whose `casc` task is among the tasks `above` -/
def UFinOk (sch : Schema) (db : Db) (above : List UTask) (T : Nat) (o n : Row) : Prop :=
  ∀ ix i f, (ix, i) ∈ enumIdxs sch T → f ∈ fkToHere sch T i → proj ix.cols o ≠ proj ix.cols n →
    emptyKey (proj ix.cols o) = false → refs sch db f (proj ix.cols o) = true →
    ∃ tcols trow, UTask.casc f (proj ix.cols o) tcols trow ∈ above

def USafe (sch : Schema) (db : Db) : List UTask → List UTask → Prop
  | _, [] => True
  | above, .fin t o n :: rest => UFinOk sch db above t o n ∧ USafe sch db above rest
  | above, .casc f k tc tr :: rest => USafe sch db (.casc f k tc tr :: above) rest
  | above, .upd t o n b :: rest => USafe sch db (.upd t o n b :: above) rest

structure UInv (sch : Schema) (db : Db) (st : List UTask) : Prop where
  sok : SOk sch st
  len : LenOk sch db
  live : FinLive db st
  dist : Distinct st
  rel : RelOk sch db st
  safe : USafe sch db [] st

/-! ### `USafe` -/

theorem USafe_mono2 {sch : Schema} {db db' : Db} : ∀ (st a b : List UTask),
    (∀ f key tc tr, UTask.casc f key tc tr ∈ a → UTask.casc f key tc tr ∈ b) →
    (∀ T o n, UTask.fin T o n ∈ st → ∀ ix i f, (ix, i) ∈ enumIdxs sch T → f ∈ fkToHere sch T i →
      proj ix.cols o ≠ proj ix.cols n → emptyKey (proj ix.cols o) = false →
      refs sch db' f (proj ix.cols o) = true → refs sch db f (proj ix.cols o) = true) →
    USafe sch db a st → USafe sch db' b st := by
  intro st
  induction st with
  | nil => intros; trivial
  | cons x rest ih =>
    intro a b hab hrefs h
    have hrefs' : ∀ T o n, UTask.fin T o n ∈ rest → ∀ ix i f, (ix, i) ∈ enumIdxs sch T →
        f ∈ fkToHere sch T i → proj ix.cols o ≠ proj ix.cols n → emptyKey (proj ix.cols o) = false →
        refs sch db' f (proj ix.cols o) = true → refs sch db f (proj ix.cols o) = true :=
      fun T o n hm => hrefs T o n (List.mem_cons_of_mem _ hm)
    cases x with
    | fin t o n =>
      refine ⟨?_, ih a b hab hrefs' h.2⟩
      intro ix i f hix hf hchg hne hr
      obtain ⟨tc, tr, hm⟩ := h.1 ix i f hix hf hchg hne (hrefs t o n List.mem_cons_self ix i f hix hf hchg hne hr)
      exact ⟨tc, tr, hab _ _ _ _ hm⟩
    | casc f0 k0 tc0 tr0 =>
      refine ih _ _ ?_ hrefs' h
      intro f key tc tr hm
      rcases List.mem_cons.mp hm with h1 | h1
      · rw [h1]; exact List.mem_cons_self
      · exact List.mem_cons_of_mem _ (hab _ _ _ _ h1)
    | upd t o n b0 =>
      refine ih _ _ ?_ hrefs' h
      intro f key tc tr hm
      rcases List.mem_cons.mp hm with h1 | h1
      · cases h1
      · exact List.mem_cons_of_mem _ (hab _ _ _ _ h1)

theorem USafe_mono {sch : Schema} {db : Db} (st a b : List UTask)
    (hab : ∀ f key tc tr, UTask.casc f key tc tr ∈ a → UTask.casc f key tc tr ∈ b)
    (h : USafe sch db a st) : USafe sch db b st :=
  USafe_mono2 st a b hab (fun _ _ _ _ _ _ _ _ _ _ _ h => h) h

/-- a finished cascade (no referencing row left) is no longer needed above -/
theorem USafe_drop {sch : Schema} {db : Db} {f0 : FkTo} {k0 : Key} {tc0 : List Nat} {tr0 : Row}
    (hno : refs sch db f0 k0 = false) :
    ∀ (st a : List UTask), USafe sch db (.casc f0 k0 tc0 tr0 :: a) st → USafe sch db a st := by
  intro st
  induction st with
  | nil => intros; trivial
  | cons x rest ih =>
    intro a h
    cases x with
    | fin t o n =>
      refine ⟨?_, ih a h.2⟩
      intro ix i f hix hf hchg hne hr
      obtain ⟨tc, tr, hm⟩ := h.1 ix i f hix hf hchg hne hr
      rcases List.mem_cons.mp hm with h1 | h1
      · injection h1 with h2 h3
        subst h2 h3
        rw [hr] at hno; cases hno
      · exact ⟨tc, tr, h1⟩
    | casc f1 k1 tc1 tr1 =>
      refine ih _ (USafe_mono rest _ _ ?_ h)
      intro f key tc tr hm
      simp only [List.mem_cons] at hm ⊢
      rcases hm with h1 | h1 | h1
      · exact Or.inr (Or.inl h1)
      · exact Or.inl h1
      · exact Or.inr (Or.inr h1)
    | upd t o n b0 =>
      refine ih _ (USafe_mono rest _ _ ?_ h)
      intro f key tc tr hm
      simp only [List.mem_cons] at hm ⊢
      rcases hm with h1 | h1 | h1
      · cases h1
      · exact Or.inl h1
      · exact Or.inr (Or.inr h1)

/-- pushing cascades: they all go into `above` -/
theorem USafe_cascs {sch : Schema} {db : Db} :
    ∀ (cs : List UTask), (∀ c ∈ cs, ∃ f k tc tr, c = UTask.casc f k tc tr) → ∀ (a rest : List UTask),
      USafe sch db (cs.reverse ++ a) rest → USafe sch db a (cs ++ rest) := by
  intro cs
  induction cs with
  | nil => intro _ a rest h; simpa using h
  | cons c cs ih =>
    intro hc a rest h
    obtain ⟨f, k, tc, tr, rfl⟩ := hc c List.mem_cons_self
    show USafe sch db (.casc f k tc tr :: a) (cs ++ rest)
    refine ih (fun c hm => hc c (List.mem_cons_of_mem _ hm)) _ _ ?_
    simpa using h

/-! ### small facts -/

theorem pendingUpd_false {st : List UTask} {t : Nat} {o : Row} (h : pendingUpd st t o = false) :
    ∀ o' n', UTask.fin t o' n' ∈ st → o' ≠ o := by
  intro o' n' hm he
  unfold pendingUpd at h
  rw [List.any_eq_false] at h
  have := h _ hm
  simp [he] at this

theorem Distinct_cascs : ∀ (cs : List UTask), (∀ c ∈ cs, ∃ f k tc tr, c = UTask.casc f k tc tr) →
    ∀ rest, Distinct rest → Distinct (cs ++ rest) := by
  intro cs
  induction cs with
  | nil => intro _ rest h; exact h
  | cons c cs ih =>
    intro hc rest h
    obtain ⟨f, k, tc, tr, rfl⟩ := hc c List.mem_cons_self
    exact ih (fun c hm => hc c (List.mem_cons_of_mem _ hm)) rest h

theorem Distinct_tail {x : UTask} {st : List UTask} (h : Distinct (x :: st)) : Distinct st := by
  cases x with
  | fin t o n => exact h.2
  | casc f k tc tr => exact h
  | upd t o n b => exact h

theorem TgtOk_mono {sch : Schema} {db : Db} {st st' : List UTask} {fk : Fk} {k : Key}
    (hsub : ∀ t o n, UTask.fin t o n ∈ st → UTask.fin t o n ∈ st') (h : TgtOk sch db st fk k) :
    TgtOk sch db st' fk k := by
  rcases h with h | ⟨o, n, hm, hk⟩
  · exact Or.inl h
  · exact Or.inr ⟨o, n, hsub _ _ _ hm, hk⟩

theorem fin_mem_cascs {cs : List UTask} (hc : ∀ c ∈ cs, ∃ f k tc tr, c = UTask.casc f k tc tr)
    {rest : List UTask} {t : Nat} {o n : Row} (h : UTask.fin t o n ∈ cs ++ rest) :
    UTask.fin t o n ∈ rest := by
  rcases List.mem_append.mp h with h1 | h1
  · obtain ⟨f, k, tc, tr, h2⟩ := hc _ h1
    cases h2
  · exact h1

/-! ### steps that do not change the rows -/

theorem step_casc_none {sch : Schema} {db : Db} {f : FkTo} {ok : Key} {tc : List Nat} {tr : Row}
    {rest : List UTask} (h : UInv sch db (.casc f ok tc tr :: rest)) (hno : refs sch db f ok = false) :
    UInv sch db rest := by
  refine ⟨h.sok.2, h.len, fun t o n hm => h.live t o n (List.mem_cons_of_mem _ hm), h.dist, ?_, ?_⟩
  · refine ⟨fun s j fk r hfk hr hne => ?_, fun s o n hm j fk hfk hne => ?_⟩
    · rcases h.rel.1 s j fk r hfk hr hne with h1 | ⟨o, n, hm, hk⟩
      · exact Or.inl h1
      · rcases List.mem_cons.mp hm with h2 | h2
        · cases h2
        · exact Or.inr ⟨o, n, h2, hk⟩
    · rcases h.rel.2 s o n (List.mem_cons_of_mem _ hm) j fk hfk hne with h1 | ⟨o2, n2, hm2, hk⟩
      · exact Or.inl h1
      · rcases List.mem_cons.mp hm2 with h2 | h2
        · cases h2
        · exact Or.inr ⟨o2, n2, h2, hk⟩
  · exact USafe_drop hno rest [] h.safe

theorem step_casc_some {sch : Schema} {db : Db} {f : FkTo} {ok : Key} {tc : List Nat} {tr : Row}
    {rest : List UTask} (h : UInv sch db (.casc f ok tc tr :: rest)) {r0 : Row}
    (hr0 : r0 ∈ db f.table) (hk : proj (colsOf sch f.table f.index) r0 = ok) :
    UInv sch db (.upd f.table r0 (substFk (colsOf sch f.table f.index) tc r0 tr) false ::
      .casc f ok tc tr :: rest) := by
  refine ⟨⟨Or.inr ⟨f, ok, tc, tr, rest, rfl, rfl, hk, rfl, h.len _ _ hr0⟩, h.sok⟩, h.len, ?_, h.dist, ?_, ?_⟩
  · intro t o n hm
    rcases List.mem_cons.mp hm with h1 | h1
    · cases h1
    · exact h.live t o n h1
  · refine ⟨fun s j fk r hfk hr hne => ?_, fun s o n hm j fk hfk hne => ?_⟩
    · exact TgtOk_mono (fun _ _ _ hm => List.mem_cons_of_mem _ hm) (h.rel.1 s j fk r hfk hr hne)
    · rcases List.mem_cons.mp hm with h1 | h1
      · cases h1
      · exact TgtOk_mono (fun _ _ _ hm => List.mem_cons_of_mem _ hm) (h.rel.2 s o n h1 j fk hfk hne)
  · show USafe sch db [.casc f ok tc tr, .upd _ _ _ _] rest
    refine USafe_mono rest _ _ ?_ h.safe
    intro f' k' tc' tr' hm
    rcases List.mem_cons.mp hm with h1 | h1
    · rw [h1]; exact List.mem_cons_self
    · cases h1

theorem step_upd_skip {sch : Schema} {db : Db} {s : Nat} {r r' : Row} {b : Bool}
    {rest : List UTask} (h : UInv sch db (.upd s r r' b :: rest)) : UInv sch db rest := by
  refine ⟨h.sok.2, h.len, fun t o n hm => h.live t o n (List.mem_cons_of_mem _ hm), h.dist, ?_, ?_⟩
  · refine ⟨fun s j fk r hfk hr hne => ?_, fun s o n hm j fk hfk hne => ?_⟩
    · rcases h.rel.1 s j fk r hfk hr hne with h1 | ⟨o, n, hm, hk⟩
      · exact Or.inl h1
      · rcases List.mem_cons.mp hm with h2 | h2
        · cases h2
        · exact Or.inr ⟨o, n, h2, hk⟩
    · rcases h.rel.2 s o n (List.mem_cons_of_mem _ hm) j fk hfk hne with h1 | ⟨o2, n2, hm2, hk⟩
      · exact Or.inl h1
      · rcases List.mem_cons.mp hm2 with h2 | h2
        · cases h2
        · exact Or.inr ⟨o2, n2, h2, hk⟩
  · refine USafe_mono rest _ _ ?_ h.safe
    intro f' k' tc' tr' hm
    rcases List.mem_cons.mp hm with h1 | h1
    · cases h1
    · cases h1

/-! ### the row change -/

theorem mem_replace_db {db : Db} {T t : Nat} {o n x : Row}
    (h : x ∈ applyChange db T (some o) (some n) t) : x ∈ db t ∨ (t = T ∧ x = n) := by
  unfold applyChange at h
  split at h
  · rename_i heq
    rcases mem_replace_sub h with h1 | h1
    · left; rw [heq]; exact h1
    · right; exact ⟨heq, h1⟩
  · left; exact h

theorem mem_db_replace {db : Db} {T t : Nat} {o n x : Row} (h : x ∈ db t) (hne : ¬ (t = T ∧ x = o)) :
    x ∈ applyChange db T (some o) (some n) t := by
  unfold applyChange
  split
  · rename_i heq
    rw [heq] at h
    exact mem_replace_of_ne (fun h2 => hne ⟨heq, h2⟩) h
  · exact h

theorem new_mem_replace {db : Db} {T : Nat} {o n : Row} (h : o ∈ db T) :
    n ∈ applyChange db T (some o) (some n) T := by
  unfold applyChange
  rw [if_pos rfl]
  exact mem_replace_new h

theorem fk_eta (fk : Fk) : fk = ⟨fk.table, fk.index, fk.mode⟩ := by cases fk; rfl

/-- a source (live row, or new version of a pending change) keeps a target when the top `fin`
is executed -/
theorem tgt_step {sch : Schema} (hsch : SchOk sch) {db : Db} {T : Nat} {o n : Row} {rest : List UTask}
    (h : UInv sch db (.fin T o n :: rest)) {s j : Nat} {fk : Fk} {k : Key}
    (hfk : fkOf sch s j = some fk) (hne : emptyKey k = false)
    (hsrc : (∃ x, x ∈ db s ∧ proj (colsOf sch s j) x = k) ∨
      (∃ o2 n2, UTask.fin s o2 n2 ∈ UTask.fin T o n :: rest ∧ proj (colsOf sch s j) n2 = k))
    (ht : TgtOk sch db (.fin T o n :: rest) fk k) :
    TgtOk sch (applyChange db T (some o) (some n)) rest fk k := by
  have holive : o ∈ db T := h.live T o n List.mem_cons_self
  rcases ht with ht | ⟨o3, n3, hm3, hk3⟩
  · rw [hasKey_iff] at ht
    obtain ⟨r2, hr2, hk2⟩ := ht
    by_cases hcase : fk.table = T ∧ r2 = o
    · obtain ⟨hT, rfl⟩ := hcase
      have hne2 : emptyKey (proj (colsOf sch fk.table fk.index) r2) = false := by rw [hk2]; exact hne
      obtain ⟨ix, hix⟩ := idx_of_nonempty hne2
      have hcols := colsOf_eq hix
      rw [hcols] at hk2 hne2
      by_cases hsame : proj ix.cols r2 = proj ix.cols n
      · left
        rw [hasKey_iff]
        refine ⟨n, ?_, ?_⟩
        · rw [hT]; exact new_mem_replace holive
        · rw [hcols, ← hsame, hk2]
      · exfalso
        rw [hT] at hix
        have hfk' : fkOf sch s j = some ⟨T, fk.index, fk.mode⟩ := by rw [hfk, ← hT]
        have hmem : (⟨s, j, fk.mode⟩ : FkTo) ∈ fkToHere sch T fk.index := by
          have := mem_fkToHere hfk; rw [hT] at this; exact this
        have hlive : ∀ x, x ∈ db s → proj (colsOf sch s j) x = k → False := by
          intro x hx hxk
          have hrefs : refs sch db ⟨s, j, fk.mode⟩ (proj ix.cols r2) = true := by
            unfold refs; rw [hasKey_iff]; exact ⟨x, hx, by rw [hk2]; exact hxk⟩
          obtain ⟨_, _, hm⟩ := h.safe.1 ix fk.index _ (mem_enumIdxs.mpr hix) hmem hsame hne2 hrefs
          cases hm
        rcases hsrc with ⟨x, hx, hxk⟩ | ⟨o2, n2, hm2, hk⟩
        · exact hlive x hx hxk
        · by_cases hold : proj (colsOf sch s j) o2 = k
          · exact hlive o2 (h.live s o2 n2 hm2) hold
          · exact no_new_ref hsch h.sok hm2 List.mem_cons_self hfk' hix hsame hne2
              (by rw [hk, hk2]) (by rw [hk2]; exact hold)
    · left
      rw [hasKey_iff]
      exact ⟨r2, mem_db_replace hr2 hcase, hk2⟩
  · rcases List.mem_cons.mp hm3 with h3 | h3
    · injection h3 with e1 e2 e3
      subst e2 e3
      left
      rw [hasKey_iff]
      exact ⟨n3, by rw [e1]; exact new_mem_replace holive, hk3⟩
    · exact Or.inr ⟨o3, n3, h3, hk3⟩

theorem step_fin {sch : Schema} (hsch : SchOk sch) {db : Db} {T : Nat} {o n : Row} {rest : List UTask}
    (h : UInv sch db (.fin T o n :: rest)) :
    UInv sch (applyChange db T (some o) (some n)) rest := by
  have holive : o ∈ db T := h.live T o n List.mem_cons_self
  have hnlen : n.length = ncols sch T := by
    rcases h.sok.1 with ⟨_, hl, _⟩ | hcr
    · exact hl
    · obtain ⟨f, T1, o1, trow, ix1, i1, rest', hrest, hft, hown, hix1, hf, hfkof, hm, hp, hchg1, _, hr', hl⟩ :=
        created_info h.sok.2.2 hcr
      rw [hr', substFk_length, hl]
  refine ⟨h.sok.2.2, ?_, ?_, h.dist.2, ?_, ?_⟩
  · intro t x hx
    rcases mem_replace_db hx with h1 | ⟨rfl, rfl⟩
    · exact h.len t x h1
    · exact hnlen
  · intro t o2 n2 hm
    refine mem_db_replace (h.live t o2 n2 (List.mem_cons_of_mem _ hm)) ?_
    rintro ⟨rfl, rfl⟩
    exact pendingUpd_false h.dist.1 _ _ hm rfl
  · refine ⟨fun s j fk r hfk hr hne => ?_, fun s o2 n2 hm j fk hfk hne => ?_⟩
    · rcases mem_replace_db hr with h1 | ⟨rfl, rfl⟩
      · exact tgt_step hsch h hfk hne (Or.inl ⟨r, h1, rfl⟩) (h.rel.1 s j fk r hfk h1 hne)
      · exact tgt_step hsch h hfk hne (Or.inr ⟨o, r, List.mem_cons_self, rfl⟩)
          (h.rel.2 s o r List.mem_cons_self j fk hfk hne)
    · exact tgt_step hsch h hfk hne (Or.inr ⟨o2, n2, List.mem_cons_of_mem _ hm, rfl⟩)
        (h.rel.2 s o2 n2 (List.mem_cons_of_mem _ hm) j fk hfk hne)
  · refine USafe_mono2 rest [] [] (fun _ _ _ _ h => h) ?_ h.safe.2
    intro TF oF nF hmF ix i f hix hf hchg hne hr
    unfold refs at hr ⊢
    rw [hasKey_iff] at hr ⊢
    obtain ⟨x, hx, hxk⟩ := hr
    rcases mem_replace_db hx with h1 | ⟨hT, rfl⟩
    · exact ⟨x, h1, hxk⟩
    · by_cases hold : proj (colsOf sch f.table f.index) o = proj ix.cols oF
      · exact ⟨o, by rw [hT]; exact holive, hold⟩
      · exfalso
        have hfk := fkOf_of_mem_fkToHere hf
        rw [hT] at hfk hxk hold
        exact no_new_ref hsch h.sok List.mem_cons_self (List.mem_cons_of_mem _ hmF) hfk
          (mem_enumIdxs.mp hix) hchg hne hxk hold

/-! ### accepting a row change -/

theorem cascUpd_mem {sch : Schema} {s : Nat} {r r' : Row} {c : UTask} (hc : c ∈ cascUpd sch s r r') :
    ∃ ix i f, (ix, i) ∈ enumIdxs sch s ∧ f ∈ fkToHere sch s i ∧ proj ix.cols r ≠ proj ix.cols r' ∧
      emptyKey (proj ix.cols r) = false ∧ cascadesUpdates f.mode = true ∧
      c = UTask.casc f (proj ix.cols r) ix.cols r' := by
  unfold cascUpd at hc
  rw [List.mem_flatMap] at hc
  obtain ⟨⟨ix, i⟩, hix, hc⟩ := hc
  simp only at hc
  split at hc
  · cases hc
  · rename_i hcond
    rw [List.mem_filterMap] at hc
    obtain ⟨f, hf, hc⟩ := hc
    split at hc
    · rename_i hm
      cases hc
      simp only [Bool.or_eq_true, beq_iff_eq, not_or] at hcond
      exact ⟨ix, i, f, hix, hf, hcond.1, by simpa using hcond.2, hm, rfl⟩
    · cases hc

theorem mem_cascUpd {sch : Schema} {s : Nat} {r r' : Row} {ix : Index} {i : Nat} {f : FkTo}
    (hix : (ix, i) ∈ enumIdxs sch s) (hf : f ∈ fkToHere sch s i)
    (hchg : proj ix.cols r ≠ proj ix.cols r') (hne : emptyKey (proj ix.cols r) = false)
    (hm : cascadesUpdates f.mode = true) :
    UTask.casc f (proj ix.cols r) ix.cols r' ∈ cascUpd sch s r r' := by
  unfold cascUpd
  rw [List.mem_flatMap]
  refine ⟨(ix, i), hix, ?_⟩
  have : (proj ix.cols r == proj ix.cols r' || emptyKey (proj ix.cols r)) = false := by
    simp [hchg, hne]
  simp only [this, Bool.false_eq_true, if_false]
  rw [List.mem_filterMap]
  exact ⟨f, hf, by simp [hm]⟩

theorem owner_cascs : ∀ (cs : List UTask), (∀ c ∈ cs, ∃ f k tc tr, c = UTask.casc f k tc tr) →
    ∀ (x : UTask) (rest : List UTask), owner (cs ++ x :: rest) = owner (x :: rest) := by
  intro cs
  induction cs with
  | nil => intros; rfl
  | cons c cs ih =>
    intro hc x rest
    obtain ⟨f, k, tc, tr, rfl⟩ := hc c List.mem_cons_self
    exact ih (fun c hm => hc c (List.mem_cons_of_mem _ hm)) x rest

theorem SOk_cascs {sch : Schema} {s : Nat} {r r' : Row} {rest : List UTask} :
    ∀ (cs : List UTask), (∀ c ∈ cs, ∃ f k tc tr, c = UTask.casc f k tc tr ∧
      CascOk sch f k tc tr (some (s, r, r'))) →
    SOk sch (.fin s r r' :: rest) → SOk sch (cs ++ .fin s r r' :: rest) := by
  intro cs
  induction cs with
  | nil => intro _ h; exact h
  | cons c cs ih =>
    intro hc h
    obtain ⟨f, k, tc, tr, rfl, hok⟩ := hc c List.mem_cons_self
    have hc' := fun c hm => hc c (List.mem_cons_of_mem _ hm)
    refine ⟨?_, ih hc' h⟩
    show CascOk sch f k tc tr (owner (cs ++ UTask.fin s r r' :: rest))
    rw [owner_cascs cs (fun c hm => by obtain ⟨f, k, tc, tr, h1, _⟩ := hc' c hm; exact ⟨f, k, tc, tr, h1⟩)]
    exact hok

/-- the frame of an accepted row change -/
theorem SOk_accept {sch : Schema} (hsch : SchOk sch) {s : Nat} {r r' : Row} {b : Bool} {rest : List UTask}
    (h : SOk sch (.upd s r r' b :: rest)) : SOk sch (.fin s r r' :: rest) := by
  obtain ⟨hfr, hs⟩ := h
  refine ⟨?_, ?_, hs⟩
  · rcases hfr with ⟨h1, _, h2, h3⟩ | h1
    · exact Or.inl ⟨h1, h2, h3⟩
    · exact Or.inr h1
  · intro s' o' n' hm
    rcases hfr with ⟨h1, _⟩ | hcr
    · rw [h1] at hm; cases hm
    · obtain ⟨f, T1, o1, trow, ix1, i1, rest', hrest, hft, hown, hix1, hf, hfkof, hmode, _⟩ :=
        created_info hs hcr
      rw [hrest] at hm hs
      rcases List.mem_cons.mp hm with h2 | h2
      · cases h2
      · have h3 := owner_le hs.2 hown s' o' n' h2
        rcases hsch.ord s f.index _ hfkof hmode with h4 | ⟨h4, _⟩
        · simp only at h4; omega
        · simp only at h4; omega

/-- the foreign key values of the new version of a row have live or pending targets -/
theorem new_tgt {sch : Schema} (hsch : SchOk sch) {db : Db} {s : Nat} {r r' : Row} {b : Bool}
    {rest : List UTask} (h : UInv sch db (.upd s r r' b :: rest)) (hcont : r ∈ db s)
    (hchk : updChecks sch db s r r' b = none) {j : Nat} {fk : Fk} (hfk : fkOf sch s j = some fk)
    (hne : emptyKey (proj (colsOf sch s j) r') = false) :
    TgtOk sch db rest fk (proj (colsOf sch s j) r') := by
  have hold : ∀ (heq : proj (colsOf sch s j) r' = proj (colsOf sch s j) r),
      TgtOk sch db rest fk (proj (colsOf sch s j) r') := by
    intro heq
    rw [heq]
    rcases h.rel.1 s j fk r hfk hcont (by rw [← heq]; exact hne) with h1 | ⟨o, n, hm, hk⟩
    · exact Or.inl h1
    · rcases List.mem_cons.mp hm with h2 | h2
      · cases h2
      · exact Or.inr ⟨o, n, h2, hk⟩
  rcases h.sok.1 with ⟨hnil, hb, _, _⟩ | hcr
  · -- the user's update: the target check ran
    subst hb
    obtain ⟨ix, hix⟩ := idx_of_nonempty hne
    have hcols := colsOf_eq hix
    have hixfk : ix.fk = some fk := by simpa [fkOf, hix] using hfk
    have h1 := firstErr_none hchk (ix, j) (mem_enumIdxs.mpr hix)
    simp only [updCheck1] at h1
    split at h1
    · rename_i hsame
      have hp := proj_eq_of_ixKey_eq (by simpa using hsame)
      exact hold (by rw [hcols, hp])
    · split at h1
      · cases h1
      · split at h1
        · cases h1
        · split at h1
          · cases h1
          · rename_i hob
            simp only [Bool.true_and, outBlocked, hixfk] at hob
            rw [hcols] at hne ⊢
            left
            simpa [hne] using hob
  · obtain ⟨f, T1, o1, trow, ix1, i1, rest', hrest, hft, hown, hix1, hf, hfkof, hmode, hp, hchg1, _, hr', hl⟩ :=
      created_info h.sok.2 hcr
    by_cases hj : j = f.index
    · subst hj
      rw [hfk] at hfkof
      injection hfkof with hfkof
      subst hfkof
      rw [created_self hsch h.sok.2 hcr hrest]
      right
      refine ⟨o1, trow, ?_, ?_⟩
      · rw [hrest]; exact List.mem_cons_of_mem _ (owner_mem hown)
      · simp only [colsOf_eq hix1]
    · exact hold (created_other hsch h.sok.2 hcr hrest hj (Or.inl (by rw [hfk]; rfl)))

theorem step_upd_accept {sch : Schema} (hsch : SchOk sch) {db : Db} {s : Nat} {r r' : Row} {b : Bool}
    {rest : List UTask} (h : UInv sch db (.upd s r r' b :: rest))
    (hpend : pendingUpd rest s r = false) (hcont : r ∈ db s)
    (hchk : updChecks sch db s r r' b = none) :
    UInv sch db (cascUpd sch s r r' ++ .fin s r r' :: rest) := by
  have hcs : ∀ c ∈ cascUpd sch s r r', ∃ f k tc tr, c = UTask.casc f k tc tr := by
    intro c hc
    obtain ⟨ix, i, f, _, _, _, _, _, rfl⟩ := cascUpd_mem hc
    exact ⟨_, _, _, _, rfl⟩
  have hsub : ∀ t o n, UTask.fin t o n ∈ rest → UTask.fin t o n ∈ cascUpd sch s r r' ++ .fin s r r' :: rest :=
    fun t o n hm => List.mem_append_right _ (List.mem_cons_of_mem _ hm)
  refine ⟨?_, h.len, ?_, ?_, ?_, ?_⟩
  · refine SOk_cascs _ ?_ (SOk_accept hsch h.sok)
    intro c hc
    obtain ⟨ix, i, f, hix, hf, hchg, hne, hm, rfl⟩ := cascUpd_mem hc
    exact ⟨_, _, _, _, rfl, s, r, ix, i, rfl, hix, hf, rfl, rfl, hchg, hne, hm⟩
  · intro t o n hm
    rcases List.mem_cons.mp (fin_mem_cascs hcs hm) with h1 | h1
    · injection h1 with e1 e2 e3
      subst e1 e2
      exact hcont
    · exact h.live t o n (List.mem_cons_of_mem _ h1)
  · exact Distinct_cascs _ hcs _ ⟨hpend, h.dist⟩
  · refine ⟨fun s2 j fk x hfk hx hne => ?_, fun s2 o n hm j fk hfk hne => ?_⟩
    · rcases h.rel.1 s2 j fk x hfk hx hne with h1 | ⟨o, n, hm, hk⟩
      · exact Or.inl h1
      · rcases List.mem_cons.mp hm with h2 | h2
        · cases h2
        · exact Or.inr ⟨o, n, hsub _ _ _ h2, hk⟩
    · rcases List.mem_cons.mp (fin_mem_cascs hcs hm) with h1 | h1
      · injection h1 with e1 e2 e3
        subst e1 e2 e3
        exact TgtOk_mono hsub (new_tgt hsch h hcont hchk hfk hne)
      · rcases h.rel.2 s2 o n (List.mem_cons_of_mem _ h1) j fk hfk hne with h2 | ⟨o2, n2, hm2, hk⟩
        · exact Or.inl h2
        · rcases List.mem_cons.mp hm2 with h3 | h3
          · cases h3
          · exact Or.inr ⟨o2, n2, hsub _ _ _ h3, hk⟩
  · apply USafe_cascs _ hcs
    refine ⟨?_, ?_⟩
    · intro ix i f hix hf hchg hne hr
      rcases updateBlocks_or f.mode with hm | hm
      · -- a blocking foreign key: the check found no referencing row
        exfalso
        have hfk := fkOf_of_mem_fkToHere hf
        obtain ⟨tix, htix, hmode⟩ := hsch.tkey _ _ _ hfk
        simp only at htix
        rw [mem_enumIdxs.mp hix] at htix
        injection htix with htix
        subst htix
        have h1 := firstErr_none hchk (ix, i) hix
        have hk : ∀ x, ixKey sch s ix x = proj ix.cols x := by
          intro x; simp [ixKey, hmode]
        simp only [updCheck1, hk] at h1
        have hb : (proj ix.cols r == proj ix.cols r') = false := by
          apply Bool.eq_false_iff.mpr
          intro h2; exact hchg (eq_of_beq h2)
        simp only [hb, Bool.false_eq_true, if_false] at h1
        split at h1
        · cases h1
        · split at h1
          · cases h1
          · rename_i hnb
            have h2 : blocked sch db s i (proj ix.cols r) updateBlocks = false := by simpa using hnb
            simp only [blocked, hne, Bool.not_false, Bool.true_and] at h2
            rw [List.any_eq_false] at h2
            have := h2 f hf
            simp [hm, hr] at this
      · exact ⟨ix.cols, r', by simp only [List.append_nil, List.mem_reverse]; exact mem_cascUpd hix hf hchg hne hm⟩
    · refine USafe_mono rest _ _ ?_ h.safe
      intro f key tc tr hm
      rcases List.mem_cons.mp hm with h1 | h1
      · cases h1
      · cases h1

/-! ### the whole cascade -/

theorem find_some_mem {rows : List Row} {p : Row → Bool} {r : Row} (h : rows.find? p = some r) :
    r ∈ rows ∧ p r = true := ⟨List.mem_of_find?_eq_some h, List.find?_some h⟩

/-- the update cascade keeps the relaxed invariant at every step and ends with every foreign
key satisfied and every row of the right length -/
theorem runUpd_inv (env : Env) (hsch : SchOk env.sch) : ∀ (n : Nat) (w : W) (st : List UTask) (w' : W),
    runUpd env n w st = .ok w' → UInv env.sch w.db st → FkOk env.sch w'.db ∧ LenOk env.sch w'.db := by
  intro n
  induction n with
  | zero =>
    intro w st w' h hinv
    cases st with
    | nil =>
      simp [runUpd] at h; cases h
      refine ⟨?_, hinv.len⟩
      intro s j fk r hfk hr hne
      rcases hinv.rel.1 s j fk r hfk hr hne with h1 | ⟨_, _, hm, _⟩
      · exact h1
      · cases hm
    | cons x rest => simp [runUpd] at h
  | succ n ih =>
    intro w st w' h hinv
    cases st with
    | nil =>
      simp [runUpd] at h; cases h
      refine ⟨?_, hinv.len⟩
      intro s j fk r hfk hr hne
      rcases hinv.rel.1 s j fk r hfk hr hne with h1 | ⟨_, _, hm, _⟩
      · exact h1
      · cases hm
    | cons x rest =>
      cases x with
      | upd s r r' b =>
        simp only [runUpd] at h
        split at h
        · exact ih _ _ _ h (step_upd_skip hinv)
        · split at h
          · cases h
          · rename_i hpend
            split at h
            · cases h
            · rename_i hcont
              split at h
              · cases h
              · rename_i hchk
                exact ih _ _ _ h (step_upd_accept hsch hinv (by simpa using hpend) (by simpa using hcont) hchk)
      | casc f ok tc tr =>
        simp only [runUpd] at h
        split at h
        · rename_i hnone
          exact ih _ _ _ h (step_casc_none hinv (find_none_refs hnone))
        · rename_i r0 hsome
          obtain ⟨hm, hp⟩ := find_some_mem hsome
          exact ih _ _ _ h (step_casc_some hinv hm (by simpa using hp))
      | fin t o nn =>
        simp only [runUpd] at h
        split at h
        · cases h
        · rename_i w1 hch
          have hdb := change_db hch
          refine ih _ _ _ h ?_
          rw [hdb]
          exact step_fin hsch hinv

/-- An accepted update that changes referenced keys — refused under `block`, cascaded (to any
depth) under `cascade update` — keeps every foreign key satisfied. -/
theorem opUpdate_fkOk2 {env : Env} {w w' : W} {t : Nat} {old new : Row} (hsch : SchOk env.sch)
    (h : opUpdate env w t old new = .ok w') (hlen : new.length = ncols env.sch t)
    (hu : UpdOk2 env.sch t old new) (hok : FkOk env.sch w.db) (hl : LenOk env.sch w.db) :
    FkOk env.sch w'.db ∧ LenOk env.sch w'.db := by
  unfold opUpdate at h
  split at h
  · cases h; exact ⟨hok, hl⟩
  · split at h
    · cases h
    · split at h
      · cases h
      · split at h
        · rename_i w1 hrun
          cases h
          refine runUpd_inv env hsch _ _ _ _ hrun ?_
          refine ⟨⟨Or.inl ⟨rfl, rfl, hlen, hu⟩, trivial⟩, hl, ?_, trivial, ?_, trivial⟩
          · intro t o n hm
            rcases List.mem_cons.mp hm with h1 | h1 <;> cases h1
          · refine ⟨fun s j fk r hfk hr hne => Or.inl (hok s j fk r hfk hr hne), ?_⟩
            intro s o n hm
            rcases List.mem_cons.mp hm with h1 | h1 <;> cases h1
        · cases h

end Gsu.LDb
