/-
C09 (OverIter), part 5: the invariant for both directions and the fast path; every slow-path step
of `Prev`, direction reversal for `Next` and `Prev`. Core-only.
-/
import Gsu.Proofs.Iter4
namespace Gsu.Iter

/-! ### the invariant for both directions -/

/-- invariant of the mirror between steps, both directions, with the fast-path bookkeeping -/
structure GoodB (oi : OI) : Prop where
  good : Good oi
  dir : oi.st = .within → oi.lastDir = .next ∨ oi.lastDir = .prev
  bwd : oi.st = .within → oi.lastDir = .prev → oi.pend = none →
    BwdInv oi.rng oi.curKey oi.mod oi.layers oi.curs
  fastN : oi.st = .within → oi.lastDir = .next → ∀ i, oi.fastIdx = some i →
    FastN oi.curs oi.curKey oi.secondMin i
  fastP : oi.st = .within → oi.lastDir = .prev → ∀ i, oi.fastIdx = some i →
    FastP oi.curs oi.curKey oi.secondMax i

theorem finishNext_lastDir (oi : OI) : (finishNext oi).lastDir = .next := by
  unfold finishNext; simp only; split <;> rfl

theorem finishPrev_lastDir (oi : OI) : (finishPrev oi).lastDir = .prev := by
  unfold finishPrev; simp only; split <;> rfl

theorem finishNext_fastN (oi : OI) (hst : (finishNext oi).st = .within) (i : Nat)
    (hi : (finishNext oi).fastIdx = some i) :
    FastN (finishNext oi).curs (finishNext oi).curKey (finishNext oi).secondMin i := by
  have h := minIter_fast oi.rng oi.layers (fuelOf oi) oi.curs
  simp only at h
  unfold finishNext at hst hi ⊢
  generalize minIter oi.rng oi.layers (fuelOf oi) oi.curs = m at h hst hi ⊢
  cases hf : m.found with
  | true =>
    simp only [hf, if_true] at hst hi ⊢
    obtain ⟨sec, hsec, hfast⟩ := h hf i hi
    simpa [hsec] using hfast
  | false => simp [hf] at hst

theorem finishPrev_fastP (oi : OI) (hst : (finishPrev oi).st = .within) (i : Nat)
    (hi : (finishPrev oi).fastIdx = some i) :
    FastP (finishPrev oi).curs (finishPrev oi).curKey (finishPrev oi).secondMax i := by
  have h := maxIter_fast oi.rng oi.layers (fuelOf oi) oi.curs
  simp only at h
  unfold finishPrev at hst hi ⊢
  generalize maxIter oi.rng oi.layers (fuelOf oi) oi.curs = m at h hst hi ⊢
  cases hf : m.found with
  | true =>
    simp only [hf, if_true] at hst hi ⊢
    obtain ⟨sec, hsec, hfast⟩ := h hf i hi
    simpa [hsec] using hfast
  | false => simp [hf] at hst

/-- a step that ends in `finishNext` re-establishes the two-directional invariant -/
theorem goodB_finishNext (x : OI) (h : Good (finishNext x)) : GoodB (finishNext x) := by
  have hd := finishNext_lastDir x
  refine ⟨h, fun _ => Or.inl hd, ?_, ?_, ?_⟩
  · intro _ hp; rw [hd] at hp; cases hp
  · intro hst _ i hi; exact finishNext_fastN x hst i hi
  · intro _ hp; rw [hd] at hp; cases hp

/-! ### `Prev`: the whole slow step -/

theorem retAt_len (r : Rng) (k : Key) : ∀ (Ls : List Layer) (cs : List Cur),
    cs.length = Ls.length → (retAt r k Ls cs).length = Ls.length := by
  intro Ls
  induction Ls with
  | nil => intro cs h; cases cs <;> simp [retAt] at *
  | cons L Ls ih =>
    intro cs h
    cases cs with
    | nil => simp at h
    | cons c cs => simp only [retAt, List.length_cons]; rw [ih cs (by simpa using h)]

theorem maxIter_len (r : Rng) (Ls : List Layer) : ∀ (fuel : Nat) (cs : List Cur),
    cs.length = Ls.length → (maxIter r Ls fuel cs).curs.length = Ls.length := by
  intro fuel
  induction fuel with
  | zero => intro cs h; simpa [maxIter] using h
  | succ fuel ih =>
    intro cs h
    simp only [maxIter]
    split
    · exact h
    · split
      · exact h
      · exact ih _ (retAt_len r _ Ls cs h)

/-- the bound of a backward step: from the end of the range after a rewind, else below curKey -/
def prevBd (oi : OI) : Bu := if oi.st = .rewound then .lt oi.rng.end_ else .lt oi.curKey

theorem finishPrev_spec (oi : OI) (bu : Bu) (hwf : WF oi.layers) (hst : oi.st = .within)
    (hpend : oi.pend = none) (hstuck : oi.stuck = false)
    (hbe : ∀ k, bu.ok k = true → k < oi.rng.end_)
    (hc : oi.curs = oi.layers.map (fun L => cP L oi.rng bu)) :
    GoodB (finishPrev oi) ∧ IsPrev oi.layers oi.rng bu (finishPrev oi).result ∧
      ((finishPrev oi).st = .within → (finishPrev oi).curOp = .add) ∧
      (finishPrev oi).rng = oi.rng := by
  have h := maxIter_spec hwf oi.rng (fuelOf oi) bu
    (by have := cntP_le_total bu oi.layers; simp only [fuelOf]; omega) hbe
  simp only at h
  rw [← hc] at h
  obtain ⟨h1, h2, h3⟩ := h
  have hlen := maxIter_len oi.rng oi.layers (fuelOf oi) oi.curs (by simp [hc])
  have hd := finishPrev_lastDir oi
  have hfp := finishPrev_fastP oi
  suffices hgood : Good (finishPrev oi) ∧ IsPrev oi.layers oi.rng bu (finishPrev oi).result ∧
      ((finishPrev oi).st = .within → (finishPrev oi).curOp = .add) ∧
      (finishPrev oi).rng = oi.rng ∧
      ((finishPrev oi).st = .within → (finishPrev oi).pend = none →
        BwdInv (finishPrev oi).rng (finishPrev oi).curKey (finishPrev oi).mod
          (finishPrev oi).layers (finishPrev oi).curs) by
    refine ⟨⟨hgood.1, fun _ => Or.inr hd, fun hs _ hp => hgood.2.2.2.2 hs hp, ?_, ?_⟩,
      hgood.2.1, hgood.2.2.1, hgood.2.2.2.1⟩
    · intro _ hp; rw [hd] at hp; cases hp
    · intro hs _ i hi; exact hfp hs i hi
  clear hd hfp
  unfold finishPrev
  generalize maxIter oi.rng oi.layers (fuelOf oi) oi.curs = m at h1 h2 h3 hlen
  simp only [MRes.out] at h2
  cases hf : m.found with
  | true =>
    obtain ⟨hcs, hok, horg, hmax⟩ := h3 hf
    simp only [hf, if_true] at h2 ⊢
    refine ⟨?_, ?_, ?_, by first | rfl | trivial, ?_⟩
    · refine ⟨hwf, ?_, ?_, ?_, ?_, ?_, ?_⟩
      · intro Ls h; simp [hpend] at h
      · simp [hcs]
      · intro h; simp [hst] at h
      · intro _; exact ⟨horg, hbe _ hok, hmax⟩
      · intro _ h; simp at h
      · simp [hstuck, h1]
    · simpa [OI.result, hst] using h2
    · intro _; trivial
    · intro _ _; simp only [hcs]; exact BwdInv_map _ _ _ _
  | false =>
    simp only [hf, Bool.false_eq_true, if_false] at h2 ⊢
    refine ⟨?_, ?_, ?_, by first | rfl | trivial, ?_⟩
    · refine ⟨hwf, ?_, ?_, ?_, ?_, ?_, ?_⟩
      · intro Ls h; simp [hpend] at h
      · exact hlen
      · intro h; simp at h
      · intro h; simp at h
      · intro h; simp at h
      · simp [hstuck, h1]
    · simpa [OI.result] using h2
    · intro h; simp at h
    · intro h; simp at h

theorem lt_end (r : Rng) : ∀ k, (Bu.lt r.end_).ok k = true → k < r.end_ := by
  intro k hk; simpa [Bu.ok] using hk

theorem lt_ck_end {r : Rng} {ck : Key} (h : ck < r.end_) :
    ∀ k, (Bu.lt ck).ok k = true → k < r.end_ := by
  intro k hk; simp [Bu.ok] at hk; grind

/-! positioning all the iterators -/

theorem zipL_rewoundP {Ls : List Layer} (hwf : WF Ls) (r : Rng) (cs : List Cur)
    (hlen : cs.length = Ls.length) (hr : ∀ c ∈ cs, c.st = .rewound) :
    zipL (fun _ L c => curPrev L r c) Ls cs = Ls.map (fun L => cP L r (.lt r.end_)) :=
  zipL_ZInv (P := fun _ _ c => c.st = .rewound)
    (fun _ L c hL hc => curPrev_rewound (hwf L hL) r c hc) cs (ZInv_of_len Ls cs hlen hr)

theorem zipL_seekP {Ls : List Layer} (hwf : WF Ls) (r : Rng) (ck : Key) (horg : ¬ ck < r.org)
    (hend : ck < r.end_) (hmax : ck < maxKey) (ld : Bool) (g : Bool → Bool) (cs : List Cur)
    (hlen : cs.length = Ls.length) :
    zipL (fun last L c => modPrevCur r ck (true || g last) ld L c) Ls cs
      = Ls.map (fun L => cP L r (.lt ck)) :=
  zipL_ZInv (P := fun _ _ _ => True)
    (fun _ L c hL _ => by
      simp only [Bool.true_or]; exact modPrevCur_seek (hwf L hL) r ck horg hend hmax ld c)
    cs (ZInv_of_len Ls cs hlen (fun _ _ => trivial))

theorem zipL_sameP {Ls : List Layer} (hwf : WF Ls) (r : Rng) (ck : Key) (horg : ¬ ck < r.org)
    (hend : ck < r.end_) (hmax : ck < maxKey) (mod : Bool) (cs : List Cur)
    (h : BwdInv r ck mod Ls cs) :
    zipL (fun last L c => modPrevCur r ck (false || (last && mod)) true L c) Ls cs
      = Ls.map (fun L => cP L r (.lt ck)) :=
  zipL_ZInv (P := BwdP r ck mod)
    (fun last L c hL hc => by
      by_cases hs : (last && mod) = true
      · simp only [hs, Bool.or_true]; exact modPrevCur_seek (hwf L hL) r ck horg hend hmax true c
      · rcases hc with ⟨h1, h2⟩ | hc
        · simp [h1, h2] at hs
        · have : (false || (last && mod)) = false := by simpa using hs
          rw [this, hc]; exact modPrevCur_same (hwf L hL) r ck horg hend hmax)
    cs h

/-- `Prev` after `Next` -/
theorem zipL_revP {Ls : List Layer} (hwf : WF Ls) (r : Rng) (ck : Key) (horg : ¬ ck < r.org)
    (hend : ck < r.end_) (hmax : ck < maxKey) (mod : Bool) (cs : List Cur)
    (h : FwdInv r ck mod Ls cs) :
    zipL (fun last L c => modPrevCur r ck (false || (last && mod)) false L c) Ls cs
      = Ls.map (fun L => cP L r (.lt ck)) :=
  zipL_ZInv (P := FwdP r ck mod)
    (fun last L c hL hc => by
      by_cases hs : (last && mod) = true
      · simp only [hs, Bool.or_true]; exact modPrevCur_seek (hwf L hL) r ck horg hend hmax false c
      · rcases hc with ⟨h1, h2⟩ | hc
        · simp [h1, h2] at hs
        · have : (false || (last && mod)) = false := by simpa using hs
          rw [this, hc]; exact modPrevCur_rev (hwf L hL) r ck hend)
    cs ((FwdInv_iff r ck mod Ls cs).mp h)

/-- `Next` after `Prev` -/
theorem zipL_revN {Ls : List Layer} (hwf : WF Ls) (r : Rng) (ck : Key) (horg : ¬ ck < r.org)
    (hend : ck < r.end_) (hmax : ck < maxKey) (mod : Bool) (cs : List Cur)
    (h : BwdInv r ck mod Ls cs) :
    zipL (fun last L c => modNextCur r ck (false || (last && mod)) false L c) Ls cs
      = Ls.map (fun L => cB L r (.gt ck)) :=
  zipL_ZInv (P := BwdP r ck mod)
    (fun last L c hL hc => by
      by_cases hs : (last && mod) = true
      · simp only [hs, Bool.or_true]; exact modNextCur_seek (hwf L hL) r ck horg hend hmax false c
      · rcases hc with ⟨h1, h2⟩ | hc
        · simp [h1, h2] at hs
        · have : (false || (last && mod)) = false := by simpa using hs
          rw [this, hc]; exact modNextCur_rev (hwf L hL) r ck horg)
    cs h

/-- the state `prevRewound` hands to `finishPrev`, with the cursors in canonical form -/
def rewStP (oi : OI) : OI :=
  { oi with curs := oi.layers.map (fun L => cP L oi.rng (.lt oi.rng.end_)),
            st := .within, fastIdx := none,
            mod := if oi.mod && lastRewound oi.curs then modAfterSeek oi else oi.mod }

theorem prevRewound_spec (oi : OI) (hwf : WF oi.layers) (hp : oi.pend = none)
    (hlen : oi.curs.length = oi.layers.length) (hrew : ∀ c ∈ oi.curs, c.st = .rewound)
    (hstuck : oi.stuck = false) :
    GoodB (prevRewound oi) ∧ IsPrev oi.layers oi.rng (.lt oi.rng.end_) (prevRewound oi).result ∧
      ((prevRewound oi).st = .within → (prevRewound oi).curOp = .add) := by
  have he : prevRewound oi = finishPrev (rewStP oi) := by
    unfold prevRewound rewStP
    rw [zipL_rewoundP hwf oi.rng _ hlen hrew]
  rw [he]
  have := finishPrev_spec (rewStP oi) (.lt oi.rng.end_) (by exact hwf) rfl (by exact hp)
      (by exact hstuck) (lt_end oi.rng) rfl
  exact ⟨this.1, this.2.1, this.2.2.1⟩

theorem prevSlow_seek (oi : OI) (hwf : WF oi.layers) (hp : oi.pend = none)
    (hlen : oi.curs.length = oi.layers.length) (hst : oi.st = .within)
    (hin : ¬ oi.curKey < oi.rng.org ∧ oi.curKey < oi.rng.end_ ∧ oi.curKey < maxKey)
    (hstuck : oi.stuck = false) :
    GoodB (prevSlow oi true) ∧ IsPrev oi.layers oi.rng (.lt oi.curKey) (prevSlow oi true).result ∧
      ((prevSlow oi true).st = .within → (prevSlow oi true).curOp = .add) := by
  obtain ⟨horg, hend, hmax⟩ := hin
  unfold prevSlow
  have hz := zipL_seekP hwf oi.rng oi.curKey horg hend hmax (decide (oi.lastDir = .prev))
    (fun last => last && oi.mod) oi.curs hlen
  have := finishPrev_spec (modPrev { oi with fastIdx := none } true) (.lt oi.curKey)
    (by exact hwf) (by exact hst) (by exact hp) (by exact hstuck) (lt_ck_end hend)
    (by simp only [modPrev]; exact hz)
  exact ⟨this.1, this.2.1, this.2.2.1⟩

theorem prevSlow_same (oi : OI) (hwf : WF oi.layers) (hp : oi.pend = none)
    (hst : oi.st = .within) (hd : oi.lastDir = .prev)
    (hin : ¬ oi.curKey < oi.rng.org ∧ oi.curKey < oi.rng.end_ ∧ oi.curKey < maxKey)
    (hbwd : BwdInv oi.rng oi.curKey oi.mod oi.layers oi.curs)
    (hstuck : oi.stuck = false) :
    GoodB (prevSlow oi false) ∧ IsPrev oi.layers oi.rng (.lt oi.curKey) (prevSlow oi false).result ∧
      ((prevSlow oi false).st = .within → (prevSlow oi false).curOp = .add) := by
  obtain ⟨horg, hend, hmax⟩ := hin
  unfold prevSlow
  have hz := zipL_sameP hwf oi.rng oi.curKey horg hend hmax oi.mod oi.curs hbwd
  have := finishPrev_spec (modPrev { oi with fastIdx := none } false) (.lt oi.curKey)
    (by exact hwf) (by exact hst) (by exact hp) (by exact hstuck) (lt_ck_end hend)
    (by simp only [modPrev, hd, decide_true]; exact hz)
  exact ⟨this.1, this.2.1, this.2.2.1⟩

/-- `Prev` directly after a `Next` -/
theorem prevSlow_rev (oi : OI) (hwf : WF oi.layers) (hp : oi.pend = none)
    (hst : oi.st = .within) (hd : oi.lastDir = .next)
    (hin : ¬ oi.curKey < oi.rng.org ∧ oi.curKey < oi.rng.end_ ∧ oi.curKey < maxKey)
    (hfwd : FwdInv oi.rng oi.curKey oi.mod oi.layers oi.curs)
    (hstuck : oi.stuck = false) :
    GoodB (prevSlow oi false) ∧ IsPrev oi.layers oi.rng (.lt oi.curKey) (prevSlow oi false).result ∧
      ((prevSlow oi false).st = .within → (prevSlow oi false).curOp = .add) := by
  obtain ⟨horg, hend, hmax⟩ := hin
  unfold prevSlow
  have hz := zipL_revP hwf oi.rng oi.curKey horg hend hmax oi.mod oi.curs hfwd
  have := finishPrev_spec (modPrev { oi with fastIdx := none } false) (.lt oi.curKey)
    (by exact hwf) (by exact hst) (by exact hp) (by exact hstuck) (lt_ck_end hend)
    (by simp only [modPrev, hd]; exact hz)
  exact ⟨this.1, this.2.1, this.2.2.1⟩

/-- `Next` directly after a `Prev` -/
theorem nextSlow_rev (oi : OI) (hwf : WF oi.layers) (hp : oi.pend = none)
    (hst : oi.st = .within) (hd : oi.lastDir = .prev)
    (hin : ¬ oi.curKey < oi.rng.org ∧ oi.curKey < oi.rng.end_ ∧ oi.curKey < maxKey)
    (hbwd : BwdInv oi.rng oi.curKey oi.mod oi.layers oi.curs)
    (hstuck : oi.stuck = false) :
    Good (nextSlow oi false) ∧ IsNext oi.layers oi.rng (.gt oi.curKey) (nextSlow oi false).result ∧
      ((nextSlow oi false).st = .within → (nextSlow oi false).curOp = .add) := by
  obtain ⟨horg, hend, hmax⟩ := hin
  unfold nextSlow
  have hz := zipL_revN hwf oi.rng oi.curKey horg hend hmax oi.mod oi.curs hbwd
  have := finishNext_spec (modNext { oi with fastIdx := none } false) (.gt oi.curKey)
    (by exact hwf) (by exact hst) (by exact hp) (by exact hstuck) (gt_org horg)
    (by simp only [modNext, hd]; exact hz)
  exact ⟨this.1, this.2.1, this.2.2.1⟩

end Gsu.Iter
