/-
Lockset discipline over the regenerated facts `Gsu.Gen.LockFacts` (C43), and the abstract
reader/writer-lock semantics under which the discipline gives mutual exclusion.
-/
import Gsu.Gen.LockFacts
namespace Gsu.Lockset
open Gsu.Gen.LockFacts

def qname (m : Meth) : String := m.recv ++ "." ++ m.name

def findM (q : String) : Option Meth := methods.find? (fun m => qname m == q)

/-- fields that are not guarded by the object lock by design: the lock itself and its mode flags
(`concurrent`/`shouldLock` are set once, before the value is published to another thread;
`writeLocked` is only touched by the lock holder), and the atomic copy-on-write counter. -/
def lockInternal : List String :=
  ["lock", "concurrent", "shouldLock", "writeLocked", "ob.lock", "ob.concurrent", "ob.shouldLock",
   "ob.writeLocked", "copyCount", "ob.copyCount", "shared.concurrent", "shared.MayLock"]

/-- the lock state an access of method `m` runs under when nobody holds the lock for it:
`none` inside exported methods, `caller` inside unexported helpers -/
def unheld (m : Meth) (l : Lk) : Bool := if m.exported then l == .none else l == .caller

/-- does a call of `q` (made without further locking) write / touch guarded state?
(fuel bounds the call-graph recursion) -/
def needW : Nat → String → Bool
  | 0, _ => false
  | n + 1, q =>
    match findM q with
    | none => false
    | some m =>
      m.accs.any (fun a => unheld m a.held && a.write && !lockInternal.contains a.field) ||
      m.calls.any (fun c => unheld m c.held && needW n c.callee)

def needR : Nat → String → Bool
  | 0, _ => false
  | n + 1, q =>
    match findM q with
    | none => false
    | some m =>
      m.accs.any (fun a => unheld m a.held && !lockInternal.contains a.field) ||
      m.calls.any (fun c => unheld m c.held && needR n c.callee)

def fuel : Nat := 8

/-- does method `q` take the lock itself? -/
def acquires (q : String) : Bool :=
  match findM q with
  | none => false
  | some m => m.accs.any (fun a => a.held == .r || a.held == .w) ||
              m.calls.any (fun c => c.held == .r || c.held == .w)

inductive Viol where
  | writeNoLock (m field : String)      -- write with no lock held
  | writeUnderR (m field : String)      -- write while only the read lock is held
  | readNoLock (m field : String)       -- read with no lock held
  | callNeedsW (m callee : String) (held : Lk)   -- helper that writes, called without the write lock
  | callNeedsR (m callee : String)      -- helper that reads, called with no lock
  | reentry (m callee : String)         -- locking method called while the (non reentrant) write lock is held
  deriving DecidableEq, Repr

/-- all violations of the discipline inside the *entry points* (exported methods): every write
under `Lock`, every read under `RLock|Lock`, helpers only called with a sufficient lock, no call of
a locking method with the write lock held -/
def violationsOf (m : Meth) : List Viol :=
  if !m.exported then [] else
  (m.accs.filterMap fun a =>
    if lockInternal.contains a.field then none
    else if a.write && a.held == .none then some (.writeNoLock (qname m) a.field)
    else if a.write && a.held == .r then some (.writeUnderR (qname m) a.field)
    else if !a.write && a.held == .none then some (.readNoLock (qname m) a.field)
    else none) ++
  (m.calls.filterMap fun c =>
    if c.held == .w then (if acquires c.callee then some (.reentry (qname m) c.callee) else none)
    else if needW fuel c.callee && !acquires c.callee then some (.callNeedsW (qname m) c.callee c.held)
    else if c.held == .none && needR fuel c.callee && !acquires c.callee then some (.callNeedsR (qname m) c.callee)
    else none)

def violations : List Viol := methods.flatMap violationsOf

/-! ### SetConcurrent propagation (over the regenerated facts) -/

/-- is `m` among the events before the first `return`? -/
def markedBeforeReturn (ev : List String) (m : String) : Bool :=
  (ev.takeWhile (· != "return")).contains m

def eventsOf (q : String) : List String :=
  match setConcEvents.find? (·.1 == q) with
  | some e => e.2
  | none => []

/-! ### abstract RW-lock semantics (M-CONC instance) -/

/-- state of one RW lock: number of readers, writer present -/
structure RW where
  readers : Nat := 0
  writer : Bool := false

inductive Ev where
  | rlock | runlock | lock | unlock

/-- sync.RWMutex as a transition system: RLock needs no writer, Lock needs nobody -/
def rwStep (s : RW) : Ev → Option RW
  | .rlock => if s.writer then none else some { s with readers := s.readers + 1 }
  | .runlock => if s.readers = 0 then none else some { s with readers := s.readers - 1 }
  | .lock => if s.writer || s.readers != 0 then none else some { s with writer := true }
  | .unlock => if s.writer then some { s with writer := false } else none

def rwRun (s : RW) : List Ev → Option RW
  | [] => some s
  | e :: r => match rwStep s e with
    | none => none
    | some s' => rwRun s' r

/-- invariant of every reachable lock state: a writer excludes readers -/
def RWInv (s : RW) : Prop := s.writer = true → s.readers = 0

theorem rwStep_inv {s s' : RW} {e : Ev} (h : RWInv s) (hs : rwStep s e = some s') : RWInv s' := by
  cases e <;> simp only [rwStep] at hs
  · split at hs
    · cases hs
    · rename_i hw; cases hs; intro h'; simp_all
  · split at hs
    · cases hs
    · cases hs; intro h'; have := h h'; simp_all
  · split at hs
    · cases hs
    · rename_i hw; cases hs; intro _; simp at hw; simpa using hw.2
  · split at hs
    · cases hs; intro h'; simp at h'
    · cases hs

theorem rwRun_inv {s s' : RW} (evs : List Ev) (h : RWInv s) (hs : rwRun s evs = some s') : RWInv s' := by
  induction evs generalizing s with
  | nil => simp [rwRun] at hs; subst hs; exact h
  | cons e r ih =>
    simp only [rwRun] at hs
    split at hs
    · cases hs
    · rename_i s1 h1; exact ih (rwStep_inv h h1) hs

end Gsu.Lockset
