/-
C29: the two semantics agree (dynamic half of closure-vs-function). Core Lean only.
-/
import Gsu.Proofs.LangBlocks3
import Gsu.Proofs.LangBlocksFrame
namespace Gsu.LangBlocks

/-- in a plain frame the name `v` is a private cell of the reference semantics too -/
def Priv (pl : Bool) (fr : Frame) (v : Nat) : Prop :=
  pl = true → cellOf fr.s fr.chain v = .priv v

theorem Priv_false (fr : Frame) (v : Nat) : Priv false fr v := by
  intro h; cases h

theorem Priv_congr {pl : Bool} {fr fr' : Frame} {v : Nat} (h1 : fr'.s = fr.s)
    (h2 : fr'.chain = fr.chain) (h : Priv pl fr v) : Priv pl fr' v := by
  intro hp; rw [h1, h2]; exact h hp

theorem readVar₂_eq (pl : Bool) (fr : Frame) (st : State) (v : Nat) (h : Priv pl fr v) :
    readVar₂ pl fr st v = readVar fr st v := by
  cases pl with
  | false => simp [readVar₂]
  | true => simp [readVar₂, readVar, h rfl]

theorem writeVar₂_eq (pl : Bool) (fr : Frame) (st : State) (v : Nat) (x : Val) (h : Priv pl fr v) :
    writeVar₂ pl fr st v x = writeVar fr st v x := by
  cases pl with
  | false => simp [writeVar₂]
  | true => simp [writeVar₂, writeVar, h rfl]

theorem bindParams₂_eq (pl : Bool) : ∀ (ps : List Nat) (as : List Val) (fr : Frame) (st : State),
    (∀ v ∈ ps, Priv pl fr v) → bindParams₂ pl fr st ps as = bindParams fr st ps as := by
  intro ps
  induction ps with
  | nil => intro as fr st _; cases as <;> simp [bindParams₂, bindParams]
  | cons p ps ih =>
    intro as fr st h
    cases as with
    | nil => simp [bindParams₂, bindParams]
    | cons a as =>
      simp only [bindParams₂, bindParams]
      rw [writeVar₂_eq pl fr st p a (h p (List.mem_cons_self ..))]
      apply ih
      intro v hv
      have hw := writeVar_frame fr st p a
      exact Priv_congr hw.1 hw.2.1 (h v (List.mem_cons_of_mem _ hv))

theorem bindParams_frame : ∀ (ps : List Nat) (as : List Val) (fr : Frame) (st : State),
    (bindParams fr st ps as).1.s = fr.s ∧ (bindParams fr st ps as).1.chain = fr.chain := by
  intro ps
  induction ps with
  | nil => intro as fr st; cases as <;> simp [bindParams]
  | cons p ps ih =>
    intro as fr st
    cases as with
    | nil => simp [bindParams]
    | cons a as =>
      simp only [bindParams]
      have hw := writeVar_frame fr st p a
      have := ih as (writeVar fr st p a).1 (writeVar fr st p a).2
      exact ⟨this.1.trans hw.1, this.2.trans hw.2.1⟩

theorem mem_namesD_param {s : Scope} {v : Nat} (h : v ∈ s.params) : v ∈ namesD s := by
  simp [namesD, h]

theorem mem_namesD_body {s : Scope} {v : Nat} {t : Stmt} (ht : t ∈ s.body) (h : v ∈ stmtNames t) :
    v ∈ namesD s := by
  simp only [namesD, List.mem_append, List.mem_flatMap]
  exact Or.inl (Or.inr ⟨t, ht, h⟩)

theorem mem_namesD_result {s : Scope} {v : Nat} (h : v ∈ exprNames s.result) : v ∈ namesD s := by
  simp [namesD, h]

/-- the statement proved by induction on the fuel -/
def Agree (cf : List Scope → Scope → Bool) (fuel : Nat) : Prop :=
  (∀ pl fr st e, (∀ v ∈ exprNames e, Priv pl fr v) →
      evalE₂ cf fuel pl fr st e = evalE fuel fr st e) ∧
  (∀ pl fr st acc es, (∀ e ∈ es, ∀ v ∈ exprNames e, Priv pl fr v) →
      evalAdds₂ cf fuel pl fr st acc es = evalAdds fuel fr st acc es) ∧
  (∀ pl fr st b, (∀ t ∈ b, ∀ v ∈ stmtNames t, Priv pl fr v) →
      runBody₂ cf fuel pl fr st b = runBody fuel fr st b)

/-- calling a block: the body and result of the callee agree -/
theorem agree_callee (cf : List Scope → Scope → Bool) (n : Nat) (ih : Agree cf n)
    (pl : Bool) (s : Scope) (chain : List Scope) (act : Nat) (st : State) (arg : Val)
    (hP : ∀ v ∈ namesD s, Priv pl ⟨s, chain, act, []⟩ v) :
    bindParams₂ pl ⟨s, chain, act, []⟩ st s.params [arg] = bindParams ⟨s, chain, act, []⟩ st s.params [arg] ∧
    (∀ fr0 st0, fr0.s = s → fr0.chain = chain →
      runBody₂ cf n pl fr0 st0 s.body = runBody n fr0 st0 s.body ∧
      evalE₂ cf n pl fr0 st0 s.result = evalE n fr0 st0 s.result) := by
  refine ⟨bindParams₂_eq pl _ _ _ _ (fun v hv => hP v (mem_namesD_param hv)), ?_⟩
  intro fr0 st0 h1 h2
  have hP' : ∀ v ∈ namesD s, Priv pl fr0 v := fun v hv =>
    Priv_congr (fr := ⟨s, chain, act, []⟩) h1 h2 (hP v hv)
  exact ⟨ih.2.2 pl fr0 st0 s.body (fun t ht v hv => hP' v (mem_namesD_body ht hv)),
    ih.1 pl fr0 st0 s.result (fun v hv => hP' v (mem_namesD_result hv))⟩

theorem agree_evalE (cf : List Scope → Scope → Bool)
    (hcf : ∀ chain s, cf chain s = true → cfAll chain s = true) (n : Nat) (ih : Agree cf n) :
    ∀ pl fr st e, (∀ v ∈ exprNames e, Priv pl fr v) →
      evalE₂ cf (n + 1) pl fr st e = evalE (n + 1) fr st e := by
  intro pl fr st e H
  cases e with
  | num k => simp only [evalE₂, evalE]
  | var x =>
    simp only [evalE₂, evalE]
    rw [readVar₂_eq pl fr st x (H x (by simp [exprNames]))]
    cases readVar fr st x <;> rfl
  | block s => simp only [evalE₂, evalE]
  | fn s => simp only [evalE₂, evalE]
  | add a b =>
    simp only [evalE₂, evalE]
    have hf := foldAddList_names (.add a b)
    generalize foldAddList (.add a b) = l at hf
    cases l with
    | nil => rfl
    | cons e1 rest =>
      simp only
      rw [ih.1 pl fr st e1 (fun v hv => H v (hf e1 (List.mem_cons_self ..) v hv))]
      cases hE : evalE n fr st e1 with
      | err s => rfl
      | ret a v s => rfl
      | ok v fr1 st1 =>
        have := evalE_frame n fr st e1 v fr1 st1 hE
        subst this
        simp only
        exact ih.2.1 pl fr1 st1 v rest
          (fun e he v hv => H v (hf e (List.mem_cons_of_mem _ he) v hv))
  | call f a =>
    simp only [evalE₂, evalE]
    rw [ih.1 pl fr st a (fun v hv => H v (by simp [exprNames, hv]))]
    cases hE : evalE n fr st a with
    | err s => rfl
    | ret a v s => rfl
    | ok arg fr1 st1 =>
      have := evalE_frame n fr st a arg fr1 st1 hE
      subst this
      simp only
      rw [readVar₂_eq pl fr1 st1 f (H f (by simp [exprNames]))]
      cases hr : readVar fr1 st1 f with
      | none => rfl
      | some val =>
        cases val with
        | int i => rfl
        | str => rfl
        | clo s chain act =>
          simp only
          by_cases hl : s.params.length = 1
          · simp only [hl, if_true]
            have hP : ∀ v ∈ namesD s, Priv (cf chain s) ⟨s, chain, act, []⟩ v :=
              fun v hv hp => plain_cells chain s (hcf _ _ hp) v hv
            obtain ⟨hb, hrest⟩ := agree_callee cf n ih (cf chain s) s chain act st1 arg hP
            rw [hb]
            have hfr := bindParams_frame s.params [arg] ⟨s, chain, act, []⟩ st1
            obtain ⟨hB, _⟩ := hrest _ (bindParams ⟨s, chain, act, []⟩ st1 s.params [arg]).2 hfr.1 hfr.2
            rw [hB]
            cases hR : runBody n (bindParams ⟨s, chain, act, []⟩ st1 s.params [arg]).1
                (bindParams ⟨s, chain, act, []⟩ st1 s.params [arg]).2 s.body with
            | err s => rfl
            | ret a v s => rfl
            | ok u frb stb =>
              have hfb := runBody_frame n _ _ _ u frb stb hR
              simp only
              rw [(hrest frb stb (hfb.1.trans hfr.1) (hfb.2.1.trans hfr.2)).2]
              cases evalE n frb stb s.result <;> rfl
          · simp only [hl, if_false]
        | fnv s =>
          simp only
          by_cases hl : s.params.length = 1
          · simp only [hl, if_true]
            have hP : ∀ v ∈ namesD s, Priv false ⟨s, [], st1.next, []⟩ v :=
              fun v _ => Priv_false _ v
            obtain ⟨hb, hrest⟩ := agree_callee cf n ih false s [] st1.next
              { st1 with next := st1.next + 1 } arg hP
            rw [hb]
            have hfr := bindParams_frame s.params [arg] ⟨s, [], st1.next, []⟩
              { st1 with next := st1.next + 1 }
            obtain ⟨hB, _⟩ := hrest _ (bindParams ⟨s, [], st1.next, []⟩
              { st1 with next := st1.next + 1 } s.params [arg]).2 hfr.1 hfr.2
            rw [hB]
            cases hR : runBody n (bindParams ⟨s, [], st1.next, []⟩
                { st1 with next := st1.next + 1 } s.params [arg]).1
                (bindParams ⟨s, [], st1.next, []⟩
                { st1 with next := st1.next + 1 } s.params [arg]).2 s.body with
            | err s => rfl
            | ret a v s => rfl
            | ok u frb stb =>
              have hfb := runBody_frame n _ _ _ u frb stb hR
              simp only
              rw [(hrest frb stb (hfb.1.trans hfr.1) (hfb.2.1.trans hfr.2)).2]
              cases evalE n frb stb s.result <;> rfl
          · simp only [hl, if_false]

theorem agree_evalAdds (cf : List Scope → Scope → Bool) (n : Nat) (ih : Agree cf n) :
    ∀ pl fr st acc es, (∀ e ∈ es, ∀ v ∈ exprNames e, Priv pl fr v) →
      evalAdds₂ cf (n + 1) pl fr st acc es = evalAdds (n + 1) fr st acc es := by
  intro pl fr st acc es H
  cases es with
  | nil => simp only [evalAdds₂, evalAdds]
  | cons e rest =>
    simp only [evalAdds₂, evalAdds]
    rw [ih.1 pl fr st e (H e (List.mem_cons_self ..))]
    cases hE : evalE n fr st e with
    | err s => rfl
    | ret a v s => rfl
    | ok v fr1 st1 =>
      have := evalE_frame n fr st e v fr1 st1 hE
      subst this
      simp only
      cases acc <;> cases v <;> try rfl
      simp only
      exact ih.2.1 pl fr1 st1 _ rest (fun e he => H e (List.mem_cons_of_mem _ he))

/-- write the assigned name, then the remaining statements -/
theorem agree_write (cf : List Scope → Scope → Bool) (n : Nat) (ih : Agree cf n)
    (pl : Bool) (fr : Frame) (st : State) (x : Nat) (v : Val) (rest : List Stmt)
    (hx : Priv pl fr x) (hrest : ∀ t ∈ rest, ∀ v ∈ stmtNames t, Priv pl fr v) :
    runBody₂ cf n pl (writeVar₂ pl fr st x v).1 (writeVar₂ pl fr st x v).2 rest =
      runBody n (writeVar fr st x v).1 (writeVar fr st x v).2 rest := by
  rw [writeVar₂_eq pl fr st x v hx]
  have hw := writeVar_frame fr st x v
  exact ih.2.2 pl _ _ rest (fun t ht w hw' => Priv_congr hw.1 hw.2.1 (hrest t ht w hw'))

theorem agree_runBody (cf : List Scope → Scope → Bool) (n : Nat) (ih : Agree cf n) :
    ∀ pl fr st b, (∀ t ∈ b, ∀ v ∈ stmtNames t, Priv pl fr v) →
      runBody₂ cf (n + 1) pl fr st b = runBody (n + 1) fr st b := by
  intro pl fr st b H
  cases b with
  | nil => simp only [runBody₂, runBody]
  | cons t rest =>
    have Ht := H t (List.mem_cons_self ..)
    have Hrest : ∀ t ∈ rest, ∀ v ∈ stmtNames t, Priv pl fr v :=
      fun t ht => H t (List.mem_cons_of_mem _ ht)
    cases t with
    | assign x e =>
      simp only [runBody₂, runBody]
      rw [ih.1 pl fr st e (fun v hv => Ht v (by simp [stmtNames, hv]))]
      cases hE : evalE n fr st e with
      | err s => rfl
      | ret a v s => rfl
      | ok v fr1 st1 =>
        have := evalE_frame n fr st e v fr1 st1 hE
        subst this
        simp only
        exact agree_write cf n ih pl fr1 st1 x v rest (Ht x (by simp [stmtNames])) Hrest
    | ret e =>
      simp only [runBody₂, runBody]
      rw [ih.1 pl fr st e (fun v hv => Ht v (by simp [stmtNames, hv]))]
      cases evalE n fr st e <;> rfl
    | tryc x e w =>
      simp only [runBody₂, runBody]
      rw [ih.1 pl fr st e (fun v hv => Ht v (by simp [stmtNames, hv]))]
      cases hE : evalE n fr st e with
      | err s =>
        simp only
        exact agree_write cf n ih pl fr s w .str rest (Ht w (by simp [stmtNames])) Hrest
      | ret a v s => rfl
      | ok v fr1 st1 =>
        have := evalE_frame n fr st e v fr1 st1 hE
        subst this
        simp only
        exact agree_write cf n ih pl fr1 st1 x v rest (Ht x (by simp [stmtNames])) Hrest
    | ifz c x e =>
      simp only [runBody₂, runBody]
      rw [ih.1 pl fr st c (fun v hv => Ht v (by simp [stmtNames, hv]))]
      cases hC : evalE n fr st c with
      | err s => rfl
      | ret a v s => rfl
      | ok cv fr1 st1 =>
        have := evalE_frame n fr st c cv fr1 st1 hC
        subst this
        have hrest' := ih.2.2 pl fr1 st1 rest Hrest
        have hthen : (match evalE₂ cf n pl fr1 st1 e with
            | .ok v fr' st' => runBody₂ cf n pl (writeVar₂ pl fr' st' x v).1 (writeVar₂ pl fr' st' x v).2 rest
            | .err s => Res.err s
            | .ret a v s => Res.ret a v s) =
            (match evalE n fr1 st1 e with
            | .ok v fr' st' => runBody n (writeVar fr' st' x v).1 (writeVar fr' st' x v).2 rest
            | .err s => Res.err s
            | .ret a v s => Res.ret a v s) := by
          rw [ih.1 pl fr1 st1 e (fun v hv => Ht v (by simp [stmtNames, hv]))]
          cases hE : evalE n fr1 st1 e with
          | err s => rfl
          | ret a v s => rfl
          | ok v fr2 st2 =>
            have := evalE_frame n fr1 st1 e v fr2 st2 hE
            subst this
            simp only
            exact agree_write cf n ih pl fr2 st2 x v rest (Ht x (by simp [stmtNames])) Hrest
        by_cases h0 : cv = .int 0
        · subst h0
          exact hthen
        · split
          · next heq => exact absurd (by cases heq; rfl) h0
          · split
            · next heq => exact absurd (by cases heq; rfl) h0
            · rename_i _ _ _ _ _ heq1 _ _ _ _ _ heq2
              cases heq1; cases heq2; exact hrest'
            · next heq => cases heq
            · next heq => cases heq
          · next heq => cases heq
          · next heq => cases heq

theorem agree_all (cf : List Scope → Scope → Bool)
    (hcf : ∀ chain s, cf chain s = true → cfAll chain s = true) : ∀ fuel, Agree cf fuel := by
  intro fuel
  induction fuel with
  | zero =>
    refine ⟨?_, ?_, ?_⟩
    · intro pl fr st e _; simp only [evalE₂, evalE]
    · intro pl fr st acc es _; simp only [evalAdds₂, evalAdds]
    · intro pl fr st b _; simp only [runBody₂, runBody]
  | succ n ih =>
    exact ⟨agree_evalE cf hcf n ih, agree_evalAdds cf n ih, agree_runBody cf n ih⟩

theorem runTop₂_eq (cf : List Scope → Scope → Bool)
    (hcf : ∀ chain s, cf chain s = true → cfAll chain s = true) (fuel : Nat) (s : Scope) (arg : Int) :
    runTop₂ cf fuel s arg = runTop fuel s arg := by
  obtain ⟨hE, _, hB⟩ := agree_all cf hcf fuel
  simp only [runTop₂, runTop]
  rw [bindParams₂_eq false _ _ _ _ (fun v _ => Priv_false _ v),
    hB false _ _ _ (fun _ _ v _ => Priv_false _ v)]
  cases runBody fuel
      (bindParams ⟨s, [], 0, []⟩ ⟨[], 1⟩ s.params (s.params.map fun _ => Val.int arg)).1
      (bindParams ⟨s, [], 0, []⟩ ⟨[], 1⟩ s.params (s.params.map fun _ => Val.int arg)).2 s.body with
  | err _ => rfl
  | ret a v _ => rfl
  | ok u frb stb =>
    simp only
    rw [hE false _ _ _ (fun v _ => Priv_false _ v)]
    cases evalE fuel frb stb s.result <;> rfl

end Gsu.LangBlocks
