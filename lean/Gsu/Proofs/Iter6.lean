/-
C09 (OverIter), part 6: the fast path (`fastNext`/`fastPrev`) refines the slow path, under the
companion invariant of the layers. Core-only.
-/
import Gsu.Proofs.Iter5
namespace Gsu.Iter

/-! ### list plumbing -/

theorem zipL_idx {f : Bool → Layer → Cur → Cur} {g : Layer → Cur} :
    ∀ (Ls : List Layer) (cs : List Cur), cs.length = Ls.length →
      (∀ (j : Nat) L c last, Ls[j]? = some L → cs[j]? = some c → f last L c = g L) →
      zipL f Ls cs = Ls.map g := by
  intro Ls
  induction Ls with
  | nil => intro cs h _; cases cs <;> simp [zipL] at *
  | cons L Ls ih =>
    intro cs h hf
    cases cs with
    | nil => simp at h
    | cons c cs =>
      have h0 := fun last => hf 0 L c last (by simp) (by simp)
      have ht := ih cs (by simpa using h) (fun j L' c' last hL hc =>
        hf (j + 1) L' c' last (by simpa using hL) (by simpa using hc))
      cases Ls with
      | nil =>
        cases cs with
        | nil => simp [zipL, h0]
        | cons _ _ => simp at h
      | cons M Ms =>
        cases cs with
        | nil => simp at h
        | cons d ds =>
          simp only [zipL, List.map_cons] at ht ⊢
          rw [h0 false, ht]

theorem ZInv_eq_map {P : Bool → Layer → Cur → Prop} {g : Layer → Cur}
    (hP : ∀ last L c, P last L c → c = g L) :
    ∀ (Ls : List Layer) (cs : List Cur), ZInv P Ls cs → cs = Ls.map g := by
  intro Ls
  induction Ls with
  | nil => intro cs h; cases cs <;> simp [ZInv] at *
  | cons L Ls ih =>
    intro cs h
    cases cs with
    | nil => cases Ls <;> simp [ZInv] at h
    | cons c cs =>
      cases Ls with
      | nil =>
        cases cs with
        | nil => simp only [ZInv] at h; simp [hP _ _ _ h]
        | cons _ _ => simp [ZInv] at h
      | cons M Ms =>
        cases cs with
        | nil => simp [ZInv] at h
        | cons d ds =>
          simp only [ZInv] at h
          have := ih (d :: ds) h.2
          rw [this, hP _ _ _ h.1]; rfl

theorem FwdInv_false {r : Rng} {ck : Key} {Ls : List Layer} {cs : List Cur}
    (h : FwdInv r ck false Ls cs) : cs = Ls.map (fun L => cB L r (.ge ck)) :=
  ZInv_eq_map (P := FwdP r ck false) (fun _ _ _ hp => by simpa [FwdP] using hp) Ls cs
    ((FwdInv_iff r ck false Ls cs).mp h)

theorem BwdInv_false {r : Rng} {ck : Key} {Ls : List Layer} {cs : List Cur}
    (h : BwdInv r ck false Ls cs) : cs = Ls.map (fun L => cP L r (.le ck)) :=
  ZInv_eq_map (P := BwdP r ck false) (fun _ _ _ hp => by simpa [BwdP] using hp) Ls cs h

/-! ### the companion invariant of the layers -/

/-- every entry that is not a plain add with a non-zero offset has an entry with the same key in
a lower layer (`compFrom`, `liveE`: `Gsu/Model/Iter.lean`) -/
def Comp (Ls : List Layer) : Prop := compFrom [] Ls = true

theorem compFrom_get : ∀ (Ls below : List Layer) (i : Nat) (L : Layer) (e : Ent),
    compFrom below Ls = true → Ls[i]? = some L → e ∈ L → liveE e = false →
    (∃ M ∈ below, ∃ e' ∈ M, e'.key = e.key) ∨
    (∃ j M, j < i ∧ Ls[j]? = some M ∧ ∃ e' ∈ M, e'.key = e.key) := by
  intro Ls
  induction Ls with
  | nil => intro below i L e _ h; simp at h
  | cons K Ks ih =>
    intro below i L e hc hi he hl
    simp only [compFrom, Bool.and_eq_true, List.all_eq_true] at hc
    cases i with
    | zero =>
      simp at hi; subst hi
      have := hc.1 e he
      simp only [hl, Bool.false_or, List.any_eq_true, decide_eq_true_eq] at this
      left; exact this
    | succ i =>
      simp only [List.getElem?_cons_succ] at hi
      rcases ih (K :: below) i L e hc.2 hi he hl with ⟨M, hM, h⟩ | ⟨j, M, hj, hM, h⟩
      · rcases List.mem_cons.mp hM with rfl | hM
        · right; exact ⟨0, M, by omega, by simp, h⟩
        · left; exact ⟨M, hM, h⟩
      · right; exact ⟨j + 1, M, by omega, by simpa using hM, h⟩

theorem Comp.get {Ls : List Layer} (h : Comp Ls) {i : Nat} {L : Layer} {e : Ent}
    (hi : Ls[i]? = some L) (he : e ∈ L) (hl : liveE e = false) :
    ∃ j M, j < i ∧ Ls[j]? = some M ∧ ∃ e' ∈ M, e'.key = e.key := by
  rcases compFrom_get Ls [] i L e h hi he hl with ⟨M, hM, _⟩ | h
  · cases hM
  · exact h

theorem liveE_val {e : Ent} (h : liveE e = true) : e.op = .add ∧ val e.op e.off = some e.off := by
  simp only [liveE, Bool.and_eq_true, decide_eq_true_eq, bne_iff_ne, ne_eq] at h
  simp [val, h.1, h.2]

/-! ### the value recorded when exactly one iterator sits on the key -/

theorem resOf_skip (k : Key) : ∀ (cs : List Cur) (r0 : Option Nat),
    (∀ d ∈ cs, d.key ≠ k) → resOf k r0 cs = r0 := by
  intro cs
  induction cs with
  | nil => intro r0 _; rfl
  | cons d ds ih =>
    intro r0 h
    simp only [resOf, h d List.mem_cons_self, if_false]
    exact ih r0 (fun x hx => h x (List.mem_cons_of_mem _ hx))

theorem resOf_unique (k : Key) : ∀ (cs : List Cur) (r0 : Option Nat) (i : Nat) (c : Cur),
    cs[i]? = some c → c.key = k → (∀ j d, cs[j]? = some d → j ≠ i → d.key ≠ k) →
    resOf k r0 cs = val c.op c.off := by
  intro cs
  induction cs with
  | nil => intro r0 i c h; simp at h
  | cons d ds ih =>
    intro r0 i c hi hk ho
    cases i with
    | zero =>
      simp at hi; subst hi
      simp only [resOf, hk, if_true]
      apply resOf_skip
      intro x hx
      obtain ⟨j, hj⟩ := List.mem_iff_getElem?.mp hx
      exact ho (j + 1) x (by simpa using hj) (by omega)
    | succ i =>
      simp only [List.getElem?_cons_succ] at hi
      have hd : d.key ≠ k := ho 0 d (by simp) (by omega)
      simp only [resOf, hd, if_false]
      exact ih r0 i c hi hk (fun j x hj hji => ho (j + 1) x (by simpa using hj) (by omega))

theorem resOfP_skip (k : Key) : ∀ (cs : List Cur) (r0 : Option Nat),
    (∀ d ∈ cs, ¬ (d.st ≠ .eof ∧ d.key = k)) → resOfP k r0 cs = r0 := by
  intro cs
  induction cs with
  | nil => intro r0 _; rfl
  | cons d ds ih =>
    intro r0 h
    simp only [resOfP]
    rw [if_neg (h d List.mem_cons_self)]
    exact ih r0 (fun x hx => h x (List.mem_cons_of_mem _ hx))

theorem resOfP_unique (k : Key) : ∀ (cs : List Cur) (r0 : Option Nat) (i : Nat) (c : Cur),
    cs[i]? = some c → c.st ≠ .eof → c.key = k →
    (∀ j d, cs[j]? = some d → j ≠ i → ¬ (d.st ≠ .eof ∧ d.key = k)) →
    resOfP k r0 cs = val c.op c.off := by
  intro cs
  induction cs with
  | nil => intro r0 i c h; simp at h
  | cons d ds ih =>
    intro r0 i c hi hne hk ho
    cases i with
    | zero =>
      simp at hi; subst hi
      simp only [resOfP]
      rw [if_pos ⟨hne, hk⟩]
      apply resOfP_skip
      intro x hx
      obtain ⟨j, hj⟩ := List.mem_iff_getElem?.mp hx
      exact ho (j + 1) x (by simpa using hj) (by omega)
    | succ i =>
      simp only [List.getElem?_cons_succ] at hi
      have hd := ho 0 d (by simp) (by omega)
      simp only [resOfP]
      rw [if_neg hd]
      exact ih r0 i c hi hne hk (fun j x hj hji => ho (j + 1) x (by simpa using hj) (by omega))

/-! ### `fastNext` -/

theorem cB_gt_key_ne {L : Layer} (r : Rng) (ck : Key) (hmax : ck < maxKey) :
    (cB L r (.gt ck)).key ≠ ck := by
  rcases cB_cases L r (.gt ck) with h | ⟨e, _, h, hok, _⟩
  · rw [h, eofC_key]; grind
  · rw [h, atE_key]; simp [Bd.ok] at hok; grind

theorem modNextCur_same2 {L : Layer} (hL : LWF L) (r : Rng) (ck : Key)
    (hend : ck < r.end_) (hmax : ck < maxKey) (d : Cur)
    (hd : d = cB L r (.ge ck) ∨ d = cB L r (.gt ck)) :
    modNextCur r ck false true L d = cB L r (.gt ck) := by
  rcases hd with rfl | rfl
  · exact modNextCur_same hL r ck hend hmax
  · simp only [modNextCur, Bool.false_eq_true, if_false, Bool.not_true]
    rw [if_neg (cB_gt_key_ne r ck hmax)]

/-- what `FastN` says about canonical cursors -/
structure FastCtx (Ls : List Layer) (r : Rng) (ck sec : Key) (i : Nat) (L : Layer) : Prop where
  wf : WF Ls
  horg : ¬ ck < r.org
  hend : ck < r.end_
  hmax : ck < maxKey
  hL : Ls[i]? = some L
  key : (cB L r (.ge ck)).key = ck
  others : ∀ j M, Ls[j]? = some M → j ≠ i → ¬ (cB M r (.ge ck)).key < sec

theorem fastCtx_of {Ls : List Layer} (hwf : WF Ls) {r : Rng} {ck sec : Key} {i : Nat}
    (hin : ¬ ck < r.org ∧ ck < r.end_ ∧ ck < maxKey)
    (hf : FastN (Ls.map (fun L => cB L r (.ge ck))) ck sec i) :
    ∃ L, FastCtx Ls r ck sec i L := by
  obtain ⟨⟨c, hc, hk⟩, ho⟩ := hf
  rw [List.getElem?_map] at hc
  cases hL : Ls[i]? with
  | none => rw [hL] at hc; simp at hc
  | some L =>
    rw [hL] at hc; simp at hc; subst hc
    refine ⟨L, hwf, hin.1, hin.2.1, hin.2.2, hL, hk, ?_⟩
    intro j M hM hji
    exact ho j _ (by rw [List.getElem?_map, hM]; rfl) hji

namespace FastCtx
variable {Ls : List Layer} {r : Rng} {ck sec : Key} {i : Nat} {L : Layer}

theorem lwf (h : FastCtx Ls r ck sec i L) {j : Nat} {M : Layer} (hM : Ls[j]? = some M) : LWF M :=
  h.wf M (List.mem_iff_getElem?.mpr ⟨j, hM⟩)

theorem getD_layer (h : FastCtx Ls r ck sec i L) : Ls.getD i [] = L := by
  rw [List.getD_eq_getElem?_getD, h.hL]; rfl

theorem getD_cur (h : FastCtx Ls r ck sec i L) :
    (Ls.map (fun L => cB L r (.ge ck))).getD i eofC = cB L r (.ge ck) := by
  rw [List.getD_eq_getElem?_getD, List.getElem?_map, h.hL]; rfl

theorem step (h : FastCtx Ls r ck sec i L) :
    curNext L r (cB L r (.ge ck)) = cB L r (.gt ck) :=
  curNext_cB L r (.ge ck) ck h.hmax h.key

theorem ilt (h : FastCtx Ls r ck sec i L) : i < Ls.length :=
  (List.getElem?_eq_some_iff.mp h.hL).1

/-- the iterators after the winner advanced: each one is canonical for `ge ck` or `gt ck` -/
theorem set_get (h : FastCtx Ls r ck sec i L) {j : Nat} {M : Layer} {d : Cur}
    (hM : Ls[j]? = some M)
    (hd : ((Ls.map (fun L => cB L r (.ge ck))).set i (cB L r (.gt ck)))[j]? = some d) :
    (j = i ∧ M = L ∧ d = cB L r (.gt ck)) ∨ (j ≠ i ∧ d = cB M r (.ge ck)) := by
  rw [List.getElem?_set] at hd
  by_cases hij : i = j
  · subst hij
    have hlt : i < (Ls.map (fun L => cB L r (.ge ck))).length := by simpa using h.ilt
    simp only [hlt, if_true] at hd
    rw [h.hL] at hM; cases hM
    left; exact ⟨rfl, rfl, by simpa using hd.symm⟩
  · simp only [hij, if_false] at hd
    rw [List.getElem?_map, hM] at hd
    right; exact ⟨fun h => hij h.symm, by simpa using hd.symm⟩

/-- the fall-back: `modNext(false)` puts every iterator past curKey … -/
theorem fallback1 (h : FastCtx Ls r ck sec i L) :
    zipL (fun last L c => modNextCur r ck (false || (last && false)) true L c) Ls
      ((Ls.map (fun L => cB L r (.ge ck))).set i (cB L r (.gt ck)))
      = Ls.map (fun L => cB L r (.gt ck)) := by
  apply zipL_idx
  · simp
  · intro j M d last hM hd
    simp only [Bool.and_false, Bool.or_false]
    apply modNextCur_same2 (h.lwf hM) r ck h.hend h.hmax
    rcases h.set_get hM hd with ⟨_, rfl, rfl⟩ | ⟨_, rfl⟩
    · right; rfl
    · left; rfl

/-- … and the second `modNext` of the slow path leaves them there -/
theorem fallback2 (hwf : WF Ls) (hend : ck < r.end_) (hmax : ck < maxKey) :
    zipL (fun last L c => modNextCur r ck (false || (last && false)) true L c) Ls
      (Ls.map (fun L => cB L r (.gt ck))) = Ls.map (fun L => cB L r (.gt ck)) := by
  apply zipL_idx
  · simp
  · intro j M d last hM hd
    simp only [Bool.and_false, Bool.or_false]
    apply modNextCur_same2 (hwf M (List.mem_iff_getElem?.mpr ⟨j, hM⟩)) r ck hend hmax
    rw [List.getElem?_map, hM] at hd
    right; simpa using hd.symm

/-- success of the fast path: the winner is still strictly below every other iterator -/
theorem others_gt (h : FastCtx Ls r ck sec i L) (hsec : ck < sec) {j : Nat} {M : Layer}
    (hM : Ls[j]? = some M) (hji : j ≠ i) :
    cB M r (.gt ck) = cB M r (.ge ck) := by
  have := h.others j M hM hji
  exact cB_gt_of_lt (h.lwf hM) r (.ge ck) ck (by simp [Bd.ok]) h.hend (by grind)

theorem set_eq_gt (h : FastCtx Ls r ck sec i L) (hsec : ck < sec) :
    (Ls.map (fun L => cB L r (.ge ck))).set i (cB L r (.gt ck))
      = Ls.map (fun L => cB L r (.gt ck)) := by
  apply List.ext_getElem?
  intro j
  cases hM : Ls[j]? with
  | none =>
    have : Ls.length ≤ j := by simpa using hM
    rw [List.getElem?_eq_none (by simpa using this), List.getElem?_eq_none (by simpa using this)]
  | some M =>
    have hlt : j < Ls.length := (List.getElem?_eq_some_iff.mp hM).1
    cases hd : ((Ls.map (fun L => cB L r (.ge ck))).set i (cB L r (.gt ck)))[j]? with
    | none =>
      have : ((Ls.map (fun L => cB L r (.ge ck))).set i (cB L r (.gt ck))).length ≤ j := by
        simpa using hd
      simp at this; omega
    | some d =>
      rw [List.getElem?_map, hM]
      rcases h.set_get hM hd with ⟨_, rfl, rfl⟩ | ⟨hji, rfl⟩
      · rfl
      · simp [h.others_gt hsec hM hji]

/-- the fast path took the step: the winner's next entry is the next live key -/
theorem success (h : FastCtx Ls r ck sec i L) (hcomp : Comp Ls)
    (hne : (cB L r (.gt ck)).st ≠ .eof) (hlt : (cB L r (.gt ck)).key < sec) :
    IsNext Ls r (.gt ck) (some ((cB L r (.gt ck)).key, (cB L r (.gt ck)).off)) ∧
    (cB L r (.gt ck)).op = .add ∧
    (¬ (cB L r (.gt ck)).key < r.org ∧ (cB L r (.gt ck)).key < r.end_ ∧
      (cB L r (.gt ck)).key < maxKey) ∧
    Ls.map (fun M => cB M r (.gt ck)) = Ls.map (fun M => cB M r (.ge (cB L r (.gt ck)).key)) ∧
    ck < sec := by
  have hLw := h.lwf h.hL
  rcases cB_cases L r (.gt ck) with hc | ⟨e, he, hc, hok, hee⟩
  · rw [hc] at hne; exact absurd rfl hne
  rw [hc] at hlt ⊢
  simp only [atE_key] at hlt ⊢
  have hck : ck < e.key := by simpa [Bd.ok] using hok
  have hsec : ck < sec := by grind
  have hmaxe := hLw.ltmax e he
  -- every other canonical cursor is above the winner's key
  have hoth : ∀ j M, Ls[j]? = some M → j ≠ i → e.key < (cB M r (.gt ck)).key := by
    intro j M hM hji
    rw [h.others_gt hsec hM hji]
    have := h.others j M hM hji
    grind
  have hge : ∀ M ∈ Ls, ¬ (cB M r (.gt ck)).key < e.key := by
    intro M hM
    obtain ⟨j, hj⟩ := List.mem_iff_getElem?.mp hM
    by_cases hji : j = i
    · subst hji; rw [h.hL] at hj; cases hj; rw [hc, atE_key]; grind
    · have := hoth j M hj hji; grind
  -- the value
  have hres : sem Ls e.key = val e.op e.off := by
    have h1 := resOf_top h.wf r (.gt ck) e.key hok hee hmaxe hge none
    have h2 : sem Ls e.key = resOf e.key none (Ls.map (fun M => cB M r (.gt ck))) := by
      rw [h1]; unfold sem; cases top Ls e.key <;> rfl
    rw [h2]
    apply resOf_unique e.key _ none i (atE e)
    · rw [List.getElem?_map, h.hL]; simp [hc]
    · rfl
    · intro j d hd hji
      rw [List.getElem?_map] at hd
      cases hM : Ls[j]? with
      | none => rw [hM] at hd; simp at hd
      | some M =>
        rw [hM] at hd; simp at hd; subst hd
        have := hoth j M hM hji; grind
  -- the entry is a plain add
  have hlive : liveE e = true := by
    cases hl : liveE e with
    | true => rfl
    | false =>
      exfalso
      obtain ⟨j, M, hji, hM, e', he', hk'⟩ := hcomp.get h.hL he hl
      have h1 := cB_least (h.lwf hM) r (.gt ck) e' he' (by rw [hk']; exact hok) (by rw [hk']; exact hee)
      have h2 := hoth j M hM (by omega)
      grind
  obtain ⟨hop, hval⟩ := liveE_val hlive
  refine ⟨⟨hok, hee, ?_, ?_⟩, ?_, ⟨gt_org h.horg _ hok, hee, hmaxe⟩, ?_, hsec⟩
  · rw [hres, hval]; rfl
  · intro k' hk' hke' hs'
    exact cB_cover h.wf r (.gt ck) e.key hge k' hk' hke' hs'
  · exact hop
  · apply List.map_congr_left
    intro M hM
    exact (cB_ge_of_le (h.wf M hM) r (.gt ck) e.key hok hee (hge M hM)).symm

theorem fastN_after (h : FastCtx Ls r ck sec i L) :
    FastN ((Ls.map (fun L => cB L r (.ge ck))).set i (cB L r (.gt ck)))
      (cB L r (.gt ck)).key sec i := by
  constructor
  · refine ⟨_, List.getElem?_set_self (by simpa using h.ilt), rfl⟩
  · intro j d hd hji
    rw [List.getElem?_set_ne (fun h => hji h.symm), List.getElem?_map] at hd
    cases hM : Ls[j]? with
    | none => rw [hM] at hd; simp at hd
    | some M =>
      rw [hM] at hd; simp at hd; subst hd
      exact h.others j M hM hji

end FastCtx

/-! ### `fastPrev` -/

theorem cP_lt_key_ne {L : Layer} (hL : LWF L) (r : Rng) (ck : Key) (hmax : ck < maxKey) :
    (cP L r (.lt ck)).key ≠ ck := by
  rcases cP_cases hL r (.lt ck) with h | ⟨e, _, h, hok, _⟩
  · rw [h, eofC_key]; grind
  · rw [h, atE_key]; simp [Bu.ok] at hok; grind

theorem modPrevCur_same2 {L : Layer} (hL : LWF L) (r : Rng) (ck : Key) (horg : ¬ ck < r.org)
    (hend : ck < r.end_) (hmax : ck < maxKey) (d : Cur)
    (hd : d = cP L r (.le ck) ∨ d = cP L r (.lt ck)) :
    modPrevCur r ck false true L d = cP L r (.lt ck) := by
  rcases hd with rfl | rfl
  · exact modPrevCur_same hL r ck horg hend hmax
  · simp only [modPrevCur, Bool.false_eq_true, if_false, Bool.not_true]
    rw [if_neg (cP_lt_key_ne hL r ck hmax)]

theorem cP_le_of_ge {M : Layer} (hM : LWF M) (r : Rng) (bu : Bu) (m : Key)
    (hok : bu.ok m = true) (horg : ¬ m < r.org)
    (hle : (cP M r bu).st = .within → ¬ m < (cP M r bu).key) :
    cP M r (.le m) = cP M r bu := by
  apply cP_congr
  intro x hx
  simp only [le_ok]
  by_cases hx1 : m < x.key
  · have : bu.ok x.key = false := by
      cases hb : bu.ok x.key with
      | false => rfl
      | true =>
        have h1 := cP_greatest hM r bu x hx hb (by grind)
        have h2 := hle h1.1
        grind
    simp [hx1, this]
  · have : bu.ok x.key = true := by
      by_cases hx2 : x.key = m
      · rw [hx2]; exact hok
      · exact bu_mono hok (by grind)
    simp [hx1, this]

structure FastCtxP (Ls : List Layer) (r : Rng) (ck sec : Key) (i : Nat) (L : Layer) : Prop where
  wf : WF Ls
  horg : ¬ ck < r.org
  hend : ck < r.end_
  hmax : ck < maxKey
  hL : Ls[i]? = some L
  key : (cP L r (.le ck)).key = ck
  others : ∀ j M, Ls[j]? = some M → j ≠ i → (cP M r (.le ck)).st ≠ .eof →
    ¬ sec < (cP M r (.le ck)).key

theorem fastCtxP_of {Ls : List Layer} (hwf : WF Ls) {r : Rng} {ck sec : Key} {i : Nat}
    (hin : ¬ ck < r.org ∧ ck < r.end_ ∧ ck < maxKey)
    (hf : FastP (Ls.map (fun L => cP L r (.le ck))) ck sec i) :
    ∃ L, FastCtxP Ls r ck sec i L := by
  obtain ⟨⟨c, hc, _, hk⟩, ho⟩ := hf
  rw [List.getElem?_map] at hc
  cases hL : Ls[i]? with
  | none => rw [hL] at hc; simp at hc
  | some L =>
    rw [hL] at hc; simp at hc; subst hc
    refine ⟨L, hwf, hin.1, hin.2.1, hin.2.2, hL, hk, ?_⟩
    intro j M hM hji
    exact ho j _ (by rw [List.getElem?_map, hM]; rfl) hji

namespace FastCtxP
variable {Ls : List Layer} {r : Rng} {ck sec : Key} {i : Nat} {L : Layer}

theorem lwf (h : FastCtxP Ls r ck sec i L) {j : Nat} {M : Layer} (hM : Ls[j]? = some M) : LWF M :=
  h.wf M (List.mem_iff_getElem?.mpr ⟨j, hM⟩)

theorem getD_layer (h : FastCtxP Ls r ck sec i L) : Ls.getD i [] = L := by
  rw [List.getD_eq_getElem?_getD, h.hL]; rfl

theorem getD_cur (h : FastCtxP Ls r ck sec i L) :
    (Ls.map (fun L => cP L r (.le ck))).getD i eofC = cP L r (.le ck) := by
  rw [List.getD_eq_getElem?_getD, List.getElem?_map, h.hL]; rfl

theorem step (h : FastCtxP Ls r ck sec i L) :
    curPrev L r (cP L r (.le ck)) = cP L r (.lt ck) :=
  curPrev_cP (h.lwf h.hL) r (.le ck) ck h.hmax (by have := h.hend; grind) h.key

theorem ilt (h : FastCtxP Ls r ck sec i L) : i < Ls.length :=
  (List.getElem?_eq_some_iff.mp h.hL).1

theorem set_get (h : FastCtxP Ls r ck sec i L) {j : Nat} {M : Layer} {d : Cur}
    (hM : Ls[j]? = some M)
    (hd : ((Ls.map (fun L => cP L r (.le ck))).set i (cP L r (.lt ck)))[j]? = some d) :
    (j = i ∧ M = L ∧ d = cP L r (.lt ck)) ∨ (j ≠ i ∧ d = cP M r (.le ck)) := by
  rw [List.getElem?_set] at hd
  by_cases hij : i = j
  · subst hij
    have hlt : i < (Ls.map (fun L => cP L r (.le ck))).length := by simpa using h.ilt
    simp only [hlt, if_true] at hd
    rw [h.hL] at hM; cases hM
    left; exact ⟨rfl, rfl, by simpa using hd.symm⟩
  · simp only [hij, if_false] at hd
    rw [List.getElem?_map, hM] at hd
    right; exact ⟨fun h => hij h.symm, by simpa using hd.symm⟩

theorem fallback1 (h : FastCtxP Ls r ck sec i L) :
    zipL (fun last L c => modPrevCur r ck (false || (last && false)) true L c) Ls
      ((Ls.map (fun L => cP L r (.le ck))).set i (cP L r (.lt ck)))
      = Ls.map (fun L => cP L r (.lt ck)) := by
  apply zipL_idx
  · simp
  · intro j M d last hM hd
    simp only [Bool.and_false, Bool.or_false]
    apply modPrevCur_same2 (h.lwf hM) r ck h.horg h.hend h.hmax
    rcases h.set_get hM hd with ⟨_, rfl, rfl⟩ | ⟨_, rfl⟩
    · right; rfl
    · left; rfl

theorem fallback2 (hwf : WF Ls) (horg : ¬ ck < r.org) (hend : ck < r.end_) (hmax : ck < maxKey) :
    zipL (fun last L c => modPrevCur r ck (false || (last && false)) true L c) Ls
      (Ls.map (fun L => cP L r (.lt ck))) = Ls.map (fun L => cP L r (.lt ck)) := by
  apply zipL_idx
  · simp
  · intro j M d last hM hd
    simp only [Bool.and_false, Bool.or_false]
    apply modPrevCur_same2 (hwf M (List.mem_iff_getElem?.mpr ⟨j, hM⟩)) r ck horg hend hmax
    rw [List.getElem?_map, hM] at hd
    right; simpa using hd.symm

theorem others_lt (h : FastCtxP Ls r ck sec i L) (hsec : sec < ck) {j : Nat} {M : Layer}
    (hM : Ls[j]? = some M) (hji : j ≠ i) :
    cP M r (.le ck) = cP M r (.lt ck) := by
  apply cP_le_eq_lt (h.lwf hM) r ck h.horg
  rcases cP_st M r (.le ck) with ⟨_, he⟩ | hw
  · rw [he, eofC_key]; have := h.hmax; grind
  · have := h.others j M hM hji (by rw [hw]; simp)
    grind

theorem set_eq_lt (h : FastCtxP Ls r ck sec i L) (hsec : sec < ck) :
    (Ls.map (fun L => cP L r (.le ck))).set i (cP L r (.lt ck))
      = Ls.map (fun L => cP L r (.lt ck)) := by
  apply List.ext_getElem?
  intro j
  cases hM : Ls[j]? with
  | none =>
    have : Ls.length ≤ j := by simpa using hM
    rw [List.getElem?_eq_none (by simpa using this), List.getElem?_eq_none (by simpa using this)]
  | some M =>
    have hlt : j < Ls.length := (List.getElem?_eq_some_iff.mp hM).1
    cases hd : ((Ls.map (fun L => cP L r (.le ck))).set i (cP L r (.lt ck)))[j]? with
    | none =>
      have : ((Ls.map (fun L => cP L r (.le ck))).set i (cP L r (.lt ck))).length ≤ j := by
        simpa using hd
      simp at this; omega
    | some d =>
      rw [List.getElem?_map, hM]
      rcases h.set_get hM hd with ⟨_, rfl, rfl⟩ | ⟨hji, rfl⟩
      · rfl
      · simp [h.others_lt hsec hM hji]

theorem success (h : FastCtxP Ls r ck sec i L) (hcomp : Comp Ls)
    (hne : (cP L r (.lt ck)).st ≠ .eof) (hlt : sec < (cP L r (.lt ck)).key) :
    IsPrev Ls r (.lt ck) (some ((cP L r (.lt ck)).key, (cP L r (.lt ck)).off)) ∧
    (cP L r (.lt ck)).op = .add ∧
    (¬ (cP L r (.lt ck)).key < r.org ∧ (cP L r (.lt ck)).key < r.end_ ∧
      (cP L r (.lt ck)).key < maxKey) ∧
    Ls.map (fun M => cP M r (.lt ck)) = Ls.map (fun M => cP M r (.le (cP L r (.lt ck)).key)) ∧
    sec < ck := by
  have hLw := h.lwf h.hL
  rcases cP_cases hLw r (.lt ck) with hc | ⟨e, he, hc, hok, hee⟩
  · rw [hc] at hne; exact absurd rfl hne
  rw [hc] at hlt ⊢
  simp only [atE_key] at hlt ⊢
  have hck : e.key < ck := by simpa [Bu.ok] using hok
  have hsec : sec < ck := by grind
  have hmaxe := hLw.ltmax e he
  have hoth : ∀ j M, Ls[j]? = some M → j ≠ i → (cP M r (.lt ck)).st ≠ .eof →
      (cP M r (.lt ck)).key < e.key := by
    intro j M hM hji hst
    rw [← h.others_lt hsec hM hji] at hst ⊢
    have := h.others j M hM hji hst
    grind
  have hle : ∀ M ∈ Ls, (cP M r (.lt ck)).st = .within → ¬ e.key < (cP M r (.lt ck)).key := by
    intro M hM hw
    obtain ⟨j, hj⟩ := List.mem_iff_getElem?.mp hM
    by_cases hji : j = i
    · subst hji; rw [h.hL] at hj; cases hj; rw [hc, atE_key]; grind
    · have := hoth j M hj hji (by rw [hw]; simp); grind
  have hres : sem Ls e.key = val e.op e.off := by
    have h1 := resOfP_top h.wf r (.lt ck) e.key hok hee hle none
    have h2 : sem Ls e.key = resOfP e.key none (Ls.map (fun M => cP M r (.lt ck))) := by
      rw [h1]; unfold sem; cases top Ls e.key <;> rfl
    rw [h2]
    apply resOfP_unique e.key _ none i (atE e)
    · rw [List.getElem?_map, h.hL]; simp [hc]
    · simp [atE]
    · rfl
    · intro j d hd hji
      rw [List.getElem?_map] at hd
      cases hM : Ls[j]? with
      | none => rw [hM] at hd; simp at hd
      | some M =>
        rw [hM] at hd; simp at hd; subst hd
        intro hh
        have := hoth j M hM hji hh.1; grind
  have hlive : liveE e = true := by
    cases hl : liveE e with
    | true => rfl
    | false =>
      exfalso
      obtain ⟨j, M, hji, hM, e', he', hk'⟩ := hcomp.get h.hL he hl
      have h1 := cP_greatest (h.lwf hM) r (.lt ck) e' he' (by rw [hk']; exact hok)
        (by rw [hk']; exact hee)
      have h2 := hoth j M hM (by omega) (by rw [h1.1]; simp)
      grind
  obtain ⟨hop, hval⟩ := liveE_val hlive
  refine ⟨⟨hok, hee, ?_, ?_⟩, ?_, ⟨hee, by have := h.hend; grind, hmaxe⟩, ?_, hsec⟩
  · rw [hres, hval]; rfl
  · intro k' hk' hko' hs'
    exact cP_cover h.wf r (.lt ck) e.key hle k' hk' hko' hs'
  · exact hop
  · apply List.map_congr_left
    intro M hM
    exact (cP_le_of_ge (h.wf M hM) r (.lt ck) e.key hok hee (hle M hM)).symm

theorem fastP_after (h : FastCtxP Ls r ck sec i L) (hne : (cP L r (.lt ck)).st ≠ .eof) :
    FastP ((Ls.map (fun L => cP L r (.le ck))).set i (cP L r (.lt ck)))
      (cP L r (.lt ck)).key sec i := by
  constructor
  · refine ⟨_, List.getElem?_set_self (by simpa using h.ilt), hne, rfl⟩
  · intro j d hd hji
    rw [List.getElem?_set_ne (fun h => hji h.symm), List.getElem?_map] at hd
    cases hM : Ls[j]? with
    | none => rw [hM] at hd; simp at hd
    | some M =>
      rw [hM] at hd; simp at hd; subst hd
      exact h.others j M hM hji

end FastCtxP

end Gsu.Iter
