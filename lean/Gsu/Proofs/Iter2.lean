/-
C09 (OverIter), part 2: canonical backward cursors, per-layer lemmas for `curPrev`/`modPrevCur`,
direction reversal per layer. Core-only.
-/
import Gsu.Proofs.Iter
namespace Gsu.Iter

/-! ### backward canonical cursors -/

/-- upper bound of a backward step -/
inductive Bu | le (k : Key) | lt (k : Key)
  deriving Repr

def Bu.ok : Bu → Key → Bool
  | .le b, k => !(b < k)
  | .lt b, k => k < b

/-- canonical backward cursor: last entry satisfying the bound, eof when it is below the range -/
def cP (L : Layer) (r : Rng) (bu : Bu) : Cur :=
  match L.reverse.find? (fun e => bu.ok e.key) with
  | some e => if e.key < r.org then eofC else atE e
  | none => eofC

theorem bu_mono {bu : Bu} {m k : Key} (h : bu.ok m = true) (hk : k < m) : bu.ok k = true := by
  cases bu <;> simp [Bu.ok] at * <;> grind

theorem bu_not {bu : Bu} {m x : Key} (h : bu.ok m = true) (hx : bu.ok x = false) : m < x := by
  cases bu <;> simp [Bu.ok] at * <;> grind

/-- relational description of the canonical backward cursor -/
def PSpec (L : Layer) (r : Rng) (bu : Bu) (c : Cur) : Prop :=
  (c = eofC ∧ ∀ e ∈ L, bu.ok e.key = true → e.key < r.org) ∨
  (∃ e ∈ L, c = atE e ∧ bu.ok e.key = true ∧ ¬ e.key < r.org ∧
     ∀ e' ∈ L, bu.ok e'.key = true → ¬ e.key < e'.key)

theorem rfind_some {L : Layer} (hL : SortedL L) {p : Ent → Bool} {e : Ent}
    (h : L.reverse.find? p = some e) :
    e ∈ L ∧ p e = true ∧ ∀ e' ∈ L, p e' = true → ¬ e.key < e'.key := by
  obtain ⟨hp, as, bs, hxs, hno⟩ := List.find?_eq_some_iff_append.mp h
  have hL' : L = bs.reverse ++ e :: as.reverse := by
    have := congrArg List.reverse hxs
    simpa using this
  subst hL'
  refine ⟨by simp, hp, ?_⟩
  intro e' he' hpe'
  have hpw := List.pairwise_append.mp hL
  rcases List.mem_append.mp he' with h1 | h1
  · have := hpw.2.2 e' h1 e (by simp); grind
  · rcases List.mem_cons.mp h1 with rfl | h2
    · grind
    · have := hno e' (by simpa using h2); simp [hpe'] at this

theorem rfind_none {L : Layer} {p : Ent → Bool} (h : L.reverse.find? p = none) :
    ∀ e ∈ L, p e = false := by
  intro e he
  have := List.find?_eq_none.mp h e (by simpa using he)
  simpa using this

theorem cP_spec {L : Layer} (hL : LWF L) (r : Rng) (bu : Bu) : PSpec L r bu (cP L r bu) := by
  unfold cP
  cases hf : L.reverse.find? (fun e => bu.ok e.key) with
  | none =>
    left; refine ⟨rfl, ?_⟩
    intro e he hok; have := rfind_none hf e he; simp [hok] at this
  | some e =>
    obtain ⟨hem, hp, hmax⟩ := rfind_some hL.sorted hf
    by_cases ho : e.key < r.org
    · left; simp only; rw [if_pos ho]; refine ⟨rfl, ?_⟩
      intro e' he' hok'; have := hmax e' he' hok'; grind
    · right; simp only; rw [if_neg ho]
      exact ⟨e, hem, rfl, hp, ho, hmax⟩

theorem PSpec_unique {L : Layer} (hL : LWF L) {r : Rng} {bu : Bu} {c d : Cur}
    (hc : PSpec L r bu c) (hd : PSpec L r bu d) : c = d := by
  rcases hc with ⟨rfl, h1⟩ | ⟨e, he, rfl, hok, ho, hm⟩ <;>
    rcases hd with ⟨rfl, h2⟩ | ⟨e', he', rfl, hok', ho', hm'⟩
  · rfl
  · exact absurd (h1 e' he' hok') ho'
  · exact absurd (h2 e he hok) ho
  · have h1 := hm e' he' hok'
    have h2 := hm' e he hok
    have : e.key = e'.key := by grind
    rw [sorted_key_inj hL.sorted he he' this]

theorem cP_eq {L : Layer} (hL : LWF L) {r : Rng} {bu : Bu} {c : Cur} (hc : PSpec L r bu c) :
    c = cP L r bu := PSpec_unique hL hc (cP_spec hL r bu)

theorem cP_cases {L : Layer} (hL : LWF L) (r : Rng) (bu : Bu) :
    cP L r bu = eofC ∨ ∃ e ∈ L, cP L r bu = atE e ∧ bu.ok e.key = true ∧ ¬ e.key < r.org := by
  rcases cP_spec hL r bu with ⟨h, _⟩ | ⟨e, he, h, h1, h2, _⟩
  · left; exact h
  · right; exact ⟨e, he, h, h1, h2⟩

/-- no entry satisfying the bound and inside the range lies above the canonical cursor -/
theorem cP_greatest {L : Layer} (hL : LWF L) (r : Rng) (bu : Bu) :
    ∀ e ∈ L, bu.ok e.key = true → ¬ e.key < r.org →
      (cP L r bu).st = .within ∧ ¬ (cP L r bu).key < e.key := by
  intro e he hok ho
  rcases cP_spec hL r bu with ⟨_, h1⟩ | ⟨e', he', h, _, _, hm⟩
  · exact absurd (h1 e he hok) ho
  · rw [h]; exact ⟨rfl, hm e he hok⟩

theorem cP_st (L : Layer) (r : Rng) (bu : Bu) :
    (cP L r bu).st = .eof ∧ cP L r bu = eofC ∨ (cP L r bu).st = .within := by
  unfold cP; split
  · split
    · left; exact ⟨rfl, rfl⟩
    · right; rfl
  · left; exact ⟨rfl, rfl⟩


/-! ### changing the bound without moving the cursor -/

theorem find?_congr' {α} {p q : α → Bool} {l : List α} (h : ∀ x ∈ l, p x = q x) :
    l.find? p = l.find? q := by
  induction l with
  | nil => rfl
  | cons x xs ih =>
    simp only [List.find?_cons, h x List.mem_cons_self]
    rw [ih (fun y hy => h y (List.mem_cons_of_mem _ hy))]

theorem cP_congr {L : Layer} (r : Rng) {bu bu' : Bu}
    (h : ∀ e ∈ L, bu.ok e.key = bu'.ok e.key) : cP L r bu = cP L r bu' := by
  unfold cP
  have : L.reverse.find? (fun e => bu.ok e.key) = L.reverse.find? (fun e => bu'.ok e.key) :=
    find?_congr' (fun e he => h e (by simpa using he))
  rw [this]

theorem cB_congr {L : Layer} (r : Rng) {bd bd' : Bd}
    (h : ∀ e ∈ L, bd.ok e.key = bd'.ok e.key) : cB L r bd = cB L r bd' := by
  unfold cB
  have : L.find? (fun e => bd.ok e.key) = L.find? (fun e => bd'.ok e.key) :=
    find?_congr' (fun e he => h e he)
  rw [this]

theorem lt_ok (k x : Key) : (Bu.lt k).ok x = decide (x < k) := rfl
theorem le_ok (k x : Key) : (Bu.le k).ok x = !decide (k < x) := rfl
theorem gt_ok (k x : Key) : (Bd.gt k).ok x = decide (k < x) := rfl

/-- entries of the layer that satisfy the bound are not below the canonical forward cursor -/
theorem cB_least' {L : Layer} (hL : LWF L) (r : Rng) (bd : Bd) {e : Ent} (he : e ∈ L)
    (hok : bd.ok e.key = true) (hk : (cB L r bd).key < r.end_ ∨ e.key < r.end_) :
    ¬ e.key < (cB L r bd).key := by
  by_cases hend : e.key < r.end_
  · exact (cB_least hL r bd e he hok hend).2
  · rcases hk with hk | hk
    · grind
    · exact absurd hk hend

theorem curNext_within (L : Layer) (r : Rng) (c : Cur) (h : c.st = .within) :
    curNext L r c = cB L r (.gt c.key) := by
  unfold curNext firstGT cB
  rw [h]
  simp only [Bd.ok]
  cases List.find? (fun x => decide (c.key < x.key)) L <;> rfl

theorem curNext_atE (L : Layer) (r : Rng) (e : Ent) : curNext L r (atE e) = cB L r (.gt e.key) :=
  curNext_within L r (atE e) rfl

/-! ### `curPrev` on canonical cursors -/

theorem stepBack_cP (L : Layer) (r : Rng) (k : Key) (hk : ¬ r.end_ < k) :
    stepBack L r k = cP L r (.lt k) := by
  unfold stepBack cP lastLT
  simp only [lt_ok]
  cases hf : L.reverse.find? (fun e => decide (e.key < k)) with
  | none => rfl
  | some e =>
    have hek : e.key < k := by simpa using List.find?_some hf
    have : e.key < r.end_ := by grind
    by_cases ho : e.key < r.org <;> simp [inRng, ho, this]

theorem curPrev_within (L : Layer) (r : Rng) (c : Cur) (h : c.st = .within) :
    curPrev L r c = stepBack L r c.key := by
  simp only [curPrev, h]

theorem curPrev_cP {L : Layer} (hL : LWF L) (r : Rng) (bu : Bu) (m : Key) (hm : m < maxKey)
    (hend : ¬ r.end_ < m) (h : (cP L r bu).key = m) :
    curPrev L r (cP L r bu) = cP L r (.lt m) := by
  rcases cP_cases hL r bu with he | ⟨e, _, he, _, _⟩
  · rw [he] at h; simp [eofC] at h; subst h; exact absurd hm (by grind)
  · rw [he] at h ⊢
    rw [curPrev_within L r (atE e) rfl, h]
    exact stepBack_cP L r m hend

theorem stepBack_eof (L : Layer) (r : Rng) (k : Key) (hk : ¬ r.org < k) :
    stepBack L r k = eofC := by
  unfold stepBack lastLT
  cases hf : L.reverse.find? (fun e => decide (e.key < k)) with
  | none => rfl
  | some e =>
    have hek : e.key < k := by simpa using List.find?_some hf
    have : e.key < r.org := by grind
    simp [inRng, this]

theorem firstGE_split {L : Layer} (hL : SortedL L) {k : Key} {e : Ent} (h : firstGE L k = some e) :
    e ∈ L ∧ ¬ e.key < k ∧ ∀ x ∈ L, (x.key < e.key ↔ x.key < k) := by
  unfold firstGE at h
  obtain ⟨hp, as, bs, rfl, hno⟩ := List.find?_eq_some_iff_append.mp h
  have hek : ¬ e.key < k := by simpa using hp
  refine ⟨by simp, hek, ?_⟩
  intro x hx
  have hpw := List.pairwise_append.mp hL
  constructor
  · intro hlt
    rcases List.mem_append.mp hx with h1 | h1
    · simpa using hno x h1
    · rcases List.mem_cons.mp h1 with rfl | h2
      · grind
      · have := (List.pairwise_cons.mp hpw.2.1).1 x h2; grind
  · intro hlt; grind

theorem curPrev_rew_eq (L : Layer) (r : Rng) (c : Cur) (h : c.st = .rewound) :
    curPrev L r c = (if (seekAll L r.end_).st = .eof then seekAll L r.end_
      else if inRng r (seekAll L r.end_).key then seekAll L r.end_
      else stepBack L r (seekAll L r.end_).key) := by
  simp only [curPrev, h]

/-- `Prev` on a rewound iterator positions it on the last entry of the range -/
theorem curPrev_rewound {L : Layer} (hL : LWF L) (r : Rng) (c : Cur) (h : c.st = .rewound) :
    curPrev L r c = cP L r (.lt r.end_) := by
  rw [curPrev_rew_eq L r c h]
  cases hf : firstGE L r.end_ with
  | some e =>
    obtain ⟨hem, hge, hiff⟩ := firstGE_split hL.sorted hf
    have hs : seekAll L r.end_ = atE e := by simp [seekAll, hf]
    have hin : inRng r e.key = false := by simp [inRng, hge]
    rw [hs, if_neg (by simp [atE]), atE_key, if_neg (by simp [hin])]
    have : stepBack L r e.key = stepBack L r r.end_ := by
      unfold stepBack lastLT
      have : L.reverse.find? (fun x => decide (x.key < e.key)) =
          L.reverse.find? (fun x => decide (x.key < r.end_)) :=
        find?_congr' (fun x hx => by
          have := hiff x (by simpa using hx); simp [this])
      rw [this]
    rw [this]
    exact stepBack_cP L r r.end_ (by grind)
  | none =>
    have hall : ∀ e ∈ L, e.key < r.end_ := by
      intro e he; simpa [firstGE] using List.find?_eq_none.mp hf e he
    cases hl : L.getLast? with
    | none =>
      have : L = [] := by simpa using hl
      subst this; rfl
    | some e =>
      have hem : e ∈ L := List.mem_of_getLast? hl
      have hmaxe := sorted_last_max hL.sorted hl
      have hs : seekAll L r.end_ = atE e := by simp [seekAll, hf, hl]
      rw [hs, if_neg (by simp [atE]), atE_key]
      by_cases ho : e.key < r.org
      · have hin : inRng r e.key = false := by simp [inRng, ho]
        rw [if_neg (by simp [hin]), stepBack_eof L r e.key (by grind)]
        apply cP_eq hL
        left; refine ⟨rfl, ?_⟩
        intro x hx _; have := hmaxe x hx; grind
      · have hin : inRng r e.key = true := by simp [inRng, ho, hall e hem]
        rw [if_pos hin]
        apply cP_eq hL
        right
        exact ⟨e, hem, rfl, by simpa [lt_ok] using hall e hem, ho, fun x hx _ => hmaxe x hx⟩

/-! ### positioning the cursors for a backward step (`modPrev`) -/

theorem curSeek_within {L : Layer} {r : Rng} {k : Key} {e : Ent} (h : curSeek L r k = atE e) :
    inRng r e.key = true := by
  unfold curSeek at h
  by_cases hin : inRng r (seekAll L k).key = true
  · simp only [hin, if_true] at h; rw [h] at hin; exact hin
  · simp [hin, eofC, atE] at h

/-- the re-seek of `modPrev` after `Seek(curKey)` landed on `c1` -/
def prevFix (L : Layer) (r : Rng) (ck : Key) (c1 : Cur) : Cur :=
  let c2 := if c1.st = .eof then curRewind c1 else c1
  if !(c2.key < ck) then curPrev L r c2 else c2

theorem modPrevCur_seek_eq (L : Layer) (r : Rng) (ck : Key) (ld : Bool) (c : Cur) :
    modPrevCur r ck true ld L c = prevFix L r ck (curSeek L r ck) := rfl

theorem prevFix_eof (L : Layer) (r : Rng) (ck : Key) (hmax : ck < maxKey) :
    prevFix L r ck eofC = curPrev L r (curRewind eofC) := by
  have : ¬ maxKey < ck := by grind
  simp [prevFix, eofC, curRewind, this]

theorem prevFix_atE (L : Layer) (r : Rng) (ck : Key) (e : Ent) :
    prevFix L r ck (atE e) = if e.key < ck then atE e else stepBack L r e.key := by
  have h1 : (if (atE e).st = .eof then curRewind (atE e) else atE e) = atE e := by simp [atE]
  simp only [prevFix, h1, atE_key, curPrev_within L r (atE e) rfl]
  by_cases h : e.key < ck <;> simp [h]

/-- no entry of the layer in `[ck, end)`: the last entry below `end` is the last entry below `ck` -/
theorem cP_lt_of_cB_eof {L : Layer} (hL : LWF L) (r : Rng) (ck : Key) (hend : ck < r.end_)
    (hc : cB L r (.ge ck) = eofC) : cP L r (.lt r.end_) = cP L r (.lt ck) := by
  apply cP_congr
  intro x hx
  simp only [lt_ok]
  by_cases hx1 : x.key < ck
  · have : x.key < r.end_ := by grind
    simp [hx1, this]
  · have : ¬ x.key < r.end_ := by
      intro hxe
      have := (cB_least hL r (.ge ck) x hx (by simpa [Bd.ok] using hx1) hxe).1
      rw [hc] at this; simp [eofC] at this
    simp [hx1, this]

/-- the first entry ≥ ck is `e`: the last entry below `e` is the last entry below `ck` -/
theorem cP_lt_of_cB_at {L : Layer} (hL : LWF L) (r : Rng) (ck : Key) {e : Ent}
    (hc : cB L r (.ge ck) = atE e) (hok : (Bd.ge ck).ok e.key = true) (hee : e.key < r.end_) :
    cP L r (.lt e.key) = cP L r (.lt ck) := by
  have hek : ¬ e.key < ck := by simpa [Bd.ok] using hok
  apply cP_congr
  intro x hx
  simp only [lt_ok]
  by_cases hx1 : x.key < ck
  · have : x.key < e.key := by grind
    simp [hx1, this]
  · have hcl := cB_least' hL r (.ge ck) hx (by simpa [Bd.ok] using hx1)
      (Or.inl (by rw [hc]; exact hee))
    rw [hc] at hcl
    simp only [atE_key] at hcl
    simp [hx1, hcl]

theorem modPrevCur_seek {L : Layer} (hL : LWF L) (r : Rng) (ck : Key) (horg : ¬ ck < r.org)
    (hend : ck < r.end_) (hmax : ck < maxKey) (ld : Bool) (c : Cur) :
    modPrevCur r ck true ld L c = cP L r (.lt ck) := by
  rw [modPrevCur_seek_eq]
  rcases curSeek_cases hL r ck horg with h | ⟨hgt, e, he, h, hlt, hmaxe⟩
  · rw [h]
    rcases cB_cases L r (.ge ck) with hc | ⟨e, he, hc, hok, hee⟩
    · -- nothing in [ck, end): rewind, Prev
      rw [hc, prevFix_eof L r ck hmax, curPrev_rewound hL r _ rfl]
      exact cP_lt_of_cB_eof hL r ck hend hc
    · have hek : ¬ e.key < ck := by simpa [Bd.ok] using hok
      rw [hc, prevFix_atE, if_neg hek, stepBack_cP L r e.key (by grind)]
      exact cP_lt_of_cB_at hL r ck hc hok hee
  · have hin := curSeek_within h
    rw [h, prevFix_atE, if_pos hlt]
    apply cP_eq hL
    right
    refine ⟨e, he, rfl, by simpa [lt_ok] using hlt, by simp [inRng] at hin; exact hin.1, ?_⟩
    intro x hx _; exact hmaxe x hx

theorem cP_le_key_le {L : Layer} (hL : LWF L) (r : Rng) (k : Key) (h : (cP L r (.le k)).st = .within) :
    ¬ k < (cP L r (.le k)).key := by
  rcases cP_cases hL r (.le k) with he | ⟨e, _, he, h1, _⟩
  · rw [he] at h; simp [eofC] at h
  · rw [he, atE_key]; simpa [Bu.ok] using h1

theorem cP_key_max {L : Layer} (r : Rng) (bu : Bu) (h : (cP L r bu).st ≠ .within) :
    cP L r bu = eofC := by
  rcases cP_st L r bu with ⟨_, h1⟩ | h1
  · exact h1
  · exact absurd h1 h

/-- an entry with key `ck` would be the canonical cursor for `le ck` -/
theorem cP_le_eq_lt {L : Layer} (hL : LWF L) (r : Rng) (ck : Key) (horg : ¬ ck < r.org)
    (hk : (cP L r (.le ck)).key ≠ ck) : cP L r (.le ck) = cP L r (.lt ck) := by
  apply cP_congr
  intro x hx
  simp only [le_ok, lt_ok]
  by_cases hx1 : x.key < ck
  · have : ¬ ck < x.key := by grind
    simp [hx1, this]
  · by_cases hx2 : ck < x.key
    · simp [hx1, hx2]
    · exfalso
      have hxe : x.key = ck := by grind
      have h1 := cP_greatest hL r (.le ck) x hx (by simp [Bu.ok, hx2]) (by rw [hxe]; exact horg)
      have h2 := cP_le_key_le hL r ck h1.1
      grind

theorem modPrevCur_same {L : Layer} (hL : LWF L) (r : Rng) (ck : Key) (horg : ¬ ck < r.org)
    (hend : ck < r.end_) (hmax : ck < maxKey) :
    modPrevCur r ck false true L (cP L r (.le ck)) = cP L r (.lt ck) := by
  simp only [modPrevCur, Bool.false_eq_true, if_false, Bool.not_true]
  by_cases hk : (cP L r (.le ck)).key = ck
  · simp only [hk, if_true]
    exact curPrev_cP hL r (.le ck) ck hmax (by grind) hk
  · simp only [hk, if_false]
    exact cP_le_eq_lt hL r ck horg hk

/-! ### direction reversal, per layer -/

theorem modPrevCur_rev_eq (L : Layer) (r : Rng) (ck : Key) (c : Cur) :
    modPrevCur r ck false false L c = curPrev L r (if c.st = .eof then curRewind c else c) := by
  simp [modPrevCur]

theorem modNextCur_rev_eq (L : Layer) (r : Rng) (ck : Key) (c : Cur) :
    modNextCur r ck false false L c = curNext L r (if c.st = .eof then curRewind c else c) := by
  simp [modNextCur]

/-- `Prev` after `Next`: the iterators stand on the first entry ≥ curKey; stepping each of them
back (rewinding the ones at eof first) puts them on the last entry < curKey -/
theorem modPrevCur_rev {L : Layer} (hL : LWF L) (r : Rng) (ck : Key)
    (hend : ck < r.end_) :
    modPrevCur r ck false false L (cB L r (.ge ck)) = cP L r (.lt ck) := by
  rw [modPrevCur_rev_eq]
  rcases cB_cases L r (.ge ck) with hc | ⟨e, he, hc, hok, hee⟩
  · rw [hc, if_pos (show eofC.st = St.eof from rfl), curPrev_rewound hL r _ rfl]
    exact cP_lt_of_cB_eof hL r ck hend hc
  · rw [hc, if_neg (by simp [atE]), curPrev_within L r (atE e) rfl, atE_key,
      stepBack_cP L r e.key (by grind)]
    exact cP_lt_of_cB_at hL r ck hc hok hee

/-- `Next` after `Prev` -/
theorem modNextCur_rev {L : Layer} (hL : LWF L) (r : Rng) (ck : Key) (horg : ¬ ck < r.org) :
    modNextCur r ck false false L (cP L r (.le ck)) = cB L r (.gt ck) := by
  rw [modNextCur_rev_eq]
  rcases cP_spec hL r (.le ck) with ⟨hc, hall⟩ | ⟨e, he, hc, hok, hee, hm⟩
  · rw [hc, if_pos (show eofC.st = St.eof from rfl), curNext_rewound hL r _ rfl]
    apply cB_congr
    intro x hx
    simp only [ge_ok, gt_ok]
    by_cases hx1 : ck < x.key
    · have : ¬ x.key < r.org := by grind
      simp [hx1, this]
    · have := hall x hx (by simp [Bu.ok, hx1])
      simp [hx1, this]
  · have hek : ¬ ck < e.key := by simpa [Bu.ok] using hok
    rw [hc, if_neg (by simp [atE]), curNext_atE]
    apply cB_congr
    intro x hx
    simp only [gt_ok]
    by_cases hx1 : ck < x.key
    · have : e.key < x.key := by grind
      simp [hx1, this]
    · have := hm x hx (by simp [Bu.ok, hx1])
      simp [hx1, this]

/-! ### a generic per-layer invariant over `zipL` -/

/-- `P last L c` holds for every layer/cursor pair (`last` = it is the last pair) -/
def ZInv (P : Bool → Layer → Cur → Prop) : List Layer → List Cur → Prop
  | [L], [c] => P true L c
  | L :: Ls, c :: cs => P false L c ∧ ZInv P Ls cs
  | [], [] => True
  | _, _ => False

theorem zipL_ZInv {P : Bool → Layer → Cur → Prop} {f : Bool → Layer → Cur → Cur} {g : Layer → Cur}
    {Ls : List Layer} (hf : ∀ last L c, L ∈ Ls → P last L c → f last L c = g L) :
    ∀ cs : List Cur, ZInv P Ls cs → zipL f Ls cs = Ls.map g := by
  induction Ls with
  | nil => intro cs h; cases cs <;> simp [zipL, ZInv] at *
  | cons L Ls ih =>
    intro cs h
    cases cs with
    | nil => cases Ls <;> simp [ZInv] at h
    | cons c cs =>
      cases Ls with
      | nil =>
        cases cs with
        | nil =>
          simp only [ZInv] at h
          simp [zipL, hf true L c List.mem_cons_self h]
        | cons _ _ => simp [ZInv] at h
      | cons M Ms =>
        cases cs with
        | nil => simp [ZInv] at h
        | cons d ds =>
          simp only [ZInv] at h
          simp only [zipL, List.map_cons] at ih ⊢
          rw [hf false L c List.mem_cons_self h.1]
          congr 1
          exact ih (fun last L' c' hL' => hf last L' c' (List.mem_cons_of_mem _ hL')) (d :: ds) h.2

theorem ZInv_len {P : Bool → Layer → Cur → Prop} : ∀ (Ls : List Layer) (cs : List Cur),
    ZInv P Ls cs → cs.length = Ls.length := by
  intro Ls
  induction Ls with
  | nil => intro cs h; cases cs <;> simp [ZInv] at *
  | cons L Ls ih =>
    intro cs h
    cases cs with
    | nil => cases Ls <;> simp [ZInv] at h
    | cons c cs =>
      cases Ls with
      | nil => cases cs <;> simp [ZInv] at *
      | cons M Ms =>
        cases cs with
        | nil => simp [ZInv] at h
        | cons d ds =>
          simp only [ZInv] at h
          have := ih (d :: ds) h.2
          simp only [List.length_cons] at this ⊢; omega

theorem ZInv_of_len {Q : Cur → Prop} : ∀ (Ls : List Layer) (cs : List Cur),
    cs.length = Ls.length → (∀ c ∈ cs, Q c) → ZInv (fun _ _ c => Q c) Ls cs := by
  intro Ls
  induction Ls with
  | nil => intro cs h _; cases cs <;> simp [ZInv] at *
  | cons L Ls ih =>
    intro cs h hq
    cases cs with
    | nil => simp at h
    | cons c cs =>
      cases Ls with
      | nil =>
        cases cs with
        | nil => simp only [ZInv]; exact hq c List.mem_cons_self
        | cons _ _ => simp at h
      | cons M Ms =>
        cases cs with
        | nil => simp at h
        | cons d ds =>
          simp only [ZInv]
          exact ⟨hq c List.mem_cons_self,
            ih (d :: ds) (by simpa using h) (fun x hx => hq x (List.mem_cons_of_mem _ hx))⟩

theorem ZInv_map {P : Bool → Layer → Cur → Prop} {g : Layer → Cur} :
    ∀ (Ls : List Layer), (∀ last, ∀ L ∈ Ls, P last L (g L)) → ZInv P Ls (Ls.map g) := by
  intro Ls
  induction Ls with
  | nil => intro _; simp [ZInv]
  | cons L Ls ih =>
    intro h
    cases Ls with
    | nil => simp only [List.map_cons, List.map_nil, ZInv]; exact h true L List.mem_cons_self
    | cons M Ms =>
      simp only [List.map_cons, ZInv] at ih ⊢
      exact ⟨h false L List.mem_cons_self, ih (fun last L' hL' => h last L' (List.mem_cons_of_mem _ hL'))⟩

theorem ZInv_mono {P Q : Bool → Layer → Cur → Prop} (h : ∀ last L c, P last L c → Q last L c) :
    ∀ (Ls : List Layer) (cs : List Cur), ZInv P Ls cs → ZInv Q Ls cs := by
  intro Ls
  induction Ls with
  | nil => intro cs hz; cases cs <;> simp [ZInv] at *
  | cons L Ls ih =>
    intro cs hz
    cases cs with
    | nil => cases Ls <;> simp [ZInv] at hz
    | cons c cs =>
      cases Ls with
      | nil =>
        cases cs with
        | nil => simp only [ZInv] at hz ⊢; exact h _ _ _ hz
        | cons _ _ => simp [ZInv] at hz
      | cons M Ms =>
        cases cs with
        | nil => simp [ZInv] at hz
        | cons d ds =>
          simp only [ZInv] at hz ⊢
          exact ⟨h _ _ _ hz.1, ih (d :: ds) hz.2⟩

/-- replacing the last layer: the last pair only has to satisfy the new last-pair predicate -/
theorem ZInv_mutate {P Q : Bool → Layer → Cur → Prop} (L : Layer)
    (hlast : ∀ c, Q true L c) (hrest : ∀ M c, P false M c → Q false M c) :
    ∀ (Ls : List Layer) (cs : List Cur), Ls ≠ [] → ZInv P Ls cs →
      ZInv Q (Ls.dropLast ++ [L]) cs := by
  intro Ls
  induction Ls with
  | nil => intro cs h; exact absurd rfl h
  | cons M Ms ih =>
    intro cs _ h
    cases Ms with
    | nil =>
      cases cs with
      | nil => simp [ZInv] at h
      | cons c cs =>
        cases cs with
        | nil => simp only [List.dropLast_singleton, List.nil_append, ZInv]; exact hlast c
        | cons _ _ => simp [ZInv] at h
    | cons N Ns =>
      cases cs with
      | nil => simp [ZInv] at h
      | cons c cs =>
        cases cs with
        | nil => simp [ZInv] at h
        | cons d ds =>
          simp only [ZInv] at h
          have := ih (d :: ds) (by simp) h.2
          simp only [List.dropLast_cons_cons, List.cons_append] at this ⊢
          cases hx : (N :: Ns).dropLast ++ [L] with
          | nil => simp at hx
          | cons X Xs =>
            rw [hx] at this
            simp only [ZInv]
            exact ⟨hrest _ _ h.1, this⟩

/-- `FwdInv` as an instance of `ZInv` -/
def FwdP (r : Rng) (ck : Key) (mod : Bool) : Bool → Layer → Cur → Prop :=
  fun last L c => (last = true ∧ mod = true) ∨ c = cB L r (.ge ck)

theorem FwdInv_iff (r : Rng) (ck : Key) (mod : Bool) : ∀ (Ls : List Layer) (cs : List Cur),
    FwdInv r ck mod Ls cs ↔ ZInv (FwdP r ck mod) Ls cs := by
  intro Ls
  induction Ls with
  | nil => intro cs; cases cs <;> simp [FwdInv, ZInv]
  | cons L Ls ih =>
    intro cs
    cases cs with
    | nil => cases Ls <;> simp [FwdInv, ZInv]
    | cons c cs =>
      cases Ls with
      | nil => cases cs <;> simp [FwdInv, ZInv, FwdP]
      | cons M Ms =>
        cases cs with
        | nil => simp [FwdInv, ZInv]
        | cons d ds =>
          simp only [FwdInv, ZInv]
          rw [ih (d :: ds)]
          simp [FwdP]

/-- backward invariant of the iterators: every iterator is the canonical backward cursor at
`curKey`, except the transaction's own layer when it has been modified since its last `Seek` -/
def BwdP (r : Rng) (ck : Key) (mod : Bool) : Bool → Layer → Cur → Prop :=
  fun last L c => (last = true ∧ mod = true) ∨ c = cP L r (.le ck)

def BwdInv (r : Rng) (ck : Key) (mod : Bool) (Ls : List Layer) (cs : List Cur) : Prop :=
  ZInv (BwdP r ck mod) Ls cs

theorem BwdInv_map (r : Rng) (ck : Key) (mod : Bool) (Ls : List Layer) :
    BwdInv r ck mod Ls (Ls.map (fun L => cP L r (.le ck))) :=
  ZInv_map Ls (fun _ _ _ => Or.inr rfl)

end Gsu.Iter
