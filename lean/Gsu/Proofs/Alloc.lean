/-
C18: the invariant of the `Stor.Alloc` / `Stor.extend` interleaving model (DESIGN Appendix A.2,
I1–I4) and its preservation by every atomic step.
-/
import Gsu.Model.Alloc
namespace Gsu.Alloc

def Pc.ac : Pc → Option Nat
  | .loaded _ _ ac | .added _ _ ac _ | .lockw _ _ ac | .locked _ _ ac | .chunksLoaded _ _ ac _
  | .appended _ _ ac | .sized _ _ ac => some ac
  | _ => none

def Pc.crit : Pc → Bool
  | .locked .. | .chunksLoaded .. | .appended .. | .sized .. | .unlocking .. => true
  | _ => false

/-- between `chunks.Store` and `allocChunk.Add(1)` -/
def Pc.mid : Pc → Bool
  | .appended .. | .sized .. => true
  | _ => false

def Pc.req : Pc → Option Nat
  | .start n _ | .loaded n _ _ | .added n _ _ _ | .lockw n _ _ | .locked n _ _ | .chunksLoaded n _ _ _
  | .appended n _ _ | .sized n _ _ | .unlocking n _ => some n
  | _ => none

/-- intervals `[new - n, new)` that have been handed out or are about to be (the compare will succeed) -/
def Returnable (C : Nat) (s : St) (ac new n : Nat) : Prop :=
  (ac, new, n) ∈ s.sh.ret ∨ ∃ t r, s.pcs t = .added n r ac new ∧ (new - 1) / C = ac

def Good (C : Nat) (s : St) (ac new n : Nat) : Prop :=
  0 < n ∧ n ≤ new ∧ ac * C ≤ new - n ∧ (new - 1) / C = ac ∧ new ≤ s.sh.size ∧ ac ≤ s.sh.a

structure AInv (C : Nat) (s : St) : Prop where
  cpos : 0 < C
  mutex : ∀ t, (s.pcs t).crit = true ↔ s.sh.lock = some t
  acLe : ∀ t ac, (s.pcs t).ac = some ac → ac ≤ s.sh.a
  nOk : ∀ t n, (s.pcs t).req = some n → 0 < n ∧ n ≤ C
  lenEq : ∀ t n r ac len, s.pcs t = .chunksLoaded n r ac len → len = s.sh.nchunks
  app : ∀ t n r ac, s.pcs t = .appended n r ac → ac = s.sh.a ∧ s.sh.nchunks = s.sh.a + 2
  szd : ∀ t n r ac, s.pcs t = .sized n r ac →
    ac = s.sh.a ∧ s.sh.nchunks = s.sh.a + 2 ∧ (ac + 1) * C ≤ s.sh.size
  norm : (∀ t, (s.pcs t).mid = false) → s.sh.nchunks = s.sh.a + 1
  sizeLo : s.sh.a * C ≤ s.sh.size
  good : ∀ ac new n, Returnable C s ac new n → Good C s ac new n

theorem upd_same (f : Nat → Pc) (t : Nat) (p : Pc) : upd f t p t = p := by simp [upd]
theorem upd_other (f : Nat → Pc) (t u : Nat) (p : Pc) (h : u ≠ t) : upd f t p u = f u := by simp [upd, h]

theorem inv_init (C size0 nchunks0 : Nat) (hC : 0 < C) (hn : 0 < nchunks0) (hs : (nchunks0 - 1) * C ≤ size0) :
    AInv C (initSt size0 nchunks0) := by
  refine ⟨hC, ?_, ?_, ?_, ?_, ?_, ?_, ?_, hs, ?_⟩ <;> simp [initSt, Pc.crit, Pc.ac, Pc.req, Returnable]
  omega

end Gsu.Alloc
