/-
C18: the invariant of the `Stor.Alloc` / `Stor.extend` interleaving model (DESIGN Appendix A.2,
I1–I4) and its preservation by every atomic step.
-/
import Gsu.Model.Alloc
namespace Gsu.Alloc

def Pc.ac : Pc → Option Nat
  | .loaded _ _ ac | .added _ _ ac _ | .lockw _ _ ac | .locked _ _ ac | .chunksLoaded _ _ ac _
  | .appended _ _ ac | .sized _ _ ac => some ac
  | _ => none

def Pc.crit : Pc → Bool
  | .locked .. | .chunksLoaded .. | .appended .. | .sized .. | .unlocking .. => true
  | _ => false

/-- between `chunks.Store` and `allocChunk.Add(1)` -/
def Pc.mid : Pc → Bool
  | .appended .. | .sized .. => true
  | _ => false

def Pc.req : Pc → Option Nat
  | .start n _ | .loaded n _ _ | .added n _ _ _ | .lockw n _ _ | .locked n _ _ | .chunksLoaded n _ _ _
  | .appended n _ _ | .sized n _ _ | .unlocking n _ => some n
  | _ => none

/-- intervals `[new - n, new)` that have been handed out or are about to be (the compare will succeed) -/
def Returnable (C : Nat) (s : St) (ac new n : Nat) : Prop :=
  (ac, new, n) ∈ s.sh.ret ∨ ∃ t r, s.pcs t = .added n r ac new ∧ (new - 1) / C = ac

def Good (C : Nat) (s : St) (ac new n : Nat) : Prop :=
  0 < n ∧ n ≤ new ∧ ac * C ≤ new - n ∧ (new - 1) / C = ac ∧ new ≤ s.sh.size ∧ ac ≤ s.sh.a

structure AInv (C : Nat) (s : St) : Prop where
  cpos : 0 < C
  mutex : ∀ t, (s.pcs t).crit = true ↔ s.sh.lock = some t
  acLe : ∀ t ac, (s.pcs t).ac = some ac → ac ≤ s.sh.a
  nOk : ∀ t n, (s.pcs t).req = some n → 0 < n ∧ n ≤ C
  lenEq : ∀ t n r ac len, s.pcs t = .chunksLoaded n r ac len → len = s.sh.nchunks
  app : ∀ t n r ac, s.pcs t = .appended n r ac → ac = s.sh.a ∧ s.sh.nchunks = s.sh.a + 2
  szd : ∀ t n r ac, s.pcs t = .sized n r ac →
    ac = s.sh.a ∧ s.sh.nchunks = s.sh.a + 2 ∧ (ac + 1) * C ≤ s.sh.size
  norm : (∀ t, (s.pcs t).mid = false) → s.sh.nchunks = s.sh.a + 1
  sizeLo : s.sh.a * C ≤ s.sh.size
  good : ∀ ac new n, Returnable C s ac new n → Good C s ac new n

theorem upd_same (f : Nat → Pc) (t : Nat) (p : Pc) : upd f t p t = p := by simp [upd]
theorem upd_other (f : Nat → Pc) (t u : Nat) (p : Pc) (h : u ≠ t) : upd f t p u = f u := by simp [upd, h]

theorem inv_init (C size0 nchunks0 : Nat) (hC : 0 < C) (hn : 0 < nchunks0) (hs : (nchunks0 - 1) * C ≤ size0) :
    AInv C (initSt size0 nchunks0) := by
  refine ⟨hC, ?_, ?_, ?_, ?_, ?_, ?_, ?_, hs, ?_⟩ <;> simp [initSt, Pc.crit, Pc.ac, Pc.req, Returnable]
  omega

/-- what one step does: only thread t's pc changes -/
theorem step_cases (C : Nat) (s s' : St) (hs : Step C s s') :
    ∃ t pc' sh', s' = ⟨sh', upd s.pcs t pc'⟩ ∧
      ((s.pcs t = .idle ∧ ∃ n, pc' = .start n Gsu.Gen.Alloc.maxRetries ∧ 0 < n ∧ n ≤ C ∧ sh' = s.sh) ∨
       tstep C t s.sh (s.pcs t) = some (sh', pc')) := by
  cases hs with
  | call t n hi hn => exact ⟨t, _, _, rfl, Or.inl ⟨hi, n, rfl, hn.1, hn.2, rfl⟩⟩
  | step t sh' pc' h => exact ⟨t, pc', sh', rfl, Or.inr h⟩

theorem mutex_step (C : Nat) (s s' : St) (hs : Step C s s') (hi : AInv C s) :
    ∀ u, (s'.pcs u).crit = true ↔ s'.sh.lock = some u := by
  obtain ⟨t, pc', sh', rfl, h⟩ := step_cases C s s' hs
  have hm := hi.mutex
  intro u
  rcases h with ⟨hidle, n, rfl, _, _, rfl⟩ | h
  · by_cases hu : u = t
    · subst hu; have := hm u; simp_all [upd, Pc.crit]
    · simp [upd, hu]; exact hm u
  · cases hpc : s.pcs t <;> simp only [hpc, tstep] at h
    all_goals (try split at h)
    all_goals (try (simp only [Option.some.injEq, Prod.mk.injEq] at h; obtain ⟨rfl, rfl⟩ := h))
    all_goals (try (cases h; done))
    all_goals (by_cases hu : u = t)
    all_goals (try subst hu)
    all_goals (have hmu := hm u)
    all_goals (try have hmt := hm t)
    all_goals (simp_all [upd, Pc.crit])
    all_goals (try grind)

theorem acLe_step (C : Nat) (s s' : St) (hs : Step C s s') (hi : AInv C s) :
    ∀ u ac, (s'.pcs u).ac = some ac → ac ≤ s'.sh.a := by
  obtain ⟨t, pc', sh', rfl, h⟩ := step_cases C s s' hs
  have hm := hi.acLe
  intro u ac hac
  rcases h with ⟨hidle, n, rfl, _, _, rfl⟩ | h
  · by_cases hu : u = t
    · subst hu; simp [upd, Pc.ac] at hac
    · simp [upd, hu] at hac; exact hm u ac hac
  · cases hpc : s.pcs t <;> simp only [hpc, tstep] at h
    all_goals (try split at h)
    all_goals (try (simp only [Option.some.injEq, Prod.mk.injEq] at h; obtain ⟨rfl, rfl⟩ := h))
    all_goals (try (cases h; done))
    all_goals (by_cases hu : u = t)
    all_goals (try subst hu)
    all_goals (have hmu := hm u)
    all_goals (try have hmt := hm t)
    all_goals (simp_all [upd, Pc.ac])
    all_goals (try grind)

theorem nOk_step (C : Nat) (s s' : St) (hs : Step C s s') (hi : AInv C s) :
    ∀ u n, (s'.pcs u).req = some n → 0 < n ∧ n ≤ C := by
  obtain ⟨t, pc', sh', rfl, h⟩ := step_cases C s s' hs
  have hm := hi.nOk
  intro u n' hac
  rcases h with ⟨hidle, n, rfl, _, _, rfl⟩ | h
  · by_cases hu : u = t
    · subst hu; simp [upd, Pc.req] at hac; omega
    · simp [upd, hu] at hac; exact hm u n' hac
  · cases hpc : s.pcs t <;> simp only [hpc, tstep] at h
    all_goals (try split at h)
    all_goals (try (simp only [Option.some.injEq, Prod.mk.injEq] at h; obtain ⟨rfl, rfl⟩ := h))
    all_goals (try (cases h; done))
    all_goals (by_cases hu : u = t)
    all_goals (try subst hu)
    all_goals (have hmu := hm u)
    all_goals (try have hmt := hm t)
    all_goals (simp_all [upd, Pc.req])
    all_goals (try grind)

theorem crit_unique (C : Nat) (s : St) (hi : AInv C s) (t u : Nat)
    (ht : (s.pcs t).crit = true) (hu : (s.pcs u).crit = true) : u = t := by
  have h1 := (hi.mutex t).mp ht
  have h2 := (hi.mutex u).mp hu
  rw [h1] at h2; cases h2; rfl

theorem lenEq_step (C : Nat) (s s' : St) (hs : Step C s s') (hi : AInv C s) :
    ∀ u n r ac len, s'.pcs u = .chunksLoaded n r ac len → len = s'.sh.nchunks := by
  obtain ⟨t, pc', sh', rfl, h⟩ := step_cases C s s' hs
  have hm := hi.lenEq
  intro u n' r' ac' len' hac
  rcases h with ⟨hidle, n, rfl, _, _, rfl⟩ | h
  · by_cases hu : u = t
    · subst hu; simp [upd] at hac
    · simp [upd, hu] at hac; exact hm u _ _ _ _ hac
  · have hcu := crit_unique C s hi t u
    cases hpc : s.pcs t <;> simp only [hpc, tstep] at h
    all_goals (try split at h)
    all_goals (try (simp only [Option.some.injEq, Prod.mk.injEq] at h; obtain ⟨rfl, rfl⟩ := h))
    all_goals (try (cases h; done))
    all_goals (by_cases hu : u = t)
    all_goals (try subst hu)
    all_goals (simp_all [upd, Pc.crit])
    all_goals (try (have hmu := hm u _ _ _ _ hac; simp_all; done))
    all_goals (try grind)

/-- while thread `t` is inside the critical section but not between Store and Add, nobody is -/
theorem nchunks_norm (C : Nat) (s : St) (hi : AInv C s) (t : Nat)
    (ht : (s.pcs t).crit = true) (hm : (s.pcs t).mid = false) : s.sh.nchunks = s.sh.a + 1 := by
  apply hi.norm
  intro u
  by_cases hu : u = t
  · subst hu; exact hm
  · cases hmu : (s.pcs u).mid with
    | false => rfl
    | true =>
      have : (s.pcs u).crit = true := by
        cases hp : s.pcs u <;> simp_all [Pc.mid, Pc.crit]
      exact absurd (crit_unique C s hi t u ht this) hu

theorem app_step (C : Nat) (s s' : St) (hs : Step C s s') (hi : AInv C s) :
    ∀ u n r ac, s'.pcs u = .appended n r ac → ac = s'.sh.a ∧ s'.sh.nchunks = s'.sh.a + 2 := by
  obtain ⟨t, pc', sh', rfl, h⟩ := step_cases C s s' hs
  have hm := hi.app
  intro u n' r' ac' hac
  rcases h with ⟨hidle, n, rfl, _, _, rfl⟩ | h
  · by_cases hu : u = t
    · subst hu; simp [upd] at hac
    · simp [upd, hu] at hac; exact hm u _ _ _ hac
  · have hcu := crit_unique C s hi t u
    have hnn := nchunks_norm C s hi t
    have hle := hi.lenEq t
    have hac' := hi.acLe t
    cases hpc : s.pcs t <;> simp only [hpc, tstep] at h
    all_goals (try split at h)
    all_goals (try (simp only [Option.some.injEq, Prod.mk.injEq] at h; obtain ⟨rfl, rfl⟩ := h))
    all_goals (try (cases h; done))
    all_goals (by_cases hu : u = t)
    all_goals first
      | (subst hu; simp [upd] at hac; done)
      | (simp only [upd, hu, ↓reduceIte] at hac; exact hm u _ _ _ hac)
      | (simp only [upd, hu, ↓reduceIte] at hac; exfalso
         have c1 : (s.pcs t).crit = true := by simp [hpc, Pc.crit]
         have c2 : (s.pcs u).crit = true := by simp [hac, Pc.crit]
         exact hu (hcu c1 c2))
      | skip
    -- chunksLoaded → appended by t itself
    next n r ac len hlt =>
      subst hu
      simp only [upd, ↓reduceIte, Pc.appended.injEq] at hac
      obtain ⟨rfl, rfl, rfl⟩ := hac
      have h1 := hnn (by simp [hpc, Pc.crit]) (by simp [hpc, Pc.mid])
      have h2 := hle _ _ _ _ hpc
      have h3 := hac' ac (by simp [hpc, Pc.ac])
      simp only
      omega

theorem szd_step (C : Nat) (s s' : St) (hs : Step C s s') (hi : AInv C s) :
    ∀ u n r ac, s'.pcs u = .sized n r ac →
      ac = s'.sh.a ∧ s'.sh.nchunks = s'.sh.a + 2 ∧ (ac + 1) * C ≤ s'.sh.size := by
  obtain ⟨t, pc', sh', rfl, h⟩ := step_cases C s s' hs
  have hm := hi.szd
  intro u n' r' ac' hac
  rcases h with ⟨hidle, n, rfl, _, _, rfl⟩ | h
  · by_cases hu : u = t
    · subst hu; simp [upd] at hac
    · simp [upd, hu] at hac; exact hm u _ _ _ hac
  · have hcu := crit_unique C s hi t u
    cases hpc : s.pcs t <;> simp only [hpc, tstep] at h
    all_goals (try split at h)
    all_goals (try (simp only [Option.some.injEq, Prod.mk.injEq] at h; obtain ⟨rfl, rfl⟩ := h))
    all_goals (try (cases h; done))
    all_goals (by_cases hu : u = t)
    all_goals first
      | (subst hu; simp [upd] at hac; done)
      | (simp only [upd, hu, ↓reduceIte] at hac; exact hm u _ _ _ hac)
      | (simp only [upd, hu, ↓reduceIte] at hac; have := hm u _ _ _ hac; simp only; omega)
      | (simp only [upd, hu, ↓reduceIte] at hac; exfalso
         have c1 : (s.pcs t).crit = true := by simp [hpc, Pc.crit]
         have c2 : (s.pcs u).crit = true := by simp [hac, Pc.crit]
         exact hu (hcu c1 c2))
      | skip
    -- appended → sized by t itself
    next n r ac =>
      subst hu
      simp only [upd, ↓reduceIte, Pc.sized.injEq] at hac
      obtain ⟨rfl, rfl, rfl⟩ := hac
      have h1 := hi.app u _ _ _ hpc
      simp only
      omega

theorem norm_step (C : Nat) (s s' : St) (hs : Step C s s') (hi : AInv C s) :
    (∀ u, (s'.pcs u).mid = false) → s'.sh.nchunks = s'.sh.a + 1 := by
  obtain ⟨t, pc', sh', rfl, h⟩ := step_cases C s s' hs
  intro hall
  have hothers : ∀ u, u ≠ t → (s.pcs u).mid = false := by
    intro u hu; have := hall u; simpa [upd, hu] using this
  have hold : (s.pcs t).mid = false → s.sh.nchunks = s.sh.a + 1 := by
    intro ht
    apply hi.norm
    intro u
    by_cases hu : u = t
    · subst hu; exact ht
    · exact hothers u hu
  have htnew := hall t
  simp only [upd, ↓reduceIte] at htnew
  rcases h with ⟨hidle, n, rfl, _, _, rfl⟩ | h
  · exact hold (by simp [hidle, Pc.mid])
  · cases hpc : s.pcs t <;> simp only [hpc, tstep] at h
    all_goals (try split at h)
    all_goals (try (simp only [Option.some.injEq, Prod.mk.injEq] at h; obtain ⟨rfl, rfl⟩ := h))
    all_goals (try (cases h; done))
    all_goals first
      | (simp [Pc.mid] at htnew; done)
      | (have c1 : (s.pcs t).mid = false := by simp [hpc, Pc.mid]
         exact hold c1)
      | skip
    -- sized → unlocking
    next n r ac =>
      have := hi.szd t _ _ _ hpc
      simp only
      omega

theorem sizeLo_step (C : Nat) (s s' : St) (hs : Step C s s') (hi : AInv C s) :
    s'.sh.a * C ≤ s'.sh.size := by
  obtain ⟨t, pc', sh', rfl, h⟩ := step_cases C s s' hs
  have hm := hi.sizeLo
  rcases h with ⟨hidle, n, rfl, _, _, rfl⟩ | h
  · exact hm
  · cases hpc : s.pcs t <;> simp only [hpc, tstep] at h
    all_goals (try split at h)
    all_goals (try (simp only [Option.some.injEq, Prod.mk.injEq] at h; obtain ⟨rfl, rfl⟩ := h))
    all_goals (try (cases h; done))
    all_goals first
      | exact hm
      | (simp only; omega)
      | skip
    · next n r ac =>
      have h1 := hi.app t _ _ _ hpc
      have := Nat.mul_le_mul_right C (Nat.le_succ s.sh.a)
      simp only
      rw [h1.1]
      exact this
    · next n r ac =>
      have h1 := hi.szd t _ _ _ hpc
      simp only
      rw [← h1.1]
      exact h1.2.2

theorem returnable_mono (C : Nat) (s : St) (t : Nat) (pc' : Pc) (sh' : Sh) (hret : sh'.ret = s.sh.ret)
    (hpc' : ∀ n r ac new, pc' ≠ .added n r ac new) (ac new n : Nat)
    (h : Returnable C ⟨sh', upd s.pcs t pc'⟩ ac new n) : Returnable C s ac new n := by
  rcases h with h | ⟨u, r, hu, hc⟩
  · left; simpa [hret] using h
  · right
    by_cases hut : u = t
    · subst hut; simp only [upd, ↓reduceIte] at hu; exact absurd hu (hpc' _ _ _ _)
    · simp only [upd, hut, ↓reduceIte] at hu; exact ⟨u, r, hu, hc⟩

theorem good_mono (C : Nat) (s : St) (sh' : Sh) (pcs' : Nat → Pc) (ac new n : Nat) (h : Good C s ac new n)
    (h1 : s.sh.size ≤ sh'.size) (h2 : s.sh.a ≤ sh'.a) : Good C ⟨sh', pcs'⟩ ac new n := by
  obtain ⟨g1, g2, g3, g4, g5, g6⟩ := h
  exact ⟨g1, g2, g3, g4, by simp only; omega, by simp only; omega⟩

theorem good_step (C : Nat) (s s' : St) (hs : Step C s s') (hi : AInv C s) :
    ∀ ac new n, Returnable C s' ac new n → Good C s' ac new n := by
  obtain ⟨t, pc', sh', rfl, h⟩ := step_cases C s s' hs
  have hg := hi.good
  intro ac' new' n' hr
  rcases h with ⟨hidle, n, rfl, _, _, rfl⟩ | h
  · exact good_mono C s _ _ _ _ _ (hg _ _ _ (returnable_mono C s t _ _ rfl (by simp) _ _ _ hr))
      (Nat.le_refl _) (Nat.le_refl _)
  · cases hpc : s.pcs t <;> simp only [hpc, tstep] at h
    all_goals (try split at h)
    all_goals (try (simp only [Option.some.injEq, Prod.mk.injEq] at h; obtain ⟨rfl, rfl⟩ := h))
    all_goals (try (cases h; done))
    all_goals first
      | (refine good_mono C s _ _ _ _ _ (hg _ _ _ (returnable_mono C s t _ _ rfl ?_ _ _ _ hr)) ?_ ?_
         · intro a b c d; simp
         · (try simp only); omega
         · (try simp only); omega)
      | skip
    · -- loaded → added: the carving step
      next n r ac =>
      have hac : ac ≤ s.sh.a := hi.acLe t ac (by simp [hpc, Pc.ac])
      have hn := hi.nOk t n (by simp [hpc, Pc.req])
      rcases hr with hr | ⟨u, r', hu, hc⟩
      · exact good_mono C s _ _ _ _ _ (hg _ _ _ (Or.inl hr)) (by simp only; omega) (Nat.le_refl _)
      · by_cases hut : u = t
        · subst hut
          simp only [upd, ↓reduceIte, Pc.added.injEq] at hu
          obtain ⟨rfl, rfl, rfl, rfl⟩ := hu
          refine ⟨hn.1, by omega, ?_, hc, Nat.le_refl _, hac⟩
          have : ac * C ≤ s.sh.a * C := Nat.mul_le_mul_right C hac
          have := hi.sizeLo
          omega
        · simp only [upd, hut, ↓reduceIte] at hu
          exact good_mono C s _ _ _ _ _ (hg _ _ _ (Or.inr ⟨u, r', hu, hc⟩)) (by simp only; omega) (Nat.le_refl _)
    · -- added → returned: the interval moves from "in flight" to the returned list
      next n r ac new hcmp =>
      have hold : Returnable C s ac' new' n' := by
        rcases hr with hr | ⟨u, r', hu, hc⟩
        · simp only [List.mem_cons] at hr
          rcases hr with hr | hr
          · simp only [Prod.mk.injEq] at hr
            obtain ⟨rfl, rfl, rfl⟩ := hr
            exact Or.inr ⟨t, r, hpc, hcmp⟩
          · exact Or.inl hr
        · by_cases hut : u = t
          · subst hut; simp [upd] at hu
          · simp only [upd, hut, ↓reduceIte] at hu
            exact Or.inr ⟨u, r', hu, hc⟩
      exact good_mono C s _ _ _ _ _ (hg _ _ _ hold) (Nat.le_refl _) (Nat.le_refl _)
    · -- appended → sized: the only decreasing write of size
      next n r ac =>
      have hac : ac = s.sh.a := (hi.app t _ _ _ hpc).1
      have hold : Returnable C s ac' new' n' := returnable_mono C s t _ _ rfl (by intro a b c d; simp) _ _ _ hr
      obtain ⟨g1, g2, g3, g4, g5, g6⟩ := hg _ _ _ hold
      refine ⟨g1, g2, g3, g4, ?_, g6⟩
      have h2 : new' - 1 < (ac' + 1) * C := by
        have := Nat.lt_mul_div_succ (new' - 1) hi.cpos
        rw [g4, Nat.mul_comm] at this; exact this
      have h3 : (ac' + 1) * C ≤ (ac + 1) * C := Nat.mul_le_mul_right C (by omega)
      simp only
      omega

/-- the intervals `[x.end - x.n, x.end)` and `[y.end - y.n, y.end)` do not overlap -/
def Disj (x y : Nat × Nat × Nat) : Prop := x.2.1 ≤ y.2.1 - y.2.2 ∨ y.2.1 ≤ x.2.1 - x.2.2

theorem Disj.symm {x y} (h : Disj x y) : Disj y x := Or.symm h

/-- thread `t` is about to return the interval (its compare will succeed) -/
def InFlight (C : Nat) (s : St) (t ac new n : Nat) : Prop :=
  ∃ r, s.pcs t = .added n r ac new ∧ (new - 1) / C = ac

structure DInv (C : Nat) (s : St) : Prop where
  d1 : s.sh.ret.Pairwise Disj
  d2 : ∀ t ac new n, InFlight C s t ac new n → ∀ x ∈ s.sh.ret, Disj (ac, new, n) x
  d3 : ∀ t u ac new n ac' new' n', t ≠ u → InFlight C s t ac new n → InFlight C s u ac' new' n' →
    Disj (ac, new, n) (ac', new', n')

theorem dinv_init (size0 nchunks0 C : Nat) : DInv C (initSt size0 nchunks0) := by
  refine ⟨by simp [initSt], ?_, ?_⟩
  · intro t ac new n h; simp [initSt, InFlight] at h
  · intro t u ac new n ac' new' n' _ h; simp [initSt, InFlight] at h

/-- a step that hands nothing out and carves nothing -/
theorem dinv_frame (C : Nat) (s : St) (t : Nat) (pc' : Pc) (sh' : Sh) (hd : DInv C s)
    (hret : sh'.ret = s.sh.ret) (hpc' : ∀ n r ac new, pc' ≠ .added n r ac new) :
    DInv C ⟨sh', upd s.pcs t pc'⟩ := by
  have old : ∀ u ac new n, InFlight C ⟨sh', upd s.pcs t pc'⟩ u ac new n → InFlight C s u ac new n := by
    intro u ac new n ⟨r, hu, hc⟩
    by_cases hut : u = t
    · subst hut; simp only [upd, ↓reduceIte] at hu; exact absurd hu (hpc' _ _ _ _)
    · simp only [upd, hut, ↓reduceIte] at hu; exact ⟨r, hu, hc⟩
  refine ⟨by simpa [hret] using hd.d1, ?_, ?_⟩
  · intro u ac new n h x hx
    exact hd.d2 u ac new n (old _ _ _ _ h) x (by simpa [hret] using hx)
  · intro u v ac new n ac' new' n' huv h1 h2
    exact hd.d3 u v _ _ _ _ _ _ huv (old _ _ _ _ h1) (old _ _ _ _ h2)

theorem dinv_step (C : Nat) (s s' : St) (hs : Step C s s') (hi : AInv C s) (hd : DInv C s) : DInv C s' := by
  obtain ⟨t, pc', sh', rfl, h⟩ := step_cases C s s' hs
  rcases h with ⟨hidle, n, rfl, _, _, rfl⟩ | h
  · exact dinv_frame C s t _ _ hd rfl (by intro a b c d; simp)
  · cases hpc : s.pcs t <;> simp only [hpc, tstep] at h
    all_goals (try split at h)
    all_goals (try (simp only [Option.some.injEq, Prod.mk.injEq] at h; obtain ⟨rfl, rfl⟩ := h))
    all_goals (try (cases h; done))
    all_goals first
      | (refine dinv_frame C s t _ _ hd rfl ?_
         intro a b c d; simp; done)
      | skip
    · -- loaded → added: the new interval starts at `size`, above every returnable one
      next n r ac =>
      have inflight_old : ∀ u ac' new' n', u ≠ t →
          InFlight C ⟨{ s.sh with size := s.sh.size + n }, upd s.pcs t (.added n r ac (s.sh.size + n))⟩ u ac' new' n' →
          InFlight C s u ac' new' n' := by
        intro u ac' new' n' hut ⟨r', hu, hc⟩
        simp only [upd, hut, ↓reduceIte] at hu
        exact ⟨r', hu, hc⟩
      have below : ∀ ac' new' n', Returnable C s ac' new' n' → new' ≤ s.sh.size :=
        fun ac' new' n' h => (hi.good _ _ _ h).2.2.2.2.1
      refine ⟨hd.d1, ?_, ?_⟩
      · intro u ac' new' n' hf x hx
        by_cases hut : u = t
        · subst hut
          obtain ⟨r', hu, hc⟩ := hf
          simp only [upd, ↓reduceIte, Pc.added.injEq] at hu
          obtain ⟨rfl, rfl, rfl, rfl⟩ := hu
          obtain ⟨xa, xn, xl⟩ := x
          have := below xa xn xl (Or.inl hx)
          right; simp only; omega
        · exact hd.d2 u _ _ _ (inflight_old u _ _ _ hut hf) x hx
      · intro u v ac1 new1 n1 ac2 new2 n2 huv h1 h2
        by_cases hut : u = t
        · subst hut
          have hvt : v ≠ u := fun h => huv h.symm
          have h2' := inflight_old v _ _ _ hvt h2
          obtain ⟨r', hu, hc⟩ := h1
          simp only [upd, ↓reduceIte, Pc.added.injEq] at hu
          obtain ⟨rfl, rfl, rfl, rfl⟩ := hu
          obtain ⟨r2, hv2, hc2⟩ := h2'
          have := below ac2 new2 n2 (Or.inr ⟨v, r2, hv2, hc2⟩)
          right; simp only; omega
        · by_cases hvt : v = t
          · subst hvt
            have h1' := inflight_old u _ _ _ hut h1
            obtain ⟨r', hu, hc⟩ := h2
            simp only [upd, ↓reduceIte, Pc.added.injEq] at hu
            obtain ⟨rfl, rfl, rfl, rfl⟩ := hu
            obtain ⟨r1, hv1, hc1⟩ := h1'
            have := below ac1 new1 n1 (Or.inr ⟨u, r1, hv1, hc1⟩)
            left; simp only; omega
          · exact hd.d3 u v _ _ _ _ _ _ huv (inflight_old u _ _ _ hut h1) (inflight_old v _ _ _ hvt h2)
    · -- added → returned
      next n r ac new hcmp =>
      have hft : InFlight C s t ac new n := ⟨r, hpc, hcmp⟩
      have inflight_old : ∀ u ac' new' n',
          InFlight C ⟨{ s.sh with ret := (ac, new, n) :: s.sh.ret }, upd s.pcs t (.returned (new - n) n)⟩ u ac' new' n' →
          u ≠ t ∧ InFlight C s u ac' new' n' := by
        intro u ac' new' n' ⟨r', hu, hc⟩
        by_cases hut : u = t
        · subst hut; simp [upd] at hu
        · simp only [upd, hut, ↓reduceIte] at hu
          exact ⟨hut, r', hu, hc⟩
      refine ⟨List.pairwise_cons.mpr ⟨fun x hx => hd.d2 t _ _ _ hft x hx, hd.d1⟩, ?_, ?_⟩
      · intro u ac' new' n' hf x hx
        obtain ⟨hut, hf'⟩ := inflight_old u _ _ _ hf
        rcases List.mem_cons.mp hx with rfl | hx
        · exact hd.d3 u t _ _ _ _ _ _ hut hf' hft
        · exact hd.d2 u _ _ _ hf' x hx
      · intro u v ac1 new1 n1 ac2 new2 n2 huv h1 h2
        exact hd.d3 u v _ _ _ _ _ _ huv (inflight_old u _ _ _ h1).2 (inflight_old v _ _ _ h2).2

theorem inv_step (C : Nat) (s s' : St) (hs : Step C s s') (hi : AInv C s) : AInv C s' :=
  ⟨hi.cpos, mutex_step C s s' hs hi, acLe_step C s s' hs hi, nOk_step C s s' hs hi,
   lenEq_step C s s' hs hi, app_step C s s' hs hi, szd_step C s s' hs hi, norm_step C s s' hs hi,
   sizeLo_step C s s' hs hi, good_step C s s' hs hi⟩

theorem inv_reach (C size0 nchunks0 : Nat) (hC : 0 < C) (hn : 0 < nchunks0) (h0 : (nchunks0 - 1) * C ≤ size0)
    (s : St) (h : Reach C size0 nchunks0 s) : AInv C s ∧ DInv C s := by
  induction h with
  | init => exact ⟨inv_init C size0 nchunks0 hC hn h0, dinv_init size0 nchunks0 C⟩
  | step s s' _ hs ih => exact ⟨inv_step C s s' hs ih.1, dinv_step C s s' hs ih.1 ih.2⟩

/-- a returned interval lies inside one chunk and below `size` -/
theorem returned_in_chunk (C : Nat) (s : St) (h : AInv C s) (ac new n : Nat) (hr : (ac, new, n) ∈ s.sh.ret) :
    0 < n ∧ n ≤ new ∧ (new - n) / C = ac ∧ (new - 1) / C = ac ∧ new ≤ s.sh.size := by
  obtain ⟨hn, hle, hlo, hhi, hsz, _⟩ := h.good ac new n (Or.inl hr)
  refine ⟨hn, hle, ?_, hhi, hsz⟩
  have h2 : new - 1 < (ac + 1) * C := by
    have := Nat.lt_mul_div_succ (new - 1) h.cpos
    rw [hhi, Nat.mul_comm] at this; exact this
  have h3 : new - n < (ac + 1) * C := Nat.lt_of_le_of_lt (by omega) h2
  exact Nat.div_eq_of_lt_le hlo h3

/-- progress measure of one call: every own step decreases it -/
def rank : Pc → Nat
  | .idle => 0
  | .panicked => 0
  | .returned _ _ => 1
  | .start _ r => 10 * r + 1
  | .loaded _ r _ => 10 * r + 10
  | .added _ r _ _ => 10 * r + 9
  | .lockw _ r _ => 10 * r + 8
  | .locked _ r _ => 10 * r + 7
  | .chunksLoaded _ r _ _ => 10 * r + 6
  | .appended _ r _ => 10 * r + 5
  | .sized _ r _ => 10 * r + 4
  | .unlocking _ r => 10 * r + 2

theorem rank_decreases (C t : Nat) (sh sh' : Sh) (pc pc' : Pc) (h : tstep C t sh pc = some (sh', pc')) :
    rank pc' < rank pc := by
  cases pc <;> simp only [tstep] at h
  all_goals (try split at h)
  all_goals (try (simp only [Option.some.injEq, Prod.mk.injEq] at h; obtain ⟨rfl, rfl⟩ := h))
  all_goals (try (cases h; done))
  all_goals (simp only [rank]; omega)

theorem blocked_only_on_lock (C t : Nat) (sh : Sh) (pc : Pc) (h : tstep C t sh pc = none) :
    pc = .idle ∨ pc = .panicked ∨ (∃ n r ac, pc = .lockw n r ac ∧ sh.lock ≠ none) := by
  cases pc <;> simp only [tstep] at h
  all_goals (try split at h)
  all_goals (try (cases h; done))
  all_goals (try simp)
  all_goals (try assumption)

end Gsu.Alloc
