/-
M-DB global invariant, part 3: the commit step. `TblInv lti → TblInv sti → TVInv sti d →
indep d sti lti → TblInv (lay d lti)`: LayeredOnto of a transaction whose writes are independent
of everything committed since its snapshot keeps every index equal to the (new) rows, the rows
unique, and the row count exact. Core only.
-/
import Gsu.Proofs.DbInv2
namespace Gsu.Db

/-- what the independence guard gives -/
theorem indep_spec {d : TDif} {sti lti : Info} (h : indep d sti lti = true) :
    d.muts.length = lti.idx.length ∧ sti.idx.length = lti.idx.length ∧
    (∀ (i : Nat) (m : Layer) (ovL ovS : Overlay), d.muts[i]? = some m → lti.idx[i]? = some ovL → sti.idx[i]? = some ovS →
      ∀ k, m.get k ≠ none → ovL.lookup k = ovS.lookup k) ∧
    (∀ a ∈ d.adds, ∀ r ∈ lti.rows, r.off ≠ a.off) := by
  simp only [indep, Bool.and_eq_true, beq_iff_eq, List.all_eq_true, List.mem_range,
    Bool.or_eq_true, Option.isNone_iff_eq_none, Bool.not_eq_true',
    List.any_eq_false] at h
  obtain ⟨⟨⟨h1, h2⟩, h3⟩, h4⟩ := h
  refine ⟨h1, h2, ?_, ?_⟩
  · intro i m ovL ovS hm hl hs k hk
    have hlt : i < d.muts.length := (List.getElem?_eq_some_iff.mp hm).1
    have hkm : k ∈ m.keys := by
      by_cases hc : m.keys.contains k = true
      · simpa using hc
      · exact absurd (by unfold FMap.get; rw [if_neg hc]) hk
    have := h3 i hlt k (by simpa [List.getD_eq_getElem?_getD, hm] using hkm)
    simp only [List.getD_eq_getElem?_getD, hm, hl, hs, Option.getD_some] at this
    rcases this with h0 | h0
    · exact absurd h0 hk
    · exact h0
  · intro a ha r hr e
    have := h4 a ha r hr
    simp [e] at this

theorem find_congr {α : Type} (l : List α) (p q : α → Bool) (h : ∀ x ∈ l, p x = q x) :
    l.find? p = l.find? q := by
  induction l with
  | nil => rfl
  | cons x xs ih =>
    simp only [List.find?_cons, h x (List.mem_cons_self ..)]
    rw [ih (fun y hy => h y (List.mem_cons_of_mem _ hy))]

section commit
variable {sti lti : Info} {d : TDif}

/-- a key the transaction wrote has the same row in the latest state as in the snapshot -/
theorem commit_key_same (hL : TblInv lti) (hS : TblInv sti) (hind : indep d sti lti = true)
    (i : Nat) (m : Layer) (hm : d.muts[i]? = some m) (k : Key) (hk : m.get k ≠ none) :
    keymap i lti.rows k = keymap i sti.rows k := by
  obtain ⟨h1, h2, h3, _⟩ := indep_spec hind
  have hlt : i < d.muts.length := (List.getElem?_eq_some_iff.mp hm).1
  have hl : lti.idx[i]? = some lti.idx[i] := List.getElem?_eq_getElem (h1 ▸ hlt)
  have hs : sti.idx[i]? = some sti.idx[i] := List.getElem?_eq_getElem (h2 ▸ h1 ▸ hlt)
  have := h3 i m _ _ hm hl hs k hk
  rwa [lookup_of_sem _ _ _ (hL.agree i _ hl k), lookup_of_sem _ _ _ (hS.agree i _ hs k)] at this

/-- a row of the latest state that the transaction deleted is the row the transaction saw, on
every index -/
theorem commit_del_rows (hL : TblInv lti) (hS : TblInv sti) (hT : TVInv sti d)
    (hind : indep d sti lti = true) (r : Row) (hr : r ∈ lti.rows) (hrD : r.off ∈ d.dels)
    (i : Nat) (m : Layer) (hm : d.muts[i]? = some m) : m.get (r.key i) ≠ none := by
  obtain ⟨h1, h2, _, _⟩ := indep_spec hind
  have hlt : i < d.muts.length := (List.getElem?_eq_some_iff.mp hm).1
  have hil : i < lti.idx.length := h1 ▸ hlt
  have his : i < sti.idx.length := h2 ▸ hil
  have hs : sti.idx[i]? = some sti.idx[i] := List.getElem?_eq_getElem his
  obtain ⟨rs, hrs, hrso⟩ := hT.dsub r.off hrD
  have hw : m.get (rs.key i) ≠ none := (hT.pidx i _ m hs hm).2.2 rs hrs (hrso ▸ hrD)
  have e := commit_key_same hL hS hind i m hm _ hw
  rw [keymap_of_mem (hS.keys i his) hrs] at e
  obtain ⟨rl, hrl, hrlk, hrlo⟩ := keymap_some_mem e
  have : rl = r := hL.offs.eq_of_mem hrl hr (hrlo.trans hrso)
  rw [← this, hrlk]; exact hw

/-- every offset the transaction deleted is the offset of a row of the latest state -/
theorem commit_dels_sub (hL : TblInv lti) (hS : TblInv sti) (hT : TVInv sti d)
    (hind : indep d sti lti = true) : ∀ o ∈ d.dels, ∃ r ∈ lti.rows, r.off = o := by
  intro o ho
  obtain ⟨h1, h2, _, _⟩ := indep_spec hind
  have hil : 0 < lti.idx.length := List.length_pos_iff.mpr hL.ine
  have hm : d.muts[0]? = some d.muts[0] := List.getElem?_eq_getElem (h1 ▸ hil)
  have hs : sti.idx[0]? = some sti.idx[0] := List.getElem?_eq_getElem (h2 ▸ hil)
  obtain ⟨rs, hrs, hrso⟩ := hT.dsub o ho
  have hw : d.muts[0].get (rs.key 0) ≠ none := (hT.pidx 0 _ _ hs hm).2.2 rs hrs (hrso ▸ ho)
  have e := commit_key_same hL hS hind 0 _ hm _ hw
  rw [keymap_of_mem (hS.keys 0 (h2 ▸ hil)) hrs] at e
  obtain ⟨rl, hrl, _, hrlo⟩ := keymap_some_mem e
  exact ⟨rl, hrl, hrlo.trans hrso⟩

/-- index `i` of the new rows, at a key the transaction did not write: the latest meaning -/
theorem commit_keymap_unwritten (hL : TblInv lti) (hS : TblInv sti) (hT : TVInv sti d)
    (hind : indep d sti lti = true) (i : Nat) (m : Layer) (hm : d.muts[i]? = some m) (k : Key)
    (hk : m.get k = none) :
    keymap i (viewRows lti.rows d.adds d.dels) k = keymap i lti.rows k := by
  obtain ⟨h1, h2, _, _⟩ := indep_spec hind
  have hlt : i < d.muts.length := (List.getElem?_eq_some_iff.mp hm).1
  have hs : sti.idx[i]? = some sti.idx[i] := List.getElem?_eq_getElem (h2 ▸ h1 ▸ hlt)
  simp only [keymap, viewRows, List.find?_append]
  have hA : d.adds.find? (fun r => r.key i == k) = none := by
    rw [List.find?_eq_none]
    intro a ha e
    exact (hT.pidx i _ m hs hm).2.1 a ha ((by simpa using e : a.key i = k) ▸ hk)
  rw [hA, Option.or_none, List.find?_filter]
  congr 1
  apply find_congr
  intro r hr
  by_cases e : (r.key i == k) = true
  · have hrk : r.key i = k := by simpa using e
    have : r.off ∉ d.dels := fun hrD => commit_del_rows hL hS hT hind r hr hrD i m hm (hrk ▸ hk)
    simp [e, this]
  · simp [e]

/-- index `i` of the new rows, at a key the transaction wrote: what the transaction saw -/
theorem commit_keymap_written (hL : TblInv lti) (hS : TblInv sti)
    (hind : indep d sti lti = true) (i : Nat) (m : Layer) (hm : d.muts[i]? = some m) (k : Key)
    (hk : m.get k ≠ none) :
    keymap i (viewRows lti.rows d.adds d.dels) k = keymap i (viewRows sti.rows d.adds d.dels) k := by
  obtain ⟨h1, h2, _, _⟩ := indep_spec hind
  have hlt : i < d.muts.length := (List.getElem?_eq_some_iff.mp hm).1
  have hil : i < lti.idx.length := h1 ▸ hlt
  have e := commit_key_same hL hS hind i m hm k hk
  have eL := keymap_filter_off i lti.rows (hL.keys i hil) (fun o => !d.dels.contains o) k
  have eS := keymap_filter_off i sti.rows (hS.keys i (h2 ▸ hil)) (fun o => !d.dels.contains o) k
  rw [e] at eL
  simp only [keymap, viewRows, List.find?_append, Option.map_or] at eL eS ⊢
  rw [eL, eS]

theorem lay_idx_length (hm : d.muts.length = lti.idx.length) : (lay d lti).idx.length = lti.idx.length := by
  simp [lay, hm]

theorem lay_rows : (lay d lti).rows = viewRows lti.rows d.adds d.dels := rfl

/-- the number of rows after the commit -/
theorem commit_count (hL : TblInv lti) (hS : TblInv sti) (hT : TVInv sti d)
    (hind : indep d sti lti = true) :
    lti.nrows + d.dn = ((viewRows lti.rows d.adds d.dels).length : Int) := by
  have c1 := length_filter_dels lti.rows d.dels hL.offs hT.dnod (commit_dels_sub hL hS hT hind)
  have c2 := length_filter_dels sti.rows d.dels hS.offs hT.dnod hT.dsub
  have n1 := length_filter_not lti.rows (fun r => d.dels.contains r.off)
  have n2 := length_filter_not sti.rows (fun r => d.dels.contains r.off)
  have hc := hT.cnt
  have hn := hL.cnt
  simp only [TDif.view, viewRows, List.length_append, Int.natCast_add] at hc ⊢
  omega

/-- LayeredOnto of an independent transaction keeps the table invariant: the commit step -/
theorem tblinv_lay (hL : TblInv lti) (hS : TblInv sti) (hT : TVInv sti d)
    (hind : indep d sti lti = true) : TblInv (lay d lti) := by
  obtain ⟨h1, h2, h3, h4⟩ := indep_spec hind
  have hlen := lay_idx_length (d := d) (lti := lti) h1
  refine ⟨?_, layersOK_lay d lti hL.layers, deltasOK_lay d lti hL.deltas, by simp [lay], ?_, ?_, ?_, ?_, ?_⟩
  · intro i ov' hi k
    rw [lay_idx] at hi
    cases hl : lti.idx[i]? with
    | none => simp [hl] at hi
    | some ovL =>
      cases hm : d.muts[i]? with
      | none => simp [hl, hm] at hi
      | some m =>
        simp only [hl, hm, Option.some.injEq] at hi
        subst hi
        have hil : i < lti.idx.length := (List.getElem?_eq_some_iff.mp hl).1
        have hs : sti.idx[i]? = some sti.idx[i] := List.getElem?_eq_getElem (h2 ▸ hil)
        have := sem_commit ovL sti.idx[i] m k _ _ _ (hL.agree i _ hl k) (hS.agree i _ hs k)
          ((hT.pidx i _ m hs hm).1 k) (h3 i m _ _ hm hl hs k)
        rw [this, lay_rows]
        congr 1
        by_cases hk : m.get k = none
        · rw [if_pos hk]; exact (commit_keymap_unwritten hL hS hT hind i m hm k hk).symm
        · rw [if_neg hk]; exact (commit_keymap_written hL hS hind i m hm k hk).symm
  · intro e
    have := hlen
    rw [e] at this
    exact hL.ine (List.length_eq_zero_iff.mp this.symm)
  · rw [lay_rows]
    refine PW.append.mpr ⟨PW.filter _ hL.offs, (PW.append.mp hT.offs).2.1, ?_⟩
    intro x hx a ha
    exact h4 a ha x (List.mem_filter.mp hx).1
  · intro i hi
    rw [hlen] at hi
    rw [lay_rows]
    refine PW.append.mpr ⟨PW.filter _ (hL.keys i hi), (PW.append.mp (hT.keys i (h2 ▸ hi))).2.1, ?_⟩
    intro x hx a ha e
    obtain ⟨hxL, hxD⟩ := List.mem_filter.mp hx
    have hm : d.muts[i]? = some d.muts[i] := List.getElem?_eq_getElem (h1 ▸ hi)
    have hs : sti.idx[i]? = some sti.idx[i] := List.getElem?_eq_getElem (h2 ▸ hi)
    have hw : d.muts[i].get (a.key i) ≠ none := (hT.pidx i _ _ hs hm).2.1 a ha
    have e1 := commit_key_same hL hS hind i _ hm _ hw
    rw [← e, keymap_of_mem (hL.keys i hi) hxL] at e1
    obtain ⟨rs, hrs, hrsk, hrso⟩ := keymap_some_mem e1.symm
    have hrsV : rs ∈ sti.rows.filter (fun r => !d.dels.contains r.off) :=
      List.mem_filter.mpr ⟨hrs, by rw [hrso]; exact hxD⟩
    exact (PW.append.mp (hT.keys i (h2 ▸ hi))).2.2 rs hrsV a ha (hrsk.trans e)
  · intro r hr
    rw [hlen]
    rw [lay_rows] at hr
    rcases List.mem_append.mp hr with h | h
    · exact hL.shape r (List.mem_filter.mp h).1
    · rw [hT.shape r h, h2]
  · exact commit_count hL hS hT hind

end commit
end Gsu.Db
