/-
What a full index scan / a stepping iterator of the model yields (`Overlay.entries`, used by the
`scan` and `next` observations of the drivers) is exactly the set of keys Lookup finds, with the
offsets Lookup returns.  Core only.
-/
import Gsu.Model.DbDrive
import Gsu.Proofs.Db
namespace Gsu.Db

theorem mem_dedupAdj (l : List Gsu.Proto.Bytes) (x : Gsu.Proto.Bytes) : x ∈ dedupAdj l ↔ x ∈ l := by
  induction l using dedupAdj.induct with
  | case1 a b r h ih =>
    have e : a = b := by simpa using h
    rw [dedupAdj, if_pos h, ih]
    subst e
    simp
  | case2 a b r h ih =>
    rw [dedupAdj, if_neg h]
    simp only [List.mem_cons, ih]
  | case3 l hl =>
    rw [dedupAdj]
    intro a b r e; exact hl a b r e

theorem topChg_some_mem (ls : List Layer) (k : Key) (c : Chg) (h : topChg ls k = some c) :
    k ∈ ls.flatMap (·.keys) := by
  induction ls with
  | nil => simp [topChg] at h
  | cons l ls ih =>
    simp only [topChg] at h
    simp only [List.flatMap_cons, List.mem_append]
    cases ht : topChg ls k with
    | some c' => exact Or.inr (ih (by rw [ht] at h; simpa using h ▸ ht))
    | none =>
      rw [ht] at h
      left
      simp only [FMap.get] at h
      by_cases hc : l.keys.contains k = true
      · simpa using hc
      · simp at h; exact h.1

theorem entries_sound (ov : Overlay) (k : Key) (o : Off) (h : (k, o) ∈ ov.entries) :
    ov.lookup k = some o := by
  simp only [Overlay.entries, List.mem_filterMap, Option.map_eq_some_iff] at h
  obtain ⟨k', _, o', ho, he⟩ := h
  cases he
  exact ho

theorem entries_complete (ov : Overlay) (k : Key) (o : Off) (h : ov.lookup k = some o) :
    (k, o) ∈ ov.entries := by
  simp only [Overlay.entries, List.mem_filterMap, Option.map_eq_some_iff]
  refine ⟨k, ?_, o, h, rfl⟩
  rw [mem_dedupAdj, List.mem_mergeSort, List.mem_append]
  simp only [Overlay.lookup] at h
  cases ht : topChg ov.layers k with
  | some c => exact Or.inr (topChg_some_mem _ _ _ ht)
  | none =>
    rw [ht] at h
    simp only [eff] at h
    left
    simp only [FMap.get] at h
    by_cases hc : ov.bt.keys.contains k = true
    · simpa using hc
    · simp at h; exact h.1

end Gsu.Db
