/-
C39 (ranges), part 6: one `Insert` on any state satisfying the invariant (`insert_ok`), and
histories (`run_ok`, `ranges_run_contains`). Core-only.
-/
import Gsu.Proofs.RangesTree5
namespace Gsu.Ranges
open Gsu.Ordset (Key)

theorem not_eof_small (P : Params) (l : Leaf) (it : Pos) (he : ¬ Ranges.eof P (.small l) it = true) :
    it.ti = 0 ∧ it.li < l.size := by
  simp only [Ranges.eof, Bool.or_eq_true, decide_eq_true_eq, not_or] at he
  have h1 : it.ti = 0 := by
    have := he.1
    have e : (Ranges.small l).nLeaves = 1 := rfl
    rw [e] at this
    omega
  have h2 := he.2
  simp only [Ranges.leafAt, h1, ↓reduceIte] at h2
  exact ⟨h1, by omega⟩

/-- the loop on the leaf form: every iteration removes one slot and decrements `inc` -/
theorem coalesce_small_count (P : Params) :
    ∀ (fuel : Nat) (l : Leaf) (pp it : Pos) (inc : Int),
      ∃ l' inc', Ranges.coalesce P fuel (.small l) pp it inc = (.small l', inc') ∧
        (l'.size : Int) - inc' = (l.size : Int) - inc ∧ inc' ≤ inc := by
  intro fuel
  induction fuel with
  | zero => intro l pp it inc; exact ⟨l, inc, rfl, rfl, Int.le_refl _⟩
  | succ fuel ih =>
    intro l pp it inc
    rw [Ranges.coalesce.eq_2]
    by_cases he : Ranges.eof P (.small l) it = true
    · simp only [he, ↓reduceIte]; exact ⟨l, inc, rfl, rfl, Int.le_refl _⟩
    · simp only [he, Bool.false_eq_true, ↓reduceIte]
      split
      · rename_i ho
        obtain ⟨hit, hli⟩ := not_eof_small P l it he
        obtain ⟨l1, e1, hs1⟩ : ∃ l1, Ranges.setSlot P (.small l) pp
            ⟨kmin (Ranges.cur P (.small l) pp).frm (Ranges.cur P (.small l) it).frm,
              kmax (Ranges.cur P (.small l) pp).to (Ranges.cur P (.small l) it).to⟩ = .small l1 ∧
            l1.size = l.size := by
          simp only [Ranges.setSlot, Ranges.setLeaf, Ranges.leafAt]
          split
          · exact ⟨_, rfl, rfl⟩
          · exact ⟨_, rfl, rfl⟩
        rw [e1]
        simp only [Ranges.remove]
        obtain ⟨l', inc', h1, h2, h3⟩ := ih ⟨removeAt ((Ranges.small l1).leafAt P it.ti).slots it.li,
          ((Ranges.small l1).leafAt P it.ti).size - 1⟩ pp it (inc - 1)
        refine ⟨l', inc', h1, ?_, by omega⟩
        rw [h2]
        simp only [Ranges.leafAt, hit, ↓reduceIte, hs1]
        omega
      · exact ⟨l, inc, rfl, rfl, Int.le_refl _⟩

/-- `Insert` on the leaf form with room: the returned increment is the change of the slot count -/
theorem insert_small_count (P : Params) (l : Leaf) (f t : Key) (hsz : l.size < P.nodeSize) :
    ∃ l' r, Ranges.insert P (.small l) f t = (.small l', .inc r) ∧
      (l'.size : Int) = (l.size : Int) + r ∧ r ≤ 1 := by
  have hnf : ¬ l.size ≥ P.nodeSize := by omega
  have hloc : locate P (.small l) f = some (.small l, 0) := by
    simp only [locate, Ranges.leafAt, ↓reduceIte, hnf]
  rw [insert_eq, hloc]
  simp only
  by_cases hc : ((decide (l.search f < l.size) && (l.get (l.search f)).contains f t) ||
      (decide (l.search f > 0) && (l.get (l.search f - 1)).contains f t)) = true
  · refine ⟨l, 0, ?_, by omega, by omega⟩
    simp only [insertTail, Ranges.leafAt, ↓reduceIte, leaf_insert_existing_eq P l f t hc]
  · have hc' := Bool.eq_false_iff.mpr hc
    have hins := leaf_insert_at_eq P l f t hsz hc'
    rw [insertTail_at P _ _ f t _ _ (by simpa only [Ranges.leafAt, ↓reduceIte] using hins)]
    simp only [Ranges.setLeaf, ↓reduceIte]
    obtain ⟨l', inc', h1, h2, h3⟩ := coalesce_small_count P
      ((Ranges.small ⟨Gsu.Ordset.insertAt P.nodeSize l.slots (l.search f) ⟨f, t⟩, l.size + 1⟩).count + 1)
      ⟨Gsu.Ordset.insertAt P.nodeSize l.slots (l.search f) ⟨f, t⟩, l.size + 1⟩
      (choosePP P (.small ⟨Gsu.Ordset.insertAt P.nodeSize l.slots (l.search f) ⟨f, t⟩, l.size + 1⟩)
        ⟨0, l.search f⟩ f)
      (Ranges.next P (.small ⟨Gsu.Ordset.insertAt P.nodeSize l.slots (l.search f) ⟨f, t⟩, l.size + 1⟩)
        (choosePP P (.small ⟨Gsu.Ordset.insertAt P.nodeSize l.slots (l.search f) ⟨f, t⟩, l.size + 1⟩)
          ⟨0, l.search f⟩ f)) 1
    refine ⟨l', inc', by rw [h1], ?_, h3⟩
    simp only at h2
    omega

theorem count_eq_flat {P : Params} {rs : Ranges} (h : RangesOK P rs) : rs.count = rs.flat.length := by
  cases rs with
  | small l => exact (live_length h).symm
  | big t => exact count_tflat (treeOK'_of_treeOK h).shape

/-- one `Insert(f ≤ t)` on a state satisfying the invariant: either Full — nothing changed, the tree
node has `nodeSize` leaves and the routed leaf is full — or an increment `n ≤ 1`, the invariant holds
again, exactly `[f, t]` was added to the covered set and the slot count changed by `n` -/
theorem insert_cases (P : Params) (hP : P.Valid) (rs : Ranges) (f t : Key) (hft : f ≤ t)
    (h : RangesOK P rs) :
    (Ranges.insert P rs f t = (rs, .full) ∧ ∃ tr, rs = .big tr ∧ P.nodeSize ≤ tr.length ∧
        P.nodeSize ≤ (tr.leafAt P (tr.search f - 1)).size) ∨
    (∃ rs' n, Ranges.insert P rs f t = (rs', .inc n) ∧ RangesOK P rs' ∧
      (∀ v, covL rs'.flat v ↔ (covL rs.flat v ∨ (f ≤ v ∧ v ≤ t))) ∧
      (rs'.count : Int) = (rs.count : Int) + n ∧ n ≤ 1) := by
  rcases locate_spec P hP rs f h with ⟨hl, hcap⟩ | ⟨l, rfl, hroom, hl⟩ | ⟨pre, s, post, hl, hT, hk1, hk2, hroom, hflat⟩
  · left
    exact ⟨by rw [insert_eq, hl], hcap⟩
  · right
    obtain ⟨l', r, e, hok, _, hcov⟩ := insert_small P l f t hft h hroom
    obtain ⟨l'', r', e', hcnt, hr⟩ := insert_small_count P l f t hroom
    rw [e] at e'
    simp only [Prod.mk.injEq, Ranges.small.injEq, Res.inc.injEq] at e'
    obtain ⟨rfl, rfl⟩ := e'
    exact ⟨.small l', r, e, hok, hcov, hcnt, hr⟩
  · right
    obtain ⟨t', n, e, hok, hcov, hcnt, _, hn⟩ := insertTail_big P pre post s f t hft hT hk1 hk2 hroom
    refine ⟨.big t', n, by rw [insert_eq, hl]; exact e, hok, ?_, ?_, hn⟩
    · intro v
      rw [flat_big, hcov v, hflat]
    · rw [hcnt, count_eq_flat h, ← hflat, ← flat_big, ← count_eq_flat (P := P) (rs := .big (pre ++ s :: post)) hT]

theorem insert_ok (P : Params) (hP : P.Valid) (rs : Ranges) (f t : Key) (hft : f ≤ t)
    (h : RangesOK P rs) :
    ((rs.insert P f t).2 = .full →
        (rs.insert P f t).1 = rs ∧ ∃ tr, rs = .big tr ∧ P.nodeSize ≤ tr.length ∧
          P.nodeSize ≤ (tr.leafAt P (tr.search f - 1)).size) ∧
    (∀ n, (rs.insert P f t).2 = .inc n →
        RangesOK P (rs.insert P f t).1 ∧
        (∀ v, covL (rs.insert P f t).1.flat v ↔ (covL rs.flat v ∨ (f ≤ v ∧ v ≤ t))) ∧
        ((rs.insert P f t).1.count : Int) = (rs.count : Int) + n ∧ n ≤ 1) := by
  rcases insert_cases P hP rs f t hft h with ⟨e, hcap⟩ | ⟨rs', n, e, hok, hcov, hcnt, hn⟩
  · rw [e]
    exact ⟨fun _ => ⟨rfl, hcap⟩, fun n hn => by cases hn⟩
  · rw [e]
    refine ⟨fun hf => (by cases hf), ?_⟩
    intro m hm
    simp only [Res.inc.injEq] at hm
    subst hm
    exact ⟨hok, hcov, hcnt, hn⟩

/-! ### histories -/

/-- the ranges of a history whose `Insert` did not answer Full (from state `rs` on) -/
def accepted (P : Params) : Ranges → List (Key × Key) → List (Key × Key)
  | _, [] => []
  | rs, o :: ops =>
    (if (rs.insert P o.1 o.2).2 = .full then [] else [o]) ++ accepted P (stepR P rs o) ops

/-- no `Insert` of the history answers Full (from state `rs` on) -/
def NoFull (P : Params) : Ranges → List (Key × Key) → Prop
  | _, [] => True
  | rs, o :: ops => (rs.insert P o.1 o.2).2 ≠ .full ∧ NoFull P (stepR P rs o) ops

instance NoFull.dec (P : Params) : ∀ (rs : Ranges) (ops : List (Key × Key)), Decidable (NoFull P rs ops)
  | _, [] => isTrue trivial
  | rs, o :: ops =>
    have := NoFull.dec P (stepR P rs o) ops
    inferInstanceAs (Decidable ((rs.insert P o.1 o.2).2 ≠ .full ∧ NoFull P (stepR P rs o) ops))

theorem accepted_of_noFull (P : Params) (ops : List (Key × Key)) :
    ∀ rs, NoFull P rs ops → accepted P rs ops = ops := by
  induction ops with
  | nil => intro rs _; rfl
  | cons o ops ih =>
    intro rs h
    simp only [accepted, if_neg h.1, ih _ h.2, List.singleton_append]

theorem run_from (P : Params) (hP : P.Valid) (ops : List (Key × Key)) :
    ∀ (rs : Ranges) (done : List (Key × Key)), RangesOK P rs →
      (∀ v, covL rs.flat v ↔ ∃ o ∈ done, o.1 ≤ v ∧ v ≤ o.2) → (∀ o ∈ ops, o.1 ≤ o.2) →
      RangesOK P (ops.foldl (stepR P) rs) ∧
        ∀ v, covL (ops.foldl (stepR P) rs).flat v ↔ ∃ o ∈ done ++ accepted P rs ops, o.1 ≤ v ∧ v ≤ o.2 := by
  induction ops with
  | nil => intro rs done h hc _; exact ⟨h, by simpa [accepted] using hc⟩
  | cons o ops ih =>
    intro rs done h hc hw
    have hwo := hw o List.mem_cons_self
    have hw' : ∀ x ∈ ops, x.1 ≤ x.2 := fun x hx => hw x (List.mem_cons_of_mem _ hx)
    simp only [List.foldl_cons, accepted]
    rcases insert_cases P hP rs o.1 o.2 hwo h with ⟨e, _⟩ | ⟨rs', n, e, hok, hcov, _, _⟩
    · have hs : stepR P rs o = rs := by simp only [stepR, e]
      rw [hs, e]
      simpa using ih rs done h hc hw'
    · have hs : stepR P rs o = rs' := by simp only [stepR, e]
      rw [hs, e]
      have := ih rs' (done ++ [o]) hok (by
        intro v
        rw [hcov v, hc v]
        simp only [List.mem_append, List.mem_singleton]
        constructor
        · rintro (⟨x, hx, hxv⟩ | hv)
          · exact ⟨x, Or.inl hx, hxv⟩
          · exact ⟨o, Or.inr rfl, hv⟩
        · rintro ⟨x, hx | rfl, hxv⟩
          · exact Or.inl ⟨x, hx, hxv⟩
          · exact Or.inr hxv) hw'
      simpa using this

/-- after any history of `Insert(from ≤ to)` from the zero value: the invariant holds and the covered
set is the union of the ranges whose `Insert` did not answer Full -/
theorem run_ok (P : Params) (hP : P.Valid) (ops : List (Key × Key)) (hw : ∀ o ∈ ops, o.1 ≤ o.2) :
    RangesOK P (runR P ops) ∧
      ∀ v, covL (runR P ops).flat v ↔ ∃ o ∈ accepted P (Ranges.empty P) ops, o.1 ≤ v ∧ v ≤ o.2 := by
  have := run_from P hP ops (Ranges.empty P) [] (empty_ok P)
    (by intro v; simp [covL, Ranges.empty, Ranges.flat, Leaf.live, Leaf.empty]) hw
  simpa [runR] using this

/-- `Contains v` after any history ⟺ some range whose `Insert` was not refused covers `v` -/
theorem run_contains (P : Params) (hP : P.Valid) (ops : List (Key × Key)) (hw : ∀ o ∈ ops, o.1 ≤ o.2)
    (v : Key) :
    (runR P ops).contains P v = true ↔ ∃ o ∈ accepted P (Ranges.empty P) ops, o.1 ≤ v ∧ v ≤ o.2 := by
  obtain ⟨hok, hcov⟩ := run_ok P hP ops hw
  rw [ranges_contains_flat P _ v hok]
  exact hcov v

/-- … and when no `Insert` answered Full: ⟺ some inserted range covers `v` -/
theorem run_contains_noFull (P : Params) (hP : P.Valid) (ops : List (Key × Key))
    (hw : ∀ o ∈ ops, o.1 ≤ o.2) (hnf : NoFull P (Ranges.empty P) ops) (v : Key) :
    (runR P ops).contains P v = true ↔ ∃ o ∈ ops, o.1 ≤ v ∧ v ≤ o.2 := by
  rw [run_contains P hP ops hw v, accepted_of_noFull P ops _ hnf]

/-! ### capacity -/

theorem count_ge_length {t : Tree} (h : ∀ s ∈ t, 0 < s.leaf.size) : t.length ≤ Ranges.count (.big t) := by
  induction t with
  | nil => exact Nat.le_refl _
  | cons a t ih =>
    have h1 := h a List.mem_cons_self
    have h2 := ih (fun s hs => h s (List.mem_cons_of_mem _ hs))
    simp only [Ranges.count, List.map_cons, List.sum_cons, List.length_cons] at h2 ⊢
    omega

/-- Full is answered only with at least `2 * nodeSize - 1` ranges stored -/
theorem full_count (P : Params) (tr : Tree) (f : Key) (hT : TreeOK P tr) (h1 : P.nodeSize ≤ tr.length)
    (h2 : P.nodeSize ≤ (tr.leafAt P (tr.search f - 1)).size) :
    2 * P.nodeSize ≤ Ranges.count (.big tr) + 1 := by
  obtain ⟨pre, s, post, rfl, hr, _, _⟩ := route tr (vals_sorted hT.ordered) hT.ne hT.first f
  have hti : Tree.search (pre ++ s :: post) f - 1 = pre.length := by omega
  rw [hti, leafAt_mid] at h2
  rw [count_big_mid]
  have hp1 := count_ge_length (t := pre) (fun a ha => (hT.slots a (by simp [ha])).pos)
  have hp2 := count_ge_length (t := post) (fun a ha => (hT.slots a (by simp [ha])).pos)
  simp only [List.length_append, List.length_cons] at h1
  omega

theorem noFull_of_count (P : Params) (hP : P.Valid) (ops : List (Key × Key)) :
    ∀ rs, RangesOK P rs → (∀ o ∈ ops, o.1 ≤ o.2) → rs.count + ops.length < 2 * P.nodeSize →
      NoFull P rs ops := by
  induction ops with
  | nil => intro rs _ _ _; trivial
  | cons o ops ih =>
    intro rs h hw hn
    simp only [List.length_cons] at hn
    have hw' : ∀ x ∈ ops, x.1 ≤ x.2 := fun x hx => hw x (List.mem_cons_of_mem _ hx)
    rcases insert_cases P hP rs o.1 o.2 (hw o List.mem_cons_self) h with
      ⟨e, tr, rfl, c1, c2⟩ | ⟨rs', n, e, hok, _, hcnt, hn1⟩
    · exfalso
      have := full_count P tr o.1 h c1 c2
      omega
    · have hs : stepR P rs o = rs' := by simp only [stepR, e]
      refine ⟨by rw [e]; simp, ?_⟩
      rw [hs]
      exact ih rs' hok hw' (by omega)

/-- a history shorter than `2 * nodeSize` never gets Full -/
theorem noFull_of_length (P : Params) (hP : P.Valid) (ops : List (Key × Key))
    (hw : ∀ o ∈ ops, o.1 ≤ o.2) (hn : ops.length < 2 * P.nodeSize) : NoFull P (Ranges.empty P) ops :=
  noFull_of_count P hP ops _ (empty_ok P) hw (by simpa [Ranges.empty, Ranges.count, Leaf.empty] using hn)

end Gsu.Ranges
