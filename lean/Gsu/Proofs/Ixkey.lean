/-
Helper lemmas for C12 (ixkey). Core-only.
-/
import Gsu.Model.Ixkey
namespace Gsu.Ixkey
open Gsu.Proto

/-- a "tail" is what may follow an encoded field: nothing, or a separator then anything -/
def IsTail (s : List UInt8) : Prop := s = [] ∨ ∃ r, s = 0 :: 0 :: r

theorem cmpB_refl_append (p x y : List UInt8) : cmpB (p ++ x) (p ++ y) = cmpB x y := by
  induction p with
  | nil => rfl
  | cons a p ih => simp [cmpB, ih, UInt8.lt_irrefl]

theorem enc_cmp (a b sa sb : List UInt8) (ha : IsTail sa) (hb : IsTail sb) :
    cmpB (enc a ++ sa) (enc b ++ sb) =
      (match cmpB a b with | .eq => cmpB sa sb | o => o) := by
  induction a generalizing b with
  | nil =>
    cases b with
    | nil => simp [enc, cmpB]
    | cons c cs =>
      simp only [enc, List.nil_append, cmpB]
      rcases ha with rfl | ⟨r, rfl⟩
      · by_cases hc : c = 0 <;> simp [hc, cmpB]
      · by_cases hc : c = 0
        · subst hc; simp [cmpB]
        · have : (0:UInt8) < c := by
            rcases UInt8.lt_or_eq_of_le (UInt8.zero_le (a := c)) with h | h
            · exact h
            · exact absurd h.symm hc
          simp [hc, cmpB, this]
  | cons d ds ih =>
    cases b with
    | nil =>
      simp only [enc, List.nil_append, cmpB]
      rcases hb with rfl | ⟨r, rfl⟩
      · by_cases hd : d = 0 <;> simp [hd, cmpB]
      · by_cases hd : d = 0
        · subst hd; simp [cmpB]
        · have : (0:UInt8) < d := by
            rcases UInt8.lt_or_eq_of_le (UInt8.zero_le (a := d)) with h | h
            · exact h
            · exact absurd h.symm hd
          have h2 : ¬ d < 0 := by intro h; exact absurd h (UInt8.not_lt_zero)
          simp [hd, cmpB, this, h2]
    | cons c cs =>
      by_cases hd : d = 0 <;> by_cases hc : c = 0
      · subst hd; subst hc
        simp [enc, cmpB, UInt8.lt_irrefl, ih cs]
      · subst hd
        have : (0:UInt8) < c := by
          rcases UInt8.lt_or_eq_of_le (UInt8.zero_le (a := c)) with h | h
          · exact h
          · exact absurd h.symm hc
        simp [enc, cmpB, hc, this]
      · subst hc
        have : (0:UInt8) < d := by
          rcases UInt8.lt_or_eq_of_le (UInt8.zero_le (a := d)) with h | h
          · exact h
          · exact absurd h.symm hd
        have h2 : ¬ d < 0 := UInt8.not_lt_zero
        simp [enc, cmpB, hd, this, h2]
      · simp only [enc, hd, hc, if_false, List.cons_append, cmpB]
        by_cases h1 : d < c
        · simp [h1]
        · by_cases h2 : c < d
          · simp [h1, h2]
          · simp [h1, h2, ih cs]

end Gsu.Ixkey
