import Gsu.Proofs.SchemaAlg4
/-!
C21, part 5: `create`, `alterCreate`, `ensure` preserve `LWF`.
-/
namespace Gsu.SchemaAlg

/-- everything of an index but `bestKey` and `Fk.iindex` -/
def sk2 (ix : Index) : (Char × List String × String × List String × Nat) × List Fkey :=
  (sk ix, ix.fkToHere)

/-- two index lists agree position by position up to `bestKey` / `Fk.iindex` -/
def SameIxs (l l' : List Index) : Prop := ∀ i : Nat, (l'[i]?).map sk2 = (l[i]?).map sk2

theorem SameIxs.refl (l : List Index) : SameIxs l l := fun _ => rfl

theorem SameIxs.trans {a b c : List Index} (h1 : SameIxs a b) (h2 : SameIxs b c) : SameIxs a c :=
  fun i => (h2 i).trans (h1 i)

theorem SameIxs.bwd {l l' : List Index} (h : SameIxs l l') {i : Nat} {ix' : Index}
    (hi : l'[i]? = some ix') : ∃ ix, l[i]? = some ix ∧ sk ix = sk ix' ∧ ix.fkToHere = ix'.fkToHere := by
  have := h i
  rw [hi] at this
  cases h0 : l[i]? with
  | none => rw [h0] at this; cases this
  | some ix =>
    rw [h0] at this
    simp only [Option.map_some, Option.some.injEq, sk2, Prod.mk.injEq] at this
    exact ⟨ix, rfl, this.1.symm, this.2.symm⟩

theorem SameIxs.fwd {l l' : List Index} (h : SameIxs l l') {i : Nat} {ix : Index}
    (hi : l[i]? = some ix) : ∃ ix', l'[i]? = some ix' ∧ sk ix = sk ix' ∧ ix.fkToHere = ix'.fkToHere := by
  have := h i
  rw [hi] at this
  cases h0 : l'[i]? with
  | none => rw [h0] at this; cases this
  | some ix' =>
    rw [h0] at this
    simp only [Option.map_some, Option.some.injEq, sk2, Prod.mk.injEq] at this
    exact ⟨ix', rfl, this.1.symm, this.2.symm⟩

theorem sameIxs_setBestKeys (t : Table) (k : Nat) : SameIxs t.indexes (setBestKeys t k).indexes := by
  intro i
  simp only [setBestKeys, List.getElem?_map, List.getElem?_zipIdx, Option.map_map]
  congr 1
  funext ix
  simp only [Function.comp]
  split <;> rfl

theorem setBestKeys_name (t : Table) (k : Nat) : (setBestKeys t k).name = t.name := rfl

theorem setBestKeys_columns (t : Table) (k : Nat) : (setBestKeys t k).columns = t.columns := rfl

/-- putting a table whose old positions are unchanged and whose new positions are pending -/
theorem putT_linvX {db : Db} {tb : Table} {pend : List (List String)}
    (hinv : LInv db) (hok : FkOk db)
    (hold : ∀ i ix0, look db tb.name i = some ix0 → ∃ ix, tb.indexes[i]? = some ix ∧ sk ix0 = sk ix ∧
      ix0.fkToHere = ix.fkToHere ∧ ix.columns ∉ pend)
    (hnew : ∀ i ix, tb.indexes[i]? = some ix → look db tb.name i = none →
      ix.columns ∈ pend ∧ ix.fkToHere = []) :
    LInvX pend tb.name (putT db tb) := by
  -- links of the old and of the new metadata
  have C : ∀ n cols f, Link db n cols f ↔
      (Link (putT db tb) n cols f ∧ ¬(f.table = tb.name ∧ f.columns ∈ pend)) := by
    intro n cols f
    constructor
    · rintro ⟨hne, six0, hl, h1, h2, h3, h4⟩
      by_cases hft : f.table = tb.name
      · rw [hft] at hl
        obtain ⟨six, g1, g2, _, g4⟩ := hold _ _ hl
        obtain ⟨e1, e2, e3⟩ := sk_fk g2
        refine ⟨⟨hne, six, ?_, by rw [← sk_columns g2, h1], by rw [← e3, h2], by rw [← e1, h3],
          by rw [← e2, h4]⟩, ?_⟩
        · rw [look_putT, if_pos hft]; exact g1
        · rintro ⟨_, b⟩
          rw [← h1, sk_columns g2] at b
          exact g4 b
      · refine ⟨⟨hne, six0, ?_, h1, h2, h3, h4⟩, fun ⟨a, _⟩ => hft a⟩
        rw [look_putT, if_neg hft]; exact hl
    · rintro ⟨⟨hne, six, hl, h1, h2, h3, h4⟩, hp⟩
      rw [look_putT] at hl
      split at hl
      · rename_i hft
        cases h0 : look db tb.name f.iindex with
        | none =>
          have := (hnew _ _ hl h0).1
          rw [h1] at this
          exact absurd ⟨hft, this⟩ hp
        | some six0 =>
          obtain ⟨six', g1, g2, _, _⟩ := hold _ _ h0
          rw [hl] at g1; cases g1
          obtain ⟨e1, e2, e3⟩ := sk_fk g2
          exact ⟨hne, six0, by rw [hft]; exact h0, by rw [sk_columns g2, h1], by rw [e3, h2],
            by rw [e1, h3], by rw [e2, h4]⟩
      · exact ⟨hne, six, hl, h1, h2, h3, h4⟩
  intro n i ix hl
  rw [look_putT] at hl
  unfold LinkX
  split at hl
  · rename_i hn
    subst hn
    cases h0 : look db tb.name i with
    | none =>
      obtain ⟨hp, hemp⟩ := hnew _ _ hl h0
      rw [hemp]
      refine ⟨List.nodup_nil, fun f => ?_⟩
      simp only [List.not_mem_nil, false_iff]
      intro hx
      obtain ⟨hne, six0, hls, _, _, h3, h4⟩ := (C _ _ f).mpr hx
      obtain ⟨tix, ht1, ht2, _⟩ := hok _ _ _ hls (by rw [h3]; exact hne)
      rw [h3] at ht1
      obtain ⟨tix', _, g2, _, g4⟩ := hold _ _ ht1
      apply g4
      rw [← sk_columns g2, ht2, h4]
      exact hp
    | some ix0 =>
      obtain ⟨ix', g1, g2, g3, _⟩ := hold _ _ h0
      rw [hl] at g1; cases g1
      obtain ⟨hnd, hm⟩ := hinv _ _ _ h0
      rw [← g3, ← sk_columns g2]
      exact ⟨hnd, fun f => (hm f).trans (C _ _ f)⟩
  · obtain ⟨hnd, hm⟩ := hinv _ _ _ hl
    exact ⟨hnd, fun f => (hm f).trans (C _ _ f)⟩

end Gsu.SchemaAlg

namespace Gsu.SchemaAlg

/-- the request's index specs have explicit `Fk.columns` (the parser always fills them in) -/
def SpecsOk (specs : List Index) : Prop := ∀ s ∈ specs, s.fk.table ≠ "" → s.fk.columns ≠ []

theorem nodup_cols_of_dupIdx : ∀ {ixs : List Index}, dupIdx ixs = false → (ixs.map (·.columns)).Nodup
  | [], _ => by simp
  | x :: r, h => by
    simp only [dupIdx, Bool.or_eq_false_iff] at h
    rw [List.map_cons, List.nodup_cons]
    refine ⟨?_, nodup_cols_of_dupIdx h.2⟩
    intro hm
    obtain ⟨y, hy, hc⟩ := List.mem_map.mp hm
    have := h.1
    rw [Bool.eq_false_iff] at this
    apply this
    simp only [List.any_eq_true, beq_iff_eq]
    exact ⟨y, hy, hc⟩

theorem luniq_putT {db : Db} {tb : Table} (hu : LUniq db) (ht : TUniq tb) : LUniq (putT db tb) := by
  intro n i j a b ha hb hab
  rw [look_putT] at ha hb
  by_cases hn : n = tb.name
  · rw [if_pos hn] at ha hb
    exact ht i j a b ha hb hab
  · rw [if_neg hn] at ha hb
    exact hu n i j a b ha hb hab

theorem fkCols_putT {db : Db} {tb : Table} (hc : FkCols db)
    (ht : ∀ ix ∈ tb.indexes, ix.fk.table ≠ "" → ix.fk.columns ≠ []) : FkCols (putT db tb) := by
  intro n j ix hl
  rw [look_putT] at hl
  split at hl
  · exact ht ix (List.mem_of_getElem? hl)
  · exact hc n j ix hl

theorem tuniq_sameIxs {t t' : Table} (h : SameIxs t.indexes t'.indexes) (hu : TUniq t) : TUniq t' := by
  intro i j a b ha hb hab
  obtain ⟨a0, ha0, hsa, _⟩ := h.bwd ha
  obtain ⟨b0, hb0, hsb, _⟩ := h.bwd hb
  exact hu i j a0 b0 ha0 hb0 (by rw [sk_columns hsa, sk_columns hsb, hab])

theorem create_inv {db : Db} {name : String} {cols : List String} {specs : List Index} {db' : Db}
    (h : create db name cols specs = some db') :
    getT db name = none ∧ schemaCheck ⟨name, cols, specs.map specIndex⟩ = true ∧
    createFkeys (putT db (setBestKeys ⟨name, cols, specs.map specIndex⟩ 0)) name specs = some db' := by
  unfold create at h
  split at h
  · cases h
  · rename_i h1
    dsimp only at h
    split at h
    · cases h
    · rename_i h2
      split at h
      · cases h
      · split at h
        · cases h
        · rename_i db2 h4
          split at h
          · simp only [Option.some.injEq] at h
            subst h
            refine ⟨?_, by simpa using h2, h4⟩
            cases hg : getT db name with
            | none => rfl
            | some t => rw [hg] at h1; simp at h1
          · cases h

theorem create_lwf {db : Db} {name : String} {cols : List String} {specs : List Index} {db' : Db}
    (w : LWF db) (hok : SpecsOk specs) (h : create db name cols specs = some db') : LWF db' := by
  have hv := create_valid h
  obtain ⟨hg, hsc, hcf⟩ := create_inv h
  have hut0 : TUniq ⟨name, cols, specs.map specIndex⟩ := tuniq_of_schemaCheck hsc
  have hsame := sameIxs_setBestKeys ⟨name, cols, specs.map specIndex⟩ 0
  have hnone : ∀ i, look db name i = none := fun i => look_of_getT_none hg i
  -- the indexes of the new table are the specs
  have hspec : ∀ (i : Nat) (ix : Index), (setBestKeys ⟨name, cols, specs.map specIndex⟩ 0).indexes[i]? = some ix →
      ∃ s : Index, specs[i]? = some s ∧ ix.columns = s.columns ∧ ix.fk.table = s.fk.table ∧
        ix.fk.columns = s.fk.columns ∧ ix.fkToHere = [] := by
    intro i ix hi
    obtain ⟨ix0, h0, hsk, hb⟩ := hsame.bwd hi
    simp only [List.getElem?_map] at h0
    obtain ⟨s, hs, rfl⟩ := Option.map_eq_some_iff.mp h0
    obtain ⟨e1, e2, _⟩ := sk_fk hsk
    exact ⟨s, hs, (sk_columns hsk).symm, e1.symm, e2.symm, hb.symm⟩
  have hnd : (specs.map (·.columns)).Nodup := by
    have : dupIdx (specs.map specIndex) = false := by
      simp only [schemaCheck, Bool.and_eq_true, Bool.not_eq_true'] at hsc
      exact hsc.2
    have := nodup_cols_of_dupIdx this
    rw [List.map_map] at this
    exact this
  have hinvX : LInvX (specs.map (·.columns)) name
      (putT db (setBestKeys ⟨name, cols, specs.map specIndex⟩ 0)) := by
    apply putT_linvX (tb := setBestKeys ⟨name, cols, specs.map specIndex⟩ 0) w.linv (fkOk_of_validate w.valid)
    · intro i ix0 hl
      rw [show (setBestKeys ⟨name, cols, specs.map specIndex⟩ 0).name = name from rfl, hnone] at hl
      cases hl
    · intro i ix hi _
      obtain ⟨s, hs, hc, _, _, hb⟩ := hspec i ix hi
      exact ⟨List.mem_map.mpr ⟨s, List.mem_of_getElem? hs, hc.symm⟩, hb⟩
  have hu0 : LUniq (putT db (setBestKeys ⟨name, cols, specs.map specIndex⟩ 0)) :=
    luniq_putT (luniq_of_idxUniq (idxUniq_of_validate w.valid)) (tuniq_sameIxs hsame hut0)
  have hc0 : FkCols (putT db (setBestKeys ⟨name, cols, specs.map specIndex⟩ 0)) := by
    apply fkCols_putT w.fkc
    intro ix hix hfk
    obtain ⟨i, hi⟩ := List.mem_iff_getElem?.mp hix
    obtain ⟨s, hs, _, e1, e2, _⟩ := hspec i ix hi
    rw [e2]; exact hok s (List.mem_of_getElem? hs) (by rw [← e1]; exact hfk)
  have hag : Agree (putT db (setBestKeys ⟨name, cols, specs.map specIndex⟩ 0)) name specs := by
    intro spec hsp i six hl hcs
    rw [look_putT] at hl
    have hl : (setBestKeys ⟨name, cols, specs.map specIndex⟩ 0).indexes[i]? = some six := by
      simpa [setBestKeys_name] using hl
    obtain ⟨s, hs, hc, e1, _, _⟩ := hspec i six hl
    obtain ⟨k, hk⟩ := List.mem_iff_getElem?.mp hsp
    have hki : k = i := by
      apply hut0 k i (specIndex spec) (specIndex s)
      · simp [hk]
      · simp [hs]
      · show spec.columns = s.columns
        rw [← hc, hcs]
    subst hki
    rw [hs] at hk; cases hk
    exact e1
  obtain ⟨hl, hskel, hnames⟩ := createFkeys_linv specs _ _ hu0 hc0 hag hnd hinvX hcf
  refine ⟨hv, ?_, hc0.skel hskel, hl⟩
  unfold NamesNodup
  rw [hnames]
  exact namesNodup_putT w.names

end Gsu.SchemaAlg

namespace Gsu.SchemaAlg

theorem Skel.symm {a b : Db} (h : Skel a b) : Skel b a := fun n j => (h n j).symm

theorem eq_of_nodup_map {α β} (f : α → β) : ∀ {l : List α}, (l.map f).Nodup → ∀ {a b}, a ∈ l → b ∈ l →
    f a = f b → a = b
  | [], _, _, _, ha, _, _ => by cases ha
  | x :: r, hnd, a, b, ha, hb, hab => by
    rw [List.map_cons, List.nodup_cons] at hnd
    rcases List.mem_cons.mp ha with ha | ha <;> rcases List.mem_cons.mp hb with hb | hb
    · rw [ha, hb]
    · exfalso; apply hnd.1; rw [← ha, hab]; exact List.mem_map_of_mem hb
    · exfalso; apply hnd.1; rw [← hb, ← hab]; exact List.mem_map_of_mem ha
    · exact eq_of_nodup_map f hnd.2 ha hb hab

theorem appendIdxs_inv : ∀ (specs : List Index) (t t1 : Table), appendIdxs t specs = some t1 →
    t1.name = t.name ∧ t1.columns = t.columns ∧ t1.indexes = t.indexes ++ specs.map specIndex ∧
    (∀ s ∈ specs, ∀ ix ∈ t.indexes, ix.columns ≠ s.columns) ∧ (specs.map (·.columns)).Nodup
  | [], t, t1, h => by
    simp only [appendIdxs, Option.some.injEq] at h
    subst h
    simp
  | s :: r, t, t1, h => by
    simp only [appendIdxs] at h
    split at h
    · cases h
    · rename_i hf
      have hf' : findIdx t s.columns = none := by
        cases hx : findIdx t s.columns with
        | none => rfl
        | some k => rw [hx] at hf; simp at hf
      obtain ⟨h1, h2, h3, h4, h5⟩ := appendIdxs_inv r _ t1 h
      refine ⟨h1, h2, ?_, ?_, ?_⟩
      · rw [h3]; simp
      · intro s' hs' ix hix
        rcases List.mem_cons.mp hs' with e | e
        · rw [e]; exact findIdx_none hf' ix hix
        · exact h4 s' e ix (by simp [hix])
      · rw [List.map_cons, List.nodup_cons]
        refine ⟨?_, h5⟩
        intro hm
        obtain ⟨s', hs', hc⟩ := List.mem_map.mp hm
        exact h4 s' hs' (specIndex s) (by simp) hc.symm

theorem setFkeyIIndex_go_same (db : Db) (ts : Table) : ∀ (ixs ixs' : List Index),
    setFkeyIIndex.go db ts ixs = some ixs' → SameIxs ixs ixs'
  | [], ixs', h => by
    simp only [setFkeyIIndex.go, Option.some.injEq] at h
    subst h; exact SameIxs.refl _
  | ix :: r, ixs', h => by
    simp only [setFkeyIIndex.go] at h
    split at h
    · obtain ⟨r', hr', rfl⟩ := Option.map_eq_some_iff.mp h
      have ih := setFkeyIIndex_go_same db ts r r' hr'
      intro i
      cases i with
      | zero => rfl
      | succ i => simpa using ih i
    · split at h
      · cases h
      · split at h
        · cases h
        · obtain ⟨r', hr', rfl⟩ := Option.map_eq_some_iff.mp h
          have ih := setFkeyIIndex_go_same db ts r r' hr'
          intro i
          cases i with
          | zero => rfl
          | succ i => simpa using ih i

theorem setFkeyIIndex_inv {db : Db} {ts ts' : Table} (h : setFkeyIIndex db ts = some ts') :
    ts'.name = ts.name ∧ ts'.columns = ts.columns ∧ SameIxs ts.indexes ts'.indexes := by
  unfold setFkeyIIndex at h
  obtain ⟨ixs, h1, rfl⟩ := Option.map_eq_some_iff.mp h
  exact ⟨rfl, rfl, setFkeyIIndex_go_same db ts _ _ h1⟩

end Gsu.SchemaAlg

namespace Gsu.SchemaAlg

theorem alterCreateMeta_inv {db : Db} {name : String} {cols : List String} {specs : List Index} {db' : Db}
    (h : alterCreateMeta db name cols specs = some db') :
    ∃ ts ts1 ts3, getT db name = some ts ∧
      appendIdxs { ts with columns := ts.columns ++ cols } specs = some ts1 ∧
      setFkeyIIndex db (setBestKeys ts1 ts.indexes.length) = some ts3 ∧
      createFkeys (putT db ts3) name specs = some db' := by
  unfold alterCreateMeta at h
  split at h
  · cases h
  · rename_i ts hts
    split at h
    · cases h
    · split at h
      · cases h
      · rename_i ts1 h1
        dsimp only at h
        split at h
        · cases h
        · split at h
          · cases h
          · rename_i ts3 h3
            split at h
            · cases h
            · rename_i db2 h4
              split at h
              · simp only [Option.some.injEq] at h
                subst h
                exact ⟨ts, ts1, ts3, hts, h1, h3, h4⟩
              · cases h

theorem alterCreateMeta_lwf {db : Db} {name : String} {cols : List String} {specs : List Index} {db' : Db}
    (w : LWF db) (hok : SpecsOk specs) (h : alterCreateMeta db name cols specs = some db') : LWF db' := by
  have hv := alterCreateMeta_valid h
  obtain ⟨ts, ts1, ts3, hts, h1, h3, hcf⟩ := alterCreateMeta_inv h
  obtain ⟨a1, _, a3, a4, a5⟩ := appendIdxs_inv _ _ _ h1
  obtain ⟨b1, _, b3⟩ := setFkeyIIndex_inv h3
  have hname : ts3.name = name := by
    rw [b1, setBestKeys_name, a1]; exact getT_name (t := ts) hts
  -- the indexes of the table that is put: old ones, then the specs
  have hsame : SameIxs (ts.indexes ++ specs.map specIndex) ts3.indexes := by
    have := (sameIxs_setBestKeys ts1 ts.indexes.length).trans b3
    rw [a3] at this
    exact this
  have hlook : ∀ i, look db name i = ts.indexes[i]? := fun i => look_of_getT hts i
  have hinvX : LInvX (specs.map (·.columns)) ts3.name (putT db ts3) := by
    apply putT_linvX w.linv (fkOk_of_validate w.valid)
    · intro i ix0 hl
      rw [hname, hlook] at hl
      have : (ts.indexes ++ specs.map specIndex)[i]? = some ix0 := by
        rw [List.getElem?_append_left (List.getElem?_eq_some_iff.mp hl).1]; exact hl
      obtain ⟨ix, g1, g2, g3⟩ := hsame.fwd this
      refine ⟨ix, g1, g2, g3, ?_⟩
      intro hm
      obtain ⟨s, hs, hc⟩ := List.mem_map.mp hm
      exact a4 s hs ix0 (List.mem_of_getElem? hl) (by rw [sk_columns g2]; exact hc.symm)
    · intro i ix hi hnone
      rw [hname, hlook] at hnone
      obtain ⟨ix0, g1, g2, g3⟩ := hsame.bwd hi
      have hlen : ts.indexes.length ≤ i := by
        rcases Nat.lt_or_ge i ts.indexes.length with hlt | hge
        · rw [List.getElem?_eq_getElem hlt] at hnone; cases hnone
        · exact hge
      rw [List.getElem?_append_right hlen, List.getElem?_map] at g1
      obtain ⟨s, hs, rfl⟩ := Option.map_eq_some_iff.mp g1
      refine ⟨List.mem_map.mpr ⟨s, List.mem_of_getElem? hs, ?_⟩, g3.symm⟩
      exact sk_columns g2
  rw [hname] at hinvX
  have hc0 : FkCols (putT db ts3) := by
    apply fkCols_putT w.fkc
    intro ix hix hfk
    obtain ⟨i, hi⟩ := List.mem_iff_getElem?.mp hix
    obtain ⟨ix0, g1, g2, _⟩ := hsame.bwd hi
    obtain ⟨e1, e2, _⟩ := sk_fk g2
    rw [← e2]
    rcases List.mem_append.mp (List.mem_of_getElem? g1) with hm | hm
    · obtain ⟨k, hk⟩ := List.mem_iff_getElem?.mp hm
      exact w.fkc name k ix0 (by rw [hlook]; exact hk) (by rw [e1]; exact hfk)
    · obtain ⟨s, hs, rfl⟩ := List.mem_map.mp hm
      exact hok s hs (by rw [show s.fk.table = (specIndex s).fk.table from rfl, e1]; exact hfk)
  have hag : Agree (putT db ts3) name specs := by
    intro spec hsp i six hl hcs
    rw [look_putT, if_pos hname.symm] at hl
    obtain ⟨ix0, g1, g2, _⟩ := hsame.bwd hl
    rw [← (sk_fk g2).1]
    rcases List.mem_append.mp (List.mem_of_getElem? g1) with hm | hm
    · exact absurd (by rw [sk_columns g2]; exact hcs) (a4 spec hsp ix0 hm)
    · obtain ⟨s, hs, rfl⟩ := List.mem_map.mp hm
      have : s = spec := eq_of_nodup_map (·.columns) a5 hs hsp
        (by rw [← hcs, ← sk_columns g2]; rfl)
      rw [this]; rfl
  -- uniqueness of index columns comes back from the validated result
  have hskel0 : ∀ db2, createFkeys (putT db ts3) name specs = some db2 → validate db2 = true →
      LUniq (putT db ts3) := by
    intro db2 hcf2 hv2
    -- `createFkeys` keeps the skeleton whatever the invariant; redo the fold without it
    have : ∀ (specs : List Index) (d d2 : Db), createFkeys d name specs = some d2 → Skel d d2 := by
      intro specs
      induction specs with
      | nil => intro d d2 hh; simp only [createFkeys, Option.some.injEq] at hh; subst hh; exact Skel.refl _
      | cons s r ih =>
        intro d d2 hh
        simp only [createFkeys] at hh
        split at hh
        · cases hh
        · rename_i d1 hd1
          have s1 : Skel d d1 := by
            rcases createFkey1_inv hd1 with ⟨_, rfl⟩ | ⟨_, tsi, six, j, tix, _, _, _, _, rfl⟩
            · exact Skel.refl _
            · exact skel_linkStep _ _ _ _ _ _
          exact s1.trans (ih d1 d2 hh)
    exact (luniq_of_idxUniq (idxUniq_of_validate hv2)).skel (this specs _ _ hcf2).symm
  have hu0 := hskel0 db' hcf hv
  obtain ⟨hl, hskel, hnames⟩ := createFkeys_linv specs _ _ hu0 hc0 hag a5 hinvX hcf
  refine ⟨hv, ?_, hc0.skel hskel, hl⟩
  unfold NamesNodup
  rw [hnames]
  exact namesNodup_putT w.names

theorem alterCreate_lwf {db : Db} {name : String} {d : Bool} {cols : List String} {specs : List Index}
    {db' : Db} (w : LWF db) (hok : SpecsOk specs) (h : alterCreate db name d cols specs = some db') :
    LWF db' := by
  unfold alterCreate at h
  split at h
  · cases h
  · exact alterCreateMeta_lwf w hok h

theorem ensure_lwf {db : Db} {name : String} {d : Bool} {cols : List String} {specs : List Index}
    {db' : Db} (w : LWF db) (hok : SpecsOk specs) (h : ensure db name d cols specs = some db') :
    LWF db' := by
  unfold ensure at h
  split at h
  · exact create_lwf w hok h
  · split at h
    · cases h
    · simp only [Option.some.injEq] at h; subst h; exact w
    · dsimp only at h
      split at h
      · cases h
      · rename_i db2 h2
        split at h
        · cases h
        · simp only [Option.some.injEq] at h
          subst h
          refine alterCreateMeta_lwf w ?_ h2
          intro s hs
          exact hok s (List.mem_filter.mp hs).1

end Gsu.SchemaAlg
