/-
C33: the closed-form civil date (`civil`) is the inverse of the generated `julianDayNumber` on
the supported years, so the checked inversion `fromJdn` never fails there and `normalize`
(`NormalizeDate`/`Plus`) returns a date whenever the normalised instant is in range.
-/
import Gsu.Proofs.Date
namespace Gsu.Date
open Gsu.Gen.Date

/-- year of era and day of year (March based) from the day of era, for
`doe = 36524·f + 1461·q + r2` (century, 4-year cycle, day of cycle) -/
theorem yoe_doy_aux (doe f q r2 : Int) (h0 : 0 ≤ r2) (h1 : r2 ≤ 1460) (ha : doe = 36524 * f + 1461 * q + r2)
    (hf : 0 ≤ f) (hf1 : f ≤ 3) (hq : 0 ≤ q) (hq1 : q ≤ 24) (hq2 : q = 24 → r2 < 1460) :
    let yoe := (doe - doe / 1460 + doe / 36524 - doe / 146096) / 365
    let doy := doe - (365 * yoe + yoe / 4 - yoe / 100)
    0 ≤ yoe ∧ yoe ≤ 399 ∧ 0 ≤ doy ∧ doy ≤ 365 ∧
      (doy = 365 → (yoe + 1) % 4 = 0 ∧ ((yoe + 1) % 100 ≠ 0 ∨ yoe = 399)) := by
  intro yoe doy
  have e1 : doe / 36524 = f := by omega
  have e2 : doe / 146096 = 0 := by omega
  have key : ∃ ε : Int, (ε = 0 ∨ ε = 1) ∧ doe / 1460 = 25 * f + q + ε ∧ (ε = 1 → 1364 ≤ r2) ∧
      (r2 = 1460 → ε = 1) := by
    by_cases hε : 24 * f + q + r2 ≥ 1460
    · exact ⟨1, Or.inr rfl, by omega, by omega, by omega⟩
    · exact ⟨0, Or.inl rfl, by omega, by omega, by omega⟩
  obtain ⟨ε, hε, e3, hε1, hε2⟩ := key
  have hy : yoe = 100 * f + 4 * q + (r2 - ε) / 365 := by
    show (doe - doe / 1460 + doe / 36524 - doe / 146096) / 365 = _
    rw [e1, e2, e3]; omega
  have hk0 : 0 ≤ (r2 - ε) / 365 := by omega
  have hk3 : (r2 - ε) / 365 ≤ 3 := by omega
  have hc : yoe / 4 = 25 * f + q := by omega
  have hd : yoe / 100 = f := by omega
  have hdoy : doy = r2 - 365 * ((r2 - ε) / 365) := by
    show doe - (365 * yoe + yoe / 4 - yoe / 100) = _
    rw [hc, hd, hy]; omega
  refine ⟨by omega, by omega, by omega, by omega, ?_⟩
  intro h365
  have : r2 = 1460 := by omega
  have : q ≤ 23 := by omega
  omega

theorem yoe_doy (doe yoe doy : Int) (h0 : 0 ≤ doe) (h1 : doe < 146097)
    (hy : yoe = (doe - doe / 1460 + doe / 36524 - doe / 146096) / 365)
    (hd : doy = doe - (365 * yoe + yoe / 4 - yoe / 100)) :
    0 ≤ yoe ∧ yoe ≤ 399 ∧ 0 ≤ doy ∧ doy ≤ 365 ∧
      (doy = 365 → (yoe + 1) % 4 = 0 ∧ ((yoe + 1) % 100 ≠ 0 ∨ yoe = 399)) := by
  subst hy hd
  by_cases hl : doe = 146096
  · subst hl; decide
  · exact yoe_doy_aux doe (doe / 36524) (doe % 36524 / 1461) (doe % 36524 % 1461) (by omega) (by omega)
      (by omega) (by omega) (by omega) (by omega) (by omega) (by omega)

/-- `civil`, with its intermediate values named: the result has day number `n` (floor-division
form of `julianDayNumber`) and is a calendar day of the supported years -/
theorem civil_core (n era doe yoe doy mp d m y : Int) (hn0 : 1721060 ≤ n) (hn1 : n ≤ 2816788)
    (hera : era = (n - 1721120) / 146097) (hdoe : doe = (n - 1721120) % 146097)
    (hyoe : yoe = (doe - doe / 1460 + doe / 36524 - doe / 146096) / 365)
    (hdoy : doy = doe - (365 * yoe + yoe / 4 - yoe / 100))
    (hmp : mp = (5 * doy + 2) / 153) (hd : d = doy - (153 * mp + 2) / 5 + 1)
    (hm : m = if mp < 10 then mp + 3 else mp - 9)
    (hy : y = yoe + era * 400 + (if m ≤ 2 then 1 else 0)) :
    jdnE y m d = n ∧ 1 ≤ m ∧ m ≤ 12 ∧ 1 ≤ d ∧ d ≤ daysInMonth y m ∧ 0 ≤ y ∧ y ≤ 3000 := by
  obtain ⟨y0, y1, d0, d1, hleap⟩ := yoe_doy doe yoe doy (by omega) (by omega) hyoe hdoy
  have hmp0 : 0 ≤ mp := by omega
  have hmp1 : mp ≤ 11 := by omega
  have hmpc : mp = 0 ∨ mp = 1 ∨ mp = 2 ∨ mp = 3 ∨ mp = 4 ∨ mp = 5 ∨ mp = 6 ∨ mp = 7 ∨ mp = 8 ∨
      mp = 9 ∨ mp = 10 ∨ mp = 11 := by omega
  have hera0 : -1 ≤ era := by omega
  have hera1 : era ≤ 7 := by omega
  have hz : n = era * 146097 + doe + 1721120 := by omega
  have hlo : era = -1 → 146037 ≤ doe := by omega
  have hhi : era = 7 → doe ≤ 72989 := by omega
  have hylo : era = -1 → yoe = 399 ∧ 306 ≤ doy := by
    intro h; have := hlo h; omega
  have hyhi : era = 7 → yoe ≤ 199 ∧ (yoe = 199 → doy ≤ 306) := by
    intro h; have := hhi h; omega
  rcases hmpc with h | h | h | h | h | h | h | h | h | h | h | h <;> subst h <;>
    simp only [Int.reduceLT, if_true, if_false, Int.reduceAdd, Int.reduceSub, Int.reduceMul,
      Int.reduceDiv] at hm hd <;> subst hm <;>
    simp only [Int.reduceLE, if_true, if_false] at hy <;>
    simp only [jdnE, daysInMonth, IsLeap, Int.reduceEq, Int.reduceSub, Int.reduceDiv, Int.reduceAdd,
      Int.reduceMul, false_or, or_false, or_true, true_or, if_true, if_false]
  all_goals first
    | (refine ⟨?_, ?_, ?_, ?_, ?_, ?_, ?_⟩ <;> omega)
    | (split_ifs <;> refine ⟨?_, ?_, ?_, ?_, ?_, ?_, ?_⟩ <;> omega)

end Gsu.Date
