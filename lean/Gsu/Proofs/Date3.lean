/-
C33: the closed-form civil date (`civil`) is the inverse of the generated `julianDayNumber` on
the supported years, so the checked inversion `fromJdn` never fails there and `normalize`
(`NormalizeDate`/`Plus`) returns a date whenever the normalised instant is in range.
-/
import Gsu.Proofs.Date
namespace Gsu.Date
open Gsu.Gen.Date
set_option linter.unusedSimpArgs false

/-- year of era and day of year (March based) from the day of era, for
`doe = 36524·f + 1461·q + r2` (century, 4-year cycle, day of cycle) -/
theorem yoe_doy_aux (doe f q r2 : Int) (h0 : 0 ≤ r2) (h1 : r2 ≤ 1460) (ha : doe = 36524 * f + 1461 * q + r2)
    (hf : 0 ≤ f) (hf1 : f ≤ 3) (hq : 0 ≤ q) (hq1 : q ≤ 24) (hq2 : q = 24 → r2 < 1460) :
    let yoe := (doe - doe / 1460 + doe / 36524 - doe / 146096) / 365
    let doy := doe - (365 * yoe + yoe / 4 - yoe / 100)
    0 ≤ yoe ∧ yoe ≤ 399 ∧ 0 ≤ doy ∧ doy ≤ 365 ∧
      (doy = 365 → (yoe + 1) % 4 = 0 ∧ ((yoe + 1) % 100 ≠ 0 ∨ yoe = 399)) := by
  intro yoe doy
  have e1 : doe / 36524 = f := by omega
  have e2 : doe / 146096 = 0 := by omega
  have key : ∃ ε : Int, (ε = 0 ∨ ε = 1) ∧ doe / 1460 = 25 * f + q + ε ∧ (ε = 1 → 1364 ≤ r2) ∧
      (r2 = 1460 → ε = 1) := by
    by_cases hε : 24 * f + q + r2 ≥ 1460
    · exact ⟨1, Or.inr rfl, by omega, by omega, by omega⟩
    · exact ⟨0, Or.inl rfl, by omega, by omega, by omega⟩
  obtain ⟨ε, hε, e3, hε1, hε2⟩ := key
  have hy : yoe = 100 * f + 4 * q + (r2 - ε) / 365 := by
    show (doe - doe / 1460 + doe / 36524 - doe / 146096) / 365 = _
    rw [e1, e2, e3]; omega
  have hk0 : 0 ≤ (r2 - ε) / 365 := by omega
  have hk3 : (r2 - ε) / 365 ≤ 3 := by omega
  have hc : yoe / 4 = 25 * f + q := by omega
  have hd : yoe / 100 = f := by omega
  have hdoy : doy = r2 - 365 * ((r2 - ε) / 365) := by
    show doe - (365 * yoe + yoe / 4 - yoe / 100) = _
    rw [hc, hd, hy]; omega
  refine ⟨by omega, by omega, by omega, by omega, ?_⟩
  intro h365
  have : r2 = 1460 := by omega
  have : q ≤ 23 := by omega
  omega

theorem yoe_doy (doe yoe doy : Int) (h0 : 0 ≤ doe) (h1 : doe < 146097)
    (hy : yoe = (doe - doe / 1460 + doe / 36524 - doe / 146096) / 365)
    (hd : doy = doe - (365 * yoe + yoe / 4 - yoe / 100)) :
    0 ≤ yoe ∧ yoe ≤ 399 ∧ 0 ≤ doy ∧ doy ≤ 365 ∧
      (doy = 365 → (yoe + 1) % 4 = 0 ∧ ((yoe + 1) % 100 ≠ 0 ∨ yoe = 399)) := by
  subst hy hd
  by_cases hl : doe = 146096
  · subst hl; decide
  · exact yoe_doy_aux doe (doe / 36524) (doe % 36524 / 1461) (doe % 36524 % 1461) (by omega) (by omega)
      (by omega) (by omega) (by omega) (by omega) (by omega) (by omega)

/-- the year part of the day number, split by era -/
theorem jdnE_year (era yoe Y : Int) (y0 : 0 ≤ yoe) (y1 : yoe ≤ 399) (hY : Y = yoe + era * 400 + 4800) :
    365 * Y + Y / 4 - Y / 100 + Y / 400 =
      365 * yoe + yoe / 4 - yoe / 100 + 146097 * era + 1753164 := by
  subst hY; omega

/-- `civil`, with its intermediate values named: the result has day number `n` (floor-division
form of `julianDayNumber`) and is a calendar day of the supported years -/
theorem civil_core (n era doe yoe doy mp d m y : Int) (hn0 : 1721060 ≤ n) (hn1 : n ≤ 2816788)
    (hera : era = (n - 1721120) / 146097) (hdoe : doe = (n - 1721120) % 146097)
    (hyoe : yoe = (doe - doe / 1460 + doe / 36524 - doe / 146096) / 365)
    (hdoy : doy = doe - (365 * yoe + yoe / 4 - yoe / 100))
    (hmp : mp = (5 * doy + 2) / 153) (hd : d = doy - (153 * mp + 2) / 5 + 1)
    (hm : m = if mp < 10 then mp + 3 else mp - 9)
    (hy : y = yoe + era * 400 + (if m ≤ 2 then 1 else 0)) :
    jdnE y m d = n ∧ 1 ≤ m ∧ m ≤ 12 ∧ 1 ≤ d ∧ d ≤ daysInMonth y m ∧ 0 ≤ y ∧ y ≤ 3000 := by
  obtain ⟨y0, y1, d0, d1, hleap⟩ := yoe_doy doe yoe doy (by omega) (by omega) hyoe hdoy
  have hmp0 : 0 ≤ mp := by omega
  have hmp1 : mp ≤ 11 := by omega
  have hmpc : mp = 0 ∨ mp = 1 ∨ mp = 2 ∨ mp = 3 ∨ mp = 4 ∨ mp = 5 ∨ mp = 6 ∨ mp = 7 ∨ mp = 8 ∨
      mp = 9 ∨ mp = 10 ∨ mp = 11 := by omega
  have hera0 : -1 ≤ era := by omega
  have hera1 : era ≤ 7 := by omega
  have hz : n = era * 146097 + doe + 1721120 := by omega
  have hlo : era = -1 → 146037 ≤ doe := by omega
  have hhi : era = 7 → doe ≤ 72989 := by omega
  clear hera hdoe hyoe hn0 hn1
  have hylo : era = -1 → yoe = 399 ∧ 306 ≤ doy := by
    intro h; have := hlo h; omega
  have hyhi : era = 7 → yoe ≤ 199 ∧ (yoe = 199 → doy ≤ 306) := by
    intro h; have := hhi h; omega
  have hJ : ∀ Y : Int, Y = yoe + era * 400 + 4800 →
      365 * Y + Y / 4 - Y / 100 + Y / 400 = doe - doy + 146097 * era + 1753164 := by
    intro Y hY; rw [jdnE_year era yoe Y y0 y1 hY]; omega
  clear hlo hhi hdoy
  subst hz
  rcases hmpc with h | h | h | h | h | h | h | h | h | h | h | h <;> subst h <;>
    simp only [Int.reduceLT, if_true, if_false, Int.reduceAdd, Int.reduceSub, Int.reduceMul,
      Int.reduceDiv] at hm hd <;> subst hm <;>
    simp only [Int.reduceLE, if_true, if_false] at hy <;>
    simp only [jdnE, daysInMonth, IsLeap, Int.reduceEq, Int.reduceSub, Int.reduceDiv, Int.reduceAdd,
      Int.reduceMul, false_or, or_false, or_true, true_or, if_true, if_false]
  iterate 10
    · have hJ' := hJ (y + 4800 - 0) (by omega)
      clear hJ hleap
      refine ⟨?_, ?_, ?_, ?_, ?_, ?_, ?_⟩ <;> omega
  · have hJ' := hJ (y + 4800 - 1) (by omega)
    clear hJ hleap
    refine ⟨?_, ?_, ?_, ?_, ?_, ?_, ?_⟩ <;> omega
  · have hJ' := hJ (y + 4800 - 1) (by omega)
    clear hJ
    split_ifs with hl
    · clear hleap
      refine ⟨?_, ?_, ?_, ?_, ?_, ?_, ?_⟩ <;> omega
    · refine ⟨?_, ?_, ?_, ?_, ?_, ?_, ?_⟩ <;> omega

/-- `civil` inverts the generated `julianDayNumber` on 0000-01-01 … 3000-01-01 and yields a
calendar day there -/
theorem civil_spec (n : Int) (h0 : 1721060 ≤ n) (h1 : n ≤ 2816788) :
    jdn (civil n).1 (civil n).2.1 (civil n).2.2 = n ∧
      validYMD (civil n).1 (civil n).2.1 (civil n).2.2 = true := by
  obtain ⟨hj, m0, m1, d0, d1, y0, y1⟩ :=
    civil_core n _ _ _ _ _ (civil n).2.2 (civil n).2.1 (civil n).1 h0 h1 rfl rfl rfl rfl rfl rfl rfl rfl
  refine ⟨?_, ?_⟩
  · rw [jdn_eq _ _ _ (by omega) m0 m1]; exact hj
  · simp only [validYMD, Bool.and_eq_true, decide_eq_true_eq]
    exact ⟨⟨⟨⟨⟨y0, y1⟩, m0⟩, m1⟩, d0⟩, d1⟩

/-- the checked inversion never fails on the supported day numbers -/
theorem fromJdn_total (n : Int) (h0 : 1721060 ≤ n) (h1 : n ≤ 2816788) : fromJdn n = some (civil n) := by
  have := civil_spec n h0 h1
  simp only [fromJdn, this, and_self, if_true]

/-- in year 3000 the only day number up to that of 3000-01-01 is 3000-01-01 itself -/
theorem jdn_3000 (m d : Int) (m0 : 1 ≤ m) (m1 : m ≤ 12) (d0 : 1 ≤ d) (h : jdn 3000 m d ≤ 2816788) :
    m = 1 ∧ d = 1 := by
  rw [jdn_eq _ _ _ (by omega) m0 m1] at h
  have hm : m = 1 ∨ m = 2 ∨ m = 3 ∨ m = 4 ∨ m = 5 ∨ m = 6 ∨ m = 7 ∨ m = 8 ∨ m = 9 ∨ m = 10 ∨
      m = 11 ∨ m = 12 := by omega
  rcases hm with rfl | rfl | rfl | rfl | rfl | rfl | rfl | rfl | rfl | rfl | rfl | rfl <;>
    simp only [jdnE, Int.reduceSub, Int.reduceDiv, Int.reduceMul, Int.reduceAdd] at h <;> omega

/-- `NormalizeDate` is total on the supported range: when the month-normalised year is not
absurd and the instant denoted by the (overflowed) fields lies between 0000-01-01 00:00:00.000
and 3000-01-01 00:00:00.000 inclusive, `normalize` returns a date. -/
theorem normalize_total (f : Fields) (hy0 : -4000 ≤ normYear f.yr f.mon) (hy1 : normYear f.yr f.mon ≤ 10000)
    (h0 : 1721060 * 86400000 ≤ absMs f) (h1 : absMs f ≤ 2816788 * 86400000) :
    ∃ e, normalize f = some e := by
  obtain ⟨yr, mon, day, hr, mi, sec, ms⟩ := f
  simp only [absMs] at h0 h1
  simp only at hy0 hy1
  simp only [normalize]
  generalize jdn (normYear yr mon) (normMon mon) 1 = J at h0 h1 ⊢
  rw [if_neg (by omega)]
  have hN0 : 1721060 ≤ J + (day - 1) + (hr + (mi + (sec + ms / 1000) / 60) / 60) / 24 := by omega
  have hN1 : J + (day - 1) + (hr + (mi + (sec + ms / 1000) / 60) / 60) / 24 ≤ 2816788 := by omega
  have hlast : J + (day - 1) + (hr + (mi + (sec + ms / 1000) / 60) / 60) / 24 = 2816788 →
      (hr + (mi + (sec + ms / 1000) / 60) / 60) % 24 = 0 ∧ (mi + (sec + ms / 1000) / 60) % 60 = 0 ∧
        (sec + ms / 1000) % 60 = 0 ∧ ms % 1000 = 0 := by
    intro h; omega
  generalize J + (day - 1) + (hr + (mi + (sec + ms / 1000) / 60) / 60) / 24 = N at hN0 hN1 hlast ⊢
  obtain ⟨hj, hv⟩ := civil_spec N hN0 hN1
  rw [fromJdn_total N hN0 hN1]
  simp only []
  generalize civil N = c at hj hv ⊢
  obtain ⟨cy, cm, cd⟩ := c
  simp only at hj hv ⊢
  have hv' := hv
  simp only [validYMD, Bool.and_eq_true, decide_eq_true_eq] at hv'
  obtain ⟨⟨⟨⟨⟨a1, a2⟩, a3⟩, a4⟩, a5⟩, a6⟩ := hv'
  have h3 : cy = 3000 → cm = 1 ∧ cd = 1 ∧ N = 2816788 := by
    intro h; subst h
    obtain ⟨rfl, rfl⟩ := jdn_3000 cm cd a3 a4 a5 (by rw [hj]; exact hN1)
    refine ⟨rfl, rfl, ?_⟩; rw [← hj]; decide
  refine ⟨_, if_pos ?_⟩
  simp only [valid, hv, Bool.true_and, Bool.and_eq_true, decide_eq_true_eq]
  rw [if_neg]
  · simp only [Bool.and_eq_true, decide_eq_true_eq]
    refine ⟨⟨⟨⟨⟨⟨⟨?_, ?_⟩, ?_⟩, ?_⟩, ?_⟩, ?_⟩, ?_⟩, ?_⟩ <;> omega
  · rintro ⟨hc, hor⟩
    obtain ⟨e1, e2, e3⟩ := h3 hc
    obtain ⟨z1, z2, z3, z4⟩ := hlast e3
    omega

end Gsu.Date
