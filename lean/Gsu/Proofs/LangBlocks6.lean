/-
C29: the run-time invariant — evaluation in the reference semantics keeps every block / function
value inside the (closed) set of lexical positions `G`. Core Lean only.
-/
import Gsu.Proofs.LangBlocks5
namespace Gsu.LangBlocks

/-- the invariant at one fuel level -/
abbrev Inv (G : List Scope → Scope → Prop) (fuel : Nat) : Prop :=
    (∀ fr st e, GoodFr G fr → GoodSt G st → GoodE G fr e →
      GoodRes G (GoodVal G) (evalE fuel fr st e)) ∧
    (∀ fr st acc es, GoodFr G fr → GoodSt G st → GoodVal G acc → (∀ e ∈ es, GoodE G fr e) →
      GoodRes G (GoodVal G) (evalAdds fuel fr st acc es)) ∧
    (∀ fr st b, GoodFr G fr → GoodSt G st → (∀ t ∈ b, GoodS G fr t) →
      GoodRes G (fun _ => True) (runBody fuel fr st b))

section
variable {G : List Scope → Scope → Prop}

theorem inv_write (n : Nat) (ih : Inv G n) (fr : Frame) (st : State) (x : Nat) (v : Val)
    (rest : List Stmt) (hf : GoodFr G fr) (hs : GoodSt G st) (hv : GoodVal G v)
    (hrest : ∀ t ∈ rest, GoodS G fr t) :
    GoodRes G (fun _ => True)
      (runBody n (writeVar fr st x v).1 (writeVar fr st x v).2 rest) := by
  have hw := writeVar_good fr st x v hf hs hv
  have hwf := writeVar_frame fr st x v
  exact ih.2.2 _ _ rest hw.1 hw.2 (fun t ht => GoodS_congr hwf.1 hwf.2.1 (hrest t ht))

theorem inv_callbody (hG : Closed G) (n : Nat) (ih : Inv G n) (fr0 : Frame) (st0 : State)
    (s : Scope) (hs : fr0.s = s) (hf0 : GoodFr G fr0) (hs0 : GoodSt G st0) :
    GoodRes G (fun _ => True) (runBody n fr0 st0 s.body) ∧
    ∀ u frb stb, runBody n fr0 st0 s.body = .ok u frb stb →
      GoodRes G (GoodVal G) (evalE n frb stb s.result) := by
  subst hs
  have parts := good_scope_parts hG fr0 hf0.1
  have h1 := ih.2.2 fr0 st0 _ hf0 hs0 parts.1
  refine ⟨h1, ?_⟩
  intro u frb stb hB
  rw [hB] at h1
  have hfr := runBody_frame n fr0 st0 _ u frb stb hB
  exact ih.1 frb stb _ h1.2.1 h1.2.2 (GoodE_congr hfr.1 hfr.2.1 parts.2)

theorem inv_evalE (hG : Closed G) (n : Nat) (ih : Inv G n) :
    ∀ fr st e, GoodFr G fr → GoodSt G st → GoodE G fr e →
      GoodRes G (GoodVal G) (evalE (n + 1) fr st e) := by
  intro fr st e hf hs he
  cases e with
  | num k => simp only [evalE]; exact ⟨trivial, hf, hs⟩
  | var x =>
    simp only [evalE]
    cases hr : readVar fr st x with
    | none => exact hs
    | some v => exact ⟨readVar_good fr st x v hf hs hr, hf, hs⟩
  | block s =>
    simp only [evalE]
    exact ⟨he.1 s (by simp [exprKids]), hf, hs⟩
  | fn s =>
    simp only [evalE]
    exact ⟨he.2 s (by simp [exprFns]), hf, hs⟩
  | add a b =>
    simp only [evalE]
    have hall : ∀ e' ∈ foldAddList (.add a b), GoodE G fr e' := fun e' he' =>
      ⟨fun k hk => he.1 k (foldAddList_kids _ e' he' k hk),
       fun f hf' => he.2 f (foldAddList_fns _ e' he' f hf')⟩
    cases hl : foldAddList (.add a b) with
    | nil => exact hs
    | cons e1 rest =>
      rw [hl] at hall
      simp only
      have h1 := ih.1 fr st e1 hf hs (hall e1 (List.mem_cons_self ..))
      cases hE : evalE n fr st e1 with
      | err s => rw [hE] at h1; exact h1
      | ret a v s => rw [hE] at h1; exact h1
      | ok v fr1 st1 =>
        rw [hE] at h1
        have := evalE_frame n fr st e1 v fr1 st1 hE
        subst this
        exact ih.2.1 _ st1 v rest h1.2.1 h1.2.2 h1.1
          (fun e he' => hall e (List.mem_cons_of_mem _ he'))
  | call f a =>
    simp only [evalE]
    have ha : GoodE G fr a :=
      ⟨fun k hk => he.1 k (by simpa [exprKids] using hk),
       fun g hg => he.2 g (by simpa [exprFns] using hg)⟩
    have h1 := ih.1 fr st a hf hs ha
    cases hE : evalE n fr st a with
    | err s => rw [hE] at h1; exact h1
    | ret a v s => rw [hE] at h1; exact h1
    | ok arg fr1 st1 =>
      rw [hE] at h1
      obtain ⟨harg, hf1, hs1⟩ := h1
      simp only
      cases hr : readVar fr1 st1 f with
      | none => exact hs1
      | some cv =>
        have hcv := readVar_good fr1 st1 f cv hf1 hs1 hr
        cases cv with
        | int i => exact hs1
        | str => exact hs1
        | clo s chain act =>
          simp only
          split
          · have hfr0 : GoodFr G ⟨s, chain, act, []⟩ :=
              ⟨hcv, fun k v h => by simp [lget] at h⟩
            have hbp := bindParams_good s.params [arg] _ st1 hfr0 hs1
              (by intro a ha; simp at ha; subst ha; exact harg)
            have hbf := bindParams_frame s.params [arg] ⟨s, chain, act, []⟩ st1
            obtain ⟨hb1, hb2⟩ := inv_callbody hG n ih _ _ s hbf.1 hbp.1 hbp.2
            revert hb1 hb2
            generalize bindParams ⟨s, chain, act, []⟩ st1 s.params [arg] = p
            intro hb1 hb2
            cases hB : runBody n p.1 p.2 s.body with
            | err s' => rw [hB] at hb1; exact hb1
            | ret a v s' => rw [hB] at hb1; exact hb1
            | ok u frb stb =>
              have h3 := hb2 u frb stb hB
              simp only
              cases hR : evalE n frb stb s.result with
              | err s' => rw [hR] at h3; exact h3
              | ret a v s' => rw [hR] at h3; exact h3
              | ok v fr2 st2 => rw [hR] at h3; exact ⟨h3.1, hf1, h3.2.2⟩
          · exact hs1
        | fnv s =>
          simp only
          split
          · have hfr0 : GoodFr G ⟨s, [], st1.next, []⟩ :=
              ⟨hcv, fun k v h => by simp [lget] at h⟩
            have hs1' : GoodSt G ⟨st1.store, st1.next + 1⟩ := hs1
            have hbp := bindParams_good s.params [arg] _ _ hfr0 hs1'
              (by intro a ha; simp at ha; subst ha; exact harg)
            have hbf := bindParams_frame s.params [arg] ⟨s, [], st1.next, []⟩
              ⟨st1.store, st1.next + 1⟩
            obtain ⟨hb1, hb2⟩ := inv_callbody hG n ih _ _ s hbf.1 hbp.1 hbp.2
            revert hb1 hb2
            generalize bindParams ⟨s, [], st1.next, []⟩ ⟨st1.store, st1.next + 1⟩
              s.params [arg] = p
            intro hb1 hb2
            cases hB : runBody n p.1 p.2 s.body with
            | err s' => rw [hB] at hb1; exact hb1
            | ret a v s' =>
              rw [hB] at hb1
              simp only
              split
              · exact ⟨hb1.1, hf1, hb1.2⟩
              · exact hb1
            | ok u frb stb =>
              have h3 := hb2 u frb stb hB
              simp only
              cases hR : evalE n frb stb s.result with
              | err s' => rw [hR] at h3; exact h3
              | ret a v s' =>
                rw [hR] at h3
                simp only
                split
                · exact ⟨h3.1, hf1, h3.2⟩
                · exact h3
              | ok v fr2 st2 => rw [hR] at h3; exact ⟨h3.1, hf1, h3.2.2⟩
          · exact hs1

theorem inv_evalAdds (n : Nat) (ih : Inv G n) :
    ∀ fr st acc es, GoodFr G fr → GoodSt G st → GoodVal G acc → (∀ e ∈ es, GoodE G fr e) →
      GoodRes G (GoodVal G) (evalAdds (n + 1) fr st acc es) := by
  intro fr st acc es hf hs hacc hes
  cases es with
  | nil => simp only [evalAdds]; exact ⟨hacc, hf, hs⟩
  | cons e rest =>
    simp only [evalAdds]
    have h1 := ih.1 fr st e hf hs (hes e (List.mem_cons_self ..))
    cases hE : evalE n fr st e with
    | err s => rw [hE] at h1; exact h1
    | ret a v s => rw [hE] at h1; exact h1
    | ok v fr1 st1 =>
      rw [hE] at h1
      have := evalE_frame n fr st e v fr1 st1 hE
      subst this
      simp only
      split
      · exact ih.2.1 _ _ _ rest h1.2.1 h1.2.2 trivial
          (fun e he => hes e (List.mem_cons_of_mem _ he))
      · exact h1.2.2

theorem inv_runBody (n : Nat) (ih : Inv G n) :
    ∀ fr st b, GoodFr G fr → GoodSt G st → (∀ t ∈ b, GoodS G fr t) →
      GoodRes G (fun _ => True) (runBody (n + 1) fr st b) := by
  intro fr st b hf hs hb
  cases b with
  | nil => simp only [runBody]; exact ⟨trivial, hf, hs⟩
  | cons t rest =>
    have Ht := hb t (List.mem_cons_self ..)
    have Hrest : ∀ t ∈ rest, GoodS G fr t := fun t ht => hb t (List.mem_cons_of_mem _ ht)
    cases t with
    | assign x e =>
      have he : GoodE G fr e := Ht
      simp only [runBody]
      have h1 := ih.1 fr st e hf hs he
      split
      · next hE =>
        rw [hE] at h1
        have := evalE_frame _ _ _ _ _ _ _ hE
        subst this
        exact inv_write n ih _ _ x _ rest h1.2.1 h1.2.2 h1.1 Hrest
      · next hE => rw [hE] at h1; exact h1
      · next hE => rw [hE] at h1; exact h1
    | ret e =>
      have he : GoodE G fr e := Ht
      simp only [runBody]
      have h1 := ih.1 fr st e hf hs he
      split
      · next hE => rw [hE] at h1; exact ⟨h1.1, h1.2.2⟩
      · next hE => rw [hE] at h1; exact h1
      · next hE => rw [hE] at h1; exact h1
    | tryc x e w =>
      have he : GoodE G fr e := Ht
      simp only [runBody]
      have h1 := ih.1 fr st e hf hs he
      split
      · next hE =>
        rw [hE] at h1
        have := evalE_frame _ _ _ _ _ _ _ hE
        subst this
        exact inv_write n ih _ _ x _ rest h1.2.1 h1.2.2 h1.1 Hrest
      · next hE =>
        rw [hE] at h1
        exact inv_write n ih _ _ w .str rest hf h1 trivial Hrest
      · next hE => rw [hE] at h1; exact h1
    | ifz c x e =>
      have hc : GoodE G fr c :=
        ⟨fun k hk => Ht.1 k (by simp [stmtKids, hk]), fun f hf' => Ht.2 f (by simp [stmtFns, hf'])⟩
      have he : GoodE G fr e :=
        ⟨fun k hk => Ht.1 k (by simp [stmtKids, hk]), fun f hf' => Ht.2 f (by simp [stmtFns, hf'])⟩
      simp only [runBody]
      have h1 := ih.1 fr st c hf hs hc
      split
      · next hC =>
        rw [hC] at h1
        have := evalE_frame _ _ _ _ _ _ _ hC
        subst this
        have h2 := ih.1 _ _ e h1.2.1 h1.2.2 he
        split
        · next hE =>
          rw [hE] at h2
          have := evalE_frame _ _ _ _ _ _ _ hE
          subst this
          exact inv_write n ih _ _ x _ rest h2.2.1 h2.2.2 h2.1 Hrest
        · next hE => rw [hE] at h2; exact h2
        · next hE => rw [hE] at h2; exact h2
      · next hC =>
        rw [hC] at h1
        have := evalE_frame _ _ _ _ _ _ _ hC
        subst this
        exact ih.2.2 _ _ rest h1.2.1 h1.2.2 Hrest
      · next hC => rw [hC] at h1; exact h1
      · next hC => rw [hC] at h1; exact h1

end

/-- goodness is preserved by `evalE` / `evalAdds` / `runBody` -/
theorem inv_all (G : List Scope → Scope → Prop) (hG : Closed G) (fuel : Nat) :
    (∀ fr st e, GoodFr G fr → GoodSt G st → GoodE G fr e →
      GoodRes G (GoodVal G) (evalE fuel fr st e)) ∧
    (∀ fr st acc es, GoodFr G fr → GoodSt G st → GoodVal G acc → (∀ e ∈ es, GoodE G fr e) →
      GoodRes G (GoodVal G) (evalAdds fuel fr st acc es)) ∧
    (∀ fr st b, GoodFr G fr → GoodSt G st → (∀ t ∈ b, GoodS G fr t) →
      GoodRes G (fun _ => True) (runBody fuel fr st b)) := by
  induction fuel with
  | zero =>
    refine ⟨?_, ?_, ?_⟩
    · intro fr st e _ hs _; simp only [evalE]; exact hs
    · intro fr st acc es _ hs _ _; simp only [evalAdds]; exact hs
    · intro fr st b _ hs _; simp only [runBody]; exact hs
  | succ n ih =>
    exact ⟨inv_evalE hG n ih, inv_evalAdds n ih, inv_runBody n ih⟩

end Gsu.LangBlocks
