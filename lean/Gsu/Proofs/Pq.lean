/-
Lemmas for C17 (sequential part): the selection loop of `Get` and what removing the selected
element does to every transaction's subsequence. Core only.
-/
import Gsu.Model.Pq
namespace Gsu.Pq

theorem drop_cons_inv {α} (l : List α) (i : Nat) (e : α) (rest : List α) (h : l.drop i = e :: rest) :
    l[i]? = some e ∧ l.drop (i + 1) = rest := by
  constructor
  · have : (l.drop i)[0]? = some e := by rw [h]; rfl
    simpa using this
  · have : (l.drop i).drop 1 = rest := by rw [h]; rfl
    simpa [List.drop_drop, Nat.add_comm] using this

theorem drop_nil_inv {α} (l : List α) (i j : Nat) (e : α) (h : l.drop i = []) (hj : l[j]? = some e) : j < i := by
  have h1 : l.length ≤ i := by simpa using h
  have h2 : j < l.length := by
    rcases Nat.lt_or_ge j l.length with h | h
    · exact h
    · simp [List.getElem?_eq_none h] at hj
  omega

/-- loop invariant of `Get`'s selection loop ⇒ its result is the first head of maximal priority -/
theorem pickLoop_spec (items : List Elem) (rest : List Elem) :
    ∀ (i best : Nat) (bestP : Int) (eb : Elem),
    items.drop i = rest → HeadAt items best eb → eb.prio = bestP → best < i →
    (∀ j e, j < i → HeadAt items j e → e.prio ≤ bestP) →
    (∀ j e, j < best → HeadAt items j e → e.prio < bestP) →
    ∃ ek, HeadAt items (pickLoop items rest i best bestP) ek ∧
      (∀ j e, HeadAt items j e → e.prio ≤ ek.prio) ∧
      (∀ j e, j < pickLoop items rest i best bestP → HeadAt items j e → e.prio < ek.prio) := by
  induction rest with
  | nil =>
    intro i best bestP eb hd hb hbp _ hmax hfirst
    refine ⟨eb, by simpa [pickLoop] using hb, ?_, ?_⟩
    · intro j e hj
      rw [hbp]
      exact hmax j e (drop_nil_inv items i j e hd hj.1) hj
    · intro j e hlt hj
      rw [hbp]
      exact hfirst j e (by simpa [pickLoop] using hlt) hj
  | cons e rest ih =>
    intro i best bestP eb hd hb hbp hbi hmax hfirst
    obtain ⟨hi, hd'⟩ := drop_cons_inv items i e rest hd
    by_cases hc : (decide (e.prio > bestP) && isOldest items i e) = true
    · have hc2 := hc
      simp only [Bool.and_eq_true, decide_eq_true_eq] at hc2
      have : pickLoop items (e :: rest) i best bestP = pickLoop items rest (i + 1) i e.prio := by
        simp [pickLoop, hc2.1, hc2.2]
      rw [this]
      apply ih (i + 1) i e.prio e hd' ⟨hi, hc2.2⟩ rfl (by omega)
      · intro j e' hj hh
        rcases Nat.lt_or_ge j i with h | h
        · have := hmax j e' h hh; omega
        · have hji : j = i := by omega
          subst hji
          have : e' = e := by have := hh.1; rw [hi] at this; exact (Option.some.inj this).symm
          subst this; omega
      · intro j e' hj hh
        have := hmax j e' hj hh; omega
    · have : pickLoop items (e :: rest) i best bestP = pickLoop items rest (i + 1) best bestP := by
        simp only [pickLoop]
        rw [if_neg]
        simpa using hc
      rw [this]
      apply ih (i + 1) best bestP eb hd' hb hbp (by omega)
      · intro j e' hj hh
        rcases Nat.lt_or_ge j i with h | h
        · exact hmax j e' h hh
        · have hji : j = i := by omega
          subst hji
          have : e' = e := by have := hh.1; rw [hi] at this; exact (Option.some.inj this).symm
          subst this
          by_cases h2 : bestP < e'.prio
          · exfalso; apply hc; simp [h2, hh.2]
          · omega
      · exact hfirst

/-- what `Get` selects: an element that is the oldest of its transaction, of maximal priority
among such elements, and the earliest of those -/
theorem pick_spec (items : List Elem) (hne : items ≠ []) :
    ∃ ek, HeadAt items (pick items) ek ∧
      (∀ j e, HeadAt items j e → e.prio ≤ ek.prio) ∧
      (∀ j e, j < pick items → HeadAt items j e → e.prio < ek.prio) := by
  cases items with
  | nil => exact absurd rfl hne
  | cons a rest =>
    simp only [pick]
    apply pickLoop_spec (a :: rest) rest 1 0 a.prio a (by simp) ⟨by simp, by simp [isOldest]⟩ rfl (by omega)
    · intro j e hj hh
      have : j = 0 := by omega
      subst this
      have := hh.1
      simp at this
      subst this; omega
    · intro j e hj; omega

/-- removing the oldest element of a transaction pops the head of that transaction's subsequence
and leaves every other transaction's subsequence unchanged -/
theorem erase_head_filter (items : List Elem) :
    ∀ (k : Nat) (e : Elem), HeadAt items k e → ∀ t : Int,
    items.filter (fun x => x.tran = t) =
      (if e.tran = t then [e] else []) ++ (items.eraseIdx k).filter (fun x => x.tran = t) := by
  induction items with
  | nil => intro k e h; simp [HeadAt] at h
  | cons a rest ih =>
    intro k e h t
    cases k with
    | zero =>
      have : a = e := by simpa [HeadAt] using h.1
      subst this
      by_cases h2 : a.tran = t <;> simp [List.filter_cons, h2]
    | succ k =>
      have h1 : rest[k]? = some e := by simpa using h.1
      have h2 := h.2
      simp only [isOldest, List.take_succ_cons, List.all_cons, Bool.and_eq_true, bne_iff_ne, ne_eq] at h2
      have hrest : HeadAt rest k e := ⟨h1, by simpa [isOldest] using h2.2⟩
      have := ih k e hrest t
      simp only [List.eraseIdx_cons_succ, List.filter_cons]
      by_cases h3 : a.tran = t
      · have h4 : ¬ e.tran = t := fun h4 => h2.1 (h3.trans h4.symm)
        simp only [h3, decide_true, ↓reduceIte]
        simp only [h4, ↓reduceIte, List.nil_append] at this ⊢
        rw [this]
      · simp only [h3, decide_false, Bool.false_eq_true, ↓reduceIte]
        exact this

/-- `get` hands out exactly the element `pick` designates -/
theorem get_eq (items : List Elem) (e : Elem) (rest : List Elem) (h : get items = some (e, rest)) :
    items ≠ [] ∧ HeadAt items (pick items) e ∧ rest = items.eraseIdx (pick items) := by
  cases items with
  | nil => simp [get] at h
  | cons a r =>
    have hne : (a :: r) ≠ [] := by simp
    obtain ⟨ek, hk, _, _⟩ := pick_spec (a :: r) hne
    simp only [get, Option.some.injEq, Prod.mk.injEq] at h
    refine ⟨hne, ?_, h.2.symm⟩
    have : (a :: r).getD (pick (a :: r)) a = ek := by
      rw [List.getD_eq_getElem?_getD, hk.1]; rfl
    rw [← h.1, this]; exact hk

theorem get_none (items : List Elem) : get items = none ↔ items = [] := by
  cases items <;> simp [get]

/-- per-transaction bookkeeping invariant of the history machine -/
def FifoInv (h : Hist) : Prop :=
  ∀ t : Int, h.delivered.filter (fun x => x.tran = t) ++ h.items.filter (fun x => x.tran = t)
    = h.puts.filter (fun x => x.tran = t)

theorem fifo_put (h : Hist) (e : Elem) (hi : FifoInv h) :
    FifoInv { h with items := put h.items e, puts := h.puts ++ [e] } := by
  intro t
  have := hi t
  simp only [put, List.filter_append, ← List.append_assoc, this]

theorem fifo_get (h : Hist) (e : Elem) (rest : List Elem) (hg : get h.items = some (e, rest)) (hi : FifoInv h) :
    FifoInv { h with items := rest, delivered := h.delivered ++ [e] } := by
  intro t
  obtain ⟨_, hk, hr⟩ := get_eq h.items e rest hg
  have h1 := erase_head_filter h.items _ e hk t
  have h2 := hi t
  simp only [List.filter_append]
  rw [← h2, h1, hr]
  by_cases h3 : e.tran = t <;> simp [List.filter_cons, h3]

theorem fifo_step (h : Hist) (op : Op) (hi : FifoInv h) : FifoInv (h.step op) := by
  cases op with
  | put e =>
    simp only [Hist.step]
    split
    · exact hi
    · exact fifo_put h e hi
  | get =>
    simp only [Hist.step]
    split
    · exact hi
    · next e rest hg => exact fifo_get h e rest hg hi

theorem fifo_foldl (ops : List Op) : ∀ h, FifoInv h → FifoInv (ops.foldl Hist.step h) := by
  induction ops with
  | nil => intro h hi; exact hi
  | cons op ops ih => intro h hi; exact ih _ (fifo_step h op hi)

theorem fifo_run (ops : List Op) : FifoInv (runOps ops) :=
  fifo_foldl ops {} (by intro t; rfl)

/-- from the per-transaction identity: every element is accounted for exactly once -/
theorem count_of_fifo (h : Hist) (hi : FifoInv h) (x : Elem) :
    h.delivered.count x + h.items.count x = h.puts.count x := by
  have := congrArg (List.count x) (hi x.tran)
  simp only [List.count_append] at this
  have hp : (fun y : Elem => decide (y.tran = x.tran)) x = true := by simp
  rw [List.count_filter (l := h.delivered) hp, List.count_filter (l := h.items) hp,
    List.count_filter (l := h.puts) hp] at this
  exact this

theorem bounded_step (h : Hist) (op : Op) (hb : h.items.length ≤ bufSize) : (h.step op).items.length ≤ bufSize := by
  cases op with
  | put e =>
    simp only [Hist.step]
    split
    · exact hb
    · simp [put]; omega
  | get =>
    simp only [Hist.step]
    split
    · exact hb
    · next e rest hg =>
      obtain ⟨_, _, hr⟩ := get_eq h.items e rest hg
      simp only [hr]
      have := List.length_eraseIdx_le h.items (pick h.items)
      omega

end Gsu.Pq

namespace Gsu.Pq

theorem before_of_filter (p : Elem → Bool) (l : List Elem) (a b : Elem)
    (h : Before (l.filter p) a b) : Before l a b := by
  obtain ⟨l1, l2, l3, h⟩ := h
  rw [List.filter_eq_append_iff] at h
  obtain ⟨m1, m2, hl, h1, h2⟩ := h
  have hb : b ∈ m2 := by
    have : b ∈ m2.filter p := by rw [h2]; simp
    exact (List.mem_filter.mp this).1
  have ha : a ∈ m1 := by
    have : a ∈ m1.filter p := by rw [h1]; simp
    exact (List.mem_filter.mp this).1
  obtain ⟨u, v, hu⟩ := List.append_of_mem ha
  obtain ⟨x, y, hx⟩ := List.append_of_mem hb
  exact ⟨u, v ++ x, y, by rw [hl, hu, hx]; simp⟩

theorem before_prefix (P Q : List Elem) (a b : Elem) (hn : (P ++ Q).Nodup)
    (h : Before (P ++ Q) a b) (hb : b ∈ P) : Before P a b := by
  obtain ⟨l1, l2, l3, h⟩ := h
  have hdis := (List.nodup_append.mp hn).2.2
  rw [List.append_eq_append_iff] at h
  rcases h with ⟨a', h1, h2⟩ | ⟨c', h1, h2⟩
  · -- b would be in Q as well
    exfalso
    have : b ∈ Q := by rw [h2]; simp
    exact hdis b hb b this rfl
  · cases c' with
    | nil =>
      exfalso
      simp only [List.nil_append] at h2
      have : b ∈ Q := by rw [← h2]; simp
      exact hdis b hb b this rfl
    | cons c cs =>
      simp only [List.cons_append, List.cons.injEq] at h2
      exact ⟨l1, l2, cs, by rw [h1, h2.1]⟩

/-- messages of one transaction are delivered in the order they were put -/
theorem delivered_before (h : Hist) (hi : FifoInv h) (hn : h.puts.Nodup) (a b : Elem)
    (hab : a.tran = b.tran) (hp : Before h.puts a b) (hd : b ∈ h.delivered) :
    Before h.delivered a b := by
  let p : Elem → Bool := fun x => decide (x.tran = b.tran)
  apply before_of_filter p
  have hf := hi b.tran
  have hbf : Before (h.puts.filter p) a b := by
    obtain ⟨l1, l2, l3, h⟩ := hp
    refine ⟨l1.filter p, l2.filter p, l3.filter p, ?_⟩
    rw [h]
    simp [List.filter_append, List.filter_cons, p, hab]
  have hn' : (h.puts.filter p).Nodup := hn.sublist List.filter_sublist
  rw [← hf] at hbf hn'
  exact before_prefix _ _ a b hn' hbf (List.mem_filter.mpr ⟨hd, by simp [p]⟩)

end Gsu.Pq

namespace Gsu.Pq
theorem msg_tran (m : String) (start : Int) (v : Nat) (e : Elem) (p : Int)
    (hs : site m = some (p, true)) (h : msg m start v = some e) : e.tran = start := by
  simp only [msg, hs, Option.map_some] at h
  cases h; rfl
end Gsu.Pq
