/-
C11 `insert_split_inv`: `ixbuf.Insert` keeps the buffer invariant and is the flat two-way merge
with a singleton layer (`insert_flat`, `insert_old`, `insert_inv`), chunk size bounds, and the
corollaries for histories of Inserts (`insertAll_flat`, `insertAll_spec`).  Core Lean only.
-/
import Gsu.Proofs.IxbufIns
namespace Gsu.Ixbuf
open Gsu.Proto

/-- the buffer invariant: no empty chunk, `size` = number of slots, keys strictly sorted (unique) -/
def BufInv (b : Buf) : Prop := b.WF ∧ Sorted b.flatten

theorem flatten_split (cs : List Chunk) (ci : Nat) (h : ci < cs.length) :
    cs.flatten = (cs.take ci).flatten ++ cs[ci] ++ (cs.drop (ci + 1)).flatten := by
  rw [List.append_assoc, ← List.flatten_cons, List.getElem_cons_drop h, ← List.flatten_append,
    List.take_append_drop]

/-- where `Insert` looks: chunk `ci`, position `i`; everything before is `< k`, the rest of the
chunk is `≥ k`, all later chunks are `> k` -/
theorem locate (b : Buf) (k : Bytes) (hinv : BufInv b) (h0 : b.chunks ≠ []) :
    ∃ hci : searchChunks b.chunks k < b.chunks.length,
      b.chunks.getD (searchChunks b.chunks k) [] = b.chunks[searchChunks b.chunks k] ∧
      b.chunks[searchChunks b.chunks k] ≠ [] ∧
      Sorted b.chunks[searchChunks b.chunks k] ∧
      search b.chunks[searchChunks b.chunks k] k ≤ b.chunks[searchChunks b.chunks k].length ∧
      (∀ s ∈ (b.chunks.take (searchChunks b.chunks k)).flatten, s.1 < k) ∧
      (∀ s ∈ b.chunks[searchChunks b.chunks k].take (search b.chunks[searchChunks b.chunks k] k), s.1 < k) ∧
      (∀ s ∈ b.chunks[searchChunks b.chunks k].drop (search b.chunks[searchChunks b.chunks k] k), ¬ s.1 < k) ∧
      (∀ s ∈ (b.chunks.drop (searchChunks b.chunks k + 1)).flatten, k < s.1) := by
  obtain ⟨⟨hne, _⟩, hs⟩ := hinv
  obtain ⟨hci, _, _, hA, hB⟩ := searchChunks_spec b.chunks k hne hs h0
  have hsc := chunk_sorted hs _ (List.getElem_mem hci)
  obtain ⟨h1, h2, h3⟩ := search_spec b.chunks[searchChunks b.chunks k] k hsc
  exact ⟨hci, getD_chunk _ _ hci, hne _ (List.getElem_mem hci), hsc, h1, hA, h2, h3, hB⟩

theorem flatten_at (b : Buf) (ci i : Nat) (hci : ci < b.chunks.length) :
    b.flatten = ((b.chunks.take ci).flatten ++ b.chunks[ci].take i) ++
      (b.chunks[ci].drop i ++ (b.chunks.drop (ci + 1)).flatten) := by
  rw [Buf.flatten, flatten_split b.chunks ci hci]
  simp only [List.append_assoc]
  rw [← List.append_assoc (List.take i _), List.take_append_drop]

theorem flatten_at_cons (b : Buf) (ci i : Nat) (hci : ci < b.chunks.length) (hi : i < b.chunks[ci].length) :
    b.flatten = ((b.chunks.take ci).flatten ++ b.chunks[ci].take i) ++
      b.chunks[ci][i] :: (b.chunks[ci].drop (i + 1) ++ (b.chunks.drop (ci + 1)).flatten) := by
  rw [flatten_at b ci i hci, List.drop_eq_getElem_cons hi]; rfl

theorem set_flatten (b : Buf) (ci i : Nat) (x : Slot) (hci : ci < b.chunks.length)
    (hi : i < b.chunks[ci].length) :
    ({ b with chunks := b.chunks.set ci (b.chunks[ci].set i x) } : Buf).flatten =
      ((b.chunks.take ci).flatten ++ b.chunks[ci].take i) ++
        x :: (b.chunks[ci].drop (i + 1) ++ (b.chunks.drop (ci + 1)).flatten) := by
  simp only [Buf.flatten]
  rw [flatten_set _ _ _ hci, List.set_eq_take_append_cons_drop, if_pos hi]
  simp [List.append_assoc]

theorem remove_flatten (b : Buf) (ci i : Nat) (hci : ci < b.chunks.length)
    (hi : i < b.chunks[ci].length) :
    (remove b ci i).flatten =
      ((b.chunks.take ci).flatten ++ b.chunks[ci].take i) ++
        (b.chunks[ci].drop (i + 1) ++ (b.chunks.drop (ci + 1)).flatten) := by
  simp only [remove, getD_chunk _ _ hci]
  split
  · rename_i h1
    simp only [Buf.flatten, List.eraseIdx_eq_take_drop_succ, List.flatten_append]
    have e1 : b.chunks[ci].take i = [] := by
      apply List.eq_nil_of_length_eq_zero; simp only [List.length_take]; omega
    have e2 : b.chunks[ci].drop (i + 1) = [] := by
      apply List.eq_nil_of_length_eq_zero; simp only [List.length_drop]; omega
    rw [e1, e2]; simp
  · simp only [Buf.flatten]
    rw [flatten_set _ _ _ hci, List.eraseIdx_eq_take_drop_succ]
    simp [List.append_assoc]

/-- the case analysis of `insert` on a buffer satisfying the invariant -/
inductive InsCase (b : Buf) (k : Bytes) (c : Chg) : Prop
  | empty (h : b.chunks = [])
      (e : insert b k c = some ({ chunks := [[(k, c)]], size := b.size + 1 }, 0))
  | absent (ci i : Nat) (hci : ci < b.chunks.length) (hi : i ≤ b.chunks[ci].length) (L R : Layer)
      (hf : b.flatten = L ++ R) (hL : ∀ s ∈ L, s.1 < k) (hR : ∀ s ∈ R, k < s.1)
      (e : insert b k c = some (insertNew b ci i b.chunks[ci] k c, 0))
      (hf' : (insertNew b ci i b.chunks[ci] k c).flatten = L ++ (k, c) :: R)
  | present (ci i : Nat) (hci : ci < b.chunks.length) (hi : i < b.chunks[ci].length) (c1 : Chg)
      (L R : Layer) (hf : b.flatten = L ++ (k, c1) :: R) (hL : ∀ s ∈ L, s.1 < k)
      (e : insert b k c = match combineOld c1 c with
          | none => none
          | some (none, old) => some (remove b ci i, old)
          | some (some c', old) =>
            some ({ b with chunks := b.chunks.set ci (b.chunks[ci].set i (k, c')) }, old))
      (hrem : (remove b ci i).flatten = L ++ R)
      (hset : ∀ c', ({ b with chunks := b.chunks.set ci (b.chunks[ci].set i (k, c')) } : Buf).flatten
          = L ++ (k, c') :: R)

theorem insert_unfold (b : Buf) (k : Bytes) (c : Chg) (hc : c ≠ .add 0) (h0 : b.chunks ≠ [])
    (ci i : Nat) (ch : Chunk) (hci : searchChunks b.chunks k = ci) (hch : b.chunks.getD ci [] = ch)
    (hi : search ch k = i) :
    insert b k c =
      match ch[i]? with
      | some (k', c1) =>
        if k' = k then
          match combineOld c1 c with
          | none => none
          | some (none, old) => some (remove b ci i, old)
          | some (some c', old) => some ({ b with chunks := b.chunks.set ci (ch.set i (k, c')) }, old)
        else some (insertNew b ci i ch k c, 0)
      | none => some (insertNew b ci i ch k c, 0) := by
  subst hci hch hi
  simp only [insert, if_neg hc, List.isEmpty_iff, h0]
  rfl

theorem insert_cases (b : Buf) (k : Bytes) (c : Chg) (hinv : BufInv b) (hc : c ≠ .add 0) :
    InsCase b k c := by
  by_cases h0 : b.chunks = []
  · exact .empty h0 (by simp [insert, hc, h0])
  · obtain ⟨hci, hgd, hne, hsc, hi, hA, hT, hD, hB⟩ := locate b k hinv h0
    have e0 := insert_unfold b k c hc h0 _ _ _ rfl hgd rfl
    generalize searchChunks b.chunks k = ci at *
    generalize search b.chunks[ci] k = i at *
    have hL : ∀ s ∈ (b.chunks.take ci).flatten ++ b.chunks[ci].take i, s.1 < k := by
      intro s hs
      rcases List.mem_append.1 hs with h | h
      · exact hA s h
      · exact hT s h
    have habs : (∀ s ∈ b.chunks[ci].drop i, k < s.1) →
        insert b k c = some (insertNew b ci i b.chunks[ci] k c, 0) → InsCase b k c := by
      intro hgt e
      refine .absent ci i hci hi _ _ (flatten_at b ci i hci) hL ?_ e ?_
      · intro s hs
        rcases List.mem_append.1 hs with h | h
        · exact hgt s h
        · exact hB s h
      · rw [insertNew_flatten b ci i _ k c hci]
        simp [List.append_assoc]
    cases hq : b.chunks[ci][i]? with
    | none =>
      rw [hq] at e0
      have : b.chunks[ci].length ≤ i := by
        rcases Nat.lt_or_ge i b.chunks[ci].length with h | h
        · simp [List.getElem?_eq_getElem h] at hq
        · exact h
      exact habs (by rw [List.drop_of_length_le this]; simp) e0
    | some p =>
      obtain ⟨k', c1⟩ := p
      rw [hq] at e0
      obtain ⟨hlt, hget⟩ := List.getElem?_eq_some_iff.1 hq
      by_cases hk : k' = k
      · subst hk
        simp only [if_true] at e0
        have hf := flatten_at_cons b ci i hci hlt
        rw [hget] at hf
        exact .present ci i hci hlt c1 _ _ hf hL e0 (remove_flatten b ci i hci hlt)
          (fun c' => set_flatten b ci i (k', c') hci hlt)
      · simp only [if_neg hk] at e0
        refine habs ?_ e0
        have hd : b.chunks[ci].drop i = (k', c1) :: b.chunks[ci].drop (i + 1) := by
          rw [List.drop_eq_getElem_cons hlt, hget]
        have hs' : Sorted (b.chunks[ci].drop i) := List.Pairwise.sublist (List.drop_sublist _ _) hsc
        rw [hd] at hs' hD ⊢
        have hk' : k < k' := blt_of_le_of_ne (hD (k', c1) (List.mem_cons_self ..)) (Ne.symm hk)
        intro s hs
        rcases List.mem_cons.1 hs with rfl | h
        · exact hk'
        · exact blt_trans hk' (((sorted_cons _ _).1 hs').1 s h)

theorem combine_eq_map (c1 c : Chg) : combine c1 c = (combineOld c1 c).map (·.1) := rfl

/-- **`Insert` is the flat two-way merge with a singleton layer** (including the panic case) -/
theorem insert_flat (b : Buf) (k : Bytes) (c : Chg) (hinv : BufInv b) (hc : c ≠ .add 0) :
    (insert b k c).map (fun r => r.1.flatten) = merge2 b.flatten [(k, c)] := by
  cases insert_cases b k c hinv hc with
  | empty h e => rw [e]; simp [Buf.flatten, h, merge2]
  | absent ci i hci hi L R hf hL hR e hf' =>
    rw [e, hf, merge2_absent L R k c hL hR]; simp [hf']
  | present ci i hci hi c1 L R hf hL e hrem hset =>
    rw [e, hf, merge2_present L R k c1 c hL, combine_eq_map]
    cases combineOld c1 c with
    | none => rfl
    | some p =>
      obtain ⟨o, old⟩ := p
      cases o with
      | none => simp [hrem]
      | some c' => simp [hset]

theorem sorted_mid_unique {L R : Layer} {k : Bytes} {c1 c2 : Chg} (hs : Sorted (L ++ (k, c1) :: R))
    (hm : (k, c2) ∈ L ++ (k, c1) :: R) : c2 = c1 := by
  obtain ⟨_, hR, hLR⟩ := List.pairwise_append.1 hs
  rcases List.mem_append.1 hm with h | h
  · exact absurd (hLR _ h (k, c1) (List.mem_cons_self ..)) (blt_irrefl k)
  · rcases List.mem_cons.1 h with h | h
    · exact (Prod.mk.inj h).2
    · exact absurd (((sorted_cons _ _).1 hR).1 _ h) (blt_irrefl k)

/-- the `oldoff` result: the second component of `Combine` with the existing change of the key,
0 when the key is not in the buffer -/
theorem insert_old (b b' : Buf) (k : Bytes) (c : Chg) (old : Nat) (hinv : BufInv b)
    (h : insert b k c = some (b', old)) :
    (∀ c1, (k, c1) ∈ b.flatten → (combineOld c1 c).map (·.2) = some old) ∧
    ((∀ c1, (k, c1) ∉ b.flatten) → old = 0) := by
  have hc : c ≠ .add 0 := by
    intro e; subst e; simp [insert] at h
  cases insert_cases b k c hinv hc with
  | empty h0 e =>
    rw [e] at h; cases h
    exact ⟨fun c1 hm => by simp [Buf.flatten, h0] at hm, fun _ => rfl⟩
  | absent ci i hci hi L R hf hL hR e hf' =>
    rw [e] at h; cases h
    refine ⟨fun c1 hm => ?_, fun _ => rfl⟩
    rw [hf] at hm
    rcases List.mem_append.1 hm with h | h
    · exact absurd (hL _ h) (blt_irrefl k)
    · exact absurd (hR _ h) (blt_irrefl k)
  | present ci i hci hi c1 L R hf hL e hrem hset =>
    refine ⟨fun c2 hm => ?_, fun hn => absurd (by rw [hf]; simp) (hn c1)⟩
    have hs := hinv.2
    rw [hf] at hm hs
    have := sorted_mid_unique hs hm
    subst this
    rw [e] at h
    cases hq : combineOld c2 c with
    | none => rw [hq] at h; cases h
    | some p =>
      obtain ⟨o, old'⟩ := p
      rw [hq] at h
      cases o <;> (cases h; rfl)

/-- `Insert` panics exactly when the offset is 0 or `Combine` of the existing change of the key
with the new one panics -/
theorem insert_none_iff (b : Buf) (k : Bytes) (c : Chg) (hinv : BufInv b) (hc : c ≠ .add 0) :
    insert b k c = none ↔ ∃ c1, (k, c1) ∈ b.flatten ∧ combine c1 c = none := by
  cases insert_cases b k c hinv hc with
  | empty h0 e => simp [e, Buf.flatten, h0]
  | absent ci i hci hi L R hf hL hR e hf' =>
    simp only [e, false_iff, reduceCtorEq]
    rintro ⟨c1, hm, _⟩
    rw [hf] at hm
    rcases List.mem_append.1 hm with h | h
    · exact absurd (hL _ h) (blt_irrefl k)
    · exact absurd (hR _ h) (blt_irrefl k)
  | present ci i hci hi c1 L R hf hL e hrem hset =>
    have hs := hinv.2
    rw [hf] at hs
    constructor
    · intro hn
      refine ⟨c1, by rw [hf]; simp, ?_⟩
      rw [combine_eq_map]
      rw [hn] at e
      cases hq : combineOld c1 c with
      | none => rfl
      | some p =>
        obtain ⟨o, old'⟩ := p
        rw [hq] at e
        cases o <;> cases e
    · rintro ⟨c2, hm, hcn⟩
      rw [hf] at hm
      have := sorted_mid_unique hs hm
      subst this
      rw [combine_eq_map] at hcn
      rw [e]
      cases hq : combineOld c2 c with
      | none => rfl
      | some p => rw [hq] at hcn; cases hcn

theorem set_nonempty (b : Buf) (ci i : Nat) (x : Slot) (hci : ci < b.chunks.length)
    (hne : ∀ y ∈ b.chunks, y ≠ []) :
    ∀ y ∈ b.chunks.set ci (b.chunks[ci].set i x), y ≠ [] := by
  intro y hy
  rcases List.mem_or_eq_of_mem_set hy with hy | rfl
  · exact hne y hy
  · intro e
    have := congrArg List.length e
    simp only [List.length_set, List.length_nil] at this
    exact hne _ (List.getElem_mem hci) (List.eq_nil_of_length_eq_zero this)

theorem remove_nonempty (b : Buf) (ci i : Nat) (hci : ci < b.chunks.length)
    (hi : i < b.chunks[ci].length) (hne : ∀ y ∈ b.chunks, y ≠ []) :
    ∀ y ∈ (remove b ci i).chunks, y ≠ [] := by
  simp only [remove, getD_chunk _ _ hci]
  split
  · intro y hy
    exact hne y (List.mem_of_mem_eraseIdx hy)
  · intro y hy
    rcases List.mem_or_eq_of_mem_set hy with hy | rfl
    · exact hne y hy
    · intro e
      have := congrArg List.length e
      simp only [List.length_eraseIdx, List.length_nil] at this
      split at this <;> omega

theorem remove_size (b : Buf) (ci i : Nat) : (remove b ci i).size = b.size - 1 := by
  simp only [remove]; split <;> rfl

theorem sorted_single (k : Bytes) (c : Chg) : Sorted [(k, c)] := by simp [Sorted]

/-- **`Insert` keeps the buffer invariant**: no empty chunk, `size` = number of slots, keys
strictly sorted (hence unique) -/
theorem insert_inv (b b' : Buf) (k : Bytes) (c : Chg) (old : Nat) (hinv : BufInv b)
    (h : insert b k c = some (b', old)) : BufInv b' := by
  have hc : c ≠ .add 0 := by
    intro e; subst e; simp [insert] at h
  have hfl := insert_flat b k c hinv hc
  rw [h] at hfl
  refine ⟨?_, merge2_sorted _ _ _ hinv.2 (sorted_single k c) hfl.symm⟩
  obtain ⟨⟨hne, hsz⟩, hs⟩ := hinv
  cases insert_cases b k c ⟨⟨hne, hsz⟩, hs⟩ hc with
  | empty h0 e =>
    rw [e] at h; cases h
    refine ⟨by simp, ?_⟩
    simp [Buf.flatten, h0] at hsz ⊢
    exact hsz
  | absent ci i hci hi L R hf hL hR e hf' =>
    rw [e] at h; cases h
    refine ⟨insertNew_nonempty b ci i _ k c hne hi, ?_⟩
    rw [insertNew_size, hf', hsz, hf]
    simp only [List.length_append, List.length_cons]; omega
  | present ci i hci hi c1 L R hf hL e hrem hset =>
    rw [e] at h
    cases hq : combineOld c1 c with
    | none => rw [hq] at h; cases h
    | some p =>
      obtain ⟨o, old'⟩ := p
      rw [hq] at h
      cases o with
      | none =>
        cases h
        refine ⟨remove_nonempty b ci i hci hi hne, ?_⟩
        rw [remove_size, hrem, hsz, hf]
        simp only [List.length_append, List.length_cons]; omega
      | some c' =>
        cases h
        refine ⟨set_nonempty b ci i _ hci hne, ?_⟩
        rw [hset c']
        show b.size = _
        rw [hsz, hf]
        simp only [List.length_append, List.length_cons]

/-! ## histories of Inserts -/

theorem bufInv_empty : BufInv { chunks := [], size := 0 } :=
  ⟨⟨by simp, by simp [Buf.flatten]⟩, by simp [Buf.flatten, Sorted]⟩

theorem insertAll_flat_aux (ops : List (Bytes × Chg)) (b : Buf) (n : Nat) (hinv : BufInv b)
    (hops : ∀ o ∈ ops, o.2 ≠ .add 0) :
    (insertAll b n ops).map (fun r => r.1.flatten) =
      (ops.map (fun o => [o])).foldlM merge2 b.flatten := by
  induction ops generalizing b n with
  | nil => simp [insertAll]
  | cons o r ih =>
    obtain ⟨k, c⟩ := o
    have hc : c ≠ .add 0 := hops (k, c) (List.mem_cons_self ..)
    have hfl := insert_flat b k c hinv hc
    simp only [insertAll, List.map_cons, List.foldlM_cons, ← hfl]
    cases hq : insert b k c with
    | none => rfl
    | some p =>
      obtain ⟨b1, old⟩ := p
      have hinv1 := insert_inv b b1 k c old hinv hq
      have := ih b1 (n + 1) hinv1 (fun o ho => hops o (List.mem_cons_of_mem _ ho))
      simp only [Option.map_some, bind, Option.bind_some, ← this]
      cases insertAll b1 (n + 1) r with
      | none => rfl
      | some q => rfl

/-- a sequence of `Insert`s from the empty buffer is the flat merge of the singleton layers
(including: it panics iff the flat merge is undefined) -/
theorem insertAll_flat (ops : List (Bytes × Chg)) (n : Nat) (hops : ∀ o ∈ ops, o.2 ≠ .add 0) :
    (insertAll { chunks := [], size := 0 } n ops).map (fun r => r.1.flatten) =
      mergeFlat (ops.map (fun o => [o])) :=
  insertAll_flat_aux ops _ n bufInv_empty hops

theorem insertAll_inv (ops : List (Bytes × Chg)) (b b' : Buf) (n : Nat) (olds : List (Nat × Nat))
    (hinv : BufInv b) (h : insertAll b n ops = some (b', olds)) : BufInv b' := by
  induction ops generalizing b n olds with
  | nil => simp [insertAll] at h; rw [← h.1]; exact hinv
  | cons o r ih =>
    obtain ⟨k, c⟩ := o
    simp only [insertAll] at h
    cases hq : insert b k c with
    | none => rw [hq] at h; cases h
    | some p =>
      obtain ⟨b1, old⟩ := p
      rw [hq] at h
      simp only at h
      cases hr : insertAll b1 (n + 1) r with
      | none => rw [hr] at h; cases h
      | some q =>
        obtain ⟨b2, olds2⟩ := q
        rw [hr] at h
        cases h
        exact ih b1 (n + 1) olds2 (insert_inv b b1 k c old hinv hq) hr

/-! ## chunk size bounds -/

/-- every chunk has between 1 and `goal(M)` slots -/
def ChunkBound (M : Nat) (b : Buf) : Prop := ∀ ch ∈ b.chunks, 1 ≤ ch.length ∧ ch.length ≤ goalN M

theorem goalN_le_768 (n : Nat) : goalN n ≤ 768 := by
  rw [goalN_vals]; repeat' split
  all_goals omega

/-- the split point leaves at least a quarter of the chunk on both sides; `Insert` only splits
chunks of more than `goal ≥ 24` slots, so both halves have at least 6 slots -/
theorem splitAt_quarter (n i : Nat) : n / 4 ≤ splitAt n i ∧ n / 4 ≤ n - splitAt n i := by
  unfold splitAt
  split
  · omega
  · split <;> omega

theorem insertNew_len (ch : Chunk) (i : Nat) (s : Slot) (hi : i ≤ ch.length) :
    (ch.take i ++ s :: ch.drop i).length = ch.length + 1 := by
  simp only [List.length_append, List.length_take, List.length_cons, List.length_drop]; omega

/-- when `Insert` splits a chunk (its new length `n` exceeds `goal(size)`), the chunk is replaced
by two pieces that partition it, each with at least `n/4 ≥ 6` slots -/
theorem insertNew_split (b : Buf) (ci i : Nat) (ch : Chunk) (k : Bytes) (c : Chg) (hi : i ≤ ch.length)
    (hg : ch.length + 1 > goalN (b.size + 1)) :
    ∃ l r, (insertNew b ci i ch k c).chunks = b.chunks.take ci ++ l :: r :: b.chunks.drop (ci + 1) ∧
      l ++ r = ch.take i ++ (k, c) :: ch.drop i ∧
      (ch.length + 1) / 4 ≤ l.length ∧ (ch.length + 1) / 4 ≤ r.length ∧ 6 ≤ (ch.length + 1) / 4 := by
  have hlen := insertNew_len ch i (k, c) hi
  have h24 := goalN_ge (b.size + 1)
  have hq := splitAt_quarter (ch.length + 1) i
  have hb := splitAt_bounds (ch.length + 1) i (by omega)
  refine ⟨(ch.take i ++ (k, c) :: ch.drop i).take (splitAt (ch.length + 1) i),
    (ch.take i ++ (k, c) :: ch.drop i).drop (splitAt (ch.length + 1) i), ?_, List.take_append_drop _ _, ?_, ?_, by omega⟩
  · simp only [insertNew, hlen, if_pos hg]
  · rw [List.length_take, hlen]; omega
  · rw [List.length_drop, hlen]; omega

theorem insertNew_bound (b : Buf) (ci i : Nat) (k : Bytes) (c : Chg) (G : Nat)
    (hci : ci < b.chunks.length) (hi : i ≤ (b.chunks[ci]'hci).length)
    (hb : ∀ ch ∈ b.chunks, ch.length ≤ G) (hG : goalN (b.size + 1) ≤ G) :
    ∀ ch ∈ (insertNew b ci i (b.chunks[ci]'hci) k c).chunks, ch.length ≤ G := by
  have hlen := insertNew_len (b.chunks[ci]'hci) i (k, c) hi
  have hold := hb _ (List.getElem_mem hci)
  by_cases hg : (b.chunks[ci]'hci).length + 1 > goalN (b.size + 1)
  · obtain ⟨l, r, he, hlr, h1, h2, h3⟩ := insertNew_split b ci i (b.chunks[ci]'hci) k c hi hg
    have hsum : l.length + r.length = (b.chunks[ci]'hci).length + 1 := by
      rw [← List.length_append, hlr, hlen]
    rw [he]
    intro x hx
    simp only [List.mem_append, List.mem_cons] at hx
    rcases hx with hx | rfl | rfl | hx
    · exact hb x (List.mem_of_mem_take hx)
    · omega
    · omega
    · exact hb x (List.mem_of_mem_drop hx)
  · simp only [insertNew, hlen, if_neg hg]
    intro x hx
    rcases List.mem_or_eq_of_mem_set hx with hx | rfl
    · exact hb x hx
    · rw [hlen]; omega

theorem set_bound (b : Buf) (ci i : Nat) (x : Slot) (G : Nat) (hci : ci < b.chunks.length)
    (hb : ∀ ch ∈ b.chunks, ch.length ≤ G) :
    ∀ ch ∈ b.chunks.set ci (b.chunks[ci].set i x), ch.length ≤ G := by
  intro y hy
  rcases List.mem_or_eq_of_mem_set hy with hy | rfl
  · exact hb y hy
  · rw [List.length_set]; exact hb _ (List.getElem_mem hci)

theorem remove_bound (b : Buf) (ci i : Nat) (G : Nat) (hci : ci < b.chunks.length)
    (hb : ∀ ch ∈ b.chunks, ch.length ≤ G) :
    ∀ ch ∈ (remove b ci i).chunks, ch.length ≤ G := by
  simp only [remove, getD_chunk _ _ hci]
  split
  · intro y hy
    exact hb y (List.mem_of_mem_eraseIdx hy)
  · intro y hy
    rcases List.mem_or_eq_of_mem_set hy with hy | rfl
    · exact hb y hy
    · have := hb _ (List.getElem_mem hci)
      rw [List.length_eraseIdx]; split <;> omega

/-- upper bound on chunk lengths: any `G ≥ goal(size+1)` that bounds the chunks before an
`Insert` bounds them afterwards -/
theorem insert_bound (b b' : Buf) (k : Bytes) (c : Chg) (old : Nat) (G : Nat) (hinv : BufInv b)
    (hb : ∀ ch ∈ b.chunks, ch.length ≤ G) (hG : goalN (b.size + 1) ≤ G)
    (h : insert b k c = some (b', old)) : ∀ ch ∈ b'.chunks, ch.length ≤ G := by
  have hc : c ≠ .add 0 := by
    intro e; subst e; simp [insert] at h
  cases insert_cases b k c hinv hc with
  | empty h0 e =>
    rw [e] at h; cases h
    have := goalN_ge (b.size + 1)
    intro ch hch
    simp only [List.mem_singleton] at hch
    subst hch
    simp only [List.length_singleton]; omega
  | absent ci i hci hi L R hf hL hR e hf' =>
    rw [e] at h; cases h
    exact insertNew_bound b ci i k c G hci hi hb hG
  | present ci i hci hi c1 L R hf hL e hrem hset =>
    rw [e] at h
    cases hq : combineOld c1 c with
    | none => rw [hq] at h; cases h
    | some p =>
      obtain ⟨o, old'⟩ := p
      rw [hq] at h
      cases o with
      | none => cases h; exact remove_bound b ci i G hci hb
      | some c' => cases h; exact set_bound b ci i _ G hci hb

/-- `Insert` changes `size` by at most one; it shrinks only when `Combine` gives 0, which
happens only for a delete -/
theorem insert_size (b b' : Buf) (k : Bytes) (c : Chg) (old : Nat) (hinv : BufInv b)
    (h : insert b k c = some (b', old)) :
    b'.size ≤ b.size + 1 ∧ b.size ≤ b'.size + 1 ∧ ((∀ x, c ≠ .del x) → b.size ≤ b'.size) := by
  have hc : c ≠ .add 0 := by
    intro e; subst e; simp [insert] at h
  cases insert_cases b k c hinv hc with
  | empty h0 e =>
    rw [e] at h; cases h
    exact ⟨by simp, by simp; omega, fun _ => by simp⟩
  | absent ci i hci hi L R hf hL hR e hf' =>
    rw [e] at h; cases h
    rw [insertNew_size]
    exact ⟨by omega, by omega, fun _ => by omega⟩
  | present ci i hci hi c1 L R hf hL e hrem hset =>
    rw [e] at h
    cases hq : combineOld c1 c with
    | none => rw [hq] at h; cases h
    | some p =>
      obtain ⟨o, old'⟩ := p
      rw [hq] at h
      cases o with
      | none =>
        cases h
        rw [remove_size]
        refine ⟨by omega, by omega, fun hnd => ?_⟩
        rw [combineOld_table] at hq
        cases c1 <;> cases c <;> simp at hq
        exact absurd rfl (hnd _)
      | some c' =>
        cases h
        exact ⟨Nat.le_succ _, Nat.le_succ _, fun _ => Nat.le_refl _⟩

/-- **chunk bound preserved by `Insert`**: all chunks have between 1 and `goal(M)` slots, for any
`M ≥ size + 1` -/
theorem insert_chunkBound (b b' : Buf) (k : Bytes) (c : Chg) (old M : Nat) (hinv : BufInv b)
    (hb : ChunkBound M b) (hM : b.size + 1 ≤ M) (h : insert b k c = some (b', old)) :
    ChunkBound M b' := by
  have hinv' := insert_inv b b' k c old hinv h
  have := insert_bound b b' k c old (goalN M) hinv (fun ch hch => (hb ch hch).2)
    (goalN_mono _ _ hM) h
  intro ch hch
  exact ⟨List.length_pos_iff.2 (hinv'.1.1 ch hch), this ch hch⟩

/-- without shrinking (in particular for every change that is not a delete) the bound
`goal(size)` itself is preserved -/
theorem insert_chunkBound_size (b b' : Buf) (k : Bytes) (c : Chg) (old : Nat) (hinv : BufInv b)
    (hb : ChunkBound b.size b) (hgrow : b.size ≤ b'.size) (h : insert b k c = some (b', old)) :
    ChunkBound b'.size b' := by
  have hinv' := insert_inv b b' k c old hinv h
  have hc : c ≠ .add 0 := by
    intro e; subst e; simp [insert] at h
  have hsz := insert_size b b' k c old hinv h
  intro ch hch
  refine ⟨List.length_pos_iff.2 (hinv'.1.1 ch hch), ?_⟩
  by_cases hs : b'.size = b.size + 1
  · rw [hs]
    exact insert_bound b b' k c old (goalN (b.size + 1)) hinv
      (fun ch hch => Nat.le_trans (hb ch hch).2 (goalN_mono _ _ (Nat.le_succ _))) (Nat.le_refl _) h ch hch
  · have hs' : b'.size = b.size := by omega
    rw [hs']
    -- the size did not grow: this was a combine in place (chunk lengths unchanged)
    cases insert_cases b k c hinv hc with
    | empty h0 e => rw [e] at h; cases h; simp at hs
    | absent ci i hci hi L R hf hL hR e hf' =>
      rw [e] at h; cases h; rw [insertNew_size] at hs; omega
    | present ci i hci hi c1 L R hf hL e hrem hset =>
      rw [e] at h
      cases hq : combineOld c1 c with
      | none => rw [hq] at h; cases h
      | some p =>
        obtain ⟨o, old'⟩ := p
        rw [hq] at h
        cases o with
        | none =>
          cases h
          exact remove_bound b ci i _ hci (fun ch hch => (hb ch hch).2) ch hch
        | some c' =>
          cases h
          exact set_bound b ci i _ _ hci (fun ch hch => (hb ch hch).2) ch hch

/-! ## histories: bounds and the specification -/

theorem chunkBound_empty (M : Nat) : ChunkBound M { chunks := [], size := 0 } := by
  intro ch hch; simp at hch

theorem chunkBound_768 {M : Nat} {b : Buf} (h : ChunkBound M b) :
    ∀ ch ∈ b.chunks, 1 ≤ ch.length ∧ ch.length ≤ 768 :=
  fun ch hch => ⟨(h ch hch).1, Nat.le_trans (h ch hch).2 (goalN_le_768 M)⟩

/-- the step of `insertAll` -/
theorem insertAll_cons_some (b b' : Buf) (n : Nat) (k : Bytes) (c : Chg) (r : List (Bytes × Chg))
    (olds : List (Nat × Nat)) (h : insertAll b n ((k, c) :: r) = some (b', olds)) :
    ∃ b1 old olds1, insert b k c = some (b1, old) ∧ insertAll b1 (n + 1) r = some (b', olds1) := by
  simp only [insertAll] at h
  cases hq : insert b k c with
  | none => rw [hq] at h; cases h
  | some p =>
    obtain ⟨b1, old⟩ := p
    rw [hq] at h
    simp only at h
    cases hr : insertAll b1 (n + 1) r with
    | none => rw [hr] at h; cases h
    | some q =>
      obtain ⟨b2, olds2⟩ := q
      rw [hr] at h
      cases h
      exact ⟨b1, old, olds2, rfl, hr⟩

/-- along any history of Inserts all chunks have between 1 and `goal(M)` slots, where `M` bounds
the number of slots the buffer can reach (initial size + number of Inserts) -/
theorem insertAll_chunkBound (ops : List (Bytes × Chg)) (b b' : Buf) (n M : Nat)
    (olds : List (Nat × Nat)) (hinv : BufInv b) (hb : ChunkBound M b)
    (hM : b.size + ops.length ≤ M) (h : insertAll b n ops = some (b', olds)) :
    ChunkBound M b' ∧ b'.size ≤ b.size + ops.length := by
  induction ops generalizing b n olds with
  | nil => simp [insertAll] at h; rw [← h.1]; exact ⟨hb, Nat.le_refl _⟩
  | cons o r ih =>
    obtain ⟨k, c⟩ := o
    obtain ⟨b1, old, olds1, hq, hr⟩ := insertAll_cons_some b b' n k c r olds h
    simp only [List.length_cons] at hM ⊢
    have hsz := (insert_size b b1 k c old hinv hq).1
    have := ih b1 (n + 1) olds1 (insert_inv b b1 k c old hinv hq)
      (insert_chunkBound b b1 k c old M hinv hb (by omega) hq) (by omega) hr
    exact ⟨this.1, by omega⟩

/-- histories without deletes never shrink, and every chunk stays within `goal(size)` of the
current size -/
theorem insertAll_chunkBound_size (ops : List (Bytes × Chg)) (b b' : Buf) (n : Nat)
    (olds : List (Nat × Nat)) (hinv : BufInv b) (hb : ChunkBound b.size b)
    (hnd : ∀ o ∈ ops, ∀ x, o.2 ≠ .del x) (h : insertAll b n ops = some (b', olds)) :
    ChunkBound b'.size b' ∧ b.size ≤ b'.size := by
  induction ops generalizing b n olds with
  | nil => simp [insertAll] at h; rw [← h.1]; exact ⟨hb, Nat.le_refl _⟩
  | cons o r ih =>
    obtain ⟨k, c⟩ := o
    obtain ⟨b1, old, olds1, hq, hr⟩ := insertAll_cons_some b b' n k c r olds h
    have hsz := (insert_size b b1 k c old hinv hq).2.2 (hnd (k, c) (List.mem_cons_self ..))
    have := ih b1 (n + 1) olds1 (insert_inv b b1 k c old hinv hq)
      (insert_chunkBound_size b b1 k c old hinv hb hsz hq)
      (fun o ho => hnd o (List.mem_cons_of_mem _ ho)) hr
    exact ⟨this.1, by omega⟩

theorem sorted_singletons (ops : List (Bytes × Chg)) : ∀ l ∈ ops.map (fun o => [o]), Sorted l := by
  intro l hl
  obtain ⟨o, _, rfl⟩ := List.mem_map.1 hl
  exact sorted_single o.1 o.2

/-- **specification of a history of Inserts**: when the changes `ops` (none with offset 0) are a
valid sequence from the map `m`, the Inserts from the empty buffer do not panic, and the
resulting buffer — applied to `m` as one layer — gives the same map as applying the changes one
by one; it is well formed, strictly sorted (unique keys), and all chunks have between 1 and
`goal(#ops) ≤ 768` slots. -/
theorem insertAll_spec (ops : List (Bytes × Chg)) (n : Nat) (m m' : Map)
    (hops : ∀ o ∈ ops, o.2 ≠ .add 0)
    (h : applyLayers m (ops.map (fun o => [o])) = some m') :
    ∃ b olds, insertAll { chunks := [], size := 0 } n ops = some (b, olds) ∧
      mergeFlat (ops.map (fun o => [o])) = some b.flatten ∧
      applyLayer m b.flatten = some m' ∧ BufInv b ∧ ChunkBound ops.length b ∧
      b.size ≤ ops.length := by
  obtain ⟨out, ho, ha, _⟩ := mergeFlat_spec _ m m' (sorted_singletons ops) h
  have hfl := insertAll_flat ops n hops
  rw [ho] at hfl
  cases hq : insertAll { chunks := [], size := 0 } n ops with
  | none => rw [hq] at hfl; cases hfl
  | some p =>
    obtain ⟨b, olds⟩ := p
    rw [hq] at hfl
    simp only [Option.map_some, Option.some.injEq] at hfl
    subst hfl
    have hb := insertAll_chunkBound ops _ b n ops.length olds bufInv_empty (chunkBound_empty _)
      (by simp) hq
    exact ⟨b, olds, rfl, ho, ha, insertAll_inv ops _ b n olds bufInv_empty hq, hb.1,
      by simpa using hb.2⟩

/-! ## summary statements -/

/-- `insert_split_inv`: one `Insert` on a buffer satisfying the invariant keeps the invariant,
its content is the flat merge with the singleton layer, `oldoff` is `Combine`'s second result
for the existing change of the key (0 when absent), and chunk lengths stay within
`[1, goal(M)]` for any `M > size`. -/
theorem insert_split_inv (b b' : Buf) (k : Bytes) (c : Chg) (old M : Nat) (hinv : BufInv b)
    (hb : ChunkBound M b) (hM : b.size + 1 ≤ M) (h : insert b k c = some (b', old)) :
    BufInv b' ∧ merge2 b.flatten [(k, c)] = some b'.flatten ∧
    (∀ c1, (k, c1) ∈ b.flatten → (combineOld c1 c).map (·.2) = some old) ∧
    ((∀ c1, (k, c1) ∉ b.flatten) → old = 0) ∧
    ChunkBound M b' := by
  have hc : c ≠ .add 0 := by
    intro e; subst e; simp [insert] at h
  have hfl := insert_flat b k c hinv hc
  rw [h] at hfl
  have ho := insert_old b b' k c old hinv h
  exact ⟨insert_inv b b' k c old hinv h, hfl.symm, ho.1, ho.2,
    insert_chunkBound b b' k c old M hinv hb hM h⟩

/-- one `Insert` seen through the maps: if the buffer (as a layer) takes `m` to `m1` and the
change `c ≠ add 0` is valid for key `k` in `m1`, then `Insert` does not panic and the new buffer
takes `m` to `m1` with `k` changed by `c`. -/
theorem insert_apply (b : Buf) (k : Bytes) (c : Chg) (m m1 : Map) (s : KS) (hinv : BufInv b)
    (hc : c ≠ .add 0) (h1 : applyLayer m b.flatten = some m1) (h2 : app (m1 k) c = some s) :
    ∃ b' old, insert b k c = some (b', old) ∧ applyLayer m b'.flatten = some (setKey m1 k s) ∧
      BufInv b' := by
  have h2' : applyLayer m1 [(k, c)] = some (setKey m1 k s) := by
    simp [applyLayer, h2]
  obtain ⟨l, hl, ha⟩ := merge2_apply b.flatten [(k, c)] m m1 _ hinv.2 (sorted_single k c) h1 h2'
  have hfl := insert_flat b k c hinv hc
  rw [hl] at hfl
  cases hq : insert b k c with
  | none => rw [hq] at hfl; cases hfl
  | some p =>
    obtain ⟨b', old⟩ := p
    rw [hq] at hfl
    simp only [Option.map_some, Option.some.injEq] at hfl
    subst hfl
    exact ⟨b', old, rfl, ha, insert_inv b b' k c old hinv hq⟩

-- non-vacuity: a history with add·upd, upd·del, add·del (removal), del·add
example : (insertAll { chunks := [], size := 0 } 0
    [([2], .add 1), ([1], .upd 2), ([2], .upd 3), ([1], .del 2), ([3], .add 4), ([3], .del 4),
     ([0], .del 9), ([0], .add 8)]).map (fun r => (r.1.flatten, r.2)) =
    some ([([0], .upd 8), ([1], .del 2), ([2], .add 3)], [(3, 2)]) := by decide

end Gsu.Ixbuf
