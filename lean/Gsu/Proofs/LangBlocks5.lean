/-
C29: lexical positions of a program and the run-time invariant "every block / function value
that exists at run time is a lexical position of the program" (so that a static condition on the
program's scope ids can replace the per-call `idsOK` check of `cfAll`). Core Lean only.
-/
import Gsu.Proofs.LangBlocks4
import Gsu.Proofs.LangBlocksFold2
namespace Gsu.LangBlocks

def stmtFns : Stmt → List Scope
  | .assign _ e => exprFns e
  | .ifz c _ e => exprFns c ++ exprFns e
  | .tryc _ e _ => exprFns e
  | .ret e => exprFns e

/-- nested function literals written directly in a scope (not inside its blocks) -/
def fnsOf (s : Scope) : List Scope := s.body.flatMap stmtFns ++ exprFns s.result

/-- lexical positions of a program: (enclosing scopes innermost first, scope). Blocks are
positions below the scope they are written in, nested function literals are roots of their own. -/
inductive Pos (root : Scope) : List Scope → Scope → Prop where
  | root : Pos root [] root
  | kid {chain s k} : Pos root chain s → k ∈ kids s → Pos root (s :: chain) k
  | fn {chain s f} : Pos root chain s → f ∈ fnsOf s → Pos root [] f

section
variable (G : List Scope → Scope → Prop)

/-- `G` is closed under "block written in" and "function literal written in" -/
structure Closed : Prop where
  kid : ∀ chain s, G chain s → ∀ k ∈ kids s, G (s :: chain) k
  fn : ∀ chain s, G chain s → ∀ f ∈ fnsOf s, G [] f

def GoodVal : Val → Prop
  | .clo s chain _ => G chain s
  | .fnv s => G [] s
  | _ => True

def GoodSt (st : State) : Prop := ∀ k v, sget st.store k = some v → GoodVal G v
def GoodLoc (l : Locals) : Prop := ∀ k v, lget l k = some v → GoodVal G v
def GoodFr (fr : Frame) : Prop := G fr.chain fr.s ∧ GoodLoc G fr.locals
def GoodE (fr : Frame) (e : Expr) : Prop :=
  (∀ k ∈ exprKids e, G (fr.s :: fr.chain) k) ∧ (∀ f ∈ exprFns e, G [] f)
def GoodS (fr : Frame) (t : Stmt) : Prop :=
  (∀ k ∈ stmtKids t, G (fr.s :: fr.chain) k) ∧ (∀ f ∈ stmtFns t, G [] f)

def GoodRes {α : Type} (P : α → Prop) : Res α → Prop
  | .err s => GoodSt G s
  | .ok a fr s => P a ∧ GoodFr G fr ∧ GoodSt G s
  | .ret _ v s => GoodVal G v ∧ GoodSt G s

variable {G}

theorem GoodE_congr {fr fr' : Frame} {e : Expr} (h1 : fr'.s = fr.s) (h2 : fr'.chain = fr.chain)
    (h : GoodE G fr e) : GoodE G fr' e := by
  unfold GoodE; rw [h1, h2]; exact h

theorem GoodS_congr {fr fr' : Frame} {t : Stmt} (h1 : fr'.s = fr.s) (h2 : fr'.chain = fr.chain)
    (h : GoodS G fr t) : GoodS G fr' t := by
  unfold GoodS; rw [h1, h2]; exact h

theorem sput_good (st : Store) (k : Nat × Nat × Nat) (x : Val) (hx : GoodVal G x)
    (h : ∀ k v, sget st k = some v → GoodVal G v) :
    ∀ k' v, sget (sput st k x) k' = some v → GoodVal G v := by
  intro k' v hv
  by_cases e : k = k'
  · subst e
    rw [sget_sput] at hv
    cases hv; exact hx
  · rw [sget_sput_ne st k k' x e] at hv
    exact h k' v hv

theorem lget_lput (l : Locals) (k : Nat) (x : Val) : lget (lput l k x) k = some x := by
  induction l with
  | nil => simp [lput, lget]
  | cons hd tl ih =>
    obtain ⟨k', v'⟩ := hd
    simp only [lput]
    by_cases h : k' = k
    · simp [h, lget]
    · simp [h, lget, ih]

theorem lget_lput_ne (l : Locals) (k k2 : Nat) (x : Val) (hne : k ≠ k2) :
    lget (lput l k x) k2 = lget l k2 := by
  induction l with
  | nil =>
    simp only [lput, lget]
    simp [hne]
  | cons hd tl ih =>
    obtain ⟨k', v'⟩ := hd
    simp only [lput]
    by_cases h : k' = k
    · subst h
      simp [lget, hne]
    · simp only [h, if_false, lget]
      by_cases h2 : k' = k2
      · simp [h2]
      · simp [h2, ih]

theorem lput_good (l : Locals) (k : Nat) (x : Val) (hx : GoodVal G x) (h : GoodLoc G l) :
    GoodLoc G (lput l k x) := by
  intro k' v hv
  by_cases e : k = k'
  · subst e
    rw [lget_lput] at hv
    cases hv; exact hx
  · rw [lget_lput_ne l k k' x e] at hv
    exact h k' v hv

theorem readVar_good (fr : Frame) (st : State) (v : Nat) (x : Val) (hf : GoodFr G fr)
    (hs : GoodSt G st) (h : readVar fr st v = some x) : GoodVal G x := by
  unfold readVar at h
  split at h
  · exact hs _ _ h
  · exact hf.2 _ _ h

theorem writeVar_good (fr : Frame) (st : State) (v : Nat) (x : Val) (hf : GoodFr G fr)
    (hs : GoodSt G st) (hx : GoodVal G x) :
    GoodFr G (writeVar fr st v x).1 ∧ GoodSt G (writeVar fr st v x).2 := by
  unfold writeVar
  split
  · exact ⟨hf, sput_good _ _ _ hx hs⟩
  · exact ⟨⟨hf.1, lput_good _ _ _ hx hf.2⟩, hs⟩

theorem bindParams_good : ∀ (ps : List Nat) (as : List Val) (fr : Frame) (st : State),
    GoodFr G fr → GoodSt G st → (∀ a ∈ as, GoodVal G a) →
    GoodFr G (bindParams fr st ps as).1 ∧ GoodSt G (bindParams fr st ps as).2 := by
  intro ps
  induction ps with
  | nil => intro as fr st hf hs _; cases as <;> exact ⟨hf, hs⟩
  | cons p ps ih =>
    intro as fr st hf hs ha
    cases as with
    | nil => exact ⟨hf, hs⟩
    | cons a as =>
      simp only [bindParams]
      have hw := writeVar_good fr st p a hf hs (ha a (List.mem_cons_self ..))
      exact ih as _ _ hw.1 hw.2 (fun b hb => ha b (List.mem_cons_of_mem _ hb))

/-- the statements and the result of a good scope are good in any frame of that scope -/
theorem good_scope_parts (hG : Closed G) (fr : Frame) (hf : G fr.chain fr.s) :
    (∀ t ∈ fr.s.body, GoodS G fr t) ∧ GoodE G fr fr.s.result := by
  constructor
  · intro t ht
    constructor
    · intro k hk
      exact hG.kid _ _ hf k (by
        simp only [kids, List.mem_append, List.mem_flatMap]
        exact Or.inl ⟨t, ht, hk⟩)
    · intro f hfn
      exact hG.fn _ _ hf f (by
        simp only [fnsOf, List.mem_append, List.mem_flatMap]
        exact Or.inl ⟨t, ht, hfn⟩)
  · constructor
    · intro k hk
      exact hG.kid _ _ hf k (by simp [kids, hk])
    · intro f hfn
      exact hG.fn _ _ hf f (by simp [fnsOf, hfn])

end

end Gsu.LangBlocks
