/-
M-DB global invariant, part 5: `DbInv : State → Prop` and its preservation by EVERY `Op` of
`Gsu.Db.step` (the function the drivers execute). Core only.

`DbInv s` says
 * every table of the visible state satisfies `TblInv`: every index means exactly `keymap` of the
   table's rows (`IAgree`), layers = deltas (`LayersOK`), `BtreeNrows + Σ deltas = Nrows`
   (`DeltasOK`), offsets and the keys on every index are unique, `nrows = rows.length`;
 * the pending merge / persist result is what the compute step would return on the *current*
   layers (i.e. it was computed on a prefix of them — commits only append);
 * a pending index build was computed from the current rows of its table, which is exclusive;
 * every transaction's snapshot tables satisfy `TblInv` and its view = snapshot ⊕ own writes
   (`TVInv`), index by index.
-/
import Gsu.Proofs.DbInv4
namespace Gsu.Db

def PendInv (mt : Meta) : Pending → Prop
  | .none => True
  | .merge tbl n res => ∃ ti, mt[tbl]? = some ti ∧ res = ti.mergeCompute n ∧ n + 1 ≤ ti.deltas.length
  | .persist res => (res.map (·.1)).Nodup ∧
      ∀ p ∈ res, ∃ ti, mt[p.1]? = some ti ∧ p.2 = ti.persistCompute

def BuildInv (mt : Meta) (excl : List Nat) : Option Build → Prop
  | none => excl = []
  | some b => excl = [b.tbl] ∧ ∃ ti, mt[b.tbl]? = some ti ∧ b.bt = mkBt ti.rows b.nk ∧
      PW (fun r => nkLookup b.nk r.off) ti.rows

def TranInv (t : Tran) : Prop :=
  ∀ (j : Nat) (sti : Info) (d : TDif), t.snap[j]? = some sti → t.dif[j]? = some d → TblInv sti ∧ TVInv sti d

structure DbInv (s : State) : Prop where
  tbl : ∀ (j : Nat) (ti : Info), s.mt[j]? = some ti → TblInv ti
  pend : PendInv s.mt s.pend
  build : BuildInv s.mt s.excl s.build
  tran : ∀ t ∈ s.trans, TranInv t

/-- what an operation of a real history satisfies: a table has a key; a row carries one key per
index of its table; the index being built is a key of the rows it is built from -/
def OpOK (s : State) : Op → Prop
  | .table n => 1 ≤ n
  | .out id tbl row => ∀ t sti, s.tran? id = some t → t.snap[tbl]? = some sti →
      row.keys.length = sti.idx.length
  | .upd id tbl _ row => ∀ t sti, s.tran? id = some t → t.snap[tbl]? = some sti →
      row.keys.length = sti.idx.length
  | .buildC tbl nk => ∀ ti, s.mt[tbl]? = some ti → PW (fun r => nkLookup nk r.off) ti.rows
  | _ => True

theorem dbinv_init : DbInv State.init :=
  ⟨fun j ti h => by simp [State.init] at h, trivial, rfl, fun t h => by simp [State.init] at h⟩

/-! ## stability of pending results and of a pending build -/

/-- `ti'` is `ti` after a commit, as far as a pending merge or persist is concerned -/
def PStable (ti ti' : Info) : Prop :=
  (∀ n, n + 1 ≤ ti.deltas.length →
    ti'.mergeCompute n = ti.mergeCompute n ∧ n + 1 ≤ ti'.deltas.length) ∧
  ti'.persistCompute = ti.persistCompute

theorem PStable.refl (ti : Info) : PStable ti ti := ⟨fun _ h => ⟨rfl, h⟩, rfl⟩

theorem pstable_lay {ti : Info} (h : TblInv ti) (d : TDif) (hm : d.muts.length = ti.idx.length) :
    PStable ti (lay d ti) := by
  refine ⟨fun n hn => ⟨lay_mergeCompute d ti n hm (layers_ge_of_deltas h.layers _ hn), ?_⟩,
    lay_persistCompute d ti hm (layers_ne_nil h)⟩
  simp only [lay, List.length_append, List.length_singleton]; omega

theorem PendInv.mono {mt mt' : Meta} {p : Pending} (h : PendInv mt p)
    (hs : ∀ (j : Nat) (ti : Info), mt[j]? = some ti → ∃ ti', mt'[j]? = some ti' ∧ PStable ti ti') : PendInv mt' p := by
  cases p with
  | none => trivial
  | merge tbl n res =>
    obtain ⟨ti, h1, h2, h3⟩ := h
    obtain ⟨ti', h1', hst⟩ := hs tbl ti h1
    exact ⟨ti', h1', by rw [h2, (hst.1 n h3).1], (hst.1 n h3).2⟩
  | persist res =>
    refine ⟨h.1, fun p hp => ?_⟩
    obtain ⟨ti, h1, h2⟩ := h.2 p hp
    obtain ⟨ti', h1', hst⟩ := hs p.1 ti h1
    exact ⟨ti', h1', by rw [h2, hst.2]⟩

theorem BuildInv.mono {mt mt' : Meta} {excl : List Nat} {b : Option Build} (h : BuildInv mt excl b)
    (hr : ∀ j ∈ excl, ∀ ti, mt[j]? = some ti → ∃ ti', mt'[j]? = some ti' ∧ ti'.rows = ti.rows) :
    BuildInv mt' excl b := by
  cases b with
  | none => exact h
  | some b =>
    obtain ⟨he, ti, h1, h2, h3⟩ := h
    obtain ⟨ti', h1', hrows⟩ := hr b.tbl (by rw [he]; simp) ti h1
    exact ⟨he, ti', h1', by rw [hrows]; exact h2, by rw [hrows]; exact h3⟩

/-! ## transactions -/

theorem dbinv_setTran {s : State} (h : DbInv s) (t' : Tran) (ht : TranInv t') : DbInv (s.setTran t') := by
  refine ⟨h.tbl, h.pend, h.build, ?_⟩
  intro t hm
  simp only [State.setTran, List.mem_map] at hm
  obtain ⟨x, hx, rfl⟩ := hm
  split
  · exact ht
  · exact h.tran x hx

theorem tranInv_set {t : Tran} (h : TranInv t) (tbl : Nat) (sti : Info) (d d' : TDif)
    (hs : t.snap[tbl]? = some sti) (hd : t.dif[tbl]? = some d) (hv : TVInv sti d') (wc : Nat) :
    TranInv { t with wc := wc, dif := t.dif.set tbl d' } := by
  intro j sti2 d2 hs2 hd2
  simp only [List.getElem?_set] at hd2
  by_cases hj : tbl = j
  · subst hj
    simp only [if_true] at hd2
    split at hd2
    · cases hd2
      have : sti2 = sti := by rw [hs] at hs2; exact (Option.some.inj hs2).symm
      subst this
      exact ⟨(h tbl sti2 d hs hd).1, hv⟩
    · cases hd2
  · simp only [hj, if_false] at hd2
    exact h j sti2 d2 hs2 hd2

theorem dbinv_tranWrite {s : State} (h : DbInv s) (id tbl : Nat) (f : Info → TDif → Except String TDif)
    (hf : ∀ t sti d d', s.tran? id = some t → t.snap[tbl]? = some sti → t.dif[tbl]? = some d →
      TblInv sti → TVInv sti d → f sti d = .ok d' → TVInv sti d') :
    DbInv (tranWrite s id tbl f).1 := by
  unfold tranWrite
  cases ht : s.tran? id with
  | none => exact h
  | some t =>
    have hti : TranInv t := h.tran t (List.mem_of_find?_eq_some ht)
    simp only
    split
    · exact h
    · split
      · exact dbinv_setTran h _ hti
      · split
        · next sti d hs hd =>
          split
          · next d' hfd =>
            split
            · exact h
            · have hv := hf t sti d d' ht hs hd (hti tbl sti d hs hd).1 (hti tbl sti d hs hd).2 hfd
              exact dbinv_setTran h _ (tranInv_set hti tbl sti d d' hs hd hv _)
          · exact dbinv_setTran h _ hti
        · exact h

/-! ## commit -/

theorem indepAll_spec : ∀ (ds : List TDif) (ss ls : Meta), indepAll ds ss ls = true →
    ∀ (j : Nat) (d : TDif), ds[j]? = some d → d.touched = true →
      ∃ s l, ss[j]? = some s ∧ ls[j]? = some l ∧ indep d s l = true := by
  intro ds
  induction ds with
  | nil => intro ss ls _ j d hj; simp at hj
  | cons d0 ds ih =>
    intro ss ls h j d hj ht
    cases ss with
    | nil =>
      simp only [indepAll, Bool.and_eq_true, Bool.not_eq_true'] at h
      cases j with
      | zero => simp only [List.getElem?_cons_zero, Option.some.injEq] at hj; subst hj; simp [ht] at h
      | succ j =>
        obtain ⟨s, l, h1, _⟩ := ih [] [] h.2 j d (by simpa using hj) ht
        simp at h1
    | cons s0 ss =>
      cases ls with
      | nil =>
        simp only [indepAll, Bool.and_eq_true, Bool.not_eq_true'] at h
        cases j with
        | zero => simp only [List.getElem?_cons_zero, Option.some.injEq] at hj; subst hj; simp [ht] at h
        | succ j =>
          obtain ⟨s, l, h1, _⟩ := ih [] [] h.2 j d (by simpa using hj) ht
          simp at h1
      | cons l0 ls =>
        simp only [indepAll, Bool.and_eq_true, Bool.or_eq_true, Bool.not_eq_true'] at h
        cases j with
        | zero =>
          simp only [List.getElem?_cons_zero, Option.some.injEq] at hj; subst hj
          refine ⟨s0, l0, rfl, rfl, ?_⟩
          rcases h.1 with h1 | h1
          · simp [ht] at h1
          · exact h1
        | succ j => exact ih ss ls h.2 j d (by simpa using hj) ht

/-- what LayeredOnto does to table `j` when the independence guard holds -/
theorem commit_table (ds : List TDif) (ss mt : Meta) (hind : indepAll ds ss mt = true)
    (j : Nat) (ti : Info) (hj : mt[j]? = some ti) :
    (layeredOnto ds mt)[j]? = some ti ∨
    ∃ d sti, ds[j]? = some d ∧ d.touched = true ∧ ss[j]? = some sti ∧ indep d sti ti = true ∧
      (layeredOnto ds mt)[j]? = some (lay d ti) := by
  rw [layeredOnto_get, hj]
  cases hd : ds[j]? with
  | none => exact Or.inl rfl
  | some d =>
    by_cases ht : d.touched = true
    · obtain ⟨s, l, h1, h2, h3⟩ := indepAll_spec ds ss mt hind j d hd ht
      rw [hj] at h2; cases h2
      exact Or.inr ⟨d, s, rfl, ht, h1, h3, by simp [ht]⟩
    · exact Or.inl (by simp [ht])

theorem commit_table_inv (ds : List TDif) (mt : Meta) (j : Nat) (ti' : Info)
    (h : (layeredOnto ds mt)[j]? = some ti') : ∃ ti, mt[j]? = some ti := by
  rw [layeredOnto_get] at h
  cases hm : mt[j]? with
  | none => simp [hm] at h
  | some ti => exact ⟨ti, rfl⟩

theorem dbinv_commit_ok {s : State} (h : DbInv s) (t : Tran) (ht : t ∈ s.trans)
    (hind : indepAll t.dif t.snap s.mt = true)
    (hex : s.excl.any (fun j => (t.dif.getD j default).touched) = false) :
    DbInv { (s.setTran { t with ended := true }) with mt := layeredOnto t.dif s.mt } := by
  have hti : TranInv t := h.tran t ht
  have hst : ∀ j ti, s.mt[j]? = some ti →
      ∃ ti', (layeredOnto t.dif s.mt)[j]? = some ti' ∧ PStable ti ti' ∧
        (j ∈ s.excl → ti' = ti) := by
    intro j ti hj
    rcases commit_table t.dif t.snap s.mt hind j ti hj with h1 | ⟨d, sti, h1, h2, h3, h4, h5⟩
    · exact ⟨ti, h1, PStable.refl ti, fun _ => rfl⟩
    · refine ⟨lay d ti, h5, pstable_lay (h.tbl j ti hj) d (indep_spec h4).1, ?_⟩
      intro hje
      have := List.any_eq_false.mp hex j hje
      simp [List.getD_eq_getElem?_getD, h1, h2] at this
  refine ⟨?_, ?_, ?_, ?_⟩
  · intro j ti' hj'
    obtain ⟨ti, hj⟩ := commit_table_inv _ _ j ti' hj'
    rcases commit_table t.dif t.snap s.mt hind j ti hj with h1 | ⟨d, sti, h1, h2, h3, h4, h5⟩
    · change (layeredOnto t.dif s.mt)[j]? = some ti' at hj'
      rw [h1] at hj'
      rw [← Option.some.inj hj']; exact h.tbl j ti hj
    · change (layeredOnto t.dif s.mt)[j]? = some ti' at hj'
      rw [h5] at hj'
      rw [← Option.some.inj hj']
      exact tblinv_lay (h.tbl j ti hj) (hti j sti d h3 h1).1 (hti j sti d h3 h1).2 h4
  · exact h.pend.mono (fun j ti hj => by
      obtain ⟨ti', a, b, _⟩ := hst j ti hj; exact ⟨ti', a, b⟩)
  · exact h.build.mono (fun j hje ti hj => by
      obtain ⟨ti', a, _, c⟩ := hst j ti hj; exact ⟨ti', a, by rw [c hje]⟩)
  · exact (dbinv_setTran h { t with ended := true } hti).tran

theorem dbinv_commit {s : State} (h : DbInv s) (id : Nat) : DbInv (step s (.commit id)).1 := by
  simp only [step]
  cases ht : s.tran? id with
  | none => exact h
  | some t =>
    have htm : t ∈ s.trans := List.mem_of_find?_eq_some ht
    have hti : TranInv t := h.tran t htm
    simp only
    split
    · exact h
    · split
      · exact dbinv_setTran h _ hti
      · next hex =>
        split
        · exact dbinv_setTran h _ hti
        · next hind =>
          exact dbinv_commit_ok h t htm (by simpa using hind) (by simpa using hex)

end Gsu.Db
