import Gsu.Model.QFixed
import Gsu.Proofs.QKeys
namespace Gsu.QFixed
open Gsu.Proto Gsu.QVal Gsu.QExpr Gsu.Qry Gsu.QCursor Gsu.QKeys

/-! ### the combinators keep any property of entries that is closed under intersecting values -/

/-- every entry has the property -/
def AllF (Q : Col → List Val → Prop) (fx : Fixed) : Prop := ∀ c vs, (c, vs) ∈ fx → Q c vs

/-- the property survives intersecting the values -/
def QI (Q : Col → List Val → Prop) : Prop := ∀ c v1 v2, Q c v1 → Q c v2 → Q c (interVals v1 v2)

theorem mem_interVals (x y : List Val) (v : Val) : v ∈ interVals x y ↔ v ∈ x ∧ v ∈ y := by
  simp only [interVals, List.mem_filter, List.contains_iff_mem]

theorem mem_unionVals (x y : List Val) (v : Val) : v ∈ unionVals x y ↔ v ∈ x ∨ v ∈ y := by
  simp only [unionVals, List.mem_append, List.mem_filter, Bool.not_eq_true', Bool.eq_false_iff,
    ne_eq, List.contains_iff_mem]
  constructor
  · rintro (h | h)
    · exact Or.inl h
    · exact Or.inr h.1
  · rintro (h | h)
    · exact Or.inl h
    · by_cases hx : v ∈ x
      · exact Or.inl hx
      · exact Or.inr ⟨h, hx⟩

theorem lookup_mem {c : Col} {vs : List Val} : ∀ {fx : Fixed}, fx.lookup c = some vs → (c, vs) ∈ fx
  | [], h => by cases h
  | (c', vs') :: fx, h => by
    simp only [List.lookup_cons] at h
    by_cases hc : c = c'
    · subst hc
      simp only [beq_self_eq_true] at h
      cases h
      exact List.mem_cons_self ..
    · have hne : (c == c') = false := by simpa using hc
      simp only [hne] at h
      exact List.mem_cons_of_mem _ (lookup_mem h)

theorem allF_nil (Q : Col → List Val → Prop) : AllF Q [] := fun _ _ h => by cases h

theorem allF_cons {Q : Col → List Val → Prop} {c : Col} {vs : List Val} {fx : Fixed}
    (h1 : Q c vs) (h2 : AllF Q fx) : AllF Q ((c, vs) :: fx) := by
  intro c' vs' hm
  rcases List.mem_cons.1 hm with e | hm
  · cases e; exact h1
  · exact h2 c' vs' hm

theorem allF_append {Q : Col → List Val → Prop} {f1 f2 : Fixed}
    (h1 : AllF Q f1) (h2 : AllF Q f2) : AllF Q (f1 ++ f2) := by
  intro c vs hm
  rcases List.mem_append.1 hm with h | h
  · exact h1 c vs h
  · exact h2 c vs h

theorem allF_filter {Q : Col → List Val → Prop} {fx : Fixed} (p : Col × List Val → Bool)
    (h : AllF Q fx) : AllF Q (fx.filter p) :=
  fun c vs hm => h c vs (List.mem_filter.1 hm).1

theorem allF_tail {Q : Col → List Val → Prop} {x : Col × List Val} {fx : Fixed}
    (h : AllF Q (x :: fx)) : AllF Q fx := fun c vs hm => h c vs (List.mem_cons_of_mem _ hm)

theorem fixedAnd_all {Q : Col → List Val → Prop} (hQ : QI Q) (c : Col) (vs : List Val)
    (hc : Q c vs) : ∀ (fx fx' : Fixed), AllF Q fx → fixedAnd fx c vs = some fx' → AllF Q fx'
  | [], fx', _, h => by
    simp only [fixedAnd, Option.some.injEq] at h
    subst h
    exact allF_cons hc (allF_nil Q)
  | (c', vs') :: rest, fx', ha, h => by
    simp only [fixedAnd] at h
    split at h
    · rename_i hcc
      split at h
      · cases h
      · simp only [Option.some.injEq] at h
        subst h
        refine allF_cons (hQ c' vs' vs (ha c' vs' (List.mem_cons_self ..)) ?_) (allF_tail ha)
        rw [hcc]; exact hc
    · cases hr : fixedAnd rest c vs with
      | none => rw [hr] at h; cases h
      | some r =>
        rw [hr] at h
        simp only [Option.map_some, Option.some.injEq] at h
        subst h
        exact allF_cons (ha c' vs' (List.mem_cons_self ..))
          (fixedAnd_all hQ c vs hc rest r (allF_tail ha) hr)

theorem combine2_all {Q : Col → List Val → Prop} (hQ : QI Q) (f1 : Fixed) (h1 : AllF Q f1) :
    ∀ (f2 f : Fixed), AllF Q f2 → combine2 f1 f2 = some f → AllF Q f
  | [], f, _, h => by
    simp only [combine2, Option.some.injEq] at h
    subst h
    exact allF_nil Q
  | (c, vs) :: rest, f, h2, h => by
    simp only [combine2] at h
    cases hr : combine2 f1 rest with
    | none =>
      rw [hr] at h
      split at h
      · split at h <;> cases h
      · cases h
    | some r =>
      rw [hr] at h
      have ihr := combine2_all hQ f1 h1 rest r (allF_tail h2) hr
      split at h
      · rename_i v1 hl
        split at h
        · cases h
        · simp only [Option.map_some, Option.some.injEq] at h
          subst h
          exact allF_cons (hQ c v1 vs (h1 c v1 (lookup_mem hl)) (h2 c vs (List.mem_cons_self ..))) ihr
      · simp only [Option.map_some, Option.some.injEq] at h
        subst h
        exact allF_cons (h2 c vs (List.mem_cons_self ..)) ihr

theorem combine_all {Q : Col → List Val → Prop} (hQ : QI Q) (f1 f2 : Fixed) (h1 : AllF Q f1)
    (h2 : AllF Q f2) : AllF Q (orNone (combine f1 f2)) := by
  unfold combine
  split
  · exact h2
  · split
    · exact h1
    · cases hr : combine2 f1 f2 with
      | none => exact allF_nil Q
      | some r =>
        simp only [Option.map_some, orNone]
        exact allF_append (allF_filter _ h1) (combine2_all hQ f1 h1 f2 r h2 hr)

/-! ### the where terms -/

theorem conj_true (r : Row) : ∀ e : Expr, isTrue (eval r e) = true →
    ∀ t, t ∈ conj e → isTrue (eval r t) = true := by
  intro e
  induction e with
  | and a b iha ihb =>
    intro h t ht
    simp only [conj, List.mem_append] at ht
    simp only [eval, isTrue_bool, Bool.and_eq_true] at h
    rcases ht with ht | ht
    · exact iha h.1 t ht
    · exact ihb h.2 t ht
  | _ =>
    intro h t ht
    simp only [conj, List.mem_singleton] at ht
    rw [ht]; exact h

theorem conj_cols : ∀ e : Expr, ∀ t, t ∈ conj e → ∀ c, c ∈ t.cols → c ∈ e.cols := by
  intro e
  induction e with
  | and a b iha ihb =>
    intro t ht c hc
    simp only [conj, List.mem_append] at ht
    simp only [Expr.cols, List.mem_append]
    rcases ht with ht | ht
    · exact Or.inl (iha t ht c hc)
    · exact Or.inr (ihb t ht c hc)
  | _ =>
    intro t ht c hc
    simp only [conj, List.mem_singleton] at ht
    rw [← ht]; exact hc

theorem constOf_sound {e : Expr} {v : Val} (h : constOf e = some v) :
    e.cols = [] ∧ ∀ r, eval r e = v := by
  unfold constOf at h
  split at h
  · rename_i hc
    cases h
    have hn := List.isEmpty_iff.1 hc
    exact ⟨hn, fun r => eval_congr r [] e (fun c hc' => by rw [hn] at hc'; cases hc')⟩
  · cases h

theorem colConst_sound {a b : Expr} {c : Col} {v : Val} (h : colConst a b = some (c, v)) :
    c ∈ a.cols ++ b.cols ∧
      ∀ r, (eval r a = QExpr.get r c ∧ eval r b = v) ∨ (eval r b = QExpr.get r c ∧ eval r a = v) := by
  unfold colConst at h
  split at h
  · rename_i c'
    cases hb : constOf b with
    | none => rw [hb] at h; cases h
    | some v' =>
      rw [hb] at h
      simp only [Option.map_some, Option.some.injEq, Prod.mk.injEq] at h
      obtain ⟨rfl, rfl⟩ := h
      exact ⟨by simp [Expr.cols], fun r => Or.inl ⟨by simp [eval], (constOf_sound hb).2 r⟩⟩
  · rename_i c' _
    cases ha : constOf a with
    | none => rw [ha] at h; cases h
    | some v' =>
      rw [ha] at h
      simp only [Option.map_some, Option.some.injEq, Prod.mk.injEq] at h
      obtain ⟨rfl, rfl⟩ := h
      exact ⟨by simp [Expr.cols], fun r => Or.inr ⟨by simp [eval], (constOf_sound ha).2 r⟩⟩
  · cases h

theorem cmpFix_sound : ∀ (p : Bool) (t : Expr) {c : Col} {v : Val}, cmpFix p t = some (c, v) →
    c ∈ t.cols ∧ ∀ r, isTrue (eval r t) = p → QExpr.get r c = v := by
  intro p t
  induction t generalizing p with
  | cmp op a b _ _ =>
    intro c v h
    cases p <;> cases op <;> simp only [cmpFix] at h <;> try cases h
    · obtain ⟨hc, hr⟩ := colConst_sound h
      refine ⟨by simpa [Expr.cols] using hc, fun r ht => ?_⟩
      simp only [eval, cmpVal, isTrue_bool, bne_eq_false_iff_eq] at ht
      rcases hr r with ⟨e1, e2⟩ | ⟨e1, e2⟩
      · rw [e1, e2] at ht; exact ht
      · rw [e1, e2] at ht; exact ht.symm
    · obtain ⟨hc, hr⟩ := colConst_sound h
      refine ⟨by simpa [Expr.cols] using hc, fun r ht => ?_⟩
      simp only [eval, cmpVal, isTrue_bool, beq_iff_eq] at ht
      rcases hr r with ⟨e1, e2⟩ | ⟨e1, e2⟩
      · rw [e1, e2] at ht; exact ht
      · rw [e1, e2] at ht; exact ht.symm
  | not t ih =>
    intro c v h
    simp only [cmpFix] at h
    obtain ⟨hc, hv⟩ := ih (!p) h
    refine ⟨by simpa [Expr.cols] using hc, fun r ht => hv r ?_⟩
    simp only [eval, isTrue_bool] at ht
    rw [← ht, Bool.not_not]
  | inl a vs _ =>
    intro c v h
    cases p
    · exact absurd h (by simp [cmpFix])
    · cases a with
      | col c' =>
        match vs, h with
        | [v'], h =>
          simp only [cmpFix, Option.some.injEq, Prod.mk.injEq] at h
          obtain ⟨rfl, rfl⟩ := h
          refine ⟨by simp [Expr.cols], fun r ht => ?_⟩
          simpa only [eval, isTrue_bool, List.contains_iff_mem, List.mem_singleton] using ht
        | [], h => exact absurd h (by simp [cmpFix])
        | _ :: _ :: _, h => exact absurd h (by simp [cmpFix])
      | _ => exact absurd h (by simp [cmpFix])
  | _ => intro c v h; cases p <;> exact absurd h (by simp [cmpFix])

theorem isFix_sound (t : Expr) {c : Col} {v : Val} (h : isFix t = some (c, v)) :
    c ∈ t.cols ∧ ∀ r, isTrue (eval r t) = true → QExpr.get r c = v :=
  cmpFix_sound true t h

theorem orFix_sound (t : Expr) {c : Col} {vs : List Val} (h : orFix t = some (c, vs)) :
    c ∈ t.cols ∧ ∀ r, isTrue (eval r t) = true → QExpr.get r c ∈ vs := by
  unfold orFix at h
  split at h
  · rename_i a b
    split at h
    · rename_i c1 v1 c2 v2 h1 h2
      split at h
      · rename_i hcc
        simp only [Option.some.injEq, Prod.mk.injEq] at h
        obtain ⟨rfl, rfl⟩ := h
        obtain ⟨ca, ha⟩ := orFix_sound a h1
        obtain ⟨_, hb⟩ := orFix_sound b (hcc ▸ h2)
        refine ⟨by simp only [Expr.cols, List.mem_append]; exact Or.inl ca, fun r ht => ?_⟩
        simp only [eval, isTrue_bool, Bool.or_eq_true] at ht
        rcases ht with ht | ht
        · exact List.mem_append.2 (Or.inl (ha r ht))
        · exact List.mem_append.2 (Or.inr (hb r ht))
      · cases h
    · cases h
  · cases hi : isFix t with
    | none => rw [hi] at h; cases h
    | some cv =>
      obtain ⟨c', v⟩ := cv
      rw [hi] at h
      simp only [Option.map_some, Option.some.injEq, Prod.mk.injEq] at h
      obtain ⟨rfl, rfl⟩ := h
      obtain ⟨hc, hv⟩ := isFix_sound t hi
      exact ⟨hc, fun r ht => by rw [hv r ht]; exact List.mem_singleton.2 rfl⟩

/-- a recognised term reads the column and, where it holds, the column has one of the values -/
theorem termFix_sound (t : Expr) {c : Col} {vs : List Val} (h : termFix t = some (c, vs)) :
    c ∈ t.cols ∧ ∀ r, isTrue (eval r t) = true → QExpr.get r c ∈ vs := by
  unfold termFix at h
  split at h
  · rename_i c' v hi
    simp only [Option.some.injEq, Prod.mk.injEq] at h
    obtain ⟨rfl, rfl⟩ := h
    obtain ⟨hc, hv⟩ := isFix_sound t hi
    exact ⟨hc, fun r ht => by rw [hv r ht]; exact List.mem_singleton.2 rfl⟩
  · split at h
    · rename_i c' vs'
      simp only [Option.some.injEq, Prod.mk.injEq] at h
      obtain ⟨rfl, rfl⟩ := h
      refine ⟨by simp [Expr.cols], fun r ht => ?_⟩
      simpa only [eval, isTrue_bool, List.contains_iff_mem] using ht
    · exact orFix_sound _ h
    · cases h

theorem addFixed_all {Q : Col → List Val → Prop} (hQ : QI Q) (fx fx' : Fixed) (t : Expr)
    (ha : AllF Q fx) (h1 : ∀ c vs, termFix t = some (c, vs) → Q c vs)
    (h : addFixed fx t = some fx') : AllF Q fx' := by
  unfold addFixed at h
  split at h
  · rename_i c vs ht
    exact fixedAnd_all hQ c vs (h1 c vs ht) fx fx' ha h
  · cases h; exact ha

theorem exprsToFixed_all {Q : Col → List Val → Prop} (hQ : QI Q) : ∀ (es : List Expr)
    (fx fx' : Fixed), AllF Q fx →
    (∀ t, t ∈ es → ∀ c vs, termFix t = some (c, vs) → Q c vs) →
    exprsToFixed es fx = some fx' → AllF Q fx'
  | [], fx, fx', ha, _, h => by
    simp only [exprsToFixed, Option.some.injEq] at h
    subst h; exact ha
  | e :: es, fx, fx', ha, h1, h => by
    simp only [exprsToFixed] at h
    cases hr : addFixed fx e with
    | none => rw [hr] at h; cases h
    | some fx1 =>
      rw [hr] at h
      have := addFixed_all hQ fx fx1 e ha (h1 e (List.mem_cons_self ..)) hr
      exact exprsToFixed_all hQ es fx1 fx' this
        (fun t ht => h1 t (List.mem_cons_of_mem _ ht)) h

/-! ### soundness -/

/-- `c` is a column and only takes values from `vs` -/
def Holds (cols : List Col) (rows : List Row) (c : Col) (vs : List Val) : Prop :=
  c ∈ cols ∧ FixedIn c vs rows

theorem holds_QI (cols : List Col) (rows : List Row) : QI (Holds cols rows) := by
  intro c v1 v2 h1 h2
  exact ⟨h1.1, fun r hr => (mem_interVals _ _ _).2 ⟨h1.2 r hr, h2.2 r hr⟩⟩

/-- the entries are columns of the query and hold in every row as written -/
def FixedOk (db : Db) (q : Query) (fx : Fixed) : Prop := AllF (Holds (colsQ db q) (evalQ db q)) fx

theorem allF_mono {Q Q' : Col → List Val → Prop} {fx : Fixed} (h : ∀ c vs, Q c vs → Q' c vs)
    (ha : AllF Q fx) : AllF Q' fx := fun c vs hm => h c vs (ha c vs hm)

theorem get_not_mem (r : Row) (c : Col) (h : c ∉ r.map (·.1)) : QExpr.get r c = Val.empty := by
  simp only [QExpr.get, lookup_none_of_not_mem c r h]

theorem get_rename (db : Db) (hdb : WfDb db) (q : Query) (f t : List Col)
    (hok : renOk (colsQ db q) f t = true) (c : Col) (hc : c ∈ colsQ db q) (r : Row)
    (hr : r ∈ evalQ db q) :
    QExpr.get (r.map fun cv => (renCol f t cv.1, cv.2)) (renCol f t c) = QExpr.get r c := by
  simp only [QExpr.get]
  rw [lookup_map_inj (renCol f t) c r (fun c' hc' e =>
    renCol_inj f t _ hok c' (by rw [← shaped_evalQ db hdb q r hr]; exact hc') c hc e)]

theorem fixedOk_where (db : Db) (q : Query) (e : Expr) (fx : Fixed) (h : FixedOk db q fx) :
    FixedOk db (.where_ q e)
      (if e.cols.all ((colsQ db q).contains ·) then
        match exprsToFixed (conj e) [] with
        | none => []
        | some efixed => orNone (combine fx efixed)
      else []) := by
  split
  · rename_i hcols
    simp only [List.all_eq_true, List.contains_iff_mem] at hcols
    split
    · exact allF_nil _
    · rename_i ef hef
      apply combine_all (holds_QI _ _)
      · exact allF_mono (fun c vs hh => ⟨hh.1, fun r hr => hh.2 r ((mem_where db q e r).1 hr).1⟩) h
      · apply exprsToFixed_all (holds_QI _ _) (conj e) [] ef (allF_nil _) _ hef
        intro t ht c vs et
        obtain ⟨hc, hv⟩ := termFix_sound t et
        exact ⟨hcols c (conj_cols e t ht c hc), fun r hr =>
          hv r (conj_true r e ((mem_where db q e r).1 hr).2 t ht)⟩
  · exact allF_nil _

theorem fixedOk_project (db : Db) (q : Query) (cs : List Col) (fx : Fixed) (h : FixedOk db q fx) :
    FixedOk db (.project q cs) (fx.filter fun f => cs.contains f.1) := by
  intro c vs hm
  obtain ⟨hm, hc⟩ := List.mem_filter.1 hm
  simp only [List.contains_iff_mem] at hc
  refine ⟨hc, fun r hr => ?_⟩
  simp only [evalQ, mem_dedup, List.mem_map] at hr
  obtain ⟨r0, h0, rfl⟩ := hr
  rw [get_restrict r0 c cs hc]
  exact (h c vs hm).2 r0 h0

theorem fixedOk_rename (db : Db) (hdb : WfDb db) (q : Query) (f t : List Col) (fx : Fixed)
    (h : FixedOk db q fx) (hok : renOk (colsQ db q) f t = true) :
    FixedOk db (.rename q f t) (fx.map fun x => (renCol f t x.1, x.2)) := by
  intro c vs hm
  obtain ⟨⟨c0, vs0⟩, hm0, e⟩ := List.mem_map.1 hm
  cases e
  obtain ⟨hc, hf⟩ := h c0 vs0 hm0
  refine ⟨by simp only [colsQ]; exact List.mem_map_of_mem hc, fun r hr => ?_⟩
  simp only [evalQ, List.mem_map] at hr
  obtain ⟨r0, h0, rfl⟩ := hr
  rw [get_rename db hdb q f t hok c0 hc r0 h0]
  exact hf r0 h0

theorem fixedOk_extend_src (db : Db) (hdb : WfDb db) (q : Query) (c : Col) (e : Expr) (fx : Fixed)
    (h : FixedOk db q fx) : FixedOk db (.extend q c e) fx := by
  intro c' vs hm
  obtain ⟨hc, hf⟩ := h c' vs hm
  refine ⟨by simp only [colsQ, List.mem_append]; exact Or.inl hc, fun r hr => ?_⟩
  simp only [evalQ, List.mem_map] at hr
  obtain ⟨r0, h0, rfl⟩ := hr
  rw [get_append_left r0 _ c' (by rw [shaped_evalQ db hdb q r0 h0]; exact hc)]
  exact hf r0 h0

theorem fixedOk_extend_new (db : Db) (hdb : WfDb db) (q : Query) (c : Col) (e : Expr)
    (vs : List Val) (hn : (colsQ db q).contains c = false)
    (hv : ∀ r, r ∈ evalQ db q → eval r e ∈ vs) : FixedOk db (.extend q c e) [(c, vs)] := by
  intro c' vs' hm
  simp only [List.mem_singleton, Prod.mk.injEq] at hm
  obtain ⟨rfl, rfl⟩ := hm
  refine ⟨by simp only [colsQ, List.mem_append, List.mem_singleton, or_true], fun r hr => ?_⟩
  simp only [evalQ, List.mem_map] at hr
  obtain ⟨r0, h0, rfl⟩ := hr
  have hnc : c' ∉ colsQ db q := by
    intro hc
    have := List.contains_iff_mem.2 hc
    rw [hn] at this; cases this
  rw [get_append_right r0 _ c' (by rw [shaped_evalQ db hdb q r0 h0]; exact hnc)]
  simp only [QExpr.get, List.lookup_cons, beq_self_eq_true]
  exact hv r0 h0

theorem fixedOk_summarize (db : Db) (q : Query) (by_ : List Col) (aggs : List (Col × Agg × Col))
    (fx : Fixed) (h : FixedOk db q fx) :
    FixedOk db (.summarize q false by_ aggs) (fx.filter fun f => by_.contains f.1) := by
  intro c vs hm
  obtain ⟨hm, hc⟩ := List.mem_filter.1 hm
  simp only [List.contains_iff_mem] at hc
  refine ⟨by simp only [colsQ, Bool.false_eq_true, if_false, List.mem_append]; exact Or.inl hc,
    fun g hg => ?_⟩
  simp only [evalQ, Bool.false_eq_true, if_false] at hg
  obtain ⟨r1, hr1, hg1⟩ := (mem_groupRows by_ aggs _ g).1 hg
  obtain ⟨rest1, e1⟩ := grp_shape hg1
  rw [e1, get_restrict_append r1 rest1 c by_ hc]
  exact (h c vs hm).2 r1 hr1

theorem fixedOk_join (db : Db) (hdb : WfDb db) (a b : Query) (fa fb : Fixed)
    (ha : FixedOk db a fa) (hb : FixedOk db b fb) :
    FixedOk db (.join a b) (orNone (combine fa fb)) := by
  apply combine_all (holds_QI _ _)
  · intro c vs hm
    obtain ⟨hc, hf⟩ := ha c vs hm
    refine ⟨(mem_unionCols _ _ c).2 (Or.inl hc), fun x hx => ?_⟩
    obtain ⟨r1, a1, r2, _, _, rfl⟩ := (mem_join db a b x).1 hx
    rw [get_join_left r1 r2 _ _ c hc]
    exact hf r1 a1
  · intro c vs hm
    obtain ⟨hc, hf⟩ := hb c vs hm
    refine ⟨(mem_unionCols _ _ c).2 (Or.inr hc), fun x hx => ?_⟩
    obtain ⟨r1, a1, r2, b1, m, rfl⟩ := (mem_join db a b x).1 hx
    rw [get_join_right _ _ r1 r2 (shaped_evalQ db hdb a r1 a1) m c hc]
    exact hf r2 b1

theorem fixedOk_leftjoin (db : Db) (hdb : WfDb db) (a b : Query) (fa fb : Fixed)
    (ha : FixedOk db a fa) (hb : FixedOk db b fb) :
    FixedOk db (.leftjoin a b)
      (if fb.isEmpty then fa else
        fa ++ ((fb.filter fun f =>
          !(interCols (colsQ db a) (colsQ db b)).contains f.1).map fun f =>
            (f.1, f.2 ++ [Val.empty]))) := by
  have left : FixedOk db (.leftjoin a b) fa := by
    intro c vs hm
    obtain ⟨hc, hf⟩ := ha c vs hm
    refine ⟨(mem_unionCols _ _ c).2 (Or.inl hc), fun x hx => ?_⟩
    obtain ⟨r1, a1, hx⟩ := mem_leftjoin db a b x hx
    rcases hx with ⟨_, rfl⟩ | ⟨r2, _, _, rfl⟩ <;> rw [get_join_left r1 _ _ _ c hc] <;> exact hf r1 a1
  split
  · exact left
  · apply allF_append left
    intro c vs hm
    obtain ⟨⟨c0, vs0⟩, hm0, e⟩ := List.mem_map.1 hm
    cases e
    obtain ⟨hm0, hnc⟩ := List.mem_filter.1 hm0
    simp only [Bool.not_eq_true', Bool.eq_false_iff, ne_eq, List.contains_iff_mem] at hnc
    obtain ⟨hc, hf⟩ := hb c0 vs0 hm0
    have hca : c0 ∉ colsQ db a := fun h => hnc ((mem_interCols _ _ c0).2 ⟨h, hc⟩)
    refine ⟨(mem_unionCols _ _ c0).2 (Or.inr hc), fun x hx => ?_⟩
    obtain ⟨r1, a1, hx⟩ := mem_leftjoin db a b x hx
    have s1 := shaped_evalQ db hdb a r1 a1
    rcases hx with ⟨_, rfl⟩ | ⟨r2, b1, m, rfl⟩
    · rw [get_append_right r1 _ c0 (by rw [s1]; exact hca),
        get_restrict [] c0 _ ((mem_diffCols _ _ c0).2 ⟨hc, hca⟩)]
      exact List.mem_append.2 (Or.inr (List.mem_singleton.2 rfl))
    · rw [get_join_right _ _ r1 r2 s1 m c0 hc]
      exact List.mem_append.2 (Or.inl (hf r2 b1))

theorem fixedOk_times (db : Db) (hdb : WfDb db) (a b : Query) (fa fb : Fixed)
    (ha : FixedOk db a fa) (hb : FixedOk db b fb)
    (hd : (interCols (colsQ db a) (colsQ db b)).isEmpty = true) :
    FixedOk db (.times a b) (fa ++ fb) := by
  have hdis : ∀ c, c ∈ colsQ db b → c ∉ colsQ db a := by
    intro c hcb hca
    have : c ∈ interCols (colsQ db a) (colsQ db b) := (mem_interCols _ _ c).2 ⟨hca, hcb⟩
    rw [List.isEmpty_iff.1 hd] at this
    cases this
  have mem : ∀ x, x ∈ evalQ db (.times a b) →
      ∃ r1, r1 ∈ evalQ db a ∧ ∃ r2, r2 ∈ evalQ db b ∧ x = r1 ++ r2 := by
    intro x hx
    simp only [evalQ, List.mem_flatMap, List.mem_map] at hx
    obtain ⟨r1, a1, r2, b1, rfl⟩ := hx
    exact ⟨r1, a1, r2, b1, rfl⟩
  apply allF_append
  · intro c vs hm
    obtain ⟨hc, hf⟩ := ha c vs hm
    refine ⟨by simp only [colsQ, List.mem_append]; exact Or.inl hc, fun x hx => ?_⟩
    obtain ⟨r1, a1, r2, _, rfl⟩ := mem x hx
    rw [get_append_left r1 _ c (by rw [shaped_evalQ db hdb a r1 a1]; exact hc)]
    exact hf r1 a1
  · intro c vs hm
    obtain ⟨hc, hf⟩ := hb c vs hm
    refine ⟨by simp only [colsQ, List.mem_append]; exact Or.inr hc, fun x hx => ?_⟩
    obtain ⟨r1, a1, r2, b1, rfl⟩ := mem x hx
    rw [get_append_right r1 _ c (by rw [shaped_evalQ db hdb a r1 a1]; exact hdis c hc)]
    exact hf r2 b1

theorem mem_union_rows (db : Db) (a b : Query) (x : Row) (hx : x ∈ evalQ db (.union a b)) :
    (∃ r, r ∈ evalQ db a ∧ x = restrict (unionCols (colsQ db a) (colsQ db b)) r) ∨
    (∃ r, r ∈ evalQ db b ∧ x = restrict (unionCols (colsQ db a) (colsQ db b)) r) := by
  simp only [evalQ, List.mem_append, List.mem_filter, List.mem_map] at hx
  rcases hx with ⟨r, hr, rfl⟩ | ⟨⟨r, hr, rfl⟩, _⟩
  · exact Or.inl ⟨r, hr, rfl⟩
  · exact Or.inr ⟨r, hr, rfl⟩

theorem fixedOk_union (db : Db) (hdb : WfDb db) (a b : Query) (fa fb : Fixed)
    (ha : FixedOk db a fa) (hb : FixedOk db b fb) :
    FixedOk db (.union a b) (unionFixed fa fb (colsQ db a) (colsQ db b)) := by
  have sa := shaped_evalQ db hdb a
  have sb := shaped_evalQ db hdb b
  unfold unionFixed
  apply allF_append
  · apply allF_append
    · intro c vs hm
      obtain ⟨⟨c0, v1⟩, hm0, e⟩ := List.mem_filterMap.1 hm
      cases hl : fb.lookup c0 with
      | none => rw [hl] at e; cases e
      | some v2 =>
        rw [hl] at e
        simp only [Option.map_some, Option.some.injEq, Prod.mk.injEq] at e
        obtain ⟨rfl, rfl⟩ := e
        obtain ⟨hc, hf⟩ := ha c0 v1 hm0
        obtain ⟨_, hf2⟩ := hb c0 v2 (lookup_mem hl)
        have hall := (mem_unionCols (colsQ db a) (colsQ db b) c0).2 (Or.inl hc)
        refine ⟨hall, fun x hx => ?_⟩
        rcases mem_union_rows db a b x hx with ⟨r, hr, rfl⟩ | ⟨r, hr, rfl⟩ <;>
          rw [get_restrict r c0 _ hall, mem_unionVals]
        · exact Or.inl (hf r hr)
        · exact Or.inr (hf2 r hr)
    · intro c vs hm
      obtain ⟨⟨c0, v1⟩, hm0, e⟩ := List.mem_map.1 hm
      cases e
      obtain ⟨hm0, hnc⟩ := List.mem_filter.1 hm0
      simp only [Bool.not_eq_true', Bool.eq_false_iff, ne_eq, List.contains_iff_mem] at hnc
      obtain ⟨hc, hf⟩ := ha c0 v1 hm0
      have hall := (mem_unionCols (colsQ db a) (colsQ db b) c0).2 (Or.inl hc)
      refine ⟨hall, fun x hx => ?_⟩
      rcases mem_union_rows db a b x hx with ⟨r, hr, rfl⟩ | ⟨r, hr, rfl⟩ <;>
        rw [get_restrict r c0 _ hall, mem_unionVals]
      · exact Or.inl (hf r hr)
      · rw [get_not_mem r c0 (by rw [sb r hr]; exact hnc)]
        exact Or.inr (List.mem_singleton.2 rfl)
  · intro c vs hm
    obtain ⟨⟨c0, v2⟩, hm0, e⟩ := List.mem_map.1 hm
    cases e
    obtain ⟨hm0, hnc⟩ := List.mem_filter.1 hm0
    simp only [Bool.not_eq_true', Bool.eq_false_iff, ne_eq, List.contains_iff_mem] at hnc
    obtain ⟨hc, hf⟩ := hb c0 v2 hm0
    have hall := (mem_unionCols (colsQ db a) (colsQ db b) c0).2 (Or.inr hc)
    refine ⟨hall, fun x hx => ?_⟩
    rcases mem_union_rows db a b x hx with ⟨r, hr, rfl⟩ | ⟨r, hr, rfl⟩ <;>
      rw [get_restrict r c0 _ hall, mem_unionVals]
    · rw [get_not_mem r c0 (by rw [sa r hr]; exact hnc)]
      exact Or.inr (List.mem_singleton.2 rfl)
    · exact Or.inl (hf r hr)

theorem fixedOk_intersect (db : Db) (a b : Query) (fa fb : Fixed)
    (ha : FixedOk db a fa) (hb : FixedOk db b fb) :
    FixedOk db (.intersect a b)
      ((orNone (combine fa fb)).filter fun f =>
        (interCols (colsQ db a) (colsQ db b)).contains f.1) := by
  -- the rows of the first source that have a partner in the second
  have hcomb : AllF (Holds (unionCols (colsQ db a) (colsQ db b))
      ((evalQ db a).filter fun r =>
        ((evalQ db b).map (restrict (unionCols (colsQ db a) (colsQ db b)))).contains
          (restrict (unionCols (colsQ db a) (colsQ db b)) r))) (orNone (combine fa fb)) := by
    apply combine_all (holds_QI _ _)
    · intro c vs hm
      obtain ⟨hc, hf⟩ := ha c vs hm
      exact ⟨(mem_unionCols _ _ c).2 (Or.inl hc), fun r hr => hf r (List.mem_filter.1 hr).1⟩
    · intro c vs hm
      obtain ⟨hc, hf⟩ := hb c vs hm
      have hall := (mem_unionCols (colsQ db a) (colsQ db b) c).2 (Or.inr hc)
      refine ⟨hall, fun r hr => ?_⟩
      have := (List.mem_filter.1 hr).2
      simp only [List.contains_iff_mem, List.mem_map] at this
      obtain ⟨s, hs, e⟩ := this
      rw [← get_restrict r c _ hall, ← e, get_restrict s c _ hall]
      exact hf s hs
  intro c vs hm
  obtain ⟨hm, hc⟩ := List.mem_filter.1 hm
  simp only [List.contains_iff_mem] at hc
  obtain ⟨_, hf⟩ := hcomb c vs hm
  refine ⟨hc, fun x hx => ?_⟩
  simp only [evalQ, List.mem_map] at hx
  obtain ⟨r, hr, rfl⟩ := hx
  rw [get_restrict r c _ hc]
  exact hf r hr

theorem fixedQ_ok (db : Db) (hdb : WfDb db) : ∀ q : Query, FixedOk db q (fixedQ db q)
  | .table id => by simp only [fixedQ]; exact allF_nil _
  | .where_ q e => by
    simp only [fixedQ]
    exact fixedOk_where db q e _ (fixedQ_ok db hdb q)
  | .project q cs => by
    simp only [fixedQ]
    exact fixedOk_project db q cs _ (fixedQ_ok db hdb q)
  | .rename q f t => by
    simp only [fixedQ]
    split
    · rename_i hok
      exact fixedOk_rename db hdb q f t _ (fixedQ_ok db hdb q) hok
    · exact allF_nil _
  | .extend q c e => by
    have src := fixedOk_extend_src db hdb q c e _ (fixedQ_ok db hdb q)
    simp only [fixedQ]
    split
    · exact allF_nil _
    · rename_i hn
      simp only [Bool.not_eq_true] at hn
      split
      · rename_i v hv
        exact allF_append src (fixedOk_extend_new db hdb q c _ [v] hn (fun r _ => by
          rw [(constOf_sound hv).2 r]; exact List.mem_singleton.2 rfl))
      · split
        · rename_i c' _
          split
          · rename_i vs hl
            exact allF_append src (fixedOk_extend_new db hdb q c _ vs hn (fun r hr => by
              simp only [eval]
              exact (fixedQ_ok db hdb q c' vs (lookup_mem hl)).2 r hr))
          · exact src
        · exact src
  | .summarize q whole by_ aggs => by
    simp only [fixedQ]
    cases whole with
    | true => simp only [if_true]; exact allF_nil _
    | false =>
      simp only [Bool.false_eq_true, if_false]
      exact fixedOk_summarize db q by_ aggs _ (fixedQ_ok db hdb q)
  | .sort q rev cs => by
    simp only [fixedQ]
    exact allF_mono (fun c vs hh => ⟨hh.1, fun r hr => hh.2 r (by
      simp only [evalQ] at hr; exact (mem_sortRows _ r _).1 hr)⟩) (fixedQ_ok db hdb q)
  | .join a b => by
    simp only [fixedQ]
    exact fixedOk_join db hdb a b _ _ (fixedQ_ok db hdb a) (fixedQ_ok db hdb b)
  | .leftjoin a b => by
    simp only [fixedQ]
    exact fixedOk_leftjoin db hdb a b _ _ (fixedQ_ok db hdb a) (fixedQ_ok db hdb b)
  | .times a b => by
    simp only [fixedQ]
    split
    · rename_i hd
      exact fixedOk_times db hdb a b _ _ (fixedQ_ok db hdb a) (fixedQ_ok db hdb b) hd
    · exact allF_nil _
  | .union a b => by
    simp only [fixedQ]
    exact fixedOk_union db hdb a b _ _ (fixedQ_ok db hdb a) (fixedQ_ok db hdb b)
  | .intersect a b => by
    simp only [fixedQ]
    exact fixedOk_intersect db a b _ _ (fixedQ_ok db hdb a) (fixedQ_ok db hdb b)
  | .minus a b => by
    simp only [fixedQ]
    exact allF_mono (fun c vs hh => ⟨hh.1, fun r hr => hh.2 r (by
      simp only [evalQ, List.mem_filter] at hr; exact hr.1)⟩) (fixedQ_ok db hdb a)

end Gsu.QFixed
