/-
C13: `UnpackNumber` on the output of `SuDnum.Pack` — the sign/infinity test, the exponent byte,
the complement, and the coefficient sum of `unpackDnum`.
-/
import Gsu.Proofs.PackDigits
namespace Gsu.Pack
open Gsu.Proto

set_option maxRecDepth 100000 in
theorem expRound0 : ∀ b : Fin 256,
    (UInt8.ofNat b.val ^^^ 0x80 ^^^ 0 ^^^ 0x80 ^^^ 0).toNat = b.val := by decide
set_option maxRecDepth 100000 in
theorem expRoundff : ∀ b : Fin 256,
    (UInt8.ofNat b.val ^^^ 0x80 ^^^ 0xff ^^^ 0x80 ^^^ 0xff).toNat = b.val := by decide

/-- decoding the exponent byte gives the exponent back (both signs) -/
theorem toInt8_expByte (e : Int) (xor : UInt8) (hx : xor = 0 ∨ xor = 0xff) (h1 : -128 ≤ e)
    (h2 : e ≤ 127) : toInt8 (expByte e xor ^^^ 0x80 ^^^ xor) = e := by
  have hlt : (e % 256).toNat < 256 := by omega
  have h : (expByte e xor ^^^ 0x80 ^^^ xor).toNat = (e % 256).toNat := by
    rcases hx with hx | hx <;> subst hx
    · exact expRound0 ⟨_, hlt⟩
    · exact expRoundff ⟨_, hlt⟩
  simp only [toInt8, h]
  split <;> omega

theorem xor_cancel_toNat (p : Nat) (x : UInt8) (h : p < 256) : (UInt8.ofNat p ^^^ x ^^^ x).toNat = p := by
  rw [UInt8.xor_assoc, UInt8.xor_self, UInt8.xor_zero, UInt8.toNat_ofNat']; omega

theorem unxor_xorBytes (x : UInt8) (ps : List Nat) (h : ∀ p ∈ ps, p < 256) :
    unxor x (xorBytes x ps) = ps := by
  induction ps with
  | nil => rfl
  | cons p ps ih =>
    simp only [unxor, xorBytes, List.map_cons, List.map_map] at ih ⊢
    rw [xor_cancel_toNat p x (h p (by simp))]
    congr 1
    exact ih (fun q hq => h q (by simp [hq]))

/-! ## `ofMsd` (a left fold) versus `pv` -/

theorem foldl_lin (b a : Nat) (ds : List Nat) :
    List.foldl (fun acc d => acc * b + d) a ds = a * b ^ ds.length + ofMsd b ds := by
  induction ds generalizing a with
  | nil => simp [ofMsd]
  | cons d ds ih =>
    simp only [ofMsd, List.foldl_cons, List.length_cons] at ih ⊢
    rw [ih (a * b + d), ih (0 * b + d), Nat.pow_succ]; ring

theorem ofMsd_cons (b d : Nat) (ds : List Nat) : ofMsd b (d :: ds) = d * b ^ ds.length + ofMsd b ds := by
  have := foldl_lin b (0 * b + d) ds
  simp only [ofMsd, List.foldl_cons] at this ⊢
  rw [this]; ring

theorem ofMsd_pv (k : Nat) (ds : List Nat) (h : ds.length ≤ k) :
    ofMsd 100 ds * 100 ^ (k - ds.length) = pv k ds := by
  induction ds generalizing k with
  | nil => simp [ofMsd, pv]
  | cons d ds ih =>
    obtain ⟨k', rfl⟩ : ∃ k', k = k' + 1 := ⟨k - 1, by simp at h; omega⟩
    have hl : ds.length ≤ k' := by simp at h; omega
    rw [ofMsd_cons]
    simp only [pv, Nat.add_sub_cancel, List.length_cons, Nat.add_sub_add_right, ← ih k' hl]
    have : 100 ^ k' = 100 ^ ds.length * 100 ^ (k' - ds.length) := by
      rw [← Nat.pow_add]; congr 1; omega
    rw [this]; ring

theorem unpackDnumCoef_coefBytes (c : Nat) (h1 : coefMin ≤ c) (h2 : c ≤ coefMax) :
    unpackDnumCoef (coefBytes 7 c) = some c := by
  obtain ⟨_, _, hl, hp, _⟩ := coefBytes7_facts c h1 h2
  have hne := coefBytes_ne_nil 7 c
  have hlen : ¬ ((coefBytes 7 c).length = 0 ∨ (coefBytes 7 c).length > 8) := by
    have : (coefBytes 7 c).length ≠ 0 := by simpa using hne
    omega
  simp only [unpackDnumCoef, hlen, if_false, ofMsd_pv 8 _ hl, hp]
  congr 1
  apply Nat.mod_eq_of_lt
  simp only [coefMax, u64] at h2 ⊢; omega

/-- the first coefficient byte of a finite number is never the infinity marker -/
theorem first_byte_not_inf (c0 : Nat) (h : c0 < 100) :
    (UInt8.ofNat c0 ^^^ 0 == ~~~(0 : UInt8)) = false ∧
    (10 ≤ c0 → (UInt8.ofNat c0 ^^^ 0xff == ~~~(0xff : UInt8)) = false) := by
  constructor
  · have h1 := xor0_toNat c0 (by omega)
    have : UInt8.ofNat c0 ^^^ 0 ≠ ~~~(0 : UInt8) := by
      intro e
      have := congrArg UInt8.toNat e
      rw [h1, show (~~~(0 : UInt8)).toNat = 255 by decide] at this
      omega
    simpa using this
  · intro h10
    have h1 := xorff_toNat' c0 (by omega)
    have : UInt8.ofNat c0 ^^^ 0xff ≠ ~~~(0xff : UInt8) := by
      intro e
      have := congrArg UInt8.toNat e
      rw [h1, show (~~~(0xff : UInt8)).toNat = 0 by decide] at this
      omega
    simpa using this

theorem unpackNumber_pos (eb s2 : UInt8) (rest : Bytes) (h : (s2 == ~~~(0 : UInt8)) = false) :
    unpackNumber (tagPlus :: eb :: s2 :: rest) =
      if intable (tagPlus :: eb :: s2 :: rest) (toInt8 (eb ^^^ 0x80 ^^^ 0)) 0 = true then
        .int (toSigned 1 (unpackIntU (unxor 0 (s2 :: rest)) (toInt8 (eb ^^^ 0x80 ^^^ 0))))
      else match unpackDnumCoef (unxor 0 (s2 :: rest)) with
        | some c => .dnum ⟨1, c, toInt8 (eb ^^^ 0x80 ^^^ 0)⟩
        | none => .err := by
  simp only [unpackNumber, show (tagPlus == tagMinus) = false by decide, Bool.false_eq_true,
    if_false, h]
  rfl

theorem unpackNumber_neg (eb s2 : UInt8) (rest : Bytes) (h : (s2 == ~~~(0xff : UInt8)) = false) :
    unpackNumber (tagMinus :: eb :: s2 :: rest) =
      if intable (tagMinus :: eb :: s2 :: rest) (toInt8 (eb ^^^ 0x80 ^^^ 0xff)) 0xff = true then
        .int (toSigned (-1) (unpackIntU (unxor 0xff (s2 :: rest)) (toInt8 (eb ^^^ 0x80 ^^^ 0xff))))
      else match unpackDnumCoef (unxor 0xff (s2 :: rest)) with
        | some c => .dnum ⟨-1, c, toInt8 (eb ^^^ 0x80 ^^^ 0xff)⟩
        | none => .err := by
  simp only [unpackNumber, show (tagMinus == tagMinus) = true by decide, if_true,
    Bool.false_eq_true, if_false, h]
  rfl

theorem packDnum_pos (c : Nat) (e : Int) :
    packDnum ⟨1, c, e⟩ = tagPlus :: expByte e 0 :: xorBytes 0 (coefBytes 7 c) := by
  simp [packDnum]

theorem packDnum_neg (c : Nat) (e : Int) :
    packDnum ⟨-1, c, e⟩ = tagMinus :: expByte e 0xff :: xorBytes 0xff (coefBytes 7 c) := by
  simp [packDnum]

theorem xorBytes_cons (x : UInt8) (p : Nat) (ps : List Nat) :
    xorBytes x (p :: ps) = (UInt8.ofNat p ^^^ x) :: xorBytes x ps := rfl

/-- A finite normalised number never unpacks as an infinity or an error: it comes back as
itself, or (when `intable` says it is an integer in the int64 range) as an integer. -/
theorem unpack_packDnum (d : Dnum) (h : d.Norm) :
    unpackNumber (packDnum d) = .dnum d ∨ ∃ n, unpackNumber (packDnum d) = .int n := by
  obtain ⟨s, c, e⟩ := d
  obtain ⟨hs, a1, a2, a3, a4⟩ := h
  simp only at hs a1 a2 a3 a4
  obtain ⟨r, hr, hlt⟩ := coefBytes7_head c a2
  have hge : 10 ≤ c / 100 ^ 7 := by simp only [coefMin] at a1; omega
  obtain ⟨_, _, _, _, h256⟩ := coefBytes7_facts c a1 a2
  obtain ⟨nb0, nbff⟩ := first_byte_not_inf (c / 100 ^ 7) hlt
  have hcoef := unpackDnumCoef_coefBytes c a1 a2
  rcases hs with hs | hs <;> subst hs
  · have hux := unxor_xorBytes 0 (coefBytes 7 c) h256
    rw [hr, xorBytes_cons] at hux
    rw [packDnum_pos, hr, xorBytes_cons, unpackNumber_pos _ _ _ nb0, hux,
      toInt8_expByte e 0 (Or.inl rfl) a3 a4, ← hr, hcoef]
    split
    · exact Or.inr ⟨_, rfl⟩
    · exact Or.inl rfl
  · have hux := unxor_xorBytes 0xff (coefBytes 7 c) h256
    rw [hr, xorBytes_cons] at hux
    rw [packDnum_neg, hr, xorBytes_cons, unpackNumber_neg _ _ _ (nbff hge), hux,
      toInt8_expByte e 0xff (Or.inr rfl) a3 a4, ← hr, hcoef]
    split
    · exact Or.inr ⟨_, rfl⟩
    · exact Or.inl rfl

/-- outside the exponents 0…19 (`intable`'s first test) a finite number unpacks as exactly itself;
in particular the extreme exponents ±127/−128 -/
theorem unpack_packDnum_bigexp (d : Dnum) (h : d.Norm) (he : d.exp < 0 ∨ 19 < d.exp) :
    unpackNumber (packDnum d) = .dnum d := by
  obtain ⟨s, c, e⟩ := d
  obtain ⟨hs, a1, a2, a3, a4⟩ := h
  simp only at hs a1 a2 a3 a4 he
  obtain ⟨r, hr, hlt⟩ := coefBytes7_head c a2
  have hge : 10 ≤ c / 100 ^ 7 := by simp only [coefMin] at a1; omega
  obtain ⟨_, _, _, _, h256⟩ := coefBytes7_facts c a1 a2
  obtain ⟨nb0, nbff⟩ := first_byte_not_inf (c / 100 ^ 7) hlt
  have hcoef := unpackDnumCoef_coefBytes c a1 a2
  rcases hs with hs | hs <;> subst hs
  · have hux := unxor_xorBytes 0 (coefBytes 7 c) h256
    rw [hr, xorBytes_cons] at hux
    rw [packDnum_pos, hr, xorBytes_cons, unpackNumber_pos _ _ _ nb0, hux,
      toInt8_expByte e 0 (Or.inl rfl) a3 a4, ← hr, hcoef]
    simp only [intable, he, if_true, Bool.false_eq_true, if_false]
  · have hux := unxor_xorBytes 0xff (coefBytes 7 c) h256
    rw [hr, xorBytes_cons] at hux
    rw [packDnum_neg, hr, xorBytes_cons, unpackNumber_neg _ _ _ (nbff hge), hux,
      toInt8_expByte e 0xff (Or.inr rfl) a3 a4, ← hr, hcoef]
    simp only [intable, he, if_true, Bool.false_eq_true, if_false]

end Gsu.Pack
