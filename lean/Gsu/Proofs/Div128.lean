/-
C27: `divide128_spec` — the mirrored div128 algorithm (Gsu/Model/Div128.lean: 32 bit half
products, two-digit base-2^32 long division with correction loops and multiply-subtract)
computes `a·10^16 / b` for all 16 digit coefficients. Core-only.
-/
import Gsu.Model.Div128
import Gsu.Proofs.Dnum3
namespace Gsu.Dnum

theorem mul128_aux (h l : Nat) (hh : h < 4294967296) (hl : l < 4294967296) :
    (let d1Hi := h
     let d1Lo := l
     let product := (e16Lo * d1Lo) % two64
     let d0 := product % two32
     let d1 := product / two32
     let product := (e16Hi * d1Lo + d1) % two64
     let d1 := product % two32
     let d2 := product / two32
     let product := (e16Lo * d1Hi + d1) % two64
     let d1 := product % two32
     let d2 := (d2 + product / two32) % two64
     let d3 := d2 / two32
     let d2 := d2 % two32
     let product := (e16Hi * d1Hi + d2) % two64
     let d2 := product % two32
     let d3 := ((product / two32 + d3) % two64) % two32
     (make64 d3 d2, make64 d1 d0)) =
    (10 ^ 16 * (4294967296 * h + l) / two64, 10 ^ 16 * (4294967296 * h + l) % two64) := by
  simp only [make64, e16Lo, e16Hi, two32, two64]
  -- product 0
  rw [Nat.mod_eq_of_lt (show 1874919424 * l < 18446744073709551616 by omega)]
  have e0 := Nat.div_add_mod (1874919424 * l) 4294967296
  have m0 := Nat.mod_lt (1874919424 * l) (show 0 < 4294967296 by decide)
  generalize 1874919424 * l / 4294967296 = c0 at *
  generalize 1874919424 * l % 4294967296 = d0 at *
  -- product 1
  rw [Nat.mod_eq_of_lt (show 2328306 * l + c0 < 18446744073709551616 by omega)]
  have e1 := Nat.div_add_mod (2328306 * l + c0) 4294967296
  have m1 := Nat.mod_lt (2328306 * l + c0) (show 0 < 4294967296 by decide)
  generalize (2328306 * l + c0) / 4294967296 = d2a at *
  generalize (2328306 * l + c0) % 4294967296 = d1a at *
  -- product 2
  rw [Nat.mod_eq_of_lt (show 1874919424 * h + d1a < 18446744073709551616 by omega)]
  have e2 := Nat.div_add_mod (1874919424 * h + d1a) 4294967296
  have m2 := Nat.mod_lt (1874919424 * h + d1a) (show 0 < 4294967296 by decide)
  generalize (1874919424 * h + d1a) / 4294967296 = c2 at *
  generalize (1874919424 * h + d1a) % 4294967296 = d1 at *
  rw [Nat.mod_eq_of_lt (show d2a + c2 < 18446744073709551616 by omega)]
  have e3 := Nat.div_add_mod (d2a + c2) 4294967296
  have m3 := Nat.mod_lt (d2a + c2) (show 0 < 4294967296 by decide)
  generalize (d2a + c2) / 4294967296 = d3a at *
  generalize (d2a + c2) % 4294967296 = d2c at *
  -- product 3
  rw [Nat.mod_eq_of_lt (show 2328306 * h + d2c < 18446744073709551616 by omega)]
  have e4 := Nat.div_add_mod (2328306 * h + d2c) 4294967296
  have m4 := Nat.mod_lt (2328306 * h + d2c) (show 0 < 4294967296 by decide)
  generalize (2328306 * h + d2c) / 4294967296 = c4 at *
  generalize (2328306 * h + d2c) % 4294967296 = d2 at *
  rw [Nat.mod_eq_of_lt (show c4 + d3a < 18446744073709551616 by omega)]
  rw [Nat.mod_eq_of_lt (show c4 + d3a < 4294967296 by omega)]
  rw [Nat.mod_eq_of_lt m4, Nat.mod_eq_of_lt m2, Nat.mod_eq_of_lt m0]
  have hN : 10 ^ 16 * (4294967296 * h + l) =
      18446744073709551616 * ((c4 + d3a) * 4294967296 + d2) + (d1 * 4294967296 + d0) := by omega
  have hlo : d1 * 4294967296 + d0 < 18446744073709551616 := by omega
  have hsmall : c4 + d3a < 4294967296 := by omega
  rw [Nat.mod_eq_of_lt hsmall, hN, Nat.mul_add_div (by decide), Nat.mul_add_mod,
    Nat.div_eq_of_lt hlo, Nat.mod_eq_of_lt hlo, Nat.add_zero]

theorem mul128_spec (a : Nat) (ha : a < two64) :
    mul128 a = (10 ^ 16 * a / two64, 10 ^ 16 * a % two64) := by
  have h1 : a / 4294967296 < 4294967296 := by simp only [two64] at ha; omega
  have h2 : a % 4294967296 < 4294967296 := by omega
  have := mul128_aux (a / 4294967296) (a % 4294967296) h1 h2
  have e : 4294967296 * (a / 4294967296) + a % 4294967296 = a := Nat.div_add_mod a 4294967296
  rw [e] at this
  exact this
theorem make64_small (hi lo : Nat) (h1 : hi < two32) (h2 : lo < two32) : make64 hi lo = two32 * hi + lo := by
  simp only [make64, Nat.mod_eq_of_lt h1, Nat.mod_eq_of_lt h2, Nat.mul_comm]

/-- The correction loop brings a not-too-small estimate `q` of the quotient digit down to the exact
floor of the three-digit by two-digit division `(tmp·2^32 + u) / (v1·2^32 + v0)`, where
`r = tmp − q·v1` is the running partial remainder (< 2^32, else the loop has been left).
(Literals are kept on the left of products: `omega` of this toolchain overflows its recursion
depth on `x * 4294967296`.) -/
theorem corrLoop_spec : ∀ (n v1 v0 u tmp q r : Nat), q ≤ n →
    v1 < two32 → v0 < two32 → u < two32 → r < two32 → r + q * v1 = tmp → q * v0 < two64 → 0 < v1 →
    (two32 * tmp + u) / (two32 * v1 + v0) ≤ q →
    (corrLoop v1 v0 u q r).1 = (two32 * tmp + u) / (two32 * v1 + v0) := by
  intro n
  induction n with
  | zero =>
    intro v1 v0 u tmp q r hn hv1 hv0 hu hr hinv hov hpos hge
    have hq : q = 0 := by omega
    subst hq
    rw [corrLoop]
    simp only [Nat.zero_mul, Nat.zero_mod]
    have : ¬ (0 > make64 r u) := by omega
    simp only [this, dite_false]
    exact (Nat.le_zero.1 hge).symm
  | succ n ih =>
    intro v1 v0 u tmp q r hn hv1 hv0 hu hr hinv hov hpos hge
    have hV : 0 < two32 * v1 + v0 := by simp only [two32]; omega
    have hqV : q * (two32 * v1 + v0) = two32 * (q * v1) + q * v0 := by
      rw [Nat.mul_add, Nat.mul_left_comm]
    rw [corrLoop]
    rw [make64_small r u hr hu, Nat.mod_eq_of_lt hov]
    by_cases hc : q * v0 > two32 * r + u
    · have hq0 : q ≠ 0 := by intro h; subst h; rw [Nat.zero_mul] at hc; omega
      have hq1v1 : (q - 1) * v1 = q * v1 - v1 := by rw [Nat.sub_mul, Nat.one_mul]
      have hq1v0 : (q - 1) * v0 = q * v0 - v0 := by rw [Nat.sub_mul, Nat.one_mul]
      have hle1 : v1 ≤ q * v1 := Nat.le_mul_of_pos_left v1 (by omega)
      have hle0 : v0 ≤ q * v0 := Nat.le_mul_of_pos_left v0 (by omega)
      have hlt : (two32 * tmp + u) / (two32 * v1 + v0) < q := by
        rw [Nat.div_lt_iff_lt_mul hV, hqV, ← hinv]
        simp only [two32, two64] at hc hv1 hv0 hu hr hov ⊢; omega
      have hr' : (r + v1) % two64 = r + v1 :=
        Nat.mod_eq_of_lt (by simp only [two32, two64] at hv1 hr ⊢; omega)
      simp only [hc, dite_true, hr']
      by_cases hb : r + v1 ≥ two32
      · simp only [hb, if_true]
        apply Nat.le_antisymm
        · rw [Nat.le_div_iff_mul_le hV, Nat.mul_add, Nat.mul_left_comm, hq1v1, hq1v0, ← hinv]
          simp only [two32, two64] at hc hv1 hv0 hu hr hov hb ⊢; omega
        · omega
      · simp only [hb, if_false]
        exact ih v1 v0 u tmp (q - 1) (r + v1) (by omega) hv1 hv0 hu (by omega)
          (by rw [hq1v1]; omega) (by rw [hq1v0]; omega) hpos (by omega)
    · simp only [hc, dite_false]
      apply Nat.le_antisymm
      · rw [Nat.le_div_iff_mul_le hV, hqV, ← hinv]
        simp only [two32, two64] at hc hv1 hv0 hu hr hov ⊢; omega
      · exact hge

/-- the first estimate (divide by the high half of the divisor only) is never too small -/
theorem est_ge (tmp u v1 v0 : Nat) (hu : u < two32) (hpos : 0 < v1) :
    (two32 * tmp + u) / (two32 * v1 + v0) ≤ tmp / v1 := by
  have h1 : (two32 * tmp + u) / (two32 * v1 + v0) ≤ (two32 * tmp + u) / (two32 * v1) :=
    Nat.div_le_div_left (Nat.le_add_right _ _) (Nat.mul_pos (by decide) hpos)
  have h2 : (two32 * tmp + u) / (two32 * v1) = (two32 * tmp + u) / two32 / v1 :=
    (Nat.div_div_eq_div_mul _ _ _).symm
  have h3 : (two32 * tmp + u) / two32 = tmp := by
    rw [Nat.mul_add_div (by decide), Nat.div_eq_of_lt hu, Nat.add_zero]
  rw [h2, h3] at h1
  exact h1

/-- an estimate `x / v1` with `x` below the divisor does not overflow the product with `v0` -/
theorem est_small (x v1 v0 : Nat) (hv1 : two32 ≤ 2 * v1) (hv0 : v0 < two32) (hx : x < two32 * v1 + v0) :
    x / v1 * v0 < two64 := by
  have hq : x / v1 < two32 + 2 := by
    apply Nat.div_lt_of_lt_mul
    rw [Nat.mul_add, Nat.mul_comm v1 two32]
    simp only [two32] at *; omega
  have h1 : x / v1 * v0 ≤ (two32 + 1) * (two32 - 1) := Nat.mul_le_mul (by omega) (by omega)
  have h2 : (two32 + 1) * (two32 - 1) < two64 := by decide
  omega

/-- `mulsub` is the exact partial remainder when that is non-negative and fits 64 bits -/
theorem mulsub_spec (u2 u1 v1 v0 q tmp X : Nat) (hu2 : u2 = tmp % two32) (hu1 : u1 < two32)
    (hX : X + q * (two32 * v1 + v0) = two32 * tmp + u1) (hXlt : X < two64) :
    mulsub u2 u1 v1 v0 q = X := by
  have hqV : q * (two32 * v1 + v0) = two32 * (q * v1) + q * v0 := by
    rw [Nat.mul_add, Nat.mul_left_comm]
  rw [hqV] at hX
  simp only [mulsub, make64]
  generalize q * v1 = A at *
  generalize q * v0 = B at *
  subst hu2
  rw [Nat.mul_comm _ two32]
  simp only [two32, two64] at *
  omega

/-- `divide128` after the normalising shift, as a function of the divisor halves `v1,v0`, the top
64 bits `tmp1` of the shifted dividend and its two low digits `u1,u0` -/
def divCore (v1 v0 u1 u0 tmp1 : Nat) : Nat :=
  let q1 := (corrLoop v1 v0 u1 (tmp1 / v1) (tmp1 % v1)).1
  let tmp2 := mulsub (tmp1 % two32) u1 v1 v0 q1
  let q0 := (corrLoop v1 v0 u0 (tmp2 / v1) (tmp2 % v1)).1
  make64 q1 q0

/-- Two rounds of estimate / correct / multiply-subtract are the long division of the three
digit number `tmp1·2^64 + u1·2^32 + u0` by the normalised two digit divisor `v1·2^32 + v0` -/
theorem divCore_spec (v1 v0 u1 u0 tmp1 : Nat) (hv1 : two32 ≤ 2 * v1) (hv1' : v1 < two32)
    (hv0 : v0 < two32) (hu1 : u1 < two32) (hu0 : u0 < two32) (htmp : tmp1 < two32 * v1 + v0) :
    divCore v1 v0 u1 u0 tmp1 = (two32 * (two32 * tmp1 + u1) + u0) / (two32 * v1 + v0) := by
  have hpos : 0 < v1 := by simp only [two32] at hv1; omega
  have hV : 0 < two32 * v1 + v0 := by simp only [two32]; omega
  -- first digit
  have hq1 := corrLoop_spec (tmp1 / v1) v1 v0 u1 tmp1 (tmp1 / v1) (tmp1 % v1) (Nat.le_refl _) hv1' hv0 hu1
    (Nat.lt_trans (Nat.mod_lt _ hpos) hv1') (by rw [Nat.mul_comm]; exact Nat.mod_add_div tmp1 v1)
    (est_small tmp1 v1 v0 hv1 hv0 htmp) hpos (est_ge tmp1 u1 v1 v0 hu1 hpos)
  simp only [divCore]
  rw [hq1]
  generalize hT : two32 * tmp1 + u1 = T at *
  generalize hVd : two32 * v1 + v0 = V at *
  have hdm := Nat.mod_add_div T V
  have hmod := Nat.mod_lt T hV
  have hVlt : V < two64 := by rw [← hVd]; simp only [two32, two64] at *; omega
  -- the partial remainder
  have hms : mulsub (tmp1 % two32) u1 v1 v0 (T / V) = T % V := by
    apply mulsub_spec (tmp1 % two32) u1 v1 v0 (T / V) tmp1 (T % V) rfl hu1
    · rw [hVd, hT, Nat.mul_comm]; exact hdm
    · omega
  rw [hms]
  -- second digit
  have hq0 := corrLoop_spec (T % V / v1) v1 v0 u0 (T % V) (T % V / v1) (T % V % v1) (Nat.le_refl _) hv1' hv0 hu0
    (Nat.lt_trans (Nat.mod_lt _ hpos) hv1') (by rw [Nat.mul_comm]; exact Nat.mod_add_div (T % V) v1)
    (est_small (T % V) v1 v0 hv1 hv0 (by rw [hVd]; exact hmod)) hpos (est_ge (T % V) u0 v1 v0 hu0 hpos)
  rw [hq0, hVd]
  -- both digits are below 2^32
  have hq1lt : T / V < two32 := by
    apply Nat.div_lt_of_lt_mul
    have : two32 * (tmp1 + 1) ≤ two32 * V := Nat.mul_le_mul_left _ (by omega)
    rw [Nat.mul_comm V two32]
    rw [Nat.mul_add] at this
    simp only [two32] at *; omega
  have hq0lt : (two32 * (T % V) + u0) / V < two32 := by
    apply Nat.div_lt_of_lt_mul
    have : two32 * (T % V + 1) ≤ two32 * V := Nat.mul_le_mul_left _ (by omega)
    rw [Nat.mul_comm V two32]
    rw [Nat.mul_add] at this
    simp only [two32] at *; omega
  rw [make64_small _ _ hq1lt hq0lt]
  -- long division identity
  have : two32 * T + u0 = V * (two32 * (T / V)) + (two32 * (T % V) + u0) := by
    have h : two32 * T = two32 * (T % V) + two32 * (V * (T / V)) := by rw [← Nat.mul_add, hdm]
    rw [h, Nat.mul_left_comm two32 V]; omega
  rw [this, Nat.mul_add_div hV]

theorem divide128_unfold (hi lo b : Nat) (h1 : (b * 2 ^ leadingZeros64 b) % two64 / two32 ≠ 1) :
    divide128 hi lo b =
      divCore ((b * 2 ^ leadingZeros64 b) % two64 / two32) ((b * 2 ^ leadingZeros64 b) % two64 % two32)
        ((lo * 2 ^ leadingZeros64 b) % two64 / two32) ((lo * 2 ^ leadingZeros64 b) % two64 % two32)
        (((hi * 2 ^ leadingZeros64 b) % two64) ||| (lo >>> (64 - leadingZeros64 b))) := by
  simp only [divide128, divCore, h1, if_false]

/-- the normalising shift and the split into 32 bit digits, for a shift of 10 … 14 bits (what 16
digit divisors need) and a dividend below 10^32 -/
theorem divide128_shift (N b s : Nat) (hs : leadingZeros64 b = s)
    (hs' : s = 10 ∨ s = 11 ∨ s = 12 ∨ s = 13 ∨ s = 14)
    (hV1 : 2 ^ 63 ≤ 2 ^ s * b) (hV2 : 2 ^ s * b < 2 ^ 64) (hN : N < 10 ^ 32) :
    divide128 (N / two64) (N % two64) b = N / b := by
  have hdm := Nat.div_add_mod N two64
  have hlo := Nat.mod_lt N (show 0 < two64 by decide)
  generalize N / two64 = hi at *
  generalize N % two64 = lo at *
  have hhi : hi < 2 ^ 43 := by simp only [two64] at hdm; omega
  have hbpos : 0 < b := by
    apply Nat.pos_of_ne_zero; intro h; subst h; simp at hV1
  have hspos : 0 < 2 ^ s := Nat.pow_pos (by decide)
  rcases hs' with h | h | h | h | h
  all_goals
    have e1 : (b * 2 ^ s) % two64 = 2 ^ s * b := by
      rw [Nat.mul_comm]; exact Nat.mod_eq_of_lt (by simp only [two64]; omega)
    have e3 : (lo * 2 ^ s) % two64 = (2 ^ s * lo) % two64 := by
      rw [Nat.mul_comm]
    have e2 : ((hi * 2 ^ s) % two64) ||| (lo >>> (64 - s)) = 2 ^ s * hi + lo / 2 ^ (64 - s) := by
      rw [Nat.mod_eq_of_lt (by subst h; simp only [two64]; omega), ← Nat.shiftLeft_eq,
        Nat.shiftRight_eq_div_pow,
        ← Nat.shiftLeft_add_eq_or_of_lt (by subst h; simp only [two64] at hlo; omega), Nat.shiftLeft_eq,
        Nat.mul_comm]
    have hne : (b * 2 ^ s) % two64 / two32 ≠ 1 := by
      rw [e1]; subst h; simp only [two32]; omega
    rw [divide128_unfold hi lo b (by rw [hs]; exact hne), hs, e1, e2, e3]
    rw [divCore_spec]
    · -- numerator and denominator are the shifted dividend and divisor
      have hden : two32 * (2 ^ s * b / two32) + 2 ^ s * b % two32 = 2 ^ s * b := Nat.div_add_mod _ _
      rw [hden]
      have hnum : two32 * (two32 * (2 ^ s * hi + lo / 2 ^ (64 - s)) + 2 ^ s * lo % two64 / two32)
          + 2 ^ s * lo % two64 % two32 = 2 ^ s * N := by
        rw [← hdm]; subst h; simp only [two32, two64]; omega
      rw [hnum, Nat.mul_div_mul_left _ _ hspos]
    · subst h; simp only [two32]; omega
    · subst h; simp only [two32]; omega
    · exact Nat.mod_lt _ (by decide)
    · subst h; simp only [two32, two64]; omega
    · exact Nat.mod_lt _ (by decide)
    · rw [Nat.div_add_mod]; subst h; simp only [two64] at hlo; omega

/-- divide128_spec: on 16 digit coefficients the implemented `div128` (32 bit half products +
Knuth-D long division) IS the specification `a·10^16 / b` used by the model's `div`. -/
theorem divide128_spec (a b : Nat) (ha1 : 10 ^ 15 ≤ a) (ha2 : a < 10 ^ 16)
    (hb1 : 10 ^ 15 ≤ b) (hb2 : b < 10 ^ 16) : div128m a b = div128 a b := by
  have hb0 : b ≠ 0 := by omega
  have hlo := Nat.log2_self_le hb0
  have hhi := @Nat.lt_log2_self b
  have hL1 : 49 ≤ b.log2 := by
    apply Nat.le_of_not_lt; intro h
    have : 2 ^ (b.log2 + 1) ≤ 2 ^ 49 := Nat.pow_le_pow_right (by decide) (by omega)
    omega
  have hL2 : b.log2 ≤ 53 := by
    apply Nat.le_of_not_lt; intro h
    have : 2 ^ 54 ≤ 2 ^ b.log2 := Nat.pow_le_pow_right (by decide) (by omega)
    omega
  have hs : leadingZeros64 b = 63 - b.log2 := by simp only [leadingZeros64, hb0, if_false]
  simp only [div128m]
  rw [mul128_spec a (by simp only [two64]; omega)]
  simp only [div128]
  have hN : 10 ^ 16 * a < 10 ^ 32 := by omega
  have e : 10000000000000000 * a = 10 ^ 16 * a := by omega
  rw [e]
  generalize 10 ^ 16 * a = N at *
  apply divide128_shift N b (63 - b.log2) hs (by omega) _ _ hN
  · have hcase : b.log2 = 49 ∨ b.log2 = 50 ∨ b.log2 = 51 ∨ b.log2 = 52 ∨ b.log2 = 53 := by omega
    rcases hcase with h | h | h | h | h <;> rw [h] at hlo ⊢ <;> omega
  · have hcase : b.log2 = 49 ∨ b.log2 = 50 ∨ b.log2 = 51 ∨ b.log2 = 52 ∨ b.log2 = 53 := by omega
    rcases hcase with h | h | h | h | h <;> rw [h] at hhi ⊢ <;> omega

/-- `Div` with the implemented div128 (what the driver executes) is the model's `div` on finite
normalised operands; the other branches do not use div128 -/
theorem divM_eq_div (x y : Dnum) (h : (WF x ∧ WF y) ∨ x.sign = 0 ∨ y.sign = 0 ∨ isInf x = true ∨ isInf y = true) :
    divM x y = div x y := by
  rcases h with ⟨hx, hy⟩ | h | h | h | h
  · simp only [divM, div, divide128_spec x.coef y.coef hx.2.1 hx.2.2 hy.2.1 hy.2.2]
  all_goals (simp only [divM, div, signZero]; repeat' split) <;> simp_all

end Gsu.Dnum
