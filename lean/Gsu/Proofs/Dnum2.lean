/-
C27: the complete integer-level specification of `New` (all coefficients `c + 5 < 2^64`, all
exponents): the rounding loop, the normalising shift, underflow and overflow. Core-only.
-/
import Gsu.Proofs.Dnum
namespace Gsu.Dnum

/-- one half-up step of the loop in `New` -/
theorem round_step (c : Nat) (h1 : c > coefMax) (h2 : c + 5 < two64) :
    10 ^ 15 ≤ ((c + 5) % two64) / 10 ∧ ((c + 5) % two64) / 10 < c ∧
    10 * (((c + 5) % two64) / 10) ≤ c + 5 ∧ c < 10 * (((c + 5) % two64) / 10) + 5 + 1 ∧
    ((c + 5) % two64) / 10 + 5 < two64 := by
  rw [Nat.mod_eq_of_lt h2]
  simp only [coefMax, two64] at *
  omega

/-- The rounding loop: after `k` half-up steps the coefficient `c'` satisfies
`|c'·10^k − c| ≤ 5·(10^k − 1)/9` (repeated rounding: < 5/9 of the last kept digit); the value
before the last step was above `coefMax` (`90c + 5·10^k ≥ 9·10^16·10^k + 50`). -/
theorem roundLoop_spec : ∀ (fuel c : Nat) (e : Int) (b : Bool), c + 5 < two64 →
    ∃ k c', k ≤ fuel ∧ roundLoop fuel c e b = (c', e + (k : Int), b || decide (0 < k)) ∧
      (k = 0 → c' = c) ∧
      (0 < k → 10 ^ 15 ≤ c' ∧ c > coefMax ∧ 90 * c + 5 * 10 ^ k ≥ 9 * 10 ^ 16 * 10 ^ k + 50) ∧
      9 * c ≤ 9 * (c' * 10 ^ k) + 5 * (10 ^ k - 1) ∧
      9 * (c' * 10 ^ k) ≤ 9 * c + 5 * (10 ^ k - 1) ∧
      (c' ≤ coefMax ∨ k = fuel)
  | 0, c, e, b, _ => by
    refine ⟨0, c, Nat.le_refl _, ?_, fun _ => rfl, fun h => absurd h (by decide), ?_, ?_, Or.inr rfl⟩
    · simp [roundLoop]
    · simp
    · simp
  | fuel + 1, c, e, b, h2 => by
    by_cases h1 : c > coefMax
    · obtain ⟨s1, s2, s3, s4, s5⟩ := round_step c h1 h2
      obtain ⟨k, c', hk, hr, h0, hp, hb1, hb2, hend⟩ :=
        roundLoop_spec fuel (((c + 5) % two64) / 10) (e + 1) true s5
      refine ⟨k + 1, c', by omega, ?_, fun h => by omega, fun _ => ?_, ?_, ?_, ?_⟩
      · simp only [roundLoop, h1, if_true, hr]
        simp only [Bool.true_or, Bool.or_true, Nat.zero_lt_succ, decide_true, Prod.mk.injEq, and_true, true_and]
        omega
      · have hP : 10 ^ (k + 1) = 10 * 10 ^ k := by rw [Nat.pow_succ, Nat.mul_comm]
        have hPpos : 0 < 10 ^ k := Nat.pow_pos (by decide)
        rw [hP]
        refine ⟨?_, h1, ?_⟩
        · by_cases hk0 : k = 0
          · have := h0 hk0; omega
          · exact (hp (by omega)).1
        · by_cases hk0 : k = 0
          · subst hk0; simp only [coefMax] at h1; simp only [Nat.pow_zero]; omega
          · have := (hp (by omega)).2.2
            generalize 10 ^ k = P at *
            generalize ((c + 5) % two64) / 10 = c1 at *
            omega
      · have hP : 10 ^ (k + 1) = 10 * 10 ^ k := by rw [Nat.pow_succ, Nat.mul_comm]
        have hPpos : 0 < 10 ^ k := Nat.pow_pos (by decide)
        have hM : c' * (10 * 10 ^ k) = 10 * (c' * 10 ^ k) := by
          rw [Nat.mul_left_comm]
        rw [hP, hM]
        generalize c' * 10 ^ k = M at *
        generalize 10 ^ k = P at *
        generalize ((c + 5) % two64) / 10 = c1 at *
        omega
      · have hP : 10 ^ (k + 1) = 10 * 10 ^ k := by rw [Nat.pow_succ, Nat.mul_comm]
        have hPpos : 0 < 10 ^ k := Nat.pow_pos (by decide)
        have hM : c' * (10 * 10 ^ k) = 10 * (c' * 10 ^ k) := by
          rw [Nat.mul_left_comm]
        rw [hP, hM]
        generalize c' * 10 ^ k = M at *
        generalize 10 ^ k = P at *
        generalize ((c + 5) % two64) / 10 = c1 at *
        omega
      · rcases hend with h | h
        · exact Or.inl h
        · exact Or.inr (by omega)
    · refine ⟨0, c, by omega, ?_, fun _ => rfl, fun h => absurd h (by decide), ?_, ?_, Or.inl (by omega)⟩
      · simp [roundLoop, h1]
      · simp
      · simp

/-- the loop on a 17 digit coefficient: one step, or two when the first carries to 10^16 -/
theorem roundLoop17 (c : Nat) (e : Int) (h1 : 10 ^ 16 ≤ c) (h2 : c < 10 ^ 17) :
    roundLoop 6 c e false =
      if (c + 5) / 10 > coefMax then (10 ^ 15, e + 2, true) else ((c + 5) / 10, e + 1, true) := by
  have h4 : c > coefMax := by simp only [coefMax]; omega
  have hw : (c + 5) % two64 = c + 5 := Nat.mod_eq_of_lt (by simp only [two64]; omega)
  by_cases hcar : (c + 5) / 10 > coefMax
  · have h5 : (c + 5) / 10 = 10 ^ 16 := by simp only [coefMax] at hcar; omega
    have h6 : ((10 ^ 16 + 5) % two64) / 10 = 10 ^ 15 := by decide
    have h7 : ¬ (10 ^ 15 > coefMax) := by decide
    have h8 : (10 : Nat) ^ 16 > coefMax := by decide
    simp only [roundLoop, h4, if_true, hw, h5, h6, h7, h8, if_false, Prod.mk.injEq, and_true, true_and]
    omega
  · simp only [roundLoop, h4, if_true, hw, hcar, if_false]

theorem maxShift_eq (c : Nat) (hc0 : 0 < c) (hc : c < 10 ^ 16) : maxShift c = 15 - ilog10 c := by
  have hk := ilog10_lt16 c hc0 hc
  have hn : ¬ ilog10 c > shiftMax := by show ¬ (15 < ilog10 c); omega
  simp only [maxShift]; rw [if_neg hn]; rfl

/-- `New` on a coefficient of at most 16 digits, ALL exponents ≥ expMin: shift, then the
(repaired) underflow check and the overflow check -/
theorem new_small_gen (sign : Int) (c : Nat) (e : Int) (hs : sign = 1 ∨ sign = -1)
    (hc0 : 0 < c) (hc : c < 10 ^ 16) (he : expMin ≤ e) :
    new sign c e =
      if e - ((15 - ilog10 c : Nat) : Int) < expMin then zero
      else if e - ((15 - ilog10 c : Nat) : Int) > expMax then inf sign
      else ⟨c * 10 ^ (15 - ilog10 c), sign, e - ((15 - ilog10 c : Nat) : Int)⟩ := by
  have hk := ilog10_lt16 c hc0 hc
  have h1 : ¬(sign = 0 ∨ c = 0 ∨ e < expMin) := by omega
  have h2 : ¬ sign = signPosInf := by simp only [signPosInf]; omega
  have h3 : ¬ sign = signNegInf := by simp only [signNegInf]; omega
  have h4 : ¬ c > coefMax := by simp only [coefMax]; omega
  have hp : pow10 (15 - ilog10 c) = 10 ^ (15 - ilog10 c) := by
    simp only [pow10]; rw [if_pos (by omega)]
  simp only [new, h1, h2, h3, if_false, roundLoop, h4, Bool.not_false, if_true, maxShift_eq c hc0 hc, hp]

/-- The complete integer specification of `New` for a finite sign, `0 < c`, `c + 5 < 2^64`,
`e ≥ expMin`: there are `k` (digits rounded away), `p` (normalising shift; one of them is 0) and a
16 digit `c'` with `|c'·10^k − c·10^p| ≤ 5(10^k−1)/9` (exact when k = 0, at most half of `10^k`
when `c < 10^17`); the result is zero / infinity / `⟨c', sign, e+k−p⟩` according to the final
exponent. -/
theorem new_spec (sign : Int) (c : Nat) (e : Int) (hs : sign = 1 ∨ sign = -1)
    (hc0 : 0 < c) (hc : c + 5 < two64) (he : expMin ≤ e) :
    ∃ k p c' : Nat, (k = 0 ∨ p = 0) ∧ k ≤ 5 ∧ p ≤ 15 ∧ 10 ^ 15 ≤ c' ∧ c' ≤ coefMax ∧
      9 * (c * 10 ^ p) ≤ 9 * (c' * 10 ^ k) + 5 * (10 ^ k - 1) ∧
      9 * (c' * 10 ^ k) ≤ 9 * (c * 10 ^ p) + 5 * (10 ^ k - 1) ∧
      (0 < k → 90 * c + 5 * 10 ^ k ≥ 9 * 10 ^ 16 * 10 ^ k + 50) ∧
      (c < 10 ^ 17 → 2 * (c * 10 ^ p) ≤ 2 * (c' * 10 ^ k) + 10 ^ k ∧
                     2 * (c' * 10 ^ k) ≤ 2 * (c * 10 ^ p) + 10 ^ k) ∧
      (c ≤ coefMax ↔ k = 0) ∧ (10 ^ 15 ≤ c → p = 0) ∧
      new sign c e =
        (if e + (k : Int) - (p : Int) < expMin then zero
         else if e + (k : Int) - (p : Int) > expMax then inf sign
         else ⟨c', sign, e + (k : Int) - (p : Int)⟩) := by
  by_cases hbig : c > coefMax
  · -- rounding
    obtain ⟨k, c', hk, hr, h0, hp, hb1, hb2, hend⟩ := roundLoop_spec 6 c e false hc
    have hkpos : 0 < k := by
      apply Nat.pos_of_ne_zero; intro hk0
      have := h0 hk0; subst hk0
      rcases hend with h | h
      · omega
      · omega
    obtain ⟨hc'1, _, hlast⟩ := hp hkpos
    -- the loop ends with c' ≤ coefMax after at most 5 steps
    have hk5 : k ≤ 5 ∧ c' ≤ coefMax := by
      rcases hend with h | h
      · refine ⟨?_, h⟩
        apply Nat.le_of_not_lt; intro h6
        have hk6 : k = 6 := by omega
        subst hk6
        simp only [two64] at hc
        omega
      · subst h
        simp only [two64] at hc
        have : 10 ^ 15 * 10 ^ 6 ≤ c' * 10 ^ 6 := Nat.mul_le_mul_right _ hc'1
        omega
    refine ⟨k, 0, c', Or.inr rfl, hk5.1, by omega, hc'1, hk5.2, ?_, ?_, fun _ => hlast, ?_, ?_, ?_, ?_⟩
    · simpa using hb1
    · simpa using hb2
    · intro h17
      have h16 : 10 ^ 16 ≤ c := by simp only [coefMax] at hbig; omega
      have hr17 := roundLoop17 c e h16 h17
      rw [hr] at hr17
      simp only [Nat.pow_zero, Nat.mul_one]
      by_cases hcar : (c + 5) / 10 > coefMax
      · rw [if_pos hcar] at hr17
        simp only [Prod.mk.injEq] at hr17
        obtain ⟨q1, q2, _⟩ := hr17
        have : k = 2 := by omega
        subst this; subst q1
        simp only [coefMax] at hcar
        omega
      · rw [if_neg hcar] at hr17
        simp only [Prod.mk.injEq] at hr17
        obtain ⟨q1, q2, _⟩ := hr17
        have : k = 1 := by omega
        subst this; subst q1
        omega
    · constructor
      · intro h; omega
      · intro h; omega
    · intro _; rfl
    · have h1 : ¬(sign = 0 ∨ c = 0 ∨ e < expMin) := by omega
      have h2 : ¬ sign = signPosInf := by simp only [signPosInf]; omega
      have h3 : ¬ sign = signNegInf := by simp only [signNegInf]; omega
      have hd : decide (0 < k) = true := by simp [hkpos]
      simp only [new, h1, h2, h3, if_false, hr, hd, Bool.false_or, Bool.not_true, Bool.false_eq_true,
        Int.natCast_zero, Int.sub_zero]
  · -- shift only
    have hc16 : c < 10 ^ 16 := by simp only [coefMax] at hbig; omega
    have hk := ilog10_lt16 c hc0 hc16
    obtain ⟨s1, s2⟩ := ilog10_spec c hc0 (by omega)
    have hlo : 10 ^ 15 ≤ c * 10 ^ (15 - ilog10 c) := by
      rw [← pow_split (ilog10 c) hk]
      exact Nat.mul_le_mul_right _ s1
    have hhi : c * 10 ^ (15 - ilog10 c) < 10 ^ 16 := by
      have h1 : c * 10 ^ (15 - ilog10 c) < 10 ^ (ilog10 c + 1) * 10 ^ (15 - ilog10 c) :=
        (Nat.mul_lt_mul_right (Nat.pow_pos (by decide))).2 s2
      have h2 : 10 ^ (ilog10 c + 1) * 10 ^ (15 - ilog10 c) = 10 ^ 16 := by
        rw [← Nat.pow_add]; congr 1; omega
      omega
    refine ⟨0, 15 - ilog10 c, c * 10 ^ (15 - ilog10 c), Or.inl rfl, by omega, by omega, hlo,
      by simp only [coefMax]; omega, by simp, by simp, fun h => absurd h (by decide),
      fun _ => by simp, ?_, ?_, ?_⟩
    · constructor
      · intro _; rfl
      · intro _; omega
    · intro h15
      have : ¬ ilog10 c ≤ 14 := by
        intro h14
        have : 10 ^ (ilog10 c + 1) ≤ 10 ^ 15 := Nat.pow_le_pow_right (by decide) (by omega)
        omega
      omega
    · rw [new_small_gen sign c e hs hc0 hc16 he]
      simp only [Int.natCast_zero, Int.add_zero]

end Gsu.Dnum
