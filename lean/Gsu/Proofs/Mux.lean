/-
Lemmas about the dbms/mux model (`Gsu.Model.Mux`): header round trip, reassembly of arbitrarily
interleaved, arbitrarily fragmented per-session frame streams, WriteBuf = concatenation.
-/
import Gsu.Model.Mux
namespace Gsu.Proofs.Mux
open Gsu.Mux

/-! ### header -/

theorem decHdr_encHdr (size sid : Nat) (fb : UInt8) (h1 : size < 4294967296) (h2 : sid < 4294967296) :
    decHdr (encHdr size sid fb) = some (size, sid, fb) := by
  simp only [encHdr, be32, List.cons_append, List.nil_append, decHdr, rd32, UInt8.toNat_ofNat',
    Option.some.injEq, Prod.mk.injEq, and_true, Nat.reducePow]
  constructor <;> omega

theorem encHdr_length (size sid : Nat) (fb : UInt8) : (encHdr size sid fb).length = headerSize := rfl

/-! ### reassembly -/

/-- `Sess p frs ms`: with `p` already buffered for the session, the session's frames `frs`
    (in arrival order) are a fragmentation of exactly the messages `ms`: every message is the
    concatenation of the payloads of zero or more non-final frames and one final frame, is not
    longer than `maxSize` (and not empty if the reader asserts non-nil buffers, `a`); nothing is
    left over. -/
def Sess (a : Bool) : Bytes → List Frame → List Bytes → Prop
  | p, [], ms => p = [] ∧ ms = []
  | p, f :: r, ms =>
    (p ++ f.payload).length ≤ maxSize ∧
    if f.final then
      ∃ ms', ms = (p ++ f.payload) :: ms' ∧ (a = true → p ++ f.payload ≠ []) ∧ Sess a [] r ms'
    else Sess a (p ++ f.payload) r ms

theorem delivered_append (s : RSt) (i j : Nat) (m : Bytes) (out' : List (Nat × Bytes))
    (h : out' = s.out ++ [(j, m)]) :
    ((out'.filter (·.1 = i)).map (·.2)) =
      delivered s i ++ (if j = i then [m] else []) := by
  subst h
  by_cases e : j = i <;> simp [delivered, List.filter_append, e]

/-- the reader, started in a running state in which every session's pending buffer and
    remaining frames are a fragmentation of `ms i`, delivers to every session exactly `ms i`,
    in order, after what it had delivered before; it never stops; no partial message remains. -/
theorem run_sess (a : Bool) (fs : List Frame) : ∀ (s : RSt) (ms : Nat → List Bytes),
    s.status = .running →
    (∀ i, Sess a (s.part i) (fs.filter (·.sid = i)) (ms i)) →
    (run a s fs).status = .running ∧
    ∀ i, delivered (run a s fs) i = delivered s i ++ ms i ∧ (run a s fs).part i = [] := by
  induction fs with
  | nil =>
    intro s ms hs h
    refine ⟨hs, fun i => ?_⟩
    have := h i
    simp only [List.filter_nil, Sess] at this
    simp [run, this.1, this.2]
  | cons f r ih =>
    intro s ms hs h
    have hj := h f.sid
    simp only [List.filter_cons, decide_true, ↓reduceIte, Sess] at hj
    obtain ⟨hsz, hj⟩ := hj
    have hsz' : ¬ (s.part f.sid).length + f.payload.length > maxSize := by
      simp only [List.length_append] at hsz; omega
    simp only [run, List.foldl_cons]
    by_cases hf : f.final = true
    · -- final frame: message delivered
      simp only [hf, ↓reduceIte] at hj
      obtain ⟨ms', hms, hne, hrest⟩ := hj
      have hstep : rstep a s f =
          { s with part := fun i => if i = f.sid then [] else s.part i,
                   out := s.out ++ [(f.sid, s.part f.sid ++ f.payload)] } := by
        have : ¬ (a = true ∧ s.part f.sid ++ f.payload = []) := fun h => hne h.1 h.2
        simp only [rstep, rstepRaw, hs, ne_eq, not_true_eq_false, ↓reduceIte, hsz', hf, finalByte,
          this]
        simp
      have := ih (rstep a s f) (fun i => if i = f.sid then ms' else ms i) (by rw [hstep]; exact hs) (by
        intro i
        by_cases e : i = f.sid
        · subst e; simpa [hstep] using hrest
        · have e' : ¬ f.sid = i := fun x => e x.symm
          have := h i
          simp only [List.filter_cons, e', decide_false, Bool.false_eq_true, ↓reduceIte] at this
          simpa [hstep, e] using this)
      refine ⟨this.1, fun i => ?_⟩
      have hi := this.2 i
      refine ⟨?_, hi.2⟩
      rw [show run a (rstep a s f) r = List.foldl (rstep a) (rstep a s f) r from rfl] at hi
      rw [hi.1]
      by_cases e : i = f.sid
      · subst e
        simp [hstep, delivered, List.filter_append, hms]
      · have e' : ¬ f.sid = i := fun x => e x.symm
        simp [hstep, delivered, List.filter_append, e, e']
    · -- non-final frame: buffered
      have hf' : f.final = false := by cases h : f.final <;> simp_all
      simp only [hf', Bool.false_eq_true, ↓reduceIte] at hj
      have hstep : rstep a s f =
          { s with part := fun i => if i = f.sid then s.part f.sid ++ f.payload else s.part i } := by
        simp [rstep, rstepRaw, hs, hsz', hf', finalByte]
      have := ih (rstep a s f) ms (by rw [hstep]; exact hs) (by
        intro i
        by_cases e : i = f.sid
        · subst e; simpa [hstep] using hj
        · have e' : ¬ f.sid = i := fun x => e x.symm
          have := h i
          simp only [List.filter_cons, e', decide_false, Bool.false_eq_true, ↓reduceIte] at this
          simpa [hstep, e] using this)
      refine ⟨this.1, fun i => ?_⟩
      have hi := this.2 i
      refine ⟨?_, hi.2⟩
      rw [show run a (rstep a s f) r = List.foldl (rstep a) (rstep a s f) r from rfl] at hi
      rw [hi.1]
      simp [hstep, delivered]

/-- any fragmentation: non-final frames carrying `parts`, then a final frame carrying `last`,
    is a fragmentation of the single message `p ++ parts.flatten ++ last` -/
theorem sess_fragments (a : Bool) (i : Nat) (parts : List Bytes) (last : Bytes) :
    ∀ (p : Bytes) (rest : List Frame) (ms : List Bytes),
    (p ++ parts.flatten ++ last).length ≤ maxSize → (a = true → p ++ parts.flatten ++ last ≠ []) →
    Sess a [] rest ms →
    Sess a p (parts.map (fun x => (⟨i, x, false⟩ : Frame)) ++ [⟨i, last, true⟩] ++ rest)
      ((p ++ parts.flatten ++ last) :: ms) := by
  induction parts with
  | nil =>
    intro p rest ms hl hne hr
    simp only [List.flatten_nil, List.append_nil] at hl hne
    simp only [List.map_nil, List.nil_append, List.cons_append, Sess, ↓reduceIte,
      List.flatten_nil, List.append_nil]
    exact ⟨hl, ms, rfl, hne, hr⟩
  | cons x xs ih =>
    intro p rest ms hl hne hr
    simp only [List.map_cons, List.cons_append, Sess, Bool.false_eq_true, ↓reduceIte]
    have e : p ++ (x :: xs).flatten ++ last = (p ++ x) ++ xs.flatten ++ last := by
      simp [List.append_assoc]
    constructor
    · rw [e] at hl
      simp only [List.length_append] at hl ⊢
      omega
    · rw [e]
      rw [e] at hl hne
      have := ih (p ++ x) rest ms hl hne hr
      simpa using this

/-! ### WriteBuf -/

def payloads (fs : List Frame) : Bytes := (fs.map (·.payload)).flatten

/-- invariant of the writer while a message is being written: what went out plus what is
    buffered is what was written; only non-final frames of this session went out -/
def WInv (sid : Nat) (w : WSt) (written : Bytes) : Prop :=
  payloads w.sent ++ w.buf = written ∧ (∀ f ∈ w.sent, f.final = false ∧ f.sid = sid)

theorem payloads_append (a b : List Frame) : payloads (a ++ b) = payloads a ++ payloads b := by
  simp [payloads]

theorem flush_inv (sid : Nat) (w : WSt) (written : Bytes) (h : WInv sid w written) :
    WInv sid (flush sid w false) written ∧ (flush sid w false).buf = [] := by
  obtain ⟨h1, h3⟩ := h
  refine ⟨⟨?_, ?_⟩, rfl⟩
  · simp only [flush, payloads_append, List.append_nil]
    simpa [payloads] using h1
  · intro f hf
    simp only [flush, List.mem_append, List.mem_singleton] at hf
    rcases hf with hf | rfl
    · exact h3 f hf
    · exact ⟨rfl, rfl⟩

theorem write_inv (sid : Nat) (w : WSt) (written data : Bytes) (h : WInv sid w written) :
    WInv sid (write sid w data) (written ++ data) := by
  unfold write
  by_cases hfl : (data.length : Int) > space w
  · simp only [hfl, ↓reduceIte]
    obtain ⟨⟨h1, h3⟩, hb⟩ := flush_inv sid w written h
    split
    · refine ⟨?_, ?_⟩
      · simp only [payloads_append, hb, List.append_nil] at h1 ⊢
        rw [h1]; simp [payloads]
      · intro f hf
        simp only [List.mem_append, List.mem_singleton] at hf
        rcases hf with hf | rfl
        · exact h3 f hf
        · exact ⟨rfl, rfl⟩
    · exact ⟨by simp [← h1, List.append_assoc], h3⟩
  · simp only [hfl, ↓reduceIte]
    obtain ⟨h1, h3⟩ := h
    split
    · rename_i hb
      exfalso
      simp only [space, bufSize, headerSize] at hfl hb
      omega
    · exact ⟨by simp [← h1, List.append_assoc], h3⟩

theorem write1_inv (sid : Nat) (w : WSt) (written : Bytes) (b : UInt8) (h : WInv sid w written) :
    WInv sid (write1 sid w b) (written ++ [b]) := by
  unfold write1
  split
  · obtain ⟨⟨h1, h3⟩, _⟩ := flush_inv sid w written h
    exact ⟨by simp [← h1, List.append_assoc], h3⟩
  · obtain ⟨h1, h3⟩ := h
    exact ⟨by simp [← h1, List.append_assoc], h3⟩

theorem writes_inv (sid : Nat) (ws : List Bytes) : ∀ (w : WSt) (written : Bytes),
    WInv sid w written → WInv sid (ws.foldl (write sid) w) (written ++ ws.flatten) := by
  induction ws with
  | nil => intro w written h; simpa using h
  | cons d ds ih =>
    intro w written h
    simp only [List.foldl_cons, List.flatten_cons, ← List.append_assoc]
    exact ih _ _ (write_inv sid w written d h)

/-- the frames of one message: zero or more non-final frames and one final frame, all of this
    session, whose payloads concatenate to the concatenation of the writes -/
theorem writeMsg_frames (sid : Nat) (ws : List Bytes) :
    ∃ (parts : List Bytes) (last : Bytes), (writeMsg sid WSt.init ws).sent =
        parts.map (fun x => (⟨sid, x, false⟩ : Frame)) ++ [⟨sid, last, true⟩] ∧
      parts.flatten ++ last = ws.flatten ∧ (writeMsg sid WSt.init ws).buf = [] := by
  have h := writes_inv sid ws WSt.init [] ⟨rfl, fun _ hf => absurd hf (by simp [WSt.init])⟩
  unfold writeMsg endMsg flush
  generalize ws.foldl (write sid) WSt.init = w at h ⊢
  obtain ⟨h1, h3⟩ := h
  refine ⟨w.sent.map (·.payload), w.buf, ?_, ?_, rfl⟩
  · simp only [List.map_map]
    congr 1
    have : ∀ (l : List Frame), (∀ f ∈ l, f.final = false ∧ f.sid = sid) →
        l = l.map ((fun x => (⟨sid, x, false⟩ : Frame)) ∘ (·.payload)) := by
      intro l hl
      induction l with
      | nil => rfl
      | cons a l ih =>
        have ha := hl a (List.mem_cons_self ..)
        simp only [List.map_cons, Function.comp]
        congr 1
        · rcases a with ⟨s', p', f'⟩
          simp only at ha
          rw [ha.1, ha.2]
        · exact ih (fun f hf => hl f (List.mem_cons_of_mem _ hf))
    exact this w.sent h3
  · simpa [payloads] using h1

/-- the frames WriteBuf produces for one message are a fragmentation of that message -/
theorem writeMsg_sess (a : Bool) (sid : Nat) (ws : List Bytes) (hl : ws.flatten.length ≤ maxSize)
    (hne : a = true → ws.flatten ≠ []) :
    Sess a [] (writeMsg sid WSt.init ws).sent [ws.flatten] := by
  obtain ⟨parts, last, hs, hc, _⟩ := writeMsg_frames sid ws
  rw [hs, ← hc]
  have := sess_fragments a sid parts last [] [] [] (by simpa [hc] using hl)
    (by simpa [hc] using hne) ⟨rfl, rfl⟩
  simpa using this

end Gsu.Proofs.Mux
