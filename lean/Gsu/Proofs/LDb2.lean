/-
C08, updates that change a referenced key — static part: the schema hypotheses, what
`substFk` does, and the shape of the `runUpd` stack (`SOk`).

The stack of `runUpd` is a path in the cascade tree: at the bottom the `fin` of the update the
user asked for, above it the `casc` tasks it still has to run, above them the `fin` of the row
the first of these tasks is rewriting, and so on.  Core only.
-/
import Gsu.Proofs.LDb
namespace Gsu.LDb
open Gsu.Proto

/-! ### `substFk` -/

theorem substFk_length (scols tcols : List Nat) (r trow : Row) :
    (substFk scols tcols r trow).length = r.length := by
  simp [substFk]

theorem getD_substFk {scols tcols : List Nat} {r trow : Row} {c : Nat} (hc : c < r.length) :
    (substFk scols tcols r trow).getD c [] =
      match scols.findIdx? (· == c) with
      | some j => if j < tcols.length then trow.getD (tcols.getD j 0) [] else r.getD c []
      | none => r.getD c [] := by
  unfold substFk
  rw [List.getD_eq_getElem?_getD, List.getElem?_map, List.getElem?_range hc]
  rfl

theorem getD_substFk_ge {scols tcols : List Nat} {r trow : Row} {c : Nat} (hc : r.length ≤ c) :
    (substFk scols tcols r trow).getD c [] = r.getD c [] := by
  rw [List.getD_eq_getElem?_getD, List.getD_eq_getElem?_getD,
    List.getElem?_eq_none (by rw [substFk_length]; exact hc), List.getElem?_eq_none hc]

theorem findIdx?_not_mem {l : List Nat} {c : Nat} (h : c ∉ l) : l.findIdx? (· == c) = none := by
  rw [List.findIdx?_eq_none_iff]
  intro x hx
  simp
  intro h2; exact h (h2 ▸ hx)

theorem findIdx?_nodup {l : List Nat} (hn : l.Nodup) {m : Nat} (hm : m < l.length) :
    l.findIdx? (· == l[m]) = some m := by
  rw [List.findIdx?_eq_some_iff_getElem]
  refine ⟨hm, by simp, ?_⟩
  intro j hj
  simp
  intro h
  have := (List.getElem_inj hn).mp h
  omega

/-- columns outside the foreign key keep their value -/
theorem proj_substFk_disj {scols tcols cols : List Nat} {r trow : Row}
    (hd : ∀ c ∈ cols, c ∉ scols) : proj cols (substFk scols tcols r trow) = proj cols r := by
  unfold proj
  apply List.map_congr_left
  intro c hc
  by_cases hl : c < r.length
  · rw [getD_substFk hl, findIdx?_not_mem (hd c hc)]
  · exact getD_substFk_ge (by omega)

/-- the foreign key columns get the key of the new target row -/
theorem proj_substFk_self {scols tcols : List Nat} {r trow : Row} (hn : scols.Nodup)
    (hlen : scols.length = tcols.length) (hc : ∀ c ∈ scols, c < r.length) :
    proj scols (substFk scols tcols r trow) = proj tcols trow := by
  unfold proj
  apply List.ext_getElem
  · simp [hlen]
  · intro m h1 h2
    simp only [List.getElem_map]
    have hm : m < scols.length := by simpa using h1
    rw [getD_substFk (hc _ (List.getElem_mem hm)), findIdx?_nodup hn hm]
    have hm2 : m < tcols.length := by omega
    simp [hm2]

theorem proj_length (cols : List Nat) (r : Row) : (proj cols r).length = cols.length := by
  simp [proj]

/-! ### schema hypotheses -/

def ncols (sch : Schema) (t : Nat) : Nat :=
  match sch[t]? with
  | some tb => tb.ncols
  | none => 0

/-- The schemas covered by the update theorems.
* `tkey`: a foreign key points to a key (`meta` enforces it: "foreign key must point to key");
* `sep`: the columns of an index whose foreign key cascades updates are not shared with another
  index of the same table that is itself a foreign key source or target (a cascade rewrites these
  columns WITHOUT re-checking the other foreign key: `fk_inv_overlap_counter`);
* `cols`: such an index has distinct columns, all of them columns of the table;
* `ord`: a foreign key that cascades updates points to an earlier table, or to the same table
  from an index that is not itself referenced. -/
structure SchOk (sch : Schema) : Prop where
  tkey : ∀ s j fk, fkOf sch s j = some fk →
    ∃ tix, (idxsOf sch fk.table)[fk.index]? = some tix ∧ tix.mode = 0
  sep : ∀ s j j2 fk, fkOf sch s j = some fk → cascadesUpdates fk.mode = true → j2 ≠ j →
    ((fkOf sch s j2).isSome ∨ fkToHere sch s j2 ≠ []) → ∀ c ∈ colsOf sch s j2, c ∉ colsOf sch s j
  cols : ∀ s j fk, fkOf sch s j = some fk → cascadesUpdates fk.mode = true →
    (colsOf sch s j).Nodup ∧ ∀ c ∈ colsOf sch s j, c < ncols sch s
  ord : ∀ s j fk, fkOf sch s j = some fk → cascadesUpdates fk.mode = true →
    fk.table < s ∨ (fk.table = s ∧ fkToHere sch s j = [])

/-- every row has exactly the columns of its table -/
def LenOk (sch : Schema) (db : Db) : Prop := ∀ t r, r ∈ db t → r.length = ncols sch t

/-- The updates covered when a referenced key changes: a foreign key value of the row that is
changed (to a non-empty value) by the same update points to an earlier table.  Excluded: a
self-referencing foreign key value changed together with a referenced key — `fk_inv_counter`
(KF-C08-1: the target check runs against the state before the update, where the row itself, or
a row the cascade is about to re-key, is the target). -/
def UpdOk2 (sch : Schema) (t : Nat) (old new : Row) : Prop :=
  ∀ j fk, fkOf sch t j = some fk →
    proj (colsOf sch t j) new = proj (colsOf sch t j) old ∨
    emptyKey (proj (colsOf sch t j) new) = true ∨ fk.table < t

/-- an `FkToHere` entry comes from the foreign key of its source index -/
theorem fkOf_of_mem_fkToHere {sch : Schema} {t i : Nat} {f : FkTo} (h : f ∈ fkToHere sch t i) :
    fkOf sch f.table f.index = some ⟨t, i, f.mode⟩ := by
  unfold fkToHere at h
  rw [List.mem_flatMap] at h
  obtain ⟨s, _, h⟩ := h
  rw [List.mem_filterMap] at h
  obtain ⟨j, _, h⟩ := h
  cases hfk : fkOf sch s j with
  | none => simp [hfk] at h
  | some fk =>
    simp only [hfk] at h
    split at h
    · rename_i hc
      cases h
      obtain ⟨h1, h2⟩ := hc
      subst h1 h2
      exact hfk
    · cases h

/-! ### the shape of the stack -/

/-- the frame that owns the `casc` tasks on top of the stack: the first `fin` -/
def owner : List UTask → Option (Nat × Row × Row)
  | [] => none
  | .fin t o n :: _ => some (t, o, n)
  | .casc _ _ _ _ :: rest => owner rest
  | .upd _ _ _ _ :: _ => none

/-- a `casc` task belongs to the frame below it: it rewrites the rows that reference the old
value of one of the frame's changed keys -/
def CascOk (sch : Schema) (f : FkTo) (ok : Key) (tcols : List Nat) (trow : Row)
    (own : Option (Nat × Row × Row)) : Prop :=
  ∃ T o ix i, own = some (T, o, trow) ∧ (ix, i) ∈ enumIdxs sch T ∧ f ∈ fkToHere sch T i ∧
    tcols = ix.cols ∧ ok = proj ix.cols o ∧ ok ≠ proj ix.cols trow ∧ emptyKey ok = false ∧
    cascadesUpdates f.mode = true

/-- the row change `(s, r → r')` was requested by the `casc` task on top of `rest` -/
def Created (sch : Schema) (s : Nat) (r r' : Row) (rest : List UTask) : Prop :=
  ∃ f ok tcols trow rest', rest = .casc f ok tcols trow :: rest' ∧ f.table = s ∧
    proj (colsOf sch s f.index) r = ok ∧ r' = substFk (colsOf sch s f.index) tcols r trow ∧
    r.length = ncols sch s

def SOk (sch : Schema) : List UTask → Prop
  | [] => True
  | .fin s r r' :: rest =>
    ((rest = [] ∧ r'.length = ncols sch s ∧ UpdOk2 sch s r r') ∨ Created sch s r r' rest) ∧
    (∀ s' o' n', UTask.fin s' o' n' ∈ rest → s' ≤ s) ∧ SOk sch rest
  | .casc f ok tcols trow :: rest => CascOk sch f ok tcols trow (owner rest) ∧ SOk sch rest
  | .upd s r r' b :: rest =>
    ((rest = [] ∧ b = true ∧ r'.length = ncols sch s ∧ UpdOk2 sch s r r') ∨ Created sch s r r' rest) ∧
    SOk sch rest

theorem SOk_tail {sch : Schema} {x : UTask} {st : List UTask} (h : SOk sch (x :: st)) : SOk sch st := by
  cases x with
  | fin s r r' => exact h.2.2
  | casc f ok tcols trow => exact h.2
  | upd s r r' b => exact h.2

theorem SOk_suffix {sch : Schema} : ∀ (pre : List UTask) {st : List UTask}, SOk sch (pre ++ st) → SOk sch st := by
  intro pre
  induction pre with
  | nil => intro st h; exact h
  | cons x pre ih => intro st h; exact ih (SOk_tail h)

/-- all frames below the owner are in tables that are not later -/
theorem owner_le {sch : Schema} : ∀ {st : List UTask} {T : Nat} {o n : Row}, SOk sch st →
    owner st = some (T, o, n) → ∀ s' o' n', UTask.fin s' o' n' ∈ st → s' ≤ T := by
  intro st
  induction st with
  | nil => intro T o n _ h; cases h
  | cons x st ih =>
    intro T o n hs ho s' o' n' hm
    cases x with
    | fin s r r' =>
      simp only [owner, Option.some.injEq, Prod.mk.injEq] at ho
      obtain ⟨rfl, rfl, rfl⟩ := ho
      rcases List.mem_cons.mp hm with h1 | h1
      · cases h1; exact Nat.le_refl _
      · exact hs.2.1 s' o' n' h1
    | casc f ok tcols trow =>
      rcases List.mem_cons.mp hm with h1 | h1
      · cases h1
      · exact ih hs.2 ho s' o' n' h1
    | upd s r r' b => cases ho

theorem owner_mem : ∀ {st : List UTask} {T : Nat} {o n : Row}, owner st = some (T, o, n) →
    UTask.fin T o n ∈ st := by
  intro st
  induction st with
  | nil => intro T o n h; cases h
  | cons x st ih =>
    intro T o n ho
    cases x with
    | fin s r r' =>
      simp only [owner, Option.some.injEq, Prod.mk.injEq] at ho
      obtain ⟨rfl, rfl, rfl⟩ := ho
      exact List.mem_cons_self
    | casc f ok tcols trow => exact List.mem_cons_of_mem _ (ih ho)
    | upd s r r' b => cases ho

/-- a frame above another one is in a table that is not earlier -/
theorem SOk_pre_le {sch : Schema} : ∀ (pre : List UTask) {st : List UTask} {s' : Nat} {o' n' : Row},
    SOk sch (pre ++ st) → UTask.fin s' o' n' ∈ st → ∀ s o n, UTask.fin s o n ∈ pre → s' ≤ s := by
  intro pre
  induction pre with
  | nil => intro st s' o' n' _ _ s o n hm; cases hm
  | cons x pre ih =>
    intro st s' o' n' hs hy s o n hm
    rcases List.mem_cons.mp hm with h1 | h1
    · subst h1
      exact hs.2.1 s' o' n' (List.mem_append_right _ hy)
    · exact ih (SOk_tail hs) hy s o n h1

/-- what a frame created by a `casc` task looks like (with the task's own description) -/
theorem created_info {sch : Schema} {s : Nat} {r r' : Row} {rest : List UTask}
    (hs : SOk sch rest) (hc : Created sch s r r' rest) :
    ∃ (f : FkTo) (T : Nat) (o trow : Row) (ix : Index) (i : Nat) (rest' : List UTask),
      rest = .casc f (proj ix.cols o) ix.cols trow :: rest' ∧ f.table = s ∧
      owner rest' = some (T, o, trow) ∧ (idxsOf sch T)[i]? = some ix ∧ f ∈ fkToHere sch T i ∧
      fkOf sch s f.index = some ⟨T, i, f.mode⟩ ∧ cascadesUpdates f.mode = true ∧
      proj (colsOf sch s f.index) r = proj ix.cols o ∧ proj ix.cols o ≠ proj ix.cols trow ∧
      emptyKey (proj ix.cols o) = false ∧
      r' = substFk (colsOf sch s f.index) ix.cols r trow ∧ r.length = ncols sch s := by
  obtain ⟨f, ok, tcols, trow, rest', rfl, hft, hproj, hr', hlen⟩ := hc
  obtain ⟨T, o, ix, i, hown, hix, hf, rfl, rfl, hchg, hne, hm⟩ := hs.1
  refine ⟨f, T, o, trow, ix, i, rest', rfl, hft, hown, mem_enumIdxs.mp hix, hf, ?_, hm, hproj, hchg, hne, hr', hlen⟩
  have := fkOf_of_mem_fkToHere hf
  rw [hft] at this
  exact this

/-- a cascaded row change leaves every other foreign key source or target index of the row alone -/
theorem created_other {sch : Schema} (hsch : SchOk sch) {s : Nat} {r r' : Row} {rest : List UTask}
    (hs : SOk sch rest) (hc : Created sch s r r' rest) {f : FkTo} {ok : Key} {tcols : List Nat}
    {trow : Row} {rest' : List UTask} (hrest : rest = .casc f ok tcols trow :: rest')
    {j2 : Nat} (hj : j2 ≠ f.index) (hrel : (fkOf sch s j2).isSome ∨ fkToHere sch s j2 ≠ []) :
    proj (colsOf sch s j2) r' = proj (colsOf sch s j2) r := by
  obtain ⟨f0, T, o, trow0, ix, i, rest0, h1, hft, _, _, _, hfk, hm, _, _, _, hr', _⟩ := created_info hs hc
  rw [hrest] at h1
  injection h1 with h1 _
  injection h1 with hf _ _ _
  subst hf
  rw [hr']
  exact proj_substFk_disj (hsch.sep s f.index j2 _ hfk hm hj hrel)

/-- … and gives the cascaded index the key of the new target row -/
theorem created_self {sch : Schema} (hsch : SchOk sch) {s : Nat} {r r' : Row} {rest : List UTask}
    (hs : SOk sch rest) (hc : Created sch s r r' rest) {f : FkTo} {ok : Key} {tcols : List Nat}
    {trow : Row} {rest' : List UTask} (hrest : rest = .casc f ok tcols trow :: rest') :
    proj (colsOf sch s f.index) r' = proj tcols trow := by
  obtain ⟨f0, T, o, trow0, ix, i, rest0, h1, hft, _, _, _, hfk, hm, hp, _, _, hr', hlen⟩ := created_info hs hc
  rw [hrest] at h1
  injection h1 with h1 _
  injection h1 with hf _ htc htr
  subst hf htc htr
  rw [hr']
  obtain ⟨hnd, hlt⟩ := hsch.cols s f.index _ hfk hm
  refine proj_substFk_self hnd ?_ (fun c hc => by rw [hlen]; exact hlt c hc)
  have := congrArg List.length hp
  simpa [proj_length] using this


theorem two_mem_split {α} {a b : α} (hne : a ≠ b) : ∀ {l : List α}, a ∈ l → b ∈ l →
    (∃ pre rest, l = pre ++ a :: rest ∧ b ∈ rest) ∨ (∃ pre rest, l = pre ++ b :: rest ∧ a ∈ rest) := by
  intro l ha hb
  obtain ⟨pre, rest, rfl⟩ := List.append_of_mem ha
  rcases List.mem_append.mp hb with h | h
  · obtain ⟨p2, r2, rfl⟩ := List.append_of_mem h
    right
    exact ⟨p2, r2 ++ a :: rest, by simp, by simp⟩
  · rcases List.mem_cons.mp h with h | h
    · exact absurd h.symm hne
    · left; exact ⟨pre, rest, rfl, h⟩

/-- the upper of two pending changes in one table does not change a key that a cascading
foreign key references -/
theorem upper_keeps {sch : Schema} (hsch : SchOk sch) {T : Nat} {a b c d : Row} {pre rest : List UTask}
    (hs : SOk sch (pre ++ .fin T a b :: rest)) (hv : UTask.fin T c d ∈ rest)
    {ix : Index} {i : Nat} (hix : (idxsOf sch T)[i]? = some ix) (hfk : fkToHere sch T i ≠ []) :
    proj ix.cols a = proj ix.cols b := by
  have hs1 := SOk_suffix pre hs
  obtain ⟨hfr, hmono, hs2⟩ := hs1
  rcases hfr with ⟨hnil, _⟩ | hcr
  · rw [hnil] at hv; cases hv
  · obtain ⟨f, T1, o1, trow, ix1, i1, rest', hrest, hft, hown, hix1, hf, hfkof, hm, _, _, _, hr', _⟩ :=
      created_info hs2 hcr
    by_cases hi : i = f.index
    · -- index `i` of `T` is a cascading source and referenced: its target is an earlier table
      exfalso
      subst hi
      rcases hsch.ord T f.index _ hfkof hm with hlt | ⟨_, hnil⟩
      · have hs3 : SOk sch rest' := by rw [hrest] at hs2; exact hs2.2
        have hv' : UTask.fin T c d ∈ rest' := by
          rw [hrest] at hv
          rcases List.mem_cons.mp hv with h | h
          · cases h
          · exact h
        have := owner_le hs3 hown T c d hv'
        simp only at hlt
        omega
      · exact hfk hnil
    · have := created_other hsch hs2 hcr hrest hi (Or.inr hfk)
      rw [colsOf_eq hix] at this
      exact this.symm

/-- two different pending changes in one table never both change a key that a cascading foreign
key references -/
theorem two_frames {sch : Schema} (hsch : SchOk sch) {st : List UTask} (hs : SOk sch st)
    {T : Nat} {a b c d : Row} (h1 : UTask.fin T a b ∈ st) (h2 : UTask.fin T c d ∈ st)
    (hne : ¬ (a = c ∧ b = d))
    {ix : Index} {i : Nat} (hix : (idxsOf sch T)[i]? = some ix) (hfk : fkToHere sch T i ≠ [])
    (hc1 : proj ix.cols a ≠ proj ix.cols b) (hc2 : proj ix.cols c ≠ proj ix.cols d) : False := by
  have hne' : UTask.fin T a b ≠ UTask.fin T c d := by
    intro h; injection h with _ h3 h4; exact hne ⟨h3, h4⟩
  rcases two_mem_split hne' h1 h2 with ⟨pre, rest, rfl, hm⟩ | ⟨pre, rest, rfl, hm⟩
  · exact hc1 (upper_keeps hsch hs hm hix hfk)
  · exact hc2 (upper_keeps hsch hs hm hix hfk)

/-- Lemma A: no pending change gives a row a NEW reference to the old value of a key that a
pending change is about to replace. -/
theorem no_new_ref {sch : Schema} (hsch : SchOk sch) {st : List UTask} (hs : SOk sch st)
    {s : Nat} {r r' : Row} (hx : UTask.fin s r r' ∈ st) {T : Nat} {o n : Row}
    (hy : UTask.fin T o n ∈ st) {j m i : Nat} {ix : Index}
    (hfk : fkOf sch s j = some ⟨T, i, m⟩) (hix : (idxsOf sch T)[i]? = some ix)
    (hchg : proj ix.cols o ≠ proj ix.cols n) (hne : emptyKey (proj ix.cols o) = false)
    (href : proj (colsOf sch s j) r' = proj ix.cols o)
    (hnew : proj (colsOf sch s j) r ≠ proj ix.cols o) : False := by
  obtain ⟨pre, rest, rfl⟩ := List.append_of_mem hx
  have hs1 := SOk_suffix pre hs
  obtain ⟨hfr, hmono, hs2⟩ := hs1
  rcases hfr with ⟨hnil, _, hupd⟩ | hcr
  · -- the update the user asked for
    subst hnil
    rcases hupd j _ hfk with h | h | h
    · rw [h] at href; exact hnew href
    · rw [href, hne] at h; cases h
    · simp only at h
      rcases List.mem_append.mp hy with h1 | h1
      · have := SOk_pre_le pre hs List.mem_cons_self T o n h1
        omega
      · rcases List.mem_cons.mp h1 with h2 | h2
        · injection h2 with h3; omega
        · cases h2
  · obtain ⟨f, T1, o1, trow, ix1, i1, rest', hrest, hft, hown, hix1, hf, hfkof, hm, hp, hchg1, _, hr', _⟩ :=
      created_info hs2 hcr
    by_cases hj : j = f.index
    · subst hj
      rw [hfk] at hfkof
      injection hfkof with hfkof
      injection hfkof with e1 e2 e3
      subst e1 e2
      rw [hix] at hix1
      injection hix1 with hix1
      subst hix1
      have hself := created_self hsch hs2 hcr hrest
      rw [hself] at href
      -- the parent frame `(T, o1 → trow)` and `(T, o → n)`
      have hpar : UTask.fin T o1 trow ∈ pre ++ UTask.fin s r r' :: rest := by
        apply List.mem_append_right
        apply List.mem_cons_of_mem
        rw [hrest]
        exact List.mem_cons_of_mem _ (owner_mem hown)
      by_cases hsame : o1 = o ∧ trow = n
      · obtain ⟨rfl, rfl⟩ := hsame
        exact hchg href.symm
      · exact two_frames hsch hs hpar hy hsame hix (List.ne_nil_of_mem hf) hchg1 hchg
    · have := created_other hsch hs2 hcr hrest hj (Or.inl (by rw [hfk]; rfl))
      rw [this] at href
      exact hnew href

end Gsu.LDb
