/-
Lemmas about `Gsu.Db.step` (the function the drivers execute). Core only.
-/
import Gsu.Proofs.Db
namespace Gsu.Db

theorem setTran_mt (s : State) (t : Tran) : (s.setTran t).mt = s.mt := rfl

theorem tranWrite_mt (s : State) (id tbl : Nat) (f : Info → TDif → Except String TDif) :
    (tranWrite s id tbl f).1.mt = s.mt := by
  unfold tranWrite
  repeat' split
  all_goals rfl

/-! ## commit: all or nothing -/

theorem commit_ok (s : State) (id : Nat) (h : (step s (.commit id)).2 = "ok") :
    ∃ t, s.tran? id = some t ∧ t.ended = false ∧ indepAll t.dif t.snap s.mt = true ∧
      (step s (.commit id)).1.mt = layeredOnto t.dif s.mt := by
  simp only [step] at h ⊢
  cases ht : s.tran? id with
  | none => rw [ht] at h; exact absurd (show "!notran" = "ok" from h) (by decide)
  | some t =>
    simp only [ht] at h ⊢
    split at h
    · exact absurd (show "!aborted" = "ok" from h) (by decide)
    · split at h
      · exact absurd (show "!excl" = "ok" from h) (by decide)
      · split at h
        · exact absurd (show "!dependent" = "ok" from h) (by decide)
        · next h1 h2 h3 =>
          refine ⟨t, rfl, by simpa using h1, by simpa using h3, ?_⟩
          rw [if_neg h1, if_neg h2, if_neg h3]

theorem commit_fail (s : State) (id : Nat) (h : (step s (.commit id)).2 ≠ "ok") :
    (step s (.commit id)).1.mt = s.mt := by
  simp only [step] at h ⊢
  cases ht : s.tran? id with
  | none => rfl
  | some t =>
    simp only [ht] at h ⊢
    split
    · rfl
    · split
      · rfl
      · split
        · rfl
        · next h1 h2 h3 =>
          rw [if_neg h1, if_neg h2, if_neg h3] at h
          exact absurd rfl h

theorem abort_mt (s : State) (id : Nat) : (step s (.abort id)).1.mt = s.mt := by
  simp only [step]
  cases s.tran? id <;> rfl

theorem layeredOnto_get (ds : List TDif) (mt : Meta) (j : Nat) :
    (layeredOnto ds mt)[j]? = match mt[j]?, ds[j]? with
      | some ti, some d => some (if d.touched then lay d ti else ti)
      | some ti, none => some ti
      | none, _ => none := by
  induction ds generalizing mt j with
  | nil =>
    simp only [layeredOnto, List.getElem?_nil]
    cases mt[j]? <;> rfl
  | cons d ds ih =>
    cases mt with
    | nil => simp [layeredOnto]
    | cons ti tis =>
      cases j with
      | zero => simp [layeredOnto]
      | succ j => simp only [layeredOnto, List.getElem?_cons_succ, ih]

/-! ## a transaction's snapshot and buffers are its own -/

def Op.tranId : Op → Option Nat
  | .begin_ id | .out id _ _ | .del id _ _ | .upd id _ _ _ | .abort id | .commit id => some id
  | _ => none

/-- the transaction `id` of `s'` is the transaction `id` of `s`, up to the `ended` flag -/
def SameTran (s s' : State) (id : Nat) : Prop :=
  ∀ t, s.tran? id = some t → ∃ t', s'.tran? id = some t' ∧ t'.snap = t.snap ∧ t'.dif = t.dif

theorem SameTran.refl (s : State) (id : Nat) : SameTran s s id := fun t h => ⟨t, h, rfl, rfl⟩

theorem find_map_same (l : List Tran) (f : Tran → Tran) (id : Nat)
    (hid : ∀ x, (f x).id = x.id) (hs : ∀ x, x.id = id → (f x).snap = x.snap ∧ (f x).dif = x.dif)
    (t : Tran) (h : l.find? (·.id == id) = some t) :
    ∃ t', (l.map f).find? (·.id == id) = some t' ∧ t'.snap = t.snap ∧ t'.dif = t.dif := by
  rw [List.find?_map]
  have : ((fun x : Tran => x.id == id) ∘ f) = (fun x : Tran => x.id == id) := by
    funext x; simp [hid]
  rw [this, h]
  have hti : t.id = id := by simpa using List.find?_some h
  exact ⟨f t, rfl, (hs t hti).1, (hs t hti).2⟩

theorem sameTran_setTran (s : State) (t2 : Tran) (id : Nat) (hne : t2.id ≠ id) :
    SameTran s (s.setTran t2) id := by
  intro t h
  apply find_map_same s.trans _ id _ _ t h
  · intro x; by_cases hx : (x.id == t2.id) = true
    · simp [hx]; exact (by simpa using hx : x.id = t2.id).symm
    · simp [hx]
  · intro x hx
    have : (x.id == t2.id) = false := by
      simp only [beq_eq_false_iff_ne, ne_eq, hx]; exact fun e => hne e.symm
    simp [this]

theorem sameTran_of_trans_eq (s s' : State) (id : Nat) (h : s'.trans = s.trans) : SameTran s s' id := by
  intro t ht
  exact ⟨t, by simpa [State.tran?, h] using ht, rfl, rfl⟩

theorem tranWrite_same (s : State) (id2 tbl : Nat) (f : Info → TDif → Except String TDif) (id : Nat)
    (hne : id2 ≠ id) : SameTran s (tranWrite s id2 tbl f).1 id := by
  unfold tranWrite
  cases ht : s.tran? id2 with
  | none => exact SameTran.refl s id
  | some t2 =>
    have hid : t2.id = id2 := by simpa using List.find?_some ht
    have hne' : t2.id ≠ id := hid ▸ hne
    simp only
    repeat' split
    all_goals first
      | exact SameTran.refl s id
      | exact sameTran_setTran s _ id hne'

/-- no step of another transaction, and no commit, merge, persist or index build, changes what
transaction `id` holds -/
theorem step_sameTran (s : State) (op : Op) (id : Nat) (h : op.tranId ≠ some id) :
    SameTran s (step s op).1 id := by
  cases op with
  | table n => exact sameTran_of_trans_eq _ _ _ rfl
  | begin_ id2 =>
    intro t ht
    refine ⟨t, ?_, rfl, rfl⟩
    simp only [step, State.tran?, List.find?_append]
    simp only [State.tran?] at ht
    rw [ht]; rfl
  | out id2 tbl row => exact tranWrite_same s id2 tbl _ id (by simpa [Op.tranId] using h)
  | del id2 tbl off => exact tranWrite_same s id2 tbl _ id (by simpa [Op.tranId] using h)
  | upd id2 tbl off row => exact tranWrite_same s id2 tbl _ id (by simpa [Op.tranId] using h)
  | abort id2 =>
    have hne : id2 ≠ id := by simpa [Op.tranId] using h
    simp only [step]
    cases ht : s.tran? id2 with
    | none => exact SameTran.refl s id
    | some t2 =>
      have hid : t2.id = id2 := by simpa using List.find?_some ht
      exact sameTran_setTran s _ id (hid ▸ hne)
  | commit id2 =>
    have hne : id2 ≠ id := by simpa [Op.tranId] using h
    simp only [step]
    cases ht : s.tran? id2 with
    | none => exact SameTran.refl s id
    | some t2 =>
      have hid : t2.id = id2 := by simpa using List.find?_some ht
      have hne' : t2.id ≠ id := hid ▸ hne
      simp only
      repeat' split
      all_goals first
        | exact SameTran.refl s id
        | exact sameTran_setTran s _ id hne'
        | (intro t ht'
           obtain ⟨t', h1, h2, h3⟩ := sameTran_setTran s { t2 with ended := true } id hne' t ht'
           exact ⟨t', h1, h2, h3⟩)
  | mergeC tbl n =>
    simp only [step]
    repeat' split
    all_goals exact sameTran_of_trans_eq _ _ _ rfl
  | mergeA =>
    simp only [step]
    repeat' split
    all_goals exact sameTran_of_trans_eq _ _ _ rfl
  | persistC =>
    simp only [step]
    repeat' split
    all_goals exact sameTran_of_trans_eq _ _ _ rfl
  | persistA =>
    simp only [step]
    repeat' split
    all_goals exact sameTran_of_trans_eq _ _ _ rfl
  | buildC tbl nk =>
    simp only [step]
    split
    · intro t ht
      apply find_map_same s.trans _ id _ _ t ht
      · intro x; split <;> rfl
      · intro x _; split <;> exact ⟨rfl, rfl⟩
    · exact SameTran.refl s id
  | buildA =>
    simp only [step]
    repeat' split
    all_goals exact sameTran_of_trans_eq _ _ _ rfl

theorem run_sameTran (s : State) (ops : List Op) (id : Nat) (h : ∀ op ∈ ops, op.tranId ≠ some id) :
    SameTran s (run s ops) id := by
  induction ops generalizing s with
  | nil => exact SameTran.refl s id
  | cons op ops ih =>
    intro t ht
    obtain ⟨t1, h1, hs1, hd1⟩ := step_sameTran s op id (h op (by simp)) t ht
    obtain ⟨t2, h2, hs2, hd2⟩ := ih (step s op).1 (fun o ho => h o (by simp [ho])) t1 h1
    exact ⟨t2, h2, hs2.trans hs1, hd2.trans hd1⟩

end Gsu.Db
