/-
Soundness of the `created` protocol of db19/meta (Gsu.Model.MetaProto): the delete-without-tombstone
branch of Drop is only taken for keys that are on no linked chunk, so the chain invariant — and with
it read-back = live entries — holds for every history of meta operations. Core only.
-/
import Gsu.Model.MetaProto
import Gsu.Proofs.ChainRead
namespace Gsu.Hamt

/-- chain invariant + soundness of `created`: an entry whose `created` equals the (non-zero) clock
is on no linked chunk, so deleting it without tombstone is safe -/
structure MInv {M : Type} (ops : MapOps M) (ok : M → Prop) (s : MState M) : Prop where
  ch : ChInv ops ok s.c
  clockNN : 0 ≤ s.c.clock
  crLe : ∀ k, s.created k ≤ s.c.clock
  crNew : ∀ k, s.created k ≠ 0 → s.created k = s.c.clock → lookupD s.c.chunks k = none

section
variable {M : Type} {ops : MapOps M} {ok : M → Prop}

theorem mInit_inv (L : MapLaws ops ok) :
    MInv ops ok { c := { ht := ops.empty, chunks := [], clock := 0 }, created := fun _ => 0 } :=
  ⟨empty_inv L, Int.le_refl _, fun _ => Int.le_refl _, fun _ _ _ => rfl⟩

theorem mPutNew_inv (L : MapLaws ops ok) {s : MState M} (h : MInv ops ok s) (k v : Nat) :
    MInv ops ok (mPutNew ops s k v) := by
  have h0 := h.clockNN
  refine ⟨put_inv L h.ch ⟨k, v, false, s.c.clock⟩ rfl, h0, ?_, ?_⟩
  · intro j
    simp only [mPutNew, setCr]
    by_cases hj : j = k
    · rw [if_pos hj]; split
      · exact Int.le_refl _
      · exact h0
    · rw [if_neg hj]; exact h.crLe j
  · intro j hne heq
    simp only [mPutNew, setCr] at hne heq ⊢
    by_cases hj : j = k
    · rw [if_pos hj] at hne
      cases hg : ops.get s.c.ht k with
      | none => rw [hj]; exact h.ch.absent k hg
      | some x => simp [hg] at hne
    · rw [if_neg hj] at hne heq; exact h.crNew j hne heq

theorem mAlter_inv (L : MapLaws ops ok) {s : MState M} (h : MInv ops ok s) (k v : Nat) :
    MInv ops ok (mAlter ops s k v) :=
  ⟨put_inv L h.ch ⟨k, v, false, s.c.clock⟩ rfl, h.clockNN, h.crLe, h.crNew⟩

theorem mRename_inv (L : MapLaws ops ok) {s : MState M} (h : MInv ops ok s) (frm to v : Nat) :
    MInv ops ok (mRename ops s frm to v) := by
  have h0 := h.clockNN
  have h1 := put_inv L h.ch ⟨frm, 0, true, s.c.clock⟩ rfl
  have h2 := put_inv L h1 ⟨to, v, false, s.c.clock⟩ rfl
  refine ⟨h2, h0, ?_, ?_⟩
  · intro j
    simp only [mRename, setCr]
    by_cases hj : j = to
    · rw [if_pos hj]; split
      · exact h0
      · exact h.crLe frm
    · rw [if_neg hj]
      by_cases hj2 : j = frm
      · rw [if_pos hj2]; exact h0
      · rw [if_neg hj2]; exact h.crLe j
  · intro j hne heq
    simp only [mRename, setCr] at hne heq ⊢
    by_cases hj : j = to
    · rw [if_pos hj] at hne
      cases hg : ops.get s.c.ht to with
      | none => rw [hj]; exact h.ch.absent to hg
      | some x => simp [hg] at hne
    · rw [if_neg hj] at hne heq
      by_cases hj2 : j = frm
      · rw [if_pos hj2] at hne; exact absurd rfl hne
      · rw [if_neg hj2] at hne heq; exact h.crNew j hne heq

theorem mDrop_inv (L : MapLaws ops ok) {s : MState M} (h : MInv ops ok s) (k : Nat) :
    MInv ops ok (mDrop ops s k) := by
  have h0 := h.clockNN
  have hcr : ∀ j, setCr s.created k 0 j ≤ s.c.clock := by
    intro j; simp only [setCr]; split
    · exact h0
    · exact h.crLe j
  have hnew : ∀ j, setCr s.created k 0 j ≠ 0 → setCr s.created k 0 j = s.c.clock →
      lookupD s.c.chunks j = none := by
    intro j hne heq
    simp only [setCr] at hne heq
    by_cases hj : j = k
    · rw [if_pos hj] at hne; exact absurd rfl hne
    · rw [if_neg hj] at hne heq; exact h.crNew j hne heq
  unfold mDrop
  split
  · rename_i hc
    exact ⟨del_inv L h.ch k (h.crNew k hc.1 hc.2), h0, hcr, hnew⟩
  · exact ⟨put_inv L h.ch ⟨k, 0, true, s.c.clock⟩ rfl, h0, hcr, hnew⟩

theorem mWrite_inv (L : MapLaws ops ok) {s : MState M} (h : MInv ops ok s) (merge id : Nat)
    (hm : merge ≤ s.c.chunks.length) : MInv ops ok (mWrite ops s merge id) := by
  have h0 := h.clockNN
  have hinv := write_inv L h.ch merge id hm
  simp only [mWrite]
  rcases write_cases (ops := ops) s.c merge id with ⟨_, _, hr⟩ | ⟨_, _, hr⟩ | ⟨_, hr⟩
  · refine ⟨hinv, ?_, ?_, ?_⟩ <;> rw [hr] <;> simp only
    · omega
    · intro k; have := h.crLe k; omega
    · intro k _ _; rfl
  · refine ⟨hinv, ?_, ?_, ?_⟩ <;> rw [hr]
    · exact h0
    · exact h.crLe
    · exact h.crNew
  · refine ⟨hinv, ?_, ?_, ?_⟩ <;> rw [hr] <;> simp only
    · omega
    · intro k; have := h.crLe k; omega
    · intro k _ heq; have := h.crLe k; omega

/-- a session opened from the chain on disk: `created` is 0 for every entry read back -/
theorem mReopen_inv (L : MapLaws ops ok) (chunks : List Chunk) (rc : Chain M)
    (hread : readChain ops chunks = some rc) :
    MInv ops ok { c := rc, created := fun _ => 0 } := by
  have hclock : rc.clock = 0 := by
    cases chunks with
    | nil => simp only [readChain, Option.some.injEq] at hread; subst hread; rfl
    | cons n r =>
      simp only [readChain] at hread
      split at hread
      · cases hread
      · simp only [Option.some.injEq] at hread; subst hread; rfl
  refine ⟨read_inv L chunks rc hread, ?_, ?_, ?_⟩
  · simp only; omega
  · intro _; simp only; omega
  · intro _ hne; exact absurd rfl hne

/-- read-back = live entries after a write, from the invariant alone -/
theorem roundtrip_of_inv (L : MapLaws ops ok) {c : Chain M} (h : ChInv ops ok c) (merge id : Nat)
    (hm : merge ≤ c.chunks.length) (rc : Chain M)
    (hread : readChain ops (writeChainWith ops c merge id).2.chunks = some rc) :
    ∀ k, live (ops.get rc.ht k) = live (ops.get c.ht k) := by
  intro k
  have hag := write_agree L h merge id hm k
  have hht : (writeChainWith ops c merge id).2.ht = c.ht := by
    rcases write_cases (ops := ops) c merge id with ⟨_, _, h⟩ | ⟨_, _, h⟩ | ⟨_, h⟩ <;> rw [h]
  rw [(read_lookup L _ rc hread).2 k, hag, hht]

end
end Gsu.Hamt
