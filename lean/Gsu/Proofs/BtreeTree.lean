/-
C10 — proofs about the abstract B+-tree (`Model/BtreeTree.lean`): the ordering invariant
(`BT.Bounded`: separators bound the children), lookup by descent = lookup in the content,
and the bulk build (`bulkBuild`) establishes the invariant, keeps the content and respects the
count and size limits. Core-only.
-/
import Gsu.Model.BtreeTree
import Gsu.Proofs.Btree
namespace Gsu.Btree

/-! ### key order -/

theorem klt_trans {a b c : Key} (h1 : a < b) (h2 : b < c) : a < c := by grind
theorem klt_of_lt_of_le {a b c : Key} (h1 : a < b) (h2 : b ≤ c) : a < c := by grind
theorem klt_of_le_of_lt {a b c : Key} (h1 : a ≤ b) (h2 : b < c) : a < c := by grind
theorem kle_trans {a b c : Key} (h1 : a ≤ b) (h2 : b ≤ c) : a ≤ c := by grind
theorem klt_irrefl (a : Key) : ¬ a < a := by grind
theorem kle_of_lt {a b : Key} (h : a < b) : a ≤ b := by grind
theorem kle_refl (a : Key) : a ≤ a := by grind
theorem knot_lt {a b : Key} : ¬ a < b ↔ b ≤ a := by grind

theorem take_kle (n : Nat) (l : Key) : l.take n ≤ l := by
  induction l generalizing n with
  | nil => simp
  | cons a as ih =>
    cases n with
    | zero => simp
    | succ n =>
      simp only [List.take_succ_cons]
      have := ih n
      simp only [List.le_iff_lt_or_eq] at *
      rcases this with h | h
      · left; simpa using h
      · right; rw [h]

/-- `Builder.sep`: the separator is above the previous key and not above the next one -/
theorem sepKey_spec {prev key : Key} (h : prev < key) :
    prev < sepKey prev key ∧ sepKey prev key ≤ key := by
  refine ⟨?_, take_kle _ _⟩
  unfold sepKey
  induction prev generalizing key with
  | nil =>
    cases key with
    | nil => simp at h
    | cons b bs => simp [commonPrefix]
  | cons a as ih =>
    cases key with
    | nil => simp at h
    | cons b bs =>
      simp only [commonPrefix]
      by_cases hab : a = b
      · subst hab
        simp only [if_true, List.length_cons, List.take_succ_cons]
        have h' : as < bs := by simpa using h
        have := ih h'
        simpa using this
      · simp only [hab, if_false, List.length_nil, Nat.zero_add, List.take_succ_cons, List.take_zero]
        rw [List.cons_lt_cons_iff] at h ⊢
        rcases h with h | ⟨h, _⟩
        · left; exact h
        · exact absurd h hab

theorem sepKey_length_le (prev key : Key) : (sepKey prev key).length ≤ key.length := by
  simp [sepKey, List.length_take]; omega

/-! ### bounds -/

def LoLe : Option Key → Key → Prop
  | none, _ => True
  | some l, k => l ≤ k

def LtHi : Key → Option Key → Prop
  | _, none => True
  | k, some u => k < u

def LoLt : Option Key → Key → Prop
  | none, _ => True
  | some l, s => l < s

/-- every key of the list is in `[lo, hi)` -/
def Range (lo hi : Option Key) (l : List KV) : Prop := ∀ e ∈ l, LoLe lo e.1 ∧ LtHi e.1 hi

/-- the stored prefix is a real common prefix of the keys, at most 255 bytes (none without keys) -/
def Leaf.PreOK (l : Leaf) : Prop :=
  l.pre ≤ 255 ∧ (l.es = [] → l.pre = 0) ∧ ∃ p : Key, p.length = l.pre ∧ ∀ e ∈ l.es, p <+: e.1

/-- the stored prefix has the recorded length (a leaf without keys has no prefix) -/
theorem storedPrefix (l : Leaf) (hpre : l.PreOK) (hne : l.es ≠ []) :
    ((headKey l.es).take l.pre).length = l.pre ∧ ∀ e ∈ l.es, (headKey l.es).take l.pre <+: e.1 := by
  obtain ⟨_, _, p, hp, hall⟩ := hpre
  cases hes : l.es with
  | nil => exact absurd hes hne
  | cons x r =>
    obtain ⟨t, ht⟩ := hall x (by rw [hes]; exact List.mem_cons_self)
    have : (headKey (x :: r)).take l.pre = p := by
      simp only [headKey]; rw [← ht, ← hp]; simp
    rw [this]
    refine ⟨hp, ?_⟩
    intro e he
    exact hall e (by rw [hes]; exact he)

/-- a leaf is ordered, within its bounds, and its stored prefix is genuine -/
def LeafB (lo hi : Option Key) (l : Leaf) : Prop := Sorted l.es ∧ Range lo hi l.es ∧ l.PreOK

/-- a row of children with the separators between them, within `[lo, hi)`: the child left of
separator `s` is below `s`, what follows is at or above it, separators increase strictly -/
def RowB {α} (P : Option Key → Option Key → α → Prop) :
    Option Key → Option Key → List (α × Key) → α → Prop
  | lo, hi, [], last => P lo hi last
  | lo, hi, (c, s) :: r, last => P lo (some s) c ∧ LoLt lo s ∧ LtHi s hi ∧ RowB P (some s) hi r last

/-- the ordering invariant of a subtree whose keys must lie in `[lo, hi)` -/
def BT.Bounded : (h : Nat) → Option Key → Option Key → BT h → Prop
  | 0, lo, hi, l => LeafB lo hi l
  | h + 1, lo, hi, t => RowB (BT.Bounded h) lo hi t.1 t.2

theorem LoLe_of_LoLt {lo : Option Key} {s k : Key} (h1 : LoLt lo s) (h2 : s ≤ k) : LoLe lo k := by
  cases lo with
  | none => trivial
  | some l => exact kle_of_lt (klt_of_lt_of_le h1 h2)

theorem LtHi_trans {k s : Key} {hi : Option Key} (h1 : k < s) (h2 : LtHi s hi) : LtHi k hi := by
  cases hi with
  | none => trivial
  | some u => exact klt_trans h1 h2

theorem LoLt_trans {lo : Option Key} {s s' : Key} (h1 : LoLt lo s) (h2 : s < s') : LoLt lo s' := by
  cases lo with
  | none => trivial
  | some l => exact klt_trans h1 h2

theorem Range_append {lo hi : Option Key} {a b : List KV} :
    Range lo hi (a ++ b) ↔ Range lo hi a ∧ Range lo hi b := by
  simp only [Range, List.mem_append]
  constructor
  · intro h; exact ⟨fun e he => h e (Or.inl he), fun e he => h e (Or.inr he)⟩
  · rintro ⟨h1, h2⟩ e (he | he)
    · exact h1 e he
    · exact h2 e he

theorem Range_widen_hi {lo : Option Key} {s : Key} {hi : Option Key} {l : List KV}
    (h : Range lo (some s) l) (hs : LtHi s hi) : Range lo hi l :=
  fun e he => ⟨(h e he).1, LtHi_trans (h e he).2 hs⟩

theorem Range_widen_lo {lo : Option Key} {s : Key} {hi : Option Key} {l : List KV}
    (h : Range (some s) hi l) (hs : LoLt lo s) : Range lo hi l :=
  fun e he => ⟨LoLe_of_LoLt hs (h e he).1, (h e he).2⟩

/-! ### lookup in appended contents -/

theorem lookup_append (a b : List KV) (k : Key) :
    lookup (a ++ b) k = (lookup a k).or (lookup b k) := by
  induction a with
  | nil => simp [lookup]
  | cons x xs ih =>
    obtain ⟨k', o'⟩ := x
    simp only [List.cons_append, lookup]
    by_cases h : k' = k
    · simp [h]
    · simp [h, ih]

theorem lookup_none_of_range_hi {lo : Option Key} {s k : Key} {l : List KV}
    (h : Range lo (some s) l) (hk : s ≤ k) : lookup l k = none := by
  induction l with
  | nil => rfl
  | cons x xs ih =>
    obtain ⟨k', o'⟩ := x
    have h1 : k' < s := (h (k', o') List.mem_cons_self).2
    have hne : ¬ k' = k := by
      intro e; subst e; exact klt_irrefl _ (klt_of_lt_of_le h1 hk)
    simp only [lookup, hne, if_false]
    exact ih (fun e he => h e (List.mem_cons_of_mem _ he))

theorem lookup_none_of_range_lo {hi : Option Key} {s k : Key} {l : List KV}
    (h : Range (some s) hi l) (hk : k < s) : lookup l k = none := by
  induction l with
  | nil => rfl
  | cons x xs ih =>
    obtain ⟨k', o'⟩ := x
    have h1 : s ≤ k' := (h (k', o') List.mem_cons_self).1
    have hne : ¬ k' = k := by
      intro e; subst e; exact klt_irrefl _ (klt_of_lt_of_le hk h1)
    simp only [lookup, hne, if_false]
    exact ih (fun e he => h e (List.mem_cons_of_mem _ he))

/-! ### rows -/

/-- content of a row -/
def rowList {α} (tl : α → List KV) (kids : List (α × Key)) (last : α) : List KV :=
  (kids.flatMap fun p => tl p.1) ++ tl last

theorem rowList_cons {α} (tl : α → List KV) (c : α) (s : Key) (r : List (α × Key)) (last : α) :
    rowList tl ((c, s) :: r) last = tl c ++ rowList tl r last := by
  simp [rowList]

theorem RowB_range {α} {P : Option Key → Option Key → α → Prop} {tl : α → List KV}
    (hP : ∀ lo hi c, P lo hi c → Range lo hi (tl c)) :
    ∀ (kids : List (α × Key)) (last : α) (lo hi : Option Key),
      RowB P lo hi kids last → Range lo hi (rowList tl kids last) := by
  intro kids
  induction kids with
  | nil => intro last lo hi h; simpa [rowList] using hP lo hi last h
  | cons x r ih =>
    obtain ⟨c, s⟩ := x
    intro last lo hi h
    obtain ⟨h1, h2, h3, h4⟩ := h
    rw [rowList_cons, Range_append]
    exact ⟨Range_widen_hi (hP _ _ _ h1) h3, Range_widen_lo (ih last _ _ h4) h2⟩

theorem RowB_lookup {α} {P : Option Key → Option Key → α → Prop} {tl : α → List KV}
    {lk : α → Key → Option Nat}
    (hP : ∀ lo hi c, P lo hi c → Range lo hi (tl c))
    (hL : ∀ lo hi c k, P lo hi c → lk c k = lookup (tl c) k) (k : Key) :
    ∀ (kids : List (α × Key)) (last : α) (lo hi : Option Key),
      RowB P lo hi kids last → lk (pick kids last k) k = lookup (rowList tl kids last) k := by
  intro kids
  induction kids with
  | nil => intro last lo hi h; simpa [rowList, pick] using hL lo hi last k h
  | cons x r ih =>
    obtain ⟨c, s⟩ := x
    intro last lo hi h
    obtain ⟨h1, h2, h3, h4⟩ := h
    rw [rowList_cons, lookup_append]
    simp only [pick]
    by_cases hk : k < s
    · simp only [hk, if_true]
      rw [lookup_none_of_range_lo (RowB_range hP r last _ _ h4) hk, hL _ _ c k h1]
      simp
    · simp only [hk, if_false]
      rw [lookup_none_of_range_hi (hP _ _ _ h1) (knot_lt.mp hk), ih last _ _ h4]
      simp

theorem BT_toList_succ (h : Nat) (t : BT (h + 1)) :
    BT.toList (h + 1) t = rowList (BT.toList h) t.1 t.2 := rfl

theorem BT_Bounded_range : ∀ (h : Nat) (lo hi : Option Key) (t : BT h),
    BT.Bounded h lo hi t → Range lo hi (BT.toList h t) := by
  intro h
  induction h with
  | zero => intro lo hi t ht; exact ht.2.1
  | succ h ih =>
    intro lo hi t ht
    rw [BT_toList_succ]
    exact RowB_range (tl := BT.toList h) (fun lo hi c => ih lo hi c) t.1 t.2 lo hi ht

/-- `Lookup` by descent finds exactly what the content holds (any key, any bounded subtree) -/
theorem BT_lookup_bounded : ∀ (h : Nat) (lo hi : Option Key) (t : BT h) (k : Key),
    BT.Bounded h lo hi t → BT.lookup h t k = lookup (BT.toList h t) k := by
  intro h
  induction h with
  | zero => intro lo hi t k _; rfl
  | succ h ih =>
    intro lo hi t k ht
    rw [BT_toList_succ]
    show BT.lookup h (pick t.1 t.2 k) k = _
    exact RowB_lookup (tl := BT.toList h) (lk := BT.lookup h)
      (fun lo hi c => BT_Bounded_range h lo hi c) (fun lo hi c k => ih lo hi c k) k t.1 t.2 lo hi ht

/-- splitting a bounded row at a separator -/
theorem RowB_split {α} {P : Option Key → Option Key → α → Prop} :
    ∀ (r1 : List (α × Key)) (c : α) (s : Key) (rest : List (α × Key)) (last : α)
      (lo hi : Option Key),
      RowB P lo hi (r1 ++ (c, s) :: rest) last →
        RowB P lo (some s) r1 c ∧ LoLt lo s ∧ LtHi s hi ∧ RowB P (some s) hi rest last := by
  intro r1
  induction r1 with
  | nil => intro c s rest last lo hi h; exact h
  | cons x r1 ih =>
    obtain ⟨c0, s0⟩ := x
    intro c s rest last lo hi h
    obtain ⟨h1, h2, h3, h4⟩ := h
    obtain ⟨a, b, c', d⟩ := ih c s rest last _ _ h4
    exact ⟨⟨h1, h2, b, a⟩, LoLt_trans h2 b, c', d⟩

/-! ### count / size limits -/

/-- a stored non-root leaf: not empty, at most `split` keys, fits a node -/
def LeafOK (split : Nat) (l : Leaf) : Prop :=
  1 ≤ l.es.length ∧ l.es.length ≤ split ∧ l.size ≤ maxNodeSizeM ∧ l.PreOK

/-- a stored tree node: at most `split` offsets, fits a node -/
def NodeOK (split : Nat) {α} (kids : List (α × Key)) : Prop :=
  kids.length + 1 ≤ split ∧ nodeSize kids ≤ maxNodeSizeM

def BT.Limits (split : Nat) : (h : Nat) → BT h → Prop
  | 0, l => LeafOK split l
  | h + 1, t => NodeOK split t.1 ∧ (∀ p ∈ t.1, BT.Limits split h p.1) ∧ BT.Limits split h t.2

/-- the root: a root leaf may be empty, a root tree node has at least two children -/
def BT.RootLimits (split : Nat) : (h : Nat) → BT h → Prop
  | 0, l => l.es.length ≤ split ∧ l.size ≤ maxNodeSizeM ∧ l.PreOK
  | h + 1, t => 1 ≤ t.1.length ∧ BT.Limits split (h + 1) t

end Gsu.Btree
