/-
no_shared_mutation for the heap model Gsu/Model/Share.lean. Core only.

`Frame b h h'`: the heap grew and every cell below address `b` is unchanged.  With `b` = the heap
size when a schema operation starts this is "the operation wrote only into cells it allocated
itself", hence nothing reachable from any earlier state changed.
-/
import Gsu.Model.Share
namespace Gsu.Share

def Frame (b : Nat) (h h' : Heap) : Prop :=
  h.length ≤ h'.length ∧ ∀ a, a < b → h'[a]? = h[a]?

theorem frame_refl (b : Nat) (h : Heap) : Frame b h h := ⟨Nat.le_refl _, fun _ _ => rfl⟩

theorem frame_trans {b : Nat} {h h' h'' : Heap} (h1 : Frame b h h') (h2 : Frame b h' h'') :
    Frame b h h'' :=
  ⟨Nat.le_trans h1.1 h2.1, fun a ha => (h2.2 a ha).trans (h1.2 a ha)⟩

theorem frame_append {b : Nat} (h : Heap) (c : Cell) (hb : b ≤ h.length) : Frame b h (h ++ [c]) := by
  refine ⟨by simp, fun a ha => ?_⟩
  rw [List.getElem?_append_left (by omega)]

theorem frame_set {b : Nat} (h : Heap) (a : Nat) (c : Cell) (hb : b ≤ a) : Frame b h (h.set a c) := by
  refine ⟨by simp, fun x hx => ?_⟩
  rw [List.getElem?_set_ne (by omega)]

theorem frame_clone {b : Nat} (h : Heap) (a : Nat) (hb : b ≤ h.length) :
    Frame b h (clone h a).1 ∧ (clone h a).2 = h.length :=
  ⟨frame_append h _ hb, rfl⟩

/-! ## what an older state observes is unchanged -/

/-- the schema value `ts` of an older state lives entirely below `b` -/
def Closed (b : Nat) (h : Heap) (ts : Schema) : Prop :=
  ts.indexes < b ∧ ∀ ix ∈ rdIdxs h ts.indexes, ix.fkToHere < b

theorem obs_frame {b : Nat} {h h' : Heap} (ts : Schema) (hf : Frame b h h') (hc : Closed b h ts) :
    obs h' ts = obs h ts := by
  have e1 : rdIdxs h' ts.indexes = rdIdxs h ts.indexes := by
    simp only [rdIdxs, hf.2 _ hc.1]
  simp only [obs, e1]
  apply List.map_congr_left
  intro ix hix
  have : rdFks h' ix.fkToHere = rdFks h ix.fkToHere := by
    simp only [rdFks, hf.2 _ (hc.2 ix hix)]
  rw [this]

/-! ## AlterRename -/

theorem renameLoop_frame {b : Nat} (frm to ia : Nat) (hia : b ≤ ia) (n i : Nat) (h : Heap) :
    Frame b h (renameLoop frm to ia i n h) := by
  induction n generalizing i h with
  | zero => exact frame_refl b h
  | succ n ih =>
    unfold renameLoop
    split
    · split
      · exact frame_trans (frame_set h ia _ hia) (ih _ _)
      · exact frame_refl b h
    · exact frame_refl b h

/-- AlterRename with the clone writes only into the clone -/
theorem alterRename_frame (h : Heap) (ts : Schema) (frm to : Nat) :
    Frame h.length h (alterRename true h ts frm to).1 := by
  simp only [alterRename, if_true, clone, alloc]
  exact frame_trans (frame_append h _ (Nat.le_refl _)) (renameLoop_frame frm to h.length (Nat.le_refl _) _ _ _)

/-! ## updateOtherFkToHere -/

theorem cloneStep_frame {b : Nat} (h : Heap) (ia : Nat) (l : List Index) (i : Nat) (ix : Index)
    (hb : b ≤ h.length) (hia : b ≤ ia) :
    Frame b h (cloneStep true h ia l i ix).1 ∧ b ≤ (cloneStep true h ia l i ix).2 := by
  simp only [cloneStep, if_true, clone, alloc]
  exact ⟨frame_trans (frame_append h _ hb) (frame_set _ ia _ hia), hb⟩

theorem writeStep_frame {b : Nat} (h : Heap) (fa j table : Nat) (cols fkCols : List Nat) (iindex : Nat)
    (ix : Index) (hfa : b ≤ fa) : Frame b h (writeStep h fa j table cols fkCols iindex ix) := by
  unfold writeStep
  split
  · split
    · split
      · exact frame_set h fa _ hfa
      · exact frame_refl b h
    · exact frame_refl b h
  · exact frame_refl b h

theorem fkLoop_frame {b : Nat} (table : Nat) (cols fkCols : List Nat) (iindex ia i : Nat) (hia : b ≤ ia)
    (n j : Nat) (h : Heap) (hb : b ≤ h.length) :
    Frame b h (fkLoop true table cols fkCols iindex ia i j n h) := by
  induction n generalizing j h with
  | zero => exact frame_refl b h
  | succ n ih =>
    unfold fkLoop
    split
    · next l _ =>
      split
      · next ix _ =>
        have c := cloneStep_frame (b := b) h ia l i ix hb hia
        have w := writeStep_frame (b := b) (cloneStep true h ia l i ix).1 (cloneStep true h ia l i ix).2 j
          table cols fkCols iindex ix c.2
        have f2 := frame_trans c.1 w
        exact frame_trans f2 (ih _ _ (Nat.le_trans hb f2.1))
      · exact frame_refl b h
    · exact frame_refl b h

theorem idxLoop_frame {b : Nat} (table : Nat) (cols fkCols : List Nat) (iindex ia : Nat) (hia : b ≤ ia)
    (n i : Nat) (h : Heap) (hb : b ≤ h.length) :
    Frame b h (idxLoop true table cols fkCols iindex ia i n h) := by
  induction n generalizing i h with
  | zero => exact frame_refl b h
  | succ n ih =>
    unfold idxLoop
    have f1 := fkLoop_frame (b := b) table cols fkCols iindex ia i hia
      (match (rdIdxs h ia)[i]? with
        | some ix => (rdFks h ix.fkToHere).length
        | none => 0) 0 h hb
    exact frame_trans f1 (ih _ _ (Nat.le_trans hb f1.1))

/-- updateOtherFkToHere (getSchema's clone of Indexes + the per-entry clone of FkToHere) writes
only into cells it allocated -/
theorem updateOtherFkToHere_frame (h : Heap) (target : Schema) (table : Nat) (cols fkCols : List Nat)
    (iindex : Nat) :
    Frame h.length h (updateOtherFkToHere true true h target table cols fkCols iindex).1 := by
  simp only [updateOtherFkToHere, getSchemaMu, if_true, clone, alloc]
  have f0 := frame_append (b := h.length) h (h.getD target.indexes (.fks [])) (Nat.le_refl _)
  exact frame_trans f0 (idxLoop_frame table cols fkCols iindex h.length (Nat.le_refl _) _ _ _ f0.1)

/-! ## hamt pullUp -/

/-- every node of the current (mutable) generation was allocated after `Mutable()` -/
def GenFresh (b gen : Nat) (h : Heap) : Prop :=
  ∀ a g v p, h[a]? = some (.node g v p) → g = gen → b ≤ a

theorem genFresh_append {b gen : Nat} {h : Heap} (c : Cell) (hg : GenFresh b gen h) (hb : b ≤ h.length) :
    GenFresh b gen (h ++ [c]) := by
  intro a g v p ha hgen
  by_cases hlt : a < h.length
  · rw [List.getElem?_append_left hlt] at ha
    exact hg a g v p ha hgen
  · omega

theorem genFresh_set {b gen : Nat} {h : Heap} (a : Nat) (c : Cell) (hg : GenFresh b gen h) (hb : b ≤ a) :
    GenFresh b gen (h.set a c) := by
  intro x g v p hx hgen
  by_cases hxa : x = a
  · omega
  · rw [List.getElem?_set_ne (fun e => hxa e.symm)] at hx
    exact hg x g v p hx hgen

theorem dupStep_facts {b gen : Nat} (h : Heap) (a g : Nat) (vals ptrs : List Nat)
    (hb : b ≤ h.length) (hg : GenFresh b gen h) (ha : h[a]? = some (.node g vals ptrs)) :
    Frame b h (dupStep true gen h a g vals ptrs).1 ∧
    GenFresh b gen (dupStep true gen h a g vals ptrs).1 ∧
    b ≤ (dupStep true gen h a g vals ptrs).2.1 := by
  unfold dupStep
  by_cases hgg : g = gen
  · have : (true && g != gen) = false := by simp [hgg]
    simp only [this]
    exact ⟨frame_refl b h, hg, hg a g vals ptrs ha hgg⟩
  · have : (true && g != gen) = true := by simp [hgg]
    simp only [this, if_true]
    exact ⟨frame_append h _ hb, genFresh_append _ hg hb, hb⟩

/-- pullUp with the path-copy guard writes only nodes of the current generation, all of which
were allocated after `Mutable()`: every cell below `b` is unchanged -/
theorem pullUp_frame {b gen : Nat} (fuel : Nat) (h : Heap) (a : Nat)
    (hb : b ≤ h.length) (hg : GenFresh b gen h) :
    Frame b h (pullUp true gen fuel h a).1 ∧ GenFresh b gen (pullUp true gen fuel h a).1 := by
  induction fuel generalizing h a with
  | zero => exact ⟨frame_refl b h, hg⟩
  | succ fuel ih =>
    unfold pullUp
    split
    · next g vals ptrs ha =>
      have d := dupStep_facts (b := b) (gen := gen) h a g vals ptrs hb hg ha
      have hb1 : b ≤ (dupStep true gen h a g vals ptrs).1.length := Nat.le_trans hb d.1.1
      simp only
      split
      · next cp _ =>
        have r := ih (dupStep true gen h a g vals ptrs).1 cp hb1 d.2.1
        split
        · exact ⟨frame_trans d.1 (frame_trans r.1 (frame_set _ _ _ d.2.2)),
            genFresh_set _ _ r.2 d.2.2⟩
        · exact ⟨frame_trans d.1 (frame_trans r.1 (frame_set _ _ _ d.2.2)),
            genFresh_set _ _ r.2 d.2.2⟩
      · split
        · exact ⟨d.1, d.2.1⟩
        · exact ⟨frame_trans d.1 (frame_set _ _ _ d.2.2), genFresh_set _ _ d.2.1 d.2.2⟩
    · exact ⟨frame_refl b h, hg⟩

theorem flatMap_congr' {α β} (l : List α) (f g : α → List β) (h : ∀ x ∈ l, f x = g x) :
    l.flatMap f = l.flatMap g := by
  induction l with
  | nil => rfl
  | cons x xs ih =>
    simp only [List.flatMap_cons]
    rw [h x (by simp), ih (fun y hy => h y (by simp [hy]))]

/-- the items an older root reaches are unchanged when every cell below `b` is (all nodes of the
older version are below `b`) -/
theorem items_frame {b : Nat} {h h' : Heap} (hf : Frame b h h') (fuel : Nat) (a : Nat)
    (hcl : ∀ (x : Nat) g v p, h[x]? = some (.node g v p) → x < b → ∀ c ∈ p, c < b) (ha : a < b) :
    items fuel h' a = items fuel h a := by
  induction fuel generalizing a with
  | zero => rfl
  | succ fuel ih =>
    unfold items
    rw [hf.2 a ha]
    split
    · next g v p hx =>
      congr 1
      apply flatMap_congr'
      intro c hc
      exact ih c (hcl a g v p hx ha c hc)
    · rfl

end Gsu.Share
