/-
C09 (OverIter), part 4: the fast-path bookkeeping (`fastIdx`, `secondMin`, `secondMax`) computed
by the scans of `minIter`/`maxIter`. Core-only.
-/
import Gsu.Proofs.Iter3
namespace Gsu.Iter

/-! ### what the forward scan records for the fast path -/

/-- after scanning `seen`: every iterator other than the winner is at or above `sec`, and the
winner sits on `km` -/
def MinSec (seen : List Cur) (s : Scan) : Prop :=
  (∀ j c, seen[j]? = some c → s.win ≠ some j → ¬ c.key < s.sec) ∧
  (∀ w, s.win = some w → ∃ c, seen[w]? = some c ∧ c.key = s.km)

theorem minStep_sec (seen : List Cur) (s : Scan) (c : Cur) (h : MinSec seen s) :
    MinSec (seen ++ [c]) (minStep s seen.length c) := by
  obtain ⟨h1, h2⟩ := h
  have hkm := minStep_km s seen.length c
  have hwin : (minStep s seen.length c).win = if c.key < s.km then some seen.length else s.win := by
    unfold minStep; grind
  have hsec : (minStep s seen.length c).sec =
      if c.key < s.km ∨ c.key = s.km then (if s.km < s.sec then s.km else s.sec)
      else (if c.key < s.sec then c.key else s.sec) := by
    unfold minStep; grind
  constructor
  · intro j d hj hw
    rw [hsec]
    rw [hwin] at hw
    by_cases hjl : j < seen.length
    · rw [List.getElem?_append_left hjl] at hj
      by_cases hjw : s.win = some j
      · obtain ⟨d', hd', hk'⟩ := h2 j hjw
        rw [hd'] at hj; cases hj
        grind
      · have := h1 j d hj hjw
        grind
    · have hje : j = seen.length := by
        have := (List.getElem?_eq_some_iff.mp hj).1
        simp at this; omega
      subst hje
      simp at hj; subst hj
      grind
  · intro w hw
    rw [hwin] at hw
    rw [hkm]
    by_cases hc : c.key < s.km
    · simp only [hc, if_true] at hw ⊢
      cases hw
      exact ⟨c, by simp, rfl⟩
    · simp only [hc, if_false] at hw ⊢
      obtain ⟨d, hd, hk⟩ := h2 w hw
      have hwl : w < seen.length := (List.getElem?_eq_some_iff.mp hd).1
      exact ⟨d, by rw [List.getElem?_append_left hwl]; exact hd, hk⟩

theorem scan_sec (cs : List Cur) : ∀ (seen : List Cur) (s : Scan), MinSec seen s →
    MinSec (seen ++ cs) (scanFrom minStep s seen.length cs) := by
  induction cs with
  | nil => intro seen s h; simpa [scanFrom] using h
  | cons c cs ih =>
    intro seen s h
    simp only [scanFrom]
    have := ih (seen ++ [c]) (minStep s seen.length c) (minStep_sec seen s c h)
    simpa using this

theorem minScan_sec (cs : List Cur) : MinSec cs (minScan cs) := by
  have := scan_sec cs [] ⟨maxKey, maxKey, none, none, false⟩ ⟨by simp, by simp⟩
  simpa [minScan] using this

/-- the fast-path data of a forward step -/
def FastN (cs : List Cur) (ck sec : Key) (i : Nat) : Prop :=
  (∃ c, cs[i]? = some c ∧ c.key = ck) ∧ ∀ j c, cs[j]? = some c → j ≠ i → ¬ c.key < sec

theorem minIter_fast (r : Rng) (Ls : List Layer) : ∀ (fuel : Nat) (cs : List Cur),
    let m := minIter r Ls fuel cs
    m.found = true → ∀ i, m.fast = some i → ∃ sec, m.second = some sec ∧ FastN m.curs m.key sec i := by
  intro fuel
  induction fuel with
  | zero => intro cs; simp [minIter]
  | succ fuel ih =>
    intro cs
    simp only [minIter]
    split
    · simp
    · split
      · next off hoff =>
        intro _ i hi
        simp only at hi ⊢
        obtain ⟨h1, h2⟩ := minScan_sec cs
        refine ⟨_, rfl, h2 i hi, ?_⟩
        intro j c hj hji
        exact h1 j c hj (by rw [hi]; simpa using Ne.symm hji)
      · exact ih _

/-! ### the same for the backward scan -/

def MaxSec (seen : List Cur) (s : Scan) : Prop :=
  (∀ j c, seen[j]? = some c → c.st ≠ .eof → s.win ≠ some j → ¬ s.sec < c.key) ∧
  (∀ w, s.win = some w → s.found = true ∧ ∃ c, seen[w]? = some c ∧ c.st ≠ .eof ∧ c.key = s.km)

theorem maxStep_sec (seen : List Cur) (s : Scan) (c : Cur) (h : MaxSec seen s) :
    MaxSec (seen ++ [c]) (maxStep s seen.length c) := by
  obtain ⟨h1, h2⟩ := h
  by_cases hc : c.st = .eof
  · rw [maxStep_eof s _ c hc]
    constructor
    · intro j d hj hd hw
      by_cases hjl : j < seen.length
      · rw [List.getElem?_append_left hjl] at hj
        exact h1 j d hj hd hw
      · have hje : j = seen.length := by
          have := (List.getElem?_eq_some_iff.mp hj).1
          simp at this; omega
        subst hje
        simp at hj; subst hj
        exact absurd hc hd
    · intro w hw
      obtain ⟨hf, d, hd, hk⟩ := h2 w hw
      have hwl : w < seen.length := (List.getElem?_eq_some_iff.mp hd).1
      exact ⟨hf, d, by rw [List.getElem?_append_left hwl]; exact hd, hk⟩
  · have hkm := maxStep_km s seen.length c hc
    have hfd := maxStep_found s seen.length c hc
    have hwin : (maxStep s seen.length c).win =
        if s.found = false ∨ s.km < c.key then some seen.length else s.win := by
      unfold maxStep; simp only [hc, if_false]; grind
    have hsec : (maxStep s seen.length c).sec =
        if s.found = false ∨ s.km < c.key then (if s.found = true ∧ s.sec < s.km then s.km else s.sec)
        else if c.key = s.km then (if s.sec < s.km then s.km else s.sec)
        else (if s.sec < c.key then c.key else s.sec) := by
      unfold maxStep; simp only [hc, if_false]; grind
    constructor
    · intro j d hj hd hw
      rw [hsec]
      rw [hwin] at hw
      by_cases hjl : j < seen.length
      · rw [List.getElem?_append_left hjl] at hj
        by_cases hjw : s.win = some j
        · obtain ⟨hf', d', hd', _, hk'⟩ := h2 j hjw
          rw [hd'] at hj; cases hj
          grind
        · have := h1 j d hj hd hjw
          grind
      · have hje : j = seen.length := by
          have := (List.getElem?_eq_some_iff.mp hj).1
          simp at this; omega
        subst hje
        simp at hj; subst hj
        grind
    · intro w hw
      rw [hwin] at hw
      rw [hkm]
      refine ⟨hfd, ?_⟩
      by_cases hn : s.found = false ∨ s.km < c.key
      · simp only [hn, if_true] at hw ⊢
        cases hw
        exact ⟨c, by simp, hc, rfl⟩
      · simp only [hn, if_false] at hw ⊢
        obtain ⟨_, d, hd, hk⟩ := h2 w hw
        have hwl : w < seen.length := (List.getElem?_eq_some_iff.mp hd).1
        exact ⟨d, by rw [List.getElem?_append_left hwl]; exact hd, hk⟩

theorem scanP_sec (cs : List Cur) : ∀ (seen : List Cur) (s : Scan), MaxSec seen s →
    MaxSec (seen ++ cs) (scanFrom maxStep s seen.length cs) := by
  induction cs with
  | nil => intro seen s h; simpa [scanFrom] using h
  | cons c cs ih =>
    intro seen s h
    simp only [scanFrom]
    have := ih (seen ++ [c]) (maxStep s seen.length c) (maxStep_sec seen s c h)
    simpa using this

theorem maxScan_sec (cs : List Cur) : MaxSec cs (maxScan cs) := by
  have := scanP_sec cs [] ⟨[], [], none, none, false⟩ ⟨by simp, by simp⟩
  simpa [maxScan] using this

def FastP (cs : List Cur) (ck sec : Key) (i : Nat) : Prop :=
  (∃ c, cs[i]? = some c ∧ c.st ≠ .eof ∧ c.key = ck) ∧
  ∀ j c, cs[j]? = some c → j ≠ i → c.st ≠ .eof → ¬ sec < c.key

theorem maxIter_fast (r : Rng) (Ls : List Layer) : ∀ (fuel : Nat) (cs : List Cur),
    let m := maxIter r Ls fuel cs
    m.found = true → ∀ i, m.fast = some i → ∃ sec, m.second = some sec ∧ FastP m.curs m.key sec i := by
  intro fuel
  induction fuel with
  | zero => intro cs; simp [maxIter]
  | succ fuel ih =>
    intro cs
    simp only [maxIter]
    split
    · simp
    · split
      · next off hoff =>
        intro _ i hi
        simp only at hi ⊢
        obtain ⟨h1, h2⟩ := maxScan_sec cs
        refine ⟨_, rfl, (h2 i hi).2, ?_⟩
        intro j c hj hji hce
        exact h1 j c hj hce (by rw [hi]; simpa using Ne.symm hji)
      · exact ih _

end Gsu.Iter
