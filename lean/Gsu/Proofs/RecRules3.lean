/-
C35, global coherence of the record-rule cache, part 2: nested rule evaluation.
`getN n rules act r k` (for an acyclic unguarded rule set, enough fuel, and `k` of smaller rank
than everything on the active-rule stack `act`) preserves the record invariant `NInv … act`,
returns the specification value, records the dependency `top → k`, and leaves `k` cached and valid.
-/
import Gsu.Proofs.RecRules2
namespace Gsu.RecRules

/-! ### unfolding `getN` -/

/-- the `addDependent` step at the start of `getIfPresent` -/
def pre (act : List Field) (r : Rec) (k : Field) : Rec :=
  match act with
  | top :: _ => addDependent r top k
  | [] => r

/-- `this.Get(f)` inside a rule -/
def getfN (n : Nat) (rules : Rules) (act : List Field) : Rec → Field → Rec × Val :=
  fun r f => let y := getN n rules act r f; (y.1, y.2.getD none)

theorem pre_vals (act : List Field) (r : Rec) (k : Field) : (pre act r k).vals = r.vals := by
  cases act with
  | nil => rfl
  | cons top rest => exact addDependent_vals r top k

theorem pre_invalid (act : List Field) (r : Rec) (k : Field) :
    (pre act r k).invalid = r.invalid := by
  cases act with
  | nil => rfl
  | cons top rest => exact addDependent_invalid r top k

theorem getN_cached' (n : Nat) (rules : Rules) (act : List Field) (r : Rec) (k : Field) (v : Val)
    (hv : lk r.vals k = some v) (hi : k ∉ r.invalid) :
    getN (n + 1) rules act r k = (pre act r k, some v) := by
  cases act with
  | nil => simp [getN, hv, hi, pre]
  | cons top rest =>
    have : k ∉ (addDependent r top k).invalid := by rw [addDependent_invalid]; exact hi
    simp [getN, hv, this, pre]

theorem getN_plain (n : Nat) (rules : Rules) (act : List Field) (r : Rec) (k : Field)
    (hr : lk rules k = none) (hi : lk r.vals k = none ∨ k ∈ r.invalid) :
    getN (n + 1) rules act r k =
      ({ pre act r k with invalid := (pre act r k).invalid.erase k }, lk r.vals k) := by
  cases act with
  | nil =>
    simp only [getN, hr, pre]
    split
    · rfl
    · rename_i hneg
      exact absurd (by rcases hi with h | h <;> simp [h]) hneg
  | cons top rest =>
    simp only [getN, hr, pre]
    split
    · rfl
    · rename_i hneg
      exact absurd (by rcases hi with h | h <;> simp [h, addDependent_invalid]) hneg

theorem getN_rule (n : Nat) (rules : Rules) (act : List Field) (r : Rec) (k : Field) (e : Expr)
    (hr : lk rules k = some ⟨none, e⟩) (hk : k ∉ act)
    (hi : lk r.vals k = none ∨ k ∈ r.invalid) :
    getN (n + 1) rules act r k =
      (let x := evalE (getfN n rules (k :: act)) e
          { pre act r k with invalid := (pre act r k).invalid.erase k }
       ({ x.1 with vals := setv x.1.vals k x.2 }, some x.2)) := by
  cases act with
  | nil =>
    simp only [getN, hr, pre]
    split
    · simp only [↓reduceIte]
      rfl
    · rename_i hneg
      exact absurd (by rcases hi with h | h <;> simp [h]) hneg
  | cons top rest =>
    simp only [getN, hr, pre]
    split
    · simp only [↓reduceIte]
      rfl
    · rename_i hneg
      exact absurd (by rcases hi with h | h <;> simp [h, addDependent_invalid]) hneg

/-! ### monotone extension of a record during evaluation -/

/-- `r'` is `r` after some rule evaluation: nothing became invalid, valid cached values are kept,
recorded dependents only grow -/
structure Ext (r r' : Rec) : Prop where
  inv : ∀ j, j ∈ r'.invalid → j ∈ r.invalid
  keep : ∀ j v, lk r.vals j = some v → j ∉ r.invalid → lk r'.vals j = some v
  deps : ∀ f d, d ∈ depsOf r f → d ∈ depsOf r' f

theorem Ext.refl (r : Rec) : Ext r r := ⟨fun _ h => h, fun _ _ h _ => h, fun _ _ h => h⟩

theorem Ext.trans {a b c : Rec} (h1 : Ext a b) (h2 : Ext b c) : Ext a c :=
  ⟨fun j h => h1.inv j (h2.inv j h),
   fun j v hv hi => h2.keep j v (h1.keep j v hv hi) (fun h => hi (h1.inv j h)),
   fun f d h => h2.deps f d (h1.deps f d h)⟩

/-- what the evaluation of a rule body establishes for each field `f` it read, `top` being the
rule field under evaluation -/
def Good (rules : Rules) (rank : Field → Nat) (g : Field → Val) (r : Rec) (top f : Field) : Prop :=
  top ∈ depsOf r f ∧ f ∉ r.invalid ∧
    ∀ rf, lk rules f = some rf → lk r.vals f = some (spec rules rank g f)

theorem Good.ext {rules : Rules} {rank : Field → Nat} {g : Field → Val} {r r' : Rec}
    {top f : Field} (h : Good rules rank g r top f) (e : Ext r r') :
    Good rules rank g r' top f :=
  ⟨e.deps f top h.1, fun hi => h.2.1 (e.inv f hi), fun rf hr => e.keep f _ (h.2.2 rf hr) h.2.1⟩

/-! ### the invariant along the steps of `getIfPresent`/`callRule` -/

theorem pre_ext (act : List Field) (r : Rec) (k : Field) : Ext r (pre act r k) := by
  refine ⟨?_, ?_, ?_⟩
  · intro j hj; rw [pre_invalid] at hj; exact hj
  · intro j v hv _; rw [pre_vals]; exact hv
  · intro f d hd
    cases act with
    | nil => exact hd
    | cons top rest => exact (mem_depsOf_addDependent r top k f d).2 (Or.inl hd)

theorem pre_dep (act : List Field) (r : Rec) (k top : Field) (h : act.head? = some top)
    (hne : top ≠ k) : top ∈ depsOf (pre act r k) k := by
  cases act with
  | nil => simp at h
  | cons t rest =>
    simp only [List.head?_cons, Option.some.injEq] at h
    subst h
    exact (mem_depsOf_addDependent r t k k t).2 (Or.inr ⟨rfl, rfl, hne⟩)

theorem NInv.pre {rules : Rules} {rank : Field → Nat} {g : Field → Val} {r : Rec}
    {act : List Field} (h : NInv rules rank g r act) (k : Field)
    (hh : ∀ top, act.head? = some top → ∃ rule, lk rules top = some rule ∧ k ∈ fields rule.body) :
    NInv rules rank g (pre act r k) act := by
  cases act with
  | nil => exact h
  | cons top rest =>
    obtain ⟨rt, hrt, hkt⟩ := hh top rfl
    show NInv rules rank g (addDependent r top k) (top :: rest)
    refine ⟨?_, ?_, ?_, ?_⟩
    · intro j rule v hr hv hi hp
      rw [addDependent_vals] at hv
      rw [addDependent_invalid] at hi
      obtain ⟨h1, h2⟩ := h.coh j rule v hr hv hi hp
      refine ⟨h1, ?_⟩
      intro f hf
      obtain ⟨h3, h4⟩ := h2 f hf
      refine ⟨(mem_depsOf_addDependent r top k f j).2 (Or.inl h3), ?_⟩
      intro rf hrf
      rw [addDependent_vals, addDependent_invalid]
      exact h4 rf hrf
    · intro f d hd
      rcases (mem_depsOf_addDependent r top k f d).1 hd with hd | ⟨rfl, rfl, _⟩
      · exact h.ds f d hd
      · exact ⟨rt, hrt, hkt⟩
    · intro f hf d hd
      rw [addDependent_invalid] at hf ⊢
      rcases (mem_depsOf_addDependent r top k f d).1 hd with hd | ⟨rfl, rfl, _⟩
      · exact h.cl f hf d hd
      · exact Or.inr (List.mem_cons_self ..)
    · rw [addDependent_invalid]; exact h.nd

theorem PlainAgree.pre {rules : Rules} {g : Field → Val} {r : Rec} (h : PlainAgree rules g r)
    (act : List Field) (k : Field) : PlainAgree rules g (pre act r k) := by
  intro f hf; rw [pre_vals]; exact h f hf

/-- `delete(r.invalid, k)` at the start of `callRule`: `k` joins the exempted fields -/
theorem NInv.erase {rules : Rules} {rank : Field → Nat} {g : Field → Val} {r : Rec}
    {P : List Field} (h : NInv rules rank g r P) (k : Field) :
    NInv rules rank g { r with invalid := r.invalid.erase k } (k :: P) := by
  refine ⟨?_, ?_, ?_, ?_⟩
  · intro j rule v hr hv hi hp
    have hjk : j ≠ k := fun e => hp (e ▸ List.mem_cons_self ..)
    have hi' : j ∉ r.invalid := fun hm => hi ((List.mem_erase_of_ne hjk).2 hm)
    obtain ⟨h1, h2⟩ := h.coh j rule v hr hv hi' (fun hm => hp (List.mem_cons_of_mem _ hm))
    refine ⟨h1, ?_⟩
    intro f hf
    obtain ⟨h3, h4⟩ := h2 f hf
    refine ⟨h3, ?_⟩
    intro rf hrf
    exact ⟨fun hm => (h4 rf hrf).1 (List.mem_of_mem_erase hm), (h4 rf hrf).2⟩
  · exact h.ds
  · intro f hf d hd
    have hf' : f ∈ r.invalid := List.mem_of_mem_erase hf
    rcases h.cl f hf' d hd with hm | hm
    · by_cases hdk : d = k
      · exact Or.inr (hdk ▸ List.mem_cons_self ..)
      · exact Or.inl ((List.mem_erase_of_ne hdk).2 hm)
    · exact Or.inr (List.mem_cons_of_mem _ hm)
  · exact h.nd.erase k

/-- a plain field needs no exemption -/
theorem NInv.drop_plain {rules : Rules} {rank : Field → Nat} {g : Field → Val} {r : Rec}
    {P : List Field} {k : Field} (h : NInv rules rank g r (k :: P)) (hk : lk rules k = none) :
    NInv rules rank g r P := by
  refine ⟨?_, h.ds, ?_, h.nd⟩
  · intro j rule v hr hv hi hp
    have hjk : j ≠ k := by rintro rfl; rw [hk] at hr; cases hr
    apply h.coh j rule v hr hv hi
    intro hm
    rcases List.mem_cons.1 hm with e | hm
    · exact hjk e
    · exact hp hm
  · intro f hf d hd
    rcases h.cl f hf d hd with hm | hm
    · exact Or.inl hm
    · rcases List.mem_cons.1 hm with rfl | hm
      · exact absurd hd (h.ds.plain_not_dep hk f)
      · exact Or.inr hm

theorem erase_ext (r : Rec) (k : Field) : Ext r { r with invalid := r.invalid.erase k } :=
  ⟨fun _ h => List.mem_of_mem_erase h, fun _ _ h _ => h, fun _ _ h => h⟩

/-- the end of `callRule`: the computed value is stored; `k` no longer needs exemption -/
theorem NInv.finish {rules : Rules} {rank : Field → Nat} {g : Field → Val} {x : Rec}
    {P : List Field} {k : Field} {rule : Rule} (h : NInv rules rank g x (k :: P))
    (hr : lk rules k = some rule)
    (hg : ∀ f ∈ fields rule.body, Good rules rank g x k f) (v : Val)
    (hv : v = spec rules rank g k) :
    NInv rules rank g { x with vals := setv x.vals k v } P := by
  refine ⟨?_, h.ds, ?_, h.nd⟩
  · intro j rj w hrj hw hi hp
    by_cases hjk : j = k
    · subst hjk
      rw [hr] at hrj; cases hrj
      simp only [lk_setv, if_true, Option.some.injEq] at hw
      refine ⟨hw ▸ hv, ?_⟩
      intro f hf
      obtain ⟨g1, g2, g3⟩ := hg f hf
      refine ⟨g1, ?_⟩
      intro rf hrf
      refine ⟨g2, ?_⟩
      simp only [lk_setv]
      split
      · exact ⟨_, rfl⟩
      · exact ⟨_, g3 rf hrf⟩
    · simp only [lk_setv, hjk, if_false] at hw
      have hp' : j ∉ k :: P := by
        intro hm
        rcases List.mem_cons.1 hm with e | hm
        · exact hjk e
        · exact hp hm
      obtain ⟨h1, h2⟩ := h.coh j rj w hrj hw hi hp'
      refine ⟨h1, ?_⟩
      intro f hf
      obtain ⟨h3, h4⟩ := h2 f hf
      refine ⟨h3, ?_⟩
      intro rf hrf
      refine ⟨(h4 rf hrf).1, ?_⟩
      simp only [lk_setv]
      split
      · exact ⟨_, rfl⟩
      · exact (h4 rf hrf).2
  · intro f hf d hd
    rcases h.cl f hf d hd with hm | hm
    · exact Or.inl hm
    · rcases List.mem_cons.1 hm with rfl | hm
      · obtain ⟨rd, hrd, hfd⟩ := h.ds f d hd
        rw [hr] at hrd; cases hrd
        exact absurd hf (hg f hfd).2.1
      · exact Or.inr hm

/-! ### the main induction -/

/-- what one `getIfPresent(k)` establishes -/
structure GetPost (rules : Rules) (rank : Field → Nat) (g : Field → Val) (act : List Field)
    (r : Rec) (k : Field) (y : Rec × Option Val) : Prop where
  inv : NInv rules rank g y.1 act
  pa : PlainAgree rules g y.1
  ext : Ext r y.1
  valr : ∀ rule, lk rules k = some rule → y.2 = some (spec rules rank g k)
  valp : lk rules k = none → y.2.getD none = g k
  dep : ∀ top, act.head? = some top → top ∈ depsOf y.1 k
  valid : k ∉ y.1.invalid
  cached : ∀ rule, lk rules k = some rule → lk y.1.vals k = some (spec rules rank g k)

def GetOK (rules : Rules) (rank : Field → Nat) (g : Field → Val) (n : Nat) : Prop :=
  ∀ (act : List Field) (r : Rec) (k : Field), rank k < n → (∀ a ∈ act, rank k < rank a) →
    (∀ top, act.head? = some top → ∃ rule, lk rules top = some rule ∧ k ∈ fields rule.body) →
    NInv rules rank g r act → PlainAgree rules g r →
    GetPost rules rank g act r k (getN n rules act r k)

theorem GetPost.val {rules : Rules} {rank : Field → Nat} {g : Field → Val} {act : List Field}
    {r : Rec} {k : Field} {y : Rec × Option Val} (h : GetPost rules rank g act r k y) :
    y.2.getD none = spec rules rank g k := by
  cases hr : lk rules k with
  | none => rw [h.valp hr, spec_plain _ _ _ _ hr]
  | some rule => rw [h.valr rule hr]; rfl

/-- evaluation of (a part `e` of) the body of the rule of `top` -/
theorem evalE_ok {rules : Rules} {rank : Field → Nat} {g : Field → Val} {n : Nat}
    (ha : Acyc rules rank) (hget : GetOK rules rank g n) (top : Field) (rt : Rule)
    (act : List Field) (hrt : lk rules top = some rt) (hn : rank top ≤ n)
    (hact : ∀ a ∈ act, rank top < rank a) (e : Expr) :
    ∀ (r : Rec), (∀ f ∈ fields e, f ∈ fields rt.body) →
      NInv rules rank g r (top :: act) → PlainAgree rules g r →
      let x := evalE (getfN n rules (top :: act)) e r
      NInv rules rank g x.1 (top :: act) ∧ PlainAgree rules g x.1 ∧ Ext r x.1 ∧
        x.2 = specE (spec rules rank g) e ∧ ∀ f ∈ fields e, Good rules rank g x.1 top f := by
  have bin : ∀ (a b : Expr) (op : Int → Int → Int),
      (∀ (r : Rec), (∀ f ∈ fields a, f ∈ fields rt.body) →
        NInv rules rank g r (top :: act) → PlainAgree rules g r →
        let x := evalE (getfN n rules (top :: act)) a r
        NInv rules rank g x.1 (top :: act) ∧ PlainAgree rules g x.1 ∧ Ext r x.1 ∧
          x.2 = specE (spec rules rank g) a ∧ ∀ f ∈ fields a, Good rules rank g x.1 top f) →
      (∀ (r : Rec), (∀ f ∈ fields b, f ∈ fields rt.body) →
        NInv rules rank g r (top :: act) → PlainAgree rules g r →
        let x := evalE (getfN n rules (top :: act)) b r
        NInv rules rank g x.1 (top :: act) ∧ PlainAgree rules g x.1 ∧ Ext r x.1 ∧
          x.2 = specE (spec rules rank g) b ∧ ∀ f ∈ fields b, Good rules rank g x.1 top f) →
      ∀ (r : Rec), (∀ f ∈ fields a ++ fields b, f ∈ fields rt.body) →
        NInv rules rank g r (top :: act) → PlainAgree rules g r →
        let x := evalE (getfN n rules (top :: act)) a r
        let y := evalE (getfN n rules (top :: act)) b x.1
        NInv rules rank g y.1 (top :: act) ∧ PlainAgree rules g y.1 ∧ Ext r y.1 ∧
          some (op (x.2.getD 0) (y.2.getD 0)) =
            some (op ((specE (spec rules rank g) a).getD 0) ((specE (spec rules rank g) b).getD 0)) ∧
          ∀ f ∈ fields a ++ fields b, Good rules rank g y.1 top f := by
    intro a b op iha ihb r hf hi hp
    obtain ⟨a1, a2, a3, a4, a5⟩ := iha r (fun f h => hf f (List.mem_append_left _ h)) hi hp
    obtain ⟨b1, b2, b3, b4, b5⟩ := ihb _ (fun f h => hf f (List.mem_append_right _ h)) a1 a2
    refine ⟨b1, b2, a3.trans b3, by rw [a4, b4], ?_⟩
    intro f hfm
    rcases List.mem_append.1 hfm with h | h
    · exact (a5 f h).ext b3
    · exact b5 f h
  induction e with
  | lit v =>
    intro r _ hi hp
    exact ⟨hi, hp, Ext.refl r, rfl, by simp [fields]⟩
  | fld f =>
    intro r hf hi hp
    have hfb : f ∈ fields rt.body := hf f (by simp [fields])
    have hrk : rank f < rank top := ha.lt top rt hrt f hfb
    have hp' := hget (top :: act) r f (by omega)
      (by
        intro a hm
        rcases List.mem_cons.1 hm with rfl | hm
        · exact hrk
        · have := hact a hm; omega)
      (by
        intro t ht
        simp only [List.head?_cons, Option.some.injEq] at ht
        subst ht
        exact ⟨rt, hrt, hfb⟩) hi hp
    refine ⟨hp'.inv, hp'.pa, hp'.ext, hp'.val, ?_⟩
    intro f' hf'
    simp only [fields, List.mem_singleton] at hf'
    subst hf'
    exact ⟨hp'.dep top rfl, hp'.valid, hp'.cached⟩
  | add a b iha ihb => exact bin a b (· + ·) iha ihb
  | sub a b iha ihb => exact bin a b (· - ·) iha ihb
  | mul a b iha ihb => exact bin a b (· * ·) iha ihb

theorem getOK_zero (rules : Rules) (rank : Field → Nat) (g : Field → Val) :
    GetOK rules rank g 0 := by
  intro act r k h; omega

theorem getOK_succ {rules : Rules} {rank : Field → Nat} {g : Field → Val} {n : Nat}
    (ha : Acyc rules rank) (hget : GetOK rules rank g n) : GetOK rules rank g (n + 1) := by
  intro act r k hn hact hh hi hp
  have hkact : k ∉ act := fun hm => by have := hact k hm; omega
  have hi1 := hi.pre k hh
  have hp1 := hp.pre act k
  have he1 := pre_ext act r k
  have hdep1 : ∀ top, act.head? = some top → top ∈ depsOf (pre act r k) k := by
    intro top ht
    apply pre_dep act r k top ht
    rintro rfl
    apply hkact
    cases act with
    | nil => simp at ht
    | cons t rest => simp at ht; simp [ht]
  by_cases hc : (∃ v, lk r.vals k = some v) ∧ k ∉ r.invalid
  · -- cached and valid
    obtain ⟨⟨v, hv⟩, hki⟩ := hc
    rw [getN_cached' n rules act r k v hv hki]
    have hv1 : lk (pre act r k).vals k = some v := by rw [pre_vals]; exact hv
    have hki1 : k ∉ (pre act r k).invalid := by rw [pre_invalid]; exact hki
    refine ⟨hi1, hp1, he1, ?_, ?_, hdep1, hki1, ?_⟩
    · intro rule hr
      rw [(hi1.coh k rule v hr hv1 hki1 hkact).1]
    · intro hr
      have := hp k hr
      rw [hv] at this
      exact this
    · intro rule hr
      rw [hv1, (hi1.coh k rule v hr hv1 hki1 hkact).1]
  · have hc' : lk r.vals k = none ∨ k ∈ r.invalid := by
      by_cases h1 : k ∈ r.invalid
      · exact Or.inr h1
      · left
        cases h2 : lk r.vals k with
        | none => rfl
        | some v => exact absurd ⟨⟨v, h2⟩, h1⟩ hc
    have hi2 := hi1.erase k
    have he2 : Ext r { pre act r k with invalid := (pre act r k).invalid.erase k } :=
      he1.trans (erase_ext _ k)
    have hki2 : k ∉ (pre act r k).invalid.erase k := by
      intro hm
      exact ((hi1.nd.mem_erase_iff).1 hm).1 rfl
    cases hr : lk rules k with
    | none =>
      rw [getN_plain n rules act r k hr hc']
      refine ⟨hi2.drop_plain hr, hp1, he2, ?_, ?_, ?_, hki2, ?_⟩
      · intro rule hr'; rw [hr] at hr'; cases hr'
      · intro _; exact hp k hr
      · exact hdep1
      · intro rule hr'; rw [hr] at hr'; cases hr'
    | some rule =>
      obtain ⟨gd, e⟩ := rule
      have hgd : gd = none := ha.ung k _ hr
      subst hgd
      rw [getN_rule n rules act r k e hr hkact hc']
      obtain ⟨x1, x2, x3, x4, x5⟩ := evalE_ok ha hget k ⟨none, e⟩ act hr (by omega) hact e
        { pre act r k with invalid := (pre act r k).invalid.erase k } (fun f h => h) hi2 hp1
      have hval : (evalE (getfN n rules (k :: act)) e
          { pre act r k with invalid := (pre act r k).invalid.erase k }).2 =
          spec rules rank g k := by
        rw [x4, spec_rule ha g k _ hr]
      refine ⟨x1.finish hr x5 _ hval, ?_, ?_, ?_, ?_, ?_, ?_, ?_⟩
      · intro f hf
        simp only [lk_setv]
        have hfk : f ≠ k := by rintro rfl; rw [hr] at hf; cases hf
        simp only [hfk, if_false]
        exact x2 f hf
      · refine ⟨fun j hj => he2.inv j (x3.inv j hj), ?_, fun f d hd => x3.deps f d (he2.deps f d hd)⟩
        intro j v hv hji
        have hjk : j ≠ k := by
          rintro rfl
          rcases hc' with h | h
          · rw [h] at hv; cases hv
          · exact hji h
        simp only [lk_setv, hjk, if_false]
        exact (he2.trans x3).keep j v hv hji
      · intro rule' _; simp only; rw [hval]
      · intro hr'; rw [hr] at hr'; cases hr'
      · intro top ht
        exact x3.deps k top ((erase_ext _ k).deps k top (hdep1 top ht))
      · exact fun hm => hki2 (x3.inv k hm)
      · intro rule' _
        simp only [lk_setv, if_true]
        rw [hval]

theorem getOK {rules : Rules} {rank : Field → Nat} (ha : Acyc rules rank) (g : Field → Val)
    (n : Nat) : GetOK rules rank g n := by
  induction n with
  | zero => exact getOK_zero rules rank g
  | succ n ih => exact getOK_succ ha ih

end Gsu.RecRules
