import Gsu.Proofs.Ixkey9
namespace Gsu.Ixkey
open Gsu.Proto

theorem trimEmpty_append_nil (X : List Bytes) : trimEmpty (X ++ [[]]) = trimEmpty X := by
  simp [trimEmpty]

theorem trimEmpty_pad (X : List Bytes) (k : Nat) : trimEmpty (X ++ List.replicate k []) = trimEmpty X := by
  induction k with
  | zero => simp
  | succ k ih => rw [List.replicate_succ', ← List.append_assoc, trimEmpty_append_nil, ih]

theorem trimEmpty_append_ne (X : List Bytes) {m : Bytes} (hm : m ≠ []) : trimEmpty (X ++ [m]) = X ++ [m] := by
  simp [trimEmpty, hm]

theorem cmpFields_append (a b c d : List Bytes) (h : a.length = b.length) :
    cmpFields (a ++ c) (b ++ d) = (match cmpFields a b with | .eq => cmpFields c d | o => o) := by
  induction a generalizing b with
  | nil =>
    cases b with
    | nil => simp [cmpFields]
    | cons _ _ => simp at h
  | cons x a ih =>
    cases b with
    | nil => simp at h
    | cons y b =>
      simp only [List.cons_append, cmpFields]
      rw [ih b (by simpa using h)]
      cases cmpB x y <;> rfl

theorem cmpFields_empties_left (k : Nat) (D : List Bytes) : cmpFields (List.replicate k []) D ≠ .gt := by
  induction k generalizing D with
  | zero => simp [cmpFields]
  | succ k ih =>
    cases D with
    | nil => simp [cmpFields]
    | cons d D =>
      simp only [List.replicate_succ, cmpFields, cmpB_nil_left]
      by_cases hd : d = []
      · simp [hd]; exact ih D
      · simp [hd]

theorem rangeEnd_exact_core (P A D' : List Bytes) (d : Bytes) (n : Nat) (hn : 1 ≤ n)
    (hP : P.length = n) (hA : A.length = n) (hmax : cmpB d maxKey = .lt) :
    (cmpB (joinEnc (trimEmpty P)) (joinEnc (trimEmpty (A ++ d :: D'))) ≠ .gt ∧
      cmpB (joinEnc (trimEmpty (A ++ d :: D'))) (rangeEnd (joinEnc (trimEmpty P)) n) ≠ .gt) ↔ A = P := by
  have hPA : P.length = A.length := by omega
  -- lower bound as a padded tuple
  have e1 : joinEnc (trimEmpty P) = joinEnc (trimEmpty (P ++ List.replicate (D'.length + 1) [])) := by
    rw [trimEmpty_pad]
  -- upper bound as a padded tuple
  have e2 : rangeEnd (joinEnc (trimEmpty P)) n =
      joinEnc (trimEmpty (P ++ maxKey :: List.replicate D'.length [])) := by
    rw [rangeEnd_joinTrim P n hn hP]
    have : P ++ maxKey :: List.replicate D'.length [] = (P ++ [maxKey]) ++ List.replicate D'.length [] := by simp
    rw [this, trimEmpty_pad, trimEmpty_append_ne _ (by decide)]
  rw [e2, e1, cmpB_joinTrim _ _ (by simp; omega), cmpB_joinTrim _ _ (by simp; omega),
    cmpFields_append _ _ _ _ hPA, cmpFields_append _ _ _ _ hPA.symm, cmpFields_swap P A]
  have hlt : cmpFields (d :: D') (maxKey :: List.replicate D'.length []) = .lt := by
    simp [cmpFields, hmax]
  rw [hlt]
  have hge := cmpFields_empties_left (D'.length + 1) (d :: D')
  constructor
  · intro ⟨h1, h2⟩
    cases hc : cmpFields P A <;> rw [hc] at h1 h2 <;> simp at h1 h2
    exact (cmpFields_eq P A hPA hc).symm
  · intro h
    subst h
    have : cmpFields A A = .eq := by
      rw [← cmpB_joinTrim A A rfl, cmpB_self]
    rw [this]
    exact ⟨hge, by simp⟩

theorem rangeEnd_exact (P V : List Bytes) (n : Nat) (hn : 1 ≤ n) (hP : P.length = n)
    (hV : n < V.length) (hmax : cmpB (V.getD n []) maxKey = .lt) :
    (cmpB (joinEnc (trimEmpty P)) (joinEnc (trimEmpty V)) ≠ .gt ∧
      cmpB (joinEnc (trimEmpty V)) (rangeEnd (joinEnc (trimEmpty P)) n) ≠ .gt) ↔ V.take n = P := by
  have hd : V.drop n = V.getD n [] :: V.drop (n + 1) := by
    rw [List.drop_eq_getElem_cons hV]; simp [List.getD, hV]
  have hVe : V = V.take n ++ V.getD n [] :: V.drop (n + 1) := by
    rw [← hd, List.take_append_drop]
  have := rangeEnd_exact_core P (V.take n) (V.drop (n + 1)) (V.getD n []) n hn hP (by simp; omega) hmax
  rw [← hVe] at this
  exact this

end Gsu.Ixkey
