/-
M-DB global invariant, part 10: what a reopen reads (`Info.disk`: the btrees, one empty layer, the
btree counts) when everything has been merged and persisted. Core only.
-/
import Gsu.Proofs.DbInv9
namespace Gsu.Db

/-- nothing unsaved: every layer of every index is empty and the deltas are all zero -/
def Info.clean (ti : Info) : Bool :=
  ti.idx.all (fun ov => ov.layers.all (·.isEmpty)) && ti.deltas.all (fun d => d.nrows == 0 && d.size == 0)

theorem sum_zero_of_all (l : List Delta) (h : l.all (fun d => d.nrows == 0 && d.size == 0) = true) :
    sumN l = 0 ∧ sumS l = 0 := by
  induction l with
  | nil => exact ⟨rfl, rfl⟩
  | cons d ds ih =>
    simp only [List.all_cons, Bool.and_eq_true, beq_iff_eq] at h
    obtain ⟨h1, h2⟩ := ih (by simpa using h.2)
    simp only [sumN, sumS, List.map_cons, List.sum_cons] at h1 h2 ⊢
    omega

/-- a clean table read back from disk: every index still holds exactly the rows, and the counts
read from the btrees are the table's counts -/
theorem disk_of_clean {ti : Info} (h : TblInv ti) (hc : ti.clean = true) :
    IAgree ti.disk ∧ ti.disk.rows = ti.rows ∧ ti.disk.nrows = ti.nrows ∧ ti.disk.size = ti.size := by
  simp only [Info.clean, Bool.and_eq_true] at hc
  obtain ⟨h1, h2⟩ := sum_zero_of_all ti.deltas hc.2
  obtain ⟨d1, d2⟩ := h.deltas
  refine ⟨?_, rfl, ?_, ?_⟩
  · intro i ov' hi k
    simp only [Info.disk, List.getElem?_map, Option.map_eq_some_iff] at hi
    obtain ⟨ov, hov, rfl⟩ := hi
    have hl : ∀ l ∈ ov.layers, l.get k = none := by
      intro l hl
      have := List.all_eq_true.mp hc.1 ov (List.mem_of_getElem? hov)
      exact FMap.get_none_of_isEmpty l (List.all_eq_true.mp this l hl) k
    rw [sem_disk ov k hl]
    exact h.agree i ov hov k
  · show ti.btNrows = ti.nrows; omega
  · show ti.btSize = ti.size; omega

/-- every reachable clean table survives a reopen unchanged -/
theorem reopen_reachable (ops : List Op) (hok : OpsOK State.init ops) (j : Nat) (ti : Info)
    (hj : (run State.init ops).mt[j]? = some ti) (hc : ti.clean = true) :
    IAgree ti.disk ∧ ti.disk.rows = ti.rows ∧ ti.disk.nrows = ti.rows.length := by
  have h := (dbinv_reachable ops hok).tbl j ti hj
  obtain ⟨a, b, c, _⟩ := disk_of_clean h hc
  exact ⟨a, b, c.trans h.cnt⟩

end Gsu.Db
