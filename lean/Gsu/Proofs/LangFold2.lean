/-
C30, second part: soundness of the n-ary folds for `*` (foldMul without reciprocals), `| & ^`
(commutative, 64-bit run-time operators), `and`/`or` (boolean operands) and `$` (foldCat), about
the same definitions of `Gsu.Model.LangFold` the driver executes. Core Lean only.
-/
import Gsu.Proofs.LangFold
namespace Gsu.LangFold

/-! ## a commutative monoid on a carrier `C` of the integers -/

/-- laws of an n-ary operator function `f` with identity `i`; the identity law is only required on
a carrier `C` that contains `i` and every result of `f` (for the 64-bit operators: the integers
that are their own 64-bit two's complement reading). -/
structure LawfulOp (f : Int → Int → Int) (i : Int) (C : Int → Prop) : Prop where
  assoc : ∀ a b c, f (f a b) c = f a (f b c)
  comm : ∀ a b, f a b = f b a
  ci : C i
  cf : ∀ a b, C (f a b)
  ident : ∀ a, C a → f a i = a

def gsum (f : Int → Int → Int) (i : Int) (A : Arith) (env : List Val) (es : List Expr) :
    Option Int :=
  (numsOf A env es).map (List.foldl f i)

section generic
variable {f : Int → Int → Int} {i : Int} {C : Int → Prop}

theorem gfoldl_pull (h : LawfulOp f i C) (l : List Int) (a c : Int) :
    List.foldl f (f a c) l = f (List.foldl f a l) c := by
  induction l generalizing a with
  | nil => rfl
  | cons x xs ih =>
    simp only [List.foldl]
    rw [← ih]
    congr 1
    rw [h.assoc, h.assoc, h.comm c x]

theorem gfoldl_C (h : LawfulOp f i C) (l : List Int) (a : Int) (ha : C a) :
    C (List.foldl f a l) := by
  induction l generalizing a with
  | nil => exact ha
  | cons x xs ih => exact ih _ (h.cf _ _)

theorem gfoldl_start (h : LawfulOp f i C) (x y : Int) (ns : List Int) :
    List.foldl f x (y :: ns) = List.foldl f i (x :: y :: ns) := by
  simp only [List.foldl]
  congr 1
  rw [h.assoc, h.comm i, h.ident _ (h.cf _ _)]

theorem gfoldl_absorb (h : LawfulOp f i C) (z : Int) (hz : ∀ a, f a z = z) (l : List Int)
    (a : Int) (hm : z ∈ l) : List.foldl f a l = z := by
  induction l generalizing a with
  | nil => cases hm
  | cons x xs ih =>
    simp only [List.foldl]
    rcases List.mem_cons.mp hm with hx | hx
    · subst hx
      rw [hz]
      clear ih hm
      induction xs with
      | nil => rfl
      | cons y ys ih2 => simp only [List.foldl]; rw [h.comm, hz]; exact ih2
    · exact ih _ hx

/-- the left fold of the run time over at least two operands, in the order-free form -/
theorem evalFold_gsum (h : LawfulOp f i C) (A : Arith) (op : NOp) (hop : nop A op = f)
    (env : List Val) (e0 e1 : Expr) (rest : List Expr) :
    (match eval A env e0 with
      | some v => evalFold A env op v (e1 :: rest)
      | none => none) = (gsum f i A env (e0 :: e1 :: rest)).map Val.int := by
  simp only [gsum, numsOf, numOf]
  cases h0 : eval A env e0 with
  | none => simp
  | some v0 =>
    simp only [evalFold, Option.bind_some]
    cases h1 : eval A env e1 with
    | none => cases toNum v0 <;> simp
    | some v1 =>
      simp only [nbin, Option.bind_some]
      cases toNum v0 with
      | none => simp
      | some x =>
        cases toNum v1 with
        | none => simp
        | some y =>
          simp only [evalFold_int, hop]
          cases numsOf A env rest with
          | none => simp
          | some ns =>
            simp only [Option.map_some]
            show some (Val.int (List.foldl f x (y :: ns))) = _
            rw [gfoldl_start h x y ns]

theorem gsum_pull (h : LawfulOp f i C) (A : Arith) (env : List Val) (P R : List Expr) (c : Int) :
    gsum f i A env (P ++ .const (.int c) :: R) = (gsum f i A env (P ++ R)).map (fun s => f s c) := by
  simp only [gsum, numsOf_append, numsOf, numOf, eval, Option.bind_some, toNum]
  cases numsOf A env P with
  | none => simp
  | some p =>
    cases numsOf A env R with
    | none => simp
    | some r =>
      simp only [Option.map_some, List.foldl_append, List.foldl]
      rw [gfoldl_pull h]

theorem gsum_C (h : LawfulOp f i C) (A : Arith) (env : List Val) (l : List Expr) (s : Int)
    (hs : gsum f i A env l = some s) : C s := by
  simp only [gsum] at hs
  cases hn : numsOf A env l with
  | none => simp [hn] at hs
  | some ns =>
    simp [hn] at hs
    subst hs
    exact gfoldl_C h ns i h.ci

/-- dropping an identity constant -/
theorem gsum_drop (h : LawfulOp f i C) (A : Arith) (env : List Val) (P R : List Expr) :
    gsum f i A env (P ++ .const (.int i) :: R) = gsum f i A env (P ++ R) := by
  rw [gsum_pull h]
  cases hs : gsum f i A env (P ++ R) with
  | none => rfl
  | some s => simp [h.ident s (gsum_C h A env _ s hs)]

/-- merging two constants -/
theorem gsum_merge (h : LawfulOp f i C) (A : Arith) (env : List Val) (P Q R : List Expr)
    (a n : Int) :
    gsum f i A env (P ++ .const (.int (f a n)) :: (Q ++ R)) =
      gsum f i A env (P ++ .const (.int a) :: (Q ++ .const (.int n) :: R)) := by
  have e2 : P ++ Expr.const (Val.int a) :: (Q ++ Expr.const (Val.int n) :: R) =
      (P ++ Expr.const (Val.int a) :: Q) ++ Expr.const (Val.int n) :: R := by simp
  have e3 : P ++ Expr.const (Val.int a) :: Q ++ R = P ++ Expr.const (Val.int a) :: (Q ++ R) := by
    simp
  rw [e2, gsum_pull h, gsum_pull h, e3, gsum_pull h]
  cases gsum f i A env (P ++ (Q ++ R)) <;> simp [h.assoc]

/-- with an absorbing constant among numeric operands the value is that constant -/
theorem gsum_absorb (h : LawfulOp f i C) (z : Int) (hz : ∀ a, f a z = z) (A : Arith)
    (env : List Val) (l : List Expr) (hm : Expr.const (.int z) ∈ l)
    (hnum : ∀ e ∈ l, ∃ n, numOf A env e = some n) : gsum f i A env l = some z := by
  have key : ∃ ns, numsOf A env l = some ns ∧ z ∈ ns := by
    clear h hz
    induction l with
    | nil => cases hm
    | cons e es ih =>
      obtain ⟨n, hn⟩ := hnum e (List.mem_cons_self ..)
      have hnum' : ∀ e ∈ es, ∃ n, numOf A env e = some n :=
        fun x hx => hnum x (List.mem_cons_of_mem _ hx)
      rcases List.mem_cons.mp hm with hx | hx
      · subst hx
        have : ∃ ns, numsOf A env es = some ns := by
          clear ih hm hnum hn
          induction es with
          | nil => exact ⟨[], rfl⟩
          | cons y ys ih =>
            obtain ⟨m, hm⟩ := hnum' y (List.mem_cons_self ..)
            obtain ⟨ms, hms⟩ := ih (fun x hx => hnum' x (List.mem_cons_of_mem _ hx))
            exact ⟨m :: ms, by simp [numsOf, hm, hms]⟩
        obtain ⟨ns, hns⟩ := this
        refine ⟨z :: ns, ?_, List.mem_cons_self ..⟩
        simp [numsOf, numOf, eval, hns]
      · obtain ⟨ns, hns, hz⟩ := ih hx hnum'
        exact ⟨n :: ns, by simp [numsOf, hn, hns], List.mem_cons_of_mem _ hz⟩
  obtain ⟨ns, hns, hmem⟩ := key
  simp [gsum, hns, gfoldl_absorb h z hz ns i hmem]

end generic

/-! ## `*` : foldMul without reciprocal operands -/

structure LawfulMul (A : Arith) : Prop where
  assoc : ∀ a b c, A.mul (A.mul a b) c = A.mul a (A.mul b c)
  comm : ∀ a b, A.mul a b = A.mul b a
  one : ∀ a, A.mul a 1 = a
  zero : ∀ a, A.mul a 0 = 0

theorem exactA_lawfulMul : LawfulMul exactA :=
  ⟨fun a b c => by simp [exactA, Int.mul_assoc], fun a b => by simp [exactA, Int.mul_comm],
   fun a => by simp [exactA], fun a => by simp [exactA]⟩

theorem LawfulMul.op {A : Arith} (h : LawfulMul A) : LawfulOp A.mul 1 (fun _ => True) :=
  ⟨h.assoc, h.comm, trivial, fun _ _ => trivial, fun a _ => h.one a⟩

/-- an operand that is neither a reciprocal `/ e` nor a unary operator applied to a constant
(`unaryDivConst` of folder.go takes the latter for a constant divisor whatever the operator; the
parser never hands one to `foldMul` because `Folder.Unary` has already evaluated it) -/
def noRecip : Expr → Bool
  | .unary .div _ => false
  | .unary _ (.const _) => false
  | _ => true

theorem noRecip_notdiv {e : Expr} (h : noRecip e = true) (x : Expr) : e ≠ .unary .div x := by
  intro he; subst he; simp [noRecip] at h

theorem evalMulDiv_norecip (A : Arith) (env : List Val) (rest : List Expr) (acc : Val)
    (hr : ∀ e ∈ rest, noRecip e = true) :
    evalMulDiv A env acc none rest = evalFold A env .mul acc rest := by
  induction rest generalizing acc with
  | nil => simp [evalMulDiv, evalFold]
  | cons e rest ih =>
    have hr' : ∀ e ∈ rest, noRecip e = true := fun x hx => hr x (List.mem_cons_of_mem _ hx)
    have hne := noRecip_notdiv (hr e (List.mem_cons_self ..))
    rw [evalMulDiv.eq_def]
    simp only [evalFold]
    cases eval A env e with
    | none => rfl
    | some v =>
      simp only
      cases nbin A .mul acc v with
      | none => rfl
      | some r => exact ih r hr'

theorem eval_mul_gsum {A : Arith} (h : LawfulMul A) (env : List Val) (l : List Expr)
    (h2 : 2 ≤ l.length) (hr : ∀ e ∈ l, noRecip e = true) :
    eval A env (.nary .mul l) = (gsum A.mul 1 A env l).map Val.int := by
  match l, h2 with
  | e0 :: e1 :: rest, _ =>
    rw [← evalFold_gsum h.op A .mul rfl env e0 e1 rest]
    simp only [eval]
    cases eval A env e0 with
    | none => rfl
    | some v =>
      exact evalMulDiv_norecip A env (e1 :: rest) v (fun x hx => hr x (List.mem_cons_of_mem _ hx))

theorem mulGo_const (A : Arith) (m d : Int) (keep rest : List Expr) (n : Int) :
    mulGo A m d keep (.const (.int n) :: rest) =
      if n = 0 then none else mulGo A (A.mul m n) d keep rest := by
  by_cases hn : n = 0
  · subst hn; simp [mulGo]
  · simp only [hn, if_false]
    rw [mulGo.eq_def]
    split
    · rename_i heq; cases heq
    · rename_i heq; cases heq
    · rename_i heq; cases heq; exact absurd rfl hn
    · rename_i c r hc heq
      cases heq
      simp
    · rename_i e r h1 h2 h3 heq
      cases heq
      exact absurd rfl (h3 _)

theorem mulGo_other (A : Arith) (m d : Int) (keep rest : List Expr) (e : Expr)
    (hc : isConst e = false) (hr : noRecip e = true) :
    mulGo A m d keep (e :: rest) = mulGo A m d (keep ++ [e]) rest := by
  rw [mulGo.eq_def]
  split
  · rename_i heq; cases heq
  · rename_i u c r heq
    cases heq
    cases u <;> simp [noRecip] at hr
  · rename_i heq; cases heq; simp [isConst] at hc
  · rename_i c r hc2 heq; cases heq; simp [isConst] at hc
  · rename_i e2 r h1 h2 h3 heq
    cases heq
    rfl

/-- operands kept by the scan: not constants, not reciprocals -/
def keepOK (e : Expr) : Prop := isConst e = false ∧ noRecip e = true

theorem mulGo_sound {A : Arith} (h : LawfulMul A) (env : List Val) (rest : List Expr) :
    ∀ (m d : Int) (keep : List Expr) (m' d' : Int) (keep' : List Expr),
      (∀ e ∈ rest, noRecip e = true) → (∀ e ∈ rest, constNonNum e = false) →
      (∀ e ∈ keep, keepOK e) →
      mulGo A m d keep rest = some (m', d', keep') →
      d' = d ∧ (∀ e ∈ keep', keepOK e) ∧
        gsum A.mul 1 A env (keep' ++ [.const (.int m')]) =
          gsum A.mul 1 A env (keep ++ .const (.int m) :: rest) := by
  induction rest with
  | nil =>
    intro m d keep m' d' keep' _ _ hk hgo
    simp only [mulGo] at hgo
    cases hgo
    exact ⟨rfl, hk, rfl⟩
  | cons e rest ih =>
    intro m d keep m' d' keep' hr hck hk hgo
    have hr' : ∀ e ∈ rest, noRecip e = true := fun x hx => hr x (List.mem_cons_of_mem _ hx)
    have hck' : ∀ e ∈ rest, constNonNum e = false := fun x hx => hck x (List.mem_cons_of_mem _ hx)
    by_cases hc : isConst e = true
    · cases e with
      | const c =>
        obtain ⟨n, rfl⟩ := constNonNum_const (hck _ (List.mem_cons_self ..))
        rw [mulGo_const] at hgo
        by_cases hn : n = 0
        · simp [hn] at hgo
        · simp only [hn, if_false] at hgo
          obtain ⟨hd, hk', hs⟩ := ih _ _ _ _ _ _ hr' hck' hk hgo
          refine ⟨hd, hk', ?_⟩
          rw [hs]
          have := gsum_merge h.op A env keep [] rest m n
          simpa using this
      | _ => simp [isConst] at hc
    · have hc' : isConst e = false := by simpa using hc
      have hre := hr e (List.mem_cons_self ..)
      rw [mulGo_other A m d keep rest e hc' hre] at hgo
      have hk2 : ∀ x ∈ keep ++ [e], keepOK x := by
        intro x hx
        rcases List.mem_append.mp hx with hx | hx
        · exact hk x hx
        · simp at hx; subst hx; exact ⟨hc', hre⟩
      obtain ⟨hd, hk', hs⟩ := ih _ _ _ _ _ _ hr' hck' hk2 hgo
      refine ⟨hd, hk', ?_⟩
      rw [hs]
      have e1 : keep ++ [e] ++ Expr.const (Val.int m) :: rest =
          (keep ++ [e]) ++ Expr.const (Val.int m) :: rest := rfl
      have e2 : keep ++ Expr.const (Val.int m) :: e :: rest =
          keep ++ Expr.const (Val.int m) :: (e :: rest) := rfl
      rw [gsum_pull h.op, gsum_pull h.op]
      simp

theorem mulGo_none (A : Arith) (rest : List Expr) :
    ∀ (m d : Int) (keep : List Expr),
      (∀ e ∈ rest, noRecip e = true) → (∀ e ∈ rest, constNonNum e = false) →
      mulGo A m d keep rest = none → Expr.const (.int 0) ∈ rest := by
  induction rest with
  | nil => intro m d keep _ _ hgo; simp [mulGo] at hgo
  | cons e rest ih =>
    intro m d keep hr hck hgo
    have hr' : ∀ e ∈ rest, noRecip e = true := fun x hx => hr x (List.mem_cons_of_mem _ hx)
    have hck' : ∀ e ∈ rest, constNonNum e = false := fun x hx => hck x (List.mem_cons_of_mem _ hx)
    by_cases hc : isConst e = true
    · cases e with
      | const c =>
        obtain ⟨n, rfl⟩ := constNonNum_const (hck _ (List.mem_cons_self ..))
        rw [mulGo_const] at hgo
        by_cases hn : n = 0
        · subst hn; exact List.mem_cons_self ..
        · simp only [hn, if_false] at hgo
          exact List.mem_cons_of_mem _ (ih _ _ _ hr' hck' hgo)
      | _ => simp [isConst] at hc
    · have hc' : isConst e = false := by simpa using hc
      rw [mulGo_other A m d keep rest e hc' (hr e (List.mem_cons_self ..))] at hgo
      exact List.mem_cons_of_mem _ (ih _ _ _ hr' hck' hgo)

theorem keepOK_udc {e : Expr} (h : keepOK e) : unaryDivOrConstant e = false := by
  obtain ⟨h1, h2⟩ := h
  cases e with
  | const c => simp [isConst] at h1
  | unary u x => cases u <;> first | rfl | simp [noRecip] at h2
  | _ => rfl

theorem noRecip_const (v : Val) : noRecip (.const v) = true := rfl

theorem fNary_mul_sound {A : Arith} (h : LawfulMul A) (env : List Val) (es : List Expr)
    (e' : Expr) (h2 : 2 ≤ es.length) (hr : ∀ e ∈ es, noRecip e = true)
    (hz : Expr.const (.int 0) ∈ es → ∀ e ∈ es, ∃ n, numOf A env e = some n)
    (hf : fNary A .mul es = .ok e') : eval A env e' = eval A env (.nary .mul es) := by
  rw [eval_mul_gsum h env es h2 hr]
  match es, h2 with
  | e0 :: e1 :: rest, _ =>
    simp only [fNary] at hf
    by_cases hck : ckMath (e0 :: e1 :: rest) = true
    · simp only [hck, if_true] at hf
      have hck' : ∀ e ∈ e0 :: e1 :: rest, constNonNum e = false := by
        intro e he
        have := List.all_eq_true.mp hck e he
        simpa using this
      simp only [foldMul] at hf
      cases hgo : mulGo A 1 1 [] (e0 :: e1 :: rest) with
      | none =>
        have hm := mulGo_none A _ _ _ _ hr hck' hgo
        rw [gsum_absorb h.op 0 h.zero A env _ hm (hz hm)]
        simp only [hgo] at hf
        cases hf
        simp [eval]
      | some r =>
        obtain ⟨m, d, keep⟩ := r
        obtain ⟨hd, hk, hs⟩ := mulGo_sound h env _ _ _ _ _ _ _ hr hck' (fun _ hx => by cases hx) hgo
        subst hd
        have hs' : gsum A.mul 1 A env (keep ++ [.const (.int m)]) =
            gsum A.mul 1 A env (e0 :: e1 :: rest) := by
          rw [hs]; exact gsum_drop h.op A env [] _
        rw [← hs']
        simp only [hgo] at hf
        have hone : ∀ a, A.mul 1 a = a := fun a => by rw [h.comm, h.one]
        match keep, hk, hf with
        | [], _, hf =>
          simp [unaryDivOrConstant] at hf
          cases hf
          simp [eval, gsum, numsOf, numOf, hone]
        | [e], hk, hf =>
          have hu := keepOK_udc (hk e (List.mem_cons_self ..))
          have hre := (hk e (List.mem_cons_self ..)).2
          by_cases hm : m = 1
          · subst hm
            simp [hu] at hf
            cases hf
            rw [eval_mul_gsum h env _ (by simp) (by
              intro x hx; simp at hx; rcases hx with hx | hx <;> subst hx <;> first | exact hre | rfl)]
            rfl
          · simp [hm] at hf
            cases hf
            rw [eval_mul_gsum h env _ (by simp) (by
              intro x hx; simp at hx; rcases hx with hx | hx <;> subst hx <;> first | exact hre | rfl)]
            rfl
        | a :: b :: t, hk, hf =>
          by_cases hm : m = 1
          · subst hm
            simp at hf
            cases hf
            rw [eval_mul_gsum h env _ (by simp) (fun x hx => (hk x hx).2)]
            have := gsum_drop h.op A env (a :: b :: t) []
            simp only [List.append_nil] at this
            rw [← this]
          · simp [hm] at hf
            cases hf
            rw [eval_mul_gsum h env _ (by simp) (by
              intro x hx
              have hx' : x ∈ (a :: b :: t) ++ [.const (.int m)] := by simpa using hx
              rcases List.mem_append.mp hx' with hx | hx
              · exact (hk x hx).2
              · simp at hx; subst hx; rfl)]
            simp
    · simp [hck] at hf

/-! ## `commutative` for an operator whose fold constants are a real identity / absorbing element -/

/-- what the generic proof needs of an operator handled by `commutative` + `evalFold` -/
structure CommOp (A : Arith) (op : NOp) (f : Int → Int → Int) (i : Int) (C : Int → Prop) : Prop where
  law : LawfulOp f i C
  hop : nop A op = f
  hbop : ∀ a b, bopOf A op a b = nbin A op a b
  hzero : ∀ c, zeroOf op = some c → ∃ z, c = .int z
  hev : ∀ env e0 rest, eval A env (.nary op (e0 :: rest)) =
    match eval A env e0 with
    | some v => evalFold A env op v rest
    | none => none

section comm
variable {A : Arith} {op : NOp} {f : Int → Int → Int} {i : Int} {C : Int → Prop}

theorem eval_gsum (h : CommOp A op f i C) (env : List Val) (l : List Expr) (h2 : 2 ≤ l.length) :
    eval A env (.nary op l) = (gsum f i A env l).map Val.int := by
  match l, h2 with
  | e0 :: e1 :: rest, _ =>
    rw [h.hev]
    exact evalFold_gsum h.law A op h.hop env e0 e1 rest

theorem nestedNary_some {op : NOp} {e : Expr} {es2 : List Expr}
    (h : nestedNary op e = some es2) : e = .unary .paren (.nary op es2) := by
  unfold nestedNary at h
  split at h
  · rename_i op2 es
    by_cases ho : op2 = op
    · subst ho; simp at h; subst h; rfl
    · simp [ho] at h
  · cases h

theorem gfoldl_splice {f : Int → Int → Int} {i : Int} {C : Int → Prop} (h : LawfulOp f i C)
    (a : Int) (ha : C a) (ns : List Int) :
    List.foldl f a ns = f a (List.foldl f i ns) := by
  have : f i a = a := by rw [h.comm, h.ident a ha]
  rw [h.comm a, ← gfoldl_pull h, this]

/-- a parenthesised nested list of the same operator (at least two operands) evaluates like its
operands spliced in place -/
theorem gsum_splice (h : CommOp A op f i C) (env : List Val) (X R es2 : List Expr)
    (hl : 2 ≤ es2.length) :
    gsum f i A env (X ++ .unary .paren (.nary op es2) :: R) = gsum f i A env (X ++ (es2 ++ R)) := by
  have hn : numOf A env (.unary .paren (.nary op es2)) = gsum f i A env es2 := by
    simp only [numOf, eval_paren, eval_gsum h env es2 hl]
    cases gsum f i A env es2 <;> rfl
  simp only [gsum, numsOf_append, numsOf, hn]
  cases hx : numsOf A env X with
  | none => simp
  | some x =>
    cases h2 : numsOf A env es2 with
    | none => simp
    | some ns =>
      cases numsOf A env R with
      | none => simp
      | some r =>
        simp only [Option.map_some, List.foldl_append, List.foldl]
        rw [gfoldl_splice h.law _ (gfoldl_C h.law x i h.law.ci) ns]

theorem commGo_gen (h : CommOp A op f i C) (j : Int) (hj : identOf op = .int j)
    (env : List Val) (rest : List Expr) :
    ∀ (pre : List Expr) (k : Option Val) (post : List Expr) (res : CommRes),
      (j = i ∨ Expr.const (.int j) ∉ rest) →
      (∀ e ∈ rest, ∀ es2, nestedNary op e = some es2 → 2 ≤ es2.length) →
      (∀ e ∈ rest, constNonNum e = false) →
      (∀ v, k = some v → ∃ a, v = .int a) → (k = none → post = []) →
      commGo A op pre k post rest = .ok res →
      (∃ pre' k' post', res = .list pre' k' post' ∧ (∀ v, k' = some v → ∃ a, v = .int a) ∧
        (k' = none → post' = []) ∧
        gsum f i A env (curList pre' k' post' []) = gsum f i A env (curList pre k post rest)) ∨
      (∃ z, res = .zero (.int z) ∧ zeroOf op = some (.int z) ∧ Expr.const (.int z) ∈ rest) := by
  induction rest with
  | nil =>
    intro pre k post res _ _ _ hk hp hgo
    simp only [commGo] at hgo
    cases hgo
    exact .inl ⟨pre, k, post, rfl, hk, hp, rfl⟩
  | cons e rest ih =>
    intro pre k post res hji hnn hck hk hp hgo
    have hji' : j = i ∨ Expr.const (.int j) ∉ rest := by
      rcases hji with h1 | h1
      · exact .inl h1
      · exact .inr (fun hx => h1 (List.mem_cons_of_mem _ hx))
    have hnn' : ∀ e ∈ rest, ∀ es2, nestedNary op e = some es2 → 2 ≤ es2.length :=
      fun x hx => hnn x (List.mem_cons_of_mem _ hx)
    have hck' : ∀ e ∈ rest, constNonNum e = false := fun x hx => hck x (List.mem_cons_of_mem _ hx)
    have lift : ∀ {X : Prop}, (X ∨ ∃ z, res = .zero (.int z) ∧ zeroOf op = some (.int z) ∧
        Expr.const (.int z) ∈ rest) → (X ∨ ∃ z, res = .zero (.int z) ∧ zeroOf op = some (.int z) ∧
        Expr.const (.int z) ∈ e :: rest) := by
      intro X hx
      rcases hx with hx | ⟨z, h1, h2, h3⟩
      · exact .inl hx
      · exact .inr ⟨z, h1, h2, List.mem_cons_of_mem _ h3⟩
    cases hne : nestedNary op e with
    | some es2 =>
      have hl := hnn _ (List.mem_cons_self ..) es2 hne
      have hee := nestedNary_some hne
      subst hee
      simp only [commGo, hne] at hgo
      refine lift ?_
      cases k with
      | none =>
        simp only at hgo
        have hpost := hp rfl
        subst hpost
        rcases ih (pre ++ es2) none [] res hji' hnn' hck' hk (fun _ => rfl) hgo with
          ⟨p', k', q', hr, hk', hp', hd⟩ | hzr
        · refine .inl ⟨p', k', q', hr, hk', hp', ?_⟩
          rw [hd]
          have := gsum_splice h env pre rest es2 hl
          simpa [curList, kList] using this.symm
        · exact .inr hzr
      | some v =>
        simp only at hgo
        rcases ih pre (some v) (post ++ es2) res hji' hnn' hck' hk (fun hh => by cases hh) hgo with
          ⟨p', k', q', hr, hk', hp', hd⟩ | hzr
        · refine .inl ⟨p', k', q', hr, hk', hp', ?_⟩
          rw [hd]
          have := gsum_splice h env (pre ++ Expr.const v :: post) rest es2 hl
          simpa [curList, kList] using this.symm
        · exact .inr hzr
    | none =>
    by_cases hc : isConst e = true
    · cases e with
      | const c =>
        obtain ⟨n, rfl⟩ := constNonNum_const (hck _ (List.mem_cons_self ..))
        rw [commGo_const] at hgo
        by_cases hzc : zeroOf op = some (.int n)
        · simp only [hzc, if_true] at hgo
          cases hgo
          exact .inr ⟨n, rfl, hzc, List.mem_cons_self ..⟩
        · simp only [hzc, if_false, hj] at hgo
          by_cases hz : n = j
          · subst hz
            have hni : n = i := by
              rcases hji with h1 | h1
              · exact h1
              · exact absurd (List.mem_cons_self ..) h1
            subst hni
            simp only [if_true] at hgo
            refine lift ?_
            rcases ih pre k post res hji' hnn' hck' hk hp hgo with ⟨p', k', q', hr, hk', hp', hd⟩ | hzr
            · refine .inl ⟨p', k', q', hr, hk', hp', ?_⟩
              rw [hd]
              have e1 : curList pre k post (Expr.const (Val.int n) :: rest) =
                  (pre ++ kList k ++ post) ++ Expr.const (Val.int n) :: rest := by
                simp [curList]
              rw [e1, gsum_drop h.law]
              simp [curList]
            · exact .inr hzr
          · have hne : ¬ (Val.int n = Val.int j) := by intro hh; cases hh; exact hz rfl
            simp only [hne, if_false] at hgo
            refine lift ?_
            cases k with
            | none =>
              simp only at hgo
              have hpost := hp rfl
              subst hpost
              rcases ih pre (some (.int n)) [] res hji' hnn' hck' (fun v hv => by cases hv; exact ⟨n, rfl⟩)
                  (fun hh => by cases hh) hgo with ⟨p', k', q', hr, hk', hp', hd⟩ | hzr
              · refine .inl ⟨p', k', q', hr, hk', hp', ?_⟩
                rw [hd]
                simp [curList, kList]
              · exact .inr hzr
            | some v =>
              obtain ⟨a, rfl⟩ := hk v rfl
              simp only [h.hbop, nbin, toNum_int, h.hop] at hgo
              rcases ih pre (some (.int (f a n))) post res hji' hnn' hck'
                  (fun v hv => by cases hv; exact ⟨_, rfl⟩) (fun hh => by cases hh) hgo with
                ⟨p', k', q', hr, hk', hp', hd⟩ | hzr
              · refine .inl ⟨p', k', q', hr, hk', hp', ?_⟩
                rw [hd]
                have := gsum_merge h.law A env pre post rest a n
                simpa [curList, kList] using this
              · exact .inr hzr
      | _ => simp [isConst] at hc
    · have hc' : isConst e = false := by simpa using hc
      rw [commGo_nonconst A op pre k post rest e hc' hne] at hgo
      refine lift ?_
      cases k with
      | none =>
        simp only at hgo
        have hpost := hp rfl
        subst hpost
        rcases ih (pre ++ [e]) none [] res hji' hnn' hck' hk (fun _ => rfl) hgo with
          ⟨p', k', q', hr, hk', hp', hd⟩ | hzr
        · refine .inl ⟨p', k', q', hr, hk', hp', ?_⟩
          rw [hd]
          simp [curList, kList]
        · exact .inr hzr
      | some v =>
        simp only at hgo
        rcases ih pre (some v) (post ++ [e]) res hji' hnn' hck' hk (fun hh => by cases hh) hgo with
          ⟨p', k', q', hr, hk', hp', hd⟩ | hzr
        · refine .inl ⟨p', k', q', hr, hk', hp', ?_⟩
          rw [hd]
          simp [curList, kList]
        · exact .inr hzr

/-- number of operands `commutative` keeps when no identity constant is dropped -/
theorem commGo_len (A : Arith) (op : NOp) (rest : List Expr) :
    ∀ (pre : List Expr) (k : Option Val) (post pre' : List Expr) (k' : Option Val)
      (post' : List Expr),
      (∀ e ∈ rest, ∀ es2, nestedNary op e = some es2 → 2 ≤ es2.length) →
      Expr.const (identOf op) ∉ rest →
      commGo A op pre k post rest = .ok (.list pre' k' post') →
      pre.length + post.length + (rest.filter (fun e => !isConst e)).length ≤
        pre'.length + post'.length ∧
      (k' = none → k = none ∧ ∀ e ∈ rest, isConst e = false) := by
  induction rest with
  | nil =>
    intro pre k post pre' k' post' _ _ hgo
    simp only [commGo] at hgo
    cases hgo
    exact ⟨by simp, fun hk => ⟨hk, fun _ hx => by cases hx⟩⟩
  | cons e rest ih =>
    intro pre k post pre' k' post' hnn hni hgo
    have hnn' : ∀ e ∈ rest, ∀ es2, nestedNary op e = some es2 → 2 ≤ es2.length :=
      fun x hx => hnn x (List.mem_cons_of_mem _ hx)
    have hni' : Expr.const (identOf op) ∉ rest := fun hx => hni (List.mem_cons_of_mem _ hx)
    cases hne : nestedNary op e with
    | some es2 =>
      have hl := hnn _ (List.mem_cons_self ..) es2 hne
      have hee := nestedNary_some hne
      subst hee
      simp only [commGo, hne] at hgo
      cases k with
      | none =>
        simp only at hgo
        obtain ⟨h1, h2⟩ := ih _ _ _ _ _ _ hnn' hni' hgo
        refine ⟨?_, fun hk => ⟨rfl, ?_⟩⟩
        · simp only [List.filter_cons, isConst, Bool.not_false, if_true, List.length_cons,
            List.length_append] at h1 ⊢
          omega
        · intro x hx
          rcases List.mem_cons.mp hx with hx | hx
          · subst hx; rfl
          · exact (h2 hk).2 x hx
      | some v =>
        simp only at hgo
        obtain ⟨h1, h2⟩ := ih _ _ _ _ _ _ hnn' hni' hgo
        refine ⟨?_, fun hk => ?_⟩
        · simp only [List.filter_cons, isConst, Bool.not_false, if_true, List.length_cons,
            List.length_append] at h1 ⊢
          omega
        · have := (h2 hk).1
          cases this
    | none =>
    by_cases hc : isConst e = true
    · cases e with
      | const c =>
        rw [commGo_const] at hgo
        by_cases hzc : zeroOf op = some c
        · simp only [hzc, if_true] at hgo; cases hgo
        · have hci : ¬ c = identOf op := by
            intro hh; subst hh; exact hni (List.mem_cons_self ..)
          simp only [hzc, hci, if_false] at hgo
          cases k with
          | none =>
            simp only at hgo
            obtain ⟨h1, h2⟩ := ih _ _ _ _ _ _ hnn' hni' hgo
            refine ⟨by simpa [isConst] using h1, fun hk => ?_⟩
            have := (h2 hk).1
            cases this
          | some a =>
            simp only at hgo
            cases hb : bopOf A op a c with
            | none => simp [hb] at hgo
            | some r =>
              simp only [hb] at hgo
              obtain ⟨h1, h2⟩ := ih _ _ _ _ _ _ hnn' hni' hgo
              refine ⟨by simpa [isConst] using h1, fun hk => ?_⟩
              have := (h2 hk).1
              cases this
      | _ => simp [isConst] at hc
    · have hc' : isConst e = false := by simpa using hc
      rw [commGo_nonconst A op pre k post rest e hc' hne] at hgo
      cases k with
      | none =>
        simp only at hgo
        obtain ⟨h1, h2⟩ := ih _ _ _ _ _ _ hnn' hni' hgo
        refine ⟨?_, fun hk => ⟨rfl, ?_⟩⟩
        · simp only [List.filter_cons, hc', Bool.not_false, if_true, List.length_cons,
            List.length_append, List.length_nil] at h1 ⊢
          omega
        · intro x hx
          rcases List.mem_cons.mp hx with hx | hx
          · subst hx; exact hc'
          · exact (h2 hk).2 x hx
      | some v =>
        simp only at hgo
        obtain ⟨h1, h2⟩ := ih _ _ _ _ _ _ hnn' hni' hgo
        refine ⟨?_, fun hk => ?_⟩
        · simp only [List.filter_cons, hc', Bool.not_false, if_true, List.length_cons,
            List.length_append, List.length_nil] at h1 ⊢
          omega
        · have := (h2 hk).1
          cases this

/-- the final step of `fNary`: a one-element result is the element itself -/
def wrapN (op : NOp) : List Expr → Expr
  | [e] => e
  | es => .nary op es

theorem wrapN_two (op : NOp) (l : List Expr) (h2 : 2 ≤ l.length) : wrapN op l = .nary op l := by
  match l, h2 with
  | e0 :: e1 :: rest, _ => rfl

theorem commutative_sound (h : CommOp A op f i C) (j : Int) (hj : identOf op = .int j)
    (env : List Val) (es es' : List Expr)
    (h2 : 2 ≤ es.length)
    (hnn : ∀ e ∈ es, ∀ es2, nestedNary op e = some es2 → 2 ≤ es2.length)
    (hck : ∀ e ∈ es, constNonNum e = false)
    (hji : j = i ∨ (Expr.const (.int j) ∉ es ∧ ∃ e ∈ es, isConst e = false))
    (habs : ∀ z, zeroOf op = some (.int z) → Expr.const (.int z) ∈ es →
      (∀ a, f a z = z) ∧ ∀ e ∈ es, ∃ n, numOf A env e = some n)
    (hf : commutative A op es = .ok es') :
    eval A env (wrapN op es') = eval A env (.nary op es) := by
  rw [eval_gsum h env es h2]
  simp only [commutative] at hf
  cases hgo : commGo A op [] none [] es with
  | error x => simp [hgo] at hf
  | ok res =>
    have hji1 : j = i ∨ Expr.const (.int j) ∉ es := by
      rcases hji with h1 | h1
      · exact .inl h1
      · exact .inr h1.1
    rcases commGo_gen h j hj env es [] none [] res hji1 hnn hck (fun v hv => by cases hv)
        (fun _ => rfl) hgo
      with ⟨p', k', q', hr, hk', hp', hd⟩ | ⟨z, hr, hz, hm⟩
    · subst hr
      -- when the fold identity is not the real one, no fix-up applies: two operands are kept
      have hgood : j = i ∨ 2 ≤ p'.length + q'.length + (kList k').length := by
        rcases hji with h1 | ⟨hnot, e, he, hec⟩
        · exact .inl h1
        · right
          obtain ⟨l1, l2⟩ := commGo_len A op es [] none [] p' k' q' hnn (by rw [hj]; exact hnot) hgo
          have hpos : 0 < (es.filter (fun e => !isConst e)).length :=
            List.length_pos_of_mem (List.mem_filter.mpr ⟨he, by simp [hec]⟩)
          cases k' with
          | none =>
            have hall := (l2 rfl).2
            have : es.filter (fun e => !isConst e) = es :=
              List.filter_eq_self.mpr (fun x hx => by simp [hall x hx])
            rw [this] at l1
            simp only [kList, List.length_nil, List.length_nil] at l1 ⊢
            omega
          | some v =>
            simp only [kList, List.length_cons, List.length_nil] at l1 ⊢
            omega
      have hd' : gsum f i A env (curList p' k' q' []) = gsum f i A env es := by
        rw [hd]; simp [curList, kList]
      rw [← hd']
      simp only [hgo] at hf
      cases k' with
      | none =>
        have hq := hp' rfl
        subst hq
        match p', hf, hgood with
        | [], hf, hgood =>
          rcases hgood with hji2 | hl
          · subst hji2
            simp only [hj] at hf
            cases hf
            simp [wrapN, eval, curList, kList, gsum, numsOf]
          · simp [kList] at hl
        | [e], hf, hgood =>
          rcases hgood with hji2 | hl
          · subst hji2
            simp only [hj] at hf
            cases hf
            rw [wrapN_two _ _ (by simp), eval_gsum h env _ (by simp)]
            have := gsum_drop h.law A env [e] []
            simp only [List.append_nil, List.cons_append, List.nil_append] at this
            rw [this]
            simp [curList, kList]
          · simp [kList] at hl
        | a :: b :: t, hf, _ =>
          cases hf
          rw [wrapN_two _ _ (by simp), eval_gsum h env _ (by simp)]
          simp [curList, kList]
      | some v =>
        obtain ⟨a, rfl⟩ := hk' v rfl
        match p', q', hf, hgood with
        | [], [], hf, hgood =>
          rcases hgood with hji2 | hl
          · subst hji2
            simp only [h.hbop, hj, nbin, toNum_int, h.hop] at hf
            cases hf
            simp [wrapN, eval, curList, kList, gsum, numsOf, numOf, List.foldl]
          · simp [kList] at hl
        | [], y :: q, hf, _ =>
          cases hf
          rw [wrapN_two _ _ (by simp), eval_gsum h env _ (by simp)]
          simp [curList, kList]
        | [x], q, hf, _ =>
          cases hf
          rw [wrapN_two _ _ (by simp), eval_gsum h env _ (by simp)]
          simp [curList, kList]
        | x :: y :: p, q, hf, _ =>
          cases hf
          rw [wrapN_two _ _ (by simp), eval_gsum h env _ (by simp)]
          simp [curList, kList]
    · subst hr
      simp only [hgo] at hf
      cases hf
      obtain ⟨habs1, hnum⟩ := habs z hz hm
      rw [gsum_absorb h.law z habs1 A env es hm hnum]
      simp [wrapN, eval]

end comm


/-! ## `|` and `^` on 64-bit integers -/

theorem bv_toInt (x : BitVec 64) : bv x.toInt = x := by simp [bv]

/-- integers that are their own 64-bit two's complement reading -/
def canon64 (a : Int) : Prop := (bv a).toInt = a

theorem bitor_lawful (A : Arith) : LawfulOp (nop A .bitor) 0 canon64 :=
  ⟨fun a b c => by simp only [nop, bv_toInt, BitVec.or_assoc],
   fun a b => by simp only [nop, BitVec.or_comm],
   by simp [canon64, bv],
   fun a b => by simp only [canon64, nop, bv_toInt],
   fun a ha => by
     have : bv 0 = 0#64 := by simp [bv]
     simp only [nop, this, BitVec.or_zero]; exact ha⟩

theorem bitxor_lawful (A : Arith) : LawfulOp (nop A .bitxor) 0 canon64 :=
  ⟨fun a b c => by simp only [nop, bv_toInt, BitVec.xor_assoc],
   fun a b => by simp only [nop, BitVec.xor_comm],
   by simp [canon64, bv],
   fun a b => by simp only [canon64, nop, bv_toInt],
   fun a ha => by
     have : bv 0 = 0#64 := by simp [bv]
     simp only [nop, this, BitVec.xor_zero]; exact ha⟩

theorem bitor_commOp (A : Arith) : CommOp A .bitor (nop A .bitor) 0 canon64 :=
  ⟨bitor_lawful A, rfl, fun _ _ => rfl,
   fun c hc => by simp only [zeroOf, Option.some.injEq] at hc; exact ⟨_, hc.symm⟩,
   fun env e0 rest => by simp only [eval]; cases eval A env e0 <;> rfl⟩

theorem bitxor_commOp (A : Arith) : CommOp A .bitxor (nop A .bitxor) 0 canon64 :=
  ⟨bitxor_lawful A, rfl, fun _ _ => rfl,
   fun c hc => by simp [zeroOf] at hc,
   fun env e0 rest => by simp only [eval]; cases eval A env e0 <;> rfl⟩

theorem add_commOp {A : Arith} (h : LawfulAdd A) : CommOp A .add A.add 0 (fun _ => True) :=
  ⟨⟨h.assoc, h.comm, trivial, fun _ _ => trivial, fun a _ => h.zero a⟩, rfl, fun _ _ => rfl,
   fun c hc => by simp [zeroOf] at hc,
   fun env e0 rest => by simp only [eval]; cases eval A env e0 <;> rfl⟩

theorem fNary_match (op : NOp) (es' : List Expr) (e' : Expr)
    (hf : (match (Except.ok es' : Except FoldErr (List Expr)) with
      | .error x => (.error x : FR)
      | .ok [e] => .ok e
      | .ok es' => .ok (.nary op es')) = .ok e') : e' = wrapN op es' := by
  match es', hf with
  | [], hf => cases hf; rfl
  | [e], hf => cases hf; rfl
  | a :: b :: t, hf => cases hf; rfl

/-- `|` and `^`: the fold is sound when the 32-bit constant `0xffffffff`, which `commutative`
takes for the absorbing element of `|`, is not an operand (KF-C30-5). -/
theorem fNary_bit_sound (A : Arith) (op : NOp) (hop : op = .bitor ∨ op = .bitxor)
    (env : List Val) (es : List Expr) (e' : Expr) (h2 : 2 ≤ es.length)
    (hnn : ∀ e ∈ es, ∀ es2, nestedNary op e = some es2 → 2 ≤ es2.length)
    (h32 : Expr.const (.int allones) ∉ es)
    (hf : fNary A op es = .ok e') : eval A env e' = eval A env (.nary op es) := by
  match es, h2 with
  | e0 :: e1 :: rest, h2 =>
    rcases hop with rfl | rfl
    · simp only [fNary] at hf
      by_cases hck : ckMath (e0 :: e1 :: rest) = true
      · simp only [hck, if_true] at hf
        have hck' : ∀ e ∈ e0 :: e1 :: rest, constNonNum e = false := by
          intro e he
          have := List.all_eq_true.mp hck e he
          simpa using this
        cases hc : commutative A .bitor (e0 :: e1 :: rest) with
        | error x => simp [hc] at hf
        | ok es' =>
          rw [hc] at hf
          rw [fNary_match _ _ _ hf]
          refine commutative_sound (bitor_commOp A) 0 rfl env _ es' h2 hnn hck' (.inl rfl) ?_ hc
          intro z hz hm
          simp only [zeroOf, Option.some.injEq, Val.int.injEq] at hz
          subst hz
          exact absurd hm h32
      · simp [hck] at hf
    · simp only [fNary] at hf
      by_cases hck : ckMath (e0 :: e1 :: rest) = true
      · simp only [hck, if_true] at hf
        have hck' : ∀ e ∈ e0 :: e1 :: rest, constNonNum e = false := by
          intro e he
          have := List.all_eq_true.mp hck e he
          simpa using this
        cases hc : commutative A .bitxor (e0 :: e1 :: rest) with
        | error x => simp [hc] at hf
        | ok es' =>
          rw [hc] at hf
          rw [fNary_match _ _ _ hf]
          refine commutative_sound (bitxor_commOp A) 0 rfl env _ es' h2 hnn hck' (.inl rfl) ?_ hc
          intro z hz hm
          simp [zeroOf] at hz
      · simp [hck] at hf

/-! ## `$` : foldCat -/

theorem evalCat_append (A : Arith) (env : List Val) (xs ys : List Expr) :
    evalCat A env (xs ++ ys) =
      match evalCat A env xs, evalCat A env ys with
      | some a, some b => some (a ++ b)
      | _, _ => none := by
  induction xs with
  | nil => simp [evalCat]; cases evalCat A env ys <;> rfl
  | cons x xs ih =>
    simp only [List.cons_append, evalCat, ih]
    cases eval A env x <;> cases evalCat A env xs <;> cases evalCat A env ys <;> simp

theorem catGo_nonconst (out : List Expr) (cur : Option Val) (e : Expr) (rest : List Expr)
    (hc : isConst e = false) :
    catGo out cur (e :: rest) =
      match cur with
      | some c => catGo (out ++ [.const c, e]) none rest
      | none => catGo (out ++ [e]) none rest := by
  cases e <;> first | (simp [isConst] at hc; done) | (cases cur <;> simp [catGo])

theorem catGo_eval (A : Arith) (env : List Val) (rest : List Expr) :
    ∀ (out : List Expr) (cur : Option Val),
      evalCat A env (catGo out cur rest) = evalCat A env (out ++ kList cur ++ rest) := by
  induction rest with
  | nil => intro out cur; cases cur <;> simp [catGo, kList]
  | cons e rest ih =>
    intro out cur
    by_cases hc : isConst e = true
    · cases e with
      | const c =>
        cases cur with
        | none => simp only [catGo]; rw [ih]; simp [kList]
        | some a =>
          simp only [catGo]; rw [ih]
          simp only [kList, List.append_assoc, evalCat_append, List.cons_append, List.nil_append,
            evalCat, eval, asStr]
          cases evalCat A env out <;> cases evalCat A env rest <;> simp
      | _ => simp [isConst] at hc
    · have hc' : isConst e = false := by simpa using hc
      rw [catGo_nonconst out cur e rest hc']
      cases cur with
      | none => simp only; rw [ih]; simp [kList]
      | some c => simp only; rw [ih]; simp [kList]

theorem catGo_single (rest : List Expr) :
    ∀ (out : List Expr) (cur : Option Val) (e : Expr), catGo out cur rest = [e] →
      (∃ s, e = .const (.str s)) ∨ out ++ kList cur ++ rest = [e] := by
  induction rest with
  | nil => intro out cur e h; cases cur <;> simp [catGo] at h <;> simp [kList, h]
  | cons x rest ih =>
    intro out cur e h
    by_cases hc : isConst x = true
    · cases x with
      | const c =>
        cases cur with
        | none =>
          simp only [catGo] at h
          rcases ih _ _ _ h with h1 | h1
          · exact .inl h1
          · exact .inr (by simpa [kList] using h1)
        | some a =>
          simp only [catGo] at h
          rcases ih _ _ _ h with h1 | h1
          · exact .inl h1
          · left
            cases out with
            | nil =>
              simp [kList] at h1
              exact ⟨_, h1.1.symm⟩
            | cons o os => simp [kList] at h1
      | _ => simp [isConst] at hc
    · have hc' : isConst x = false := by simpa using hc
      rw [catGo_nonconst out cur x rest hc'] at h
      cases cur with
      | none =>
        rcases ih _ _ _ h with h1 | h1
        · exact .inl h1
        · exact .inr (by simpa [kList] using h1)
      | some c =>
        rcases ih _ _ _ h with h1 | h1
        · exact .inl h1
        · exact .inr (by simpa [kList] using h1)

theorem eval_cat (A : Arith) (env : List Val) (l : List Expr) :
    eval A env (.nary .cat l) = (evalCat A env l).map Val.str := by
  simp only [eval]; cases evalCat A env l <;> rfl

theorem fNary_cat_sound (A : Arith) (env : List Val) (es : List Expr) (e' : Expr)
    (h2 : 2 ≤ es.length) (hf : fNary A .cat es = .ok e') :
    eval A env e' = eval A env (.nary .cat es) := by
  have hev : evalCat A env (foldCat es) = evalCat A env es := by
    simp [foldCat, catGo_eval, kList]
  match es, h2 with
  | e0 :: e1 :: rest, h2 =>
    simp only [fNary] at hf
    have he' := fNary_match _ _ _ hf
    rw [eval_cat, ← hev]
    match hfc : foldCat (e0 :: e1 :: rest) with
    | [] => rw [hfc] at he'; subst he'; simp [wrapN, eval_cat]
    | [e] =>
      rw [hfc] at he'
      simp only [wrapN] at he'
      subst he'
      rcases catGo_single _ _ _ _ hfc with ⟨s, hs⟩ | h1
      · subst hs; simp [eval, evalCat, asStr]
      · simp [kList] at h1
    | a :: b :: t => rw [hfc] at he'; subst he'; simp [wrapN, eval_cat]

/-- `+`/`-` including the flattening of parenthesised nested `+` lists -/
theorem fNary_add_sound_flat {A : Arith} (h : LawfulAdd A) (env : List Val) (es : List Expr)
    (e' : Expr) (h2 : 2 ≤ es.length)
    (hnn : ∀ e ∈ es, ∀ es2, nestedNary .add e = some es2 → 2 ≤ es2.length)
    (hf : fNary A .add es = .ok e') : eval A env e' = eval A env (.nary .add es) := by
  match es, h2 with
  | e0 :: e1 :: rest, h2 =>
    simp only [fNary] at hf
    by_cases hck : ckMath (e0 :: e1 :: rest) = true
    · simp only [hck, if_true] at hf
      have hck' : ∀ e ∈ e0 :: e1 :: rest, constNonNum e = false := by
        intro e he
        have := List.all_eq_true.mp hck e he
        simpa using this
      cases hc : commutative A .add (e0 :: e1 :: rest) with
      | error x => simp [hc] at hf
      | ok es' =>
        rw [hc] at hf
        rw [fNary_match _ _ _ hf]
        refine commutative_sound (add_commOp h) 0 rfl env _ es' h2 hnn hck' (.inl rfl) ?_ hc
        intro z hz hm
        simp [zeroOf] at hz
    · simp [hck] at hf

/-! ## `&` on 64-bit integers: the real identity is -1, the fold identity `0xffffffff` is not -/

theorem bv_neg_one : bv (-1) = BitVec.allOnes 64 := by decide

theorem bitand_lawful (A : Arith) : LawfulOp (nop A .bitand) (-1) canon64 :=
  ⟨fun a b c => by simp only [nop, bv_toInt, BitVec.and_assoc],
   fun a b => by simp only [nop, BitVec.and_comm],
   by simp only [canon64, bv_neg_one]; decide,
   fun a b => by simp only [canon64, nop, bv_toInt],
   fun a ha => by simp only [nop, bv_neg_one, BitVec.and_allOnes]; exact ha⟩

theorem bitand_commOp (A : Arith) : CommOp A .bitand (nop A .bitand) (-1) canon64 :=
  ⟨bitand_lawful A, rfl, fun _ _ => rfl,
   fun c hc => by simp only [zeroOf, Option.some.injEq] at hc; exact ⟨_, hc.symm⟩,
   fun env e0 rest => by simp only [eval]; cases eval A env e0 <;> rfl⟩

theorem bitand_zero (A : Arith) (a : Int) : nop A .bitand a 0 = 0 := by
  have : bv 0 = 0#64 := by simp [bv]
  simp [nop, this]

/-- `&`: sound when `0xffffffff` (the fold identity, KF-C30-5) is not an operand and not all
operands are constants — then `commutative` neither drops an "identity" nor applies a fix-up. -/
theorem fNary_bitand_sound (A : Arith) (env : List Val) (es : List Expr) (e' : Expr)
    (h2 : 2 ≤ es.length)
    (hnn : ∀ e ∈ es, ∀ es2, nestedNary .bitand e = some es2 → 2 ≤ es2.length)
    (h32 : Expr.const (.int allones) ∉ es) (hnc : ∃ e ∈ es, isConst e = false)
    (hz : Expr.const (.int 0) ∈ es → ∀ e ∈ es, ∃ n, numOf A env e = some n)
    (hf : fNary A .bitand es = .ok e') : eval A env e' = eval A env (.nary .bitand es) := by
  match es, h2 with
  | e0 :: e1 :: rest, h2 =>
    simp only [fNary] at hf
    by_cases hck : ckMath (e0 :: e1 :: rest) = true
    · simp only [hck, if_true] at hf
      have hck' : ∀ e ∈ e0 :: e1 :: rest, constNonNum e = false := by
        intro e he
        have := List.all_eq_true.mp hck e he
        simpa using this
      cases hc : commutative A .bitand (e0 :: e1 :: rest) with
      | error x => simp [hc] at hf
      | ok es' =>
        rw [hc] at hf
        rw [fNary_match _ _ _ hf]
        refine commutative_sound (bitand_commOp A) allones rfl env _ es' h2 hnn hck'
          (.inr ⟨h32, hnc⟩) ?_ hc
        intro z hzz hm
        simp only [zeroOf, Option.some.injEq, Val.int.injEq] at hzz
        subst hzz
        exact ⟨bitand_zero A, hz hm⟩
    · simp [hck] at hf

/-! ## `and` / `or` on boolean operands -/

/-- the operand evaluates to a boolean -/
def isB (A : Arith) (env : List Val) (e : Expr) : Prop := ∃ b, eval A env e = some (.bool b)

/-- truth value of an operand (false when it is not `true`) -/
def tv (A : Arith) (env : List Val) (e : Expr) : Bool :=
  match eval A env e with
  | some (.bool true) => true
  | _ => false

/-- order-free value of a boolean operand list -/
def bsum (g : Bool → Bool → Bool) (i : Bool) (A : Arith) (env : List Val) (l : List Expr) : Bool :=
  l.foldr (fun e acc => g (tv A env e) acc) i

structure BoolOp (A : Arith) (op : NOp) (g : Bool → Bool → Bool) (i : Bool) : Prop where
  hz : zeroOf op = some (.bool !i)
  hid : identOf op = .bool i
  assoc : ∀ a b c, g (g a b) c = g a (g b c)
  comm : ∀ a b, g a b = g b a
  ident : ∀ a, g a i = a
  absorb : ∀ a, g a (!i) = !i
  hev : ∀ env l, l ≠ [] → (∀ e ∈ l, isB A env e) →
    eval A env (.nary op l) = some (.bool (bsum g i A env l))

theorem tv_const (A : Arith) (env : List Val) (b : Bool) : tv A env (.const (.bool b)) = b := by
  cases b <;> simp [tv, eval]

theorem isB_const {A : Arith} {env : List Val} {c : Val} (h : isB A env (.const c)) :
    ∃ b, c = .bool b := by
  obtain ⟨b, hb⟩ := h
  simp only [eval, Option.some.injEq] at hb
  exact ⟨b, hb⟩

theorem evalAnd_bsum (A : Arith) (env : List Val) (l : List Expr) (hne : l ≠ [])
    (hb : ∀ e ∈ l, isB A env e) :
    evalAnd A env l = some (.bool (bsum (· && ·) true A env l)) := by
  induction l with
  | nil => exact absurd rfl hne
  | cons e rest ih =>
    obtain ⟨b, he⟩ := hb e (List.mem_cons_self ..)
    have hb' : ∀ e ∈ rest, isB A env e := fun x hx => hb x (List.mem_cons_of_mem _ hx)
    simp only [evalAnd, he, bsum, List.foldr, tv]
    cases b with
    | false => simp
    | true =>
      cases rest with
      | nil => simp
      | cons y r =>
        simp only
        rw [ih (by simp) hb']
        simp only [bsum, List.foldr, Bool.true_and]
        rfl

theorem evalOr_bsum (A : Arith) (env : List Val) (l : List Expr) (hne : l ≠ [])
    (hb : ∀ e ∈ l, isB A env e) :
    evalOr A env l = some (.bool (bsum (· || ·) false A env l)) := by
  induction l with
  | nil => exact absurd rfl hne
  | cons e rest ih =>
    obtain ⟨b, he⟩ := hb e (List.mem_cons_self ..)
    have hb' : ∀ e ∈ rest, isB A env e := fun x hx => hb x (List.mem_cons_of_mem _ hx)
    simp only [evalOr, he, bsum, List.foldr, tv]
    cases b with
    | true => simp
    | false =>
      cases rest with
      | nil => simp
      | cons y r =>
        simp only
        rw [ih (by simp) hb']
        simp only [bsum, List.foldr, Bool.false_or]
        rfl

theorem and_boolOp (A : Arith) : BoolOp A .and (· && ·) true :=
  ⟨rfl, rfl, by decide, by decide, by decide, by decide,
   fun env l hne hb => by simp only [eval]; exact evalAnd_bsum A env l hne hb⟩

theorem or_boolOp (A : Arith) : BoolOp A .or (· || ·) false :=
  ⟨rfl, rfl, by decide, by decide, by decide, by decide,
   fun env l hne hb => by simp only [eval]; exact evalOr_bsum A env l hne hb⟩

section boolcomm
variable {A : Arith} {op : NOp} {g : Bool → Bool → Bool} {i : Bool}

theorem bsum_append (h : BoolOp A op g i) (env : List Val) (xs ys : List Expr) :
    bsum g i A env (xs ++ ys) = g (bsum g i A env xs) (bsum g i A env ys) := by
  induction xs with
  | nil => simp only [List.nil_append, bsum, List.foldr]; rw [h.comm, h.ident]
  | cons x xs ih =>
    simp only [bsum, List.cons_append, List.foldr] at ih ⊢
    rw [ih, h.assoc]

theorem bsum_absorb (h : BoolOp A op g i) (env : List Val) (l : List Expr)
    (hm : Expr.const (.bool !i) ∈ l) : bsum g i A env l = !i := by
  induction l with
  | nil => cases hm
  | cons e rest ih =>
    simp only [bsum, List.foldr]
    rcases List.mem_cons.mp hm with hx | hx
    · subst hx; rw [tv_const, h.comm, h.absorb]
    · have := ih hx
      simp only [bsum] at this
      rw [this, h.absorb]

theorem tv_nested (h : BoolOp A op g i) (env : List Val) (es2 : List Expr)
    (hl : 2 ≤ es2.length) (hb : ∀ x ∈ es2, isB A env x) :
    tv A env (.unary .paren (.nary op es2)) = bsum g i A env es2 := by
  have hne : es2 ≠ [] := by intro hh; subst hh; simp at hl
  simp only [tv, eval_paren, h.hev env es2 hne hb]
  cases bsum g i A env es2 <;> rfl

theorem commGo_bool (h : BoolOp A op g i) (env : List Val) (rest : List Expr) :
    ∀ (pre : List Expr) (res : CommRes),
      (∀ e ∈ rest, ∀ es2, nestedNary op e = some es2 →
        2 ≤ es2.length ∧ ∀ x ∈ es2, isB A env x) →
      (∀ e ∈ rest, isB A env e) → (∀ e ∈ pre, isB A env e) →
      commGo A op pre none [] rest = .ok res →
      (∃ pre', res = .list pre' none [] ∧ (∀ e ∈ pre', isB A env e) ∧
        bsum g i A env pre' = bsum g i A env (pre ++ rest)) ∨
      (res = .zero (.bool !i) ∧ Expr.const (.bool !i) ∈ rest) := by
  induction rest with
  | nil =>
    intro pre res _ _ hpre hgo
    simp only [commGo] at hgo
    cases hgo
    exact .inl ⟨pre, rfl, hpre, by simp⟩
  | cons e rest ih =>
    intro pre res hnn hb hpre hgo
    have hnn' : ∀ e ∈ rest, ∀ es2, nestedNary op e = some es2 →
        2 ≤ es2.length ∧ ∀ x ∈ es2, isB A env x := fun x hx => hnn x (List.mem_cons_of_mem _ hx)
    have hb' : ∀ e ∈ rest, isB A env e := fun x hx => hb x (List.mem_cons_of_mem _ hx)
    cases hne : nestedNary op e with
    | some es2 =>
      obtain ⟨hl, hb2⟩ := hnn _ (List.mem_cons_self ..) es2 hne
      have hee := nestedNary_some hne
      subst hee
      simp only [commGo, hne] at hgo
      have hpre2 : ∀ x ∈ pre ++ es2, isB A env x := by
        intro x hx
        rcases List.mem_append.mp hx with h1 | h1
        · exact hpre x h1
        · exact hb2 x h1
      rcases ih (pre ++ es2) res hnn' hb' hpre2 hgo with ⟨p', hr, hbp, hd⟩ | ⟨hr, hm⟩
      · refine .inl ⟨p', hr, hbp, ?_⟩
        rw [hd, bsum_append h, bsum_append h, bsum_append h]
        have : bsum g i A env (Expr.unary UOp.paren (Expr.nary op es2) :: rest) =
            g (bsum g i A env es2) (bsum g i A env rest) := by
          simp only [bsum, List.foldr]
          rw [tv_nested h env es2 hl hb2]
          rfl
        rw [this, h.assoc]
      · exact .inr ⟨hr, List.mem_cons_of_mem _ hm⟩
    | none =>
    by_cases hc : isConst e = true
    · cases e with
      | const c =>
        obtain ⟨b, rfl⟩ := isB_const (hb _ (List.mem_cons_self ..))
        rw [commGo_const] at hgo
        simp only [h.hz, h.hid, Option.some.injEq, Val.bool.injEq] at hgo
        by_cases hbz : (!i) = b
        · simp only [hbz, if_true] at hgo
          cases hgo
          subst hbz
          exact .inr ⟨rfl, List.mem_cons_self ..⟩
        · have hbi : b = i := by cases b <;> cases i <;> simp_all
          subst hbi
          simp only [hbz, if_false, if_true] at hgo
          rcases ih pre res hnn' hb' hpre hgo with ⟨p', hr, hbp, hd⟩ | ⟨hr, hm⟩
          · refine .inl ⟨p', hr, hbp, ?_⟩
            rw [hd, bsum_append h, bsum_append h]
            congr 1
            simp only [bsum, List.foldr]
            rw [tv_const, h.comm b, h.ident]
          · exact .inr ⟨hr, List.mem_cons_of_mem _ hm⟩
      | _ => simp [isConst] at hc
    · have hc' : isConst e = false := by simpa using hc
      rw [commGo_nonconst A op pre none [] rest e hc' hne] at hgo
      simp only at hgo
      have hpre2 : ∀ x ∈ pre ++ [e], isB A env x := by
        intro x hx
        rcases List.mem_append.mp hx with h1 | h1
        · exact hpre x h1
        · simp at h1; subst h1; exact hb _ (List.mem_cons_self ..)
      rcases ih (pre ++ [e]) res hnn' hb' hpre2 hgo with ⟨p', hr, hbp, hd⟩ | ⟨hr, hm⟩
      · refine .inl ⟨p', hr, hbp, ?_⟩
        rw [hd]; simp
      · exact .inr ⟨hr, List.mem_cons_of_mem _ hm⟩

theorem commutative_bool_sound (h : BoolOp A op g i) (env : List Val) (es es' : List Expr)
    (h2 : 2 ≤ es.length)
    (hnn : ∀ e ∈ es, ∀ es2, nestedNary op e = some es2 →
      2 ≤ es2.length ∧ ∀ x ∈ es2, isB A env x)
    (hb : ∀ e ∈ es, isB A env e)
    (hf : commutative A op es = .ok es') :
    eval A env (wrapN op es') = eval A env (.nary op es) := by
  have hne : es ≠ [] := by intro hh; subst hh; simp at h2
  rw [h.hev env es hne hb]
  simp only [commutative] at hf
  cases hgo : commGo A op [] none [] es with
  | error x => simp [hgo] at hf
  | ok res =>
    rcases commGo_bool h env es [] res hnn hb (fun _ hx => by cases hx) hgo with
      ⟨p', hr, hbp, hd⟩ | ⟨hr, hm⟩
    · subst hr
      simp only [List.nil_append] at hd
      rw [← hd]
      simp only [hgo] at hf
      match p', hbp, hf with
      | [], _, hf =>
        simp only [h.hid] at hf
        cases hf
        simp [wrapN, eval, bsum]
      | [e], hbp, hf =>
        simp only [h.hid] at hf
        cases hf
        rw [wrapN_two _ _ (by simp), h.hev env _ (by simp)]
        · simp only [bsum, List.foldr, tv_const, h.ident]
        · intro x hx
          simp at hx
          rcases hx with hx | hx
          · subst hx; exact hbp _ (List.mem_cons_self ..)
          · subst hx; exact ⟨i, rfl⟩
      | a :: b :: t, hbp, hf =>
        cases hf
        rw [wrapN_two _ _ (by simp), h.hev env _ (by simp) hbp]
    · subst hr
      simp only [hgo] at hf
      cases hf
      rw [bsum_absorb h env es hm]
      simp [wrapN, eval]

end boolcomm

/-- `and` / `or` with operands that all evaluate to booleans -/
theorem fNary_andor_sound (A : Arith) (op : NOp) (hop : op = .and ∨ op = .or)
    (env : List Val) (es : List Expr) (e' : Expr) (h2 : 2 ≤ es.length)
    (hnn : ∀ e ∈ es, ∀ es2, nestedNary op e = some es2 →
      2 ≤ es2.length ∧ ∀ x ∈ es2, ∃ b, eval A env x = some (.bool b))
    (hb : ∀ e ∈ es, ∃ b, eval A env e = some (.bool b))
    (hf : fNary A op es = .ok e') : eval A env e' = eval A env (.nary op es) := by
  match es, h2 with
  | e0 :: e1 :: rest, h2 =>
    rcases hop with rfl | rfl
    · simp only [fNary] at hf
      cases hc : commutative A .and (e0 :: e1 :: rest) with
      | error x => simp [hc] at hf
      | ok es' =>
        rw [hc] at hf
        rw [fNary_match _ _ _ hf]
        exact commutative_bool_sound (and_boolOp A) env _ es' h2 hnn hb hc
    · simp only [fNary] at hf
      cases hc : commutative A .or (e0 :: e1 :: rest) with
      | error x => simp [hc] at hf
      | ok es' =>
        rw [hc] at hf
        rw [fNary_match _ _ _ hf]
        exact commutative_bool_sound (or_boolOp A) env _ es' h2 hnn hb hc

end Gsu.LangFold
