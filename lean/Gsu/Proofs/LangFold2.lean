/-
C30, second part: soundness of the n-ary folds for `*` (foldMul without reciprocals), `| & ^`
(commutative, 64-bit run-time operators), `and`/`or` (boolean operands) and `$` (foldCat), about
the same definitions of `Gsu.Model.LangFold` the driver executes. Core Lean only.
-/
import Gsu.Proofs.LangFold
namespace Gsu.LangFold

/-! ## a commutative monoid on a carrier `C` of the integers -/

/-- laws of an n-ary operator function `f` with identity `i`; the identity law is only required on
a carrier `C` that contains `i` and every result of `f` (for the 64-bit operators: the integers
that are their own 64-bit two's complement reading). -/
structure LawfulOp (f : Int → Int → Int) (i : Int) (C : Int → Prop) : Prop where
  assoc : ∀ a b c, f (f a b) c = f a (f b c)
  comm : ∀ a b, f a b = f b a
  ci : C i
  cf : ∀ a b, C (f a b)
  ident : ∀ a, C a → f a i = a

def gsum (f : Int → Int → Int) (i : Int) (A : Arith) (env : List Val) (es : List Expr) :
    Option Int :=
  (numsOf A env es).map (List.foldl f i)

section generic
variable {f : Int → Int → Int} {i : Int} {C : Int → Prop}

theorem gfoldl_pull (h : LawfulOp f i C) (l : List Int) (a c : Int) :
    List.foldl f (f a c) l = f (List.foldl f a l) c := by
  induction l generalizing a with
  | nil => rfl
  | cons x xs ih =>
    simp only [List.foldl]
    rw [← ih]
    congr 1
    rw [h.assoc, h.assoc, h.comm c x]

theorem gfoldl_C (h : LawfulOp f i C) (l : List Int) (a : Int) (ha : C a) :
    C (List.foldl f a l) := by
  induction l generalizing a with
  | nil => exact ha
  | cons x xs ih => exact ih _ (h.cf _ _)

theorem gfoldl_start (h : LawfulOp f i C) (x y : Int) (ns : List Int) :
    List.foldl f x (y :: ns) = List.foldl f i (x :: y :: ns) := by
  simp only [List.foldl]
  congr 1
  rw [h.assoc, h.comm i, h.ident _ (h.cf _ _)]

theorem gfoldl_absorb (h : LawfulOp f i C) (z : Int) (hz : ∀ a, f a z = z) (l : List Int)
    (a : Int) (hm : z ∈ l) : List.foldl f a l = z := by
  induction l generalizing a with
  | nil => cases hm
  | cons x xs ih =>
    simp only [List.foldl]
    rcases List.mem_cons.mp hm with hx | hx
    · subst hx
      rw [hz]
      clear ih hm
      induction xs with
      | nil => rfl
      | cons y ys ih2 => simp only [List.foldl]; rw [h.comm, hz]; exact ih2
    · exact ih _ hx

/-- the left fold of the run time over at least two operands, in the order-free form -/
theorem evalFold_gsum (h : LawfulOp f i C) (A : Arith) (op : NOp) (hop : nop A op = f)
    (env : List Val) (e0 e1 : Expr) (rest : List Expr) :
    (match eval A env e0 with
      | some v => evalFold A env op v (e1 :: rest)
      | none => none) = (gsum f i A env (e0 :: e1 :: rest)).map Val.int := by
  simp only [gsum, numsOf, numOf]
  cases h0 : eval A env e0 with
  | none => simp
  | some v0 =>
    simp only [evalFold, Option.bind_some]
    cases h1 : eval A env e1 with
    | none => cases toNum v0 <;> simp
    | some v1 =>
      simp only [nbin, Option.bind_some]
      cases toNum v0 with
      | none => simp
      | some x =>
        cases toNum v1 with
        | none => simp
        | some y =>
          simp only [evalFold_int, hop]
          cases numsOf A env rest with
          | none => simp
          | some ns =>
            simp only [Option.map_some]
            show some (Val.int (List.foldl f x (y :: ns))) = _
            rw [gfoldl_start h x y ns]

theorem gsum_pull (h : LawfulOp f i C) (A : Arith) (env : List Val) (P R : List Expr) (c : Int) :
    gsum f i A env (P ++ .const (.int c) :: R) = (gsum f i A env (P ++ R)).map (fun s => f s c) := by
  simp only [gsum, numsOf_append, numsOf, numOf, eval, Option.bind_some, toNum]
  cases numsOf A env P with
  | none => simp
  | some p =>
    cases numsOf A env R with
    | none => simp
    | some r =>
      simp only [Option.map_some, List.foldl_append, List.foldl]
      rw [gfoldl_pull h]

theorem gsum_C (h : LawfulOp f i C) (A : Arith) (env : List Val) (l : List Expr) (s : Int)
    (hs : gsum f i A env l = some s) : C s := by
  simp only [gsum] at hs
  cases hn : numsOf A env l with
  | none => simp [hn] at hs
  | some ns =>
    simp [hn] at hs
    subst hs
    exact gfoldl_C h ns i h.ci

/-- dropping an identity constant -/
theorem gsum_drop (h : LawfulOp f i C) (A : Arith) (env : List Val) (P R : List Expr) :
    gsum f i A env (P ++ .const (.int i) :: R) = gsum f i A env (P ++ R) := by
  rw [gsum_pull h]
  cases hs : gsum f i A env (P ++ R) with
  | none => rfl
  | some s => simp [h.ident s (gsum_C h A env _ s hs)]

/-- merging two constants -/
theorem gsum_merge (h : LawfulOp f i C) (A : Arith) (env : List Val) (P Q R : List Expr)
    (a n : Int) :
    gsum f i A env (P ++ .const (.int (f a n)) :: (Q ++ R)) =
      gsum f i A env (P ++ .const (.int a) :: (Q ++ .const (.int n) :: R)) := by
  have e2 : P ++ Expr.const (Val.int a) :: (Q ++ Expr.const (Val.int n) :: R) =
      (P ++ Expr.const (Val.int a) :: Q) ++ Expr.const (Val.int n) :: R := by simp
  have e3 : P ++ Expr.const (Val.int a) :: Q ++ R = P ++ Expr.const (Val.int a) :: (Q ++ R) := by
    simp
  rw [e2, gsum_pull h, gsum_pull h, e3, gsum_pull h]
  cases gsum f i A env (P ++ (Q ++ R)) <;> simp [h.assoc]

/-- with an absorbing constant among numeric operands the value is that constant -/
theorem gsum_absorb (h : LawfulOp f i C) (z : Int) (hz : ∀ a, f a z = z) (A : Arith)
    (env : List Val) (l : List Expr) (hm : Expr.const (.int z) ∈ l)
    (hnum : ∀ e ∈ l, ∃ n, numOf A env e = some n) : gsum f i A env l = some z := by
  have key : ∃ ns, numsOf A env l = some ns ∧ z ∈ ns := by
    clear h hz
    induction l with
    | nil => cases hm
    | cons e es ih =>
      obtain ⟨n, hn⟩ := hnum e (List.mem_cons_self ..)
      have hnum' : ∀ e ∈ es, ∃ n, numOf A env e = some n :=
        fun x hx => hnum x (List.mem_cons_of_mem _ hx)
      rcases List.mem_cons.mp hm with hx | hx
      · subst hx
        have : ∃ ns, numsOf A env es = some ns := by
          clear ih hm hnum hn
          induction es with
          | nil => exact ⟨[], rfl⟩
          | cons y ys ih =>
            obtain ⟨m, hm⟩ := hnum' y (List.mem_cons_self ..)
            obtain ⟨ms, hms⟩ := ih (fun x hx => hnum' x (List.mem_cons_of_mem _ hx))
            exact ⟨m :: ms, by simp [numsOf, hm, hms]⟩
        obtain ⟨ns, hns⟩ := this
        refine ⟨z :: ns, ?_, List.mem_cons_self ..⟩
        simp [numsOf, numOf, eval, hns]
      · obtain ⟨ns, hns, hz⟩ := ih hx hnum'
        exact ⟨n :: ns, by simp [numsOf, hn, hns], List.mem_cons_of_mem _ hz⟩
  obtain ⟨ns, hns, hmem⟩ := key
  simp [gsum, hns, gfoldl_absorb h z hz ns i hmem]

end generic

/-! ## `*` : foldMul without reciprocal operands -/

structure LawfulMul (A : Arith) : Prop where
  assoc : ∀ a b c, A.mul (A.mul a b) c = A.mul a (A.mul b c)
  comm : ∀ a b, A.mul a b = A.mul b a
  one : ∀ a, A.mul a 1 = a
  zero : ∀ a, A.mul a 0 = 0

theorem exactA_lawfulMul : LawfulMul exactA :=
  ⟨fun a b c => by simp [exactA, Int.mul_assoc], fun a b => by simp [exactA, Int.mul_comm],
   fun a => by simp [exactA], fun a => by simp [exactA]⟩

theorem LawfulMul.op {A : Arith} (h : LawfulMul A) : LawfulOp A.mul 1 (fun _ => True) :=
  ⟨h.assoc, h.comm, trivial, fun _ _ => trivial, fun a _ => h.one a⟩

/-- an operand that is neither a reciprocal `/ e` nor a unary operator applied to a constant
(`unaryDivConst` of folder.go takes the latter for a constant divisor whatever the operator; the
parser never hands one to `foldMul` because `Folder.Unary` has already evaluated it) -/
def noRecip : Expr → Bool
  | .unary .div _ => false
  | .unary _ (.const _) => false
  | _ => true

theorem noRecip_notdiv {e : Expr} (h : noRecip e = true) (x : Expr) : e ≠ .unary .div x := by
  intro he; subst he; simp [noRecip] at h

theorem evalMulDiv_norecip (A : Arith) (env : List Val) (rest : List Expr) (acc : Val)
    (hr : ∀ e ∈ rest, noRecip e = true) :
    evalMulDiv A env acc none rest = evalFold A env .mul acc rest := by
  induction rest generalizing acc with
  | nil => simp [evalMulDiv, evalFold]
  | cons e rest ih =>
    have hr' : ∀ e ∈ rest, noRecip e = true := fun x hx => hr x (List.mem_cons_of_mem _ hx)
    have hne := noRecip_notdiv (hr e (List.mem_cons_self ..))
    rw [evalMulDiv.eq_def]
    simp only [evalFold]
    cases eval A env e with
    | none => rfl
    | some v =>
      simp only
      cases nbin A .mul acc v with
      | none => rfl
      | some r => exact ih r hr'

theorem eval_mul_gsum {A : Arith} (h : LawfulMul A) (env : List Val) (l : List Expr)
    (h2 : 2 ≤ l.length) (hr : ∀ e ∈ l, noRecip e = true) :
    eval A env (.nary .mul l) = (gsum A.mul 1 A env l).map Val.int := by
  match l, h2 with
  | e0 :: e1 :: rest, _ =>
    rw [← evalFold_gsum h.op A .mul rfl env e0 e1 rest]
    simp only [eval]
    cases eval A env e0 with
    | none => rfl
    | some v =>
      exact evalMulDiv_norecip A env (e1 :: rest) v (fun x hx => hr x (List.mem_cons_of_mem _ hx))

theorem mulGo_const (A : Arith) (m d : Int) (keep rest : List Expr) (n : Int) :
    mulGo A m d keep (.const (.int n) :: rest) =
      if n = 0 then none else mulGo A (A.mul m n) d keep rest := by
  by_cases hn : n = 0
  · subst hn; simp [mulGo]
  · simp only [hn, if_false]
    rw [mulGo.eq_def]
    split
    · rename_i heq; cases heq
    · rename_i heq; cases heq
    · rename_i heq; cases heq; exact absurd rfl hn
    · rename_i c r hc heq
      cases heq
      simp
    · rename_i e r h1 h2 h3 heq
      cases heq
      exact absurd rfl (h3 _)

theorem mulGo_other (A : Arith) (m d : Int) (keep rest : List Expr) (e : Expr)
    (hc : isConst e = false) (hr : noRecip e = true) :
    mulGo A m d keep (e :: rest) = mulGo A m d (keep ++ [e]) rest := by
  rw [mulGo.eq_def]
  split
  · rename_i heq; cases heq
  · rename_i u c r heq
    cases heq
    cases u <;> simp [noRecip] at hr
  · rename_i heq; cases heq; simp [isConst] at hc
  · rename_i c r hc2 heq; cases heq; simp [isConst] at hc
  · rename_i e2 r h1 h2 h3 heq
    cases heq
    rfl

/-- operands kept by the scan: not constants, not reciprocals -/
def keepOK (e : Expr) : Prop := isConst e = false ∧ noRecip e = true

theorem mulGo_sound {A : Arith} (h : LawfulMul A) (env : List Val) (rest : List Expr) :
    ∀ (m d : Int) (keep : List Expr) (m' d' : Int) (keep' : List Expr),
      (∀ e ∈ rest, noRecip e = true) → (∀ e ∈ rest, constNonNum e = false) →
      (∀ e ∈ keep, keepOK e) →
      mulGo A m d keep rest = some (m', d', keep') →
      d' = d ∧ (∀ e ∈ keep', keepOK e) ∧
        gsum A.mul 1 A env (keep' ++ [.const (.int m')]) =
          gsum A.mul 1 A env (keep ++ .const (.int m) :: rest) := by
  induction rest with
  | nil =>
    intro m d keep m' d' keep' _ _ hk hgo
    simp only [mulGo] at hgo
    cases hgo
    exact ⟨rfl, hk, rfl⟩
  | cons e rest ih =>
    intro m d keep m' d' keep' hr hck hk hgo
    have hr' : ∀ e ∈ rest, noRecip e = true := fun x hx => hr x (List.mem_cons_of_mem _ hx)
    have hck' : ∀ e ∈ rest, constNonNum e = false := fun x hx => hck x (List.mem_cons_of_mem _ hx)
    by_cases hc : isConst e = true
    · cases e with
      | const c =>
        obtain ⟨n, rfl⟩ := constNonNum_const (hck _ (List.mem_cons_self ..))
        rw [mulGo_const] at hgo
        by_cases hn : n = 0
        · simp [hn] at hgo
        · simp only [hn, if_false] at hgo
          obtain ⟨hd, hk', hs⟩ := ih _ _ _ _ _ _ hr' hck' hk hgo
          refine ⟨hd, hk', ?_⟩
          rw [hs]
          have := gsum_merge h.op A env keep [] rest m n
          simpa using this
      | _ => simp [isConst] at hc
    · have hc' : isConst e = false := by simpa using hc
      have hre := hr e (List.mem_cons_self ..)
      rw [mulGo_other A m d keep rest e hc' hre] at hgo
      have hk2 : ∀ x ∈ keep ++ [e], keepOK x := by
        intro x hx
        rcases List.mem_append.mp hx with hx | hx
        · exact hk x hx
        · simp at hx; subst hx; exact ⟨hc', hre⟩
      obtain ⟨hd, hk', hs⟩ := ih _ _ _ _ _ _ hr' hck' hk2 hgo
      refine ⟨hd, hk', ?_⟩
      rw [hs]
      have e1 : keep ++ [e] ++ Expr.const (Val.int m) :: rest =
          (keep ++ [e]) ++ Expr.const (Val.int m) :: rest := rfl
      have e2 : keep ++ Expr.const (Val.int m) :: e :: rest =
          keep ++ Expr.const (Val.int m) :: (e :: rest) := rfl
      rw [gsum_pull h.op, gsum_pull h.op]
      simp

theorem mulGo_none (A : Arith) (rest : List Expr) :
    ∀ (m d : Int) (keep : List Expr),
      (∀ e ∈ rest, noRecip e = true) → (∀ e ∈ rest, constNonNum e = false) →
      mulGo A m d keep rest = none → Expr.const (.int 0) ∈ rest := by
  induction rest with
  | nil => intro m d keep _ _ hgo; simp [mulGo] at hgo
  | cons e rest ih =>
    intro m d keep hr hck hgo
    have hr' : ∀ e ∈ rest, noRecip e = true := fun x hx => hr x (List.mem_cons_of_mem _ hx)
    have hck' : ∀ e ∈ rest, constNonNum e = false := fun x hx => hck x (List.mem_cons_of_mem _ hx)
    by_cases hc : isConst e = true
    · cases e with
      | const c =>
        obtain ⟨n, rfl⟩ := constNonNum_const (hck _ (List.mem_cons_self ..))
        rw [mulGo_const] at hgo
        by_cases hn : n = 0
        · subst hn; exact List.mem_cons_self ..
        · simp only [hn, if_false] at hgo
          exact List.mem_cons_of_mem _ (ih _ _ _ hr' hck' hgo)
      | _ => simp [isConst] at hc
    · have hc' : isConst e = false := by simpa using hc
      rw [mulGo_other A m d keep rest e hc' (hr e (List.mem_cons_self ..))] at hgo
      exact List.mem_cons_of_mem _ (ih _ _ _ hr' hck' hgo)

theorem keepOK_udc {e : Expr} (h : keepOK e) : unaryDivOrConstant e = false := by
  obtain ⟨h1, h2⟩ := h
  cases e with
  | const c => simp [isConst] at h1
  | unary u x => cases u <;> first | rfl | simp [noRecip] at h2
  | _ => rfl

theorem noRecip_const (v : Val) : noRecip (.const v) = true := rfl

theorem fNary_mul_sound {A : Arith} (h : LawfulMul A) (env : List Val) (es : List Expr)
    (e' : Expr) (h2 : 2 ≤ es.length) (hr : ∀ e ∈ es, noRecip e = true)
    (hz : Expr.const (.int 0) ∈ es → ∀ e ∈ es, ∃ n, numOf A env e = some n)
    (hf : fNary A .mul es = .ok e') : eval A env e' = eval A env (.nary .mul es) := by
  rw [eval_mul_gsum h env es h2 hr]
  match es, h2 with
  | e0 :: e1 :: rest, _ =>
    simp only [fNary] at hf
    by_cases hck : ckMath (e0 :: e1 :: rest) = true
    · simp only [hck, if_true] at hf
      have hck' : ∀ e ∈ e0 :: e1 :: rest, constNonNum e = false := by
        intro e he
        have := List.all_eq_true.mp hck e he
        simpa using this
      simp only [foldMul] at hf
      cases hgo : mulGo A 1 1 [] (e0 :: e1 :: rest) with
      | none =>
        have hm := mulGo_none A _ _ _ _ hr hck' hgo
        rw [gsum_absorb h.op 0 h.zero A env _ hm (hz hm)]
        simp only [hgo] at hf
        cases hf
        simp [eval]
      | some r =>
        obtain ⟨m, d, keep⟩ := r
        obtain ⟨hd, hk, hs⟩ := mulGo_sound h env _ _ _ _ _ _ _ hr hck' (fun _ hx => by cases hx) hgo
        subst hd
        have hs' : gsum A.mul 1 A env (keep ++ [.const (.int m)]) =
            gsum A.mul 1 A env (e0 :: e1 :: rest) := by
          rw [hs]; exact gsum_drop h.op A env [] _
        rw [← hs']
        simp only [hgo] at hf
        have hone : ∀ a, A.mul 1 a = a := fun a => by rw [h.comm, h.one]
        match keep, hk, hf with
        | [], _, hf =>
          simp [unaryDivOrConstant] at hf
          cases hf
          simp [eval, gsum, numsOf, numOf, hone]
        | [e], hk, hf =>
          have hu := keepOK_udc (hk e (List.mem_cons_self ..))
          have hre := (hk e (List.mem_cons_self ..)).2
          by_cases hm : m = 1
          · subst hm
            simp [hu] at hf
            cases hf
            rw [eval_mul_gsum h env _ (by simp) (by
              intro x hx; simp at hx; rcases hx with hx | hx <;> subst hx <;> first | exact hre | rfl)]
            rfl
          · simp [hm] at hf
            cases hf
            rw [eval_mul_gsum h env _ (by simp) (by
              intro x hx; simp at hx; rcases hx with hx | hx <;> subst hx <;> first | exact hre | rfl)]
            rfl
        | a :: b :: t, hk, hf =>
          by_cases hm : m = 1
          · subst hm
            simp at hf
            cases hf
            rw [eval_mul_gsum h env _ (by simp) (fun x hx => (hk x hx).2)]
            have := gsum_drop h.op A env (a :: b :: t) []
            simp only [List.append_nil] at this
            rw [← this]
          · simp [hm] at hf
            cases hf
            rw [eval_mul_gsum h env _ (by simp) (by
              intro x hx
              have hx' : x ∈ (a :: b :: t) ++ [.const (.int m)] := by simpa using hx
              rcases List.mem_append.mp hx' with hx | hx
              · exact (hk x hx).2
              · simp at hx; subst hx; rfl)]
            simp
    · simp [hck] at hf

/-! ## `commutative` for an operator whose fold constants are a real identity / absorbing element -/

/-- what the generic proof needs of an operator handled by `commutative` + `evalFold` -/
structure CommOp (A : Arith) (op : NOp) (f : Int → Int → Int) (i : Int) (C : Int → Prop) : Prop where
  law : LawfulOp f i C
  hop : nop A op = f
  hid : identOf op = .int i
  hbop : ∀ a b, bopOf A op a b = nbin A op a b
  hzero : ∀ c, zeroOf op = some c → ∃ z, c = .int z
  hev : ∀ env e0 rest, eval A env (.nary op (e0 :: rest)) =
    match eval A env e0 with
    | some v => evalFold A env op v rest
    | none => none

section comm
variable {A : Arith} {op : NOp} {f : Int → Int → Int} {i : Int} {C : Int → Prop}

theorem eval_gsum (h : CommOp A op f i C) (env : List Val) (l : List Expr) (h2 : 2 ≤ l.length) :
    eval A env (.nary op l) = (gsum f i A env l).map Val.int := by
  match l, h2 with
  | e0 :: e1 :: rest, _ =>
    rw [h.hev]
    exact evalFold_gsum h.law A op h.hop env e0 e1 rest

theorem commGo_gen (h : CommOp A op f i C) (env : List Val) (rest : List Expr) :
    ∀ (pre : List Expr) (k : Option Val) (post : List Expr) (res : CommRes),
      (∀ e ∈ rest, nestedNary op e = none) → (∀ e ∈ rest, constNonNum e = false) →
      (∀ v, k = some v → ∃ a, v = .int a) → (k = none → post = []) →
      commGo A op pre k post rest = .ok res →
      (∃ pre' k' post', res = .list pre' k' post' ∧ (∀ v, k' = some v → ∃ a, v = .int a) ∧
        (k' = none → post' = []) ∧
        gsum f i A env (curList pre' k' post' []) = gsum f i A env (curList pre k post rest)) ∨
      (∃ z, res = .zero (.int z) ∧ zeroOf op = some (.int z) ∧ Expr.const (.int z) ∈ rest) := by
  induction rest with
  | nil =>
    intro pre k post res _ _ hk hp hgo
    simp only [commGo] at hgo
    cases hgo
    exact .inl ⟨pre, k, post, rfl, hk, hp, rfl⟩
  | cons e rest ih =>
    intro pre k post res hnn hck hk hp hgo
    have hnn' : ∀ e ∈ rest, nestedNary op e = none := fun x hx => hnn x (List.mem_cons_of_mem _ hx)
    have hck' : ∀ e ∈ rest, constNonNum e = false := fun x hx => hck x (List.mem_cons_of_mem _ hx)
    have lift : ∀ {X : Prop}, (X ∨ ∃ z, res = .zero (.int z) ∧ zeroOf op = some (.int z) ∧
        Expr.const (.int z) ∈ rest) → (X ∨ ∃ z, res = .zero (.int z) ∧ zeroOf op = some (.int z) ∧
        Expr.const (.int z) ∈ e :: rest) := by
      intro X hx
      rcases hx with hx | ⟨z, h1, h2, h3⟩
      · exact .inl hx
      · exact .inr ⟨z, h1, h2, List.mem_cons_of_mem _ h3⟩
    by_cases hc : isConst e = true
    · cases e with
      | const c =>
        obtain ⟨n, rfl⟩ := constNonNum_const (hck _ (List.mem_cons_self ..))
        rw [commGo_const] at hgo
        by_cases hzc : zeroOf op = some (.int n)
        · simp only [hzc, if_true] at hgo
          cases hgo
          exact .inr ⟨n, rfl, hzc, List.mem_cons_self ..⟩
        · simp only [hzc, if_false, h.hid] at hgo
          by_cases hz : n = i
          · subst hz
            simp only [if_true] at hgo
            refine lift ?_
            rcases ih pre k post res hnn' hck' hk hp hgo with ⟨p', k', q', hr, hk', hp', hd⟩ | hzr
            · refine .inl ⟨p', k', q', hr, hk', hp', ?_⟩
              rw [hd]
              have e1 : curList pre k post (Expr.const (Val.int n) :: rest) =
                  (pre ++ kList k ++ post) ++ Expr.const (Val.int n) :: rest := by
                simp [curList]
              rw [e1, gsum_drop h.law]
              simp [curList]
            · exact .inr hzr
          · have hne : ¬ (Val.int n = Val.int i) := by intro hh; cases hh; exact hz rfl
            simp only [hne, if_false] at hgo
            refine lift ?_
            cases k with
            | none =>
              simp only at hgo
              have hpost := hp rfl
              subst hpost
              rcases ih pre (some (.int n)) [] res hnn' hck' (fun v hv => by cases hv; exact ⟨n, rfl⟩)
                  (fun hh => by cases hh) hgo with ⟨p', k', q', hr, hk', hp', hd⟩ | hzr
              · refine .inl ⟨p', k', q', hr, hk', hp', ?_⟩
                rw [hd]
                simp [curList, kList]
              · exact .inr hzr
            | some v =>
              obtain ⟨a, rfl⟩ := hk v rfl
              simp only [h.hbop, nbin, toNum_int, h.hop] at hgo
              rcases ih pre (some (.int (f a n))) post res hnn' hck'
                  (fun v hv => by cases hv; exact ⟨_, rfl⟩) (fun hh => by cases hh) hgo with
                ⟨p', k', q', hr, hk', hp', hd⟩ | hzr
              · refine .inl ⟨p', k', q', hr, hk', hp', ?_⟩
                rw [hd]
                have := gsum_merge h.law A env pre post rest a n
                simpa [curList, kList] using this
              · exact .inr hzr
      | _ => simp [isConst] at hc
    · have hc' : isConst e = false := by simpa using hc
      rw [commGo_nonconst A op pre k post rest e hc' (hnn _ (List.mem_cons_self ..))] at hgo
      refine lift ?_
      cases k with
      | none =>
        simp only at hgo
        have hpost := hp rfl
        subst hpost
        rcases ih (pre ++ [e]) none [] res hnn' hck' hk (fun _ => rfl) hgo with
          ⟨p', k', q', hr, hk', hp', hd⟩ | hzr
        · refine .inl ⟨p', k', q', hr, hk', hp', ?_⟩
          rw [hd]
          simp [curList, kList]
        · exact .inr hzr
      | some v =>
        simp only at hgo
        rcases ih pre (some v) (post ++ [e]) res hnn' hck' hk (fun hh => by cases hh) hgo with
          ⟨p', k', q', hr, hk', hp', hd⟩ | hzr
        · refine .inl ⟨p', k', q', hr, hk', hp', ?_⟩
          rw [hd]
          simp [curList, kList]
        · exact .inr hzr

/-- the final step of `fNary`: a one-element result is the element itself -/
def wrapN (op : NOp) : List Expr → Expr
  | [e] => e
  | es => .nary op es

theorem wrapN_two (op : NOp) (l : List Expr) (h2 : 2 ≤ l.length) : wrapN op l = .nary op l := by
  match l, h2 with
  | e0 :: e1 :: rest, _ => rfl

theorem commutative_sound (h : CommOp A op f i C) (env : List Val) (es es' : List Expr)
    (h2 : 2 ≤ es.length) (hnn : ∀ e ∈ es, nestedNary op e = none)
    (hck : ∀ e ∈ es, constNonNum e = false)
    (habs : ∀ z, zeroOf op = some (.int z) → Expr.const (.int z) ∈ es →
      (∀ a, f a z = z) ∧ ∀ e ∈ es, ∃ n, numOf A env e = some n)
    (hf : commutative A op es = .ok es') :
    eval A env (wrapN op es') = eval A env (.nary op es) := by
  rw [eval_gsum h env es h2]
  simp only [commutative] at hf
  cases hgo : commGo A op [] none [] es with
  | error x => simp [hgo] at hf
  | ok res =>
    rcases commGo_gen h env es [] none [] res hnn hck (fun v hv => by cases hv) (fun _ => rfl) hgo
      with ⟨p', k', q', hr, hk', hp', hd⟩ | ⟨z, hr, hz, hm⟩
    · subst hr
      have hd' : gsum f i A env (curList p' k' q' []) = gsum f i A env es := by
        rw [hd]; simp [curList, kList]
      rw [← hd']
      simp only [hgo] at hf
      cases k' with
      | none =>
        have hq := hp' rfl
        subst hq
        match p', hf with
        | [], hf =>
          simp only [h.hid] at hf
          cases hf
          simp [wrapN, eval, curList, kList, gsum, numsOf]
        | [e], hf =>
          simp only [h.hid] at hf
          cases hf
          rw [wrapN_two _ _ (by simp), eval_gsum h env _ (by simp)]
          have := gsum_drop h.law A env [e] []
          simp only [List.append_nil, List.cons_append, List.nil_append] at this
          rw [this]
          simp [curList, kList]
        | a :: b :: t, hf =>
          cases hf
          rw [wrapN_two _ _ (by simp), eval_gsum h env _ (by simp)]
          simp [curList, kList]
      | some v =>
        obtain ⟨a, rfl⟩ := hk' v rfl
        match p', q', hf with
        | [], [], hf =>
          simp only [h.hbop, h.hid, nbin, toNum_int, h.hop] at hf
          cases hf
          simp [wrapN, eval, curList, kList, gsum, numsOf, numOf, List.foldl]
        | [], y :: q, hf =>
          cases hf
          rw [wrapN_two _ _ (by simp), eval_gsum h env _ (by simp)]
          simp [curList, kList]
        | [x], q, hf =>
          cases hf
          rw [wrapN_two _ _ (by simp), eval_gsum h env _ (by simp)]
          simp [curList, kList]
        | x :: y :: p, q, hf =>
          cases hf
          rw [wrapN_two _ _ (by simp), eval_gsum h env _ (by simp)]
          simp [curList, kList]
    · subst hr
      simp only [hgo] at hf
      cases hf
      obtain ⟨habs1, hnum⟩ := habs z hz hm
      rw [gsum_absorb h.law z habs1 A env es hm hnum]
      simp [wrapN, eval]

end comm

/-! ## `|` and `^` on 64-bit integers -/

theorem bv_toInt (x : BitVec 64) : bv x.toInt = x := by simp [bv]

/-- integers that are their own 64-bit two's complement reading -/
def canon64 (a : Int) : Prop := (bv a).toInt = a

theorem bitor_lawful (A : Arith) : LawfulOp (nop A .bitor) 0 canon64 :=
  ⟨fun a b c => by simp only [nop, bv_toInt, BitVec.or_assoc],
   fun a b => by simp only [nop, BitVec.or_comm],
   by simp [canon64, bv],
   fun a b => by simp only [canon64, nop, bv_toInt],
   fun a ha => by
     have : bv 0 = 0#64 := by simp [bv]
     simp only [nop, this, BitVec.or_zero]; exact ha⟩

theorem bitxor_lawful (A : Arith) : LawfulOp (nop A .bitxor) 0 canon64 :=
  ⟨fun a b c => by simp only [nop, bv_toInt, BitVec.xor_assoc],
   fun a b => by simp only [nop, BitVec.xor_comm],
   by simp [canon64, bv],
   fun a b => by simp only [canon64, nop, bv_toInt],
   fun a ha => by
     have : bv 0 = 0#64 := by simp [bv]
     simp only [nop, this, BitVec.xor_zero]; exact ha⟩

theorem bitor_commOp (A : Arith) : CommOp A .bitor (nop A .bitor) 0 canon64 :=
  ⟨bitor_lawful A, rfl, rfl, fun _ _ => rfl,
   fun c hc => by simp only [zeroOf, Option.some.injEq] at hc; exact ⟨_, hc.symm⟩,
   fun env e0 rest => by simp only [eval]; cases eval A env e0 <;> rfl⟩

theorem bitxor_commOp (A : Arith) : CommOp A .bitxor (nop A .bitxor) 0 canon64 :=
  ⟨bitxor_lawful A, rfl, rfl, fun _ _ => rfl,
   fun c hc => by simp [zeroOf] at hc,
   fun env e0 rest => by simp only [eval]; cases eval A env e0 <;> rfl⟩

theorem add_commOp {A : Arith} (h : LawfulAdd A) : CommOp A .add A.add 0 (fun _ => True) :=
  ⟨⟨h.assoc, h.comm, trivial, fun _ _ => trivial, fun a _ => h.zero a⟩, rfl, rfl, fun _ _ => rfl,
   fun c hc => by simp [zeroOf] at hc,
   fun env e0 rest => by simp only [eval]; cases eval A env e0 <;> rfl⟩

theorem fNary_match (op : NOp) (es' : List Expr) (e' : Expr)
    (hf : (match (Except.ok es' : Except FoldErr (List Expr)) with
      | .error x => (.error x : FR)
      | .ok [e] => .ok e
      | .ok es' => .ok (.nary op es')) = .ok e') : e' = wrapN op es' := by
  match es', hf with
  | [], hf => cases hf; rfl
  | [e], hf => cases hf; rfl
  | a :: b :: t, hf => cases hf; rfl

/-- `|` and `^`: the fold is sound when the 32-bit constant `0xffffffff`, which `commutative`
takes for the absorbing element of `|`, is not an operand (KF-C30-5). -/
theorem fNary_bit_sound (A : Arith) (op : NOp) (hop : op = .bitor ∨ op = .bitxor)
    (env : List Val) (es : List Expr) (e' : Expr) (h2 : 2 ≤ es.length)
    (hnn : ∀ e ∈ es, nestedNary op e = none)
    (h32 : Expr.const (.int allones) ∉ es)
    (hf : fNary A op es = .ok e') : eval A env e' = eval A env (.nary op es) := by
  match es, h2 with
  | e0 :: e1 :: rest, h2 =>
    rcases hop with rfl | rfl
    · simp only [fNary] at hf
      by_cases hck : ckMath (e0 :: e1 :: rest) = true
      · simp only [hck, if_true] at hf
        have hck' : ∀ e ∈ e0 :: e1 :: rest, constNonNum e = false := by
          intro e he
          have := List.all_eq_true.mp hck e he
          simpa using this
        cases hc : commutative A .bitor (e0 :: e1 :: rest) with
        | error x => simp [hc] at hf
        | ok es' =>
          rw [hc] at hf
          rw [fNary_match _ _ _ hf]
          refine commutative_sound (bitor_commOp A) env _ es' h2 hnn hck' ?_ hc
          intro z hz hm
          simp only [zeroOf, Option.some.injEq, Val.int.injEq] at hz
          subst hz
          exact absurd hm h32
      · simp [hck] at hf
    · simp only [fNary] at hf
      by_cases hck : ckMath (e0 :: e1 :: rest) = true
      · simp only [hck, if_true] at hf
        have hck' : ∀ e ∈ e0 :: e1 :: rest, constNonNum e = false := by
          intro e he
          have := List.all_eq_true.mp hck e he
          simpa using this
        cases hc : commutative A .bitxor (e0 :: e1 :: rest) with
        | error x => simp [hc] at hf
        | ok es' =>
          rw [hc] at hf
          rw [fNary_match _ _ _ hf]
          refine commutative_sound (bitxor_commOp A) env _ es' h2 hnn hck' ?_ hc
          intro z hz hm
          simp [zeroOf] at hz
      · simp [hck] at hf

/-! ## `$` : foldCat -/

theorem evalCat_append (A : Arith) (env : List Val) (xs ys : List Expr) :
    evalCat A env (xs ++ ys) =
      match evalCat A env xs, evalCat A env ys with
      | some a, some b => some (a ++ b)
      | _, _ => none := by
  induction xs with
  | nil => simp [evalCat]; cases evalCat A env ys <;> rfl
  | cons x xs ih =>
    simp only [List.cons_append, evalCat, ih]
    cases eval A env x <;> cases evalCat A env xs <;> cases evalCat A env ys <;> simp

theorem catGo_nonconst (out : List Expr) (cur : Option Val) (e : Expr) (rest : List Expr)
    (hc : isConst e = false) :
    catGo out cur (e :: rest) =
      match cur with
      | some c => catGo (out ++ [.const c, e]) none rest
      | none => catGo (out ++ [e]) none rest := by
  cases e <;> first | (simp [isConst] at hc; done) | (cases cur <;> simp [catGo])

theorem catGo_eval (A : Arith) (env : List Val) (rest : List Expr) :
    ∀ (out : List Expr) (cur : Option Val),
      evalCat A env (catGo out cur rest) = evalCat A env (out ++ kList cur ++ rest) := by
  induction rest with
  | nil => intro out cur; cases cur <;> simp [catGo, kList]
  | cons e rest ih =>
    intro out cur
    by_cases hc : isConst e = true
    · cases e with
      | const c =>
        cases cur with
        | none => simp only [catGo]; rw [ih]; simp [kList]
        | some a =>
          simp only [catGo]; rw [ih]
          simp only [kList, List.append_assoc, evalCat_append, List.cons_append, List.nil_append,
            evalCat, eval, asStr]
          cases evalCat A env out <;> cases evalCat A env rest <;> simp
      | _ => simp [isConst] at hc
    · have hc' : isConst e = false := by simpa using hc
      rw [catGo_nonconst out cur e rest hc']
      cases cur with
      | none => simp only; rw [ih]; simp [kList]
      | some c => simp only; rw [ih]; simp [kList]

theorem catGo_single (rest : List Expr) :
    ∀ (out : List Expr) (cur : Option Val) (e : Expr), catGo out cur rest = [e] →
      (∃ s, e = .const (.str s)) ∨ out ++ kList cur ++ rest = [e] := by
  induction rest with
  | nil => intro out cur e h; cases cur <;> simp [catGo] at h <;> simp [kList, h]
  | cons x rest ih =>
    intro out cur e h
    by_cases hc : isConst x = true
    · cases x with
      | const c =>
        cases cur with
        | none =>
          simp only [catGo] at h
          rcases ih _ _ _ h with h1 | h1
          · exact .inl h1
          · exact .inr (by simpa [kList] using h1)
        | some a =>
          simp only [catGo] at h
          rcases ih _ _ _ h with h1 | h1
          · exact .inl h1
          · left
            cases out with
            | nil =>
              simp [kList] at h1
              exact ⟨_, h1.1.symm⟩
            | cons o os => simp [kList] at h1
      | _ => simp [isConst] at hc
    · have hc' : isConst x = false := by simpa using hc
      rw [catGo_nonconst out cur x rest hc'] at h
      cases cur with
      | none =>
        rcases ih _ _ _ h with h1 | h1
        · exact .inl h1
        · exact .inr (by simpa [kList] using h1)
      | some c =>
        rcases ih _ _ _ h with h1 | h1
        · exact .inl h1
        · exact .inr (by simpa [kList] using h1)

theorem eval_cat (A : Arith) (env : List Val) (l : List Expr) :
    eval A env (.nary .cat l) = (evalCat A env l).map Val.str := by
  simp only [eval]; cases evalCat A env l <;> rfl

theorem fNary_cat_sound (A : Arith) (env : List Val) (es : List Expr) (e' : Expr)
    (h2 : 2 ≤ es.length) (hf : fNary A .cat es = .ok e') :
    eval A env e' = eval A env (.nary .cat es) := by
  have hev : evalCat A env (foldCat es) = evalCat A env es := by
    simp [foldCat, catGo_eval, kList]
  match es, h2 with
  | e0 :: e1 :: rest, h2 =>
    simp only [fNary] at hf
    have he' := fNary_match _ _ _ hf
    rw [eval_cat, ← hev]
    match hfc : foldCat (e0 :: e1 :: rest) with
    | [] => rw [hfc] at he'; subst he'; simp [wrapN, eval_cat]
    | [e] =>
      rw [hfc] at he'
      simp only [wrapN] at he'
      subst he'
      rcases catGo_single _ _ _ _ hfc with ⟨s, hs⟩ | h1
      · subst hs; simp [eval, evalCat, asStr]
      · simp [kList] at h1
    | a :: b :: t => rw [hfc] at he'; subst he'; simp [wrapN, eval_cat]

end Gsu.LangFold
