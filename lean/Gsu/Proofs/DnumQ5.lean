/-
C27: Compare over the exact rational values.
-/
import Gsu.Proofs.DnumQ2
namespace Gsu.Dnum
open Gsu.Num

/-- the integer `scaled d m` is the exact value in units of `10^(m−16)` -/
theorem val_scaled (d : Dnum) (m : Int) (hm : m ≤ d.exp) :
    val d = ((scaled d m : Int) : ℚ) * (10 : ℚ) ^ (m - 16) := by
  unfold val scaled
  rw [tpow_split' (m - 16) (d.exp - 16) (d.exp - m).toNat (by omega)]
  push_cast; ring

/-- compare_exact over ℚ: `Compare` is the order of the exact values -/
theorem compare_val (x y : Dnum) (hx : WF x) (hy : WF y) :
    compare x y = if val x < val y then -1 else if val y < val x then 1 else 0 := by
  rw [compare_exact x y hx hy]
  have hp := tpow_pos (min x.exp y.exp - 16)
  rw [val_scaled x (min x.exp y.exp) (Int.min_le_left _ _),
    val_scaled y (min x.exp y.exp) (Int.min_le_right _ _)]
  generalize scaled x (min x.exp y.exp) = a
  generalize scaled y (min x.exp y.exp) = b
  have h1 : ((a : ℚ) * (10 : ℚ) ^ (min x.exp y.exp - 16) < (b : ℚ) * (10 : ℚ) ^ (min x.exp y.exp - 16)) ↔ a < b := by
    rw [mul_lt_mul_iff_of_pos_right hp]; exact Int.cast_lt
  have h2 : ((b : ℚ) * (10 : ℚ) ^ (min x.exp y.exp - 16) < (a : ℚ) * (10 : ℚ) ^ (min x.exp y.exp - 16)) ↔ b < a := by
    rw [mul_lt_mul_iff_of_pos_right hp]; exact Int.cast_lt
  simp only [cmpInt, h1, h2, gt_iff_lt]

end Gsu.Dnum
