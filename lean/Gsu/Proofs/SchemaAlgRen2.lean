import Gsu.Proofs.SchemaAlgRen
/-!
C21, part 7: the loop invariant of `alterRenameCol` (`renameFkey` for each affected index).
-/
namespace Gsu.SchemaAlg

/-- what the rename has done to a back link once the affected indexes still in `rem` are left -/
def renE (name : String) (from_ to : List String) (rem : List Nat) (f : Fkey) : Fkey :=
  if f.table = name ∧ f.iindex ∉ rem then { f with columns := replaceAll f.columns from_ to } else f

/-- the state of index `ix` of table `n` while the loop has `remF` (for the `Fk.columns` of the
sources) / `remB` (for the `fkToHere` entries) left to do -/
def RR (name : String) (from_ to : List String) (remF remB : List Nat) (n : String) (ix : Index) : Index :=
  { ix with
    columns := (if n = name then replaceAll ix.columns from_ to else ix.columns),
    bestKey := (if n = name then replaceAll ix.bestKey from_ to else ix.bestKey),
    fk := { ix.fk with columns :=
      (if ix.fk.table = name ∧ (n = name ∨ (name ≠ "" ∧ ix.fk.iindex ∉ remF))
       then replaceAll ix.fk.columns from_ to else ix.fk.columns) },
    fkToHere := ix.fkToHere.map (renE name from_ to remB) }

def RenInv (name : String) (from_ to : List String) (db : Db) (remF remB : List Nat) (dbk : Db) : Prop :=
  ∀ n j, look dbk n j = (look db n j).map (RR name from_ to remF remB n)

theorem renE_table (name : String) (from_ to : List String) (rem : List Nat) (f : Fkey) :
    (renE name from_ to rem f).table = f.table := by
  unfold renE; split <;> rfl

theorem renE_iindex (name : String) (from_ to : List String) (rem : List Nat) (f : Fkey) :
    (renE name from_ to rem f).iindex = f.iindex := by
  unfold renE; split <;> rfl

theorem renE_mode (name : String) (from_ to : List String) (rem : List Nat) (f : Fkey) :
    (renE name from_ to rem f).mode = f.mode := by
  unfold renE; split <;> rfl

theorem renE_cons_of_ne {name : String} {from_ to : List String} {i : Nat} {rem : List Nat} {f : Fkey}
    (h : ¬(f.table = name ∧ f.iindex = i)) : renE name from_ to (i :: rem) f = renE name from_ to rem f := by
  unfold renE
  by_cases ht : f.table = name
  · have : f.iindex ≠ i := fun hc => h ⟨ht, hc⟩
    simp [ht, this]
  · simp [ht]

theorem renE_cons_self {name : String} {from_ to : List String} {i : Nat} {rem : List Nat} {f : Fkey}
    (hi : f.iindex = i) : renE name from_ to (i :: rem) f = f := by
  unfold renE
  simp [hi]

theorem renE_of_not_mem {name : String} {from_ to : List String} {rem : List Nat} {f : Fkey}
    (ht : f.table = name) (hi : f.iindex ∉ rem) :
    renE name from_ to rem f = { f with columns := replaceAll f.columns from_ to } := by
  unfold renE
  rw [if_pos ⟨ht, hi⟩]

/-! ### what the invariants of the original metadata say about one affected index -/

/-- an entry naming index `i` of `name` sits in the target of that index's foreign key only -/
theorem back_fact {db : Db} (hL : LInv db) (hF : FkOk db) (hU : LUniq db) {name : String} {i : Nat}
    {ix0 : Index} (h0 : look db name i = some ix0) {n : String} {j : Nat} {ix1 : Index}
    (h1 : look db n j = some ix1) {f : Fkey} (hf : f ∈ ix1.fkToHere) (ht : f.table = name)
    (hi : f.iindex = i) :
    f.columns = ix0.columns ∧ ix0.fk.table ≠ "" ∧ n = ix0.fk.table ∧ j = ix0.fk.iindex := by
  obtain ⟨hne, six, hls, c1, _, c3, c4⟩ := ((hL n j ix1 h1).2 f).mp hf
  rw [ht, hi, h0] at hls
  cases hls
  have hfk : ix0.fk.table ≠ "" := by rw [c3]; exact hne
  obtain ⟨tix, t1, t2, _⟩ := hF name i ix0 h0 hfk
  refine ⟨c1.symm, hfk, c3.symm, ?_⟩
  rw [c3] at t1
  exact hU n j ix0.fk.iindex ix1 tix h1 t1 (by rw [t2, c4])

/-- the sources recorded in index `i` of `name` are the indexes whose `Fk` points at it -/
theorem src_fact {db : Db} (hL : LInv db) (hF : FkOk db) (hU : LUniq db) {name : String} {i : Nat}
    {ix0 : Index} (h0 : look db name i = some ix0) {n : String} {j : Nat} {six : Index}
    (h1 : look db n j = some six) :
    ix0.fkToHere.any (fun f => f.table == n && f.iindex == j) = true ↔
      (name ≠ "" ∧ six.fk.table = name ∧ six.fk.iindex = i) := by
  simp only [List.any_eq_true, Bool.and_eq_true, beq_iff_eq]
  constructor
  · rintro ⟨f, hf, ht, hi⟩
    obtain ⟨hne, s, hls, _, _, c3, c4⟩ := ((hL name i ix0 h0).2 f).mp hf
    rw [ht, hi, h1] at hls
    cases hls
    obtain ⟨tix, t1, t2, _⟩ := hF n j six h1 (by rw [c3]; exact hne)
    rw [c3] at t1
    exact ⟨hne, c3, hU name _ _ tix ix0 t1 h0 (by rw [t2, c4])⟩
  · rintro ⟨hne, c3, ci⟩
    obtain ⟨tix, t1, t2, _⟩ := hF n j six h1 (by rw [c3]; exact hne)
    rw [c3, ci, h0] at t1
    cases t1
    refine ⟨⟨n, six.columns, j, six.fk.mode⟩, ?_, rfl, rfl⟩
    exact ((hL name i ix0 h0).2 _).mpr ⟨hne, six, h1, rfl, rfl, c3, t2.symm⟩

theorem src_cols {db : Db} (hF : FkOk db) {name : String} {i : Nat}
    {ix0 : Index} (h0 : look db name i = some ix0) {n : String} {j : Nat} {six : Index}
    (h1 : look db n j = some six) (hne : name ≠ "") (c3 : six.fk.table = name) (ci : six.fk.iindex = i) :
    six.fk.columns = ix0.columns := by
  obtain ⟨tix, t1, t2, _⟩ := hF n j six h1 (by rw [c3]; exact hne)
  rw [c3, ci, h0] at t1
  cases t1
  exact t2.symm

/-! ### one `renameFkey`, part 1: the back link in the target of the index's own foreign key -/

theorem renStep1 {db dbk db1 : Db} {name : String} {from_ to : List String}
    (hL : LInv db) (hF : FkOk db) (hU : LUniq db) {i : Nat} {rem : List Nat} (hi : i ∉ rem)
    {ix0 : Index} (h0 : look db name i = some ix0)
    (hinv : RenInv name from_ to db (i :: rem) (i :: rem) dbk)
    (hd : ix0.fk.table = "" ∧ db1 = dbk ∨ ix0.fk.table ≠ "" ∧
        db1 = modT dbk ix0.fk.table ix0.fk.iindex (fun tix =>
            { tix with fkToHere := tix.fkToHere.map (fun f =>
                if f.table == name && f.iindex == i
                then { f with columns := replaceAll ix0.columns from_ to } else f) })) :
    RenInv name from_ to db (i :: rem) rem db1 := by
  intro n j
  cases h1 : look db n j with
  | none =>
    rcases hd with ⟨_, rfl⟩ | ⟨_, rfl⟩
    · rw [hinv, h1]; rfl
    · rw [look_modT, hinv, h1]; simp
  | some ix1 =>
    have hB : ∀ f ∈ ix1.fkToHere, ¬(n = ix0.fk.table ∧ j = ix0.fk.iindex ∧ ix0.fk.table ≠ "") →
        renE name from_ to (i :: rem) f = renE name from_ to rem f := by
      intro f hf hc
      apply renE_cons_of_ne
      rintro ⟨ht, hi'⟩
      obtain ⟨_, a, b, c⟩ := back_fact hL hF hU h0 h1 hf ht hi'
      exact hc ⟨b, c, a⟩
    rcases hd with ⟨he, rfl⟩ | ⟨he, rfl⟩
    · rw [hinv, h1]
      simp only [Option.map_some]
      congr 1
      refine Index.ext' rfl rfl rfl rfl ?_
      show List.map _ _ = List.map _ _
      apply List.map_congr_left
      intro f hf
      exact hB f hf (fun h => h.2.2 he)
    · rw [look_modT, hinv, h1]
      simp only [Option.map_some]
      split
      · congr 1
        refine Index.ext' rfl rfl rfl rfl ?_
        show List.map _ (List.map _ _) = List.map _ _
        rw [List.map_map]
        apply List.map_congr_left
        intro f hf
        simp only [Function.comp]
        by_cases hq : f.table = name ∧ f.iindex = i
        · obtain ⟨a, _⟩ := back_fact hL hF hU h0 h1 hf hq.1 hq.2
          rw [renE_cons_self hq.2, renE_of_not_mem hq.1 (by rw [hq.2]; exact hi)]
          simp [hq.1, hq.2, a]
        · rw [renE_cons_of_ne hq]
          have : ((renE name from_ to rem f).table == name && (renE name from_ to rem f).iindex == i) = false := by
            rw [renE_table, renE_iindex, Bool.eq_false_iff]
            intro hc
            simp only [Bool.and_eq_true, beq_iff_eq] at hc
            exact hq hc
          rw [this]
          rfl
      · rename_i hc
        congr 1
        refine Index.ext' rfl rfl rfl rfl ?_
        show List.map _ _ = List.map _ _
        apply List.map_congr_left
        intro f hf
        exact hB f hf (fun h => hc ⟨h.1, h.2.1⟩)

theorem ite_iff_congr {α} {p q : Prop} [Decidable p] [Decidable q] (h : p ↔ q) (a b : α) :
    (if p then a else b) = if q then a else b := by
  by_cases hp : p
  · rw [if_pos hp, if_pos (h.mp hp)]
  · rw [if_neg hp, if_neg (fun hq => hp (h.mpr hq))]

/-! ### one `renameFkey`, part 2: the `Fk.columns` of the sources -/

theorem renStep2 {db db1 : Db} {name : String} {from_ to : List String}
    (hL : LInv db) (hF : FkOk db) (hU : LUniq db) {i : Nat} {rem : List Nat} (hi : i ∉ rem)
    {ix0 : Index} (h0 : look db name i = some ix0)
    (hinv : RenInv name from_ to db (i :: rem) rem db1) (l : List Fkey)
    (hl : ∀ n j, l.any (fun f => f.table == n && f.iindex == j) =
      ix0.fkToHere.any (fun f => f.table == n && f.iindex == j)) :
    RenInv name from_ to db rem rem (l.foldl (fun db f => modT db f.table f.iindex (fun rix =>
      { rix with fk := { rix.fk with columns := replaceAll ix0.columns from_ to } })) db1) := by
  intro n j
  rw [look_foldModT (fun rix : Index =>
      { rix with fk := { rix.fk with columns := replaceAll ix0.columns from_ to } }) (fun _ => rfl) n j,
    hl, hinv]
  cases h1 : look db n j with
  | none => simp
  | some six =>
    simp only [Option.map_some]
    by_cases hc : name ≠ "" ∧ six.fk.table = name ∧ six.fk.iindex = i
    · rw [if_pos ((src_fact hL hF hU h0 h1).mpr hc)]
      congr 1
      refine Index.ext' rfl rfl rfl ?_ rfl
      refine Fkey.ext' rfl ?_ rfl rfl
      show replaceAll ix0.columns from_ to = if _ then _ else _
      rw [if_pos ⟨hc.2.1, Or.inr ⟨hc.1, by rw [hc.2.2]; exact hi⟩⟩, src_cols hF h0 h1 hc.1 hc.2.1 hc.2.2]
    · rw [if_neg (fun h => hc ((src_fact hL hF hU h0 h1).mp h))]
      congr 1
      refine Index.ext' rfl rfl rfl ?_ rfl
      refine Fkey.ext' rfl ?_ rfl rfl
      show (if _ then _ else _) = if _ then _ else _
      refine ite_iff_congr ?_ _ _
      constructor
      · rintro ⟨a, b⟩
        refine ⟨a, ?_⟩
        rcases b with b | ⟨b, c⟩
        · exact Or.inl b
        · exact Or.inr ⟨b, fun hm => c (List.mem_cons_of_mem _ hm)⟩
      · rintro ⟨a, b⟩
        refine ⟨a, ?_⟩
        rcases b with b | ⟨b, c⟩
        · exact Or.inl b
        · refine Or.inr ⟨b, fun hm => ?_⟩
          rcases List.mem_cons.mp hm with e | e
          · exact hc ⟨b, a, e⟩
          · exact c e

/-! ### one `renameFkey` -/

theorem renameFkey_step {db dbk dbk' : Db} {name : String} {from_ to : List String}
    (hL : LInv db) (hF : FkOk db) (hU : LUniq db) {i : Nat} {rem : List Nat} (hi : i ∉ rem)
    {ix0 : Index} (h0 : look db name i = some ix0)
    (hinv : RenInv name from_ to db (i :: rem) (i :: rem) dbk)
    (h : renameFkey dbk name i = some dbk') :
    RenInv name from_ to db rem rem dbk' ∧ names dbk' = names dbk := by
  obtain ⟨ts, db1, hts, hd, rfl⟩ := renameFkey_inv h
  have hix : ts.indexes[i]? = some (RR name from_ to (i :: rem) (i :: rem) name ix0) := by
    rw [← look_of_getT hts, hinv, h0]; rfl
  rw [getIdx_of_getElem? hix] at hd ⊢
  have hcol : (RR name from_ to (i :: rem) (i :: rem) name ix0).columns = replaceAll ix0.columns from_ to := by
    simp [RR]
  rw [hcol] at hd ⊢
  have hd' : ix0.fk.table = "" ∧ db1 = dbk ∨ ix0.fk.table ≠ "" ∧
        db1 = modT dbk ix0.fk.table ix0.fk.iindex (fun tix =>
            { tix with fkToHere := tix.fkToHere.map (fun f =>
                if f.table == name && f.iindex == i
                then { f with columns := replaceAll ix0.columns from_ to } else f) }) := hd
  have h1 := renStep1 hL hF hU hi h0 hinv hd'
  refine ⟨renStep2 hL hF hU hi h0 h1 _ ?_, ?_⟩
  · intro n j
    show (List.map _ _).any _ = _
    rw [List.any_map]
    congr 1
    funext f
    simp only [Function.comp, renE_table, renE_iindex]
  · rw [names_foldModT]
    rcases hd' with ⟨_, rfl⟩ | ⟨_, rfl⟩
    · rfl
    · exact names_modT _ _ _ _

end Gsu.SchemaAlg
