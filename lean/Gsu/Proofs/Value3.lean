/-
C28, part 3: `Equal ⇒ Compare = 0` for every value. The int-vs-decimal case needs
`FromInt (ToInt64 d) = d` for every normalised decimal `d` that converts to an int64, including
the 17–19 digit integers where `FromInt` goes through the rounding loop of `New`. Core-only.
-/
import Gsu.Proofs.Value2
namespace Gsu.Dnum
open Gsu.Num

/-- the canonical forms `New` produces: zero, an infinity, or a 16 digit coefficient -/
def Norm (d : Dnum) : Prop :=
  d = zero ∨ d.sign = 2 ∨ d.sign = -2 ∨
    ((d.sign = 1 ∨ d.sign = -1) ∧ 10 ^ 15 ≤ d.coef ∧ d.coef < 10 ^ 16)

theorem ilog10_unique (x L : Nat) (h1 : 10 ^ L ≤ x) (h2 : x < 10 ^ (L + 1)) (h3 : x < 10 ^ 19) :
    ilog10 x = L := by
  have hx : 0 < x := Nat.lt_of_lt_of_le (Nat.pow_pos (by decide)) h1
  obtain ⟨s1, s2⟩ := ilog10_spec x hx h3
  have a : ilog10 x < L + 1 :=
    (Nat.pow_lt_pow_iff_right (by decide : 1 < 10)).1 (Nat.lt_of_le_of_lt s1 h2)
  have b : L < ilog10 x + 1 :=
    (Nat.pow_lt_pow_iff_right (by decide : 1 < 10)).1 (Nat.lt_of_le_of_lt h1 s2)
  omega

/-- `FromInt` of `±m`, `m` of `L+1 ≤ 16` digits -/
theorem fromInt_digits (s : Int) (hs : s = 1 ∨ s = -1) (m L : Nat) (hL : L ≤ 15)
    (h1 : 10 ^ L ≤ m) (h2 : m < 10 ^ (L + 1)) :
    fromInt (s * m) = ⟨m * 10 ^ (15 - L), s, (L : Int) + 1⟩ := by
  have hm0 : 0 < m := Nat.lt_of_lt_of_le (Nat.pow_pos (by decide)) h1
  have hm16 : m < 10 ^ 16 :=
    Nat.lt_of_lt_of_le h2 (Nat.pow_le_pow_right (by decide) (by omega))
  have hil := ilog10_unique m L h1 h2 (by omega)
  have hn0 : s * (m : Int) ≠ 0 := by rcases hs with rfl | rfl <;> omega
  have hna : (s * (m : Int)).natAbs = m := by rcases hs with rfl | rfl <;> omega
  rw [fromInt_small _ hn0 (by rw [hna]; exact hm16), hna]
  simp only [normal, hil]
  congr 1
  rcases hs with rfl | rfl
  · rw [if_neg (by omega)]
  · rw [if_pos (by omega)]

/-- `New` on `c * 10^k` (k = 1, 2, 3; c of 16 digits): the rounding loop divides exactly -/
theorem new_times10 (s : Int) (hs : s = 1 ∨ s = -1) (c : Nat) (h1 : 10 ^ 15 ≤ c) (h2 : c < 10 ^ 16) :
    new s (c * 10) 16 = ⟨c, s, 17⟩ := by
  have g1 : ¬(s = 0 ∨ c * 10 = 0 ∨ (16 : Int) < expMin) := by simp only [expMin]; omega
  have g2 : ¬ s = signPosInf := by simp only [signPosInf]; omega
  have g3 : ¬ s = signNegInf := by simp only [signNegInf]; omega
  have r1 : c * 10 > coefMax := by simp only [coefMax]; omega
  have r2 : ((c * 10 + 5) % two64) / 10 = c := by simp only [two64]; omega
  have r3 : ¬ c > coefMax := by simp only [coefMax]; omega
  simp only [new, g1, g2, g3, if_false, roundLoop, r1, if_true, r2, r3, Bool.not_true,
    Bool.false_eq_true]
  rw [if_neg (by simp only [expMin]; omega), if_neg (by simp only [expMax]; omega)]
  congr 1

theorem new_times100 (s : Int) (hs : s = 1 ∨ s = -1) (c : Nat) (h1 : 10 ^ 15 ≤ c) (h2 : c < 10 ^ 16) :
    new s (c * 100) 16 = ⟨c, s, 18⟩ := by
  have g1 : ¬(s = 0 ∨ c * 100 = 0 ∨ (16 : Int) < expMin) := by simp only [expMin]; omega
  have g2 : ¬ s = signPosInf := by simp only [signPosInf]; omega
  have g3 : ¬ s = signNegInf := by simp only [signNegInf]; omega
  have r1 : c * 100 > coefMax := by simp only [coefMax]; omega
  have r2 : ((c * 100 + 5) % two64) / 10 = c * 10 := by simp only [two64]; omega
  have r3 : c * 10 > coefMax := by simp only [coefMax]; omega
  have r4 : ((c * 10 + 5) % two64) / 10 = c := by simp only [two64]; omega
  have r5 : ¬ c > coefMax := by simp only [coefMax]; omega
  simp only [new, g1, g2, g3, if_false, roundLoop, r1, if_true, r2, r3, r4, r5, Bool.not_true,
    Bool.false_eq_true]
  rw [if_neg (by simp only [expMin]; omega), if_neg (by simp only [expMax]; omega)]
  congr 1

theorem new_times1000 (s : Int) (hs : s = 1 ∨ s = -1) (c : Nat) (h1 : 10 ^ 15 ≤ c) (h2 : c < 10 ^ 16) :
    new s (c * 1000) 16 = ⟨c, s, 19⟩ := by
  have g1 : ¬(s = 0 ∨ c * 1000 = 0 ∨ (16 : Int) < expMin) := by simp only [expMin]; omega
  have g2 : ¬ s = signPosInf := by simp only [signPosInf]; omega
  have g3 : ¬ s = signNegInf := by simp only [signNegInf]; omega
  have r1 : c * 1000 > coefMax := by simp only [coefMax]; omega
  have r2 : ((c * 1000 + 5) % two64) / 10 = c * 100 := by simp only [two64]; omega
  have r3 : c * 100 > coefMax := by simp only [coefMax]; omega
  have r4 : ((c * 100 + 5) % two64) / 10 = c * 10 := by simp only [two64]; omega
  have r5 : c * 10 > coefMax := by simp only [coefMax]; omega
  have r6 : ((c * 10 + 5) % two64) / 10 = c := by simp only [two64]; omega
  have r7 : ¬ c > coefMax := by simp only [coefMax]; omega
  simp only [new, g1, g2, g3, if_false, roundLoop, r1, if_true, r2, r3, r4, r5, r6, r7,
    Bool.not_true, Bool.false_eq_true]
  rw [if_neg (by simp only [expMin]; omega), if_neg (by simp only [expMax]; omega)]
  congr 1

theorem fromInt_signed (s : Int) (hs : s = 1 ∨ s = -1) (m : Nat) (hm : 0 < m) :
    fromInt (s * m) = new s m 16 := by
  have hn0 : s * (m : Int) ≠ 0 := by rcases hs with rfl | rfl <;> omega
  have hna : (s * (m : Int)).natAbs = m := by rcases hs with rfl | rfl <;> omega
  simp only [fromInt, hn0, if_false, hna, signNeg, signPos, digitsMax]
  rcases hs with rfl | rfl
  · rw [if_neg (by omega)]; rfl
  · rw [if_pos (by omega)]; rfl

/-- `FromInt (ToInt64 d) = d` for every canonical decimal that converts -/
theorem fromInt_toInt64 (d : Dnum) (hd : Norm d) (i : Int) (h : toInt64 d = some i) :
    fromInt i = d := by
  obtain ⟨c, s, e⟩ := d
  rcases hd with hz | hp | hn | ⟨hs, h1, h2⟩
  · simp only [zero, Dnum.mk.injEq] at hz
    obtain ⟨rfl, rfl, rfl⟩ := hz
    simp only [toInt64, if_true, Option.some.injEq] at h
    subst h; rfl
  · simp only at hp; subst hp
    simp [toInt64, signNegInf, signPosInf] at h
  · simp only at hn; subst hn
    simp [toInt64, signNegInf, signPosInf] at h
  · simp only at hs h1 h2
    have g0 : ¬ s = 0 := by omega
    have g1 : s ≠ signNegInf ∧ s ≠ signPosInf := by simp only [signNegInf, signPosInf]; omega
    simp only [toInt64, g0, if_false] at h
    rw [if_pos g1] at h
    by_cases hA : 0 < e ∧ e < 16 ∧ c % pow10 (16 - e).toNat = 0
    · rw [if_pos hA] at h
      simp only [Option.some.injEq] at h
      subst h
      obtain ⟨e0, e16, hmod⟩ := hA
      -- k = 16 - e ∈ 1..15
      generalize hk : (16 - e).toNat = k at *
      have hk1 : 1 ≤ k := by omega
      have hk2 : k ≤ 15 := by omega
      have hp : pow10 k = 10 ^ k := by simp only [pow10]; rw [if_pos (by omega)]
      rw [hp] at hmod ⊢
      have hpos : 0 < 10 ^ k := Nat.pow_pos (by decide)
      have hcm : c / 10 ^ k * 10 ^ k = c := Nat.div_mul_cancel (Nat.dvd_of_mod_eq_zero hmod)
      have e15 : 10 ^ (15 - k) * 10 ^ k = 10 ^ 15 := by rw [← Nat.pow_add]; congr 1; omega
      have e16' : 10 ^ (15 - k + 1) * 10 ^ k = 10 ^ 16 := by rw [← Nat.pow_add]; congr 1; omega
      have lo : 10 ^ (15 - k) ≤ c / 10 ^ k := by
        apply Nat.le_of_mul_le_mul_right _ hpos
        rw [e15, hcm]; exact h1
      have hi : c / 10 ^ k < 10 ^ (15 - k + 1) := by
        apply Nat.lt_of_mul_lt_mul_right (a := 10 ^ k)
        rw [e16', hcm]; exact h2
      have := fromInt_digits s hs (c / 10 ^ k) (15 - k) (by omega) lo hi
      have hcast : ((c / 10 ^ k : Nat) : Int) = (c : Int) / ((10 ^ k : Nat) : Int) := by
        exact Int.natCast_ediv _ _
      rw [show (s * ((c : Int) / ((10 ^ k : Nat) : Int))) = s * ((c / 10 ^ k : Nat) : Int) by rw [hcast]]
      rw [this]
      have hkk : 15 - (15 - k) = k := by omega
      rw [hkk, hcm]
      congr 1; omega
    · rw [if_neg hA] at h
      by_cases h16 : e = 16
      · subst h16
        simp only [if_true, Option.some.injEq] at h
        have hi : i = s * (c : Int) := by
          subst h; simp only [wrap64]; rcases hs with rfl | rfl <;> omega
        rw [hi]
        have := fromInt_digits s hs c 15 (by omega) h1 h2
        rw [this]; simp
      · rw [if_neg h16] at h
        by_cases h17 : e = 17
        · subst h17
          simp only [if_true, Option.some.injEq] at h
          have hi : i = s * ((c * 10 : Nat) : Int) := by
            subst h; simp only [wrap64]; rcases hs with rfl | rfl <;> omega
          rw [hi, fromInt_signed s hs _ (by omega), new_times10 s hs c h1 h2]
        · rw [if_neg h17] at h
          by_cases h18 : e = 18
          · subst h18
            simp only [if_true, Option.some.injEq] at h
            have hi : i = s * ((c * 100 : Nat) : Int) := by
              subst h; simp only [wrap64]; rcases hs with rfl | rfl <;> omega
            rw [hi, fromInt_signed s hs _ (by omega), new_times100 s hs c h1 h2]
          · rw [if_neg h18] at h
            by_cases h19 : e = 19 ∧ c ≤ 9223372036854775
            · rw [if_pos h19] at h
              obtain ⟨rfl, hc⟩ := h19
              simp only [Option.some.injEq] at h
              have hi : i = s * ((c * 1000 : Nat) : Int) := by
                subst h; simp only [wrap64]; rcases hs with rfl | rfl <;> omega
              rw [hi, fromInt_signed s hs _ (by omega), new_times1000 s hs c h1 h2]
            · rw [if_neg h19] at h
              exact absurd h (by simp)

/-- two canonical decimals that convert to the same int64 are the same decimal -/
theorem toInt64_inj (x y : Dnum) (hx : Norm x) (hy : Norm y) (i : Int)
    (h1 : toInt64 x = some i) (h2 : toInt64 y = some i) : x = y := by
  rw [← fromInt_toInt64 x hx i h1, ← fromInt_toInt64 y hy i h2]

end Gsu.Dnum

namespace Gsu.Num
open Gsu.Dnum

/-- decimals are in canonical form (as produced by `New`) -/
def NumNorm : Num → Prop
  | .dn d => Norm d
  | _ => True

/-- Equal numbers compare as equal in all nine combinations of representations -/
theorem compare_of_equal (a b : Num) (ha : NumNorm a) (hb : NumNorm b) (h : equal a b = true) :
    compare a b = 0 := by
  cases a <;> cases b <;> simp only [equal, asInt, beq_iff_eq, Option.some.injEq] at h
  all_goals first
    | (subst h; simp [compare, asInt, cmpInt]; done)
    | (have := (Dnum.equal_iff _ _).1 h; subst this; simp [compare, asInt, toDnum, Dnum.compare_self]; done)
    | (simp only [compare, asInt, toDnum, fromInt_toInt64 _ hb _ h, Dnum.compare_self]; done)
    | (simp only [compare, asInt, toDnum, fromInt_toInt64 _ ha _ h, Dnum.compare_self]; done)

end Gsu.Num

namespace Gsu.Val
open Gsu.Num Gsu.Dnum

theorem cmpBytes_self : ∀ a : List UInt8, cmpBytes a a = 0
  | [] => rfl
  | a :: x => by
    simp only [cmpBytes, UInt8.lt_iff_toNat_lt, gt_iff_lt, Nat.lt_irrefl, if_false]
    exact cmpBytes_self x

theorem cmpTriple_self (a : Nat × Nat × Nat) : cmpTriple a a = 0 := by
  simp [cmpTriple, cmpNat]

/-- one level: Equal ⇒ Compare 0, given it for the list parts -/
theorem compare_of_equal_step (a b : Value) (pa : ValAll NumNorm a) (pb : ValAll NumNorm b)
    (ih : ∀ r1 l1 n1 r2 l2 n2, a = .obj r1 l1 n1 → b = .obj r2 l2 n2 →
      equalList l1 l2 = true → compareList l1 l2 = 0)
    (h : equal a b = true) : compare a b = 0 := by
  cases a <;> cases b <;> simp only [equal, Bool.false_eq_true, Bool.and_eq_true, beq_iff_eq] at h
  · subst h; simp [compare]
  · simp only [ValAll] at pa pb
    simp only [compare]; exact Num.compare_of_equal _ _ pa pb h
  · subst h; simp only [compare]; exact cmpBytes_self _
  · obtain ⟨rfl, rfl⟩ := h; simp only [compare]; exact cmpTriple_self _
  · obtain ⟨⟨rfl, rfl⟩, rfl⟩ := h; simp only [compare]; exact cmpTriple_self _
  · simp only [compare]; exact ih _ _ _ _ _ _ rfl rfl h.1.2

mutual
theorem compare_of_equal : ∀ a b : Value, ValAll NumNorm a → ValAll NumNorm b →
    equal a b = true → compare a b = 0
  | a, b, pa, pb, h =>
    compare_of_equal_step a b pa pb (fun r1 l1 n1 r2 l2 n2 ha hb he =>
      compareList_of_equal l1 l2 (by subst ha; simpa only [ValAll] using pa)
        (by subst hb; simpa only [ValAll] using pb) he) h
  termination_by a => sizeOf a
  decreasing_by subst ha; simp_wf; omega
theorem compareList_of_equal : ∀ x y : VList, ListAll NumNorm x → ListAll NumNorm y →
    equalList x y = true → compareList x y = 0
  | .nil, .nil, _, _, _ => by simp [compareList]
  | .nil, .cons _ _, _, _, h => by simp [equalList] at h
  | .cons _ _, .nil, _, _, h => by simp [equalList] at h
  | .cons a x, .cons b y, px, py, h => by
    simp only [ListAll] at px py
    simp only [equalList, Bool.and_eq_true] at h
    have h1 := compare_of_equal a b px.1 py.1 h.1
    have h2 := compareList_of_equal x y px.2 py.2 h.2
    simp only [compareList, h1, h2]; simp
  termination_by x => sizeOf x
  decreasing_by all_goals (simp_wf; omega)
end

end Gsu.Val
