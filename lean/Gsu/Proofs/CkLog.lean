import Gsu.Proofs.Ck
/-!
Ghost history of the checker mirror: every committed update transaction with its final read
ranges and write keys (the code clears the reads at commit and drops old transactions; the ghost
keeps them), and the lift of the state invariant to it.  Core-only.
-/
namespace Gsu.Ck

structure Logged where
  start : Nat
  end_ : Nat
  reads : List (Nat × Nat × Key × Key)   -- table, index, from, to
  writes : List (Nat × Nat × Key)        -- table, index, key

def logOf (T : Tran) (e : Nat) : Logged :=
  { start := T.start, end_ := e,
    reads := T.acts.flatMap fun a => a.reads.map fun r => (a.table, r),
    writes := T.acts.flatMap fun a => (a.outs ++ a.dels).map fun w => (a.table, w) }

/-- `step` plus the ghost log: a successful commit of a transaction with updates is appended
with the commit number it gets.  The state component is exactly `(step s op).1`. -/
def stepG (g : State × List Logged) (op : Op) : State × List Logged :=
  ((step g.1 op).1,
   match op with
   | .commit tn =>
     match g.1.trans.find? (fun t => t.start == tn && t.active) with
     | some T => if T.hasUpdates then logOf T (g.1.seq + 2) :: g.2 else g.2
     | none => g.2
   | _ => g.2)

def runG (g : State × List Logged) : List Op → State × List Logged
  | [] => g
  | op :: ops => runG (stepG g op) ops

theorem runG_fst : ∀ (ops : List Op) (g : State × List Logged), (runG g ops).1 = run g.1 ops
  | [], _ => rfl
  | op :: ops, g => by simp only [runG, run]; rw [runG_fst ops]; rfl

/-- what the log invariant needs from a step -/
structure Ext (s s' : State) : Prop where
  seq : s.seq ≤ s'.seq
  act : ∀ A' ∈ s'.trans, A'.active = true →
    (∃ A ∈ s.trans, A.active = true ∧ A.start = A'.start) ∨ s.seq < A'.start
  keep : ∀ B ∈ s.trans, ∀ e, B.end_ = some e → e ≤ s.seq →
    (∃ B' ∈ s'.trans, B'.start = B.start ∧ B'.end_ = some e ∧
      ∀ tbl idx k, B.hasWrite tbl idx k → B'.hasWrite tbl idx k) ∨
    (∀ A' ∈ s'.trans, A'.active = true → e < A'.start)

theorem Ext.refl (s : State) : Ext s s where
  seq := Nat.le_refl _
  act := fun A hA ha => Or.inl ⟨A, hA, ha, rfl⟩
  keep := fun B hB e he _ => Or.inl ⟨B, hB, rfl, he, fun _ _ _ h => h⟩

theorem Ext.trans {s s' s'' : State} (h : Ext s s') (h' : Ext s' s'') : Ext s s'' where
  seq := Nat.le_trans h.seq h'.seq
  act := by
    intro A'' hA'' ha
    rcases h'.act A'' hA'' ha with ⟨A', hA', ha', e1⟩ | h1
    · rcases h.act A' hA' ha' with ⟨A, hA, ha0, e2⟩ | h2
      · exact Or.inl ⟨A, hA, ha0, by omega⟩
      · exact Or.inr (by omega)
    · exact Or.inr (by have := h.seq; omega)
  keep := by
    intro B hB e he hle
    rcases h.keep B hB e he hle with ⟨B', hB', b1, b2, b3⟩ | hk
    · rcases h'.keep B' hB' e b2 (by have := h.seq; omega) with ⟨B'', hB'', c1, c2, c3⟩ | hk'
      · exact Or.inl ⟨B'', hB'', by omega, c2, fun t i k x => c3 t i k (b3 t i k x)⟩
      · exact Or.inr hk'
    · right
      intro A'' hA'' ha
      rcases h'.act A'' hA'' ha with ⟨A', hA', ha', e1⟩ | h1
      · have := hk A' hA' ha'; omega
      · have := h.seq; omega

theorem Frame.ext {s s' : State} (f : Frame s s') : Ext s s' where
  seq := by rw [f.seq]; exact Nat.le_refl _
  act := by
    intro A' hA' ha
    obtain ⟨A, hA, e1, e2, -⟩ := f.sub A' hA'
    exact Or.inl ⟨A, hA, by simpa [Tran.active, e2] using ha, e1.symm⟩
  keep := by
    intro B hB e he _
    rcases f.keep B hB (by simp [Tran.active, he]) with ⟨B', hB', b1, b2, b3⟩ | hk
    · exact Or.inl ⟨B', hB', b1, by rw [b2]; exact he,
        fun t i k x => by simpa [Tran.hasWrite, b3] using x⟩
    · exact Or.inr fun A' hA' ha => hk A' hA' ha e he

/-- a map over the transactions that keeps start/end and only adds writes -/
theorem ext_map {s s' : State} (g : Tran → Tran) (hseq : s.seq ≤ s'.seq)
    (htr : s'.trans = s.trans.map g)
    (hg : ∀ T ∈ s.trans, (g T).start = T.start ∧
      ((g T).active = true → T.active = true) ∧ (∀ e, T.end_ = some e → (g T).end_ = some e) ∧
      ∀ tbl idx k, T.hasWrite tbl idx k → (g T).hasWrite tbl idx k) : Ext s s' where
  seq := hseq
  act := by
    intro A' hA' ha
    rw [htr, List.mem_map] at hA'
    obtain ⟨A, hA, rfl⟩ := hA'
    exact Or.inl ⟨A, hA, (hg A hA).2.1 ha, (hg A hA).1.symm⟩
  keep := by
    intro B hB e he _
    exact Or.inl ⟨g B, by rw [htr]; exact List.mem_map_of_mem hB, (hg B hB).1,
      (hg B hB).2.2.1 e he, (hg B hB).2.2.2⟩

theorem ext_modify (s : State) (tn : Nat) (g : Tran → Tran)
    (hg : ∀ T : Tran, (g T).start = T.start ∧ (g T).end_ = T.end_ ∧
      ∀ tbl idx k, T.hasWrite tbl idx k → (g T).hasWrite tbl idx k) : Ext s (s.modify tn g) := by
  apply ext_map (s := s) (s' := s.modify tn g) (fun t => if t.start == tn then g t else t) (Nat.le_refl _) rfl
  intro T _
  by_cases c : (T.start == tn) = true
  · simp only [c, if_true]
    exact ⟨(hg T).1, by simp [Tran.active, (hg T).2.1], by simp [(hg T).2.1], (hg T).2.2⟩
  · simp only [c]
    exact ⟨rfl, id, fun _ h => h, fun _ _ _ h => h⟩

theorem ext_congr {s s' : State} (ht : s'.trans = s.trans) (hq : s.seq ≤ s'.seq) : Ext s s' := by
  apply ext_map (s := s) (s' := s') id hq (by simp [ht])
  intro T _; exact ⟨rfl, id, fun _ h => h, fun _ _ _ h => h⟩

/-! ### every operation is an `Ext` step -/

theorem hasWrite_updActs {acts : List Acts} {tbl : Nat} {h : Acts → Acts}
    (hh : ∀ a : Acts, (h a).table = a.table ∧ (∀ p ∈ a.outs, p ∈ (h a).outs) ∧ (∀ p ∈ a.dels, p ∈ (h a).dels))
    {tbl' idx : Nat} {k : Key}
    (hw : ∃ a ∈ acts, a.table = tbl' ∧ ((idx, k) ∈ a.outs ∨ (idx, k) ∈ a.dels)) :
    ∃ a ∈ updActs acts tbl h, a.table = tbl' ∧ ((idx, k) ∈ a.outs ∨ (idx, k) ∈ a.dels) := by
  obtain ⟨a, ha, ht, hw⟩ := hw
  unfold updActs
  split
  · by_cases c : (a.table == tbl) = true
    · refine ⟨h a, List.mem_map.2 ⟨a, ha, by simp [c]⟩, by rw [(hh a).1]; exact ht, ?_⟩
      rcases hw with hw | hw
      · exact Or.inl ((hh a).2.1 _ hw)
      · exact Or.inr ((hh a).2.2 _ hw)
    · exact ⟨a, List.mem_map.2 ⟨a, ha, by simp [c]⟩, ht, hw⟩
  · exact ⟨a, List.mem_append_left _ ha, ht, hw⟩

theorem mem_addKeys_left {p : Nat × Key} : ∀ (ks l : List (Nat × Key)), p ∈ l → p ∈ addKeys l ks
  | [], _, h => h
  | q :: ks, l, h => by
    simp only [addKeys, List.foldl_cons]
    apply mem_addKeys_left ks
    split
    · exact h
    · exact List.mem_append_left _ h

theorem ext_abortAll : ∀ (l : List Nat) {s : State}, CkInv s → Ext s (abortAll s l)
  | [], s, _ => Ext.refl s
  | t :: r, _, i => (frame_abort i t).ext.trans (ext_abortAll r ((frame_abort i t).inv i))

theorem ext_saveRead {s : State} (i : CkInv s) (tn tbl idx : Nat) (f t : Key) :
    Ext s (saveRead s tn tbl idx f t) := by
  unfold saveRead
  cases s.find tn with
  | none => exact Ext.refl s
  | some T1 =>
    dsimp only
    split
    · exact (frame_abort i tn).ext
    · apply ext_modify
      intro T
      refine ⟨rfl, rfl, ?_⟩
      intro tbl' idx' k hw
      simp only [Tran.hasWrite] at hw ⊢
      refine hasWrite_updActs ?_ hw
      exact fun a => ⟨rfl, fun _ h => h, fun _ h => h⟩

theorem ext_read {s : State} (i : CkInv s) (tn tbl idx : Nat) (f t : Key) (order pick : List Nat) :
    Ext s (read s tn tbl idx f t order pick).1 := by
  unfold read
  cases s.find tn with
  | none => exact Ext.refl s
  | some T =>
    dsimp only
    split
    · exact Ext.refl s
    · split
      · exact Ext.refl s
      · obtain ⟨fr, -⟩ := visit_spec (readHit tbl idx f t) (readHit_stable tbl idx f t) pick tn
          (order ++ allIds s) s i
        split
        · exact fr.ext
        · exact fr.ext.trans (ext_saveRead (fr.inv i) tn tbl idx f t)

theorem ext_writePre {s : State} (i : CkInv s) (tn tbl : Nat) : Ext s (writePre s tn tbl).1 := by
  have hm : Ext s (s.modify tn fun T => { T with hasUpdates := true }) :=
    ext_modify s tn _ (fun T => ⟨rfl, rfl, fun _ _ _ h => h⟩)
  unfold writePre
  cases hf : s.find tn with
  | none => exact Ext.refl s
  | some T =>
    dsimp only
    split
    · exact (frame_abort i tn).ext
    · rename_i hc
      by_cases hu : T.hasUpdates = true
      · simp only [hu, if_true]
        split
        · exact Ext.refl s
        · split
          · exact (frame_abort i tn).ext
          · exact Ext.refl s
      · have hu' : T.hasUpdates = false := by simpa using hu
        simp only [hu', Bool.false_eq_true, if_false]
        -- the intermediate state satisfies the invariant (same argument as in writePre_spec)
        have i1 : CkInv (s.modify tn fun T => { T with hasUpdates := true }) := by
          obtain ⟨hT, hTs⟩ := find_mem hf
          apply inv_modify i tn
          · intro T; exact ⟨rfl, rfl, rfl⟩
          · intro X hX e h
            exfalso
            have : X = T := uniq_start i.sorted hX hT (by omega)
            subst this
            simp at h
            simp [hu', h] at hc
          · intro X _ _ _ _ _ _; rfl
          · intro A hA B hB hne hact hov tbl' idx' f' t' k hr hw hin
            refine i.conf A hA B hB hne hact hov tbl' idx' f' t' k ?_ ?_ hin
            · by_cases c : A.start = tn
              · rw [if_pos c] at hr; exact hr
              · rw [if_neg c] at hr; exact hr
            · by_cases c : B.start = tn
              · rw [if_pos c] at hw; exact hw
              · rw [if_neg c] at hw; exact hw
        split
        · exact hm
        · split
          · exact hm.trans (frame_abort i1 tn).ext
          · exact hm

theorem ext_writeOp {s : State} (i : CkInv s) (tn tbl : Nat) (chk dels outs : List (Nat × Key))
    (order pick : List Nat) : Ext s (writeOp s tn tbl chk dels outs order pick).1 := by
  unfold writeOp
  have ep := ext_writePre i tn tbl
  obtain ⟨ip, -⟩ := writePre_spec i tn tbl
  dsimp only
  split
  · exact ep
  · obtain ⟨fr, -⟩ := visit_spec (keysHit tbl chk) (keysHit_stable tbl chk) pick tn
      (order ++ allIds (writePre s tn tbl).1) _ ip
    split
    · exact ep.trans fr.ext
    · refine (ep.trans fr.ext).trans (ext_modify _ tn _ ?_)
      intro T
      refine ⟨rfl, rfl, ?_⟩
      intro tbl' idx' k hw
      simp only [Tran.hasWrite] at hw ⊢
      refine hasWrite_updActs ?_ hw
      exact fun a => ⟨rfl, fun _ h => mem_addKeys_left _ _ h, fun _ h => mem_addKeys_left _ _ h⟩

theorem ext_start (s : State) : Ext s (start s).1 where
  seq := by simp [start]
  act := by
    intro A' hA' ha
    simp only [start, List.mem_append, List.mem_singleton] at hA'
    rcases hA' with hA' | rfl
    · exact Or.inl ⟨A', hA', ha, rfl⟩
    · right; simp
  keep := by
    intro B hB e he _
    exact Or.inl ⟨B, by simp [start, hB], rfl, he, fun _ _ _ h => h⟩

theorem ext_commit {s : State} (i : CkInv s) (tn : Nat) : Ext s (commit s tn).1 := by
  unfold commit
  cases hf : s.trans.find? (fun t => t.start == tn && t.active) with
  | none => exact Ext.refl s
  | some T =>
    dsimp only
    generalize ho : (if s.oldest == some tn then none else s.oldest) = oldest'
    have hold : oldest' = s.oldest ∨ oldest' = none := by subst ho; split <;> simp
    generalize (if T.rc = true then tn :: s.deadRc else s.deadRc) = dead
    have i2 := inv_commit_mid i tn T oldest' hold dead
    by_cases hu : T.hasUpdates = true
    · rw [if_pos hu] at i2
      simp only [hu, if_true]
      have e1 : Ext s { s with seq := s.seq + 2, oldest := oldest', trans := s.trans.map (commitT tn (s.seq + 2)) } := by
        apply ext_map (s := s) (commitT tn (s.seq + 2)) (by simp) rfl
        intro X _
        refine ⟨(commitT_facts tn _ X).1, ?_, ?_, ?_⟩
        · intro h; rw [(commitT_facts tn _ X).2.2.2.2.2.1 h] at h; exact h
        · intro e he
          unfold commitT
          split
          · rename_i hc; simp [Tran.active, he] at hc
          · exact he
        · intro tbl idx k ⟨a, ha, ht, hw⟩
          unfold commitT
          split
          · exact ⟨_, List.mem_map.2 ⟨a, ha, rfl⟩, ht, hw⟩
          · exact ⟨a, ha, ht, hw⟩
      split
      · exact e1.trans (frame_cleanEnded (fun X hX => (i2.bound X hX).1) i2.oldestOK).ext
      · exact e1
    · rw [if_neg hu] at i2
      have hu' : T.hasUpdates = false := by simpa using hu
      simp only [hu', Bool.false_eq_true, if_false]
      have e1 : Ext s { s with seq := s.seq + 2, oldest := oldest', trans := s.trans.filter (fun t => !(t.start == tn && t.active)), deadRc := dead } := by
        refine ⟨by simp, ?_, ?_⟩
        · intro A' hA' ha
          simp only [List.mem_filter] at hA'
          exact Or.inl ⟨A', hA'.1, ha, rfl⟩
        · intro B hB e he _
          refine Or.inl ⟨B, ?_, rfl, he, fun _ _ _ h => h⟩
          simp only [List.mem_filter]
          exact ⟨hB, by simp [Tran.active, he]⟩
      split
      · exact e1.trans (frame_cleanEnded (fun X hX => (i2.bound X hX).1) i2.oldestOK).ext
      · exact e1

theorem step_ext {s : State} (i : CkInv s) (op : Op) : Ext s (step s op).1 := by
  cases op with
  | start => exact ext_start s
  | read tn tbl idx f t o p => exact ext_read i tn tbl idx f t o p
  | output tn tbl ks o p => exact ext_writeOp i tn tbl _ _ _ o p
  | delete tn tbl ks o p => exact ext_writeOp i tn tbl _ _ _ o p
  | update tn tbl ok nk o p => exact ext_writeOp i tn tbl _ _ _ o p
  | commit tn => exact ext_commit i tn
  | abort tn => exact (frame_abort i tn).ext
  | tick m =>
    exact (ext_congr (s := s) (s' := { s with clock := s.clock + 1 }) rfl (Nat.le_refl _)).trans
      (ext_abortAll _ (inv_congr i rfl (Nat.le_refl _) (Or.inl rfl)))
  | addExcl tbl =>
    simp only [step, addExcl]
    split
    · exact Ext.refl s
    · exact (ext_abortAll _ i).trans (ext_congr (s := abortAll s _) rfl (Nat.le_refl _))
  | endExcl tbl =>
    simp only [step, endExcl]
    split
    · generalize (s.excl.map fun x => if x.1 == tbl then (tbl, some (s.seq + 2)) else x) = ex
      have i1 : CkInv { s with seq := s.seq + 2, excl := ex } := inv_congr i rfl (by simp) (Or.inl rfl)
      exact (ext_congr (s := s) (s' := { s with seq := s.seq + 2, excl := ex }) rfl (by simp)).trans
        (frame_cleanEnded (fun T hT => (i1.bound T hT).1) i1.oldestOK).ext
    · exact Ext.refl s
  | readCount tn => exact Ext.refl s

/-! ### the invariant of the ghost log -/

structure LogInv (s : State) (log : List Logged) : Prop where
  lbound : ∀ L ∈ log, L.end_ ≤ s.seq
  retain : ∀ L ∈ log, (∀ A ∈ s.trans, A.active = true → L.end_ < A.start) ∨
    (∃ B ∈ s.trans, B.start = L.start ∧ B.end_ = some L.end_ ∧
      ∀ tbl idx k, (tbl, idx, k) ∈ L.writes → B.hasWrite tbl idx k)
  ser : ∀ L ∈ log, ∀ L' ∈ log, L.start < L'.end_ → L'.end_ < L.end_ →
    ∀ tbl idx f t k, (tbl, idx, f, t) ∈ L.reads → (tbl, idx, k) ∈ L'.writes → inRange f t k = false

theorem LogInv.ext {s s' : State} {log : List Logged} (l : LogInv s log) (e : Ext s s') :
    LogInv s' log where
  lbound := fun L hL => Nat.le_trans (l.lbound L hL) e.seq
  retain := by
    intro L hL
    have hb := l.lbound L hL
    rcases l.retain L hL with h | ⟨B, hB, b1, b2, b3⟩
    · left
      intro A' hA' ha
      rcases e.act A' hA' ha with ⟨A, hA, ha0, e1⟩ | h1
      · have := h A hA ha0; omega
      · omega
    · rcases e.keep B hB L.end_ b2 hb with ⟨B', hB', c1, c2, c3⟩ | hk
      · exact Or.inr ⟨B', hB', by omega, c2, fun t i k x => c3 t i k (b3 t i k x)⟩
      · exact Or.inl hk
  ser := l.ser

theorem mem_logOf_writes {T : Tran} {e tbl idx : Nat} {k : Key}
    (h : (tbl, idx, k) ∈ (logOf T e).writes) : T.hasWrite tbl idx k := by
  simp only [logOf, List.mem_flatMap, List.mem_map, List.mem_append, Prod.mk.injEq] at h
  obtain ⟨a, ha, w, hw, h1, h2⟩ := h
  refine ⟨a, ha, h1, ?_⟩
  have : w = (idx, k) := by cases w; simp_all
  subst this; exact hw

theorem mem_logOf_reads {T : Tran} {e tbl idx : Nat} {f t : Key}
    (h : (tbl, idx, f, t) ∈ (logOf T e).reads) : T.hasRead tbl idx f t := by
  simp only [logOf, List.mem_flatMap, List.mem_map, Prod.mk.injEq] at h
  obtain ⟨a, ha, r, hr, h1, h2⟩ := h
  refine ⟨a, ha, h1, ?_⟩
  have : r = (idx, f, t) := by rcases r with ⟨x, y, z⟩; simp_all
  subst this; exact hr

/-- what `commit` does with a committing update transaction: the sequence number it gets, and
the committed copy is kept unless no remaining active transaction overlaps it -/
theorem commit_logged {s : State} (i : CkInv s) (tn : Nat) (T : Tran)
    (hf : s.trans.find? (fun t => t.start == tn && t.active) = some T) (hu : T.hasUpdates = true) :
    (commit s tn).1.seq = s.seq + 2 ∧
    ((∀ A ∈ (commit s tn).1.trans, A.active = true → s.seq + 2 < A.start) ∨
     (∃ B ∈ (commit s tn).1.trans, B.start = T.start ∧ B.end_ = some (s.seq + 2) ∧
        ∀ tbl idx k, T.hasWrite tbl idx k → B.hasWrite tbl idx k)) := by
  have hT := List.mem_of_find?_eq_some hf
  have hp := List.find?_some hf
  simp only [Bool.and_eq_true, beq_iff_eq] at hp
  unfold commit
  rw [hf]
  dsimp only
  generalize ho : (if s.oldest == some tn then none else s.oldest) = oldest'
  have hold : oldest' = s.oldest ∨ oldest' = none := by subst ho; split <;> simp
  have i2 := inv_commit_mid i tn T oldest' hold []
  rw [if_pos hu] at i2
  simp only [hu, if_true]
  -- the committed copy in the intermediate state
  have hB : commitT tn (s.seq + 2) T ∈ s.trans.map (commitT tn (s.seq + 2)) := List.mem_map_of_mem hT
  have hBf : (commitT tn (s.seq + 2) T).start = T.start ∧
      (commitT tn (s.seq + 2) T).end_ = some (s.seq + 2) ∧
      ∀ tbl idx k, T.hasWrite tbl idx k → (commitT tn (s.seq + 2) T).hasWrite tbl idx k := by
    unfold commitT
    simp only [hp.1, hp.2, beq_self_eq_true, Bool.and_self, if_true]
    refine ⟨trivial, trivial, ?_⟩
    intro tbl idx k ⟨a, ha, ht, hw⟩
    exact ⟨_, List.mem_map.2 ⟨a, ha, rfl⟩, ht, hw⟩
  split
  · refine ⟨by simp [cleanEnded], ?_⟩
    have fe := (frame_cleanEnded (fun X hX => (i2.bound X hX).1) i2.oldestOK).ext
    rcases fe.keep _ hB (s.seq + 2) hBf.2.1 (by simp) with ⟨B', hB', c1, c2, c3⟩ | hk
    · exact Or.inr ⟨B', hB', by rw [c1]; exact hBf.1, c2, fun t x k h => c3 t x k (hBf.2.2 t x k h)⟩
    · exact Or.inl hk
  · exact ⟨rfl, Or.inr ⟨_, hB, hBf⟩⟩

theorem stepG_inv {g : State × List Logged} (i : CkInv g.1) (l : LogInv g.1 g.2) (op : Op) :
    LogInv (stepG g op).1 (stepG g op).2 := by
  have e := step_ext i op
  have l' := l.ext e
  cases op with
  | commit tn =>
    simp only [stepG]
    cases hf : g.1.trans.find? (fun t => t.start == tn && t.active) with
    | none => exact l'
    | some T =>
      simp only []
      by_cases hu : T.hasUpdates = true
      · rw [if_pos hu]
        obtain ⟨hseq, hkeep⟩ := commit_logged i tn T hf hu
        have hT := List.mem_of_find?_eq_some hf
        have hp := List.find?_some hf
        simp only [Bool.and_eq_true, beq_iff_eq] at hp
        have hTe : T.end_ = none := by simpa [Tran.active] using hp.2
        simp only [step] at hseq hkeep l' ⊢
        constructor
        · intro L hL
          rcases List.mem_cons.1 hL with rfl | hL
          · simp [logOf, hseq]
          · exact l'.lbound L hL
        · intro L hL
          rcases List.mem_cons.1 hL with rfl | hL
          · rcases hkeep with h | ⟨B, hB, b1, b2, b3⟩
            · exact Or.inl h
            · exact Or.inr ⟨B, hB, b1, b2, fun t x k h => b3 t x k (mem_logOf_writes h)⟩
          · exact l'.retain L hL
        · intro L hL L' hL' h1 h2 tbl idx f t k hr hw
          rcases List.mem_cons.1 hL with rfl | hL
          · rcases List.mem_cons.1 hL' with rfl | hL'
            · exact absurd h2 (Nat.lt_irrefl _)
            · -- the committing transaction against an earlier commit
              cases hin : inRange f t k with
              | false => rfl
              | true =>
                exfalso
                simp only [logOf] at h1
                rcases l.retain L' hL' with h | ⟨B, hB, b1, b2, b3⟩
                · have := h T hT hp.2; omega
                · have hne : T.start ≠ B.start := by
                    intro e2
                    have := uniq_start i.sorted hT hB e2
                    subst this
                    rw [hTe] at b2; simp at b2
                  have hov : overlap T.start T.end_ B.start B.end_ = true := by
                    simp [overlap, hTe, b2, h1]
                  have hrc := i.conf T hT B hB hne hp.2 hov tbl idx f t k (mem_logOf_reads hr)
                    (b3 tbl idx k hw) hin
                  have := i.rcNoUpd T hT hrc
                  rw [hu] at this; simp at this
          · rcases List.mem_cons.1 hL' with rfl | hL'
            · -- an earlier commit cannot end after the new one
              exfalso
              have := l.lbound L hL
              simp only [logOf] at h1 h2
              omega
            · exact l.ser L hL L' hL' h1 h2 tbl idx f t k hr hw
      · rw [if_neg hu]; exact l'
  | start => exact l'
  | read tn tbl idx f t o p => exact l'
  | output tn tbl ks o p => exact l'
  | delete tn tbl ks o p => exact l'
  | update tn tbl ok nk o p => exact l'
  | abort tn => exact l'
  | tick m => exact l'
  | addExcl tbl => exact l'
  | endExcl tbl => exact l'
  | readCount tn => exact l'

theorem logInv_init : LogInv {} [] where
  lbound := by intro L h; simp at h
  retain := by intro L h; simp at h
  ser := by intro L h; simp at h

theorem runG_inv : ∀ (ops : List Op) (g : State × List Logged), CkInv g.1 → LogInv g.1 g.2 →
    LogInv (runG g ops).1 (runG g ops).2
  | [], _, _, l => l
  | op :: ops, g, i, l => runG_inv ops (stepG g op) (step_inv i op) (stepG_inv i l op)

end Gsu.Ck
