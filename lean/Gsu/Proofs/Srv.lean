/-
Lemmas about the C41 model (`Gsu.Model.Srv`), generic in the regenerated configuration `cfg`:
the facts about the generated tables enter as Boolean hypotheses that `Gsu.Props.C41`
discharges by `decide` on `Gsu.Gen.SrvCmds`.
-/
import Gsu.Model.Srv
namespace Gsu.Proofs.Srv
open Gsu.SrvEv Gsu.Srv

/-! ### table facts (decidable, checked on the generated tables) -/

def allHs : List Hs :=
  [⟨false,false,false⟩, ⟨false,false,true⟩, ⟨false,true,false⟩, ⟨false,true,true⟩,
   ⟨true,false,false⟩, ⟨true,false,true⟩, ⟨true,true,false⟩, ⟨true,true,true⟩]

theorem mem_allHs (hs : Hs) : hs ∈ allHs := by
  rcases hs with ⟨a, b, c⟩
  cases a <;> cases b <;> cases c <;> simp [allHs]

/-- no path reaches a call outside `benign`: every path ends refused or answered -/
def cmdQuiet (ua : List (String × UA)) (tn0 : Bool) (hs : Hs) (c : Cmd) : Bool :=
  (cmdOuts ua false tn0 hs c).all (fun o => o.2 == .refused || o.2 == .answered)

/-- every command outside `allowed`, on a connection without handles, is refused on every path,
    whatever its transaction-number argument; the commands of `quietOk` may instead be answered
    on some path, having reached nothing but `benign` calls -/
def onlyAllowed (cfg : Cfg) : Bool :=
  cfg.cmds.all fun c =>
    decide (c.name ∈ allowed) ||
      (cmdRefused cfg.unauth false true Hs.none c && cmdRefused cfg.unauth false false Hs.none c) ||
      (decide (c.name ∈ quietOk) &&
        cmdQuiet cfg.unauth true Hs.none c && cmdQuiet cfg.unauth false Hs.none c)

/-- no command gives a handle to an unauthenticated connection that has none -/
def hsClosed (cfg : Cfg) : Bool :=
  cfg.cmds.all fun c =>
    cmdHs cfg.unauth false true Hs.none c == Hs.none && cmdHs cfg.unauth false false Hs.none c == Hs.none

/-- `cmdToken` exists and is refused on an unauthenticated connection whatever handles it has -/
def tokenGuarded (cfg : Cfg) : Bool :=
  match findCmd cfg.cmds "cmdToken" with
  | none => true
  | some cmd => allHs.all fun hs => cmdRefused cfg.unauth false false hs cmd

theorem onlyAllowed_spec {cfg : Cfg} (h : onlyAllowed cfg = true) (c : Cmd) (hc : c ∈ cfg.cmds)
    (hn : c.name ∉ allowed) (hq : c.name ∉ quietOk) (tn0 : Bool) :
    cmdRefused cfg.unauth false tn0 Hs.none c = true := by
  have := (List.all_eq_true.mp h) c hc
  simp only [Bool.or_eq_true, decide_eq_true_eq, Bool.and_eq_true] at this
  rcases this with (h1 | ⟨h1, h2⟩) | ⟨⟨h1, _⟩, _⟩
  · exact absurd h1 hn
  · cases tn0 <;> assumption
  · exact absurd h1 hq

theorem onlyAllowed_quiet {cfg : Cfg} (h : onlyAllowed cfg = true) (c : Cmd) (hc : c ∈ cfg.cmds)
    (hn : c.name ∉ allowed) (tn0 : Bool) : cmdQuiet cfg.unauth tn0 Hs.none c = true := by
  have := (List.all_eq_true.mp h) c hc
  simp only [Bool.or_eq_true, decide_eq_true_eq, Bool.and_eq_true] at this
  rcases this with (h1 | ⟨h1, h2⟩) | ⟨⟨_, h1⟩, h2⟩
  · exact absurd h1 hn
  · have : cmdRefused cfg.unauth false tn0 Hs.none c = true := by cases tn0 <;> assumption
    unfold cmdRefused at this
    unfold cmdQuiet
    rw [List.all_eq_true] at this ⊢
    intro o ho
    simp [this o ho]
  · cases tn0 <;> assumption

theorem hsClosed_spec {cfg : Cfg} (h : hsClosed cfg = true) (c : Cmd) (hc : c ∈ cfg.cmds)
    (tn0 : Bool) : cmdHs cfg.unauth false tn0 Hs.none c = Hs.none := by
  have := (List.all_eq_true.mp h) c hc
  simp only [Bool.and_eq_true, beq_iff_eq] at this
  cases tn0
  · exact this.2
  · exact this.1

theorem tokenGuarded_spec {cfg : Cfg} (h : tokenGuarded cfg = true) (cmd : Cmd)
    (hf : findCmd cfg.cmds "cmdToken" = some cmd) (hs : Hs) :
    cmdRefused cfg.unauth false false hs cmd = true := by
  unfold tokenGuarded at h
  rw [hf] at h
  exact (List.all_eq_true.mp h) hs (mem_allHs hs)

/-- "all paths refused" is the response class `!refused` -/
theorem class_of_refused {ua : List (String × UA)} {a t : Bool} {hs : Hs} {c : Cmd}
    (h : cmdRefused ua a t hs c = true) : cmdClass ua a t hs c = "!refused" := by
  unfold cmdRefused at h
  simp [cmdClass, h]

/-! ### AuthUser -/

/-- `s` is user ++ NUL ++ H(nonce ++ passhash) for an existing user with a password hash -/
def ValidCred (H : Bytes → Bytes) (users : List (Bytes × Bytes)) (nonce s : Bytes) : Prop :=
  nonce ≠ [] ∧ ∃ u, passhash users u ≠ [] ∧ s = u ++ 0 :: H (nonce ++ passhash users u)

theorem authUser_valid {H : Bytes → Bytes} {users : List (Bytes × Bytes)} {s nonce : Bytes}
    (h : authUser H true users s nonce = true) : ValidCred H users nonce s := by
  unfold authUser at h
  by_cases hn : nonce = []
  · simp [hn] at h
  · simp only [hn, ↓reduceIte, Bool.true_and] at h
    by_cases hp : (passhash users (beforeNul s) == []) = true
    · simp [hp] at h
    · simp only [hp, Bool.false_eq_true, ↓reduceIte, beq_iff_eq] at h
      refine ⟨hn, beforeNul s, ?_, h⟩
      intro e
      exact hp (by simp [e])

theorem authUser_nil (H : Bytes → Bytes) (r : Bool) (users : List (Bytes × Bytes)) (s : Bytes) :
    authUser H r users s [] = false := by
  simp [authUser]

/-! ### tokens -/

theorem hasTok_delTok (ts : List Tok) (s : Bytes) : hasTok (delTok ts s) s = false := by
  simp only [hasTok, delTok, List.any_filter]
  induction ts with
  | nil => rfl
  | cons t ts ih =>
    by_cases h : t.tok = s <;> simp [h] at ih ⊢ <;> exact ih

theorem expireToks_twice (ts : List Tok) : expireToks (expireToks ts) = [] := by
  simp only [expireToks, List.filter_map, List.map_eq_nil_iff, List.filter_eq_nil_iff]
  intro t _
  simp [Function.comp]

theorem expireConn_twice (k : Conn) : (expireConn (expireConn k)).nonce = [] := by
  unfold expireConn
  by_cases h1 : k.nonceOld = true
  · simp [h1]
  · by_cases h2 : k.nonce = []
    · simp [h1, h2]
    · simp [h1, h2]

/-! ### one step of the machine -/

theorem setConn_same (st : St) (c : Nat) (k : Conn) : (st.setConn c k).conns c = k := by
  simp [St.setConn]

theorem setConn_other (st : St) (c i : Nat) (k : Conn) (h : i ≠ c) :
    (st.setConn c k).conns i = st.conns i := by
  simp [St.setConn, h]

theorem expireConn_authed (k : Conn) : (expireConn k).authed = k.authed := by
  unfold expireConn
  split
  · rfl
  · split <;> rfl

theorem expireConn_hs (k : Conn) : (expireConn k).hs = k.hs := by
  unfold expireConn
  split
  · rfl
  · split <;> rfl

theorem step_auth_other {cfg : Cfg} {H : Bytes → Bytes} {st : St} {c c' : Nat} {s : Bytes}
    (e : c ≠ c') : (step cfg H st (.auth c' s)).1.conns c = st.conns c := by
  simp only [step]
  split
  · rfl
  · split
    · simp [St.setConn, e]
    · split <;> simp [St.setConn, e]

/-- the only way a connection becomes authenticated -/
theorem authed_step {cfg : Cfg} {H : Bytes → Bytes} {st : St} {op : Op} {c : Nat}
    (h0 : (st.conns c).authed = false) (h1 : ((step cfg H st op).1.conns c).authed = true) :
    ∃ s, op = .auth c s ∧
      (authUser H cfg.rejectEmpty st.users s (st.conns c).nonce = true ∨ hasTok st.tokens s = true) := by
  cases op with
  | nonce c' n =>
    exfalso
    simp only [step] at h1
    by_cases e : c = c'
    · subst e; rw [setConn_same] at h1; simp [h0] at h1
    · rw [setConn_other _ _ _ _ e] at h1; simp [h0] at h1
  | token c' t =>
    exfalso
    simp only [step] at h1
    split at h1
    · simp [h0] at h1
    · split at h1 <;> simp [h0] at h1
  | cmd c' idx tn0 =>
    exfalso
    simp only [step] at h1
    split at h1
    · simp [h0] at h1
    · split at h1
      · simp [h0] at h1
      · split at h1
        · simp [h0] at h1
        · by_cases e : c = c'
          · subst e; rw [setConn_same] at h1; simp [h0] at h1
          · rw [setConn_other _ _ _ _ e] at h1; simp [h0] at h1
  | expire =>
    exfalso
    simp only [step] at h1
    rw [expireConn_authed] at h1
    simp [h0] at h1
  | auth c' s =>
    by_cases e : c = c'
    · subst e
      refine ⟨s, rfl, ?_⟩
      simp only [step, h0, Bool.false_eq_true, ↓reduceIte] at h1
      by_cases ha : authUser H cfg.rejectEmpty st.users s (st.conns c).nonce = true
      · exact Or.inl ha
      · by_cases ht : hasTok st.tokens s = true
        · exact Or.inr ht
        · simp only [ha, ht, Bool.false_eq_true, ↓reduceIte] at h1
          rw [setConn_same] at h1
          simp at h1
    · exfalso
      rw [step_auth_other e] at h1
      simp [h0] at h1

/-- authentication is never lost by a step -/
theorem authed_mono {cfg : Cfg} {H : Bytes → Bytes} {st : St} {op : Op} {c : Nat}
    (h0 : (st.conns c).authed = true) : ((step cfg H st op).1.conns c).authed = true := by
  cases op with
  | nonce c' n =>
    simp only [step]
    by_cases e : c = c'
    · subst e; rw [setConn_same]; exact h0
    · rw [setConn_other _ _ _ _ e]; exact h0
  | token c' t =>
    simp only [step]
    split
    · exact h0
    · split <;> exact h0
  | cmd c' idx tn0 =>
    simp only [step]
    split
    · exact h0
    · split
      · exact h0
      · split
        · exact h0
        · by_cases e : c = c'
          · subst e; rw [setConn_same]; exact h0
          · rw [setConn_other _ _ _ _ e]; exact h0
  | expire =>
    simp only [step]
    rw [expireConn_authed]; exact h0
  | auth c' s =>
    by_cases e : c = c'
    · subst e
      simp [step, h0]
    · rw [step_auth_other e]; exact h0

/-! ### invariants of runs -/

theorem step_users (cfg : Cfg) (H : Bytes → Bytes) (st : St) (op : Op) :
    (step cfg H st op).1.users = st.users := by
  cases op with
  | nonce c n => rfl
  | auth c s =>
    simp only [step]
    split
    · rfl
    · split
      · rfl
      · split <;> rfl
  | token c t =>
    simp only [step]
    split
    · rfl
    · split <;> rfl
  | cmd c idx tn0 =>
    simp only [step]
    split
    · rfl
    · split
      · rfl
      · split <;> rfl
  | expire => rfl

theorem run_inv {cfg : Cfg} {H : Bytes → Bytes} (P : St → Prop)
    (hstep : ∀ st op, P st → P (step cfg H st op).1) (ops : List Op) :
    ∀ st, P st → P (run cfg H st ops) := by
  induction ops with
  | nil => intro st h; exact h
  | cons o os ih =>
    intro st h
    simp only [run, List.foldl_cons]
    exact ih _ (hstep st o h)

/-- every outstanding token was obtained by an authenticated connection -/
def TokInv (st : St) : Prop := ∀ t ∈ st.tokens, t.byAuthed = true

theorem tokInv_step {cfg : Cfg} {H : Bytes → Bytes} (hg : tokenGuarded cfg = true)
    (st : St) (op : Op) (hi : TokInv st) : TokInv (step cfg H st op).1 := by
  cases op with
  | nonce c n => exact hi
  | auth c s =>
    simp only [step]
    split
    · exact hi
    · split
      · exact hi
      · split
        · intro t ht
          exact hi t (List.mem_filter.mp ht).1
        · exact hi
  | token c t =>
    simp only [step]
    split
    · exact hi
    · rename_i cmd hf
      split
      · exact hi
      · rename_i hnr
        intro x hx
        rcases List.mem_cons.mp hx with rfl | hx
        · show (st.conns c).authed = true
          cases ha : (st.conns c).authed with
          | true => rfl
          | false =>
            rw [ha] at hnr
            exact absurd (tokenGuarded_spec hg cmd hf _) hnr
        · exact hi x (List.mem_filter.mp hx).1
  | cmd c idx tn0 =>
    simp only [step]
    split
    · exact hi
    · split
      · exact hi
      · split <;> exact hi
  | expire =>
    simp only [step]
    intro x hx
    simp only [expireToks, List.mem_map, List.mem_filter] at hx
    rcases hx with ⟨y, ⟨hy, _⟩, rfl⟩
    exact hi y hy

/-- nobody is authenticated and no token is outstanding -/
def Locked (st : St) : Prop := (∀ c, (st.conns c).authed = false) ∧ st.tokens = []

/-- the operation is not an Auth whose string is a valid user credential over some nonce -/
def NoCred (H : Bytes → Bytes) (users : List (Bytes × Bytes)) (op : Op) : Prop :=
  ∀ c s, op = .auth c s → ¬ ∃ n, ValidCred H users n s

theorem locked_step {cfg : Cfg} {H : Bytes → Bytes} (hr : cfg.rejectEmpty = true)
    (hg : tokenGuarded cfg = true) (st : St) (op : Op) (hl : Locked st)
    (hn : NoCred H st.users op) : Locked (step cfg H st op).1 := by
  constructor
  · intro c
    cases h : ((step cfg H st op).1.conns c).authed with
    | false => rfl
    | true =>
      exfalso
      rcases authed_step (hl.1 c) h with ⟨s, rfl, ha | ht⟩
      · rw [hr] at ha
        exact hn c s rfl ⟨_, authUser_valid ha⟩
      · rw [hl.2] at ht
        simp [hasTok] at ht
  · cases op with
    | nonce c n => exact hl.2
    | auth c s =>
      simp only [step]
      split
      · exact hl.2
      · split
        · exact hl.2
        · split
          · show delTok st.tokens s = []
            rw [hl.2]; rfl
          · exact hl.2
    | token c t =>
      simp only [step]
      split
      · exact hl.2
      · rename_i cmd hf
        split
        · exact hl.2
        · rename_i hnr
          rw [hl.1 c] at hnr
          exact absurd (tokenGuarded_spec hg cmd hf _) hnr
    | cmd c idx tn0 =>
      simp only [step]
      split
      · exact hl.2
      · split
        · exact hl.2
        · split <;> exact hl.2
    | expire =>
      show expireToks st.tokens = []
      rw [hl.2]; rfl

/-- unauthenticated connections own no transaction, query or cursor -/
def HsInv (st : St) : Prop := ∀ c, (st.conns c).authed = false → (st.conns c).hs = Hs.none

theorem hsInv_step {cfg : Cfg} {H : Bytes → Bytes} (hc : hsClosed cfg = true)
    (st : St) (op : Op) (hi : HsInv st) : HsInv (step cfg H st op).1 := by
  intro c hu
  have hu0 : (st.conns c).authed = false := by
    cases h : (st.conns c).authed with
    | false => rfl
    | true => rw [authed_mono (cfg := cfg) (H := H) (op := op) h] at hu; exact absurd hu (by simp)
  have h0 := hi c hu0
  cases op with
  | nonce c' n =>
    simp only [step]
    by_cases e : c = c'
    · subst e; rw [setConn_same]; exact h0
    · rw [setConn_other _ _ _ _ e]; exact h0
  | auth c' s =>
    by_cases e : c = c'
    · subst e
      simp only [step]
      split
      · exact h0
      · split
        · rw [setConn_same]; exact h0
        · split
          · show ((st.setConn c _).conns c).hs = Hs.none
            rw [setConn_same]; exact h0
          · rw [setConn_same]; exact h0
    · rw [step_auth_other e]; exact h0
  | token c' t =>
    simp only [step]
    split
    · exact h0
    · split <;> exact h0
  | cmd c' idx tn0 =>
    simp only [step]
    split
    · exact h0
    · rename_i cmd hget
      split
      · exact h0
      · split
        · exact h0
        · by_cases e : c = c'
          · subst e
            rw [setConn_same]
            show cmdHs cfg.unauth false tn0 (st.conns c).hs cmd = Hs.none
            rw [h0]
            exact hsClosed_spec hc cmd (List.mem_of_getElem? hget) tn0
          · rw [setConn_other _ _ _ _ e]; exact h0
  | expire =>
    simp only [step]
    rw [expireConn_hs]; exact h0

/-- a command outside the allowed list on an unauthenticated connection: error response and
    nothing changes -/
theorem unauth_cmd_refused {cfg : Cfg} {H : Bytes → Bytes} (ho : onlyAllowed cfg = true)
    (hc : hsClosed cfg = true)
    (st : St) (hi : HsInv st) (c idx : Nat) (tn0 : Bool) (cmd : Cmd)
    (hu : (st.conns c).authed = false) (hget : cfg.cmds[idx]? = some cmd)
    (hna : cmd.name ∉ allowed) (hq : cmd.name ∉ quietOk) (hnt : cmd.name ≠ "cmdToken") :
    (step cfg H st (.cmd c idx tn0)).2 = "!refused" ∧
    (∀ i, (step cfg H st (.cmd c idx tn0)).1.conns i = st.conns i) ∧
    (step cfg H st (.cmd c idx tn0)).1.tokens = st.tokens := by
  have hA : cmd.name ≠ "cmdAuth" := fun e => hna (by simp [allowed, e])
  have hN : cmd.name ≠ "cmdNonce" := fun e => hna (by simp [allowed, e])
  have hr := onlyAllowed_spec ho cmd (List.mem_of_getElem? hget) hna hq tn0
  have hh := hi c hu
  simp only [step, hget, hA, hN, hnt, or_self, ↓reduceIte, hu, Bool.false_eq_true, hh]
  refine ⟨class_of_refused hr, ?_, rfl⟩
  intro i
  by_cases e : i = c
  · subst e
    rw [setConn_same]
    rw [hsClosed_spec hc cmd (List.mem_of_getElem? hget) tn0, ← hh, ← hu]
  · rw [setConn_other _ _ _ _ e]

end Gsu.Proofs.Srv
