/-
C17, interleaving part: the invariant of the mutex + 2 condition variable model.
-/
import Gsu.Model.PqConc
import Gsu.Proofs.Pq
namespace Gsu.PqConc
open Gsu.Pq

theorem get_set {α} (l : List α) (i j : Nat) (p q : α) (h : l[i]? = some p) :
    (l.set i q)[j]? = if j = i then some q else l[j]? := by
  have hi : i < l.length := by
    rcases Nat.lt_or_ge i l.length with h' | h'
    · exact h'
    · simp [List.getElem?_eq_none h'] at h
  rw [List.getElem?_set]
  by_cases hji : j = i
  · subst hji; simp [hi]
  · have : ¬ i = j := fun h => hji h.symm
    simp [hji, this]

theorem countP_set {α} (f : α → Bool) (l : List α) :
    ∀ (i : Nat) (p q : α), l[i]? = some p →
    (l.set i q).countP f + (if f p then 1 else 0) = l.countP f + (if f q then 1 else 0) := by
  induction l with
  | nil => intro i p q h; simp at h
  | cons a r ih =>
    intro i p q h
    cases i with
    | zero =>
      have : a = p := by simpa using h
      subst this
      simp only [List.set_cons_zero, List.countP_cons]
      omega
    | succ i =>
      have h' : r[i]? = some p := by simpa using h
      have := ih i p q h'
      simp only [List.set_cons_succ, List.countP_cons]
      omega

/-- number of producers that will look at the queue again without another wake-up -/
def nActive (s : St) : Nat := s.pp.countP PPc.active

def midGet (s : St) : Nat := if s.cp = .removed then 1 else 0

structure CInv (s : St) : Prop where
  /-- mutual exclusion: whoever is inside a critical section owns the lock -/
  m1 : ∀ (i : Nat) (p : PPc), s.pp[i]? = some p → p.crit = true → s.lock = .prod i
  m2 : s.cp.crit = true → s.lock = .cons
  /-- the bound, and the test `len < bufSize` stays true until the append -/
  bound : s.h.items.length ≤ bufSize
  readyP : ∀ (i : Nat) (e : Elem), s.pp[i]? = some (PPc.ready e) → s.h.items.length < bufSize
  readyC : s.cp = CPc.ready → s.h.items ≠ []
  /-- no lost wake-up, producer side: while a producer is parked every free slot is matched by a
  producer that is on its way to the test or by the consumer's pending `Signal` -/
  credit : (∃ (i : Nat) (e : Elem), s.pp[i]? = some (PPc.wait e)) → bufSize ≤ s.h.items.length + nActive s + midGet s
  /-- no lost wake-up, consumer side -/
  cwait : s.cp = CPc.wait → s.h.items = [] ∨ ∃ i : Nat, s.pp[i]? = some PPc.appended
  fifo : FifoInv s.h

theorem inv_init (n : Nat) : CInv (init n) := by
  refine ⟨?_, ?_, ?_, ?_, ?_, ?_, ?_, ?_⟩
  · intro i p h hc
    simp only [init, List.getElem?_replicate] at h
    split at h
    · cases h; simp [PPc.crit] at hc
    · cases h
  · simp [init, CPc.crit]
  · simp [init]
  · intro i e h
    simp only [init, List.getElem?_replicate] at h
    split at h <;> cases h
  · simp [init]
  · rintro ⟨i, e, h⟩
    simp only [init, List.getElem?_replicate] at h
    split at h <;> cases h
  · simp [init]
  · intro t; rfl

theorem waiter_pres (s : St) (i : Nat) (p q : PPc) (hp : s.pp[i]? = some p) (hq : q.waiting = false)
    (h : ∃ (j : Nat) (e : Elem), (s.pp.set i q)[j]? = some (PPc.wait e)) : ∃ (j : Nat) (e : Elem), s.pp[j]? = some (PPc.wait e) := by
  obtain ⟨j, e, hj⟩ := h
  rw [get_set _ _ _ _ _ hp] at hj
  split at hj
  · cases hj; simp [PPc.waiting] at hq
  · exact ⟨j, e, hj⟩

theorem appended_pres (s : St) (i : Nat) (p q : PPc) (hp : s.pp[i]? = some p) (hne : p ≠ PPc.appended)
    (h : ∃ j : Nat, s.pp[j]? = some PPc.appended) : ∃ j : Nat, (s.pp.set i q)[j]? = some PPc.appended := by
  obtain ⟨j, hj⟩ := h
  refine ⟨j, ?_⟩
  rw [get_set _ _ _ _ _ hp]
  split
  · next h => subst h; rw [hp] at hj; cases hj; exact absurd rfl hne
  · exact hj

theorem m1_step (s s' : St) (hi : CInv s) (hs : Step s s') :
    ∀ (i : Nat) (p : PPc), s'.pp[i]? = some p → p.crit = true → s'.lock = .prod i := by
  have m1 := hi.m1
  have m2 := hi.m2
  cases hs <;> intro k p hk hc <;> simp only [] at hk ⊢
  all_goals (try rw [get_set _ _ _ _ _ (by assumption)] at hk)
  all_goals (try split at hk)
  all_goals (try (cases hk))
  all_goals (try simp [PPc.crit] at hc)
  all_goals (try grind [PPc.crit, CPc.crit])

theorem m2_step (s s' : St) (hi : CInv s) (hs : Step s s') : s'.cp.crit = true → s'.lock = .cons := by
  have m1 := hi.m1
  have m2 := hi.m2
  cases hs <;> intro hc <;> simp only [] at hc ⊢
  all_goals (try simp [CPc.crit] at hc)
  all_goals (try grind [PPc.crit, CPc.crit])

theorem bound_step (s s' : St) (hi : CInv s) (hs : Step s s') : s'.h.items.length ≤ bufSize := by
  have b := hi.bound
  cases hs <;> simp only [] <;> try exact b
  · next i e hp => have := hi.readyP i e hp; simp [put]; omega
  · next e rest hc hg =>
    obtain ⟨_, _, hr⟩ := get_eq s.h.items e rest hg
    have := List.length_eraseIdx_le s.h.items (pick s.h.items)
    rw [hr]; omega

theorem readyC_step (s s' : St) (hi : CInv s) (hs : Step s s') : s'.cp = CPc.ready → s'.h.items ≠ [] := by
  have b := hi.readyC
  cases hs <;> intro hc <;> simp only [] at hc ⊢
  all_goals (try (cases hc))
  all_goals (try simp [put])
  all_goals (try grind)

theorem fifo_step' (s s' : St) (hi : CInv s) (hs : Step s s') : FifoInv s'.h := by
  have b := hi.fifo
  cases hs <;> simp only [] <;> try exact b
  · exact fifo_put _ _ b
  · next e rest hc hg => exact fifo_get _ _ _ hg b

theorem readyP_step (s s' : St) (hi : CInv s) (hs : Step s s') :
    ∀ (i : Nat) (e : Elem), s'.pp[i]? = some (PPc.ready e) → s'.h.items.length < bufSize := by
  have m1 := hi.m1
  have m2 := hi.m2
  have r := hi.readyP
  cases hs <;> intro k e' hk <;> simp only [] at hk ⊢
  all_goals (try rw [get_set _ _ _ _ _ (by assumption)] at hk)
  all_goals (try split at hk)
  all_goals (try (cases hk))
  all_goals (try (exact r _ _ hk))
  all_goals (try omega)
  · -- pAppend by i, another producer k ready: impossible (both critical)
    next i e hp hne =>
    have h1 := m1 i _ hp rfl
    have h2 := m1 k _ hk rfl
    rw [h1] at h2; cases h2; exact absurd rfl hne
  · -- cRemove
    next e rest hc hg =>
    obtain ⟨_, _, hr⟩ := get_eq s.h.items e rest hg
    have := List.length_eraseIdx_le s.h.items (pick s.h.items)
    have := r _ _ hk
    rw [hr]; omega

theorem credit_pp (s : St) (i : Nat) (p q : PPc) (hp : s.pp[i]? = some p) (hq : q.waiting = false)
    (hpq : p.active = true → q.active = true) (hi : CInv s)
    (hw : ∃ (j : Nat) (e : Elem), (s.pp.set i q)[j]? = some (PPc.wait e)) :
    bufSize ≤ s.h.items.length + (s.pp.set i q).countP PPc.active + midGet s := by
  have hcnt := countP_set PPc.active s.pp i p q hp
  have := hi.credit (waiter_pres s i p q hp hq hw)
  simp only [nActive] at this
  by_cases h1 : p.active = true
  · simp [h1, hpq h1] at hcnt; omega
  · by_cases h2 : q.active = true
    · simp [h1, h2] at hcnt; omega
    · simp [h1, h2] at hcnt; omega

theorem credit_step (s s' : St) (hi : CInv s) (hs : Step s s') :
    (∃ (i : Nat) (e : Elem), s'.pp[i]? = some (PPc.wait e)) →
      bufSize ≤ s'.h.items.length + nActive s' + midGet s' := by
  have c := hi.credit
  cases hs <;> intro hw <;> simp only [nActive] at hw c ⊢
  case pFull i e hp hf => omega
  case cSignalNone hc hn =>
    obtain ⟨i, e, h⟩ := hw
    have := hn i _ h
    simp [PPc.waiting] at this
  case cRemove e rest hc hg =>
    obtain ⟨_, _, hr⟩ := get_eq s.h.items e rest hg
    have h1 := List.length_eraseIdx (l := s.h.items) (i := pick s.h.items)
    have := c hw
    rw [hr]
    simp [hc, midGet] at this ⊢
    split at h1 <;> omega
  case cSignalWake j e hc hp =>
    have hcnt := countP_set PPc.active s.pp j _ (PPc.want e) hp
    have := c (waiter_pres s j _ _ hp rfl hw)
    simp [PPc.active, hc, midGet] at hcnt this ⊢
    omega
  case pAppend i e hp =>
    have hcnt := countP_set PPc.active s.pp i _ PPc.appended hp
    have := c (waiter_pres s i _ _ hp rfl hw)
    simp [PPc.active, put, midGet] at hcnt this ⊢
    omega
  case pCall i e hp => exact credit_pp s i _ _ hp rfl (by simp [PPc.active]) hi hw
  case pLock i e hp hl => exact credit_pp s i _ _ hp rfl (by simp [PPc.active]) hi hw
  case pReady i e hp hf => exact credit_pp s i _ _ hp rfl (by simp [PPc.active]) hi hw
  case pSignalNone i hp hc => exact credit_pp s i _ _ hp rfl (by simp [PPc.active]) hi hw
  case pSignalWake i hp hc =>
    have := credit_pp s i _ _ hp rfl (by simp [PPc.active]) hi hw
    simp [midGet, hc] at this ⊢; exact this
  case pUnlock i hp => exact credit_pp s i _ _ hp rfl (by simp [PPc.active]) hi hw
  case pSpurious i e hp => exact credit_pp s i _ _ hp rfl (by simp [PPc.active]) hi hw
  all_goals (have := c hw; simp_all [midGet])

theorem cwait_step (s s' : St) (hi : CInv s) (hs : Step s s') :
    s'.cp = CPc.wait → s'.h.items = [] ∨ ∃ i : Nat, s'.pp[i]? = some PPc.appended := by
  have c := hi.cwait
  cases hs <;> intro hc <;> simp only [] at hc ⊢
  case pSignalNone i hp hne => exact absurd hc hne
  case pAppend i e hp => right; exact ⟨i, by rw [get_set _ _ _ _ _ hp]; simp⟩
  case cEmpty hc' he => left; exact List.eq_nil_of_length_eq_zero he
  all_goals first
    | cases hc
    | (rcases c hc with h | h
       · exact Or.inl h
       · exact Or.inr (appended_pres _ _ _ _ (by assumption) (by simp) h))

theorem inv_step (s s' : St) (hi : CInv s) (hs : Step s s') : CInv s' :=
  ⟨m1_step s s' hi hs, m2_step s s' hi hs, bound_step s s' hi hs, readyP_step s s' hi hs,
   readyC_step s s' hi hs, credit_step s s' hi hs, cwait_step s s' hi hs, fifo_step' s s' hi hs⟩

theorem inv_reach (n : Nat) (s : St) (h : Reach n s) : CInv s := by
  induction h with
  | init => exact inv_init n
  | step s s' _ hs ih => exact inv_step s s' ih hs

end Gsu.PqConc
