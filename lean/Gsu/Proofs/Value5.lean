/-
C28, part 5: the exact shape of the open finding KF-C28-1 on numbers. `FromInt` is monotone on
the whole int64 range (also through the rounding loop of `New` for 17–19 digit ints), hence
`Num.compare` is transitive for every triple of numbers EXCEPT the pattern
int ≤ decimal ≤ int (where the two ints may round to the same decimal). Core-only.
-/
import Gsu.Proofs.Value4
namespace Gsu.Dnum
open Gsu.Num

/-- lexicographic `(exp, coef) ≤ (exp', coef')` : the order `Compare` uses within one sign -/
def lexLe (e : Int) (c : Nat) (e' : Int) (c' : Nat) : Prop := e < e' ∨ (e = e' ∧ c ≤ c')

theorem roundLoop_exp_ge : ∀ (f c : Nat) (e : Int) (b : Bool), e ≤ (roundLoop f c e b).2.1
  | 0, _, _, _ => by simp [roundLoop]
  | f + 1, c, e, b => by
    simp only [roundLoop]
    split
    · have := roundLoop_exp_ge f (((c + 5) % two64) / 10) (e + 1) true
      omega
    · simp

theorem roundLoop_exp_le : ∀ (f c : Nat) (e : Int) (b : Bool), (roundLoop f c e b).2.1 ≤ e + f
  | 0, _, _, _ => by simp [roundLoop]
  | f + 1, c, e, b => by
    simp only [roundLoop]
    split
    · have := roundLoop_exp_le f (((c + 5) % two64) / 10) (e + 1) true
      omega
    · simp; omega

theorem roundLoop_atmax : ∀ (f c : Nat) (e : Int), (roundLoop f c e true).2.2 = true
  | 0, _, _ => by simp [roundLoop]
  | f + 1, c, e => by
    simp only [roundLoop]
    split
    · exact roundLoop_atmax f _ _
    · rfl

theorem roundLoop_succ_gt (f c : Nat) (e : Int) (b : Bool) (h : c > coefMax) :
    roundLoop (f + 1) c e b = roundLoop f (((c + 5) % two64) / 10) (e + 1) true := by
  simp only [roundLoop, h, if_true]

theorem roundLoop_succ_le (f c : Nat) (e : Int) (b : Bool) (h : ¬ c > coefMax) :
    roundLoop (f + 1) c e b = (c, e, b) := by
  simp only [roundLoop, h, if_false]

theorem roundLoop_mono : ∀ (f c c' : Nat) (e : Int) (b b' : Bool), c ≤ c' →
    c' + 5 < 18446744073709551616 →
    lexLe (roundLoop f c e b).2.1 (roundLoop f c e b).1 (roundLoop f c' e b').2.1 (roundLoop f c' e b').1
  | 0, c, c', e, b, b', h, _ => Or.inr ⟨rfl, h⟩
  | f + 1, c, c', e, b, b', h, hw => by
    have hcm : coefMax = 9999999999999999 := rfl
    have w1 : (c + 5) % two64 = c + 5 := Nat.mod_eq_of_lt (by simp only [two64]; omega)
    have w2 : (c' + 5) % two64 = c' + 5 := Nat.mod_eq_of_lt (by simp only [two64]; omega)
    by_cases h1 : c > coefMax
    · have h2 : c' > coefMax := by omega
      rw [roundLoop_succ_gt f c e b h1, roundLoop_succ_gt f c' e b' h2, w1, w2]
      exact roundLoop_mono f _ _ _ _ _ (by omega) (by omega)
    · rw [roundLoop_succ_le f c e b h1]
      by_cases h2 : c' > coefMax
      · rw [roundLoop_succ_gt f c' e b' h2, w2]
        have := roundLoop_exp_ge f ((c' + 5) / 10) (e + 1) true
        simp only [lexLe]; omega
      · rw [roundLoop_succ_le f c' e b' h2]; exact Or.inr ⟨rfl, h⟩

/-- exponent and coefficient of `FromInt (±m)` -/
def mag (m : Nat) : Nat × Int :=
  if m < 10 ^ 16 then (m * 10 ^ (15 - ilog10 m), (ilog10 m : Int) + 1)
  else ((roundLoop 6 m 16 false).1, (roundLoop 6 m 16 false).2.1)

theorem fromInt_mag (s : Int) (hs : s = 1 ∨ s = -1) (m : Nat) (h0 : 0 < m) :
    fromInt (s * m) = ⟨(mag m).1, s, (mag m).2⟩ := by
  by_cases hsm : m < 10 ^ 16
  · have hn0 : s * (m : Int) ≠ 0 := by rcases hs with rfl | rfl <;> omega
    have hna : (s * (m : Int)).natAbs = m := by rcases hs with rfl | rfl <;> omega
    rw [fromInt_small _ hn0 (by rw [hna]; exact hsm), hna]
    simp only [mag, hsm, if_true, normal]
    congr 1
    rcases hs with rfl | rfl
    · rw [if_neg (by omega)]
    · rw [if_pos (by omega)]
  · rw [fromInt_signed s hs m h0]
    have g1 : ¬(s = 0 ∨ m = 0 ∨ (16 : Int) < expMin) := by simp only [expMin]; omega
    have g2 : ¬ s = signPosInf := by simp only [signPosInf]; omega
    have g3 : ¬ s = signNegInf := by simp only [signNegInf]; omega
    have hgt : m > coefMax := by simp only [coefMax]; omega
    have hat : (roundLoop 6 m 16 false).2.2 = true := by
      rw [roundLoop_succ_gt 5 m 16 false hgt]
      exact roundLoop_atmax _ _ _
    have hge := roundLoop_exp_ge 6 m 16 false
    have hle := roundLoop_exp_le 6 m 16 false
    simp only [mag, hsm, if_false, new, g1, g2, g3]
    generalize roundLoop 6 m 16 false = r at *
    obtain ⟨rc, re, ra⟩ := r
    simp only at hat hge hle
    subst hat
    simp only [Bool.not_true, Bool.false_eq_true, if_false]
    rw [if_neg (by simp only [expMin]; omega), if_neg (by simp only [expMax]; omega)]

theorem ilog10_mono (a b : Nat) (ha0 : 0 < a) (hab : a ≤ b) (hb : b < 10 ^ 16) : ilog10 a ≤ ilog10 b := by
  apply Nat.le_of_not_lt
  intro h
  have := (normal_order b a (by omega) ha0 hb (by omega)).1 h
  omega

theorem mag_mono (m m' : Nat) (h0 : 0 < m) (h : m ≤ m') (h1 : m' ≤ 2 ^ 63) :
    lexLe (mag m).2 (mag m).1 (mag m').2 (mag m').1 := by
  by_cases hs' : m' < 10 ^ 16
  · have hs : m < 10 ^ 16 := by omega
    simp only [mag, hs, hs', if_true]
    have hm := ilog10_mono m m' h0 h hs'
    have ho := (normal_order m m' h0 (by omega) hs hs').2
    have ho' := (normal_order m' m (by omega) h0 hs' hs).2
    simp only [lexLe]
    by_cases he : ilog10 m = ilog10 m'
    · right
      refine ⟨by omega, ?_⟩
      have := ho he
      have := ho' he.symm
      omega
    · left; omega
  · by_cases hs : m < 10 ^ 16
    · simp only [mag, hs, hs', if_true, if_false]
      have hk := ilog10_lt16 m h0 hs
      have hgt : m' > coefMax := by simp only [coefMax]; omega
      have : (17 : Int) ≤ (roundLoop 6 m' 16 false).2.1 := by
        rw [roundLoop_succ_gt 5 m' 16 false hgt]
        have := roundLoop_exp_ge 5 (((m' + 5) % two64) / 10) (16 + 1) true
        omega
      simp only [lexLe]; omega
    · simp only [mag, hs, hs', if_false]
      exact roundLoop_mono 6 m m' 16 false false h (by omega)

/-- `FromInt` is monotone on the int64 range: `x ≤ y → FromInt x ≤ FromInt y` -/
theorem fromInt_mono (x y : Int) (hx : inInt64 x) (hy : inInt64 y) (h : x ≤ y) :
    compare (fromInt x) (fromInt y) ≤ 0 := by
  simp only [inInt64, minInt64, maxInt64] at hx hy
  have hsn : ∀ s : Int, s = 1 ∨ s = -1 → ¬(s = 0 ∨ s = signNegInf ∨ s = signPosInf) := by
    intro s hs; simp only [signNegInf, signPosInf]; omega
  by_cases hx0 : x = 0
  · subst hx0
    by_cases hy0 : y = 0
    · subst hy0; decide
    · have := fromInt_mag 1 (Or.inl rfl) y.natAbs (by omega)
      rw [show (1 : Int) * (y.natAbs : Int) = y by omega] at this
      rw [this]
      simp only [fromInt, if_true, zero, compare]
      repeat' split
      all_goals omega
  · by_cases hy0 : y = 0
    · subst hy0
      have := fromInt_mag (-1) (Or.inr rfl) x.natAbs (by omega)
      rw [show (-1 : Int) * (x.natAbs : Int) = x by omega] at this
      rw [this]
      simp only [fromInt, if_true, zero, compare]
      repeat' split
      all_goals omega
    · by_cases hxn : x < 0
      · have ex := fromInt_mag (-1) (Or.inr rfl) x.natAbs (by omega)
        rw [show (-1 : Int) * (x.natAbs : Int) = x by omega] at ex
        by_cases hyn : y < 0
        · have ey := fromInt_mag (-1) (Or.inr rfl) y.natAbs (by omega)
          rw [show (-1 : Int) * (y.natAbs : Int) = y by omega] at ey
          have hm := mag_mono y.natAbs x.natAbs (by omega) (by omega) (by omega)
          rw [ex, ey]
          simp only [lexLe] at hm
          simp only [compare, Dnum.mk.injEq, Int.lt_irrefl, if_false, hsn (-1) (Or.inr rfl), gt_iff_lt]
          generalize (mag x.natAbs).1 = c1 at *
          generalize (mag x.natAbs).2 = e1 at *
          generalize (mag y.natAbs).1 = c2 at *
          generalize (mag y.natAbs).2 = e2 at *
          repeat' split
          all_goals omega
        · have ey := fromInt_mag 1 (Or.inl rfl) y.natAbs (by omega)
          rw [show (1 : Int) * (y.natAbs : Int) = y by omega] at ey
          rw [ex, ey]
          simp only [compare]
          repeat' split
          all_goals omega
      · have ex := fromInt_mag 1 (Or.inl rfl) x.natAbs (by omega)
        rw [show (1 : Int) * (x.natAbs : Int) = x by omega] at ex
        have ey := fromInt_mag 1 (Or.inl rfl) y.natAbs (by omega)
        rw [show (1 : Int) * (y.natAbs : Int) = y by omega] at ey
        have hm := mag_mono x.natAbs y.natAbs (by omega) (by omega) (by omega)
        rw [ex, ey]
        simp only [lexLe] at hm
        simp only [compare, Dnum.mk.injEq, Int.lt_irrefl, if_false, hsn 1 (Or.inl rfl), gt_iff_lt]
        generalize (mag x.natAbs).1 = c1 at *
        generalize (mag x.natAbs).2 = e1 at *
        generalize (mag y.natAbs).1 = c2 at *
        generalize (mag y.natAbs).2 = e2 at *
        repeat' split
        all_goals omega

end Gsu.Dnum

namespace Gsu.Num
open Gsu.Dnum

/-- ints are in the int64 range (smi, SuInt64) -/
def InRange (a : Num) : Prop := ∀ n, asInt a = some n → inInt64 n

/-- every comparison of two numbers implies the comparison of their decimal conversions -/
theorem compare_le_toDnum (a b : Num) (ha : InRange a) (hb : InRange b) (h : compare a b ≤ 0) :
    Dnum.compare (toDnum a) (toDnum b) ≤ 0 := by
  cases hai : asInt a with
  | none => rw [compare_dnum a b (Or.inl hai)] at h; exact h
  | some x =>
    cases hbi : asInt b with
    | none => rw [compare_dnum a b (Or.inr hbi)] at h; exact h
    | some y =>
      rw [compare_ints a b x y hai hbi] at h
      rw [toDnum_of_asInt a x hai, toDnum_of_asInt b y hbi]
      apply fromInt_mono x y (ha x hai) (hb y hbi)
      revert h; simp only [cmpInt]; repeat' split
      all_goals omega

/-- `Compare` on numbers is transitive for EVERY triple except int ≤ decimal ≤ int: the exact
extent of KF-C28-1 -/
theorem compare_trans_unless (a b c : Num) (ha : InRange a) (hb : InRange b) (hc : InRange c)
    (hx : ¬((asInt a).isSome = true ∧ (asInt b).isSome = false ∧ (asInt c).isSome = true))
    (h1 : compare a b ≤ 0) (h2 : compare b c ≤ 0) : compare a c ≤ 0 := by
  have d1 := compare_le_toDnum a b ha hb h1
  have d2 := compare_le_toDnum b c hb hc h2
  have d3 := Dnum.compare_trans _ _ _ d1 d2
  cases hai : asInt a with
  | none => rw [compare_dnum a c (Or.inl hai)]; exact d3
  | some x =>
    cases hci : asInt c with
    | none => rw [compare_dnum a c (Or.inr hci)]; exact d3
    | some z =>
      cases hbi : asInt b with
      | none => simp [hai, hbi, hci] at hx
      | some y =>
        rw [compare_ints a b x y hai hbi] at h1
        rw [compare_ints b c y z hbi hci] at h2
        rw [compare_ints a c x z hai hci]
        exact Val.cmpInt_trans x y z h1 h2

end Gsu.Num
