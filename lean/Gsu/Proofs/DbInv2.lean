/-
M-DB global invariant, part 2: the per-table invariant `TblInv`, the transaction-view invariant
`TVInv` (what a transaction reads = its snapshot ⊕ its own writes, on every index) and its
preservation by Output / Delete / Update (`tOut`, `tDel`, `tUpd`). Core only.
-/
import Gsu.Proofs.DbInv1
namespace Gsu.Db

/-! ## inserting one valid change into a transaction layer -/

theorem comb_add_ne_none (cur : Option Chg) (o : Off) : comb cur (.add o) ≠ none := by
  cases cur with
  | none => simp [comb]
  | some c0 => cases c0 <;> simp [comb, combine]

theorem comb_upd_ne_none (cur : Option Chg) (o : Off) : comb cur (.upd o) ≠ none := by
  cases cur with
  | none => simp [comb]
  | some c0 => cases c0 <;> simp [comb, combine]

theorem comb_del_eq_none (cur : Option Chg) (o : Off) (h : comb cur (.del o) = none) :
    ∃ x, cur = some (.add x) := by
  cases cur with
  | none => simp [comb] at h
  | some c0 => cases c0 <;> simp [comb, combine] at h ⊢

theorem sem_ins (ov : Overlay) (m : Layer) (k0 : Key) (c : Chg) (v v' : KS)
    (h : (ov.withMut m).sem k0 = some v) (hc : app v c = some v') :
    (ov.withMut (m.ins k0 c)).sem k0 = some v' := by
  rw [sem_withMut] at h ⊢
  cases hs : ov.sem k0 with
  | none => simp [hs] at h
  | some s0 =>
    simp only [hs, Option.bind_some] at h ⊢
    rw [ins_get, if_pos rfl]
    cases hm : m.get k0 with
    | none =>
      simp only [hm, appO, Option.some.injEq] at h
      subst h
      simpa [comb, appO] using hc
    | some c0 =>
      simp only [hm, appO] at h
      obtain ⟨x, hx, hx2⟩ := combine_sound s0 c0 c v v' h hc
      simpa [comb, hx] using hx2

theorem sem_ins_other (ov : Overlay) (m : Layer) (k0 k : Key) (c : Chg) (hk : k ≠ k0) :
    (ov.withMut (m.ins k0 c)).sem k = (ov.withMut m).sem k := by
  rw [sem_withMut, sem_withMut, ins_get, if_neg hk]

/-- a transaction layer holds an `add` for a key only if the snapshot has no row with that key -/
theorem add_only_if_absent (ov : Overlay) (m : Layer) (k : Key) (s0 v : KS) (y : Off)
    (hS : ov.sem k = some s0) (h : (ov.withMut m).sem k = some v) (hm : m.get k = some (.add y)) :
    s0 = none := by
  rw [sem_withMut, hS, hm] at h
  cases s0 with
  | none => rfl
  | some _ => simp [appO, app] at h

/-! ## one index of a transaction -/

/-- index `i` as transaction `(A, D)` over snapshot rows `S` sees it through `ov` + its layer `m`:
it means exactly the view, and every row the transaction added or deleted has an entry in `m` -/
def PIdx (i : Nat) (ov : Overlay) (S A : List Row) (D : List Off) (m : Layer) : Prop :=
  (∀ k, (ov.withMut m).sem k = some (keymap i (viewRows S A D) k)) ∧
  (∀ a ∈ A, m.get (a.key i) ≠ none) ∧
  (∀ r ∈ S, r.off ∈ D → m.get (r.key i) ≠ none)

theorem PIdx_add {i : Nat} {ov : Overlay} {S A : List Row} {D : List Off} {m : Layer}
    (h : PIdx i ov S A D m) (x : Row) (hx : ∀ y ∈ viewRows S A D, y.key i ≠ x.key i) :
    PIdx i ov S (A ++ [x]) D (m.ins (x.key i) (.add x.off)) := by
  have hv : viewRows S (A ++ [x]) D = viewRows S A D ++ [x] := by simp [viewRows, List.append_assoc]
  refine ⟨?_, ?_, ?_⟩
  · intro k
    rw [hv, keymap_snoc i _ x k hx]
    by_cases hk : k = x.key i
    · subst hk
      simp only [if_true]
      apply sem_ins ov m _ _ none _ _ rfl
      rw [h.1]; congr 1
      exact (keymap_none_iff i _ _).mpr hx
    · simp only [hk, if_false]
      rw [sem_ins_other _ _ _ _ _ hk]; exact h.1 k
  · intro a ha
    rw [ins_get]
    split
    · exact comb_add_ne_none _ _
    · next hne =>
      rcases List.mem_append.mp ha with ha' | ha'
      · exact h.2.1 a ha'
      · exact absurd (by rw [List.mem_singleton.mp ha']) hne
  · intro r hr hrD
    rw [ins_get]
    split
    · exact comb_add_ne_none _ _
    · exact h.2.2 r hr hrD

theorem mem_dropRow_adds (d : TDif) (o : Off) (a : Row) (h : a ∈ (dropRow d o).1) :
    a ∈ d.adds ∧ a.off ≠ o := by
  unfold dropRow at h
  by_cases ha : d.adds.any (·.off == o) = true
  · simp only [ha, if_true, List.mem_filter, bne_iff_ne, ne_eq] at h
    exact h
  · simp only [ha] at h
    refine ⟨h, fun e => ha (List.any_eq_true.mpr ⟨a, h, by simpa using e⟩)⟩

theorem mem_dropRow_dels (d : TDif) (o o' : Off) (h : o' ∈ (dropRow d o).2) :
    o' ∈ d.dels ∨ (o' = o ∧ ∀ a ∈ d.adds, a.off ≠ o) := by
  unfold dropRow at h
  by_cases ha : d.adds.any (·.off == o) = true
  · simp only [ha, if_true] at h; exact Or.inl h
  · simp only [ha, Bool.false_eq_true, if_false, List.mem_cons] at h
    rcases h with h | h
    · exact Or.inr ⟨h, fun a haA e => ha (List.any_eq_true.mpr ⟨a, haA, by simpa using e⟩)⟩
    · exact Or.inl h

/-- a row of the view that is not one of the adds is an undeleted snapshot row -/
theorem mem_view_not_adds (S : List Row) (d : TDif) (r : Row) (hr : r ∈ d.view S)
    (hn : ∀ a ∈ d.adds, a.off ≠ r.off) : r ∈ S ∧ r.off ∉ d.dels := by
  simp only [TDif.view, List.mem_append, List.mem_filter] at hr
  rcases hr with ⟨h1, h2⟩ | h
  · exact ⟨h1, by simpa using h2⟩
  · exact absurd rfl (hn r h)

theorem PIdx_remove {i : Nat} {ov : Overlay} {S : List Row} {d : TDif} {m : Layer}
    (h : PIdx i ov S d.adds d.dels m) (hS : ∀ k, ov.sem k = some (keymap i S k))
    (hk : PW (fun r => r.key i) (d.view S)) (ho : OffsUniq (d.view S)) (hSo : OffsUniq S)
    (r : Row) (hr : r ∈ d.view S) (x : Off) :
    PIdx i ov S (dropRow d r.off).1 (dropRow d r.off).2 (m.ins (r.key i) (.del x)) := by
  refine ⟨?_, ?_, ?_⟩
  · intro k
    rw [view_dropRow S d r.off ho, keymap_remove i _ r k hk ho hr]
    by_cases hkk : k = r.key i
    · subst hkk
      simp only [if_true]
      apply sem_ins ov m _ _ (some r.off) _ _ rfl
      rw [h.1]; congr 1
      exact keymap_of_mem hk hr
    · simp only [hkk, if_false]
      rw [sem_ins_other _ _ _ _ _ hkk]; exact h.1 k
  · intro a ha
    obtain ⟨haA, hao⟩ := mem_dropRow_adds d r.off a ha
    have hav : a ∈ d.view S := List.mem_append_right _ haA
    have hne : a.key i ≠ r.key i := fun e => hao (by rw [hk.eq_of_mem hav hr e])
    rw [ins_get, if_neg hne]
    exact h.2.1 a haA
  · intro rs hrs hrsD
    rw [ins_get]
    split
    · next heq =>
      intro hc
      obtain ⟨y, hy⟩ := comb_del_eq_none _ _ hc
      have := add_only_if_absent ov m (r.key i) _ _ y (hS _) (h.1 _) hy
      exact (keymap_none_iff i S _).mp this rs hrs heq
    · next hne =>
      rcases mem_dropRow_dels d r.off rs.off hrsD with h1 | ⟨h1, h2⟩
      · exact h.2.2 rs hrs h1
      · have := (mem_view_not_adds S d r hr h2).1
        exact absurd (by rw [hSo.eq_of_mem hrs this h1]) hne

theorem PIdx_replace {i : Nat} {ov : Overlay} {S : List Row} {d : TDif} {m : Layer}
    (h : PIdx i ov S d.adds d.dels m)
    (hk : PW (fun r => r.key i) (d.view S)) (ho : OffsUniq (d.view S)) (hSo : OffsUniq S)
    (r : Row) (hr : r ∈ d.view S) (x : Row) (hx : r.key i = x.key i) :
    PIdx i ov S ((dropRow d r.off).1 ++ [x]) (dropRow d r.off).2 (m.ins (x.key i) (.upd x.off)) := by
  have hv : viewRows S ((dropRow d r.off).1 ++ [x]) (dropRow d r.off).2 =
      (d.view S).filter (fun y => y.off != r.off) ++ [x] := by
    rw [← view_dropRow S d r.off ho]; simp [viewRows, List.append_assoc]
  have hnew : ∀ y ∈ (d.view S).filter (fun y => y.off != r.off), y.key i ≠ x.key i := by
    intro y hy e
    obtain ⟨hy1, hy2⟩ := List.mem_filter.mp hy
    have : y = r := hk.eq_of_mem hy1 hr (by simpa [hx] using e)
    simp [this] at hy2
  refine ⟨?_, ?_, ?_⟩
  · intro k
    rw [hv, keymap_snoc i _ x k hnew, keymap_remove i _ r k hk ho hr]
    by_cases hkk : k = x.key i
    · subst hkk
      simp only [if_true]
      apply sem_ins ov m _ _ (some r.off) _ _ rfl
      rw [h.1]; congr 1
      rw [← hx]; exact keymap_of_mem hk hr
    · have hkr : k ≠ r.key i := hx ▸ hkk
      simp only [hkk, hkr, if_false]
      rw [sem_ins_other _ _ _ _ _ hkk]; exact h.1 k
  · intro a ha
    rw [ins_get]
    split
    · exact comb_upd_ne_none _ _
    · next hne =>
      rcases List.mem_append.mp ha with ha' | ha'
      · exact h.2.1 a (mem_dropRow_adds d r.off a ha').1
      · exact absurd (by rw [List.mem_singleton.mp ha']) hne
  · intro rs hrs hrsD
    rw [ins_get]
    split
    · exact comb_upd_ne_none _ _
    · next hne =>
      rcases mem_dropRow_dels d r.off rs.off hrsD with h1 | ⟨h1, h2⟩
      · exact h.2.2 rs hrs h1
      · have := (mem_view_not_adds S d r hr h2).1
        exact absurd (by rw [hSo.eq_of_mem hrs this h1, hx]) hne

/-! ## the per-table invariant -/

structure TblInv (ti : Info) : Prop where
  agree : IAgree ti
  layers : LayersOK ti
  deltas : DeltasOK ti
  dne : ti.deltas ≠ []
  ine : ti.idx ≠ []
  offs : OffsUniq ti.rows
  keys : KeysUniq ti.idx.length ti.rows
  shape : ∀ r ∈ ti.rows, r.keys.length = ti.idx.length
  cnt : ti.nrows = ti.rows.length

/-! ## the transaction-view invariant -/

structure TVInv (sti : Info) (d : TDif) : Prop where
  len : d.muts.length = sti.idx.length
  offs : OffsUniq (d.view sti.rows)
  keys : KeysUniq sti.idx.length (d.view sti.rows)
  dnod : d.dels.Nodup
  dsub : ∀ o ∈ d.dels, ∃ r ∈ sti.rows, r.off = o
  cnt : (sti.rows.length : Int) + d.dn = (d.view sti.rows).length
  sz : rowsSize sti.rows + d.ds = rowsSize (d.view sti.rows)
  shape : ∀ a ∈ d.adds, a.keys.length = sti.idx.length
  pidx : ∀ i ov m, sti.idx[i]? = some ov → d.muts[i]? = some m → PIdx i ov sti.rows d.adds d.dels m

theorem tvinv_start (sti : Info) (h : TblInv sti) : TVInv sti (TDif.start sti) := by
  have hv : (TDif.start sti).view sti.rows = sti.rows := by
    simp [TDif.view, TDif.start]
  refine ⟨by simp [TDif.start], by rw [hv]; exact h.offs, by rw [hv]; exact h.keys, List.nodup_nil,
    by simp [TDif.start], by rw [hv]; simp [TDif.start], by rw [hv]; simp [TDif.start],
    by simp [TDif.start], ?_⟩
  intro i ov m hi hm
  have hm' : m = FMap.empty := by
    simp only [TDif.start, List.getElem?_replicate] at hm
    split at hm
    · exact (Option.some.inj hm).symm
    · cases hm
  subst hm'
  refine ⟨?_, by simp [TDif.start], by simp [TDif.start]⟩
  intro k
  have : viewRows sti.rows (TDif.start sti).adds (TDif.start sti).dels = sti.rows := hv
  rw [this, sem_withMut, h.agree i ov hi k]
  simp [FMap.get_empty, appO]

theorem ovs_get (d : TDif) (sti : Info) (i : Nat) :
    (d.ovs sti)[i]? = match sti.idx[i]?, d.muts[i]? with
      | some ov, some m => some (ov.withMut m)
      | _, _ => none := by
  simp only [TDif.ovs, List.getElem?_zipWith]
  cases sti.idx[i]? <;> cases d.muts[i]? <;> rfl

theorem dupAt_false (ovs : List Overlay) (row : Row) (skip : Nat → Bool) (h : dupAt ovs row skip = false)
    (i : Nat) (ov : Overlay) (hi : ovs[i]? = some ov) (hs : skip i = false) :
    ov.lookup (row.key i) = none := by
  have hlt : i < ovs.length := (List.getElem?_eq_some_iff.mp hi).1
  have := List.any_eq_false.mp h i (List.mem_range.mpr hlt)
  simpa [hs, hi] using this

/-- index `i` of the view has no row under a key the duplicate check found free -/
theorem view_nokey {sti : Info} {d : TDif} (h : TVInv sti d) (row : Row) (skip : Nat → Bool)
    (hd : dupAt (d.ovs sti) row skip = false) (i : Nat) (hi : i < sti.idx.length) (hs : skip i = false) :
    ∀ y ∈ d.view sti.rows, y.key i ≠ row.key i := by
  have hm : i < d.muts.length := h.len ▸ hi
  have e1 : sti.idx[i]? = some sti.idx[i] := List.getElem?_eq_getElem hi
  have e2 : d.muts[i]? = some d.muts[i] := List.getElem?_eq_getElem hm
  have hov : (d.ovs sti)[i]? = some (sti.idx[i].withMut d.muts[i]) := by rw [ovs_get, e1, e2]
  have hl := dupAt_false _ row skip hd i _ hov hs
  have hsem := (h.pidx i _ _ e1 e2).1 (row.key i)
  rw [lookup_of_sem _ _ _ hsem] at hl
  exact (keymap_none_iff i _ _).mp hl

theorem not_any_off (V : List Row) (o : Off) (h : ¬ (V.any (·.off == o)) = true) :
    ∀ y ∈ V, y.off ≠ o := by
  intro y hy e
  exact h (List.any_eq_true.mpr ⟨y, hy, by simpa using e⟩)

/-- Output keeps the transaction-view invariant -/
theorem tvinv_out {sti : Info} {d d' : TDif} (row : Row) (h : TVInv sti d)
    (hrow : row.keys.length = sti.idx.length) (hok : tOut sti d row = .ok d') : TVInv sti d' := by
  unfold tOut at hok
  split at hok
  · cases hok
  · next hoff =>
    split at hok
    · cases hok
    · next hdup =>
      have hdup' : dupAt (d.ovs sti) row (fun _ => false) = false := by simpa using hdup
      injection hok with hok
      have hM : d'.muts = d.muts.mapIdx fun i m => m.ins (row.key i) (.add row.off) := by rw [← hok]
      have hA : d'.adds = d.adds ++ [row] := by rw [← hok]
      have hD : d'.dels = d.dels := by rw [← hok]
      have hn : d'.dn = d.dn + 1 := by rw [← hok]
      have hs : d'.ds = d.ds + row.size := by rw [← hok]
      have hv : d'.view sti.rows = d.view sti.rows ++ [row] := by
        simp [TDif.view, hA, hD, List.append_assoc]
      refine ⟨by simp [hM, h.len], ?_, ?_, hD ▸ h.dnod, hD ▸ h.dsub, ?_, ?_, ?_, ?_⟩
      · rw [hv]; exact PW.snoc h.offs (not_any_off _ _ hoff)
      · intro i hi
        rw [hv]; exact PW.snoc (h.keys i hi) (view_nokey h row _ hdup' i hi rfl)
      · rw [hv, hn]; simp only [List.length_append, List.length_singleton]
        have := h.cnt
        omega
      · rw [hv, hs, rowsSize_append]
        have := h.sz
        simp only [rowsSize, List.map_cons, List.map_nil, List.sum_cons, List.sum_nil] at this ⊢
        omega
      · intro a ha
        rw [hA] at ha
        rcases List.mem_append.mp ha with ha' | ha'
        · exact h.shape a ha'
        · rw [List.mem_singleton.mp ha']; exact hrow
      · intro i ov m' hi hm'
        rw [hM] at hm'
        simp only [List.getElem?_mapIdx, Option.map_eq_some_iff] at hm'
        obtain ⟨m, hm, rfl⟩ := hm'
        have hlt : i < sti.idx.length := (List.getElem?_eq_some_iff.mp hi).1
        rw [hA, hD]
        exact PIdx_add (h.pidx i ov m hi hm) row (view_nokey h row _ hdup' i hlt rfl)

/-- Delete keeps the transaction-view invariant -/
theorem tvinv_del {sti : Info} {d d' : TDif} (off : Off) (hT : TblInv sti) (h : TVInv sti d)
    (hok : tDel sti d off = .ok d') : TVInv sti d' := by
  unfold tDel at hok
  split at hok
  · cases hok
  · next r hfind =>
    have hr : r ∈ d.view sti.rows := List.mem_of_find?_eq_some hfind
    have hro : r.off = off := by simpa using List.find?_some hfind
    subst hro
    simp only at hok
    injection hok with hok
    have hM : d'.muts = d.muts.mapIdx fun i m => m.ins (r.key i) (.del r.off) := by rw [← hok]
    have hA : d'.adds = (dropRow d r.off).1 := by rw [← hok]
    have hD : d'.dels = (dropRow d r.off).2 := by rw [← hok]
    have hn : d'.dn = d.dn - 1 := by rw [← hok]
    have hs : d'.ds = d.ds - r.size := by rw [← hok]
    have hv : d'.view sti.rows = (d.view sti.rows).filter (fun y => y.off != r.off) := by
      rw [← view_dropRow sti.rows d r.off h.offs, view_eq, hA, hD]
    refine ⟨by simp [hM, h.len], ?_, ?_, ?_, ?_, ?_, ?_, ?_, ?_⟩
    · rw [hv]; exact PW.filter _ h.offs
    · intro i hi; rw [hv]; exact PW.filter _ (h.keys i hi)
    · rw [hD]
      unfold dropRow
      split
      · exact h.dnod
      · next hany =>
        refine List.nodup_cons.mpr ⟨?_, h.dnod⟩
        exact (mem_view_not_adds sti.rows d r hr (not_any_off _ _ hany)).2
    · intro o ho
      rw [hD] at ho
      rcases mem_dropRow_dels d r.off o ho with h1 | ⟨h1, h2⟩
      · exact h.dsub o h1
      · exact ⟨r, (mem_view_not_adds sti.rows d r hr h2).1, h1.symm⟩
    · rw [hv, hn]
      have := h.cnt
      have := length_filter_off _ r h.offs hr
      omega
    · rw [hv, hs]
      have := h.sz
      have := rowsSize_filter_off _ r h.offs hr
      omega
    · intro a ha
      rw [hA] at ha
      exact h.shape a (mem_dropRow_adds d r.off a ha).1
    · intro i ov m' hi hm'
      rw [hM] at hm'
      simp only [List.getElem?_mapIdx, Option.map_eq_some_iff] at hm'
      obtain ⟨m, hm, rfl⟩ := hm'
      have hlt : i < sti.idx.length := (List.getElem?_eq_some_iff.mp hi).1
      rw [hA, hD]
      exact PIdx_remove (h.pidx i ov m hi hm) (hT.agree i ov hi) (h.keys i hlt) h.offs hT.offs r hr _

/-- Update keeps the transaction-view invariant -/
theorem tvinv_upd {sti : Info} {d d' : TDif} (off : Off) (row : Row) (hT : TblInv sti) (h : TVInv sti d)
    (hrow : row.keys.length = sti.idx.length) (hok : tUpd sti d off row = .ok d') : TVInv sti d' := by
  unfold tUpd at hok
  split at hok
  · cases hok
  · next r hfind =>
    have hr : r ∈ d.view sti.rows := List.mem_of_find?_eq_some hfind
    have hro : r.off = off := by simpa using List.find?_some hfind
    subst hro
    split at hok
    · cases hok
    · next hoff =>
      split at hok
      · cases hok
      · next hdup =>
        have hdup' : dupAt (d.ovs sti) row (fun i => r.key i == row.key i) = false := by simpa using hdup
        simp only at hok
        injection hok with hok
        have hM : d'.muts = d.muts.mapIdx fun i m =>
            if r.key i == row.key i then m.ins (row.key i) (.upd row.off)
            else (m.ins (r.key i) (.del r.off)).ins (row.key i) (.add row.off) := by rw [← hok]
        have hA : d'.adds = (dropRow d r.off).1 ++ [row] := by rw [← hok]
        have hD : d'.dels = (dropRow d r.off).2 := by rw [← hok]
        have hn : d'.dn = d.dn := by rw [← hok]
        have hs : d'.ds = d.ds + row.size - r.size := by rw [← hok]
        have hv1 : viewRows sti.rows (dropRow d r.off).1 (dropRow d r.off).2 =
            (d.view sti.rows).filter (fun y => y.off != r.off) := view_dropRow sti.rows d r.off h.offs
        have hv : d'.view sti.rows = (d.view sti.rows).filter (fun y => y.off != r.off) ++ [row] := by
          rw [← hv1, view_eq, hA, hD]; simp [viewRows, List.append_assoc]
        have hnk : ∀ i, i < sti.idx.length →
            ∀ y ∈ (d.view sti.rows).filter (fun y => y.off != r.off), y.key i ≠ row.key i := by
          intro i hi y hy
          obtain ⟨hy1, hy2⟩ := List.mem_filter.mp hy
          by_cases hkk : (r.key i == row.key i) = true
          · intro e
            have hkk' : r.key i = row.key i := by simpa using hkk
            have : y = r := (h.keys i hi).eq_of_mem hy1 hr (by simpa [hkk'] using e)
            simp [this] at hy2
          · exact view_nokey h row _ hdup' i hi (by simpa using hkk) y hy1
        refine ⟨by simp [hM, h.len], ?_, ?_, ?_, ?_, ?_, ?_, ?_, ?_⟩
        · rw [hv]
          refine PW.snoc (PW.filter _ h.offs) ?_
          intro y hy
          exact not_any_off _ _ hoff y (List.mem_filter.mp hy).1
        · intro i hi; rw [hv]; exact PW.snoc (PW.filter _ (h.keys i hi)) (hnk i hi)
        · rw [hD]
          unfold dropRow
          split
          · exact h.dnod
          · next hany =>
            refine List.nodup_cons.mpr ⟨?_, h.dnod⟩
            exact (mem_view_not_adds sti.rows d r hr (not_any_off _ _ hany)).2
        · intro o ho
          rw [hD] at ho
          rcases mem_dropRow_dels d r.off o ho with h1 | ⟨h1, h2⟩
          · exact h.dsub o h1
          · exact ⟨r, (mem_view_not_adds sti.rows d r hr h2).1, h1.symm⟩
        · rw [hv, hn]
          have := h.cnt
          have := length_filter_off _ r h.offs hr
          simp only [List.length_append, List.length_singleton]
          omega
        · rw [hv, hs, rowsSize_append]
          have := h.sz
          have := rowsSize_filter_off _ r h.offs hr
          simp only [rowsSize, List.map_cons, List.map_nil, List.sum_cons, List.sum_nil] at *
          omega
        · intro a ha
          rw [hA] at ha
          rcases List.mem_append.mp ha with ha' | ha'
          · exact h.shape a (mem_dropRow_adds d r.off a ha').1
          · rw [List.mem_singleton.mp ha']; exact hrow
        · intro i ov m' hi hm'
          rw [hM] at hm'
          simp only [List.getElem?_mapIdx, Option.map_eq_some_iff] at hm'
          obtain ⟨m, hm, rfl⟩ := hm'
          have hlt : i < sti.idx.length := (List.getElem?_eq_some_iff.mp hi).1
          rw [hA, hD]
          by_cases hkk : (r.key i == row.key i) = true
          · simp only [hkk, if_true]
            exact PIdx_replace (h.pidx i ov m hi hm) (h.keys i hlt) h.offs hT.offs r hr row (by simpa using hkk)
          · simp only [hkk]
            refine PIdx_add (PIdx_remove (h.pidx i ov m hi hm) (hT.agree i ov hi) (h.keys i hlt) h.offs
              hT.offs r hr _) row ?_
            rw [hv1]; exact hnk i hlt

end Gsu.Db
