/-
Lemmas about triggers in the logical database model `Gsu.Model.LDb` (C44). Core only.
-/
import Gsu.Model.LDb
namespace Gsu.LDb
open Gsu.Proto

/-- replay trigger calls (old/new rows) on a database -/
def replay (db : Db) (es : List Entry) : Db :=
  es.foldl (fun d e => applyChange d e.table e.old e.new) db

theorem replay_append (db : Db) (es : List Entry) (e : Entry) :
    replay db (es ++ [e]) = applyChange (replay db es) e.table e.old e.new := by
  simp [replay, List.foldl_append]

/-- `applyChange` at table `t'` only looks at the rows of the changed table -/
theorem applyChange_congr {d1 d2 : Db} {t : Nat} {o n : Option Row} (h : d1 t = d2 t) :
    applyChange d1 t o n t = applyChange d2 t o n t := by
  simp only [applyChange, if_true, h]

theorem applyChange_other {d : Db} {t t' : Nat} {o n : Option Row} (h : t' ≠ t) :
    applyChange d t o n t' = d t' := by
  simp [applyChange, h]

/-- the calls logged since `log0` replay the changes made since `db0`, on every table whose
trigger is enabled; and only enabled triggers were called -/
def Rep (env : Env) (db0 : Db) (log0 : List Entry) (w : W) : Prop :=
  ∃ es, w.log = log0 ++ es ∧ (∀ e ∈ es, enabled env e.table = true) ∧
    ∀ t, enabled env t = true → replay db0 es t = w.db t

theorem Rep_refl (env : Env) (w : W) : Rep env w.db w.log w :=
  ⟨[], by simp, by simp, fun _ _ => rfl⟩

theorem change_Rep {env : Env} {db0 : Db} {log0 : List Entry} {w w' : W} {t : Nat} {o n : Option Row}
    (h : change env w t o n = .ok w') (hr : Rep env db0 log0 w) : Rep env db0 log0 w' := by
  obtain ⟨es, hlog, hen, hdb⟩ := hr
  unfold change at h
  simp only at h
  split at h
  · rename_i hent
    split at h
    · cases h
    · cases h
      refine ⟨es ++ [⟨t, o, n⟩], by simp [hlog], ?_, ?_⟩
      · intro e he
        rcases List.mem_append.mp he with h1 | h1
        · exact hen e h1
        · simp at h1; rw [h1]; exact hent
      · intro t' ht'
        rw [replay_append]
        show applyChange (replay db0 es) t o n t' = applyChange w.db t o n t'
        by_cases heq : t' = t
        · subst heq
          exact applyChange_congr (hdb t' ht')
        · rw [applyChange_other heq, applyChange_other heq]; exact hdb t' ht'
  · rename_i hent
    cases h
    refine ⟨es, hlog, hen, ?_⟩
    intro t' ht'
    have heq : t' ≠ t := by
      intro h1; subst h1; exact hent ht'
    show replay db0 es t' = applyChange w.db t o n t'
    rw [applyChange_other heq]; exact hdb t' ht'

/-- whatever `change` preserves, the delete machine preserves -/
theorem runDel_pres {env : Env} (P : W → Prop)
    (hP : ∀ w t o n w', change env w t o n = .ok w' → P w → P w') :
    ∀ (k : Nat) (w : W) (st : List DTask) (w' : W), runDel env k w st = .ok w' → P w → P w' := by
  intro k
  induction k with
  | zero =>
    intro w st w' h hp
    cases st with
    | nil => simp [runDel] at h; cases h; exact hp
    | cons x rest => simp [runDel] at h
  | succ k ih =>
    intro w st w' h hp
    cases st with
    | nil => simp [runDel] at h; cases h; exact hp
    | cons x rest =>
      cases x with
      | del t row =>
        simp only [runDel] at h
        split at h
        · cases h
        · split at h
          · cases h
          · split at h
            · cases h
            · exact ih _ _ _ h hp
      | casc f key =>
        simp only [runDel] at h
        split at h
        · exact ih _ _ _ h hp
        · exact ih _ _ _ h hp
      | fin t row =>
        simp only [runDel] at h
        split at h
        · cases h
        · rename_i w1 hch
          exact ih _ _ _ h (hP _ _ _ _ _ hch hp)

/-- whatever `change` preserves, the update machine preserves -/
theorem runUpd_pres {env : Env} (P : W → Prop)
    (hP : ∀ w t o n w', change env w t o n = .ok w' → P w → P w') :
    ∀ (k : Nat) (w : W) (st : List UTask) (w' : W), runUpd env k w st = .ok w' → P w → P w' := by
  intro k
  induction k with
  | zero =>
    intro w st w' h hp
    cases st with
    | nil => simp [runUpd] at h; cases h; exact hp
    | cons x rest => simp [runUpd] at h
  | succ k ih =>
    intro w st w' h hp
    cases st with
    | nil => simp [runUpd] at h; cases h; exact hp
    | cons x rest =>
      cases x with
      | upd t old new block =>
        simp only [runUpd] at h
        split at h
        · exact ih _ _ _ h hp
        · split at h
          · cases h
          · split at h
            · cases h
            · split at h
              · cases h
              · exact ih _ _ _ h hp
      | casc f ok tcols trow =>
        simp only [runUpd] at h
        split at h
        · exact ih _ _ _ h hp
        · exact ih _ _ _ h hp
      | fin t old new =>
        simp only [runUpd] at h
        split at h
        · cases h
        · rename_i w1 hch
          exact ih _ _ _ h (hP _ _ _ _ _ hch hp)

/-- every successful row operation: its trigger calls replay its row changes -/
theorem opRes_Rep {s : St} {op : Op} {w' : W} (h : opRes s op = some (.ok w')) :
    Rep s.env s.w.db s.w.log w' := by
  have hP := fun w t o n w' (hc : change s.env w t o n = .ok w') hr =>
    change_Rep (db0 := s.w.db) (log0 := s.w.log) hc hr
  cases op with
  | out t row =>
    simp only [opRes, opOutput, Option.some.injEq] at h
    split at h
    · cases h
    · split at h
      · rename_i w1 hch
        cases h
        exact change_Rep hch (Rep_refl _ _)
      · cases h
  | del t row =>
    simp only [opRes, opDelete, Option.some.injEq] at h
    split at h
    · cases h
    · split at h
      · cases h
      · split at h
        · rename_i w1 hrun
          cases h
          exact runDel_pres _ hP _ _ _ _ hrun (Rep_refl _ _)
        · cases h
  | upd t old new =>
    simp only [opRes, opUpdate, Option.some.injEq] at h
    split at h
    · cases h; exact Rep_refl _ _
    · split at h
      · cases h
      · split at h
        · cases h
        · split at h
          · rename_i w1 hrun
            cases h
            exact runUpd_pres _ hP _ _ _ _ hrun (Rep_refl _ _)
          · cases h
  | begin => simp [opRes] at h
  | commit => simp [opRes] at h
  | abort => simp [opRes] at h
  | dis t => simp [opRes] at h
  | ena t => simp [opRes] at h

/-! ### exceptions -/

theorem firstErr_mem {α} {f : α → Option Err} {e : Err} :
    ∀ {l : List α}, firstErr f l = some e → ∃ a ∈ l, f a = some e := by
  intro l
  induction l with
  | nil => intro h; simp [firstErr] at h
  | cons x xs ih =>
    intro h
    unfold firstErr at h
    cases hx : f x with
    | some e' =>
      simp only [hx, Option.some.injEq] at h
      exact ⟨x, List.mem_cons_self, by rw [hx, h]⟩
    | none =>
      simp only [hx] at h
      obtain ⟨a, ha, hfa⟩ := ih h
      exact ⟨a, List.mem_cons_of_mem _ ha, hfa⟩

theorem outCheck1_ne_trig {sch : Schema} {db : Db} {t : Nat} {row : Row} {ix : Index} :
    outCheck1 sch db t row ix ≠ some .trig := by
  unfold outCheck1
  split
  · simp
  · split <;> simp

theorem updCheck1_ne_trig {sch : Schema} {db : Db} {t : Nat} {old new : Row} {b : Bool} {i : Nat} {ix : Index} :
    updCheck1 sch db t old new b i ix ≠ some .trig := by
  simp only [updCheck1]
  split
  · simp
  · split
    · simp
    · split
      · simp
      · split <;> simp

/-- a trigger exception never leaves the transaction usable -/
theorem trig_err_dead {s : St} {op : Op} {alive : Bool} (h : opRes s op = some (.err .trig alive)) :
    alive = false := by
  cases op with
  | out t row =>
    simp only [opRes, opOutput, Option.some.injEq] at h
    split at h
    · rename_i e hchk
      obtain ⟨a, _, ha⟩ := firstErr_mem hchk
      injection h with h1 h2
      subst h1
      exact absurd ha outCheck1_ne_trig
    · split at h
      · cases h
      · injection h with _ h2; exact h2.symm
  | del t row =>
    simp only [opRes, opDelete, Option.some.injEq] at h
    split at h
    · cases h
    · split at h
      · cases h
      · split at h
        · cases h
        · injection h with _ h2; exact h2.symm
  | upd t old new =>
    simp only [opRes, opUpdate, Option.some.injEq] at h
    split at h
    · cases h
    · split at h
      · cases h
      · split at h
        · rename_i e hchk
          obtain ⟨a, _, ha⟩ := firstErr_mem hchk
          injection h with h1 h2
          subst h1
          exact absurd ha updCheck1_ne_trig
        · split at h
          · cases h
          · injection h with _ h2; exact h2.symm
  | begin => simp [opRes] at h
  | commit => simp [opRes] at h
  | abort => simp [opRes] at h
  | dis t => simp [opRes] at h
  | ena t => simp [opRes] at h

def isBegin : Op → Bool
  | .begin => true
  | _ => false

/-- an ended transaction changes nothing until the next `begin` -/
theorem dead_step {s : St} {op : Op} (hd : s.alive = false) (hb : isBegin op = false) :
    (step s op).alive = false ∧ (step s op).committed = s.committed := by
  cases op <;> simp_all [step, isBegin]

theorem dead_run : ∀ (ops : List Op) (s : St), s.alive = false → (∀ op ∈ ops, isBegin op = false) →
    (run s ops).alive = false ∧ (run s ops).committed = s.committed := by
  intro ops
  induction ops with
  | nil => intro s hd _; exact ⟨hd, rfl⟩
  | cons op ops ih =>
    intro s hd hb
    have h1 := dead_step hd (hb op List.mem_cons_self)
    have h2 := ih (step s op) h1.1 (fun o ho => hb o (List.mem_cons_of_mem _ ho))
    exact ⟨h2.1, h2.2.trans h1.2⟩

/-! ### disable counters -/

/-- effect of one operation on the disable counter of table `t` -/
def swCount (t : Nat) (c : Nat) : Op → Nat
  | .dis t' => if t' = t then c + 1 else c
  | .ena t' => if t' = t then c - 1 else c
  | _ => c

theorem step_dis (s : St) (op : Op) (t : Nat) : (step s op).env.dis t = swCount t (s.env.dis t) op := by
  cases op with
  | dis t' =>
    simp only [step, swCount, setCount]
    by_cases h : t = t' <;> simp [h, eq_comm]
  | ena t' =>
    simp only [step, swCount, setCount]
    by_cases h : t = t' <;> simp [h, eq_comm]
  | begin => rfl
  | abort => rfl
  | commit => simp only [step, swCount]; split <;> rfl
  | out t' row =>
    simp only [step, swCount]
    split
    · simp only [opRes]
      generalize opOutput _ _ _ _ = r
      cases r with
      | ok w => rfl
      | err e a => cases a <;> rfl
    · rfl
  | del t' row =>
    simp only [step, swCount]
    split
    · simp only [opRes]
      generalize opDelete _ _ _ _ = r
      cases r with
      | ok w => rfl
      | err e a => cases a <;> rfl
    · rfl
  | upd t' old new =>
    simp only [step, swCount]
    split
    · simp only [opRes]
      generalize opUpdate _ _ _ _ _ = r
      cases r with
      | ok w => rfl
      | err e a => cases a <;> rfl
    · rfl

theorem run_dis : ∀ (ops : List Op) (s : St) (t : Nat),
    (run s ops).env.dis t = ops.foldl (swCount t) (s.env.dis t) := by
  intro ops
  induction ops with
  | nil => intro s t; rfl
  | cons op ops ih =>
    intro s t
    show (run (step s op) ops).env.dis t = _
    rw [ih, step_dis]; rfl

theorem change_disabled {env : Env} {w : W} {t : Nat} {o n : Option Row} (h : env.dis t ≠ 0) :
    change env w t o n = .ok ⟨applyChange w.db t o n, w.log⟩ := by
  have : enabled env t = false := by simp [enabled, h]
  simp [change, this]

/-! ### DoWithoutTriggers(tables, block): disable each listed table, run the block, enable each -/

theorem fold_dis (t : Nat) : ∀ (ts : List Nat) (c : Nat),
    (ts.map Op.dis).foldl (swCount t) c = c + ts.count t := by
  intro ts
  induction ts with
  | nil => intro c; simp
  | cons x xs ih =>
    intro c
    simp only [List.map_cons, List.foldl_cons, swCount, List.count_cons]
    rw [ih]
    by_cases h : x = t <;> simp [h] <;> omega

theorem fold_ena (t : Nat) : ∀ (ts : List Nat) (c : Nat),
    (ts.map Op.ena).foldl (swCount t) c = c - ts.count t := by
  intro ts
  induction ts with
  | nil => intro c; simp
  | cons x xs ih =>
    intro c
    simp only [List.map_cons, List.foldl_cons, swCount, List.count_cons]
    rw [ih]
    by_cases h : x = t <;> simp [h] <;> omega

theorem without_restores (s : St) (ts : List Nat) (body : List Op) (t : Nat)
    (hbody : ∀ c, body.foldl (swCount t) c = c) :
    (run s (ts.map Op.dis ++ body ++ ts.map Op.ena)).env.dis t = s.env.dis t := by
  rw [run_dis, List.foldl_append, List.foldl_append, fold_dis, hbody, fold_ena]
  omega

theorem without_inside (s : St) (ts : List Nat) (t : Nat) (ht : t ∈ ts) :
    (run s (ts.map Op.dis)).env.dis t ≠ 0 := by
  rw [run_dis, fold_dis]
  have := List.count_pos_iff.mpr ht
  omega

end Gsu.LDb
