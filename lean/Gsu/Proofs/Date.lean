/-
Helper lemmas for C33 (dates).
-/
import Gsu.Model.Date
import Mathlib.Tactic.SplitIfs
namespace Gsu.Date
open Gsu.Gen.Date

/-- the generated `julianDayNumber` with floor division (equal for the years in question) -/
def jdnE (year month day : Int) : Int :=
  let a := (14 - month) / 12
  let y := year + 4800 - a
  let m := month + 12 * a - 3
  day + (153 * m + 2) / 5 + 365 * y + y / 4 - y / 100 + y / 400 - 32045

theorem jdn_eq (y m d : Int) (hy : -4000 ≤ y) (hm1 : 1 ≤ m) (hm2 : m ≤ 12) :
    jdn y m d = jdnE y m d := by
  simp (disch := omega) only [jdn, julianDayNumber, jdnE, Int.tdiv_eq_ediv_of_nonneg]

/-- the day number is linear in the day of the month -/
theorem jdn_day (y m d k : Int) : jdn y m (d + k) = jdn y m d + k := by
  simp only [jdn, julianDayNumber]; omega

/-- Prop form of `valid` -/
structure InRange (f : Fields) : Prop where
  y0 : 0 ≤ f.yr
  y1 : f.yr ≤ 3000
  m0 : 1 ≤ f.mon
  m1 : f.mon ≤ 12
  d0 : 1 ≤ f.day
  d1 : f.day ≤ daysInMonth f.yr f.mon
  h0 : 0 ≤ f.hr
  h1 : f.hr ≤ 23
  mi0 : 0 ≤ f.min
  mi1 : f.min ≤ 59
  s0 : 0 ≤ f.sec
  s1 : f.sec ≤ 59
  ms0 : 0 ≤ f.ms
  ms1 : f.ms ≤ 999

theorem daysInMonth_le (y m : Int) : daysInMonth y m ≤ 31 := by
  simp only [daysInMonth]; split_ifs <;> omega

theorem valid_inRange (f : Fields) (h : valid f = true) : InRange f := by
  simp only [valid, validYMD] at h
  split at h
  · cases h
  · simp only [Bool.and_eq_true, decide_eq_true_eq] at h
    obtain ⟨⟨⟨⟨⟨⟨⟨⟨⟨⟨⟨⟨⟨a, b⟩, c⟩, d⟩, e⟩, f'⟩, g⟩, h'⟩, i⟩, j⟩, k⟩, l⟩, m⟩, n⟩ := h
    exact ⟨a, b, c, d, e, f', g, h', i, j, k, l, m, n⟩

/-! ## consecutive days -/

theorem jdn_month_end (y m : Int) (hy : 0 ≤ y) (hm1 : 1 ≤ m) (hm2 : m < 12) :
    jdn y (m + 1) 1 = jdn y m (daysInMonth y m) + 1 := by
  have hm : m = 1 ∨ m = 2 ∨ m = 3 ∨ m = 4 ∨ m = 5 ∨ m = 6 ∨ m = 7 ∨ m = 8 ∨ m = 9 ∨ m = 10 ∨
      m = 11 := by omega
  rw [jdn_eq _ _ _ (by omega) (by omega) (by omega), jdn_eq _ _ _ (by omega) (by omega) (by omega)]
  rcases hm with h | h | h | h | h | h | h | h | h | h | h <;> subst h <;>
    simp only [daysInMonth, IsLeap, jdnE, Int.reduceEq, false_or, or_false, or_true, true_or,
      if_true, if_false, Int.reduceAdd, Int.reduceSub, Int.reduceDiv, Int.reduceMul] <;>
    first | omega | (split_ifs <;> omega)

theorem jdn_year_end (y : Int) (hy : 0 ≤ y) : jdn (y + 1) 1 1 = jdn y 12 31 + 1 := by
  rw [jdn_eq _ _ _ (by omega) (by omega) (by omega), jdn_eq _ _ _ (by omega) (by omega) (by omega)]
  simp only [jdnE]
  omega

theorem jdn_succ (y m d : Int) (hy : 0 ≤ y) (hm1 : 1 ≤ m) (hm2 : m ≤ 12) (hd1 : 1 ≤ d)
    (hd2 : d ≤ daysInMonth y m) :
    jdn (nextDay y m d).1 (nextDay y m d).2.1 (nextDay y m d).2.2 = jdn y m d + 1 := by
  by_cases hlt : d < daysInMonth y m
  · simp only [nextDay, hlt, if_true]
    exact jdn_day y m d 1
  · have hd : d = daysInMonth y m := by omega
    by_cases hm : m < 12
    · simp only [nextDay, hlt, hm, if_true, if_false]
      rw [hd]; exact jdn_month_end y m hy hm1 hm
    · have : m = 12 := by omega
      subst this
      simp only [nextDay, hlt, hm, if_false]
      have : d = 31 := by rw [hd]; simp [daysInMonth]
      rw [this]; exact jdn_year_end y hy

/-! ## order -/

theorem step512 (x1 x2 r1 r2 : Int) (h1 : 0 ≤ r1) (h2 : r1 < 512) (h3 : 0 ≤ r2) (h4 : r2 < 512) :
    cmpInt (x1 * 512 + r1) (x2 * 512 + r2) = (cmpInt x1 x2).then (cmpInt r1 r2) := by
  simp only [cmpInt]; split_ifs <;> simp only [Ordering.then] <;> first | rfl | (exfalso; omega)
theorem step32 (x1 x2 r1 r2 : Int) (h1 : 0 ≤ r1) (h2 : r1 < 32) (h3 : 0 ≤ r2) (h4 : r2 < 32) :
    cmpInt (x1 * 32 + r1) (x2 * 32 + r2) = (cmpInt x1 x2).then (cmpInt r1 r2) := by
  simp only [cmpInt]; split_ifs <;> simp only [Ordering.then] <;> first | rfl | (exfalso; omega)
theorem step4194304 (x1 x2 r1 r2 : Int) (h1 : 0 ≤ r1) (h2 : r1 < 4194304) (h3 : 0 ≤ r2)
    (h4 : r2 < 4194304) :
    cmpInt (x1 * 4194304 + r1) (x2 * 4194304 + r2) = (cmpInt x1 x2).then (cmpInt r1 r2) := by
  simp only [cmpInt]; split_ifs <;> simp only [Ordering.then] <;> first | rfl | (exfalso; omega)
theorem step65536 (x1 x2 r1 r2 : Int) (h1 : 0 ≤ r1) (h2 : r1 < 65536) (h3 : 0 ≤ r2) (h4 : r2 < 65536) :
    cmpInt (x1 * 65536 + r1) (x2 * 65536 + r2) = (cmpInt x1 x2).then (cmpInt r1 r2) := by
  simp only [cmpInt]; split_ifs <;> simp only [Ordering.then] <;> first | rfl | (exfalso; omega)
theorem step1024 (x1 x2 r1 r2 : Int) (h1 : 0 ≤ r1) (h2 : r1 < 1024) (h3 : 0 ≤ r2) (h4 : r2 < 1024) :
    cmpInt (x1 * 1024 + r1) (x2 * 1024 + r2) = (cmpInt x1 x2).then (cmpInt r1 r2) := by
  simp only [cmpInt]; split_ifs <;> simp only [Ordering.then] <;> first | rfl | (exfalso; omega)

theorem compare_then (a b : Fields) :
    compare a b = (cmpInt (packDate a) (packDate b)).then (cmpInt (packTime a) (packTime b)) := by
  simp only [compare, cmpInt]; split_ifs <;> simp only [Ordering.then]

theorem then_assoc' (a b c : Ordering) : (a.then b).then c = a.then (b.then c) := by
  cases a <;> rfl

/-- bit packing order = chronological order -/
theorem field_pack_monotone (a b : Fields) (ha : InRange a) (hb : InRange b) :
    compare a b = cmpFields a b := by
  obtain ⟨a1, a2, a3, a4, a5, a6, a7, a8, a9, a10, a11, a12, a13, a14⟩ := ha
  obtain ⟨b1, b2, b3, b4, b5, b6, b7, b8, b9, b10, b11, b12, b13, b14⟩ := hb
  have := daysInMonth_le a.yr a.mon
  have := daysInMonth_le b.yr b.mon
  rw [compare_then]
  have hd : cmpInt (packDate a) (packDate b) =
      (cmpInt a.yr b.yr).then ((cmpInt a.mon b.mon).then (cmpInt a.day b.day)) := by
    simp only [packDate, Int.add_assoc]
    rw [step512 _ _ _ _ (by omega) (by omega) (by omega) (by omega),
      step32 _ _ _ _ (by omega) (by omega) (by omega) (by omega)]
  have ht : cmpInt (packTime a) (packTime b) =
      (cmpInt a.hr b.hr).then ((cmpInt a.min b.min).then ((cmpInt a.sec b.sec).then
        (cmpInt a.ms b.ms))) := by
    simp only [packTime, Int.add_assoc]
    rw [step4194304 _ _ _ _ (by omega) (by omega) (by omega) (by omega),
      step65536 _ _ _ _ (by omega) (by omega) (by omega) (by omega),
      step1024 _ _ _ _ (by omega) (by omega) (by omega) (by omega)]
  rw [hd, ht]
  simp only [cmpFields, then_assoc']

/-! ## normalisation -/

theorem fromJdn_spec (n : Int) (c : Int × Int × Int) (h : fromJdn n = some c) :
    jdn c.1 c.2.1 c.2.2 = n ∧ validYMD c.1 c.2.1 c.2.2 = true := by
  simp only [fromJdn] at h
  split at h
  · rename_i hh
    cases h
    exact hh
  · cases h

theorem normYear_inRange (y m : Int) (h1 : 1 ≤ m) (h2 : m ≤ 12) :
    normYear y m = y ∧ normMon m = m := by
  simp only [normYear, normMon]; omega

theorem absMs_inRange (e : Fields) (h : InRange e) :
    absMs e = jdn e.yr e.mon e.day * 86400000 + e.hr * 3600000 + e.min * 60000 + e.sec * 1000 + e.ms := by
  obtain ⟨hy, hm⟩ := normYear_inRange e.yr e.mon h.m0 h.m1
  have := jdn_day e.yr e.mon 1 (e.day - 1)
  rw [show (1 : Int) + (e.day - 1) = e.day by omega] at this
  simp only [absMs, hy, hm]
  rw [this]

/-- whenever `normalize` yields a date, that date is valid and denotes the same instant as the
overflowed fields -/
theorem normalize_spec (f e : Fields) (h : normalize f = some e) :
    valid e = true ∧ absMs e = absMs f := by
  simp only [normalize] at h
  split at h
  · cases h
  · split at h
    · cases h
    · rename_i yy mm dd hj
      split at h
      · rename_i hv
        cases h
        refine ⟨hv, ?_⟩
        obtain ⟨hjdn, _⟩ := fromJdn_spec _ _ hj
        have hr := valid_inRange _ hv
        rw [absMs_inRange _ hr]
        simp only at hjdn ⊢
        rw [hjdn]
        simp only [absMs]
        omega
      · cases h

/-- adding `n` days: the result is exactly `n` day numbers later, same time of day -/
theorem plus_days (d e : Fields) (n : Int) (hd : valid d = true)
    (h : plus d ⟨0, 0, n, 0, 0, 0, 0⟩ = some e) :
    jdn e.yr e.mon e.day = jdn d.yr d.mon d.day + n ∧ timeAsMs e = timeAsMs d := by
  obtain ⟨hv, ha⟩ := normalize_spec _ _ h
  have re := valid_inRange _ hv
  have rd := valid_inRange _ hd
  rw [absMs_inRange _ re] at ha
  obtain ⟨hy, hm⟩ := normYear_inRange d.yr d.mon rd.m0 rd.m1
  have hj := jdn_day d.yr d.mon 1 (d.day - 1)
  rw [show (1 : Int) + (d.day - 1) = d.day by omega] at hj
  simp only [absMs, addFields, Int.add_zero, hy, hm] at ha
  obtain ⟨_, _, _, _, _, _, e7, e8, e9, e10, e11, e12, e13, e14⟩ := re
  obtain ⟨_, _, _, _, _, _, d7, d8, d9, d10, d11, d12, d13, d14⟩ := rd
  simp only [timeAsMs]
  constructor <;> omega

/-- adding `k` milliseconds: the absolute time moves by exactly `k` -/
theorem plus_ms (d e : Fields) (k : Int) (hd : valid d = true)
    (h : plus d ⟨0, 0, 0, 0, 0, 0, k⟩ = some e) :
    unixMilli e - unixMilli d = k ∧ valid e = true := by
  obtain ⟨hv, ha⟩ := normalize_spec _ _ h
  have re := valid_inRange _ hv
  have rd := valid_inRange _ hd
  rw [absMs_inRange _ re] at ha
  have hb := absMs_inRange _ rd
  have : absMs (addFields d ⟨0, 0, 0, 0, 0, 0, k⟩) = absMs d + k := by
    simp only [absMs, addFields, Int.add_zero]; omega
  rw [this, hb] at ha
  refine ⟨?_, hv⟩
  simp only [unixMilli, timeAsMs]
  omega

/-- `MinusMs` is the difference of absolute times whichever branch it takes -/
theorem minusMs_eq (a b : Fields) (ha : InRange a) (hb : InRange b) :
    minusMs a b = unixMilli a - unixMilli b := by
  simp only [minusMs]
  split
  · rename_i h
    have := daysInMonth_le a.yr a.mon
    have := daysInMonth_le b.yr b.mon
    obtain ⟨_, _, a3, a4, a5, a6, _⟩ := ha
    obtain ⟨_, _, b3, b4, b5, b6, _⟩ := hb
    simp only [packDate] at h
    have e1 : a.yr = b.yr := by omega
    have e2 : a.mon = b.mon := by omega
    have e3 : a.day = b.day := by omega
    simp only [unixMilli, e1, e2, e3]
    omega
  · rfl

end Gsu.Date
