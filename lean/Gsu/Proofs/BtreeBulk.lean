/-
C10 — the bulk build (`bulkBuild`, mirror of builder.go) keeps the content, establishes the
ordering invariant and respects the count / size limits. Core-only.
-/
import Gsu.Proofs.BtreeTree
namespace Gsu.Btree

/-! ### content -/

theorem rowList_nil {α} (tl : α → List KV) (last : α) : rowList tl [] last = tl last := by
  simp [rowList]

theorem rowList_append_cons {α} (tl : α → List KV) (a : List (α × Key)) (c : α) (s : Key)
    (r : List (α × Key)) (last : α) :
    rowList tl (a ++ (c, s) :: r) last = rowList tl a c ++ rowList tl r last := by
  simp [rowList]

theorem buildLeaves_toList (split : Nat) : ∀ (kvs : List KV) (b : LB) (cur : List KV),
    rowList Leaf.es (buildLeaves split kvs b cur).1 (buildLeaves split kvs b cur).2
      = cur.reverse ++ kvs := by
  intro kvs
  induction kvs with
  | nil => intro b cur; simp [buildLeaves, rowList, LB.finish]
  | cons x r ih =>
    obtain ⟨k, o⟩ := x
    intro b cur
    simp only [buildLeaves]
    cases ht : b.tryAdd split k with
    | some b' => simp only; rw [ih]; simp
    | none =>
      simp only
      rw [rowList_cons, ih]
      simp [LB.finish]

/-- content of a node given the content of a child -/
def nodeTl {α} (tl : α → List KV) (n : List (α × Key) × α) : List KV := rowList tl n.1 n.2

theorem buildLevel_toList (split : Nat) {α} (tl : α → List KV) :
    ∀ (ps : List (α × Key)) (last : α) (cur : List (α × Key)),
      rowList (nodeTl tl) (buildLevel split ps last cur).1 (buildLevel split ps last cur).2
        = rowList tl (cur.reverse ++ ps) last := by
  intro ps
  induction ps with
  | nil => intro last cur; simp [buildLevel, rowList_nil, nodeTl]
  | cons x r ih =>
    obtain ⟨c, s⟩ := x
    intro last cur
    simp only [buildLevel]
    split
    · simp only
      rw [rowList_cons, ih, rowList_append_cons]
      simp [nodeTl]
    · rw [ih]; simp

theorem BT_toList_succ_fn (h : Nat) : BT.toList (h + 1) = nodeTl (BT.toList h) :=
  funext fun _ => rfl

theorem growUp_toList (split : Nat) : ∀ (fuel h : Nat) (ps : List (BT h × Key)) (last : BT h),
    (growUp split fuel h ps last).toList = rowList (BT.toList h) ps last := by
  intro fuel
  induction fuel with
  | zero =>
    intro h ps last
    cases ps with
    | nil => simp [growUp, BTree.toList, rowList_nil]
    | cons p ps => simp [growUp, BTree.toList, BT_toList_succ]
  | succ fuel ih =>
    intro h ps last
    cases ps with
    | nil => simp [growUp, BTree.toList, rowList_nil]
    | cons p ps =>
      simp only [growUp]
      rw [ih]
      have := buildLevel_toList split (BT.toList h) (p :: ps) last []
      rw [BT_toList_succ_fn]
      simpa using this

theorem bulkBuild_toList (split : Nat) (kvs : List KV) : (bulkBuild split kvs).toList = kvs := by
  unfold bulkBuild
  simp only
  rw [growUp_toList]
  have := buildLeaves_toList split kvs {} []
  simpa [BT.toList] using this

/-! ### ordering -/

theorem buildLevel_bounded (split : Nat) {α} {P : Option Key → Option Key → α → Prop} :
    ∀ (ps : List (α × Key)) (last : α) (cur : List (α × Key)) (lo hi : Option Key),
      RowB P lo hi (cur.reverse ++ ps) last →
      RowB (fun lo hi (n : List (α × Key) × α) => RowB P lo hi n.1 n.2) lo hi
        (buildLevel split ps last cur).1 (buildLevel split ps last cur).2 := by
  intro ps
  induction ps with
  | nil => intro last cur lo hi h; simpa [buildLevel, RowB] using h
  | cons x r ih =>
    obtain ⟨c, s⟩ := x
    intro last cur lo hi h
    simp only [buildLevel]
    split
    · obtain ⟨a, b, c', d⟩ := RowB_split _ _ _ _ _ _ _ h
      exact ⟨a, b, c', ih last [] _ _ (by simpa using d)⟩
    · apply ih
      simpa using h

theorem growUp_bounded (split : Nat) : ∀ (fuel h : Nat) (ps : List (BT h × Key)) (last : BT h),
    RowB (BT.Bounded h) none none ps last →
    BT.Bounded (growUp split fuel h ps last).h none none (growUp split fuel h ps last).root := by
  intro fuel
  induction fuel with
  | zero =>
    intro h ps last hb
    cases ps with
    | nil => simpa [growUp, RowB] using hb
    | cons p ps => simpa [growUp, BT.Bounded] using hb
  | succ fuel ih =>
    intro h ps last hb
    cases ps with
    | nil => simpa [growUp, RowB] using hb
    | cons p ps =>
      simp only [growUp]
      apply ih
      exact buildLevel_bounded split (p :: ps) last [] none none (by simpa using hb)

theorem Sorted_append {a b : List KV} :
    Sorted (a ++ b) ↔ Sorted a ∧ Sorted b ∧ ∀ x ∈ a, ∀ y ∈ b, x.1 < y.1 := by
  unfold Sorted; exact List.pairwise_append

/-! ### the leaf builder state describes the open leaf -/

theorem commonPrefix_prefix_left : ∀ (a b : Key), commonPrefix a b <+: a
  | [], _ => by simp [commonPrefix]
  | _ :: _, [] => by simp [commonPrefix]
  | x :: a, y :: b => by
    simp only [commonPrefix]
    by_cases h : x = y
    · simp only [h, if_true]
      have := commonPrefix_prefix_left a b
      subst h
      exact (List.prefix_cons_inj x).mpr this
    · simp [h]

theorem commonPrefix_prefix_right : ∀ (a b : Key), commonPrefix a b <+: b
  | [], _ => by simp [commonPrefix]
  | _ :: _, [] => by simp [commonPrefix]
  | x :: a, y :: b => by
    simp only [commonPrefix]
    by_cases h : x = y
    · simp only [h, if_true]
      exact (List.prefix_cons_inj y).mpr (commonPrefix_prefix_right a b)
    · simp [h]

/-- `b` is the builder state after adding the keys of `cur` (newest first) -/
def LBInv (b : LB) (cur : List KV) : Prop :=
  b.n = cur.length ∧ b.fieldsLen = (cur.map fun e => e.1.length).sum ∧
    (∀ e ∈ cur, b.pre <+: e.1) ∧ (cur = [] → b.pre = [])

theorem LBInv_empty : LBInv {} [] := by simp [LBInv]

theorem LBInv_add {b : LB} {cur : List KV} (h : LBInv b cur) (k : Key) (o : Nat) :
    LBInv (b.add k) ((k, o) :: cur) := by
  obtain ⟨h1, h2, h3, _⟩ := h
  refine ⟨by simp [LB.add, h1], by simp [LB.add, h2]; omega, ?_, by simp⟩
  intro e he
  simp only [LB.add, LB.newPre]
  by_cases h0 : b.n = 0
  · simp only [h0, if_true]
    have : cur = [] := by
      cases cur with
      | nil => rfl
      | cons _ _ => simp [h0] at h1
    subst this
    simp only [List.mem_singleton] at he
    subst he
    exact List.prefix_refl _
  · simp only [h0, if_false]
    rcases List.mem_cons.mp he with rfl | he'
    · exact commonPrefix_prefix_right _ _
    · exact List.IsPrefix.trans (commonPrefix_prefix_left _ _) (h3 e he')

theorem tryAdd_eq_add {split : Nat} {b b' : LB} {k : Key} (h : b.tryAdd split k = some b') :
    b' = b.add k := by
  unfold LB.tryAdd at h
  simp only at h
  split at h
  · cases h
  · split at h
    · cases h
    · simp only [Option.some.injEq] at h; exact h.symm

theorem sum_sub_pre (p : Nat) : ∀ (es : List KV), (∀ e ∈ es, p ≤ e.1.length) →
    (es.map fun e => e.1.length - p).sum + es.length * p = (es.map fun e => e.1.length).sum := by
  intro es
  induction es with
  | nil => simp
  | cons x xs ih =>
    intro h
    have h1 := h x List.mem_cons_self
    have := ih (fun e he => h e (List.mem_cons_of_mem _ he))
    simp only [List.map_cons, List.sum_cons, List.length_cons, Nat.add_mul, Nat.one_mul]
    omega

theorem finish_size {b : LB} {cur : List KV} (h : LBInv b cur) :
    (b.finish cur.reverse).size = b.size := by
  obtain ⟨h1, h2, h3, _⟩ := h
  have hlen : ∀ e ∈ cur.reverse, min 255 b.pre.length ≤ e.1.length := by
    intro e he
    have := (h3 e (List.mem_reverse.mp he)).length_le
    omega
  have hsum := sum_sub_pre (min 255 b.pre.length) cur.reverse hlen
  have hsum0 := sum_sub_pre 0 cur.reverse (fun _ _ => Nat.zero_le _)
  simp only [List.map_reverse, List.sum_reverse, List.length_reverse] at hsum hsum0
  simp only [LB.finish, Leaf.size, LB.size, leafSize, List.length_reverse, List.map_reverse,
    List.sum_reverse]
  by_cases hn : b.n = 1
  · simp only [hn, if_true]
    rw [h2]
    have : cur.length = 1 := by omega
    simp only [this] at hsum hsum0 ⊢
    simp only [Nat.sub_zero] at hsum0 ⊢
    omega
  · simp only [hn, if_false]
    rw [h2, h1]
    rw [Nat.mul_comm cur.length] at hsum
    rw [Nat.mul_comm cur.length]
    omega

theorem finish_preOK {b : LB} {cur : List KV} (h : LBInv b cur) :
    (b.finish cur.reverse).PreOK := by
  obtain ⟨h1, _, h3, h4⟩ := h
  simp only [Leaf.PreOK, LB.finish]
  refine ⟨by split <;> omega, ?_, ?_⟩
  · intro he
    have : cur = [] := by simpa using he
    rw [h4 this]; simp
  by_cases hn : b.n = 1
  · simp only [hn, if_true]
    exact ⟨[], rfl, fun _ _ => List.nil_prefix⟩
  · simp only [hn, if_false]
    refine ⟨b.pre.take 255, by simp [List.length_take], ?_⟩
    intro e he
    exact List.IsPrefix.trans (List.take_prefix _ _) (h3 e (List.mem_reverse.mp he))

/-- the leaf level: a sorted input gives a bounded row of leaves -/
theorem buildLeaves_bounded (split : Nat) : ∀ (kvs : List KV) (b : LB) (cur : List KV)
    (lo : Option Key), LBInv b cur → Sorted (cur.reverse ++ kvs) →
    Range lo none (cur.reverse ++ kvs) → (cur = [] → lo = none) →
    RowB LeafB lo none (buildLeaves split kvs b cur).1 (buildLeaves split kvs b cur).2 := by
  intro kvs
  induction kvs with
  | nil =>
    intro b cur lo hb hs hr _
    simp only [buildLeaves, RowB, LeafB]
    simp only [List.append_nil] at hs hr
    exact ⟨hs, hr, finish_preOK hb⟩
  | cons x r ih =>
    obtain ⟨k, o⟩ := x
    intro b cur lo hb hs hr hlo
    simp only [buildLeaves]
    cases ht : b.tryAdd split k with
    | some b' =>
      simp only
      have := tryAdd_eq_add ht
      subst this
      apply ih
      · exact LBInv_add hb k o
      · simpa using hs
      · simpa using hr
      · intro h; cases h
    | none =>
      simp only
      obtain ⟨hs1, hs2, hs3⟩ := Sorted_append.mp hs
      obtain ⟨hr1, hr2⟩ := Range_append.mp hr
      -- the previous key is the largest of the open leaf and below `k`
      have hprev : ∀ e ∈ cur.reverse,
          e.1 < sepKey (headKey cur) k := by
        intro e he
        cases cur with
        | nil => simp at he
        | cons p cur' =>
          simp only [headKey]
          have hpk : p.1 < k := hs3 p (by simp) (k, o) List.mem_cons_self
          have hsep := (sepKey_spec hpk).1
          simp only [List.reverse_cons, List.mem_append, List.mem_singleton] at he
          rcases he with he | rfl
          · have hs1' : Sorted (cur'.reverse ++ [p]) := by simpa using hs1
            have := (Sorted_append.mp hs1').2.2 e he p (by simp)
            exact klt_trans this hsep
          · exact hsep
      have hle : sepKey (headKey cur) k ≤ k := take_kle _ _
      refine ⟨⟨hs1, fun e he => ⟨(hr1 e he).1, hprev e he⟩, finish_preOK hb⟩, ?_, trivial, ?_⟩
      · -- lo < sep
        cases cur with
        | nil => rw [hlo rfl]; trivial
        | cons p cur' =>
          cases lo with
          | none => trivial
          | some l =>
            have h1 : l ≤ p.1 := (hr1 p (by simp)).1
            exact klt_of_le_of_lt h1 (hprev p (by simp))
      · apply ih
        · exact LBInv_add LBInv_empty k o
        · simpa using hs2
        · intro e he
          simp only [List.reverse_cons, List.reverse_nil, List.nil_append, List.singleton_append,
            List.mem_cons] at he
          refine ⟨?_, trivial⟩
          rcases he with rfl | he
          · exact hle
          · have := (List.pairwise_cons.mp hs2).1 e he
            exact kle_trans hle (kle_of_lt this)
        · intro h; cases h

theorem bulkBuild_bounded (split : Nat) (kvs : List KV) (hs : Sorted kvs) :
    BT.Bounded (bulkBuild split kvs).h none none (bulkBuild split kvs).root := by
  unfold bulkBuild
  simp only
  apply growUp_bounded
  exact buildLeaves_bounded split kvs {} [] none LBInv_empty (by simpa using hs)
    (fun e _ => ⟨trivial, trivial⟩) (fun _ => rfl)

end Gsu.Btree
