import Gsu.Proofs.SchemaAlgRen2
/-!
C21, part 8: `alterRenameCol` preserves `LWF`.
-/
namespace Gsu.SchemaAlg

/-! ### the loop -/

theorem renGo_inv {db : Db} {name : String} {from_ to : List String}
    (hL : LInv db) (hF : FkOk db) (hU : LUniq db) :
    ∀ (rem : List Nat) (dbk db2 : Db), rem.Nodup → (∀ i ∈ rem, ∃ ix0, look db name i = some ix0) →
      RenInv name from_ to db rem rem dbk → alterRenameCol.go name dbk rem = some db2 →
      RenInv name from_ to db [] [] db2 ∧ names db2 = names dbk
  | [], dbk, db2, _, _, hinv, h => by
    simp only [alterRenameCol.go, Option.some.injEq] at h
    subst h
    exact ⟨hinv, rfl⟩
  | i :: rem, dbk, db2, hnd, hin, hinv, h => by
    simp only [alterRenameCol.go] at h
    split at h
    · cases h
    · rename_i dbk' hk
      rw [List.nodup_cons] at hnd
      obtain ⟨ix0, h0⟩ := hin i (by simp)
      obtain ⟨s1, n1⟩ := renameFkey_step hL hF hU hnd.1 h0 hinv hk
      obtain ⟨s2, n2⟩ := renGo_inv hL hF hU rem dbk' db2 hnd.2
        (fun k hk => hin k (List.mem_cons_of_mem _ hk)) s1 h
      exact ⟨s2, n2.trans n1⟩

/-! ### the state before the loop -/

theorem renInit {db : Db} {name : String} {from_ to cols : List String} {ts : Table} {aff : List Nat}
    (hL : LInv db) (hF : FkOk db) (hts : getT db name = some ts)
    (haff : ∀ k ix, ts.indexes[k]? = some ix → k ∉ aff → replaceAll ix.columns from_ to = ix.columns) :
    RenInv name from_ to db aff aff
      (putT db { ts with columns := cols, indexes := ts.indexes.map (ren name from_ to) }) := by
  have hname : ts.name = name := getT_name hts
  have hE : ∀ n j ix1, look db n j = some ix1 → ∀ f ∈ ix1.fkToHere, renE name from_ to aff f = f := by
    intro n j ix1 h1 f hf
    obtain ⟨_, six, hls, c1, _⟩ := ((hL n j ix1 h1).2 f).mp hf
    unfold renE
    split
    · rename_i hc
      rw [hc.1, look_of_getT hts] at hls
      have := haff _ _ hls hc.2
      rw [c1] at this
      rw [this]
    · rfl
  intro n j
  rw [look_putT]
  by_cases hn : n = name
  · subst hn
    rw [if_pos hname.symm, look_of_getT hts]
    show (ts.indexes.map (ren n from_ to))[j]? = _
    rw [List.getElem?_map]
    cases h1 : ts.indexes[j]? with
    | none => rfl
    | some ix =>
      simp only [Option.map_some]
      congr 1
      refine Index.ext' rfl ?_ ?_ ?_ ?_
      · simp [ren, RR]
      · simp [ren, RR]
      · rw [ren_fk]
        refine Fkey.ext' rfl ?_ rfl rfl
        show (if _ then _ else _) = if _ then _ else _
        refine ite_iff_congr ?_ _ _
        simp
      · show ix.fkToHere = ix.fkToHere.map _
        have h1' : look db n j = some ix := by rw [look_of_getT hts]; exact h1
        conv => lhs; rw [← List.map_id ix.fkToHere]
        apply List.map_congr_left
        intro f hf
        exact (hE n j ix h1' f hf).symm
  · rw [if_neg (by rw [hname]; exact hn)]
    cases h1 : look db n j with
    | none => rfl
    | some ix =>
      simp only [Option.map_some]
      congr 1
      refine Index.ext' rfl ?_ ?_ ?_ ?_
      · simp [RR, hn]
      · simp [RR, hn]
      · refine Fkey.ext' rfl ?_ rfl rfl
        show ix.fk.columns = if _ then _ else _
        split
        · rename_i hc
          rcases hc with ⟨a, b | ⟨b, c⟩⟩
          · exact absurd b hn
          · obtain ⟨tix, t1, t2, _⟩ := hF n j ix h1 (by rw [a]; exact b)
            rw [a, look_of_getT hts] at t1
            have := haff _ _ t1 c
            rw [t2] at this
            exact this.symm
        · rfl
      · show ix.fkToHere = ix.fkToHere.map _
        conv => lhs; rw [← List.map_id ix.fkToHere]
        apply List.map_congr_left
        intro f hf
        exact (hE n j ix h1 f hf).symm

/-! ### the end of the loop: `LInv`, `FkCols` -/

theorem ren_nodup_map_on {α β} (f : α → β) : ∀ {l : List α}, (∀ a ∈ l, ∀ b ∈ l, f a = f b → a = b) →
    l.Nodup → (l.map f).Nodup
  | [], _, _ => by simp
  | x :: r, hinj, hnd => by
    rw [List.nodup_cons] at hnd
    rw [List.map_cons, List.nodup_cons]
    refine ⟨?_, ren_nodup_map_on f (fun a ha b hb => hinj a (List.mem_cons_of_mem _ ha) b (List.mem_cons_of_mem _ hb)) hnd.2⟩
    intro hm
    obtain ⟨y, hy, hxy⟩ := List.mem_map.mp hm
    have := hinj y (List.mem_cons_of_mem _ hy) x (by simp) hxy
    rw [this] at hy
    exact hnd.1 hy

theorem RenInv.bwd {name : String} {from_ to : List String} {db db2 : Db} {a b : List Nat}
    (h : RenInv name from_ to db a b db2) {n : String} {j : Nat} {ix' : Index}
    (hl : look db2 n j = some ix') : ∃ ix, look db n j = some ix ∧ ix' = RR name from_ to a b n ix := by
  rw [h] at hl
  obtain ⟨ix, h0, rfl⟩ := Option.map_eq_some_iff.mp hl
  exact ⟨ix, h0, rfl⟩

theorem renFin_fkCols {name : String} {from_ to : List String} {db db2 : Db}
    (hfin : RenInv name from_ to db [] [] db2) (hc : FkCols db) : FkCols db2 := by
  intro n j ix' hl hfk
  obtain ⟨ix, h0, rfl⟩ := hfin.bwd hl
  have := hc n j ix h0 hfk
  show (if _ then _ else _) ≠ []
  split
  · exact replaceAll_ne_nil this
  · exact this

theorem renFin_linv {name : String} {from_ to : List String} {db db2 : Db}
    (hfin : RenInv name from_ to db [] [] db2) (hL : LInv db) (hF : FkOk db) (hU2 : LUniq db2) :
    LInv db2 := by
  intro n j ix' hl
  obtain ⟨ix, hl0, rfl⟩ := hfin.bwd hl
  obtain ⟨hnd, hm⟩ := hL n j ix hl0
  constructor
  · show (ix.fkToHere.map _).Nodup
    refine ren_nodup_map_on _ ?_ hnd
    intro a ha b hb hab
    have e1 : a.table = b.table := by
      have := congrArg Fkey.table hab; rwa [renE_table, renE_table] at this
    have e2 : a.iindex = b.iindex := by
      have := congrArg Fkey.iindex hab; rwa [renE_iindex, renE_iindex] at this
    have e3 : a.mode = b.mode := by
      have := congrArg Fkey.mode hab; rwa [renE_mode, renE_mode] at this
    obtain ⟨_, sa, hsa, ca, _⟩ := (hm a).mp ha
    obtain ⟨_, sb, hsb, cb, _⟩ := (hm b).mp hb
    rw [e1, e2, hsb] at hsa
    cases hsa
    exact Fkey.ext' e1 (by rw [← ca, ← cb]) e2 e3
  · intro f'
    show f' ∈ ix.fkToHere.map _ ↔ Link db2 n (if n = name then replaceAll ix.columns from_ to else ix.columns) f'
    rw [List.mem_map]
    constructor
    · rintro ⟨f, hf, rfl⟩
      obtain ⟨hne, six, hls, c1, c2, c3, c4⟩ := (hm f).mp hf
      refine ⟨hne, RR name from_ to [] [] f.table six, ?_, ?_, ?_, c3, ?_⟩
      · rw [renE_table, renE_iindex, hfin, hls]; rfl
      · show (if f.table = name then replaceAll six.columns from_ to else six.columns) = _
        unfold renE
        by_cases ht : f.table = name
        · simp [ht, c1]
        · simp [ht, c1]
      · rw [renE_mode]; exact c2
      · show (if _ then _ else _) = _
        rw [c3, c4]
        by_cases hn : n = name
        · subst hn; simp [hne]
        · simp [hn]
    · rintro ⟨hne, six', hls', c1, c2, c3, c4⟩
      obtain ⟨six, hls, rfl⟩ := hfin.bwd hls'
      have c3' : six.fk.table = n := c3
      have c4' : (if six.fk.table = name ∧ (f'.table = name ∨ (name ≠ "" ∧ six.fk.iindex ∉ ([] : List Nat)))
          then replaceAll six.fk.columns from_ to else six.fk.columns) =
          if n = name then replaceAll ix.columns from_ to else ix.columns := c4
      have c1' : (if f'.table = name then replaceAll six.columns from_ to else six.columns) = f'.columns := c1
      have hcols : six.fk.columns = ix.columns := by
        by_cases hn : n = name
        · subst hn
          have hcond : six.fk.table = n ∧ (f'.table = n ∨ (n ≠ "" ∧ six.fk.iindex ∉ ([] : List Nat))) :=
            ⟨c3', Or.inr ⟨hne, by simp⟩⟩
          rw [if_pos hcond, if_pos rfl] at c4'
          obtain ⟨tix, t1, t2, _⟩ := hF _ _ six hls (by rw [c3']; exact hne)
          rw [c3'] at t1
          have l1 : look db2 n six.fk.iindex = some (RR n from_ to [] [] n tix) := by rw [hfin, t1]; rfl
          have l2 : look db2 n j = some (RR n from_ to [] [] n ix) := by rw [hfin, hl0]; rfl
          have := hU2 n _ _ _ _ l1 l2 (by
            show (if n = n then _ else _) = if n = n then _ else _
            rw [if_pos rfl, if_pos rfl, t2]; exact c4')
          rw [this, hl0] at t1
          cases t1
          exact t2.symm
        · have hcond : ¬(six.fk.table = name ∧ (f'.table = name ∨ (name ≠ "" ∧ six.fk.iindex ∉ ([] : List Nat)))) := by
            rintro ⟨a, _⟩; exact hn (by rw [← c3', a])
          rw [if_neg hcond, if_neg hn] at c4'
          exact c4'
      refine ⟨⟨f'.table, six.columns, f'.iindex, f'.mode⟩, ?_, ?_⟩
      · exact (hm _).mpr ⟨hne, six, hls, rfl, c2, c3', hcols⟩
      · refine Fkey.ext' (renE_table _ _ _ _ _) ?_ (renE_iindex _ _ _ _ _) (renE_mode _ _ _ _ _)
        rw [← c1']
        unfold renE
        by_cases ht : f'.table = name
        · simp [ht]
        · simp [ht]

/-! ### `alterRenameCol` -/

theorem alterRenameCol_inv {db : Db} {name : String} {from_ to : List String} {db' : Db}
    (h : alterRenameCol db name from_ to = some db') :
    ∃ ts cols ixs aff, getT db name = some ts ∧ replaceUnique ts.columns from_ to = some cols ∧
      renameIdxs name from_ to [] ts.indexes = some (ixs, aff) ∧
      alterRenameCol.go name (putT db { ts with columns := cols, indexes := ixs }) aff = some db' := by
  unfold alterRenameCol at h
  split at h
  · cases h
  · rename_i ts hts
    split at h
    · cases h
    · rename_i cols hcols
      split at h
      · cases h
      · rename_i ixs aff hr
        dsimp only at h
        split at h
        · cases h
        · rename_i db2 hgo
          split at h
          · simp only [Option.some.injEq] at h
            subst h
            exact ⟨ts, cols, ixs, aff, hts, hcols, hr, hgo⟩
          · cases h

/-- `alter table rename column` keeps the metadata well formed -/
theorem alterRenameCol_lwf {db : Db} {name : String} {from_ to : List String} {db' : Db}
    (w : LWF db) (h : alterRenameCol db name from_ to = some db') : LWF db' := by
  have hv := alterRenameCol_valid h
  obtain ⟨ts, cols, ixs, aff, hts, _, hr, hgo⟩ := alterRenameCol_inv h
  obtain ⟨rfl, haff, hnd⟩ := renameIdxs_inv name from_ to _ _ _ _ hr
  have hF := fkOk_of_validate w.valid
  have hU := luniq_of_idxUniq (idxUniq_of_validate w.valid)
  have hinit : RenInv name from_ to db aff aff
      (putT db { ts with columns := cols, indexes := ts.indexes.map (ren name from_ to) }) := by
    apply renInit w.linv hF hts
    intro k ix hk hna
    apply Classical.byContradiction
    intro hne
    exact hna ((haff k).mpr ⟨k, ix, hk, by simp, hne⟩)
  have hin : ∀ i ∈ aff, ∃ ix0, look db name i = some ix0 := by
    intro i hi
    obtain ⟨k, ix, hk, e, _⟩ := (haff i).mp hi
    refine ⟨ix, ?_⟩
    rw [look_of_getT hts, e]
    simpa using hk
  obtain ⟨hfin, hnames⟩ := renGo_inv w.linv hF hU aff _ db' hnd hin hinit hgo
  refine ⟨hv, ?_, renFin_fkCols hfin w.fkc,
    renFin_linv hfin w.linv hF (luniq_of_idxUniq (idxUniq_of_validate hv))⟩
  unfold NamesNodup
  rw [hnames]
  exact namesNodup_putT w.names

end Gsu.SchemaAlg
