/-
C09 (OverIter), part 7: the full specification of `Next` and `Prev` (slow path, fast path,
direction reversal, re-seek after modification) and exhaustive iteration. Core-only.
-/
import Gsu.Proofs.Iter6
namespace Gsu.Iter

theorem fastNext_eq (oi : OI) (i : Nat) (hi : oi.fastIdx = some i) :
    fastNext oi =
      (let L := oi.layers.getD i []
       let c := curNext L oi.rng (oi.curs.getD i eofC)
       let oi := { oi with curs := setCur oi.curs i c }
       if c.st ≠ .eof ∧ c.key < oi.secondMin then
         ({ oi with curKey := c.key, curOp := c.op, curOff := c.off, lastDir := .next }, true)
       else
         (modNext { oi with fastIdx := none } false, false)) := by
  unfold fastNext; rw [hi]

theorem fastPrev_eq (oi : OI) (i : Nat) (hi : oi.fastIdx = some i) :
    fastPrev oi =
      (let L := oi.layers.getD i []
       let c := curPrev L oi.rng (oi.curs.getD i eofC)
       let oi := { oi with curs := setCur oi.curs i c }
       if c.st ≠ .eof ∧ oi.secondMax < c.key then
         ({ oi with curKey := c.key, curOp := c.op, curOff := c.off, lastDir := .prev }, true)
       else
         (modPrev { oi with fastIdx := none } false, false)) := by
  unfold fastPrev; rw [hi]

theorem modNext_false_eq (x : OI) (hm : x.mod = false) (hd : x.lastDir = .next) :
    modNext x false = { x with curs := zipL (fun last L c =>
      modNextCur x.rng x.curKey (false || (last && false)) true L c) x.layers x.curs } := by
  simp [modNext, hm, hd]

theorem modPrev_false_eq (x : OI) (hm : x.mod = false) (hd : x.lastDir = .prev) :
    modPrev x false = { x with curs := zipL (fun last L c =>
      modPrevCur x.rng x.curKey (false || (last && false)) true L c) x.layers x.curs } := by
  simp [modPrev, hm, hd]

theorem next_fallback_eq (oi : OI) (cs' cs2 : List Cur) (hmod : oi.mod = false)
    (hd : oi.lastDir = .next)
    (h1 : zipL (fun last L c => modNextCur oi.rng oi.curKey (false || (last && false)) true L c)
      oi.layers cs' = cs2)
    (h2 : zipL (fun last L c => modNextCur oi.rng oi.curKey (false || (last && false)) true L c)
      oi.layers cs2 = cs2) :
    nextSlow (modNext { oi with curs := cs', fastIdx := none } false) false
      = finishNext { oi with curs := cs2, fastIdx := none } := by
  unfold nextSlow
  rw [modNext_false_eq { oi with curs := cs', fastIdx := none } hmod hd]
  simp only [h1]
  rw [modNext_false_eq { oi with curs := cs2, fastIdx := none } hmod hd]
  simp only [h2]

theorem prev_fallback_eq (oi : OI) (cs' cs2 : List Cur) (hmod : oi.mod = false)
    (hd : oi.lastDir = .prev)
    (h1 : zipL (fun last L c => modPrevCur oi.rng oi.curKey (false || (last && false)) true L c)
      oi.layers cs' = cs2)
    (h2 : zipL (fun last L c => modPrevCur oi.rng oi.curKey (false || (last && false)) true L c)
      oi.layers cs2 = cs2) :
    prevSlow (modPrev { oi with curs := cs', fastIdx := none } false) false
      = finishPrev { oi with curs := cs2, fastIdx := none } := by
  unfold prevSlow
  rw [modPrev_false_eq { oi with curs := cs', fastIdx := none } hmod hd]
  simp only [h1]
  rw [modPrev_false_eq { oi with curs := cs2, fastIdx := none } hmod hd]
  simp only [h2]

/-- the fast path of `Next` (and its fall-back) returns what the slow path returns -/
theorem next_fast (oi : OI) (hg : GoodB oi) (hp : oi.pend = none) (hst : oi.st = .within)
    (hcomp : Comp oi.layers) (hcf : canFast oi false .next = true) :
    GoodB (nextCore oi false) ∧
      IsNext oi.layers oi.rng (.gt oi.curKey) (nextCore oi false).result ∧
      ((nextCore oi false).st = .within → (nextCore oi false).curOp = .add) := by
  simp only [canFast, Bool.not_false, Bool.true_and, Bool.and_eq_true, decide_eq_true_eq,
    Bool.not_eq_true'] at hcf
  obtain ⟨⟨hd, hfi⟩, hmod⟩ := hcf
  obtain ⟨i, hi⟩ := Option.isSome_iff_exists.mp hfi
  have hin := hg.good.inr hst
  have hfwd := hg.good.fwd hst hd hp
  rw [hmod] at hfwd
  have hcs := FwdInv_false hfwd
  have hfast := hg.fastN hst hd i hi
  rw [hcs] at hfast
  obtain ⟨L, ctx⟩ := fastCtx_of hg.good.wf hin hfast
  have hc : curNext (oi.layers.getD i []) oi.rng (oi.curs.getD i eofC)
      = cB L oi.rng (.gt oi.curKey) := by
    rw [hcs, ctx.getD_layer, ctx.getD_cur, ctx.step]
  have hcan : canFast oi false .next = true := by simp [canFast, hd, hfi, hmod]
  have hnr : oi.st ≠ .rewound := by rw [hst]; simp
  simp only [nextCore, hnr, if_false, hcan, if_true]
  rw [fastNext_eq oi i hi]
  simp only [hc]
  by_cases hcond : (cB L oi.rng (.gt oi.curKey)).st ≠ .eof ∧
      (cB L oi.rng (.gt oi.curKey)).key < oi.secondMin
  · -- the fast path took the step
    rw [if_pos hcond]
    obtain ⟨hnext, hop, hinr, hmap, hsec⟩ := ctx.success hcomp hcond.1 hcond.2
    have hset : setCur oi.curs i (cB L oi.rng (.gt oi.curKey))
        = oi.layers.map (fun M => cB M oi.rng (.ge (cB L oi.rng (.gt oi.curKey)).key)) := by
      rw [← hmap, ← ctx.set_eq_gt hsec, setCur, hcs]
    simp only [if_true]
    refine ⟨⟨⟨hg.good.wf, hg.good.wfp, ?_, ?_, fun _ => hinr, ?_, hg.good.stuck⟩,
      fun _ => Or.inl rfl, ?_, ?_, ?_⟩, ?_, fun _ => hop⟩
    · simp [setCur, hg.good.len]
    · intro h; simp [hst] at h
    · intro _ _ _; simp only [hset]; exact FwdInv_map _ _ _ _
    · intro _ h; simp at h
    · intro _ _ j hj
      simp only at hj
      rw [hi] at hj; cases hj
      have := ctx.fastN_after
      simpa [setCur, hcs] using this
    · intro _ h; simp at h
    · simpa [OI.result, hst] using hnext
  · -- fall back: modNext(false), then the slow path
    rw [if_neg hcond]
    simp only [Bool.false_eq_true, if_false]
    rw [next_fallback_eq oi _ (oi.layers.map (fun L => cB L oi.rng (.gt oi.curKey))) hmod hd
      (by rw [setCur, hcs]; exact ctx.fallback1)
      (FastCtx.fallback2 hg.good.wf hin.2.1 hin.2.2)]
    have := finishNext_spec
      { oi with curs := oi.layers.map (fun L => cB L oi.rng (.gt oi.curKey)), fastIdx := none }
      (.gt oi.curKey) hg.good.wf hst hp hg.good.stuck (gt_org hin.1) rfl
    exact ⟨goodB_finishNext _ this.1, this.2.1, this.2.2.1⟩

/-- the fast path of `Prev` (and its fall-back) returns what the slow path returns -/
theorem prev_fast (oi : OI) (hg : GoodB oi) (hp : oi.pend = none) (hst : oi.st = .within)
    (hcomp : Comp oi.layers) (hcf : canFast oi false .prev = true) :
    GoodB (prevCore oi false) ∧
      IsPrev oi.layers oi.rng (.lt oi.curKey) (prevCore oi false).result ∧
      ((prevCore oi false).st = .within → (prevCore oi false).curOp = .add) := by
  simp only [canFast, Bool.not_false, Bool.true_and, Bool.and_eq_true, decide_eq_true_eq,
    Bool.not_eq_true'] at hcf
  obtain ⟨⟨hd, hfi⟩, hmod⟩ := hcf
  obtain ⟨i, hi⟩ := Option.isSome_iff_exists.mp hfi
  have hin := hg.good.inr hst
  have hbwd := hg.bwd hst hd hp
  rw [hmod] at hbwd
  have hcs := BwdInv_false hbwd
  have hfast := hg.fastP hst hd i hi
  rw [hcs] at hfast
  obtain ⟨L, ctx⟩ := fastCtxP_of hg.good.wf hin hfast
  have hc : curPrev (oi.layers.getD i []) oi.rng (oi.curs.getD i eofC)
      = cP L oi.rng (.lt oi.curKey) := by
    rw [hcs, ctx.getD_layer, ctx.getD_cur, ctx.step]
  have hcan : canFast oi false .prev = true := by simp [canFast, hd, hfi, hmod]
  have hnr : oi.st ≠ .rewound := by rw [hst]; simp
  simp only [prevCore, hnr, if_false, hcan, if_true]
  rw [fastPrev_eq oi i hi]
  simp only [hc]
  by_cases hcond : (cP L oi.rng (.lt oi.curKey)).st ≠ .eof ∧
      oi.secondMax < (cP L oi.rng (.lt oi.curKey)).key
  · rw [if_pos hcond]
    obtain ⟨hprev, hop, hinr, hmap, hsec⟩ := ctx.success hcomp hcond.1 hcond.2
    have hset : setCur oi.curs i (cP L oi.rng (.lt oi.curKey))
        = oi.layers.map (fun M => cP M oi.rng (.le (cP L oi.rng (.lt oi.curKey)).key)) := by
      rw [← hmap, ← ctx.set_eq_lt hsec, setCur, hcs]
    simp only [if_true]
    refine ⟨⟨⟨hg.good.wf, hg.good.wfp, ?_, ?_, fun _ => hinr, ?_, hg.good.stuck⟩,
      fun _ => Or.inr rfl, ?_, ?_, ?_⟩, ?_, fun _ => hop⟩
    · simp [setCur, hg.good.len]
    · intro h; simp [hst] at h
    · intro _ h; simp at h
    · intro _ _ _; simp only [hset]; exact BwdInv_map _ _ _ _
    · intro _ h; simp at h
    · intro _ _ j hj
      simp only at hj
      rw [hi] at hj; cases hj
      have := ctx.fastP_after hcond.1
      simpa [setCur, hcs] using this
    · simpa [OI.result, hst] using hprev
  · rw [if_neg hcond]
    simp only [Bool.false_eq_true, if_false]
    rw [prev_fallback_eq oi _ (oi.layers.map (fun L => cP L oi.rng (.lt oi.curKey))) hmod hd
      (by rw [setCur, hcs]; exact ctx.fallback1)
      (FastCtxP.fallback2 hg.good.wf hin.1 hin.2.1 hin.2.2)]
    have := finishPrev_spec
      { oi with curs := oi.layers.map (fun L => cP L oi.rng (.lt oi.curKey)), fastIdx := none }
      (.lt oi.curKey) hg.good.wf hst hp hg.good.stuck (lt_ck_end hin.2.1) rfl
    exact ⟨this.1, this.2.1, this.2.2.1⟩

/-! ### the full step theorems -/

theorem goodB_updNew {oi : OI} (hg : GoodB oi) {Ls : List Layer} (hp : oi.pend = some Ls) :
    WF Ls ∧ (updNew oi Ls).curs.length = (updNew oi Ls).layers.length ∧
    (∀ c ∈ (updNew oi Ls).curs, c.st = .rewound) := by
  refine ⟨hg.good.wfp Ls hp, by simp [updNew], ?_⟩
  intro c hc; simp [updNew] at hc; rw [← hc.2]; rfl

/-- **`Next`**: every step (first step, slow path, fast path, after a `Prev`, after the
transaction changed its layer or presented a new overlay) returns exactly the least live key of
the range past the bound and re-establishes the invariant -/
theorem next_full (oi : OI) (hg : GoodB oi) (hne : oi.st ≠ .eof)
    (hcomp : canFast (update oi).1 (update oi).2 .next = true → Comp (curLayers oi)) :
    GoodB (next oi) ∧ IsNext (curLayers oi) oi.rng (nextBd oi) (next oi).result ∧
      ((next oi).st = .within → (next oi).curOp = .add) := by
  unfold next
  simp only [hne, if_false]
  cases hp : oi.pend with
  | some Ls =>
    obtain ⟨hwf, hlen, hrew⟩ := goodB_updNew hg hp
    rw [update_some hp]
    simp only [curLayers, hp, Option.getD_some, nextCore]
    cases hst : oi.st with
    | eof => exact absurd hst hne
    | rewound =>
      have h := nextRewound_spec (updNew oi Ls) hwf rfl hlen hrew hg.good.stuck
      have h' : GoodB (nextRewound (updNew oi Ls)) := goodB_finishNext _ h.1
      simpa [updNew, hst, nextBd] using And.intro h' h.2
    | within =>
      have h := nextSlow_seek (updNew oi Ls) hwf rfl hlen hst (hg.good.inr hst) hg.good.stuck
      have h' : GoodB (nextSlow (updNew oi Ls) true) := goodB_finishNext _ h.1
      simpa [updNew, hst, nextBd, canFast] using And.intro h' h.2
  | none =>
    rw [update_none hp] at hcomp ⊢
    simp only [curLayers, hp, Option.getD_none] at hcomp ⊢
    cases hst : oi.st with
    | eof => exact absurd hst hne
    | rewound =>
      have h := nextRewound_spec oi hg.good.wf hp hg.good.len (hg.good.rew hst) hg.good.stuck
      have h' : GoodB (nextRewound oi) := goodB_finishNext _ h.1
      simpa [nextCore, hst, nextBd] using And.intro h' h.2
    | within =>
      have hbd : nextBd oi = .gt oi.curKey := by simp [nextBd, hst]
      rw [hbd]
      by_cases hcf : canFast oi false .next = true
      · exact next_fast oi hg hp hst (hcomp hcf) hcf
      · have hnr : oi.st ≠ .rewound := by rw [hst]; simp
        simp only [nextCore, hnr, if_false, hcf, Bool.false_eq_true]
        rcases hg.dir hst with hd | hd
        · have h := nextSlow_same oi hg.good.wf hp hst hd (hg.good.inr hst)
            (hg.good.fwd hst hd hp) hg.good.stuck
          exact ⟨goodB_finishNext _ h.1, h.2⟩
        · have h := nextSlow_rev oi hg.good.wf hp hst hd (hg.good.inr hst)
            (hg.bwd hst hd hp) hg.good.stuck
          exact ⟨goodB_finishNext _ h.1, h.2⟩

/-- **`Prev`**: the mirror image -/
theorem prev_full (oi : OI) (hg : GoodB oi) (hne : oi.st ≠ .eof)
    (hcomp : canFast (update oi).1 (update oi).2 .prev = true → Comp (curLayers oi)) :
    GoodB (prev oi) ∧ IsPrev (curLayers oi) oi.rng (prevBd oi) (prev oi).result ∧
      ((prev oi).st = .within → (prev oi).curOp = .add) := by
  unfold prev
  simp only [hne, if_false]
  cases hp : oi.pend with
  | some Ls =>
    obtain ⟨hwf, hlen, hrew⟩ := goodB_updNew hg hp
    rw [update_some hp]
    simp only [curLayers, hp, Option.getD_some, prevCore]
    cases hst : oi.st with
    | eof => exact absurd hst hne
    | rewound =>
      have h := prevRewound_spec (updNew oi Ls) hwf rfl hlen hrew hg.good.stuck
      simpa [updNew, hst, prevBd] using h
    | within =>
      have h := prevSlow_seek (updNew oi Ls) hwf rfl hlen hst (hg.good.inr hst) hg.good.stuck
      simpa [updNew, hst, prevBd, canFast] using h
  | none =>
    rw [update_none hp] at hcomp ⊢
    simp only [curLayers, hp, Option.getD_none] at hcomp ⊢
    cases hst : oi.st with
    | eof => exact absurd hst hne
    | rewound =>
      have h := prevRewound_spec oi hg.good.wf hp hg.good.len (hg.good.rew hst) hg.good.stuck
      simpa [prevCore, hst, prevBd] using h
    | within =>
      have hbd : prevBd oi = .lt oi.curKey := by simp [prevBd, hst]
      rw [hbd]
      by_cases hcf : canFast oi false .prev = true
      · exact prev_fast oi hg hp hst (hcomp hcf) hcf
      · have hnr : oi.st ≠ .rewound := by rw [hst]; simp
        simp only [prevCore, hnr, if_false, hcf, Bool.false_eq_true]
        rcases hg.dir hst with hd | hd
        · exact prevSlow_rev oi hg.good.wf hp hst hd (hg.good.inr hst)
            (hg.good.fwd hst hd hp) hg.good.stuck
        · exact prevSlow_same oi hg.good.wf hp hst hd (hg.good.inr hst)
            (hg.bwd hst hd hp) hg.good.stuck

end Gsu.Iter
